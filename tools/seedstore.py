#!/usr/bin/env python3
# tools/seedstore.py <ID> <breaks> <needs> <detected_by|NONE> <signatures> [strengthened]
import sys, json, os, shutil
id_, breaks, needs, det, sigs = sys.argv[1:6]
strength = len(sys.argv) > 6 and sys.argv[6] == "strengthened"
R=os.environ.get("SEED_ROUND","")
src = f"/tmp/seed{R}-{id_}-out"; dst = f"/verif/seeded/{id_}" + (f"-{R}" if R else "")
if os.path.exists(dst): shutil.rmtree(dst)
os.makedirs(dst)
shutil.copy(f"{src}/patch.diff", dst); shutil.copy(f"{src}/notes.md", dst)
shutil.copytree(f"{src}/demo", f"{dst}/demo")
for f in os.listdir(f"{dst}/demo"):
    if f == "go.sum": os.remove(f"{dst}/demo/go.sum")
meta = {"property": id_, "breaks": breaks, "needs_to_manifest": needs,
 "origin": "fresh sub-agent given only the property text and its own scratch worktree (no access to /verif)",
 "confirmed": ["patch applies to /repo HEAD and `go build ./...` succeeds",
  "tools/baseline.py on the affected packages in the patched worktree: every stable_pass test still passes",
  "demo run by me in a scratch worktree (tools/seeddemo.sh): passes without the patch, fails with it (external demos need `replace github.com/zmap/zcrypto => <worktree>` and a copy of the repo go.sum)",
  f"tools/seedeval.sh {id_} <dir> <pkgs>: `VERIF_REPO=<patched worktree> ./check {det if det!='NONE' else id_} quick` exits {'1' if det!='NONE' else '0 (MISSED)'}"],
 "detected_by": det, "violation_signatures": sigs, "check_strengthened_to_catch_it": strength}
json.dump(meta, open(f"{dst}/meta.json", "w"), indent=1)
print("stored", dst)
