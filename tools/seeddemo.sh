#!/bin/bash
# tools/seeddemo.sh <ID> — confirm a seed's demonstration in its scratch worktree /tmp/seed-<ID>-wt: passes clean, fails patched.
ID=$1; R=${SEED_ROUND:-}; wt=/tmp/seed$R-$ID-wt; out=/tmp/seed$R-$ID-out
export GOFLAGS=-mod=mod GOPROXY=off
git -C $wt checkout -q -- . ; git -C $wt status --short | head -3
run() { (cd $out/demo && if ls *_test.go >/dev/null 2>&1; then go test -count=1 ./... 2>&1 | tail -3; else go run . 2>&1 | tail -3; fi; echo "demo-exit=${PIPESTATUS[0]}"); }
echo "-- clean"; run
git -C $wt apply $out/patch.diff && { echo "-- patched"; run; }
git -C $wt checkout -q -- .
