#!/bin/bash
# tools/seedeval.sh <ID> <seed-outdir> <pkgs for baseline, e.g. ./tls/...> [check ids to run, default <ID>]
# Confirms a seeded change in a scratch worktree (applies, builds, stable tests still pass), runs the registered
# quick check(s) against it and prints a summary. The worktree is removed afterwards.
set -u
ID="$1"; OUT="$2"; PKGS="$3"; CHECKS="${4:-$1}"
WT="/tmp/wt-seedeval-$$"
git -C /repo worktree add -q --detach "$WT" HEAD || exit 3
trap 'git -C /repo worktree remove --force "$WT" >/dev/null 2>&1' EXIT
if ! git -C "$WT" apply "$OUT/patch.diff"; then echo "SEED: patch does not apply to current HEAD"; exit 3; fi
(cd "$WT" && GOFLAGS=-mod=mod GOPROXY=off go build ./...) || { echo "SEED: does not compile"; exit 3; }
echo "== stable tests with the change ($PKGS)"
BASELINE_REPO="$WT" /verif/tools/baseline.py $PKGS | tail -4
for c in $CHECKS; do
  echo "== check $c against the change"
  VERIF_REPO="$WT" ${VERIF_CHECK:-/verif/check} "$c" quick 2>&1 | grep -E "VIOLATION|KNOWN-FINDING|BROKEN|quick:" | cut -c1-260 | head -12
  echo "exit=${PIPESTATUS[0]}"
done
