#!/bin/bash
# tools/seedprep.sh <round> <IDs...> — scratch worktree + output dir with property.json (and what earlier seeds broke) per id
r=$1; shift
for id in "$@"; do
  wt=/tmp/seed$r-$id-wt; out=/tmp/seed$r-$id-out; rm -rf $out; mkdir -p $out/demo
  git -C /repo worktree add -q --detach $wt HEAD
  grep "\"id\": \"$id\"" /verif/properties.jsonl | python3 -c "import sys,json; print(json.dumps(json.loads(sys.stdin.read()),indent=1))" > $out/property.json
  : > $out/already-done.txt
  for m in /verif/seeded/$id*/meta.json; do [ -f "$m" ] && jq -r '"- " + .breaks + " (needed: " + .needs_to_manifest + ")"' $m >> $out/already-done.txt; done
done
