#!/usr/bin/env python3
"""Generates /verif/MANIFEST.json from tools/checks.json (claimed checks) + properties.jsonl (everything else -> not_applicable)."""
import json, os, subprocess
V = os.path.dirname(os.path.dirname(os.path.abspath(__file__)))
checks = json.load(open(os.path.join(V, "tools/checks.json")))
props = [json.loads(l)["id"] for l in open(os.path.join(V, "properties.jsonl"))]
hooks_commits = checks.get("hook_commits", [])
out_checks = []
claimed = set()
for c in checks["checks"]:
    pid = c["id"]
    claimed.add(pid)
    out_checks.append({
        "property_id": pid,
        "quick_cmd": f"./check {pid} quick",
        "thorough_cmd": f"./check {pid} thorough",
        "evidence_file": f"/verif/evidence/{pid}.json",
        "replay_cmd_template": f"./check {pid} quick --replay {{path}}",
        "engine": c["engine"],
        "level_claimed": {"category": c.get("category", "model_checking"), "text": c["text"], "design_ref": c.get("design_ref", f"DESIGN.md §4 {pid}")},
        "level_note": c["note"],
        "technique": c["technique"],
    })
na = []
for p in props:
    if p not in claimed:
        na.append({"property_id": p, "reason": checks.get("not_applicable", {}).get(p, "not claimed yet: the check for this property has not been built in this session (no technique switch; see DESIGN.md §4 for the planned bounded-exhaustive exploration)")})
m = {
    "version": 1,
    "setup_cmd": "./setup.sh",
    "hooks": {
        "guard": "verif",
        "enable": "go build -tags verif (done by ./check); hook files are //go:build verif and add-only",
        "baseline_off_cmd": "cd /repo && GOFLAGS=-mod=mod GOPROXY=off go test -json -vet=off -count=1 -timeout 25m ./...",
        "source_commits": hooks_commits,
        "add_only": True,
    },
    "engines": checks["engines"],
    "checks": out_checks,
    "notes": checks.get("notes", ""),
    "not_applicable": na,
}
json.dump(m, open(os.path.join(V, "MANIFEST.json"), "w"), indent=1)
print("claimed", len(out_checks), "not_applicable", len(na))
