#!/bin/bash
# tools/seedround.sh <round> <ID> <pkgs> — demo confirmation + seedeval for one seed of a later round
R=$1; ID=$2; PK=$3
echo "#### $ID (round $R)"
SEED_ROUND=$R /verif/tools/seeddemo.sh $ID 2>&1 | grep -E "^--|demo-exit" | tr '\n' ' '; echo
/verif/tools/seedeval.sh $ID /tmp/seed$R-$ID-out "$PK" 2>&1 | grep -v KNOWN | grep -E "not passing|NOT PASSING|VIOLATION|quick:|exit=|SEED:" | cut -c1-280
