#!/bin/bash
# tools/quick-all.sh [IDs...] — run the quick tier of each registered check in turn (refreshes evidence/); one line per check.
cd "$(dirname "$0")/.." || exit 2
ids="$*"; [ -z "$ids" ] && ids=$(jq -r '.checks[].id' tools/checks.json | sort)
for id in $ids; do
  s=$(date +%s)
  out=$(./check "$id" quick 2>&1); st=$?
  echo "QUICK $id exit=$st wall=$(( $(date +%s) - s ))s known=$(echo "$out" | grep -c KNOWN-FINDING) :: $(echo "$out" | grep -E "quick:" | tail -1 | cut -c1-220)"
  echo "$out" | grep -E "VIOLATION|BROKEN" | cut -c1-300 | head -5
done
