#!/bin/bash
# tools/thorough-all.sh [IDs...] — run the thorough tier of each check in turn; one summary line per check.
cd "$(dirname "$0")/.." || exit 2
ids="$*"; [ -z "$ids" ] && ids=$(jq -r '.checks[].id' tools/checks.json | sort)
for id in $ids; do
  s=$(date +%s)
  out=$(./check "$id" thorough 2>&1); st=$?
  echo "THOROUGH $id exit=$st wall=$(( $(date +%s) - s ))s :: $(echo "$out" | grep -E "thorough:" | tail -1 | cut -c1-260)"
  echo "$out" | grep -E "VIOLATION|BROKEN" | cut -c1-300 | head -5
done
