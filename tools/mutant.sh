#!/bin/bash
# tools/mutant.sh <ID> <patch-file> [tier]  — run a check against a scratch worktree of /repo with the patch applied.
# exit status = status of the check (1 = violation detected). The worktree is removed afterwards.
set -u
ID="$1"; PATCH="$(realpath "$2")"; TIER="${3:-quick}"
WT="/tmp/wt-mut-$$"
git -C /repo worktree add -q --detach "$WT" HEAD || exit 3
trap 'git -C /repo worktree remove --force "$WT" >/dev/null 2>&1' EXIT
if ! git -C "$WT" apply "$PATCH"; then echo "MUTANT: patch does not apply"; exit 3; fi
if ! (cd "$WT" && GOFLAGS=-mod=mod GOPROXY=off go build ./... 2>&1 | tail -5; exit ${PIPESTATUS[0]}); then echo "MUTANT: does not compile"; exit 3; fi
VERIF_REPO="$WT" /verif/check "$ID" "$TIER"
st=$?
echo "MUTANT-RESULT id=$ID patch=$(basename "$PATCH") exit=$st"
exit $st
