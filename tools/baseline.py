#!/usr/bin/env python3
"""Runs the repository test suite with the verif guard OFF and checks every stable_pass test of BASELINE.json still passes."""
import json, subprocess, sys, os
b = json.load(open('/root/.vp/BASELINE.json'))
want = set(b['stable_pass'])
env = dict(os.environ, GOFLAGS='-mod=mod', GOPROXY='off')
pkgs = sys.argv[1:] or ['./...']
p = subprocess.run(['go', 'test', '-json', '-vet=off', '-count=1', '-timeout', '25m'] + pkgs, cwd=os.environ.get('BASELINE_REPO','/repo'), env=env, capture_output=True, text=True)
res = {}
for line in p.stdout.splitlines():
    try:
        e = json.loads(line)
    except Exception:
        continue
    if e.get('Test') and e.get('Action') in ('pass', 'fail', 'skip'):
        res[e['Package'] + '::' + e['Test']] = e['Action']
ran_pkgs = set(k.split('::')[0] for k in res)
missing = [t for t in want if t.split('::')[0] in ran_pkgs and res.get(t) != 'pass']
print('tests seen', len(res), 'stable_pass in scope', sum(1 for t in want if t.split('::')[0] in ran_pkgs), 'not passing', len(missing))
for t in sorted(missing)[:40]:
    print('  NOT PASSING:', t, res.get(t))
sys.exit(1 if missing else 0)
