module verifmc

go 1.25.0

require (
	github.com/sirupsen/logrus v1.9.4
	github.com/zmap/zcrypto v0.0.0
	golang.org/x/crypto v0.54.0
	golang.org/x/sys v0.47.0
)

require (
	github.com/mreiferson/go-httpclient v0.0.0-20201222173833-5e475fde3a4d // indirect
	github.com/weppos/publicsuffix-go v0.50.4-0.20260715080728-6ed62ce99a4a // indirect
	golang.org/x/net v0.57.0 // indirect
	golang.org/x/text v0.40.0 // indirect
)

replace github.com/zmap/zcrypto => /repo
