package xgen

import (
	"crypto"
	"crypto/ecdsa"
	"crypto/ed25519"
	"crypto/elliptic"
	"crypto/md5"
	stdrsa "crypto/rsa"
	"crypto/sha1"
	"crypto/sha256"
	"crypto/sha512"
	"fmt"
	"math/big"
	"strings"
	"sync"
	"time"

	"verifmc/internal/fx"
)

// Field is one field of the certificate model. Alts[0] is the default.
type Field struct {
	Name string
	Alts []string
}

// Assignment chooses one alternative per field (index into Field.Alts).
type Assignment []int

// Parts is an encoded certificate with its components.
type Parts struct {
	Cert, TBS, SPKI, Issuer, Subject, SigAlg, SigValue []byte
}

var (
	initOnce sync.Once
	fields   []Field
	fieldIdx map[string]int
	extDefs  []extDef            // extension fields, in field order
	extEnc   map[string][][]byte // field name -> per alternative: encoded Extension(s) (concatenated)
	firstExt int                 // index of the first extension field
)

const (
	fKey = iota
	fSelfIssued
	fSigAlg
	fSigAlgOuter
	fSigVal
	fVersion
	fSerial
	fValidity
	fName
	fUIDs
	fExtWrap
	nBaseFields
)

func initModel() {
	initOnce.Do(func() {
		fields = []Field{
			{"key", []string{"ed25519", "ed25519-31", "ed25519-0", "ed25519-33",
				"rsa", "rsa-e0", "rsa-e-neg1", "rsa-e-neg65537", "rsa-e-2p40", "rsa-n0", "rsa-n-neg", "rsa-n1",
				"ec-p256", "ec-p224", "ec-p384", "ec-p521", "ec-offcurve", "ec-empty", "ec-inf", "ec-unknown-curve",
				"x25519", "x25519-31", "dsa", "dsa-zero-p", "dsa-neg-y", "unknown-oid"}},
			{"selfissued", []string{"yes", "no"}},
			{"sigalg", []string{"matching", "mismatch", "pss-sha256", "pss-sha384", "pss-no-params", "pss-null-params",
				"pss-empty-seq", "pss-mgf-bad-params", "pss-salt-neg", "pss-salt-huge", "pss-trailer-2", "pss-truncated",
				"pss-hash-mismatch", "unknown-oid", "ed25519-null-params", "md2-rsa", "md5-rsa", "sha1-rsa", "ecdsa-sha1", "dsa-sha1", "no-oid"}},
			{"sigalg-outer", []string{"same", "differs"}},
			{"sigval", []string{"valid", "zero", "ff", "eq-n", "empty", "one-byte", "long", "unused-bits-7", "no-unused-octet"}},
			{"version", []string{"v3", "v1-absent", "v2", "v4", "negative", "v1-explicit", "big", "wrong-tag"}},
			{"serial", []string{"small", "zero", "negative", "21-bytes", "empty", "non-minimal"}},
			{"validity", []string{"utc", "generalized", "swapped", "year-0", "year-9999", "malformed", "utc-no-seconds",
				"utc-offset", "one-time-only", "gen-fraction", "utc-2050"}},
			{"name", []string{"cn-utf8", "empty", "multi-dv", "printable-bad", "utf8-invalid", "bmp-odd", "t61-high",
				"value-empty", "multi-valued-rdn", "attr-no-value", "rdn-not-set", "email-ia5-highbit", "persona-startcom",
				// host names as common name: together with the "san" alternatives dns-*-ties they give names
				// that TIE under the normalisations a name collector may apply (case, trailing dot, IDNA)
				"cn-dns-mixedcase", "cn-dns-lower", "cn-dns-trailing-dot", "cn-dns-punycode"}},
			{"uids", []string{"absent", "issuer", "subject", "both"}},
			{"extwrap", []string{"normal", "empty-seq", "wrong-ctx-tag", "not-explicit"}},
		}
		firstExt = len(fields)
		extDefs = buildExtDefs()
		extEnc = map[string][][]byte{}
		for _, e := range extDefs {
			f := Field{Name: e.name, Alts: []string{"absent", "valid", "empty", "truncated", "wrong-tag", "duplicated", "critical"}}
			wrong := append([]byte(nil), e.valid...)
			if wrong[0] != 0x04 {
				wrong[0] = 0x04
			} else {
				wrong[0] = 0x30
			}
			v := extension(e.oid, false, e.valid)
			encs := [][]byte{
				nil,
				v,
				extension(e.oid, false, nil),
				extension(e.oid, false, e.valid[:len(e.valid)-1]),
				extension(e.oid, false, wrong),
				cat(v, v),
				extension(e.oid, true, e.valid),
			}
			for _, a := range e.alts {
				f.Alts = append(f.Alts, a.name)
				encs = append(encs, extension(e.oid, a.critical, a.value))
			}
			fields = append(fields, f)
			extEnc[e.name] = encs
		}
		fieldIdx = map[string]int{}
		for i, f := range fields {
			fieldIdx[f.Name] = i
		}
		initKeys()
	})
}

// Fields returns the field table of the certificate model.
func Fields() []Field { initModel(); return fields }

// FieldIndex returns the index of a field, -1 when unknown.
func FieldIndex(name string) int {
	initModel()
	if i, ok := fieldIdx[name]; ok {
		return i
	}
	return -1
}

// Default returns the all-default assignment.
func Default() Assignment { initModel(); return make(Assignment, len(fields)) }

// With returns a copy with field set to alt; it panics on unknown names
// (generator construction errors must not pass silently).
func (a Assignment) With(field, alt string) Assignment {
	initModel()
	i, ok := fieldIdx[field]
	if !ok {
		panic("xgen: no field " + field)
	}
	for k, n := range fields[i].Alts {
		if n == alt {
			b := append(Assignment(nil), a...)
			b[i] = k
			return b
		}
	}
	panic("xgen: field " + field + " has no alternative " + alt)
}

// Get returns the chosen alternative name of a field.
func (a Assignment) Get(field string) string {
	initModel()
	i := fieldIdx[field]
	return fields[i].Alts[a[i]]
}

func (a Assignment) String() string {
	initModel()
	var sb strings.Builder
	for i, v := range a {
		if v != 0 {
			if sb.Len() > 0 {
				sb.WriteByte(' ')
			}
			sb.WriteString(fields[i].Name + "=" + fields[i].Alts[v])
		}
	}
	if sb.Len() == 0 {
		return "default"
	}
	return sb.String()
}

// ParseAssignment is the inverse of Assignment.String.
func ParseAssignment(s string) (a Assignment, err error) {
	defer func() {
		if r := recover(); r != nil {
			err = fmt.Errorf("%v", r)
		}
	}()
	a = Default()
	if s == "default" || s == "" {
		return a, nil
	}
	for _, kv := range strings.Fields(s) {
		p := strings.SplitN(kv, "=", 2)
		if len(p) != 2 {
			return nil, fmt.Errorf("xgen: bad assignment element %q", kv)
		}
		a = a.With(p[0], p[1])
	}
	return a, nil
}

// EnumAssignments visits every assignment with at most d non-default fields:
// first the default, then all with exactly 1 deviation, then 2, ... Within a
// level the order is lexicographic in (field indices, alternative indices).
// The Assignment passed to visit is reused: copy it to keep it.
func EnumAssignments(d int, visit func(Assignment) bool) {
	initModel()
	a := Default()
	if !visit(a) {
		return
	}
	for k := 1; k <= d && k <= len(fields); k++ {
		if !enumLevel(a, 0, k, visit) {
			return
		}
	}
	// saturated assignments, independent of d: EVERY field non-default at once -- the k-th alternative of each
	// field (cyclically) for every k up to the longest alternative list. The deviation bound can never reach a
	// certificate that carries everything at once (all extensions, the longest lists).
	for k := 0; k < saturated(); k++ {
		for i, f := range fields {
			if n := len(f.Alts) - 1; n > 0 {
				a[i] = 1 + k%n
			}
		}
		if !visit(a) {
			return
		}
	}
	for i := range a {
		a[i] = 0
	}
}

// saturated is the number of saturated assignments EnumAssignments visits after the bounded ones.
func saturated() int {
	m := 0
	for _, f := range fields {
		if n := len(f.Alts) - 1; n > m {
			m = n
		}
	}
	return m
}

func enumLevel(a Assignment, from, k int, visit func(Assignment) bool) bool {
	if k == 0 {
		return visit(a)
	}
	for i := from; i <= len(fields)-k; i++ {
		for v := 1; v < len(fields[i].Alts); v++ {
			a[i] = v
			if !enumLevel(a, i+1, k-1, visit) {
				a[i] = 0
				return false
			}
		}
		a[i] = 0
	}
	return true
}

// CountAssignments returns the number of assignments EnumAssignments(d) visits.
func CountAssignments(d int) int64 {
	initModel()
	// elementary symmetric polynomials of (alts-1)
	e := make([]int64, d+1)
	e[0] = 1
	for _, f := range fields {
		x := int64(len(f.Alts) - 1)
		for k := d; k >= 1; k-- {
			e[k] += e[k-1] * x
		}
	}
	var s int64
	for _, v := range e {
		s += v
	}
	return s + int64(saturated())
}

// CertModel enumerates the encodings of all assignments with ≤ d deviations.
func CertModel(d int) Enum {
	return func(visit func(string, []byte) bool) {
		EnumAssignments(d, func(a Assignment) bool {
			return visit(a.String(), Encode(a))
		})
	}
}

// ---------------------------------------------------------------------------
// keys

type keyMat struct {
	edPub, edIssuerPub     []byte
	edPriv, edIssuerPriv   ed25519.PrivateKey
	rsa                    *stdrsa.PrivateKey
	ec                     map[string]*ecdsa.PrivateKey
	dsaP, dsaQ, dsaG, dsaY *big.Int
	dsaX                   *big.Int
	x25519                 []byte
}

var km keyMat

func initKeys() {
	km.edPriv = fx.Ed("xgen-subject")
	km.edPub = km.edPriv.Public().(ed25519.PublicKey)
	km.edIssuerPriv = fx.Ed("xgen-issuer")
	km.edIssuerPub = km.edIssuerPriv.Public().(ed25519.PublicKey)
	km.rsa = fx.StdRSA("rsa1024")
	km.ec = map[string]*ecdsa.PrivateKey{}
	for _, c := range []string{"p224", "p256", "p384", "p521"} {
		km.ec[c] = fx.EC(c)
	}
	d := fx.DSA("dsa1024")
	km.dsaP, km.dsaQ, km.dsaG, km.dsaY, km.dsaX = d.P, d.Q, d.G, d.Y, d.X
	h := sha256.Sum256([]byte("xgen-x25519"))
	km.x25519 = h[:]
}

var (
	oidRSA        = []int{1, 2, 840, 113549, 1, 1, 1}
	oidDSA        = []int{1, 2, 840, 10040, 4, 1}
	oidEC         = []int{1, 2, 840, 10045, 2, 1}
	oidEd25519    = []int{1, 3, 101, 112}
	oidX25519     = []int{1, 3, 101, 110}
	oidCurve      = map[string][]int{"p224": {1, 3, 132, 0, 33}, "p256": {1, 2, 840, 10045, 3, 1, 7}, "p384": {1, 3, 132, 0, 34}, "p521": {1, 3, 132, 0, 35}}
	oidSHA256     = []int{2, 16, 840, 1, 101, 3, 4, 2, 1}
	oidSHA384     = []int{2, 16, 840, 1, 101, 3, 4, 2, 2}
	oidMGF1       = []int{1, 2, 840, 113549, 1, 1, 8}
	oidPSS        = []int{1, 2, 840, 113549, 1, 1, 10}
	oidSHA256RSA  = []int{1, 2, 840, 113549, 1, 1, 11}
	oidECDSA256   = []int{1, 2, 840, 10045, 4, 3, 2}
	oidECDSA384   = []int{1, 2, 840, 10045, 4, 3, 3}
	oidECDSA512   = []int{1, 2, 840, 10045, 4, 3, 4}
	oidDSASHA256  = []int{2, 16, 840, 1, 101, 3, 4, 3, 2}
	oidCommonName = []int{2, 5, 4, 3}
)

func algID(oid []int, params []byte) []byte { return Seq(OID(oid...), params) }

func ecPoint(k *ecdsa.PrivateKey) []byte {
	return elliptic.Marshal(k.Curve, k.X, k.Y)
}

// keyFamily: which private key stands behind a key alternative.
func keyFamily(alt string) string {
	switch {
	case strings.HasPrefix(alt, "rsa"):
		return "rsa"
	case alt == "ec-p224":
		return "p224"
	case alt == "ec-p384":
		return "p384"
	case alt == "ec-p521":
		return "p521"
	case strings.HasPrefix(alt, "ec-"):
		return "p256"
	case strings.HasPrefix(alt, "dsa"):
		return "dsa"
	}
	return "ed"
}

func spki(alt string) []byte {
	rsaKey := func(n, e *big.Int) []byte {
		return Seq(algID(oidRSA, Null()), BitString(Seq(BigInt(n), BigInt(e))))
	}
	N, E := km.rsa.N, big.NewInt(int64(km.rsa.E))
	ecKey := func(curve []int, point []byte) []byte {
		return Seq(algID(oidEC, OID(curve...)), BitString(point))
	}
	dsaKey := func(p, y *big.Int) []byte {
		return Seq(algID(oidDSA, Seq(BigInt(p), BigInt(km.dsaQ), BigInt(km.dsaG))), BitString(BigInt(y)))
	}
	switch alt {
	case "ed25519":
		return Seq(Seq(OID(oidEd25519...)), BitString(km.edPub))
	case "ed25519-31":
		return Seq(Seq(OID(oidEd25519...)), BitString(km.edPub[:31]))
	case "ed25519-0":
		return Seq(Seq(OID(oidEd25519...)), BitString(nil))
	case "ed25519-33":
		return Seq(Seq(OID(oidEd25519...)), BitString(cat(km.edPub, []byte{0})))
	case "rsa":
		return rsaKey(N, E)
	case "rsa-e0":
		return rsaKey(N, big.NewInt(0))
	case "rsa-e-neg1":
		return rsaKey(N, big.NewInt(-1))
	case "rsa-e-neg65537":
		return rsaKey(N, big.NewInt(-65537))
	case "rsa-e-2p40":
		return rsaKey(N, new(big.Int).Lsh(big.NewInt(1), 40))
	case "rsa-n0":
		return rsaKey(big.NewInt(0), E)
	case "rsa-n-neg":
		return rsaKey(new(big.Int).Neg(N), E)
	case "rsa-n1":
		return rsaKey(big.NewInt(1), E)
	case "ec-p256", "ec-p224", "ec-p384", "ec-p521":
		c := strings.TrimPrefix(alt, "ec-")
		return ecKey(oidCurve[c], ecPoint(km.ec[c]))
	case "ec-offcurve":
		p := ecPoint(km.ec["p256"])
		p[len(p)-1] ^= 1
		return ecKey(oidCurve["p256"], p)
	case "ec-empty":
		return ecKey(oidCurve["p256"], nil)
	case "ec-inf":
		return ecKey(oidCurve["p256"], []byte{0})
	case "ec-unknown-curve":
		return ecKey([]int{1, 3, 132, 0, 1}, ecPoint(km.ec["p256"]))
	case "x25519":
		return Seq(Seq(OID(oidX25519...)), BitString(km.x25519))
	case "x25519-31":
		return Seq(Seq(OID(oidX25519...)), BitString(km.x25519[:31]))
	case "dsa":
		return dsaKey(km.dsaP, km.dsaY)
	case "dsa-zero-p":
		return dsaKey(big.NewInt(0), km.dsaY)
	case "dsa-neg-y":
		return dsaKey(km.dsaP, new(big.Int).Neg(km.dsaY))
	case "unknown-oid":
		return Seq(algID([]int{1, 2, 3, 4}, Null()), BitString(filler(24)))
	}
	panic("xgen: key alt " + alt)
}

// ---------------------------------------------------------------------------
// signature algorithm identifiers

func pssParams(hash []int, salt []byte, trailer []byte) []byte {
	h := algID(hash, Null())
	parts := [][]byte{Explicit(0, h), Explicit(1, algID(oidMGF1, h)), Explicit(2, salt)}
	if trailer != nil {
		parts = append(parts, Explicit(3, trailer))
	}
	return Seq(parts...)
}

func naturalSigAlg(family string) []byte {
	switch family {
	case "rsa":
		return algID(oidSHA256RSA, Null())
	case "p224", "p256":
		return Seq(OID(oidECDSA256...))
	case "p384":
		return Seq(OID(oidECDSA384...))
	case "p521":
		return Seq(OID(oidECDSA512...))
	case "dsa":
		return Seq(OID(oidDSASHA256...))
	}
	return Seq(OID(oidEd25519...))
}

func sigAlgID(alt, family string) []byte {
	sha256ai := algID(oidSHA256, Null())
	switch alt {
	case "matching":
		return naturalSigAlg(family)
	case "mismatch":
		if family == "rsa" {
			return Seq(OID(oidECDSA256...))
		}
		return algID(oidSHA256RSA, Null())
	case "pss-sha256":
		return algID(oidPSS, pssParams(oidSHA256, Int(32), nil))
	case "pss-sha384":
		return algID(oidPSS, pssParams(oidSHA384, Int(48), Int(1)))
	case "pss-no-params":
		return Seq(OID(oidPSS...))
	case "pss-null-params":
		return algID(oidPSS, Null())
	case "pss-empty-seq":
		return algID(oidPSS, Seq())
	case "pss-mgf-bad-params":
		return algID(oidPSS, Seq(Explicit(0, sha256ai), Explicit(1, algID(oidMGF1, Int(5))), Explicit(2, Int(32))))
	case "pss-salt-neg":
		return algID(oidPSS, pssParams(oidSHA256, Int(-1), nil))
	case "pss-salt-huge":
		return algID(oidPSS, pssParams(oidSHA256, BigInt(new(big.Int).Lsh(big.NewInt(1), 70)), nil))
	case "pss-trailer-2":
		return algID(oidPSS, pssParams(oidSHA256, Int(32), Int(2)))
	case "pss-truncated":
		p := pssParams(oidSHA256, Int(32), nil)
		return algID(oidPSS, p[:len(p)-1])
	case "pss-hash-mismatch":
		return algID(oidPSS, Seq(Explicit(0, sha256ai), Explicit(1, algID(oidMGF1, algID(oidSHA384, Null()))), Explicit(2, Int(32))))
	case "unknown-oid":
		return algID([]int{1, 2, 3, 4, 5}, Null())
	case "ed25519-null-params":
		return algID(oidEd25519, Null())
	case "md2-rsa":
		return algID([]int{1, 2, 840, 113549, 1, 1, 2}, Null())
	case "md5-rsa":
		return algID([]int{1, 2, 840, 113549, 1, 1, 4}, Null())
	case "sha1-rsa":
		return algID([]int{1, 2, 840, 113549, 1, 1, 5}, Null())
	case "ecdsa-sha1":
		return Seq(OID(1, 2, 840, 10045, 4, 1))
	case "dsa-sha1":
		return Seq(OID(1, 2, 840, 10040, 4, 3))
	case "no-oid":
		return Seq()
	}
	panic("xgen: sigalg alt " + alt)
}

// zeroReader yields zero bytes (fixed PSS salt).
type zeroReader struct{}

func (zeroReader) Read(p []byte) (int, error) {
	for i := range p {
		p[i] = 0
	}
	return len(p), nil
}

// sign produces the "valid" signature of tbs by the key family under the
// requested algorithm alternative (falling back to the family's natural
// algorithm when the alternative does not fit the key).
func sign(family, sigalg string, issuer bool, tbs []byte) []byte {
	switch family {
	case "rsa":
		h, hv := crypto.SHA256, sha256.Sum256(tbs)
		digest := hv[:]
		switch sigalg {
		case "md5-rsa":
			d := md5.Sum(tbs)
			h, digest = crypto.MD5, d[:]
		case "sha1-rsa":
			d := sha1.Sum(tbs)
			h, digest = crypto.SHA1, d[:]
		case "pss-sha384":
			d := sha512.Sum384(tbs)
			h, digest = crypto.SHA384, d[:]
		}
		if strings.HasPrefix(sigalg, "pss") {
			s, err := stdrsa.SignPSS(zeroReader{}, km.rsa, h, digest, &stdrsa.PSSOptions{SaltLength: stdrsa.PSSSaltLengthEqualsHash})
			if err != nil {
				panic(err)
			}
			return s
		}
		s, err := stdrsa.SignPKCS1v15(nil, km.rsa, h, digest)
		if err != nil {
			panic(err)
		}
		return s
	case "p224", "p256", "p384", "p521":
		var digest []byte
		var h crypto.Hash
		switch family {
		case "p384":
			d := sha512.Sum384(tbs)
			digest, h = d[:], crypto.SHA384
		case "p521":
			d := sha512.Sum512(tbs)
			digest, h = d[:], crypto.SHA512
		default:
			d := sha256.Sum256(tbs)
			digest, h = d[:], crypto.SHA256
		}
		if sigalg == "ecdsa-sha1" {
			d := sha1.Sum(tbs)
			digest, h = d[:], crypto.SHA1
		}
		// rand == nil: deterministic RFC 6979 signature (Go ≥ 1.24)
		s, err := km.ec[family].Sign(nil, digest, h)
		if err != nil {
			panic(err)
		}
		return s
	case "dsa":
		d := sha256.Sum256(tbs)
		digest := d[:]
		if sigalg == "dsa-sha1" {
			d1 := sha1.Sum(tbs)
			digest = d1[:]
		}
		return dsaSign(digest)
	}
	if issuer {
		return ed25519.Sign(km.edIssuerPriv, tbs)
	}
	return ed25519.Sign(km.edPriv, tbs)
}

// dsaSign is textbook DSA (FIPS 186-3 §4.6) with a nonce derived from the
// digest, so that signatures are reproducible. Like crypto/dsa.Sign (and the
// x509 packages that call it) the digest is NOT truncated to the size of q.
func dsaSign(digest []byte) []byte {
	q, p, g, x := km.dsaQ, km.dsaP, km.dsaG, km.dsaX
	z := new(big.Int).SetBytes(digest)
	for ctr := 0; ; ctr++ {
		kh := sha256.Sum256(append(append([]byte("xgen-dsa-k"), digest...), byte(ctr)))
		k := new(big.Int).SetBytes(kh[:])
		k.Mod(k, new(big.Int).Sub(q, big.NewInt(1)))
		k.Add(k, big.NewInt(1))
		r := new(big.Int).Exp(g, k, p)
		r.Mod(r, q)
		if r.Sign() == 0 {
			continue
		}
		kinv := new(big.Int).ModInverse(k, q)
		s := new(big.Int).Mul(x, r)
		s.Add(s, z)
		s.Mul(s, kinv)
		s.Mod(s, q)
		if s.Sign() == 0 {
			continue
		}
		return Seq(BigInt(r), BigInt(s))
	}
}

// ---------------------------------------------------------------------------
// names, validity, etc.

func atv(oid []int, val []byte) []byte { return Seq(OID(oid...), val) }
func rdn(atvs ...[]byte) []byte        { return Set(atvs...) }

func nameFor(alt, cn string) []byte {
	switch alt {
	case "cn-utf8":
		return Seq(rdn(atv(oidCommonName, UTF8(cn))))
	case "empty":
		return Seq()
	case "multi-dv":
		return Seq(rdn(atv([]int{2, 5, 4, 6}, Printable("US"))), rdn(atv([]int{2, 5, 4, 10}, UTF8(cn))),
			rdn(atv([]int{2, 5, 4, 11}, UTF8("Domain Control Validated"))), rdn(atv(oidCommonName, UTF8(cn))))
	case "printable-bad":
		return Seq(rdn(atv(oidCommonName, Printable("a@b_"+cn))))
	case "utf8-invalid":
		return Seq(rdn(atv(oidCommonName, TLV(0x0c, []byte{0xff, 0xfe, 'x'}))))
	case "bmp-odd":
		return Seq(rdn(atv(oidCommonName, BMP([]byte{0, 'a', 0}))))
	case "t61-high":
		return Seq(rdn(atv(oidCommonName, T61("caf\xe9 "+cn))))
	case "value-empty":
		return Seq(rdn(atv(oidCommonName, UTF8(""))))
	case "multi-valued-rdn":
		return Seq(rdn(atv(oidCommonName, UTF8(cn)), atv([]int{2, 5, 4, 5}, Printable("42"))))
	case "attr-no-value":
		return Seq(rdn(Seq(OID(oidCommonName...))))
	case "rdn-not-set":
		return Seq(Seq(atv(oidCommonName, UTF8(cn))))
	case "email-ia5-highbit":
		return Seq(rdn(atv([]int{1, 2, 840, 113549, 1, 9, 1}, IA5("a\x80@"+cn))))
	case "persona-startcom":
		return Seq(rdn(atv([]int{2, 5, 4, 10}, UTF8("Persona Not Validated"))), rdn(atv(oidCommonName, UTF8("StartCom "+cn))))
	case "cn-dns-mixedcase":
		return Seq(rdn(atv(oidCommonName, UTF8(TieHost("mixed")))))
	case "cn-dns-lower":
		return Seq(rdn(atv(oidCommonName, UTF8(TieHost("lower")))))
	case "cn-dns-trailing-dot":
		return Seq(rdn(atv(oidCommonName, UTF8(TieHost("lower")+"."))))
	case "cn-dns-punycode":
		return Seq(rdn(atv(oidCommonName, UTF8(TieHost("puny")))))
	}
	panic("xgen: name alt " + alt)
}

func validityFor(alt string) []byte {
	nb, na := fx.T0.Add(-24*time.Hour), fx.T0.Add(24*time.Hour)
	switch alt {
	case "utc":
		return Seq(UTCTime(nb), UTCTime(na))
	case "generalized":
		return Seq(GenTime(nb), GenTime(na))
	case "swapped":
		return Seq(UTCTime(na), UTCTime(nb))
	case "year-0":
		return Seq(TimeRaw(0x18, "00000101000000Z"), UTCTime(na))
	case "year-9999":
		return Seq(UTCTime(nb), TimeRaw(0x18, "99991231235959Z"))
	case "malformed":
		return Seq(TimeRaw(0x17, "notatimeZ"), UTCTime(na))
	case "utc-no-seconds":
		return Seq(TimeRaw(0x17, "2601141200Z"), UTCTime(na))
	case "utc-offset":
		return Seq(TimeRaw(0x17, "260114120000+0100"), UTCTime(na))
	case "one-time-only":
		return Seq(UTCTime(nb))
	case "gen-fraction":
		return Seq(TimeRaw(0x18, "20260114120000.5Z"), UTCTime(na))
	case "utc-2050":
		return Seq(UTCTime(nb), TimeRaw(0x17, "500101000000Z"))
	}
	panic("xgen: validity alt " + alt)
}

func versionFor(alt string) []byte {
	switch alt {
	case "v3":
		return Explicit(0, Int(2))
	case "v1-absent":
		return nil
	case "v2":
		return Explicit(0, Int(1))
	case "v4":
		return Explicit(0, Int(3))
	case "negative":
		return Explicit(0, Int(-1))
	case "v1-explicit":
		return Explicit(0, Int(0))
	case "big":
		return Explicit(0, IntRaw([]byte{0x01, 0, 0, 0, 0, 0, 0, 0, 0}))
	case "wrong-tag":
		return Explicit(1, Int(2))
	}
	panic("xgen: version alt " + alt)
}

func serialFor(alt string) []byte {
	switch alt {
	case "small":
		return IntRaw([]byte{0x01, 0x02})
	case "zero":
		return Int(0)
	case "negative":
		return Int(-5)
	case "21-bytes":
		return IntRaw(cat([]byte{0x7f}, filler(20)))
	case "empty":
		return IntRaw(nil)
	case "non-minimal":
		return IntRaw([]byte{0x00, 0x01})
	}
	panic("xgen: serial alt " + alt)
}

// SignerKeyName names the fx fixture behind the key that signs the certificate.
func SignerKeyName(a Assignment) string {
	if a.Get("selfissued") == "no" {
		return "ed25519:xgen-issuer"
	}
	switch f := keyFamily(a.Get("key")); f {
	case "rsa":
		return "rsa1024"
	case "dsa":
		return "dsa1024"
	case "ed":
		return "ed25519:xgen-subject"
	default:
		return f
	}
}

// ModelExtension returns the encoded Extension element(s) that the model
// emits for an alternative of an extension field, e.g. ("poison","critical")
// or ("sct","valid"); nil for "absent". It panics on unknown names.
func ModelExtension(field, alt string) []byte {
	a := Default().With(field, alt)
	encs, ok := extEnc[field]
	if !ok {
		panic("xgen: " + field + " is not an extension field")
	}
	return encs[a[fieldIdx[field]]]
}

// AssembleCert wraps a TBSCertificate, an AlgorithmIdentifier and raw
// signature bytes into a Certificate.
func AssembleCert(tbs, sigAlg, sig []byte) []byte { return Seq(tbs, sigAlg, BitString(sig)) }

// Encode returns the DER of the certificate described by a.
func Encode(a Assignment) []byte { return EncodeParts(a).Cert }

// EncodeParts encodes a and also returns the components.
func EncodeParts(a Assignment) Parts {
	initModel()
	alt := func(i int) string { return fields[i].Alts[a[i]] }
	keyAlt := alt(fKey)
	self := a[fSelfIssued] == 0
	family := "ed"
	if self {
		family = keyFamily(keyAlt)
	}
	var p Parts
	p.SPKI = spki(keyAlt)
	p.Subject = nameFor(alt(fName), "xgen subject")
	if self {
		p.Issuer = p.Subject
	} else {
		p.Issuer = nameFor("cn-utf8", "xgen issuer")
	}
	sigAlt := alt(fSigAlg)
	p.SigAlg = sigAlgID(sigAlt, family)
	outer := p.SigAlg
	if a[fSigAlgOuter] != 0 {
		if family == "rsa" {
			outer = Seq(OID(oidECDSA256...))
		} else {
			outer = algID(oidSHA256RSA, Null())
		}
	}
	var exts []byte
	for i := firstExt; i < len(fields); i++ {
		if a[i] != 0 {
			exts = append(exts, extEnc[fields[i].Name][a[i]]...)
		}
	}
	var extPart []byte
	switch alt(fExtWrap) {
	case "normal":
		if len(exts) > 0 {
			extPart = Explicit(3, Seq(exts))
		}
	case "empty-seq":
		extPart = Explicit(3, Seq())
	case "wrong-ctx-tag":
		extPart = Explicit(2, Seq(exts))
	case "not-explicit":
		extPart = Seq(exts)
	}
	var uid []byte
	switch alt(fUIDs) {
	case "issuer":
		uid = Ctx(1, false, []byte{0, 1, 2, 3})
	case "subject":
		uid = Ctx(2, false, []byte{0, 4, 5, 6})
	case "both":
		uid = cat(Ctx(1, false, []byte{0, 1, 2, 3}), Ctx(2, false, []byte{0, 4, 5, 6}))
	}
	p.TBS = Seq(versionFor(alt(fVersion)), serialFor(alt(fSerial)), p.SigAlg, p.Issuer,
		validityFor(alt(fValidity)), p.Subject, p.SPKI, uid, extPart)

	sv := alt(fSigVal)
	var sig []byte
	needValid := sv == "valid" || sv == "zero" || sv == "ff" || sv == "long" || sv == "unused-bits-7" || (sv == "eq-n" && family != "rsa")
	if needValid {
		sig = sign(family, sigAlt, !self, p.TBS)
	}
	bits := byte(0)
	switch sv {
	case "zero":
		sig = make([]byte, len(sig))
	case "ff":
		n := len(sig)
		sig = make([]byte, n)
		for i := range sig {
			sig[i] = 0xff
		}
	case "eq-n":
		if family == "rsa" {
			sig = km.rsa.N.Bytes()
		} else {
			for i := range sig {
				sig[i] = byte(i + 1)
			}
		}
	case "empty":
		sig = nil
	case "one-byte":
		sig = []byte{0x00}
	case "long":
		sig = append(sig, 0x00)
	case "unused-bits-7":
		bits = 7
	}
	if sv == "no-unused-octet" {
		p.SigValue = TLV(0x03)
	} else {
		p.SigValue = BitStringUnused(bits, sig)
	}
	p.Cert = Seq(p.TBS, outer, p.SigValue)
	return p
}
