package xgen

import (
	"bufio"
	"bytes"
	"crypto"
	"crypto/ecdsa"
	"crypto/sha256"
	"encoding/hex"
	"encoding/pem"
	"go/ast"
	"go/parser"
	"go/token"
	"io"
	"io/fs"
	"math/big"
	"os"
	"path/filepath"
	"sort"
	"strconv"
	"strings"
	"time"

	zx509 "github.com/zmap/zcrypto/x509"
	zpkix "github.com/zmap/zcrypto/x509/pkix"
	"verifmc/internal/fx"
)

// Seed is one fixture of the corpus.
type Seed struct {
	Name string // where it came from (path[#n] or path:ConstName)
	Kind string // see package documentation
	Data []byte
}

// OfKind filters seeds by kind.
func OfKind(seeds []Seed, kinds ...string) []Seed {
	var out []Seed
	for _, s := range seeds {
		for _, k := range kinds {
			if s.Kind == k {
				out = append(out, s)
				break
			}
		}
	}
	return out
}

func pemKind(t string) string {
	switch t {
	case "CERTIFICATE", "TRUSTED CERTIFICATE", "X509 CERTIFICATE":
		return "cert"
	case "X509 CRL":
		return "crl"
	case "CERTIFICATE REQUEST", "NEW CERTIFICATE REQUEST":
		return "csr"
	case "RSA PRIVATE KEY":
		return "privkey-pkcs1"
	case "PRIVATE KEY":
		return "privkey-pkcs8"
	case "EC PRIVATE KEY":
		return "privkey-ec"
	case "PUBLIC KEY":
		return "pubkey"
	case "RSA PUBLIC KEY":
		return "pubkey-pkcs1"
	}
	return "der"
}

func isTime(n *Node) bool { return len(n.Tag) == 1 && (n.Tag[0] == 0x17 || n.Tag[0] == 0x18) }

// derKind classifies a DER blob structurally (own TLV walker, no zcrypto).
func derKind(b []byte, hint string) string {
	root, err := ParseTLV(b)
	if err != nil || root.Tag[0] != 0x30 || !root.Wrapping() {
		return ""
	}
	k := root.Kids
	h := strings.ToLower(hint)
	if len(k) >= 1 && k[0].Tag[0] == 0x0a {
		return "ocsp-response"
	}
	if len(k) == 3 && k[0].Tag[0] == 0x30 && k[1].Tag[0] == 0x30 && k[2].Tag[0] == 0x03 && k[0].Wrapping() {
		t := k[0].Kids
		for _, x := range t {
			if isTime(x) {
				return "crl"
			}
		}
		for _, x := range t {
			if x.Tag[0] == 0x30 && len(x.Kids) == 2 && isTime(x.Kids[0]) && isTime(x.Kids[1]) {
				return "cert"
			}
		}
		if len(t) >= 3 && t[0].Tag[0] == 0x02 && t[1].Tag[0] == 0x30 && t[2].Tag[0] == 0x30 {
			return "csr"
		}
	}
	if strings.Contains(h, "request") && strings.Contains(h, "ocsp") {
		return "ocsp-request"
	}
	if len(k) >= 3 && k[0].Tag[0] == 0x02 && k[1].Tag[0] == 0x30 && k[2].Tag[0] == 0x04 {
		return "privkey-pkcs8"
	}
	if len(k) >= 9 && k[0].Tag[0] == 0x02 && k[1].Tag[0] == 0x02 {
		return "privkey-pkcs1"
	}
	if len(k) >= 2 && k[0].Tag[0] == 0x02 && k[1].Tag[0] == 0x04 {
		return "privkey-ec"
	}
	if len(k) == 2 && k[0].Tag[0] == 0x30 && k[1].Tag[0] == 0x03 {
		return "pubkey"
	}
	return "der"
}

func isHex(s string) bool {
	if len(s) < 40 || len(s)%2 != 0 {
		return false
	}
	for i := 0; i < len(s); i++ {
		c := s[i]
		if !(c >= '0' && c <= '9' || c >= 'a' && c <= 'f' || c >= 'A' && c <= 'F') {
			return false
		}
	}
	return true
}

// constString evaluates "lit" + "lit" + ... expressions.
func constString(e ast.Expr) (string, bool) {
	switch v := e.(type) {
	case *ast.BasicLit:
		if v.Kind != token.STRING {
			return "", false
		}
		s, err := strconv.Unquote(v.Value)
		return s, err == nil
	case *ast.BinaryExpr:
		if v.Op != token.ADD {
			return "", false
		}
		a, ok1 := constString(v.X)
		b, ok2 := constString(v.Y)
		return a + b, ok1 && ok2
	case *ast.ParenExpr:
		return constString(v.X)
	}
	return "", false
}

// tlsFlows extracts the plaintext handshake messages of a recorded
// crypto/tls test transcript (tls/testdata/*).
func tlsFlows(data []byte) [][]byte {
	var flows [][]byte
	var cur []byte
	sc := bufio.NewScanner(bytes.NewReader(data))
	sc.Buffer(make([]byte, 1<<20), 1<<20)
	flush := func() {
		if cur != nil {
			flows = append(flows, cur)
		}
		cur = nil
	}
	for sc.Scan() {
		line := sc.Text()
		if strings.HasPrefix(line, ">>> Flow") {
			flush()
			cur = []byte{}
			continue
		}
		if cur == nil || len(line) < 10 {
			continue
		}
		// "00000000  16 03 01 00 fa 01 00 00  f6 03 ...  |....|"
		body := line[10:]
		if i := strings.Index(body, "|"); i >= 0 {
			body = body[:i]
		}
		for _, f := range strings.Fields(body) {
			if len(f) == 2 {
				if b, err := hex.DecodeString(f); err == nil {
					cur = append(cur, b...)
				}
			}
		}
	}
	flush()
	var msgs [][]byte
	for _, fl := range flows {
		var hs []byte
		for len(fl) >= 5 {
			n := int(fl[3])<<8 | int(fl[4])
			if 5+n > len(fl) {
				break
			}
			if fl[0] == 0x14 { // ChangeCipherSpec: everything after is encrypted
				break
			}
			if fl[0] == 0x16 {
				hs = append(hs, fl[5:5+n]...)
			}
			fl = fl[5+n:]
		}
		for len(hs) >= 4 {
			n := int(hs[1])<<16 | int(hs[2])<<8 | int(hs[3])
			if 4+n > len(hs) || hs[0] > 24 {
				break
			}
			msgs = append(msgs, append([]byte(nil), hs[:4+n]...))
			hs = hs[4+n:]
		}
	}
	return msgs
}

// LoadSeeds collects every fixture found under repoDir. The result is sorted
// by (kind, name) and de-duplicated by content; it does not depend on
// anything but the files.
func LoadSeeds(repoDir string) []Seed {
	var out []Seed
	add := func(name, kind string, data []byte) {
		if len(data) == 0 || kind == "" {
			return
		}
		out = append(out, Seed{Name: name, Kind: kind, Data: append([]byte(nil), data...)})
	}
	addPEMs := func(name string, data []byte) int {
		n := 0
		rest := data
		for {
			var blk *pem.Block
			blk, rest = pem.Decode(rest)
			if blk == nil {
				break
			}
			k := pemKind(blk.Type)
			if k == "der" {
				if dk := derKind(blk.Bytes, name); dk != "" {
					k = dk
				}
			}
			add(name+"#"+strconv.Itoa(n), k, blk.Bytes)
			n++
		}
		return n
	}
	filepath.WalkDir(repoDir, func(path string, d fs.DirEntry, err error) error {
		if err != nil {
			return nil
		}
		rel, _ := filepath.Rel(repoDir, path)
		if d.IsDir() {
			if strings.HasPrefix(d.Name(), ".") && path != repoDir {
				return filepath.SkipDir
			}
			return nil
		}
		info, err := d.Info()
		if err != nil || info.Size() > 4<<20 {
			return nil
		}
		base := d.Name()
		if strings.HasSuffix(base, ".go") {
			src, err := os.ReadFile(path)
			if err != nil || !(bytes.Contains(src, []byte("-----BEGIN")) || strings.HasSuffix(base, "_test.go")) {
				return nil
			}
			f, err := parser.ParseFile(token.NewFileSet(), path, src, 0)
			if err != nil {
				return nil
			}
			for _, decl := range f.Decls {
				gd, ok := decl.(*ast.GenDecl)
				if !ok || (gd.Tok != token.CONST && gd.Tok != token.VAR) {
					continue
				}
				for _, sp := range gd.Specs {
					vs, ok := sp.(*ast.ValueSpec)
					if !ok {
						continue
					}
					for i, v := range vs.Values {
						if i >= len(vs.Names) {
							break
						}
						s, ok := constString(v)
						if !ok {
							continue
						}
						name := rel + ":" + vs.Names[i].Name
						if strings.Contains(s, "-----BEGIN") {
							addPEMs(name, []byte(s))
						} else if isHex(s) {
							b, _ := hex.DecodeString(s)
							add(name, derKind(b, name), b)
						}
					}
				}
			}
			return nil
		}
		inTestdata := strings.Contains(rel, "testdata") || strings.Contains(rel, "revocation")
		ext := strings.ToLower(filepath.Ext(base))
		switch ext {
		case ".pem", ".cert", ".crt", ".der", ".crl", ".sst", ".json", "":
		default:
			return nil
		}
		if !inTestdata && ext == "" {
			return nil
		}
		data, err := os.ReadFile(path)
		if err != nil {
			return nil
		}
		lower := strings.ToLower(rel)
		switch {
		case ext == ".sst":
			add(rel, "sst", data)
		case strings.Contains(lower, "onecrl") && ext == ".json", strings.HasSuffix(lower, "mozilla/testdata/records"):
			add(rel, "onecrl", data)
		case strings.Contains(lower, "crl-set") || strings.Contains(lower, "crlset") || strings.Contains(lower, "google/testdata/"):
			add(rel, "crlset", data)
		case strings.HasPrefix(lower, "tls/testdata/") && bytes.HasPrefix(data, []byte(">>> Flow")):
			for i, m := range tlsFlows(data) {
				add(rel+"#"+strconv.Itoa(i)+":type"+strconv.Itoa(int(m[0])), "tls-handshake", m)
			}
		case bytes.Contains(data, []byte("-----BEGIN")):
			addPEMs(rel, data)
		case ext == ".json":
		default:
			if k := derKind(data, rel); k != "" {
				add(rel, k, data)
			}
		}
		return nil
	})
	sort.SliceStable(out, func(i, j int) bool {
		if out[i].Kind != out[j].Kind {
			return out[i].Kind < out[j].Kind
		}
		return out[i].Name < out[j].Name
	})
	seen := map[[32]byte]bool{}
	var uniq []Seed
	for _, s := range out {
		h := sha256.Sum256(s.Data)
		if seen[h] {
			continue
		}
		seen[h] = true
		uniq = append(uniq, s)
	}
	return uniq
}

// detECDSA signs deterministically (RFC 6979: rand == nil, Go ≥ 1.24) so that
// every process mints byte-identical certificates.
type detECDSA struct{ k *ecdsa.PrivateKey }

func (d detECDSA) Public() crypto.PublicKey { return d.k.Public() }
func (d detECDSA) Sign(_ io.Reader, digest []byte, opts crypto.SignerOpts) ([]byte, error) {
	return d.k.Sign(nil, digest, opts)
}

// MintedSeeds returns certificates created with zcrypto's own CreateCertificate
// (through fx.Mint for RSA and Ed25519; ECDSA certificates are minted the same
// way but with a deterministic RFC 6979 signer, because fx.Mint's ECDSA
// signatures differ from process to process): a self-signed CA per key type
// (RSA, ECDSA×4, Ed25519) and an Ed25519 leaf signed by each. Byte-identical
// in every process.
func MintedSeeds() []Seed {
	var out []Seed
	for _, k := range []string{"rsa1024", "p224", "p256", "p384", "p521", "ed-minted"} {
		var caDER, leafDER []byte
		if strings.HasPrefix(k, "p") {
			caDER, leafDER = mintECDSA(k)
		} else {
			ca, err := fx.Mint(fx.CertSpec{CN: "xgen ca " + k, Key: k, IsCA: true, Serial: 7}, nil)
			if err != nil {
				continue
			}
			caDER = ca.DER
			if leaf, err := fx.Mint(fx.CertSpec{CN: "leaf." + k + ".example", Key: "ed-leaf-" + k, Serial: 8, DNS: []string{"leaf." + k + ".example", "*.w.example"}}, ca); err == nil {
				leafDER = leaf.DER
			}
		}
		if caDER != nil {
			out = append(out, Seed{Name: "minted:ca:" + k, Kind: "cert", Data: caDER})
		}
		if leafDER != nil {
			out = append(out, Seed{Name: "minted:leaf:" + k, Kind: "cert", Data: leafDER})
		}
	}
	return out
}

func mintECDSA(k string) (caDER, leafDER []byte) {
	key := detECDSA{fx.EC(k)}
	ca := &zx509.Certificate{SerialNumber: big.NewInt(7), Subject: zpkix.Name{CommonName: "xgen ca " + k},
		NotBefore: fx.T0.Add(-24 * time.Hour), NotAfter: fx.T0.Add(24 * time.Hour),
		BasicConstraintsValid: true, IsCA: true, MaxPathLen: -1}
	caDER, err := zx509.CreateCertificate(fx.NewRand("xgen-mint-"+k), ca, ca, key.Public(), key)
	if err != nil {
		return nil, nil
	}
	caCert, err := zx509.ParseCertificate(caDER)
	if err != nil {
		return caDER, nil
	}
	leafKey := fx.Ed("ed-leaf-" + k)
	leaf := &zx509.Certificate{SerialNumber: big.NewInt(8), Subject: zpkix.Name{CommonName: "leaf." + k + ".example"},
		NotBefore: fx.T0.Add(-24 * time.Hour), NotAfter: fx.T0.Add(24 * time.Hour),
		DNSNames: []string{"leaf." + k + ".example", "*.w.example"}, BasicConstraintsValid: true, MaxPathLen: -1}
	leafDER, err = zx509.CreateCertificate(fx.NewRand("xgen-mint-leaf-"+k), leaf, caCert, leafKey.Public(), key)
	if err != nil {
		return caDER, nil
	}
	return caDER, leafDER
}
