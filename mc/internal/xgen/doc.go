// Package xgen holds the closed, deterministic INPUT GENERATORS of the E2
// ("deviation-bounded enumeration") checks: C01, C02, C06, C20. It contains no
// oracle and never judges anything; it only produces byte strings.
//
// Everything is enumerated completely and in a fixed order (no randomness, no
// clocks). All enumerators are callback style:
//
//	type Enum func(visit func(desc string, der []byte) bool)
//
// visit returning false stops the enumeration. `der` is only valid during the
// call (enumerators may reuse the buffer): copy it if you keep it. `desc` is a
// short human readable description of how the input was derived (it is "" for
// AllBytes: there the bytes are their own description). Helpers on Enum:
// e.Count(), e.Shard(i, n) (every n-th element starting at i), Concat(a, b...).
//
// # 1. DER writer (w.go)  — hand-written, can emit anything, also nonsense
//
//	TLV(tag byte, content ...[]byte) []byte     tag||minimal definite length||content
//	Seq(...), Set(...), Ctx(n, constructed, ...), Explicit(n, inner)
//	OID(arcs ...int), Int(int64), BigInt(*big.Int) (negative = two's complement), IntRaw(content)
//	Bool, Null, OctetString, BitString(bytes) (0 unused bits), BitStringUnused(unused, bytes)
//	UTF8, Printable, IA5, T61, BMP(raw), UTCTime(t), GenTime(t), TimeRaw(tag, s)
//	Len(n) []byte                               minimal DER length octets
//
// # 2. DER tree + G-tlv mutation menu (tlv.go)
//
//	ParseTLV(der) (*Node, error)       one complete TLV; descends into constructed nodes and
//	                                   into OCTET STRING / BIT STRING contents that are
//	                                   themselves complete DER (extension values, SPKI keys)
//	(*Node).Bytes()                    serialise (minimal lengths, byte-exact for DER input)
//	(*Node).Walk(func(path string, n *Node))
//	(*Node).Find(path) *Node           path = child indices "0.6.1"
//	TLVSingles(der) Enum               every (node, operator) of the menu of DESIGN §2.2:
//	                                   delete, dup, empty, trunc-1, extend-1, swap-next,
//	                                   retag→{02,04,03,30,31,[0],[1],05}, len+1, len-1,
//	                                   len-long (non-minimal), len-indef, hollow (declared length kept,
//	                                   content removed), hollow-1 (length 1, no content), payload→{00,ff,80,
//	                                   7fff,16,17,31,32,33 bytes}. Lengths of all ANCESTORS are
//	                                   recomputed, so the mutation reaches the inner parser.
//	TLVPairs(der) Enum                 two simultaneous mutations from the CORE menu on two
//	                                   siblings, or on a node and one of its children
//	TLVMenuSize, TLVCoreMenuSize       operators per node
//	ByteSubs(b) Enum                   every offset × {00,01,7f,80,ff,b^01,b^80} (≠ original)
//	Truncations(b) Enum                every proper prefix b[:k], k = 0..len-1
//	ByteSubsWindow / TruncationsWindow same, restricted to offsets [lo,hi) (for big seeds)
//	AllBytes(n) Enum                   all byte strings of length ≤ n (Σ 256^k), desc ""
//	AllBytesPrefix(n, first) Enum      those of AllBytes(n) whose first byte is `first`
//	                                   (256 disjoint shards; the empty string belongs to none:
//	                                   evaluate it separately)
//
// # 3. G-field certificate model (cert.go, certext.go)
//
// A certificate is an Assignment: one chosen alternative per field, index 0 is
// the field's default. The default certificate is a small self-issued, validly
// signed v3 Ed25519 certificate without extensions.
//
//	Fields() []Field                   the field table: Name, Alts []string (Alts[0] = default)
//	FieldIndex(name) int
//	type Assignment []int              len(Fields()); a[i] = alternative index of field i
//	Default() Assignment
//	(Assignment).With(field, alt string) Assignment     copy with one field set (panics on typos)
//	(Assignment).String()              only the non-default fields: "key=rsa-e-neg1 sigval=zero"
//	ParseAssignment(s) (Assignment, error)               inverse of String (replay files)
//	EnumAssignments(d, visit func(Assignment) bool)      every assignment with ≤ d non-default
//	                                   fields, ordered by number of deviations, then field, then alt
//	                                   followed by the saturated assignments (every field non-default at
//	                                   once: the k-th alternative of each field, for every k)
//	CountAssignments(d) int64
//	Encode(a) []byte                   the DER of the certificate (malformed where the model says
//	                                   so). "valid" signatures are made with the Go standard
//	                                   library and the fx keys, deterministically (RFC 6979 ECDSA,
//	                                   fixed-k DSA, fixed PSS salt), so two processes encoding the
//	                                   same assignment get identical bytes.
//	EncodeParts(a) Parts               {Cert, TBS, SPKI, Issuer, Subject, SigAlg, SigValue []byte} —
//	                                   the same encoding with its components, for reference oracles
//	CertModel(d) Enum                  EnumAssignments + Encode, desc = Assignment.String()
//	SignerKeyName(a) string            fx key fixture that signed (or would sign) the certificate
//	Extension(oid, critical, value)    one encoded Extension element (for hand-built certificates)
//	ModelExtension(field, alt) []byte  the Extension bytes the model uses, e.g. ("poison","critical"),
//	                                   ("sct","valid"), ("san","valid")
//	AssembleCert(tbs, sigAlg, sig)     SEQUENCE { tbs, sigAlg, BIT STRING sig }
//
// Signing: a self-issued certificate ("selfissued=yes", the default) is signed by the private key
// BEHIND its subject key alternative (the odd RSA/EC/DSA/Ed25519 alternatives are derived from the
// fixtures rsa1024 / p256 / dsa1024 / Ed("xgen-subject"), so e.g. key=rsa-e-neg1 carries a genuine
// rsa1024 signature that the malformed key cannot verify); "selfissued=no" is signed by
// Ed("xgen-issuer"). The alternatives of "sigval" other than "valid" replace that signature
// (zero/ff keep its length; eq-n is the RSA modulus). The model has 28 fields and 340 non-default
// alternatives: 341 / 55 172 / 5 639 882 assignments for d = 1 / 2 / 3 (~65 µs per Encode).
// The last 4 alternatives of "name" (cn-dns-*) and the last 8 of "san" (dns-*-ties, uri-ip-ties,
// names-all-ties) carry host names that tie under case folding, trailing-dot / white-space trimming,
// wildcard stripping, IDNA and across name kinds (added for C02's determinism oracle).
//
// Key kinds ("key" field): ed25519 (default), ed25519-31/-0/-33, rsa, rsa-e0, rsa-e-neg1,
// rsa-e-neg65537, rsa-e-2p40, rsa-n0, rsa-n-neg, rsa-n1, ec-p224/p256/p384/p521, ec-offcurve,
// ec-empty, ec-inf, ec-unknown-curve, x25519, x25519-31, dsa, dsa-zero-p, dsa-neg-y, unknown-oid.
// Every extension field has the generic alternatives absent (default), valid, empty, truncated,
// wrong-tag, duplicated, critical plus its own list (see certext.go).
//
// # 4. Seed corpus (seeds.go)
//
//	type Seed struct{ Name, Kind string; Data []byte }
//	LoadSeeds(repoDir) []Seed          every certificate / CRL / CSR / key / OCSP / CRLSet / OneCRL /
//	                                   SST / recorded TLS handshake message found under repoDir
//	                                   (PEM files, PEM and hex literals inside .go files, raw files
//	                                   in testdata directories); sorted, de-duplicated
//	MintedSeeds() []Seed               certificates made by zcrypto's own CreateCertificate (fx.Mint):
//	                                   a self-signed CA for RSA-1024, P-224/256/384/521, Ed25519 and a
//	                                   leaf (Ed25519 subject key) signed by each CA. Byte-identical in
//	                                   every process (ECDSA CAs sign with RFC 6979 nonces)
//	Kinds: cert crl csr pubkey privkey-pkcs1 privkey-pkcs8 privkey-ec ocsp-response ocsp-request
//	       crlset onecrl sst tls-handshake der (= other DER)
//	OfKind(seeds, kinds...) []Seed
package xgen
