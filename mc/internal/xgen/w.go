package xgen

import (
	"math/big"
	"time"
)

// Enum is a closed deterministic enumeration of inputs.
type Enum func(visit func(desc string, der []byte) bool)

// Count runs the enumeration and counts its elements.
func (e Enum) Count() int64 {
	var n int64
	e(func(string, []byte) bool { n++; return true })
	return n
}

// Shard keeps the elements whose running index ≡ i (mod n).
func (e Enum) Shard(i, n int) Enum {
	return func(visit func(string, []byte) bool) {
		k := 0
		e(func(d string, b []byte) bool {
			k++
			if (k-1)%n != i {
				return true
			}
			return visit(d, b)
		})
	}
}

// Concat enumerates a, then each of more.
func Concat(a Enum, more ...Enum) Enum {
	return func(visit func(string, []byte) bool) {
		stop := false
		w := func(d string, b []byte) bool {
			if !visit(d, b) {
				stop = true
				return false
			}
			return true
		}
		a(w)
		for _, m := range more {
			if stop {
				return
			}
			m(w)
		}
	}
}

// Len returns the minimal DER length octets for n.
func Len(n int) []byte {
	switch {
	case n < 0x80:
		return []byte{byte(n)}
	case n < 0x100:
		return []byte{0x81, byte(n)}
	case n < 0x10000:
		return []byte{0x82, byte(n >> 8), byte(n)}
	case n < 0x1000000:
		return []byte{0x83, byte(n >> 16), byte(n >> 8), byte(n)}
	}
	return []byte{0x84, byte(n >> 24), byte(n >> 16), byte(n >> 8), byte(n)}
}

func cat(parts ...[]byte) []byte {
	n := 0
	for _, p := range parts {
		n += len(p)
	}
	out := make([]byte, 0, n)
	for _, p := range parts {
		out = append(out, p...)
	}
	return out
}

// TLV encodes tag || minimal definite length || content.
func TLV(tag byte, content ...[]byte) []byte {
	n := 0
	for _, p := range content {
		n += len(p)
	}
	l := Len(n)
	out := make([]byte, 0, 1+len(l)+n)
	out = append(out, tag)
	out = append(out, l...)
	for _, p := range content {
		out = append(out, p...)
	}
	return out
}

func Seq(items ...[]byte) []byte { return TLV(0x30, items...) }
func Set(items ...[]byte) []byte { return TLV(0x31, items...) }

// Ctx encodes a context-specific tag [n] (n < 31).
func Ctx(n int, constructed bool, content ...[]byte) []byte {
	t := byte(0x80 | n)
	if constructed {
		t |= 0x20
	}
	return TLV(t, content...)
}

// Explicit wraps inner in a constructed [n].
func Explicit(n int, inner []byte) []byte { return Ctx(n, true, inner) }

func base128(v int) []byte {
	if v == 0 {
		return []byte{0}
	}
	var tmp []byte
	for v > 0 {
		tmp = append([]byte{byte(v & 0x7f)}, tmp...)
		v >>= 7
	}
	for i := 0; i < len(tmp)-1; i++ {
		tmp[i] |= 0x80
	}
	return tmp
}

// OID encodes an OBJECT IDENTIFIER (at least two arcs).
func OID(arcs ...int) []byte {
	var c []byte
	c = append(c, base128(arcs[0]*40+arcs[1])...)
	for _, a := range arcs[2:] {
		c = append(c, base128(a)...)
	}
	return TLV(0x06, c)
}

// IntRaw encodes an INTEGER with the given content octets (anything goes).
func IntRaw(content []byte) []byte { return TLV(0x02, content) }

// BigIntBytes returns the minimal two's complement content octets of v.
func BigIntBytes(v *big.Int) []byte {
	if v.Sign() == 0 {
		return []byte{0}
	}
	if v.Sign() > 0 {
		b := v.Bytes()
		if b[0]&0x80 != 0 {
			b = append([]byte{0}, b...)
		}
		return b
	}
	// negative: two's complement of |v|
	n := new(big.Int).Neg(v)
	n.Sub(n, big.NewInt(1))
	b := n.Bytes()
	for i := range b {
		b[i] ^= 0xff
	}
	if len(b) == 0 || b[0]&0x80 == 0 {
		b = append([]byte{0xff}, b...)
	}
	return b
}

func BigInt(v *big.Int) []byte { return IntRaw(BigIntBytes(v)) }
func Int(v int64) []byte       { return BigInt(big.NewInt(v)) }

func Bool(v bool) []byte {
	if v {
		return []byte{0x01, 0x01, 0xff}
	}
	return []byte{0x01, 0x01, 0x00}
}
func Null() []byte                { return []byte{0x05, 0x00} }
func OctetString(b []byte) []byte { return TLV(0x04, b) }
func BitString(b []byte) []byte   { return TLV(0x03, []byte{0}, b) }
func BitStringUnused(unused byte, b []byte) []byte {
	return TLV(0x03, []byte{unused}, b)
}
func UTF8(s string) []byte      { return TLV(0x0c, []byte(s)) }
func Printable(s string) []byte { return TLV(0x13, []byte(s)) }
func IA5(s string) []byte       { return TLV(0x16, []byte(s)) }
func T61(s string) []byte       { return TLV(0x14, []byte(s)) }
func BMP(raw []byte) []byte     { return TLV(0x1e, raw) }

// TimeRaw encodes a time type (0x17 UTCTime / 0x18 GeneralizedTime) with arbitrary text.
func TimeRaw(tag byte, s string) []byte { return TLV(tag, []byte(s)) }
func UTCTime(t time.Time) []byte        { return TimeRaw(0x17, t.UTC().Format("060102150405Z")) }
func GenTime(t time.Time) []byte        { return TimeRaw(0x18, t.UTC().Format("20060102150405Z")) }
