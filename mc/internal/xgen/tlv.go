package xgen

import (
	"errors"
	"fmt"
	"strconv"
	"strings"
)

// Node is one TLV of a DER tree.
type Node struct {
	Tag     []byte  // identifier octets (1 or more)
	Content []byte  // content octets when Kids == nil
	Prefix  []byte  // content octets in front of Kids (BIT STRING: the unused-bits octet)
	Kids    []*Node // parsed children (constructed, or OCTET/BIT STRING wrapping DER)
	hasKids bool    // distinguishes "constructed and empty" from "primitive"
}

// Constructed reports the constructed bit of the identifier.
func (n *Node) Constructed() bool { return n.Tag[0]&0x20 != 0 }

// Wrapping reports whether the node has (possibly zero) parsed children.
func (n *Node) Wrapping() bool { return n.hasKids }

func parseHeader(b []byte) (tagLen, hdrLen, contentLen int, err error) {
	if len(b) < 2 {
		return 0, 0, 0, errors.New("xgen: truncated header")
	}
	i := 1
	if b[0]&0x1f == 0x1f {
		for {
			if i >= len(b) {
				return 0, 0, 0, errors.New("xgen: truncated tag")
			}
			i++
			if b[i-1]&0x80 == 0 {
				break
			}
		}
	}
	tagLen = i
	if i >= len(b) {
		return 0, 0, 0, errors.New("xgen: truncated length")
	}
	l := b[i]
	i++
	if l&0x80 == 0 {
		return tagLen, i, int(l), nil
	}
	k := int(l & 0x7f)
	if k == 0 || k > 4 {
		return 0, 0, 0, errors.New("xgen: indefinite or huge length")
	}
	if i+k > len(b) {
		return 0, 0, 0, errors.New("xgen: truncated length")
	}
	v := 0
	for j := 0; j < k; j++ {
		v = v<<8 | int(b[i+j])
	}
	return tagLen, i + k, v, nil
}

func parseList(b []byte, depth int) ([]*Node, error) {
	var out []*Node
	for len(b) > 0 {
		tl, hl, cl, err := parseHeader(b)
		if err != nil {
			return nil, err
		}
		if hl+cl > len(b) {
			return nil, errors.New("xgen: content exceeds input")
		}
		n := &Node{Tag: append([]byte(nil), b[:tl]...)}
		content := b[hl : hl+cl]
		switch {
		case depth > 40:
			n.Content = append([]byte(nil), content...)
		case n.Constructed():
			kids, err := parseList(content, depth+1)
			if err != nil {
				n.Content = append([]byte(nil), content...)
			} else {
				n.Kids, n.hasKids = kids, true
			}
		case n.Tag[0] == 0x04 && len(content) >= 2:
			if kids, err := parseList(content, depth+1); err == nil && plausible(kids) {
				n.Kids, n.hasKids = kids, true
			} else {
				n.Content = append([]byte(nil), content...)
			}
		case n.Tag[0] == 0x03 && len(content) >= 3 && content[0] == 0:
			if kids, err := parseList(content[1:], depth+1); err == nil && plausible(kids) {
				n.Prefix = []byte{0}
				n.Kids, n.hasKids = kids, true
			} else {
				n.Content = append([]byte(nil), content...)
			}
		default:
			n.Content = append([]byte(nil), content...)
		}
		out = append(out, n)
		b = b[hl+cl:]
	}
	return out, nil
}

// plausible guards the "OCTET STRING wraps DER" heuristic: a single element
// with a universal or context tag.
func plausible(kids []*Node) bool {
	if len(kids) != 1 {
		return false
	}
	t := kids[0].Tag[0]
	switch t {
	case 0x30, 0x31, 0x02, 0x03, 0x04, 0x05, 0x06, 0x0c, 0x16, 0x01, 0x0a:
		return true
	}
	return false
}

// ParseTLV parses exactly one TLV (no trailing bytes).
func ParseTLV(der []byte) (*Node, error) {
	l, err := parseList(der, 0)
	if err != nil {
		return nil, err
	}
	if len(l) != 1 {
		return nil, fmt.Errorf("xgen: %d top-level elements", len(l))
	}
	return l[0], nil
}

func (n *Node) content(repl map[*Node][]byte) []byte {
	if !n.hasKids {
		return n.Content
	}
	out := append([]byte(nil), n.Prefix...)
	for _, k := range n.Kids {
		out = k.appendTo(out, repl)
	}
	return out
}

func (n *Node) appendTo(out []byte, repl map[*Node][]byte) []byte {
	if r, ok := repl[n]; ok {
		return append(out, r...)
	}
	c := n.content(repl)
	out = append(out, n.Tag...)
	out = append(out, Len(len(c))...)
	return append(out, c...)
}

// Bytes serialises the tree with minimal definite lengths.
func (n *Node) Bytes() []byte { return n.appendTo(nil, nil) }

// Walk visits every node in pre-order; path is the dotted child-index path ("" = root).
func (n *Node) Walk(f func(path string, n *Node)) { n.walk("", f) }

func (n *Node) walk(path string, f func(string, *Node)) {
	f(path, n)
	for i, k := range n.Kids {
		p := strconv.Itoa(i)
		if path != "" {
			p = path + "." + p
		}
		k.walk(p, f)
	}
}

// Find returns the node at a dotted path, or nil.
func (n *Node) Find(path string) *Node {
	if path == "" {
		return n
	}
	cur := n
	for _, s := range strings.Split(path, ".") {
		i, err := strconv.Atoi(s)
		if err != nil || i < 0 || i >= len(cur.Kids) {
			return nil
		}
		cur = cur.Kids[i]
	}
	return cur
}

func enc(tag, content []byte) []byte {
	return cat(tag, Len(len(content)), content)
}

func filler(n int) []byte {
	b := make([]byte, n)
	for i := range b {
		b[i] = byte(i + 1)
	}
	return b
}

var payloads = []struct {
	name string
	b    []byte
}{
	{"payload-00", []byte{0x00}}, {"payload-ff", []byte{0xff}}, {"payload-80", []byte{0x80}},
	{"payload-7fff", []byte{0x7f, 0xff}}, {"payload-16B", filler(16)}, {"payload-17B", filler(17)},
	{"payload-31B", filler(31)}, {"payload-32B", filler(32)}, {"payload-33B", filler(33)},
}

var retags = []struct {
	name string
	tag  byte
}{
	{"retag-INTEGER", 0x02}, {"retag-OCTETSTRING", 0x04}, {"retag-BITSTRING", 0x03}, {"retag-SEQUENCE", 0x30},
	{"retag-SET", 0x31}, {"retag-[0]", 0x80}, {"retag-[1]", 0x81}, {"retag-NULL", 0x05},
}

var leafRetags = []struct {
	name string
	tag  byte
	unit int
}{
	{"retag-BOOLEAN", 0x01, 1}, {"retag-OID", 0x06, 1}, {"retag-ENUMERATED", 0x0a, 1}, {"retag-UTF8String", 0x0c, 1},
	{"retag-NumericString", 0x12, 1}, {"retag-PrintableString", 0x13, 1}, {"retag-T61String", 0x14, 1}, {"retag-IA5String", 0x16, 1},
	{"retag-UTCTime", 0x17, 1}, {"retag-GeneralizedTime", 0x18, 1}, {"retag-VisibleString", 0x1a, 1},
	{"retag-UniversalString", 0x1c, 4}, {"retag-BMPString", 0x1e, 2},
}

// TLVMenuSize is the number of operators applied to each node by TLVSingles
// (swap-next only applies to nodes with a following sibling; retag to the
// node's own tag is skipped).
const TLVMenuSize = 44 // 29 for constructed nodes, +15 leaf retags for primitive ones

// TLVCoreMenuSize is the size of the reduced menu used for pairs.
const TLVCoreMenuSize = 12

// mutants emits, for a node with identifier octets tag and (current) content c,
// the replacement encoding of every operator. level: 0 = full menu, 1 = core
// menu, 2 = core operators that keep the content (used on the parent of a
// mutated child).
func mutants(tag, c []byte, level int, emit func(op string, repl []byte) bool) bool {
	self := enc(tag, c)
	keep := level == 2
	core := level >= 1
	if !keep {
		if !emit("delete", nil) {
			return false
		}
	}
	if !emit("dup", cat(self, self)) {
		return false
	}
	if !keep {
		if !emit("empty", enc(tag, nil)) {
			return false
		}
	}
	if len(c) > 0 {
		if !emit("trunc-1", enc(tag, c[:len(c)-1])) {
			return false
		}
	}
	if !core {
		if !emit("extend-1", enc(tag, cat(c, []byte{0}))) {
			return false
		}
	}
	for _, r := range retags {
		if core && r.tag != 0x02 && r.tag != 0x04 && r.tag != 0x30 {
			continue
		}
		t := r.tag
		if t&0xc0 == 0x80 && tag[0]&0x20 != 0 {
			t |= 0x20 // keep the constructed bit for context tags
		}
		if len(tag) == 1 && tag[0] == t {
			continue
		}
		if !emit(r.name, enc([]byte{t}, c)) {
			return false
		}
	}
	if !core && tag[0]&0x20 == 0 {
		// primitive leaf: every other primitive universal type that has its own content rules
		// (string alphabets, 2- and 4-byte units, time formats, OID sub-identifiers, BOOLEAN/ENUMERATED)
		for _, r := range leafRetags {
			if len(tag) == 1 && tag[0] == r.tag {
				continue
			}
			if !emit(r.name, enc([]byte{r.tag}, c)) {
				return false
			}
			if r.unit > 1 && len(c) > 0 {
				// the other residue of the content length modulo the unit size
				if !emit(r.name+"-trunc1", enc([]byte{r.tag}, c[:len(c)-1])) {
					return false
				}
			}
		}
	}
	if !emit("len+1", cat(tag, Len(len(c)+1), c)) {
		return false
	}
	if len(c) > 0 {
		if !emit("len-1", cat(tag, Len(len(c)-1), c)) {
			return false
		}
	}
	if !core {
		// non-minimal long form
		var l []byte
		if len(c) < 0x80 {
			l = []byte{0x81, byte(len(c))}
		} else {
			m := Len(len(c))
			l = append([]byte{m[0] + 1, 0x00}, m[1:]...)
		}
		if !emit("len-long", cat(tag, l, c)) {
			return false
		}
		if !emit("len-indef", cat(tag, []byte{0x80}, c, []byte{0, 0})) {
			return false
		}
		// declared length kept, content removed: when the node is the last
		// child, its content lies beyond the end of the parent
		if len(c) > 0 {
			if !emit("hollow", cat(tag, Len(len(c)))) {
				return false
			}
			if !emit("hollow-1", cat(tag, []byte{0x01})) {
				return false
			}
		}
	}
	if !keep {
		for i, p := range payloads {
			if core && i > 2 {
				break
			}
			if !emit(p.name, enc(tag, p.b)) {
				return false
			}
		}
	}
	return true
}

type pnode struct {
	path   string
	n      *Node
	parent *Node
	idx    int
}

func flatten(root *Node) []pnode {
	var out []pnode
	var rec func(path string, n, parent *Node, idx int)
	rec = func(path string, n, parent *Node, idx int) {
		out = append(out, pnode{path, n, parent, idx})
		for i, k := range n.Kids {
			p := strconv.Itoa(i)
			if path != "" {
				p = path + "." + p
			}
			rec(p, k, n, i)
		}
	}
	rec("", root, nil, 0)
	return out
}

func tagName(n *Node) string { return fmt.Sprintf("%x", n.Tag) }

// TLVSingles enumerates every single (node, operator) mutation of a DER seed.
// A seed that is not DER yields nothing.
func TLVSingles(der []byte) Enum {
	return func(visit func(string, []byte) bool) {
		root, err := ParseTLV(der)
		if err != nil {
			return
		}
		repl := map[*Node][]byte{}
		for _, pn := range flatten(root) {
			c := pn.n.content(nil)
			where := "tlv[" + pn.path + ":" + tagName(pn.n) + "] "
			ok := mutants(pn.n.Tag, c, 0, func(op string, r []byte) bool {
				repl[pn.n] = r
				if r == nil {
					repl[pn.n] = []byte{}
				}
				out := root.appendTo(nil, repl)
				delete(repl, pn.n)
				return visit(where+op, out)
			})
			if !ok {
				return
			}
			if pn.parent != nil && pn.idx+1 < len(pn.parent.Kids) {
				sib := pn.parent.Kids[pn.idx+1]
				repl[pn.n] = sib.Bytes()
				repl[sib] = pn.n.Bytes()
				out := root.appendTo(nil, repl)
				delete(repl, pn.n)
				delete(repl, sib)
				if !visit(where+"swap-next", out) {
					return
				}
			}
		}
	}
}

// TLVPairs enumerates two simultaneous mutations within one sub-tree: every
// pair of core-menu operators on two sibling nodes, and every core-menu
// operator on a child combined with every content-preserving core operator
// on its parent.
func TLVPairs(der []byte) Enum {
	return func(visit func(string, []byte) bool) {
		root, err := ParseTLV(der)
		if err != nil {
			return
		}
		repl := map[*Node][]byte{}
		nz := func(b []byte) []byte {
			if b == nil {
				return []byte{}
			}
			return b
		}
		for _, pn := range flatten(root) {
			p := pn.n
			if len(p.Kids) == 0 {
				continue
			}
			// siblings
			for i := 0; i < len(p.Kids); i++ {
				a := p.Kids[i]
				ca := a.content(nil)
				for j := i + 1; j < len(p.Kids); j++ {
					b := p.Kids[j]
					cb := b.content(nil)
					where := fmt.Sprintf("tlv2[%s:%d,%d] ", pn.path, i, j)
					ok := mutants(a.Tag, ca, 1, func(opa string, ra []byte) bool {
						repl[a] = nz(ra)
						return mutants(b.Tag, cb, 1, func(opb string, rb []byte) bool {
							repl[b] = nz(rb)
							out := root.appendTo(nil, repl)
							return visit(where+opa+"+"+opb, out)
						})
					})
					delete(repl, a)
					delete(repl, b)
					if !ok {
						return
					}
				}
			}
			// parent (p) + child
			for i, k := range p.Kids {
				ck := k.content(nil)
				where := fmt.Sprintf("tlv2[%s>%d] ", pn.path, i)
				ok := mutants(k.Tag, ck, 1, func(opk string, rk []byte) bool {
					repl[k] = nz(rk)
					pc := p.content(repl)
					delete(repl, k)
					return mutants(p.Tag, pc, 2, func(opp string, rp []byte) bool {
						repl[p] = nz(rp)
						out := root.appendTo(nil, repl)
						delete(repl, p)
						return visit(where+opk+"+parent:"+opp, out)
					})
				})
				if !ok {
					return
				}
			}
		}
	}
}

var subVals = []byte{0x00, 0x01, 0x7f, 0x80, 0xff}

// ByteSubsWindow: every offset in [lo,hi) × {00,01,7f,80,ff,b^01,b^80} (≠ original, no duplicates).
func ByteSubsWindow(b []byte, lo, hi int) Enum {
	return func(visit func(string, []byte) bool) {
		buf := append([]byte(nil), b...)
		if hi > len(b) {
			hi = len(b)
		}
		for i := lo; i < hi; i++ {
			o := b[i]
			cands := [7]byte{0x00, 0x01, 0x7f, 0x80, 0xff, o ^ 0x01, o ^ 0x80}
			for k, v := range cands {
				if v == o {
					continue
				}
				dupe := false
				for _, w := range cands[:k] {
					if w == v {
						dupe = true
					}
				}
				if dupe {
					continue
				}
				buf[i] = v
				if !visit("byte["+strconv.Itoa(i)+"]="+strconv.FormatUint(uint64(v), 16), buf) {
					return
				}
			}
			buf[i] = o
		}
	}
}

func ByteSubs(b []byte) Enum { return ByteSubsWindow(b, 0, len(b)) }

// TruncationsWindow: prefixes b[:k] for k in [lo,hi), k < len(b).
func TruncationsWindow(b []byte, lo, hi int) Enum {
	return func(visit func(string, []byte) bool) {
		if hi > len(b) {
			hi = len(b)
		}
		for k := lo; k < hi; k++ {
			if !visit("trunc["+strconv.Itoa(k)+"]", b[:k]) {
				return
			}
		}
	}
}

func Truncations(b []byte) Enum { return TruncationsWindow(b, 0, len(b)) }

// AllBytes enumerates every byte string of length ≤ n in length-then-lexicographic order.
func AllBytes(n int) Enum {
	return func(visit func(string, []byte) bool) {
		if !visit("", nil) {
			return
		}
		for f := 0; f < 256; f++ {
			stop := false
			AllBytesPrefix(n, byte(f))(func(d string, b []byte) bool {
				if !visit(d, b) {
					stop = true
					return false
				}
				return true
			})
			if stop {
				return
			}
		}
	}
}

// AllBytesPrefix enumerates the strings of length 1..n that start with first.
func AllBytesPrefix(n int, first byte) Enum {
	return func(visit func(string, []byte) bool) {
		buf := make([]byte, n)
		for l := 1; l <= n; l++ {
			b := buf[:l]
			for i := range b {
				b[i] = 0
			}
			b[0] = first
			for {
				if !visit("", b) {
					return
				}
				// increment b[1:] as a big-endian counter
				i := l - 1
				for i >= 1 {
					b[i]++
					if b[i] != 0 {
						break
					}
					i--
				}
				if i < 1 {
					break
				}
			}
		}
	}
}
