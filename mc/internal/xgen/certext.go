package xgen

import "math/big"

// extAlt is an extension-specific alternative: the complete extnValue content.
type extAlt struct {
	name     string
	value    []byte
	critical bool
}

// extDef describes one extension field of the model. Every extension field
// has the alternatives absent, valid, empty, truncated (valid value minus its
// last byte), wrong-tag (outermost tag of the value replaced), duplicated,
// critical — followed by alts.
type extDef struct {
	name  string
	oid   []int
	valid []byte
	alts  []extAlt
}

// extension encodes Extension ::= SEQUENCE { extnID, critical DEFAULT FALSE, extnValue }.
func extension(oid []int, critical bool, value []byte) []byte { return Extension(oid, critical, value) }

// Extension encodes one X.509 Extension (critical is only emitted when true).
func Extension(oid []int, critical bool, value []byte) []byte {
	if critical {
		return Seq(OID(oid...), Bool(true), OctetString(value))
	}
	return Seq(OID(oid...), OctetString(value))
}

func oidContent(arcs ...int) []byte {
	o := OID(arcs...)
	return o[2:] // short OIDs only
}

// GeneralName helpers.
func gnOther(content ...[]byte) []byte { return Ctx(0, true, content...) }
func gnEmail(s string) []byte          { return Ctx(1, false, []byte(s)) }
func gnDNS(s string) []byte            { return Ctx(2, false, []byte(s)) }
func gnDir(name []byte) []byte         { return Ctx(4, true, name) }
func gnEDI(content ...[]byte) []byte   { return Ctx(5, true, content...) }
func gnURI(s string) []byte            { return Ctx(6, false, []byte(s)) }
func gnIP(b []byte) []byte             { return Ctx(7, false, b) }
func gnRID(content []byte) []byte      { return Ctx(8, false, content) }

// Host names of the tie alternatives ("san" dns-*-ties, "name" cn-dns-*).
const (
	tieLower = "shop.example.com"
	tieMixed = "Shop.Example.com"
	tieUpper = "SHOP.EXAMPLE.COM"
	tiePuny  = "xn--bcher-kva.example.com"
	tieUni   = "b\u00fccher.example.com"
)

var (
	tieCase     = []string{tieLower, tieUpper, tieMixed, "www.example.com", tieLower, "LOCALHOST", "localhost"}
	tieDot      = []string{tieLower, tieLower + ".", "example.com.", "example.com", "localhost.", "localhost"}
	tiePunyCase = []string{tiePuny, "XN--BCHER-KVA.EXAMPLE.COM", "xn--bcher-kva", "XN--BCHER-KVA"}
	tieIDN      = []string{tiePuny, tieUni, "B\u00dcCHER.example.com", "xn--bcher-kva", "b\u00fccher", "B\u00dcCHER"}
	tieSpace    = []string{"localhost", " localhost", "localhost ", "\tlocalhost", tieLower, tieLower + " ", " " + tieLower}
	tieWild     = []string{"*.example.com", "example.com", "?.example.com", "*.EXAMPLE.com", "*.example.com."}
)

// TieHost returns the host name a cn-dns-* alternative of "name" uses.
func TieHost(kind string) string {
	switch kind {
	case "lower":
		return tieLower
	case "mixed":
		return tieMixed
	case "puny":
		return tiePuny
	}
	panic("xgen: tie host " + kind)
}

func dnsList(lists ...[]string) [][]byte {
	var out [][]byte
	for _, l := range lists {
		for _, s := range l {
			out = append(out, gnDNS(s))
		}
	}
	return out
}

// tieURIIP: one host as dNSName, as URI in four spellings and as iPAddress in the 4- and the 16-byte form
// (both print as 192.0.2.1).
func tieURIIP() [][]byte {
	v4in6 := append(append(make([]byte, 10), 0xff, 0xff), 192, 0, 2, 1)
	return [][]byte{gnDNS("192.0.2.1"), gnDNS(tieLower),
		gnURI("http://" + tieLower + "/"), gnURI("http://" + tieMixed + "/"), gnURI("http://" + tieLower), gnURI("http://" + tieLower + "./"),
		gnIP([]byte{192, 0, 2, 1}), gnIP(v4in6)}
}

func sctV1(version byte, extLen int, ext []byte, sigLen int, sig []byte) []byte {
	b := []byte{version}
	b = append(b, filler(32)...)                 // log id
	b = append(b, 0, 0, 1, 0x60, 0, 0, 0, 0)     // timestamp
	b = append(b, byte(extLen>>8), byte(extLen)) // extensions length
	b = append(b, ext...)
	b = append(b, 4, 3) // sha256, ecdsa
	b = append(b, byte(sigLen>>8), byte(sigLen))
	b = append(b, sig...)
	return b
}

func sctList(scts ...[]byte) []byte {
	var body []byte
	for _, s := range scts {
		body = append(body, byte(len(s)>>8), byte(len(s)))
		body = append(body, s...)
	}
	return OctetString(cat([]byte{byte(len(body) >> 8), byte(len(body))}, body))
}

func buildExtDefs() []extDef {
	dirName := Seq(rdn(atv(oidCommonName, UTF8("dir"))))
	ip4 := []byte{192, 0, 2, 1}
	ip6 := filler(16)
	sanValid := Seq(gnDNS("a.example"), gnEmail("a@example"), gnIP(ip4), gnIP(ip6), gnURI("http://a.example/"))
	otherOK := gnOther(OID(1, 3, 6, 1, 4, 1, 311, 20, 2, 3), Explicit(0, UTF8("upn@example")))
	ediOK := gnEDI(Explicit(0, UTF8("assigner")), Explicit(1, UTF8("party")))

	userNoticeOID := OID(1, 3, 6, 1, 5, 5, 7, 2, 2)
	cpsOID := OID(1, 3, 6, 1, 5, 5, 7, 2, 1)
	polOID := OID(2, 23, 140, 1, 2, 1)
	notice := func(shape byte) []byte {
		ref := Seq(UTF8("org"), Seq(Int(1), Int(2)))
		text := UTF8("explicit text")
		switch shape {
		case 'b': // both
			return Seq(ref, text)
		case 'r':
			return Seq(ref)
		case 't':
			return Seq(text)
		}
		return Seq()
	}
	policyWith := func(shapes string) []byte {
		var quals [][]byte
		for i := 0; i < len(shapes); i++ {
			quals = append(quals, Seq(userNoticeOID, notice(shapes[i])))
		}
		return Seq(Seq(polOID, Seq(quals...)))
	}
	var polAlts []extAlt
	shapes := "brtn"
	for i := 0; i < 4; i++ {
		polAlts = append(polAlts, extAlt{name: "notices-" + string(shapes[i]), value: policyWith(string(shapes[i]))})
	}
	for i := 0; i < 4; i++ {
		for j := 0; j < 4; j++ {
			s := string(shapes[i]) + string(shapes[j])
			polAlts = append(polAlts, extAlt{name: "notices-" + s, value: policyWith(s)})
		}
	}
	polAlts = append(polAlts,
		extAlt{name: "cps", value: Seq(Seq(polOID, Seq(Seq(cpsOID, IA5("http://cps.example/")))))},
		extAlt{name: "cps-not-ia5", value: Seq(Seq(polOID, Seq(Seq(cpsOID, Int(7)))))},
		extAlt{name: "any-policy", value: Seq(Seq(OID(2, 5, 29, 32, 0)))},
		extAlt{name: "ev-policy", value: Seq(Seq(OID(2, 23, 140, 1, 1)))},
		extAlt{name: "notice-not-seq", value: Seq(Seq(polOID, Seq(Seq(userNoticeOID, Int(7)))))},
		extAlt{name: "two-policies", value: Seq(Seq(polOID, Seq(Seq(userNoticeOID, notice('r')))), Seq(OID(2, 23, 140, 1, 2, 2), Seq(Seq(userNoticeOID, notice('t')))))},
		extAlt{name: "text-bmp", value: Seq(Seq(polOID, Seq(Seq(userNoticeOID, Seq(BMP([]byte{0, 'a', 0, 'b'}))))))},
		extAlt{name: "empty-qualifiers", value: Seq(Seq(polOID, Seq()))},
	)

	sig := filler(70)
	sctOK := sctV1(0, 0, nil, len(sig), sig)

	qcOID := func(last ...int) []byte { return OID(append([]int{0, 4, 0, 1862, 1}, last...)...) }
	qcValid := Seq(
		Seq(qcOID(1)),
		Seq(qcOID(4)),
		Seq(qcOID(6), Seq(qcOID(6, 3))),
		Seq(qcOID(2), Seq(Printable("EUR"), Int(1), Int(2))),
		Seq(qcOID(3), Int(10)),
		Seq(qcOID(5), Seq(Seq(IA5("https://pds.example/"), Printable("en")))),
		Seq(qcOID(7), Seq(Printable("DE"))),
	)
	torHash := Seq(UTF8("https://abcdefghijklmnop.onion"), Seq(OID(oidSHA256...)), BitString(filler(32)))

	return []extDef{
		{name: "keyusage", oid: []int{2, 5, 29, 15}, valid: []byte{0x03, 0x02, 0x02, 0x84}, alts: []extAlt{
			{name: "9-bits", value: []byte{0x03, 0x03, 0x07, 0x00, 0x80}},
			{name: "zero-bits", value: []byte{0x03, 0x01, 0x00}},
			{name: "unused-8", value: []byte{0x03, 0x02, 0x08, 0x80}},
			{name: "no-unused-octet", value: []byte{0x03, 0x00}},
			{name: "padding-set", value: []byte{0x03, 0x02, 0x07, 0xff}},
		}},
		{name: "basicconstraints", oid: []int{2, 5, 29, 19}, valid: Seq(Bool(true)), alts: []extAlt{
			{name: "pathlen-0", value: Seq(Bool(true), Int(0))},
			{name: "pathlen-neg", value: Seq(Bool(true), Int(-1))},
			{name: "pathlen-huge", value: Seq(Bool(true), BigInt(new(big.Int).Lsh(big.NewInt(1), 70)))},
			{name: "ca-false-explicit", value: Seq(Bool(false))},
			{name: "empty-seq", value: Seq()},
			{name: "bool-7f", value: Seq([]byte{0x01, 0x01, 0x7f})},
			{name: "pathlen-only", value: Seq(Int(3))},
		}},
		{name: "skid", oid: []int{2, 5, 29, 14}, valid: OctetString(filler(20)), alts: []extAlt{
			{name: "empty-octets", value: OctetString(nil)},
			{name: "64-bytes", value: OctetString(filler(64))},
		}},
		{name: "akid", oid: []int{2, 5, 29, 35}, valid: Seq(Ctx(0, false, filler(20))), alts: []extAlt{
			{name: "issuer-serial", value: Seq(Ctx(0, false, filler(20)), Ctx(1, true, gnDir(dirName)), Ctx(2, false, []byte{1}))},
			{name: "serial-only", value: Seq(Ctx(2, false, []byte{1}))},
			{name: "empty-seq", value: Seq()},
			{name: "keyid-constructed", value: Seq(Ctx(0, true, OctetString(filler(20))))},
		}},
		{name: "san", oid: []int{2, 5, 29, 17}, valid: sanValid, alts: []extAlt{
			{name: "ip-0", value: Seq(gnDNS("a.example"), gnIP(nil))},
			{name: "ip-5", value: Seq(gnDNS("a.example"), gnIP(filler(5)))},
			{name: "ip-17", value: Seq(gnDNS("a.example"), gnIP(filler(17)))},
			{name: "othername-ok", value: Seq(otherOK)},
			{name: "othername-bad", value: Seq(gnDNS("a.example"), gnOther(OID(1, 2, 3)))},
			{name: "edi-ok", value: Seq(ediOK)},
			{name: "edi-bad", value: Seq(gnDNS("a.example"), gnEDI(Explicit(0, UTF8("assigner"))))},
			{name: "rid-ok", value: Seq(gnRID(oidContent(1, 2, 3, 4)))},
			{name: "rid-bad", value: Seq(gnDNS("a.example"), gnRID([]byte{0x2a, 0x80}))},
			{name: "dir-ok", value: Seq(gnDir(dirName))},
			{name: "dir-bad", value: Seq(gnDNS("a.example"), gnDir([]byte{0x31, 0x05, 0x30}))},
			{name: "x400", value: Seq(Ctx(3, true, Seq()))},
			{name: "empty-seq", value: Seq()},
			{name: "dns-highbit", value: Seq(gnDNS("\xe9.example"))},
			{name: "uri-only", value: Seq(gnURI("http://a.example/"))},
			{name: "trailing-data", value: cat(Seq(gnDNS("a.example")), []byte{0x00})},
			// names that TIE (or nearly tie) under the orderings / normalisations a name collector may apply:
			// ASCII case, identical duplicates, trailing dot, punycode vs. Unicode spelling, surrounding white
			// space, wildcard / redaction prefix, the same host as dNSName / URI / iPAddress (4- and 16-byte form).
			// Combined with the "name" alternatives cn-dns-* they also tie the common name with a SAN entry.
			{name: "dns-case-ties", value: Seq(dnsList(tieCase)...)},
			{name: "dns-trailing-dot-ties", value: Seq(dnsList(tieDot)...)},
			{name: "dns-punycode-ties", value: Seq(dnsList(tiePunyCase)...)},
			{name: "dns-idn-unicode-ties", value: Seq(dnsList(tieIDN)...)},
			{name: "dns-whitespace-ties", value: Seq(dnsList(tieSpace)...)},
			{name: "dns-wildcard-ties", value: Seq(dnsList(tieWild)...)},
			{name: "uri-ip-ties", value: Seq(tieURIIP()...)},
			{name: "names-all-ties", value: Seq(append(dnsList(tieCase, tieDot, tiePunyCase, tieSpace, tieWild), tieURIIP()...)...)},
		}},
		{name: "ian", oid: []int{2, 5, 29, 18}, valid: sanValid, alts: []extAlt{
			{name: "ip-5", value: Seq(gnDNS("a.example"), gnIP(filler(5)))},
			{name: "dir-bad", value: Seq(gnDNS("a.example"), gnDir([]byte{0x31, 0x05, 0x30}))},
			{name: "all-kinds", value: Seq(otherOK, ediOK, gnRID(oidContent(1, 2, 3, 4)), gnDir(dirName))},
		}},
		{name: "nameconstraints", oid: []int{2, 5, 29, 30},
			valid: Seq(Ctx(0, true, Seq(gnDNS(".example")), Seq(gnIP(filler(8)))), Ctx(1, true, Seq(gnIP(filler(32))), Seq(gnEmail("x@example")))),
			alts: []extAlt{
				{name: "permitted-ip-7", value: Seq(Ctx(0, true, Seq(gnIP(filler(7)))))},
				{name: "permitted-ip-33", value: Seq(Ctx(0, true, Seq(gnIP(filler(33)))))},
				{name: "excluded-ip-7", value: Seq(Ctx(1, true, Seq(gnIP(filler(7)))))},
				{name: "excluded-ip-33", value: Seq(Ctx(1, true, Seq(gnIP(filler(33)))))},
				{name: "min-max", value: Seq(Ctx(0, true, Seq(gnDNS(".example"), Ctx(0, false, []byte{1}), Ctx(1, false, []byte{2}))))},
				{name: "dir-ok", value: Seq(Ctx(0, true, Seq(gnDir(dirName))), Ctx(1, true, Seq(gnDir(dirName))))},
				{name: "dir-bad", value: Seq(Ctx(0, true, Seq(gnDir([]byte{0x31, 0x05, 0x30}))))},
				{name: "excluded-dir-bad", value: Seq(Ctx(1, true, Seq(gnDir([]byte{0x31, 0x05, 0x30}))))},
				{name: "edi-permitted", value: Seq(Ctx(0, true, Seq(ediOK)))},
				{name: "edi-excluded", value: Seq(Ctx(1, true, Seq(ediOK)))},
				{name: "rid-permitted", value: Seq(Ctx(0, true, Seq(gnRID(oidContent(1, 2, 3, 4)))))},
				{name: "rid-excluded", value: Seq(Ctx(1, true, Seq(gnRID(oidContent(1, 2, 3, 4)))))},
				{name: "x400-uri", value: Seq(Ctx(0, true, Seq(Ctx(3, true, Seq())), Seq(gnURI(".example"))), Ctx(1, true, Seq(Ctx(3, true, Seq())), Seq(gnURI(".example"))))},
				{name: "empty-subtree", value: Seq(Ctx(0, true, Seq()))},
				{name: "empty-seq", value: Seq()},
			}},
		{name: "crldp", oid: []int{2, 5, 29, 31}, valid: Seq(Seq(Ctx(0, true, Ctx(0, true, gnURI("http://crl.example/a.crl"))))), alts: []extAlt{
			{name: "bad-generalname", value: Seq(Seq(Ctx(0, true, Ctx(0, true, gnURI("http://crl.example/a.crl"), []byte{0x86, 0x05, 'a', 'b'}))))},
			{name: "fullname-junk", value: Seq(Seq(Ctx(0, true, Ctx(0, true, []byte{0x86}))))},
			{name: "fullname-bad-first", value: Seq(Seq(Ctx(0, true, Ctx(0, true, []byte{0x86, 0x7f, 'a'}, gnURI("http://crl.example/b.crl")))))},
			{name: "two-names", value: Seq(Seq(Ctx(0, true, Ctx(0, true, gnURI("http://crl.example/a.crl"), gnURI("ldap://crl.example/")))))},
			{name: "relative-name", value: Seq(Seq(Ctx(0, true, Ctx(1, true, atv(oidCommonName, UTF8("rel"))))))},
			{name: "reasons-issuer", value: Seq(Seq(Ctx(1, false, []byte{0x01, 0x80}), Ctx(2, true, gnDir(dirName))))},
			{name: "empty-dp", value: Seq(Seq())},
			{name: "empty-seq", value: Seq()},
		}},
		{name: "eku", oid: []int{2, 5, 29, 37}, valid: Seq(OID(1, 3, 6, 1, 5, 5, 7, 3, 1), OID(1, 3, 6, 1, 5, 5, 7, 3, 2), OID(1, 2, 3, 4)), alts: []extAlt{
			{name: "empty-seq", value: Seq()},
			{name: "non-oid", value: Seq(Int(1))},
			{name: "any", value: Seq(OID(2, 5, 29, 37, 0))},
			{name: "oid-bad-base128", value: Seq(TLV(0x06, []byte{0x2a, 0x80}))},
		}},
		{name: "policies", oid: []int{2, 5, 29, 32}, valid: Seq(Seq(polOID)), alts: polAlts},
		{name: "aia", oid: []int{1, 3, 6, 1, 5, 5, 7, 1, 1},
			valid: Seq(Seq(OID(1, 3, 6, 1, 5, 5, 7, 48, 1), gnURI("http://ocsp.example/")), Seq(OID(1, 3, 6, 1, 5, 5, 7, 48, 2), gnURI("http://ca.example/ca.crt"))),
			alts: []extAlt{
				{name: "dns-location", value: Seq(Seq(OID(1, 3, 6, 1, 5, 5, 7, 48, 1), gnDNS("ocsp.example")))},
				{name: "no-location", value: Seq(Seq(OID(1, 3, 6, 1, 5, 5, 7, 48, 1)))},
				{name: "empty-seq", value: Seq()},
			}},
		{name: "sct", oid: []int{1, 3, 6, 1, 4, 1, 11129, 2, 4, 2}, valid: sctList(sctOK), alts: []extAlt{
			{name: "empty-list", value: OctetString([]byte{0, 0})},
			{name: "no-length", value: OctetString(nil)},
			{name: "one-byte", value: OctetString([]byte{0})},
			{name: "short-length", value: OctetString(cat([]byte{0, 10, 0, 200}, filler(8)))},
			{name: "sct-truncated", value: sctList(sctOK[:33])},
			{name: "two", value: sctList(sctOK, sctOK)},
			{name: "trailing-byte", value: OctetString(cat(sctList(sctOK)[2:], []byte{0}))},
			{name: "version-1", value: sctList(sctV1(1, 0, nil, len(sig), sig))},
			{name: "ext-len-huge", value: sctList(sctV1(0, 0xffff, nil, len(sig), sig))},
			{name: "sig-len-huge", value: sctList(sctV1(0, 0, nil, 0xffff, sig))},
			{name: "with-extensions", value: sctList(sctV1(0, 3, []byte{1, 2, 3}, len(sig), sig))},
			{name: "zero-length-sct", value: OctetString([]byte{0, 2, 0, 0})},
		}},
		{name: "poison", oid: []int{1, 3, 6, 1, 4, 1, 11129, 2, 4, 3}, valid: Null(), alts: []extAlt{
			{name: "other-value", value: OctetString(nil)},
			{name: "critical-other", value: []byte{0x05, 0x01, 0x00}, critical: true},
		}},
		{name: "qcstatements", oid: []int{1, 3, 6, 1, 5, 5, 7, 1, 3}, valid: qcValid, alts: []extAlt{
			{name: "compliance-with-info", value: Seq(Seq(qcOID(1), Int(1)))},
			{name: "limit-numeric", value: Seq(Seq(qcOID(2), Seq(Int(978), Int(1), Int(2))))},
			{name: "limit-bad", value: Seq(Seq(qcOID(2), Seq(Bool(true))))},
			{name: "limit-missing", value: Seq(Seq(qcOID(2)))},
			{name: "retention-missing", value: Seq(Seq(qcOID(3)))},
			{name: "pds-missing", value: Seq(Seq(qcOID(5)))},
			{name: "type-missing", value: Seq(Seq(qcOID(6)))},
			{name: "legislation-missing", value: Seq(Seq(qcOID(7)))},
			{name: "unknown-statement", value: Seq(Seq(OID(1, 2, 3, 4), UTF8("x")))},
			{name: "empty-seq", value: Seq()},
			{name: "statement-no-oid", value: Seq(Seq())},
		}},
		{name: "tor", oid: []int{2, 23, 140, 1, 31}, valid: Seq(torHash), alts: []extAlt{
			{name: "onion-ia5", value: Seq(Seq(IA5("https://abcdefghijklmnop.onion"), Seq(OID(oidSHA256...)), BitString(filler(32))))},
			{name: "no-hash", value: Seq(Seq(UTF8("https://a.onion"), Seq(OID(oidSHA256...))))},
			{name: "hash-unused-bits", value: Seq(Seq(UTF8("https://a.onion"), Seq(OID(oidSHA256...)), BitStringUnused(3, filler(32))))},
			{name: "empty-seq", value: Seq()},
			{name: "inner-not-seq", value: Seq(UTF8("https://a.onion"))},
			{name: "alg-missing", value: Seq(Seq(UTF8("https://a.onion")))},
			{name: "two", value: Seq(torHash, torHash)},
			{name: "trailing-in-hash", value: Seq(Seq(UTF8("https://a.onion"), Seq(OID(oidSHA256...)), BitString(filler(32)), Int(1)))},
		}},
		{name: "cabforgid", oid: []int{2, 23, 140, 3, 1}, valid: Seq(Printable("NTR"), Printable("DE"), UTF8("ref-1")), alts: []extAlt{
			{name: "with-state", value: Seq(Printable("NTR"), Printable("DE"), Ctx(0, false, []byte("BY")), UTF8("ref-1"))},
			{name: "missing-ref", value: Seq(Printable("NTR"), Printable("DE"))},
			{name: "scheme-utf8", value: Seq(UTF8("NTR"), Printable("DE"), UTF8("ref-1"))},
		}},
		{name: "unknownext", oid: []int{1, 2, 3, 4, 5}, valid: OctetString([]byte{1, 2}), alts: nil},
	}
}
