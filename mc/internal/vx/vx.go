// Package vx is the explorer of engine E3: a preemption- and deviation-bounded
// depth-first search over the choice points recorded by the vsched scheduler
// (stateless model checking of the real code: every explored schedule is an
// execution of the implementation).
package vx

import (
	"os"
	"time"

	"github.com/zmap/zcrypto/vsched"
)

// Options bound the search.
type Options struct {
	PreemptBound int // switches away from a thread that could have continued
	EnvBound     int // non-default environment answers (Choose)
	MaxExecs     int // 0 = unlimited
	Deadline     time.Time
	RaceLog      string // path prefix of the TSan log (race build): growth after an execution = race in that schedule
}

// Exec is one explored execution.
type Exec struct {
	Choices []int
	Result  vsched.Result
	Obs     any
	Preempt int
	EnvDev  int
	RaceNew string // new race report text produced by this execution (race build only)
}

// Stats of a search.
type Stats struct {
	Execs      int
	Points     int64 // recorded choice points over all executions
	Steps      int64 // all scheduling points over all executions
	MaxPoints  int
	Deadlocks  int
	Horizons   int
	Diverged   int
	Panics     int
	Races      int
	Complete   bool // the bounded space was exhausted (no cap hit)
	Stragglers int
}

func cost(points []vsched.PointInfo, upto int) (pre, env int) {
	for j := 0; j < upto; j++ {
		p := points[j]
		if p.Chosen == 0 {
			continue
		}
		if p.Env {
			env++
		} else if p.RunningEnabled {
			pre++
		}
	}
	return
}

// Explore runs the bounded DFS. run must build a fresh scenario and execute it
// with vsched.Run(prefix, body); visit is called for every execution and may
// return false to stop the search early.
func Explore(o Options, run func(prefix []int) (vsched.Result, any), visit func(x *Exec) bool) Stats {
	var st Stats
	stack := [][]int{{}}
	raceSize := raceLogSize(o.RaceLog)
	for len(stack) > 0 {
		if (o.MaxExecs > 0 && st.Execs >= o.MaxExecs) || (!o.Deadline.IsZero() && time.Now().After(o.Deadline)) {
			return st
		}
		prefix := stack[len(stack)-1]
		stack = stack[:len(stack)-1]
		res, obs := run(prefix)
		st.Execs++
		st.Points += int64(len(res.Points))
		st.Steps += int64(res.Steps)
		if len(res.Points) > st.MaxPoints {
			st.MaxPoints = len(res.Points)
		}
		x := &Exec{Result: res, Obs: obs}
		for _, p := range res.Points {
			x.Choices = append(x.Choices, p.Chosen)
		}
		x.Preempt, x.EnvDev = cost(res.Points, len(res.Points))
		if res.Deadlock {
			st.Deadlocks++
		}
		if res.Horizon {
			st.Horizons++
		}
		if res.Diverged {
			st.Diverged++
		}
		if res.Panic != "" {
			st.Panics++
		}
		if res.Stragglers > 0 {
			st.Stragglers += res.Stragglers
		}
		if o.RaceLog != "" {
			if ns := raceLogSize(o.RaceLog); ns > raceSize {
				x.RaceNew = raceLogTail(o.RaceLog, raceSize)
				raceSize = ns
				st.Races++
			}
		}
		if !visit(x) {
			return st
		}
		if res.Stragglers > 0 || res.Diverged {
			return st // the process state can no longer be trusted
		}
		// push alternatives (deepest point last => explored first)
		for i := len(prefix); i < len(res.Points); i++ {
			p := res.Points[i]
			pre, env := cost(res.Points, i)
			if p.Env {
				if env+1 > o.EnvBound {
					continue
				}
			} else {
				c := pre
				if p.RunningEnabled {
					c++
				}
				if c > o.PreemptBound {
					continue
				}
			}
			for alt := 1; alt < p.N; alt++ {
				np := make([]int, i+1)
				copy(np, x.Choices[:i])
				np[i] = alt
				stack = append(stack, np)
			}
		}
	}
	st.Complete = true
	return st
}

func raceFiles(prefix string) []string {
	if prefix == "" {
		return nil
	}
	return []string{prefix + "." + itoa(os.Getpid())}
}

func itoa(i int) string {
	if i == 0 {
		return "0"
	}
	s := ""
	for i > 0 {
		s = string(rune('0'+i%10)) + s
		i /= 10
	}
	return s
}

func raceLogSize(prefix string) int64 {
	var n int64
	for _, f := range raceFiles(prefix) {
		if fi, err := os.Stat(f); err == nil {
			n += fi.Size()
		}
	}
	return n
}

func raceLogTail(prefix string, from int64) string {
	for _, f := range raceFiles(prefix) {
		b, err := os.ReadFile(f)
		if err == nil && int64(len(b)) > from {
			return string(b[from:])
		}
	}
	return ""
}
