package vx

import (
	"bufio"
	"bytes"
	"encoding/json"
	"fmt"
	"os"
	"os/exec"
	"strings"
	"sync"
	"time"
)

// WorkerOut is what a worker process prints (one JSON document on stdout).
type WorkerOut struct {
	Job        string           `json:"job"`
	Stats      Stats            `json:"stats"`
	Bound      int              `json:"bound_completed"` // largest preemption bound fully explored (-1 none)
	Violations []WorkerViol     `json:"violations"`
	Outcomes   map[string]int64 `json:"outcomes"`
	Samples    []any            `json:"samples"`
	Broken     string           `json:"broken,omitempty"`
	Races      []string         `json:"races,omitempty"`
	// Stderr is filled in by RunWorkers (never by the worker itself) when the worker process
	// produced no result document: its standard error from the first Go crash marker
	// ("fatal error:" / "panic:") on, or else its tail. See CrashClass.
	Stderr string `json:"stderr,omitempty"`
}

type WorkerViol struct {
	Sig     string `json:"sig"`
	Witness any    `json:"witness"`
}

// RunWorkers runs bin once per job (argument "-worker <job>") with at most par
// processes at a time and GOMAXPROCS=1 each, and collects their outputs.
func RunWorkers(bin string, extraEnv []string, jobs []string, par int, perJob time.Duration) []WorkerOut {
	outs := make([]WorkerOut, len(jobs))
	sem := make(chan struct{}, par)
	var wg sync.WaitGroup
	for i, j := range jobs {
		wg.Add(1)
		sem <- struct{}{}
		go func(i int, j string) {
			defer wg.Done()
			defer func() { <-sem }()
			cmd := exec.Command(bin, "-worker", j)
			cmd.Env = append(append(os.Environ(), "GOMAXPROCS=1"), extraEnv...)
			var so, se bytes.Buffer
			cmd.Stdout, cmd.Stderr = &so, &se
			done := make(chan error, 1)
			if err := cmd.Start(); err != nil {
				outs[i] = WorkerOut{Job: j, Broken: "start: " + err.Error()}
				return
			}
			go func() { done <- cmd.Wait() }()
			var err error
			select {
			case err = <-done:
			case <-time.After(perJob):
				cmd.Process.Kill()
				<-done
				outs[i] = WorkerOut{Job: j, Broken: fmt.Sprintf("worker exceeded %v (killed)", perJob)}
				return
			}
			var w WorkerOut
			sc := bufio.NewScanner(&so)
			sc.Buffer(make([]byte, 1<<20), 64<<20)
			ok := false
			for sc.Scan() {
				if json.Unmarshal(sc.Bytes(), &w) == nil && w.Job != "" {
					ok = true
				}
			}
			if !ok {
				msg := se.String()
				if len(msg) > 600 {
					msg = msg[len(msg)-600:]
				}
				w = WorkerOut{Job: j, Broken: fmt.Sprintf("no result (err=%v): %s", err, msg), Stderr: crashExcerpt(se.String())}
			}
			outs[i] = w
		}(i, j)
	}
	wg.Wait()
	return outs
}

const stderrKeep = 8000

// crashExcerpt keeps the part of a dead worker's stderr that identifies the crash: from the
// first line starting with "fatal error:" or "panic:" (the goroutine dump that follows can be
// long, so the tail alone would lose the cause), else the tail.
func crashExcerpt(se string) string {
	at := -1
	for _, m := range []string{"fatal error:", "panic:"} {
		for from := 0; from < len(se); {
			i := strings.Index(se[from:], m)
			if i < 0 {
				break
			}
			i += from
			if i == 0 || se[i-1] == '\n' {
				if at < 0 || i < at {
					at = i
				}
				break
			}
			from = i + len(m)
		}
	}
	if at >= 0 {
		se = se[at:]
		if len(se) > stderrKeep {
			se = se[:stderrKeep]
		}
		return se
	}
	if len(se) > stderrKeep {
		se = se[len(se)-stderrKeep:]
	}
	return se
}

// CrashClass classifies the stderr excerpt of a worker that died without a result (WorkerOut.Stderr).
// It returns a short class when the death is a crash of the code under test under the schedule being
// explored, which is a verdict (signature "worker crash: <class>", witness = the job):
//
//   - "fatal error: concurrent map ..." (the runtime's unsynchronised map access detector),
//   - "fatal error: all goroutines are asleep - deadlock!",
//   - "fatal error: sync: ..." (unlock of an unlocked mutex etc.) with a frame under repoDir,
//   - an unrecovered "panic:" whose goroutine dump has a frame under repoDir
//     (frames of the injected scheduler, repoDir/vsched/, do not count).
//
// Everything else (killed on timeout, out of memory, a panic only in harness frames, a crash inside a thread
// that the scheduler is unwinding at the end of an execution) returns ""
// and stays "incomplete": it says nothing about the property.
func CrashClass(stderr, repoDir string) string {
	first := ""
	for _, l := range strings.Split(stderr, "\n") {
		if strings.HasPrefix(l, "fatal error:") || strings.HasPrefix(l, "panic:") {
			first = strings.TrimSpace(l)
			break
		}
	}
	if first == "" {
		return ""
	}
	// the crashing goroutine is the first one of the dump: when it is a managed thread being UNWOUND at the end of
	// an execution (runtime.Goexit from the scheduler's park, deferred unlocks running while the other threads are
	// unwound at the same time), the crash is an artefact of the teardown, not of the schedule explored
	if i := strings.Index(stderr, "\ngoroutine "); i >= 0 {
		blk := stderr[i+1:]
		if j := strings.Index(blk, "\n\n"); j >= 0 {
			blk = blk[:j]
		}
		if strings.Contains(blk, "runtime.Goexit") && strings.Contains(blk, "vsched.(*exec).park") {
			return ""
		}
	}
	inRepo := false
	for _, l := range strings.Split(stderr, "\n") {
		f := strings.TrimSpace(l)
		if strings.HasPrefix(f, repoDir+"/") && !strings.HasPrefix(f, repoDir+"/vsched/") {
			inRepo = true
			break
		}
	}
	switch {
	case strings.HasPrefix(first, "fatal error: concurrent map"):
		return first
	case strings.HasPrefix(first, "fatal error: all goroutines are asleep"):
		return first
	case strings.HasPrefix(first, "fatal error: sync:") && inRepo:
		return first
	case strings.HasPrefix(first, "panic:") && inRepo:
		// class of the message: digits and hex addresses vary between runs
		return "panic: " + msgClass(strings.TrimSpace(strings.TrimPrefix(first, "panic:")))
	}
	return ""
}

func msgClass(s string) string {
	if i := strings.Index(s, " [recovered]"); i >= 0 {
		s = s[:i]
	}
	var b strings.Builder
	num := false
	for _, r := range s {
		if r >= '0' && r <= '9' {
			if !num {
				b.WriteByte('N')
				num = true
			}
			continue
		}
		num = false
		b.WriteRune(r)
	}
	out := b.String()
	if len(out) > 100 {
		out = out[:100]
	}
	return out
}
