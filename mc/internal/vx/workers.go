package vx

import (
	"bufio"
	"bytes"
	"encoding/json"
	"fmt"
	"os"
	"os/exec"
	"sync"
	"time"
)

// WorkerOut is what a worker process prints (one JSON document on stdout).
type WorkerOut struct {
	Job        string           `json:"job"`
	Stats      Stats            `json:"stats"`
	Bound      int              `json:"bound_completed"` // largest preemption bound fully explored (-1 none)
	Violations []WorkerViol     `json:"violations"`
	Outcomes   map[string]int64 `json:"outcomes"`
	Samples    []any            `json:"samples"`
	Broken     string           `json:"broken,omitempty"`
	Races      []string         `json:"races,omitempty"`
}

type WorkerViol struct {
	Sig     string `json:"sig"`
	Witness any    `json:"witness"`
}

// RunWorkers runs bin once per job (argument "-worker <job>") with at most par
// processes at a time and GOMAXPROCS=1 each, and collects their outputs.
func RunWorkers(bin string, extraEnv []string, jobs []string, par int, perJob time.Duration) []WorkerOut {
	outs := make([]WorkerOut, len(jobs))
	sem := make(chan struct{}, par)
	var wg sync.WaitGroup
	for i, j := range jobs {
		wg.Add(1)
		sem <- struct{}{}
		go func(i int, j string) {
			defer wg.Done()
			defer func() { <-sem }()
			cmd := exec.Command(bin, "-worker", j)
			cmd.Env = append(append(os.Environ(), "GOMAXPROCS=1"), extraEnv...)
			var so, se bytes.Buffer
			cmd.Stdout, cmd.Stderr = &so, &se
			done := make(chan error, 1)
			if err := cmd.Start(); err != nil {
				outs[i] = WorkerOut{Job: j, Broken: "start: " + err.Error()}
				return
			}
			go func() { done <- cmd.Wait() }()
			var err error
			select {
			case err = <-done:
			case <-time.After(perJob):
				cmd.Process.Kill()
				<-done
				outs[i] = WorkerOut{Job: j, Broken: fmt.Sprintf("worker exceeded %v (killed)", perJob)}
				return
			}
			var w WorkerOut
			sc := bufio.NewScanner(&so)
			sc.Buffer(make([]byte, 1<<20), 64<<20)
			ok := false
			for sc.Scan() {
				if json.Unmarshal(sc.Bytes(), &w) == nil && w.Job != "" {
					ok = true
				}
			}
			if !ok {
				msg := se.String()
				if len(msg) > 600 {
					msg = msg[len(msg)-600:]
				}
				w = WorkerOut{Job: j, Broken: fmt.Sprintf("no result (err=%v): %s", err, msg)}
			}
			outs[i] = w
		}(i, j)
	}
	wg.Wait()
	return outs
}
