// Package ev is the shared run-time of every check: flags, budgets, counters,
// outcome histogram, samples, known-findings matching, replay artefacts and the
// evidence file (schema /root/.vp/EVIDENCE.schema.json).
package ev

import (
	"bufio"
	"encoding/json"
	"flag"
	"fmt"
	"os"
	"path/filepath"
	"runtime"
	"runtime/debug"
	"sort"
	"strconv"
	"strings"
	"sync"
	"sync/atomic"
	"time"
)

// VerifDir is the root of the verification tree (overridable for tests).
var VerifDir = func() string {
	if v := os.Getenv("VERIF_DIR"); v != "" {
		return v
	}
	return "/verif"
}()

type violation struct {
	Sig     string `json:"signature"`
	Witness any    `json:"witness"`
	Count   int64  `json:"count"`
	Replay  string `json:"replay,omitempty"`
	Known   bool   `json:"known"`
}

type knownEntry struct {
	prop, sig, desc string
}

// Ctx is handed to the body of a check.
type Ctx struct {
	ID       string
	Tier     string
	Seed     int64
	Level    string
	Start    time.Time
	deadline time.Time
	Replay   json.RawMessage // non-nil in --replay mode: the witness to re-execute

	States, Transitions, Traces, Evaluations, Distinct atomic.Int64

	mu          sync.Mutex
	extra       map[string]any
	samples     []any
	maxSamples  int
	outcomes    map[string]int64
	viol        map[string]*violation
	violOrder   []string
	known       []knownEntry
	incomplete  []string
	assumptions []string
	rule        string
	exhaustive  bool

	evidencePath string
}

// Quick reports whether the quick tier was requested.
func (c *Ctx) Quick() bool { return c.Tier != "thorough" }

// Pick returns q in the quick tier and t in the thorough tier.
func Pick[T any](c *Ctx, q, t T) T {
	if c.Quick() {
		return q
	}
	return t
}

// Workers is the number of parallel workers a check should use.
func (c *Ctx) Workers() int {
	if v := os.Getenv("VERIF_WORKERS"); v != "" {
		if n, err := strconv.Atoi(v); err == nil && n > 0 {
			return n
		}
	}
	return runtime.NumCPU()
}

// TimeUp reports that the internal budget is exhausted. A check that stops
// because of it must call Incomplete with what was not covered.
func (c *Ctx) TimeUp() bool { return time.Now().After(c.deadline) }

// Incomplete records that a cap/budget was hit: the run is then reported as
// exhaustive:false with the reason, and still exits 0 if nothing was violated.
func (c *Ctx) Incomplete(why string) {
	c.mu.Lock()
	defer c.mu.Unlock()
	for _, w := range c.incomplete {
		if w == why {
			return
		}
	}
	c.incomplete = append(c.incomplete, why)
}

func (c *Ctx) Rule(r string) { c.mu.Lock(); c.rule = r; c.mu.Unlock() }
func (c *Ctx) Assume(a ...string) {
	c.mu.Lock()
	c.assumptions = append(c.assumptions, a...)
	c.mu.Unlock()
}
func (c *Ctx) Set(k string, v any) {
	c.mu.Lock()
	c.extra[k] = v
	c.mu.Unlock()
}

// Add adds n to an integer extra-coverage key.
func (c *Ctx) Add(k string, n int64) {
	c.mu.Lock()
	if cur, ok := c.extra[k].(int64); ok {
		c.extra[k] = cur + n
	} else {
		c.extra[k] = n
	}
	c.mu.Unlock()
}

// Outcome adds n observations of an outcome class (vacuity guard: a run whose
// histogram has a single class did not discriminate anything).
func (c *Ctx) Outcome(class string, n int64) {
	c.mu.Lock()
	c.outcomes[class] += n
	c.mu.Unlock()
}

// Hist is a worker-local outcome histogram, merged with Ctx.Merge.
type Hist map[string]int64

func (c *Ctx) Merge(h Hist) {
	c.mu.Lock()
	for k, v := range h {
		c.outcomes[k] += v
	}
	c.mu.Unlock()
}

// Sample keeps up to maxSamples explored cases for the evidence file.
func (c *Ctx) Sample(v any) {
	c.mu.Lock()
	if len(c.samples) < c.maxSamples {
		c.samples = append(c.samples, v)
	}
	c.mu.Unlock()
}

// WantSample is a cheap pre-test so callers do not build samples needlessly.
func (c *Ctx) WantSample() bool {
	c.mu.Lock()
	defer c.mu.Unlock()
	return len(c.samples) < c.maxSamples
}

// Violation records a property violation. sig is the canonical witness
// signature: it is what known_findings.txt entries are matched against, so it
// must identify the failing input / call site / history, not just the property.
func (c *Ctx) Violation(sig string, witness any) {
	c.mu.Lock()
	defer c.mu.Unlock()
	if v, ok := c.viol[sig]; ok {
		v.Count++
		return
	}
	v := &violation{Sig: sig, Witness: witness, Count: 1}
	for _, k := range c.known {
		if k.prop == c.ID && k.sig == sig {
			v.Known = true
		}
	}
	c.viol[sig] = v
	c.violOrder = append(c.violOrder, sig)
}

// NViolations returns the number of distinct violation signatures so far.
func (c *Ctx) NViolations() int {
	c.mu.Lock()
	defer c.mu.Unlock()
	return len(c.viol)
}

func loadKnown() []knownEntry {
	f, err := os.Open(filepath.Join(VerifDir, "known_findings.txt"))
	if err != nil {
		return nil
	}
	defer f.Close()
	var out []knownEntry
	sc := bufio.NewScanner(f)
	sc.Buffer(make([]byte, 1<<20), 1<<20)
	for sc.Scan() {
		line := strings.TrimSpace(sc.Text())
		// format:  known: property=<ID> sig=<signature> :: <description>
		if !strings.HasPrefix(line, "known:") {
			continue // "fixed:" lines and comments suppress nothing
		}
		rest := strings.TrimSpace(strings.TrimPrefix(line, "known:"))
		if !strings.HasPrefix(rest, "property=") {
			continue
		}
		sp := strings.IndexByte(rest, ' ')
		if sp < 0 {
			continue
		}
		prop := strings.TrimPrefix(rest[:sp], "property=")
		rest = strings.TrimSpace(rest[sp:])
		if !strings.HasPrefix(rest, "sig=") {
			continue
		}
		rest = strings.TrimPrefix(rest, "sig=")
		desc := ""
		if i := strings.Index(rest, " :: "); i >= 0 {
			desc = rest[i+4:]
			rest = rest[:i]
		}
		out = append(out, knownEntry{prop, strings.TrimSpace(rest), desc})
	}
	return out
}

// Main runs one check. level is the evidence level (normally "model_checking").
// Exit status: 0 property held on everything explored (or only known findings),
// 1 violation, 2 the check itself is broken.
func Main(id, level string, body func(c *Ctx)) {
	tier := flag.String("tier", envOr("VERIF_TIER", "quick"), "quick|thorough")
	replay := flag.String("replay", "", "replay file: re-execute one recorded witness")
	evidence := flag.String("evidence", filepath.Join(VerifDir, "evidence", id+".json"), "evidence file")
	budget := flag.Duration("budget", 0, "internal time budget (0 = tier default)")
	flag.Parse()
	if *tier != "quick" && *tier != "thorough" {
		fmt.Fprintf(os.Stderr, "bad tier %q\n", *tier)
		os.Exit(2)
	}
	seed, _ := strconv.ParseInt(envOr("VERIF_SEED", "0"), 10, 64)
	c := &Ctx{ID: id, Tier: *tier, Seed: seed, Level: level, Start: time.Now(),
		extra: map[string]any{}, outcomes: map[string]int64{}, viol: map[string]*violation{},
		maxSamples: 6, exhaustive: true, known: loadKnown()}
	b := *budget
	if b == 0 {
		if c.Quick() {
			b = 150 * time.Second
		} else {
			b = 25 * time.Minute
		}
		if v := os.Getenv("VERIF_BUDGET"); v != "" {
			if d, err := time.ParseDuration(v); err == nil {
				b = d
			}
		}
	}
	c.deadline = c.Start.Add(b)
	if *replay != "" {
		raw, err := os.ReadFile(*replay)
		if err != nil {
			fmt.Fprintln(os.Stderr, "replay:", err)
			os.Exit(2)
		}
		var r struct {
			Witness json.RawMessage `json:"witness"`
		}
		if err := json.Unmarshal(raw, &r); err != nil || r.Witness == nil {
			fmt.Fprintln(os.Stderr, "replay: bad file")
			os.Exit(2)
		}
		c.Replay = r.Witness
		*evidence = "" // a replay never rewrites evidence
	}
	c.evidencePath = *evidence
	func() {
		defer func() {
			if r := recover(); r != nil {
				fmt.Fprintf(os.Stderr, "CHECK-BROKEN %s: harness panic: %v\n%s\n", id, r, debug.Stack())
				os.Exit(2)
			}
		}()
		body(c)
	}()
	os.Exit(c.finish(*evidence))
}

// Broken aborts the run as "check broken" (never a verdict).
func (c *Ctx) Broken(format string, a ...any) {
	msg := fmt.Sprintf(format, a...)
	fmt.Fprintf(os.Stderr, "CHECK-BROKEN %s: %s\n", c.ID, msg)
	// If real violations were already recorded, they are the more useful verdict:
	// report them (exit 1) instead of hiding them behind "broken".
	if c.NViolations() > 0 {
		c.Incomplete("harness stopped early: " + msg)
		os.Exit(c.finish(c.evidencePath))
	}
	os.Exit(2)
}

func envOr(k, d string) string {
	if v := os.Getenv(k); v != "" {
		return v
	}
	return d
}

func (c *Ctx) finish(evidencePath string) int {
	c.mu.Lock()
	defer c.mu.Unlock()
	wall := time.Since(c.Start).Seconds()
	unknown := 0
	replayDir := filepath.Join(VerifDir, "replays", c.ID)
	if c.Replay == nil {
		os.RemoveAll(replayDir)
	}
	n := 0
	for _, sig := range c.violOrder {
		v := c.viol[sig]
		if v.Known {
			desc := ""
			for _, k := range c.known {
				if k.prop == c.ID && k.sig == sig {
					desc = k.desc
				}
			}
			fmt.Printf("KNOWN-FINDING: property=%s %s :: %s (x%d)\n", c.ID, sig, desc, v.Count)
			continue
		}
		unknown++
		if c.Replay != nil {
			fmt.Printf("VIOLATION property=%s replay=(replayed) sig=%s\n", c.ID, sig)
			continue
		}
		if n < 25 {
			os.MkdirAll(replayDir, 0o755)
			p := filepath.Join(replayDir, fmt.Sprintf("%03d.json", n))
			blob, err := json.MarshalIndent(map[string]any{"property": c.ID, "signature": sig, "witness": v.Witness, "tier": c.Tier, "occurrences": v.Count}, "", " ")
			if err != nil {
				blob, _ = json.Marshal(map[string]any{"property": c.ID, "signature": sig, "witness": fmt.Sprint(v.Witness)})
			}
			os.WriteFile(p, blob, 0o644)
			v.Replay = p
			fmt.Printf("VIOLATION property=%s replay=%s sig=%s\n", c.ID, p, sig)
		}
		n++
	}
	if unknown > 25 {
		fmt.Printf("(+%d further distinct violation signatures not written)\n", unknown-25)
	}
	exhaustive := len(c.incomplete) == 0
	cov := map[string]any{}
	for k, v := range c.extra {
		cov[k] = v
	}
	ev := c.Evaluations.Load()
	st := c.States.Load()
	tr := c.Transitions.Load()
	tv := c.Traces.Load()
	di := c.Distinct.Load()
	if ev == 0 {
		ev = tr
	}
	if di == 0 {
		di = st
	}
	if st == 0 {
		st = di
	}
	if tr == 0 {
		tr = ev
	}
	cov["states"] = st
	cov["transitions"] = tr
	cov["traces_validated_against_impl"] = tv
	cov["evaluations"] = ev
	cov["distinct_nontrivial"] = di
	cov["rule"] = c.rule
	if len(c.samples) == 0 {
		c.samples = append(c.samples, "no sample recorded")
	}
	cov["samples"] = c.samples
	cov["exhaustive"] = exhaustive
	if !exhaustive {
		cov["incomplete_because"] = c.incomplete
	}
	keys := make([]string, 0, len(c.outcomes))
	for k := range c.outcomes {
		keys = append(keys, k)
	}
	sort.Strings(keys)
	oc := map[string]int64{}
	for _, k := range keys {
		oc[k] = c.outcomes[k]
	}
	cov["outcomes"] = oc
	cov["distinct_outcomes"] = len(oc)
	var vl []*violation
	for _, sig := range c.violOrder {
		vl = append(vl, c.viol[sig])
	}
	if len(vl) > 40 {
		vl = vl[:40]
	}
	cov["violation_signatures"] = vl
	doc := map[string]any{
		"property_id": c.ID,
		"tier":        c.Tier,
		"seed":        c.Seed,
		"level":       c.Level,
		"coverage":    cov,
		"assumptions": c.assumptions,
		"wall_s":      wall,
		"violations":  unknown,
	}
	if doc["assumptions"] == nil {
		doc["assumptions"] = []string{}
	}
	if evidencePath != "" {
		blob, err := json.MarshalIndent(doc, "", " ")
		if err != nil {
			fmt.Fprintln(os.Stderr, "CHECK-BROKEN: evidence marshal:", err)
			return 2
		}
		os.MkdirAll(filepath.Dir(evidencePath), 0o755)
		if err := os.WriteFile(evidencePath, blob, 0o644); err != nil {
			fmt.Fprintln(os.Stderr, "CHECK-BROKEN: evidence write:", err)
			return 2
		}
	}
	fmt.Printf("%s %s: states=%d transitions=%d evaluations=%d distinct=%d outcomes=%d exhaustive=%v violations=%d wall=%.1fs\n",
		c.ID, c.Tier, st, tr, ev, di, len(oc), exhaustive, unknown, wall)
	if unknown > 0 {
		return 1
	}
	return 0
}

// Parallel runs f(worker, i) for i in [0,n) on Workers() goroutines; indices
// are handed out in order through an atomic counter (deterministic set, order
// irrelevant). It stops early (returning false) when the budget is exhausted.
func (c *Ctx) Parallel(n int, f func(w, i int)) bool {
	var next atomic.Int64
	var wg sync.WaitGroup
	W := c.Workers()
	if W > n {
		W = n
	}
	var stopped atomic.Bool
	for w := 0; w < W; w++ {
		wg.Add(1)
		go func(w int) {
			defer wg.Done()
			for {
				i := int(next.Add(1) - 1)
				if i >= n {
					return
				}
				if i&63 == 0 && c.TimeUp() {
					stopped.Store(true)
					return
				}
				f(w, i)
			}
		}(w)
	}
	wg.Wait()
	return !stopped.Load()
}

// Try runs f and converts a panic into (true, description, site). The site is
// the first zcrypto frame of the panic stack: it is what panic signatures use.
func Try(f func()) (panicked bool, msg string, site string) {
	defer func() {
		if r := recover(); r != nil {
			panicked = true
			msg = fmt.Sprint(r)
			site = panicSite()
		}
	}()
	f()
	return
}

func panicSite() string {
	pcs := make([]uintptr, 64)
	n := runtime.Callers(3, pcs)
	frames := runtime.CallersFrames(pcs[:n])
	first := ""
	for {
		fr, more := frames.Next()
		fn := fr.Function
		if strings.Contains(fn, "github.com/zmap/zcrypto/") {
			fn = strings.TrimPrefix(fn, "github.com/zmap/zcrypto/")
			return fn
		}
		if first == "" && !strings.HasPrefix(fn, "runtime.") && !strings.Contains(fn, "internal/ev.") {
			first = fn
		}
		if !more {
			break
		}
	}
	return first
}

// MsgClass normalises a panic/error message to a class: digits are collapsed
// so that "index out of range [5] with length 3" and "... [7] with length 4"
// are the same class.
func MsgClass(s string) string {
	var b strings.Builder
	prevDigit := false
	for _, r := range s {
		if r >= '0' && r <= '9' {
			if !prevDigit {
				b.WriteByte('N')
			}
			prevDigit = true
			continue
		}
		prevDigit = false
		b.WriteRune(r)
	}
	out := b.String()
	if len(out) > 120 {
		out = out[:120]
	}
	return out
}

// BFSResult summarises an explicit-state search.
type BFSResult struct {
	States      int  // distinct canonical states
	Transitions int  // operations applied on the real object (incl. replays of prefixes)
	Edges       int  // (state, op) pairs expanded
	Depth       int  // deepest level fully expanded
	Closed      bool // the frontier became empty: the whole reachable space was covered
}

// BFS is the explicit-state engine (E1). A state is identified with the
// shortest history (sequence of op indices) that reaches it. run replays a
// history on a FRESH real object and reference model, evaluates the oracles
// (reporting violations itself) and returns the canonical key of the state
// reached; expand=false prunes the successors (used after a divergence, so that
// every reported history is a minimal one). Each level is evaluated in
// parallel; deduplication is sequential and in history order, hence
// deterministic.
func (c *Ctx) BFS(nOps, maxDepth int, run func(hist []int) (key string, expand bool)) BFSResult {
	var res BFSResult
	seen := map[string]bool{}
	k0, ex0 := run(nil)
	seen[k0] = true
	res.States = 1
	frontier := [][]int{}
	if ex0 {
		frontier = append(frontier, []int{})
	}
	for depth := 0; depth < maxDepth && len(frontier) > 0; depth++ {
		type cand struct {
			key    string
			expand bool
		}
		out := make([]cand, len(frontier)*nOps)
		done := c.Parallel(len(out), func(w, i int) {
			h := frontier[i/nOps]
			nh := make([]int, len(h)+1)
			copy(nh, h)
			nh[len(h)] = i % nOps
			k, ex := run(nh)
			out[i] = cand{k, ex}
		})
		if !done {
			c.Incomplete(fmt.Sprintf("budget hit while expanding BFS depth %d", depth+1))
			return res
		}
		res.Edges += len(out)
		res.Transitions += len(out) * (depth + 1)
		var next [][]int
		for i, cd := range out {
			if seen[cd.key] {
				continue
			}
			seen[cd.key] = true
			res.States++
			if cd.expand {
				h := frontier[i/nOps]
				nh := make([]int, len(h)+1)
				copy(nh, h)
				nh[len(h)] = i % nOps
				next = append(next, nh)
			}
		}
		frontier = next
		res.Depth = depth + 1
	}
	res.Closed = len(frontier) == 0
	return res
}
