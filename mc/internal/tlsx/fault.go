package tlsx

import "fmt"

// Record is one TLS record found in a byte stream.
type Record struct {
	Off     int // offset of the 5-byte header in the stream
	Type    byte
	Vers    uint16
	Len     int // payload length
	Payload []byte
}

// End is the offset just past the record.
func (r Record) End() int { return r.Off + 5 + r.Len }

// ParseRecords splits a stream into TLS records (stops at the first incomplete one).
func ParseRecords(stream []byte) []Record {
	var out []Record
	off := 0
	for off+5 <= len(stream) {
		l := int(stream[off+3])<<8 | int(stream[off+4])
		if off+5+l > len(stream) {
			break
		}
		out = append(out, Record{Off: off, Type: stream[off], Vers: uint16(stream[off+1])<<8 | uint16(stream[off+2]), Len: l, Payload: stream[off+5 : off+5+l]})
		off += 5 + l
	}
	return out
}

// EditKind enumerates the wire faults of the E4 fault menu.
type EditKind int

const (
	Xor    EditKind = iota // stream[A] ^= Val
	Set                    // stream[A] = Val
	Trunc                  // drop everything from A on and close that direction
	Drop                   // drop bytes [A,B)
	Dup                    // deliver bytes [A,B) twice
	Swap                   // deliver [B,C) before [A,B)
	Insert                 // deliver Data before byte A
)

// Edit is one fault, addressed by offsets into the ORIGINAL stream of direction Dir.
type Edit struct {
	Dir     Dir
	Kind    EditKind
	A, B, C int
	Val     byte
	Data    []byte
}

func (e Edit) String() string {
	switch e.Kind {
	case Xor:
		return fmt.Sprintf("%s xor@%d^%02x", e.Dir, e.A, e.Val)
	case Set:
		return fmt.Sprintf("%s set@%d=%02x", e.Dir, e.A, e.Val)
	case Trunc:
		return fmt.Sprintf("%s trunc@%d", e.Dir, e.A)
	case Drop:
		return fmt.Sprintf("%s drop[%d,%d)", e.Dir, e.A, e.B)
	case Dup:
		return fmt.Sprintf("%s dup[%d,%d)", e.Dir, e.A, e.B)
	case Swap:
		return fmt.Sprintf("%s swap[%d,%d,%d)", e.Dir, e.A, e.B, e.C)
	case Insert:
		return fmt.Sprintf("%s insert@%d(%x)", e.Dir, e.A, e.Data)
	}
	return "?"
}

// lo/hi: the range of original offsets an edit cares about.
func (e Edit) span() (int, int) {
	switch e.Kind {
	case Xor, Set, Insert:
		return e.A, e.A + 1
	case Trunc:
		return e.A, 1 << 60
	case Drop, Dup:
		return e.A, e.B
	case Swap:
		return e.A, e.C
	}
	return 0, 0
}

// InstallEdits installs a Mitm on n that applies the edits. Edits of one
// direction must not overlap. Applied reports how many edits have been reached.
func InstallEdits(n *Net, edits []Edit) (applied *int) {
	var pos [2]int
	hold := map[int][]byte{} // per edit index: buffered bytes for Dup/Swap
	cnt := 0
	seen := map[int]bool{}
	n.Mitm = func(d Dir, nth int, data []byte) [][]byte {
		start := pos[d]
		pos[d] += len(data)
		touched := false
		for _, e := range edits {
			if e.Dir != d {
				continue
			}
			lo, hi := e.span()
			if start < hi && start+len(data) > lo {
				touched = true
			}
		}
		if !touched {
			return [][]byte{data}
		}
		var out []byte
		for i, b := range data {
			o := start + i
			emit := true
			for ei, e := range edits {
				if e.Dir != d {
					continue
				}
				lo, hi := e.span()
				if o < lo || o >= hi {
					continue
				}
				if !seen[ei] {
					seen[ei] = true
					cnt++
				}
				switch e.Kind {
				case Xor:
					b ^= e.Val
				case Set:
					b = e.Val
				case Insert:
					out = append(out, e.Data...)
				case Trunc:
					emit = false
					if o == e.A {
						// close after what was already emitted
						n.h[d].closed = true
						n.h[d].sink = true
						n.h[d].cond.Broadcast()
					}
				case Drop:
					emit = false
				case Dup:
					hold[ei] = append(hold[ei], b)
					if o == e.B-1 {
						out = append(out, b)
						out = append(out, hold[ei]...)
						emit = false
					}
				case Swap:
					emit = false
					hold[ei] = append(hold[ei], b)
					if o == e.C-1 {
						h := hold[ei]
						out = append(out, h[e.B-e.A:]...)
						out = append(out, h[:e.B-e.A]...)
					}
				}
			}
			if emit {
				out = append(out, b)
			}
		}
		return [][]byte{out}
	}
	return &cnt
}
