package tlsx

// Key-aware man-in-the-middle (E4 extension).
//
// A Keyed proxy sits in Net.Mitm. It learns the traffic secrets of the two real
// endpoints from their Config.KeyLogWriter (NSS key log lines), opens every
// protected record of the sender with a record layer written here from the RFCs
// (RFC 8446 §5.2/§7.1/§7.3 for TLS 1.3, RFC 5246 §5/§6.2.3/§6.3, RFC 2246 §6.2.3.2,
// RFC 5288, RFC 7905 for TLS <= 1.2) on top of the Go standard library only,
// hands the PLAINTEXT record to a rewrite hook, and seals whatever the hook
// returns under the state the RECEIVER is in (its own sequence number, its own
// epoch), so the edited record authenticates and reaches the message parsers.
//
// Nothing here calls zcrypto: it is an independent transcription.

import (
	"crypto/aes"
	"crypto/cipher"
	"crypto/des"
	"crypto/hkdf"
	"crypto/hmac"
	"crypto/md5"
	"crypto/rc4"
	"crypto/sha1"
	"crypto/sha256"
	"crypto/sha512"
	"encoding/hex"
	"encoding/json"
	"errors"
	"fmt"
	"hash"
	"strings"
	"sync"

	"golang.org/x/crypto/chacha20poly1305"
)

// ---------------------------------------------------------------- key log

// KeyLine is one parsed "<label> <client_random> <secret>" line.
type KeyLine struct {
	Label  string
	Random []byte
	Secret []byte
}

// KeyLog is an io.Writer for tls.Config.KeyLogWriter.
type KeyLog struct {
	mu      sync.Mutex
	partial []byte
	lines   []KeyLine
}

func (k *KeyLog) Write(p []byte) (int, error) {
	k.mu.Lock()
	defer k.mu.Unlock()
	k.partial = append(k.partial, p...)
	for {
		i := strings.IndexByte(string(k.partial), '\n')
		if i < 0 {
			break
		}
		f := strings.Fields(string(k.partial[:i]))
		k.partial = k.partial[i+1:]
		if len(f) != 3 {
			continue
		}
		r, e1 := hex.DecodeString(f[1])
		s, e2 := hex.DecodeString(f[2])
		if e1 == nil && e2 == nil {
			k.lines = append(k.lines, KeyLine{f[0], r, s})
		}
	}
	return len(p), nil
}

// Lines returns a copy of everything logged so far.
func (k *KeyLog) Lines() []KeyLine {
	if k == nil {
		return nil
	}
	k.mu.Lock()
	defer k.mu.Unlock()
	return append([]KeyLine(nil), k.lines...)
}

// ---------------------------------------------------------------- PRF / HKDF (RFC 5246 §5, RFC 2246 §5, RFC 8446 §7.1)

func pHash(h func() hash.Hash, secret, seed []byte, n int) []byte {
	var out []byte
	mac := hmac.New(h, secret)
	mac.Write(seed)
	a := mac.Sum(nil)
	for len(out) < n {
		mac.Reset()
		mac.Write(a)
		mac.Write(seed)
		out = mac.Sum(out)
		mac.Reset()
		mac.Write(a)
		a = mac.Sum(nil)
	}
	return out[:n]
}

func prf12(vers uint16, sha384 bool, secret []byte, label string, seed []byte, n int) []byte {
	ls := append([]byte(label), seed...)
	if vers >= 0x0303 {
		if sha384 {
			return pHash(sha512.New384, secret, ls, n)
		}
		return pHash(sha256.New, secret, ls, n)
	}
	half := (len(secret) + 1) / 2
	s1, s2 := secret[:half], secret[len(secret)-half:]
	a := pHash(md5.New, s1, ls, n)
	b := pHash(sha1.New, s2, ls, n)
	for i := range a {
		a[i] ^= b[i]
	}
	return a
}

func expandLabel(h func() hash.Hash, secret []byte, label string, ctx []byte, n int) []byte {
	full := "tls13 " + label
	info := []byte{byte(n >> 8), byte(n), byte(len(full))}
	info = append(info, full...)
	info = append(info, byte(len(ctx)))
	info = append(info, ctx...)
	out, err := hkdf.Expand(h, secret, string(info), n)
	if err != nil {
		panic(err)
	}
	return out
}

// ---------------------------------------------------------------- suites

const (
	kNone = iota
	kAEAD13
	kGCM12
	kChaCha12
	kCBC
	kRC4
)

type suite13 struct {
	keyLen int
	h      func() hash.Hash
	chacha bool
}

var suites13 = map[uint16]suite13{
	0x1301: {16, sha256.New, false},
	0x1302: {32, sha512.New384, false},
	0x1303: {32, sha256.New, true},
}

type suite12 struct {
	kind      int
	mac       int // MAC key length
	key       int
	iv        int
	des3      bool
	macH      func() hash.Hash
	prfSHA384 bool
}

var (
	cbcSHA1  = func(key int) suite12 { return suite12{kind: kCBC, mac: 20, key: key, iv: 16, macH: sha1.New} }
	gcm128   = suite12{kind: kGCM12, key: 16, iv: 4}
	gcm256   = suite12{kind: kGCM12, key: 32, iv: 4, prfSHA384: true}
	chacha12 = suite12{kind: kChaCha12, key: 32, iv: 12}
	suites12 = map[uint16]suite12{
		0x0005: {kind: kRC4, mac: 20, key: 16, macH: sha1.New},
		0xc011: {kind: kRC4, mac: 20, key: 16, macH: sha1.New},
		0xc007: {kind: kRC4, mac: 20, key: 16, macH: sha1.New},
		0x000a: {kind: kCBC, mac: 20, key: 24, iv: 8, des3: true, macH: sha1.New},
		0xc012: {kind: kCBC, mac: 20, key: 24, iv: 8, des3: true, macH: sha1.New},
		0xc008: {kind: kCBC, mac: 20, key: 24, iv: 8, des3: true, macH: sha1.New},
		0x002f: cbcSHA1(16), 0x0035: cbcSHA1(32), 0x0033: cbcSHA1(16), 0x0039: cbcSHA1(32),
		0xc009: cbcSHA1(16), 0xc00a: cbcSHA1(32), 0xc013: cbcSHA1(16), 0xc014: cbcSHA1(32),
		0x003c: {kind: kCBC, mac: 32, key: 16, iv: 16, macH: sha256.New},
		0x0067: {kind: kCBC, mac: 32, key: 16, iv: 16, macH: sha256.New},
		0xc023: {kind: kCBC, mac: 32, key: 16, iv: 16, macH: sha256.New},
		0xc027: {kind: kCBC, mac: 32, key: 16, iv: 16, macH: sha256.New},
		0x009c: gcm128, 0x009e: gcm128, 0xc02b: gcm128, 0xc02f: gcm128,
		0x009d: gcm256, 0x009f: gcm256, 0xc02c: gcm256, 0xc030: gcm256,
		0xcca8: chacha12, 0xcca9: chacha12, 0xccaa: chacha12,
	}
)

// ---------------------------------------------------------------- record protection state of ONE side of ONE direction

type cipherState struct {
	vers uint16
	kind int
	seq  uint64
	aead cipher.AEAD
	iv   []byte // 1.3: static IV (12); GCM12: salt (4); ChaCha12: IV (12)

	// TLS 1.3
	suite  uint16
	secret []byte

	// CBC / RC4
	block  cipher.Block
	macKey []byte
	macH   func() hash.Hash
	chain  []byte // TLS 1.0 implicit IV (nil: explicit IV per record)
	stream *rc4.Cipher
}

func (s *cipherState) clone() *cipherState {
	if s == nil {
		return nil
	}
	c := *s
	c.chain = append([]byte(nil), s.chain...)
	if s.chain == nil {
		c.chain = nil
	}
	if s.stream != nil {
		cp := *s.stream
		c.stream = &cp
	}
	return &c
}

func newState13(suite uint16, secret []byte) (*cipherState, error) {
	s, ok := suites13[suite]
	if !ok {
		return nil, fmt.Errorf("unknown TLS 1.3 suite %04x", suite)
	}
	key := expandLabel(s.h, secret, "key", nil, s.keyLen)
	iv := expandLabel(s.h, secret, "iv", nil, 12)
	var a cipher.AEAD
	var err error
	if s.chacha {
		a, err = chacha20poly1305.New(key)
	} else {
		var b cipher.Block
		if b, err = aes.NewCipher(key); err == nil {
			a, err = cipher.NewGCM(b)
		}
	}
	if err != nil {
		return nil, err
	}
	return &cipherState{vers: 0x0304, kind: kAEAD13, aead: a, iv: iv, suite: suite, secret: append([]byte(nil), secret...)}, nil
}

// next13 is the KeyUpdate step: application_traffic_secret_N+1 (RFC 8446 §7.2).
func (s *cipherState) next13() (*cipherState, error) {
	su := suites13[s.suite]
	return newState13(s.suite, expandLabel(su.h, s.secret, "traffic upd", nil, su.h().Size()))
}

// newStates12 derives the key block (RFC 5246 §6.3) and returns the write state of the client and of the server.
func newStates12(vers, suite uint16, master, clientRandom, serverRandom []byte) (cli, srv *cipherState, err error) {
	su, ok := suites12[suite]
	if !ok {
		return nil, nil, fmt.Errorf("unknown TLS <=1.2 suite %04x", suite)
	}
	n := 2*su.mac + 2*su.key + 2*su.iv
	kb := prf12(vers, su.prfSHA384, master, "key expansion", append(append([]byte(nil), serverRandom...), clientRandom...), n)
	take := func(k int) []byte { b := kb[:k]; kb = kb[k:]; return b }
	cm, sm := take(su.mac), take(su.mac)
	ck, sk := take(su.key), take(su.key)
	ci, si := take(su.iv), take(su.iv)
	mk := func(mac, key, iv []byte) (*cipherState, error) {
		st := &cipherState{vers: vers, kind: su.kind, macKey: mac, macH: su.macH}
		switch su.kind {
		case kGCM12:
			b, err := aes.NewCipher(key)
			if err != nil {
				return nil, err
			}
			if st.aead, err = cipher.NewGCM(b); err != nil {
				return nil, err
			}
			st.iv = iv
		case kChaCha12:
			var err error
			if st.aead, err = chacha20poly1305.New(key); err != nil {
				return nil, err
			}
			st.iv = iv
		case kCBC:
			var err error
			if su.des3 {
				st.block, err = des.NewTripleDESCipher(key)
			} else {
				st.block, err = aes.NewCipher(key)
			}
			if err != nil {
				return nil, err
			}
			if vers <= 0x0301 {
				st.chain = append([]byte(nil), iv...)
			}
		case kRC4:
			var err error
			if st.stream, err = rc4.NewCipher(key); err != nil {
				return nil, err
			}
		}
		return st, nil
	}
	if cli, err = mk(cm, ck, ci); err != nil {
		return
	}
	srv, err = mk(sm, sk, si)
	return
}

func seq8(seq uint64) []byte {
	var b [8]byte
	for i := 0; i < 8; i++ {
		b[7-i] = byte(seq >> (8 * i))
	}
	return b[:]
}

func (s *cipherState) nonceXor() []byte {
	n := append([]byte(nil), s.iv...)
	for i := 0; i < 8; i++ {
		n[len(n)-1-i] ^= byte(s.seq >> (8 * i))
	}
	return n
}

func (s *cipherState) mac(typ byte, vers uint16, content []byte) []byte {
	m := hmac.New(s.macH, s.macKey)
	m.Write(seq8(s.seq))
	m.Write([]byte{typ, byte(vers >> 8), byte(vers), byte(len(content) >> 8), byte(len(content))})
	m.Write(content)
	return m.Sum(nil)
}

func aad12(seq uint64, typ byte, vers uint16, n int) []byte {
	return append(seq8(seq), typ, byte(vers>>8), byte(vers), byte(n>>8), byte(n))
}

// open removes the protection of one record. It mutates the state only on success
// (call it on a clone to probe). typ is the real content type.
func (s *cipherState) open(hdrType byte, hdrVers uint16, payload []byte) (typ byte, pt []byte, ok bool) {
	if s == nil || s.kind == kNone {
		return hdrType, payload, true
	}
	switch s.kind {
	case kAEAD13:
		if hdrType != 23 {
			// RFC 8446 §5: change_cipher_spec (and alerts sent before keys exist) travel unprotected
			return hdrType, payload, true
		}
		hdr := []byte{hdrType, byte(hdrVers >> 8), byte(hdrVers), byte(len(payload) >> 8), byte(len(payload))}
		p, err := s.aead.Open(nil, s.nonceXor(), payload, hdr)
		if err != nil {
			return 0, nil, false
		}
		i := len(p) - 1
		for i >= 0 && p[i] == 0 {
			i--
		}
		if i < 0 {
			return 0, nil, false
		}
		s.seq++
		return p[i], p[:i], true
	case kGCM12:
		if len(payload) < 8+16 {
			return 0, nil, false
		}
		nonce := append(append([]byte(nil), s.iv...), payload[:8]...)
		ct := payload[8:]
		p, err := s.aead.Open(nil, nonce, ct, aad12(s.seq, hdrType, hdrVers, len(ct)-16))
		if err != nil {
			return 0, nil, false
		}
		s.seq++
		return hdrType, p, true
	case kChaCha12:
		if len(payload) < 16 {
			return 0, nil, false
		}
		p, err := s.aead.Open(nil, s.nonceXor(), payload, aad12(s.seq, hdrType, hdrVers, len(payload)-16))
		if err != nil {
			return 0, nil, false
		}
		s.seq++
		return hdrType, p, true
	case kCBC:
		bs := s.block.BlockSize()
		iv := s.chain
		ct := payload
		if iv == nil {
			if len(ct) < bs {
				return 0, nil, false
			}
			iv, ct = ct[:bs], ct[bs:]
		}
		if len(ct) == 0 || len(ct)%bs != 0 {
			return 0, nil, false
		}
		dec := make([]byte, len(ct))
		cipher.NewCBCDecrypter(s.block, iv).CryptBlocks(dec, ct)
		pad := int(dec[len(dec)-1])
		ms := s.macH().Size()
		if len(dec) < pad+1+ms {
			return 0, nil, false
		}
		for _, b := range dec[len(dec)-1-pad:] {
			if int(b) != pad {
				return 0, nil, false
			}
		}
		content := dec[:len(dec)-1-pad-ms]
		if !hmac.Equal(s.mac(hdrType, hdrVers, content), dec[len(content):len(content)+ms]) {
			return 0, nil, false
		}
		if s.chain != nil {
			s.chain = append([]byte(nil), ct[len(ct)-bs:]...)
		}
		s.seq++
		return hdrType, content, true
	case kRC4:
		st := *s.stream
		dec := make([]byte, len(payload))
		st.XORKeyStream(dec, payload)
		ms := s.macH().Size()
		if len(dec) < ms {
			return 0, nil, false
		}
		content := dec[:len(dec)-ms]
		if !hmac.Equal(s.mac(hdrType, hdrVers, content), dec[len(content):]) {
			return 0, nil, false
		}
		*s.stream = st
		s.seq++
		return hdrType, content, true
	}
	return 0, nil, false
}

// seal protects one record for the holder of this (read) state and returns the whole record.
// pad13 / outer13 only apply to TLS 1.3 (zero padding after the inner type; outer record type, 0 = 23).
func (s *cipherState) seal(typ byte, recVers uint16, content []byte, pad13 int, outer13 byte) []byte {
	hdr := func(t byte, n int) []byte { return []byte{t, byte(recVers >> 8), byte(recVers), byte(n >> 8), byte(n)} }
	if s == nil || s.kind == kNone {
		return append(hdr(typ, len(content)), content...)
	}
	switch s.kind {
	case kAEAD13:
		inner := append(append([]byte(nil), content...), typ)
		inner = append(inner, make([]byte, pad13)...)
		ot := byte(23)
		if outer13 != 0 {
			ot = outer13
		}
		h := hdr(ot, len(inner)+s.aead.Overhead())
		out := s.aead.Seal(h, s.nonceXor(), inner, h)
		s.seq++
		return out
	case kGCM12:
		explicit := seq8(s.seq)
		nonce := append(append([]byte(nil), s.iv...), explicit...)
		ct := s.aead.Seal(nil, nonce, content, aad12(s.seq, typ, recVers, len(content)))
		s.seq++
		return append(append(hdr(typ, 8+len(ct)), explicit...), ct...)
	case kChaCha12:
		ct := s.aead.Seal(nil, s.nonceXor(), content, aad12(s.seq, typ, recVers, len(content)))
		s.seq++
		return append(hdr(typ, len(ct)), ct...)
	case kCBC:
		bs := s.block.BlockSize()
		body := append(append([]byte(nil), content...), s.mac(typ, recVers, content)...)
		pad := bs - (len(body)+1)%bs
		if pad == bs {
			pad = 0
		}
		for i := 0; i <= pad; i++ {
			body = append(body, byte(pad))
		}
		iv := s.chain
		var pre []byte
		if iv == nil {
			// explicit IV (TLS 1.1+): any value is valid; derive it from the sequence number
			d := sha256.Sum256(append([]byte("tlsx explicit iv"), seq8(s.seq)...))
			iv = d[:bs]
			pre = iv
		}
		ct := make([]byte, len(body))
		cipher.NewCBCEncrypter(s.block, iv).CryptBlocks(ct, body)
		if s.chain != nil {
			s.chain = append([]byte(nil), ct[len(ct)-bs:]...)
		}
		s.seq++
		return append(append(hdr(typ, len(pre)+len(ct)), pre...), ct...)
	case kRC4:
		body := append(append([]byte(nil), content...), s.mac(typ, recVers, content)...)
		ct := make([]byte, len(body))
		s.stream.XORKeyStream(ct, body)
		s.seq++
		return append(hdr(typ, len(ct)), ct...)
	}
	panic("tlsx: unknown cipher kind")
}

// ---------------------------------------------------------------- the proxy

// Hex is a byte string that is hexadecimal in JSON (witness files stay readable).
type Hex []byte

func (h Hex) MarshalJSON() ([]byte, error) { return json.Marshal(hex.EncodeToString(h)) }
func (h *Hex) UnmarshalJSON(b []byte) error {
	var s string
	if err := json.Unmarshal(b, &s); err != nil {
		return err
	}
	d, err := hex.DecodeString(s)
	*h = d
	return err
}

// Plain is one plaintext record to deliver.
type Plain struct {
	Type       byte `json:"type"`                  // content type (the inner one in TLS 1.3)
	Data       Hex  `json:"data"`                  // fragment
	Fill       int  `json:"fill,omitempty"`        // then Fill bytes FillByte (large fragments without large witnesses)
	FillByte   byte `json:"fill_byte,omitempty"`   //
	Pad13      int  `json:"pad13,omitempty"`       // TLS 1.3: zero bytes after the inner content type
	Outer13    byte `json:"outer13,omitempty"`     // TLS 1.3: outer record type (0 = application_data)
	Clear      bool `json:"clear,omitempty"`       // deliver unprotected although the receiver has keys
	CloseAfter bool `json:"close_after,omitempty"` // close this direction after the record (later writes vanish)
}

func (p Plain) body() []byte {
	b := append([]byte(nil), p.Data...)
	for i := 0; i < p.Fill; i++ {
		b = append(b, p.FillByte)
	}
	return b
}

// Seen is the plaintext view of one record produced by a real endpoint.
type Seen struct {
	Dir       Dir
	Index     int // n-th record of that direction
	Type      byte
	Data      []byte
	Protected bool
	Epoch     string // clear | hs | app | app+N | keys (TLS <= 1.2 after CCS)
	RecVers   uint16
}

type sideState struct {
	epoch string
	gen   int
	cs    *cipherState
	hs    []byte // handshake reassembly
}

// Keyed is the key-aware man-in-the-middle.
type Keyed struct {
	Logs [2]*KeyLog // [0] client's, [1] server's key log

	// Rewrite is called for every record a real endpoint produced; it returns the
	// plaintext records to deliver instead (ok=false: deliver the record as it is).
	Rewrite func(rec Seen) (out []Plain, ok bool)

	Seen      [2][]Seen    // what each sender produced
	Delivered [2][]Plain   // what was delivered to each receiver
	Alerts    [2][][2]byte // alerts produced by the sender of each direction (level, description), decrypted
	Desync    string       // the proxy could not follow (then that direction is passed through verbatim)

	Vers, Suite uint16
	cr, sr      []byte
	master      []byte
	in          [2][]byte
	st          [2][2]*sideState // [0 sender view | 1 receiver view][dir]
	raw, dead   [2]bool
	n           *Net
}

// NewKeyed returns a proxy and the two key logs to put into the client and server Config.
func NewKeyed() *Keyed {
	k := &Keyed{Logs: [2]*KeyLog{{}, {}}}
	for i := range k.st {
		for d := range k.st[i] {
			k.st[i][d] = &sideState{epoch: "clear"}
		}
	}
	return k
}

// Install makes k the Mitm of n.
func (k *Keyed) Install(n *Net) {
	k.n = n
	n.Mitm = k.mitm
}

func (k *Keyed) desync(format string, a ...any) {
	if k.Desync == "" {
		k.Desync = fmt.Sprintf(format, a...)
	}
}

// secrets returns every logged secret with the label, the preferred party's log first.
func (k *Keyed) secrets(label string, prefer int, anyRandom bool) [][]byte {
	var out [][]byte
	for _, p := range []int{prefer, 1 - prefer} {
		lines := k.Logs[p].Lines()
		for i := len(lines) - 1; i >= 0; i-- {
			l := lines[i]
			if l.Label == label && (anyRandom || string(l.Random) == string(k.cr)) {
				out = append(out, l.Secret)
			}
		}
	}
	return out
}

// party that owns a view: the sender view of C2S and the receiver view of S2C are the client (0).
func owner(view int, d Dir) int {
	if (view == 0) == (d == C2S) {
		return 0
	}
	return 1
}

// candidates builds the possible cipher states of a view that has just entered a keyed epoch.
func (k *Keyed) candidates(view int, d Dir) []*cipherState {
	st := k.st[view][d]
	who := owner(view, d)
	var out []*cipherState
	if k.Vers == 0x0304 {
		label := map[string]string{"hs": "HANDSHAKE_TRAFFIC_SECRET", "app": "TRAFFIC_SECRET_0"}[st.epoch]
		if d == C2S {
			label = "CLIENT_" + label
		} else {
			label = "SERVER_" + label
		}
		for _, s := range k.secrets(label, who, false) {
			if c, err := newState13(k.Suite, s); err == nil {
				out = append(out, c)
			}
		}
		return out
	}
	masters := [][]byte{}
	if k.master != nil {
		masters = append(masters, k.master)
	}
	masters = append(masters, k.secrets("CLIENT_RANDOM", who, false)...)
	masters = append(masters, k.secrets("CLIENT_RANDOM", who, true)...) // resumed session: logged by an earlier connection
	for _, m := range masters {
		cli, srv, err := newStates12(k.Vers, k.Suite, m, k.cr, k.sr)
		if err != nil {
			continue
		}
		c := cli
		if d == S2C {
			c = srv
		}
		c.secret = m
		out = append(out, c)
	}
	return out
}

// enter moves a view into a new epoch; the cipher is resolved when first needed.
func (k *Keyed) enter(view int, d Dir, epoch string) {
	st := k.st[view][d]
	st.epoch, st.cs, st.gen = epoch, nil, 0
}

func (k *Keyed) keyUpdate(view int, d Dir) {
	st := k.st[view][d]
	if st.cs == nil {
		if c := k.candidates(view, d); len(c) > 0 {
			st.cs = c[0]
		}
	}
	if st.cs == nil {
		return
	}
	if nx, err := st.cs.next13(); err == nil {
		st.cs = nx
		st.gen++
	}
}

// advance applies the key-change rules of the protocol to a view after it produced / received a record.
func (k *Keyed) advance(view int, d Dir, typ byte, data []byte) {
	st := k.st[view][d]
	switch typ {
	case 20:
		if k.Vers != 0 && k.Vers < 0x0304 && len(data) == 1 && data[0] == 1 && st.epoch == "clear" {
			k.enter(view, d, "keys")
		}
	case 22:
		st.hs = append(st.hs, data...)
		for len(st.hs) >= 4 {
			n := int(st.hs[1])<<16 | int(st.hs[2])<<8 | int(st.hs[3])
			if len(st.hs) < 4+n {
				break
			}
			mt, body := st.hs[0], st.hs[4:4+n]
			st.hs = st.hs[4+n:]
			k.message(view, d, mt, body)
			st = k.st[view][d]
		}
	}
}

var hrrRandom = []byte{0xCF, 0x21, 0xAD, 0x74, 0xE5, 0x9A, 0x61, 0x11, 0xBE, 0x1D, 0x8C, 0x02, 0x1E, 0x65, 0xB8, 0x91,
	0xC2, 0xA2, 0x11, 0x16, 0x7A, 0xBB, 0x8C, 0x5E, 0x07, 0x9E, 0x09, 0xE2, 0xC8, 0xA8, 0x33, 0x9C}

func (k *Keyed) message(view int, d Dir, mt byte, body []byte) {
	st := k.st[view][d]
	switch {
	case mt == 1 && d == C2S && view == 0 && k.cr == nil && len(body) >= 34:
		k.cr = append([]byte(nil), body[2:34]...)
	case mt == 2 && d == S2C && st.epoch == "clear":
		if view == 0 && k.sr == nil {
			if err := k.parseServerHello(body); err != nil {
				k.desync("ServerHello: %v", err)
				return
			}
		}
		if k.Vers != 0x0304 {
			return
		}
		if string(k.sr) == string(hrrRandom) {
			k.desync("HelloRetryRequest is not modelled")
			return
		}
		// RFC 8446 §7.3/§4.4.4: both traffic directions of a party switch to the handshake keys
		// when it has sent (server) / processed (client) the ServerHello
		k.enter(view, S2C, "hs")
		k.enter(1-view, C2S, "hs")
	case mt == 20 && k.Vers == 0x0304 && st.epoch == "hs":
		k.enter(view, d, "app")
	case mt == 24 && k.Vers == 0x0304 && st.epoch == "app" && len(body) == 1 && body[0] <= 1:
		k.keyUpdate(view, d)
	}
}

func (k *Keyed) parseServerHello(b []byte) error {
	if len(b) < 35 {
		return errors.New("short")
	}
	vers := uint16(b[0])<<8 | uint16(b[1])
	k.sr = append([]byte(nil), b[2:34]...)
	p := 34
	sl := int(b[p])
	p += 1 + sl
	if len(b) < p+3 {
		return errors.New("short")
	}
	k.Suite = uint16(b[p])<<8 | uint16(b[p+1])
	p += 3
	if len(b) >= p+2 {
		el := int(b[p])<<8 | int(b[p+1])
		p += 2
		if len(b) < p+el {
			return errors.New("short extensions")
		}
		ext := b[p : p+el]
		for len(ext) >= 4 {
			t := uint16(ext[0])<<8 | uint16(ext[1])
			l := int(ext[2])<<8 | int(ext[3])
			if len(ext) < 4+l {
				return errors.New("short extension")
			}
			if t == 43 && l == 2 {
				vers = uint16(ext[4])<<8 | uint16(ext[5])
			}
			ext = ext[4+l:]
		}
	}
	k.Vers = vers
	return nil
}

// state returns the resolved cipher state of a view (nil = no protection). For the sender view the
// candidate that opens probe is selected.
func (k *Keyed) state(view int, d Dir, probe func(*cipherState) bool) *cipherState {
	st := k.st[view][d]
	if st.epoch == "clear" {
		return nil
	}
	if st.cs != nil {
		return st.cs
	}
	cands := k.candidates(view, d)
	for _, c := range cands {
		if probe == nil || probe(c.clone()) {
			st.cs = c
			break
		}
	}
	if st.cs != nil && k.Vers != 0x0304 && k.master == nil {
		k.master = st.cs.secret
	}
	return st.cs
}

func (k *Keyed) mitm(d Dir, nth int, data []byte) [][]byte {
	if k.raw[d] {
		return [][]byte{data}
	}
	k.in[d] = append(k.in[d], data...)
	var out []byte
	for len(k.in[d]) >= 5 {
		l := int(k.in[d][3])<<8 | int(k.in[d][4])
		if len(k.in[d]) < 5+l {
			break
		}
		rec := append([]byte(nil), k.in[d][:5+l]...)
		k.in[d] = k.in[d][5+l:]
		o, ok := k.process(d, rec)
		if !ok {
			k.raw[d] = true
			out = append(out, rec...)
			out = append(out, k.in[d]...)
			k.in[d] = nil
			break
		}
		out = append(out, o...)
	}
	return [][]byte{out}
}

func (k *Keyed) process(d Dir, rec []byte) ([]byte, bool) {
	hdrType := rec[0]
	hdrVers := uint16(rec[1])<<8 | uint16(rec[2])
	payload := rec[5:]
	sst := k.st[0][d]
	epoch := sst.epoch
	if sst.gen > 0 {
		epoch = fmt.Sprintf("app+%d", sst.gen)
	}
	var typ byte
	var pt []byte
	protected := false
	if sst.epoch == "clear" || (k.Vers == 0x0304 && hdrType != 23) {
		typ, pt = hdrType, payload
		if sst.epoch != "clear" {
			epoch = "clear"
		}
	} else {
		cs := k.state(0, d, func(c *cipherState) bool { _, _, ok := c.open(hdrType, hdrVers, payload); return ok })
		if cs == nil {
			k.desync("%s record %d (%s): no logged secret opens it", d, len(k.Seen[d]), epoch)
			return nil, false
		}
		var ok bool
		if typ, pt, ok = cs.open(hdrType, hdrVers, payload); !ok {
			k.desync("%s record %d (%s): cannot open", d, len(k.Seen[d]), epoch)
			return nil, false
		}
		protected = true
	}
	seen := Seen{Dir: d, Index: len(k.Seen[d]), Type: typ, Data: append([]byte(nil), pt...), Protected: protected, Epoch: epoch, RecVers: hdrVers}
	k.Seen[d] = append(k.Seen[d], seen)
	if typ == 21 && len(pt) == 2 {
		k.Alerts[d] = append(k.Alerts[d], [2]byte{pt[0], pt[1]})
	}
	k.advance(0, d, typ, pt)
	if k.dead[d] {
		return nil, true
	}
	repl := []Plain{{Type: typ, Data: seen.Data}}
	if k.Rewrite != nil {
		if r, ok := k.Rewrite(seen); ok {
			repl = r
		}
	}
	var out []byte
	for _, p := range repl {
		if k.dead[d] {
			break
		}
		out = append(out, k.deliver(d, p, hdrVers)...)
	}
	return out, true
}

func (k *Keyed) deliver(d Dir, p Plain, recVers uint16) []byte {
	body := p.body()
	var rec []byte
	cs := k.state(1, d, nil)
	if k.st[1][d].epoch != "clear" && cs == nil && !p.Clear {
		k.desync("%s delivery: no secret for the receiver's %s epoch", d, k.st[1][d].epoch)
	}
	if cs == nil || p.Clear {
		rec = (*cipherState)(nil).seal(p.Type, recVers, body, 0, 0)
	} else {
		rec = cs.seal(p.Type, recVers, body, p.Pad13, p.Outer13)
	}
	k.Delivered[d] = append(k.Delivered[d], p)
	if !(p.Clear && cs != nil) && (p.Outer13 == 0 || p.Outer13 == 23) {
		k.advance(1, d, p.Type, body)
	}
	if p.CloseAfter {
		k.dead[d] = true
		h := k.n.h[d]
		h.closed, h.sink = true, true
		h.cond.Broadcast()
	}
	return rec
}
