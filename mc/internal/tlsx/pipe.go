// Package tlsx is the E4 engine: a real zcrypto tls.Client and tls.Server joined
// by a deterministic in-memory duplex transport that records every write,
// can segment reads, and lets a man-in-the-middle rewrite/drop/duplicate data.
package tlsx

import (
	"errors"
	"io"
	"net"
	"os"
	"sync"
	"time"
)

// Dir identifies a direction of the duplex.
type Dir int

const (
	C2S Dir = iota // client -> server
	S2C            // server -> client
)

func (d Dir) String() string {
	if d == C2S {
		return "c2s"
	}
	return "s2c"
}

// half is one direction of the pipe: an unbounded byte queue.
type half struct {
	cond     *sync.Cond
	buf      []byte
	closed   bool // writer closed: reader sees EOF after draining
	rclosed  bool // reader closed: writes fail
	total    int  // bytes ever enqueued
	deadline bool // a read deadline in the past was set: reads fail with timeout
	waiting  int  // readers currently blocked
	sink     bool // a MITM truncated this direction: later writes succeed but vanish
}

func newHalf(mu *sync.Mutex) *half {
	h := &half{}
	h.cond = sync.NewCond(mu)
	return h
}

// Net is the shared state of one duplex connection.
type Net struct {
	h [2]*half // indexed by Dir: data flowing in that direction

	mu    sync.Mutex // guards everything below and both halves
	wlog  [2][][]byte // every Write call per direction, as written by the endpoint (before MITM)
	Mitm  func(d Dir, nth int, data []byte) [][]byte
	nth   [2]int
	MaxRd [2]int // max bytes returned by one Read for data flowing in Dir (0 = unlimited)

	// Stalled is set when both endpoints were parked in Read with nothing in
	// flight (a structural deadlock of the two single-threaded endpoints); the
	// transport then closes both directions so that every call returns.
	Stalled bool
	idle    [2]bool // party (0 = client, 1 = server) is not inside any call and will not act by itself
}

// SetIdle declares that a party (0 = client, 1 = server) is outside any call
// (e.g. its Handshake returned while the peer is still handshaking). An idle
// party counts as "cannot make progress" for stall detection.
func (n *Net) SetIdle(party int, idle bool) {
	n.mu.Lock()
	n.idle[party] = idle
	if idle {
		n.stallCheckLocked()
	}
	n.mu.Unlock()
}

// Writes returns copies of all endpoint Write calls in direction d.
func (n *Net) Writes(d Dir) [][]byte {
	n.mu.Lock()
	defer n.mu.Unlock()
	out := make([][]byte, len(n.wlog[d]))
	for i, w := range n.wlog[d] {
		out[i] = append([]byte(nil), w...)
	}
	return out
}

// Stream returns the concatenation of all endpoint writes in direction d.
func (n *Net) Stream(d Dir) []byte {
	var out []byte
	for _, w := range n.Writes(d) {
		out = append(out, w...)
	}
	return out
}

// Conn is one endpoint of the duplex. It implements net.Conn.
type Conn struct {
	n      *Net
	out    Dir // direction of this endpoint's writes
	closed bool
	cmu    sync.Mutex
}

// NewPipe returns the client and server endpoints of a fresh duplex.
func NewPipe() (client, server *Conn, n *Net) {
	n = &Net{}
	n.h = [2]*half{newHalf(&n.mu), newHalf(&n.mu)}
	return &Conn{n: n, out: C2S}, &Conn{n: n, out: S2C}, n
}

type timeoutErr struct{}

func (timeoutErr) Error() string   { return "tlsx: i/o timeout" }
func (timeoutErr) Timeout() bool   { return true }
func (timeoutErr) Temporary() bool { return true }

var _ net.Error = timeoutErr{}

func (c *Conn) in() *half { return c.n.h[1-c.out] }

func (c *Conn) Read(p []byte) (int, error) {
	h := c.in()
	c.n.mu.Lock()
	defer c.n.mu.Unlock()
	for {
		if h.rclosed {
			return 0, io.ErrClosedPipe
		}
		if h.deadline {
			return 0, timeoutErr{}
		}
		if len(h.buf) > 0 {
			k := len(p)
			if k > len(h.buf) {
				k = len(h.buf)
			}
			if m := c.n.MaxRd[1-c.out]; m > 0 && k > m {
				k = m
			}
			copy(p, h.buf[:k])
			h.buf = h.buf[k:]
			return k, nil
		}
		if h.closed {
			return 0, io.EOF
		}
		if len(p) == 0 {
			return 0, nil
		}
		h.waiting++
		c.n.stallCheckLocked()
		if !h.closed {
			h.cond.Wait()
		}
		h.waiting--
	}
}

func (c *Conn) Write(p []byte) (int, error) {
	c.cmu.Lock()
	closed := c.closed
	c.cmu.Unlock()
	if closed {
		return 0, io.ErrClosedPipe
	}
	n := c.n
	n.mu.Lock()
	defer n.mu.Unlock()
	n.wlog[c.out] = append(n.wlog[c.out], append([]byte(nil), p...))
	nth := n.nth[c.out]
	n.nth[c.out]++
	h := n.h[c.out]
	if h.sink {
		return len(p), nil
	}
	if h.rclosed || h.closed {
		return 0, io.ErrClosedPipe
	}
	chunks := [][]byte{p}
	if n.Mitm != nil {
		chunks = n.Mitm(c.out, nth, append([]byte(nil), p...))
	}
	for _, ch := range chunks {
		h.buf = append(h.buf, ch...)
		h.total += len(ch)
	}
	h.cond.Broadcast()
	return len(p), nil
}

// Inject appends raw bytes to the stream flowing in direction d (MITM insertions).
func (n *Net) Inject(d Dir, data []byte) {
	n.mu.Lock()
	n.injectLocked(d, data)
	n.mu.Unlock()
}

// injectLocked is Inject for use inside a Mitm callback (which runs under the lock).
func (n *Net) injectLocked(d Dir, data []byte) {
	h := n.h[d]
	h.buf = append(h.buf, data...)
	h.total += len(data)
	h.cond.Broadcast()
}

// InjectFromMitm may be called from inside the Mitm callback only.
func (n *Net) InjectFromMitm(d Dir, data []byte) { n.injectLocked(d, data) }

// stallCheckLocked: no party can make progress — each is idle or parked in Read
// with nothing buffered — while at least one is parked and nothing is closed.
func (n *Net) stallCheckLocked() {
	a, b := n.h[0], n.h[1]
	if a.closed || b.closed || a.rclosed || b.rclosed || a.deadline || b.deadline {
		return
	}
	// party 0 (client) reads h[S2C]; party 1 (server) reads h[C2S]
	blocked := func(p int) bool {
		in := n.h[1-p]
		return in.waiting > 0 && len(in.buf) == 0
	}
	stuck0 := n.idle[0] || blocked(0)
	stuck1 := n.idle[1] || blocked(1)
	if stuck0 && stuck1 && (blocked(0) || blocked(1)) {
		n.Stalled = true
		a.closed, b.closed = true, true
		a.cond.Broadcast()
		b.cond.Broadcast()
	}
}

// CloseDir closes the stream flowing in direction d as if its writer had closed.
func (n *Net) CloseDir(d Dir) {
	n.mu.Lock()
	h := n.h[d]
	h.closed = true
	h.cond.Broadcast()
	n.mu.Unlock()
}

// Blocked reports whether a reader of the stream flowing in direction d is
// parked with no data pending and the stream not closed.
func (n *Net) Blocked(d Dir) bool {
	n.mu.Lock()
	defer n.mu.Unlock()
	h := n.h[d]
	return h.waiting > 0 && len(h.buf) == 0 && !h.closed && !h.rclosed && !h.deadline
}

func (c *Conn) Close() error {
	c.cmu.Lock()
	if c.closed {
		c.cmu.Unlock()
		return nil
	}
	c.closed = true
	c.cmu.Unlock()
	c.n.mu.Lock()
	out := c.n.h[c.out]
	out.closed = true
	out.cond.Broadcast()
	in := c.in()
	in.rclosed = true
	in.cond.Broadcast()
	c.n.mu.Unlock()
	return nil
}

type addr struct{}

func (addr) Network() string { return "tlsx" }
func (addr) String() string  { return "tlsx" }

func (c *Conn) LocalAddr() net.Addr  { return addr{} }
func (c *Conn) RemoteAddr() net.Addr { return addr{} }

// Deadlines: only "already expired" vs "none" are modelled (no wall clock):
// a deadline that is not in the future makes pending and later reads fail
// with a timeout; the zero time clears it. Future deadlines never fire.
func (c *Conn) SetReadDeadline(t time.Time) error {
	c.n.mu.Lock()
	h := c.in()
	h.deadline = !t.IsZero() && !t.After(time.Now())
	h.cond.Broadcast()
	c.n.mu.Unlock()
	return nil
}
func (c *Conn) SetWriteDeadline(t time.Time) error { return nil }
func (c *Conn) SetDeadline(t time.Time) error      { return c.SetReadDeadline(t) }

var _ net.Conn = (*Conn)(nil)

// ErrTimeout helps callers classify.
func IsTimeout(err error) bool {
	var ne net.Error
	return errors.As(err, &ne) && ne.Timeout() || errors.Is(err, os.ErrDeadlineExceeded)
}
