package tlsx

import (
	"crypto/sha256"
	"encoding/binary"
	"fmt"
	"sync"
	"time"

	"github.com/zmap/zcrypto/tls"
	"github.com/zmap/zcrypto/x509"
	"verifmc/internal/ev"
	"verifmc/internal/fx"
)

// DetRand is a deterministic entropy source for tls.Config.Rand. One-byte
// reads (Go's randutil.MaybeReadByte, which is deliberately non-deterministic
// about whether it reads) are answered without advancing the stream, so the
// bytes seen by key generation and signing do not depend on that coin.
type DetRand struct {
	mu   sync.Mutex
	seed [32]byte
	ctr  uint64
	buf  []byte
}

func NewDetRand(seed string) *DetRand { return &DetRand{seed: sha256.Sum256([]byte(seed))} }

func (r *DetRand) Read(p []byte) (int, error) {
	if len(p) == 1 {
		p[0] = 0x5a
		return 1, nil
	}
	r.mu.Lock()
	defer r.mu.Unlock()
	n := len(p)
	for len(p) > 0 {
		if len(r.buf) == 0 {
			var b [40]byte
			copy(b[:], r.seed[:])
			binary.BigEndian.PutUint64(b[32:], r.ctr)
			r.ctr++
			s := sha256.Sum256(b[:])
			r.buf = s[:]
		}
		k := copy(p, r.buf)
		p = p[k:]
		r.buf = r.buf[k:]
	}
	return n, nil
}

// Now is the fixed clock of all TLS harnesses.
func Now() time.Time { return fx.T0 }

// Identity is a certificate chain + key usable as tls.Certificate.
type Identity struct {
	Leaf  *fx.Cert
	Chain []*fx.Cert // leaf first, root excluded
	Root  *fx.Cert
}

// TLSCert converts to the tls.Certificate form.
func (id *Identity) TLSCert() tls.Certificate {
	var c tls.Certificate
	for _, x := range id.Chain {
		c.Certificate = append(c.Certificate, x.DER)
	}
	c.PrivateKey = id.Leaf.Key
	c.Leaf = id.Leaf.X
	return c
}

// Pool returns a pool holding the root.
func (id *Identity) Pool() *x509.CertPool {
	p := x509.NewCertPool()
	p.AddCert(id.Root.X)
	return p
}

var (
	idMu    sync.Mutex
	idCache = map[string]*Identity{}
)

// ServerIdentity returns root -> leaf(dns "srv.example") with the leaf key of the given fixture name.
func ServerIdentity(leafKey string) *Identity {
	return identity("srv", leafKey, []string{"srv.example"}, []x509.ExtKeyUsage{x509.ExtKeyUsageServerAuth})
}

// ClientIdentity returns root -> client leaf.
func ClientIdentity(leafKey string) *Identity {
	return identity("cli", leafKey, nil, []x509.ExtKeyUsage{x509.ExtKeyUsageClientAuth})
}

func identity(kind, leafKey string, dns []string, eku []x509.ExtKeyUsage) *Identity {
	idMu.Lock()
	defer idMu.Unlock()
	k := kind + "/" + leafKey
	if id, ok := idCache[k]; ok {
		return id
	}
	root := fx.MustMint(fx.CertSpec{CN: kind + " root", Key: "ed-" + kind + "-root", IsCA: true,
		KeyUsage: x509.KeyUsageCertSign | x509.KeyUsageDigitalSignature}, nil)
	leaf := fx.MustMint(fx.CertSpec{CN: kind + ".example", Key: leafKey, DNS: dns, EKU: eku, Serial: 2,
		KeyUsage: x509.KeyUsageDigitalSignature | x509.KeyUsageKeyEncipherment}, root)
	id := &Identity{Leaf: leaf, Chain: []*fx.Cert{leaf}, Root: root}
	idCache[k] = id
	return id
}

// Side is what one endpoint observed.
type Side struct {
	Conn   *tls.Conn
	Err    error // handshake error
	Panic  string
	State  tls.ConnectionState
	OKDone bool // handshake completed without error
}

// Session is one client<->server run.
type Session struct {
	Net    *Net
	Client Side
	Server Side
}

// Handshake joins a fresh tls.Client(cc) and tls.Server(sc) and runs both
// handshakes to completion. prep (optional) may install a Mitm / read segmentation
// on the transport before any byte flows. Each side closes its transport when its
// handshake fails, so the peer never stays blocked. On success both conns are left
// open for the data phase; the caller must Close them.
func Handshake(cc, sc *tls.Config, prep func(n *Net)) *Session {
	cp, sp, n := NewPipe()
	if prep != nil {
		prep(n)
	}
	s := &Session{Net: n}
	s.Client.Conn = tls.Client(cp, cc)
	s.Server.Conn = tls.Server(sp, sc)
	var wg sync.WaitGroup
	run := func(side *Side, party int) {
		defer wg.Done()
		p, msg, site := ev.Try(func() { side.Err = side.Conn.Handshake() })
		if p {
			side.Panic = fmt.Sprintf("%s @ %s", msg, site)
			side.Conn.Close()
			return
		}
		if side.Err != nil {
			side.Conn.Close()
			return
		}
		side.OKDone = true
		side.State = side.Conn.ConnectionState()
		n.SetIdle(party, true)
	}
	wg.Add(2)
	go run(&s.Server, 1)
	run(&s.Client, 0)
	wg.Wait()
	n.SetIdle(0, false)
	n.SetIdle(1, false)
	return s
}

// Close closes both endpoints.
func (s *Session) Close() {
	s.Client.Conn.Close()
	s.Server.Conn.Close()
}

// BaseConfigs returns a default client/server config pair for a server identity:
// deterministic Rand, fixed Time, client trusting the identity's root and naming "srv.example".
func BaseConfigs(id *Identity, seed string) (cc, sc *tls.Config) {
	cc = &tls.Config{Rand: NewDetRand("c-" + seed), Time: Now, RootCAs: id.Pool(), ServerName: "srv.example"}
	sc = &tls.Config{Rand: NewDetRand("s-" + seed), Time: Now, Certificates: []tls.Certificate{id.TLSCert()}}
	return
}
