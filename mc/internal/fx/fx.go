// Package fx holds shared fixtures: committed keys (keys.json), deterministic
// randomness and small helpers to mint certificates with zcrypto's own x509.
package fx

import (
	"crypto"
	"crypto/ecdsa"
	"crypto/ed25519"
	"crypto/elliptic"
	stdrsa "crypto/rsa"
	"crypto/sha256"
	_ "embed"
	"encoding/binary"
	"encoding/json"
	"fmt"
	"io"
	"math/big"
	"sync"
	"time"

	zdsa "github.com/zmap/zcrypto/dsa"
	zrsa "github.com/zmap/zcrypto/rsa"
	"github.com/zmap/zcrypto/x509"
	"github.com/zmap/zcrypto/x509/pkix"
)

//go:embed keys.json
var keysJSON []byte

type rsaKey struct {
	N, E, D string
	Primes  []string
}
type ecKey struct{ Curve, D string }
type dsaKey struct{ P, Q, G, Y, X string }
type keyFile struct {
	RSA map[string]rsaKey
	EC  map[string]ecKey
	DSA map[string]dsaKey
}

var (
	once sync.Once
	kf   keyFile
)

func load() {
	once.Do(func() {
		if err := json.Unmarshal(keysJSON, &kf); err != nil {
			panic(err)
		}
	})
}

func bi(s string) *big.Int {
	x, ok := new(big.Int).SetString(s, 16)
	if !ok {
		panic("bad hex in keys.json")
	}
	return x
}

// RSANames lists the RSA fixtures (see cmd/genkeys for sizes/prime counts/exponents).
func RSANames() []string {
	return []string{"rsa512", "rsa1024", "rsa1024b", "rsa1025", "rsa2048", "rsa2048b", "rsa3072", "rsa4096",
		"rsa1024p3", "rsa2048p4", "rsa2048p5", "rsa1024e3", "rsa1024e31", "rsa1024e33", "rsa1024e256"}
}

// ZRSA returns a fresh copy of a fixture as a zcrypto rsa key (not precomputed).
func ZRSA(name string) *zrsa.PrivateKey {
	load()
	k, ok := kf.RSA[name]
	if !ok {
		panic("no rsa fixture " + name)
	}
	p := &zrsa.PrivateKey{PublicKey: zrsa.PublicKey{N: bi(k.N), E: bi(k.E)}, D: bi(k.D)}
	for _, q := range k.Primes {
		p.Primes = append(p.Primes, bi(q))
	}
	return p
}

// StdRSA returns the fixture as a crypto/rsa key, or nil when the exponent does not fit crypto/rsa.
func StdRSA(name string) *stdrsa.PrivateKey {
	load()
	k := kf.RSA[name]
	e := bi(k.E)
	if !e.IsInt64() || e.Int64() > 1<<31-1 {
		return nil
	}
	p := &stdrsa.PrivateKey{PublicKey: stdrsa.PublicKey{N: bi(k.N), E: int(e.Int64())}, D: bi(k.D)}
	for _, q := range k.Primes {
		p.Primes = append(p.Primes, bi(q))
	}
	p.Precompute()
	return p
}

func curve(n string) elliptic.Curve {
	switch n {
	case "p224":
		return elliptic.P224()
	case "p256":
		return elliptic.P256()
	case "p384":
		return elliptic.P384()
	case "p521":
		return elliptic.P521()
	}
	panic("curve " + n)
}

// EC returns an ECDSA fixture: p224 p224b p256 p256b p384 p384b p521 p521b.
func EC(name string) *ecdsa.PrivateKey {
	load()
	k, ok := kf.EC[name]
	if !ok {
		panic("no ec fixture " + name)
	}
	c := curve(k.Curve)
	d := bi(k.D)
	x, y := c.ScalarBaseMult(d.Bytes())
	return &ecdsa.PrivateKey{PublicKey: ecdsa.PublicKey{Curve: c, X: x, Y: y}, D: d}
}

// Ed returns the Ed25519 key derived from the name (any name works; deterministic).
func Ed(name string) ed25519.PrivateKey {
	s := sha256.Sum256([]byte("verif-ed25519-" + name))
	return ed25519.NewKeyFromSeed(s[:])
}

// DSA returns a DSA fixture: dsa1024, dsa2048.
func DSA(name string) *zdsa.PrivateKey {
	load()
	k, ok := kf.DSA[name]
	if !ok {
		panic("no dsa fixture " + name)
	}
	return &zdsa.PrivateKey{PublicKey: zdsa.PublicKey{Parameters: zdsa.Parameters{P: bi(k.P), Q: bi(k.Q), G: bi(k.G)}, Y: bi(k.Y)}, X: bi(k.X)}
}

// Signer returns a crypto.Signer usable with zcrypto x509/tls for any fixture
// name: rsa* (zcrypto rsa key), p* (ecdsa), anything else -> Ed25519 by name.
func Signer(name string) crypto.Signer {
	load()
	if _, ok := kf.RSA[name]; ok {
		k := ZRSA(name)
		k.Precompute()
		return k
	}
	if _, ok := kf.EC[name]; ok {
		return EC(name)
	}
	return Ed(name)
}

// Rand is a deterministic byte stream (SHA-256 in counter mode).
type Rand struct {
	seed [32]byte
	ctr  uint64
	buf  []byte
}

func NewRand(seed string) *Rand {
	return &Rand{seed: sha256.Sum256([]byte(seed))}
}

func (r *Rand) Read(p []byte) (int, error) {
	n := len(p)
	for len(p) > 0 {
		if len(r.buf) == 0 {
			var b [40]byte
			copy(b[:], r.seed[:])
			binary.BigEndian.PutUint64(b[32:], r.ctr)
			r.ctr++
			s := sha256.Sum256(b[:])
			r.buf = s[:]
		}
		k := copy(p, r.buf)
		p = p[k:]
		r.buf = r.buf[k:]
	}
	return n, nil
}

var _ io.Reader = (*Rand)(nil)

// T0 is the fixed "now" of all harnesses.
var T0 = time.Date(2026, 1, 15, 12, 0, 0, 0, time.UTC)

// CertSpec is a compact description of a certificate to mint.
type CertSpec struct {
	CN        string // subject common name
	Key       string // fixture name of the subject key
	Serial    int64
	IsCA      bool
	NoBC      bool // omit basic constraints
	PathLenP1 int  // 0 = no pathLenConstraint, n>0 = pathLenConstraint n-1
	NotBefore time.Time
	NotAfter  time.Time
	DNS       []string
	EKU       []x509.ExtKeyUsage
	KeyUsage  x509.KeyUsage
	SKID      []byte
	AKID      []byte
	Tweak     func(t *x509.Certificate)
}

// Cert is a minted certificate with its key.
type Cert struct {
	Spec CertSpec
	X    *x509.Certificate
	DER  []byte
	Key  crypto.Signer
}

// Mint creates spec signed by parent (nil = self-signed) and parses it back.
func Mint(spec CertSpec, parent *Cert) (*Cert, error) {
	key := Signer(spec.Key)
	if spec.Serial == 0 {
		spec.Serial = 1
	}
	if spec.NotBefore.IsZero() {
		spec.NotBefore = T0.Add(-24 * time.Hour)
	}
	if spec.NotAfter.IsZero() {
		spec.NotAfter = T0.Add(24 * time.Hour)
	}
	t := &x509.Certificate{
		SerialNumber:   big.NewInt(spec.Serial),
		Subject:        pkix.Name{CommonName: spec.CN},
		NotBefore:      spec.NotBefore,
		NotAfter:       spec.NotAfter,
		DNSNames:       spec.DNS,
		ExtKeyUsage:    spec.EKU,
		KeyUsage:       spec.KeyUsage,
		SubjectKeyId:   spec.SKID,
		AuthorityKeyId: spec.AKID,
	}
	if !spec.NoBC {
		t.BasicConstraintsValid = true
		t.IsCA = spec.IsCA
		t.MaxPathLen = -1
		if spec.IsCA && spec.PathLenP1 > 0 {
			t.MaxPathLen = spec.PathLenP1 - 1
			t.MaxPathLenZero = spec.PathLenP1 == 1
		}
	}
	if spec.Tweak != nil {
		spec.Tweak(t)
	}
	pt := t
	signer := key
	if parent != nil {
		pt = parent.X
		signer = parent.Key
	}
	der, err := x509.CreateCertificate(NewRand("mint-"+spec.CN+spec.Key), t, pt, key.Public(), signer)
	if err != nil {
		return nil, fmt.Errorf("mint %s: %w", spec.CN, err)
	}
	x, err := x509.ParseCertificate(der)
	if err != nil {
		return nil, fmt.Errorf("mint %s: parse: %w", spec.CN, err)
	}
	return &Cert{Spec: spec, X: x, DER: der, Key: key}, nil
}

// MustMint panics on error (fixture construction only).
func MustMint(spec CertSpec, parent *Cert) *Cert {
	c, err := Mint(spec, parent)
	if err != nil {
		panic(err)
	}
	return c
}
