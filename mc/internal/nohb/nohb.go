// Package nohb is the re-entrancy pass shared by checks of "pure" library functions: every ordered pair (a, b)
// of a finite menu of calls is executed as "a to completion on one goroutine, then b on another goroutine" with
// NO happens-before edge between the two that ThreadSanitizer can see (the hand-over is a plain word polled from
// a //go:norace function, the same device as the vsched scheduler). The execution itself is sequential and
// deterministic; TSan's happens-before analysis then reports every memory location that both calls touch without
// synchronisation with at least one write — i.e. every piece of hidden shared state (package-level scratch
// buffers, pooled objects, lazily filled caches) through which concurrent callers could corrupt each other's
// results, for every schedule, without having to enumerate schedules. A canary pair must be reported and a
// properly synchronised pair must not, otherwise the pass is broken.
package nohb

import (
	"encoding/json"
	"fmt"
	"os"
	"os/exec"
	"runtime"
	"sort"
	"strings"
	"time"
)

type cell struct{ v int }

//go:norace
func (c *cell) set(x int) { c.v = x }

//go:norace
func (c *cell) wait(x int) {
	for c.v != x {
		runtime.Gosched()
	}
}

// Seq runs a on a fresh goroutine and, once it has returned, b on another fresh goroutine, without a
// happens-before edge from a to b. Panics are recovered and returned.
func Seq(a, b func()) (pa, pb string) {
	c := &cell{}
	done := make(chan struct{}, 2)
	go func() {
		defer func() {
			if r := recover(); r != nil {
				pa = fmt.Sprint(r)
			}
			c.set(1)
			done <- struct{}{}
		}()
		a()
	}()
	go func() {
		c.wait(1)
		defer func() {
			if r := recover(); r != nil {
				pb = fmt.Sprint(r)
			}
			done <- struct{}{}
		}()
		b()
	}()
	<-done
	<-done
	return
}

// Op is one call of the menu. New returns a fresh closure each time it is used (so that the objects a call
// works on are private to it unless the check shares them on purpose).
type Op struct {
	Name string
	New  func() func()
}

// Out is what the race-built worker prints.
type Out struct {
	Pairs    int               `json:"pairs"`
	Ops      int               `json:"ops"`
	Races    map[string]string `json:"races"` // signature -> first pair that showed it
	Harness  int               `json:"harness_only_reports"`
	Panics   map[string]string `json:"panics"`
	CanaryOK bool              `json:"canary_ok"`
	Broken   string            `json:"broken,omitempty"`
}

func logFile() string {
	p := os.Getenv("NOHB_RACELOG")
	if p == "" {
		return ""
	}
	return fmt.Sprintf("%s.%d", p, os.Getpid())
}

func logSize() int64 {
	if fi, err := os.Stat(logFile()); err == nil {
		return fi.Size()
	}
	return 0
}

func logTail(from int64) string {
	b, err := os.ReadFile(logFile())
	if err != nil || int64(len(b)) <= from {
		return ""
	}
	return string(b[from:])
}

var canaryX int

func canaryInc() { canaryX++ }

// Pair is the index of the pair WorkerMain is currently building or running (it changes before the two New calls
// of a pair): a menu that wants both calls of a pair to work on ONE shared object (documented as safe for
// concurrent use) and a fresh object for the next pair keys its object on it (see Shared).
var Pair int

// Shared returns an accessor that hands out the same object to both calls of a pair and makes a fresh one (mk,
// called on the worker's main goroutine, before the two calls) for every other pair.
func Shared[T any](mk func() T) func() T {
	at, cur := -1, *new(T)
	return func() T {
		if Pair != at {
			at, cur = Pair, mk()
		}
		return cur
	}
}

// IsWorker reports whether this process was started as the race-built worker of the pass.
func IsWorker() bool { return os.Getenv("NOHB_WORKER") == "1" }

// WorkerMain runs every ordered pair of ops (including an op with a second instance of itself) and prints Out.
func WorkerMain(ops []Op, repoDir string) {
	out := Out{Races: map[string]string{}, Panics: map[string]string{}, Ops: len(ops)}
	emit := func() { b, _ := json.Marshal(out); fmt.Println(string(b)) }
	if logFile() == "" {
		out.Broken = "NOHB_RACELOG not set"
		emit()
		return
	}
	// canary: an unsynchronised counter must be reported, a channel-ordered one must not
	n0 := logSize()
	Seq(canaryInc, canaryInc)
	racy := strings.Count(logTail(n0), "WARNING: DATA RACE")
	n1 := logSize()
	ch := make(chan struct{}, 1)
	y := 0
	Seq(func() { y++; ch <- struct{}{} }, func() { <-ch; y++ })
	ordered := strings.Count(logTail(n1), "WARNING: DATA RACE")
	out.CanaryOK = racy >= 1 && ordered == 0
	if !out.CanaryOK {
		out.Broken = fmt.Sprintf("race canary failed: unsynchronised pair gave %d reports (want >=1), synchronised pair gave %d (want 0)", racy, ordered)
		emit()
		return
	}
	for i := range ops {
		for j := range ops {
			from := logSize()
			Pair++
			pa, pb := Seq(ops[i].New(), ops[j].New())
			out.Pairs++
			pair := ops[i].Name + " || " + ops[j].Name
			if pa != "" {
				out.Panics["panic in "+ops[i].Name] = pair + ": " + pa
			}
			if pb != "" {
				out.Panics["panic in "+ops[j].Name] = pair + ": " + pb
			}
			if t := logTail(from); t != "" {
				for _, r := range ParseRaces(t, repoDir) {
					if !r.InRepo {
						out.Harness++
						continue
					}
					if _, ok := out.Races[r.Summary]; !ok {
						out.Races[r.Summary] = pair
					}
				}
			}
		}
	}
	emit()
}

// Run starts the race-built binary as the worker and returns its output.
func Run(raceBin string, extraEnv []string, timeout time.Duration) Out {
	if raceBin == "" {
		return Out{Broken: "race binary not built (VERIF_RACE_BIN unset)"}
	}
	dir, err := os.MkdirTemp("", "nohb-")
	if err != nil {
		return Out{Broken: err.Error()}
	}
	defer os.RemoveAll(dir)
	cmd := exec.Command(raceBin)
	cmd.Env = append(append(os.Environ(), "NOHB_WORKER=1", "NOHB_RACELOG="+dir+"/race", "GORACE=log_path="+dir+"/race halt_on_error=0 history_size=5"), extraEnv...)
	var so, se strings.Builder
	cmd.Stdout, cmd.Stderr = &so, &se
	if err := cmd.Start(); err != nil {
		return Out{Broken: "start: " + err.Error()}
	}
	done := make(chan error, 1)
	go func() { done <- cmd.Wait() }()
	select {
	case <-done:
	case <-time.After(timeout):
		cmd.Process.Kill()
		<-done
		return Out{Broken: fmt.Sprintf("re-entrancy worker exceeded %v", timeout)}
	}
	var out Out
	lines := strings.Split(strings.TrimSpace(so.String()), "\n")
	if err := json.Unmarshal([]byte(lines[len(lines)-1]), &out); err != nil {
		tail := se.String()
		if len(tail) > 600 {
			tail = tail[len(tail)-600:]
		}
		return Out{Broken: "no result from the re-entrancy worker: " + tail}
	}
	return out
}

// Sigs returns the race signatures in a stable order.
func (o Out) Sigs() []string {
	var s []string
	for k := range o.Races {
		s = append(s, k)
	}
	sort.Strings(s)
	return s
}
