package nohb

import (
	"regexp"
	"sort"
	"strings"
)

// Race is one ThreadSanitizer report reduced to the two conflicting accesses.
type Race struct {
	A, B    string // "<op> <first frame of the code under test>"
	InRepo  bool   // both accesses have a frame in the code under test (not harness, not scheduler)
	Summary string
}

var frameRe = regexp.MustCompile(`^\s+(\S+)\(\)$`)
var fileRe = regexp.MustCompile(`^\s+(/\S+):(\d+)`)

// ParseRaces splits TSan output into reports. repoDir is the root of the code
// under test (frames under repoDir/vsched are scheduler frames and ignored).
func ParseRaces(text, repoDir string) []Race {
	var out []Race
	for _, blk := range strings.Split(text, "WARNING: DATA RACE") {
		if !strings.Contains(blk, " by ") {
			continue
		}
		lines := strings.Split(blk, "\n")
		type acc struct {
			op    string
			frame string
			found bool
		}
		var accs []acc
		cur := -1
		for i := 0; i < len(lines); i++ {
			l := lines[i]
			switch {
			case strings.HasPrefix(l, "Read at"), strings.HasPrefix(l, "Write at"), strings.HasPrefix(l, "Previous read at"), strings.HasPrefix(l, "Previous write at"),
				strings.HasPrefix(l, "Atomic read at"), strings.HasPrefix(l, "Atomic write at"), strings.HasPrefix(l, "Previous atomic read at"), strings.HasPrefix(l, "Previous atomic write at"):
				op := strings.ToLower(strings.Fields(strings.TrimPrefix(l, "Previous "))[0])
				if strings.Contains(strings.ToLower(l), "atomic") {
					op = "atomic-" + strings.ToLower(strings.Fields(strings.TrimPrefix(strings.TrimPrefix(l, "Previous "), "Atomic "))[0])
					op = strings.TrimPrefix(op, "atomic-atomic-")
				}
				accs = append(accs, acc{op: op})
				cur = len(accs) - 1
			case strings.HasPrefix(l, "Goroutine "):
				cur = -1
			default:
				if cur >= 0 && !accs[cur].found {
					if m := frameRe.FindStringSubmatch(l); m != nil && i+1 < len(lines) {
						if fm := fileRe.FindStringSubmatch(lines[i+1]); fm != nil {
							file := fm[1]
							if strings.HasPrefix(file, repoDir+"/") && !strings.HasPrefix(file, repoDir+"/vsched/") {
								fn := m[1]
								fn = strings.TrimPrefix(fn, "github.com/zmap/zcrypto/")
								accs[cur].frame = fn
								accs[cur].found = true
							}
						}
					}
				}
			}
		}
		if len(accs) < 2 {
			continue
		}
		r := Race{InRepo: accs[0].found && accs[1].found}
		a := accs[0].op + " " + accs[0].frame
		b := accs[1].op + " " + accs[1].frame
		ab := []string{a, b}
		sort.Strings(ab)
		r.A, r.B = ab[0], ab[1]
		r.Summary = r.A + " <-> " + r.B
		out = append(out, r)
	}
	return out
}
