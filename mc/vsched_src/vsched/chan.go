package vsched

import (
	"iter"
	"unsafe"
)

// Channel helpers: the rewritten sources call these instead of the native
// channel statements. The native channel is still used for the data (so a
// -race build sees the channel's own happens-before edges); a shadow length
// kept in an Obj lets the scheduler decide enabledness without touching it.
// Only buffered channels are supported (a send is enabled while len < cap).

const maxChans = 64

type chanEntry struct {
	ptr unsafe.Pointer
	obj Obj
}

var chans [maxChans]chanEntry
var nchans int

//go:norace
func resetChans() {
	for i := 0; i < nchans; i++ {
		chans[i] = chanEntry{}
	}
	nchans = 0
}

// nilChan: operations on a nil channel block forever.
var nilChan Obj

//go:norace
func chanObj(p unsafe.Pointer, length, capacity int) *Obj {
	if p == nil {
		nilChan = Obj{}
		return &nilChan
	}
	for i := 0; i < nchans; i++ {
		if chans[i].ptr == p {
			return &chans[i].obj
		}
	}
	if nchans >= maxChans {
		panic("vsched: too many channels")
	}
	if capacity == 0 {
		panic("vsched: unbuffered channels are not supported by the scheduler model")
	}
	chans[nchans] = chanEntry{ptr: p, obj: Obj{Count: length, Cap: capacity}}
	nchans++
	return &chans[nchans-1].obj
}

//go:norace
func Send[T any](ch chan<- T, v T) {
	e := cur
	if e == nil {
		ch <- v
		return
	}
	if e.aborting {
		return
	}
	o := chanObj(*(*unsafe.Pointer)(unsafe.Pointer(&ch)), len(ch), cap(ch))
	Point(KSend, o)
	if o.Closed {
		panic("send on closed channel")
	}
	o.Count++
	ch <- v
}

//go:norace
func Recv2[T any](ch <-chan T) (T, bool) {
	e := cur
	if e == nil {
		v, ok := <-ch
		return v, ok
	}
	if e.aborting {
		var z T
		return z, false
	}
	o := chanObj(*(*unsafe.Pointer)(unsafe.Pointer(&ch)), len(ch), cap(ch))
	Point(KRecv, o)
	if o.Count > 0 {
		o.Count--
	}
	v, ok := <-ch
	return v, ok
}

func Recv[T any](ch <-chan T) T {
	v, _ := Recv2(ch)
	return v
}

//go:norace
func Close[T any](ch chan T) {
	e := cur
	if e == nil {
		close(ch)
		return
	}
	if e.aborting {
		return
	}
	o := chanObj(*(*unsafe.Pointer)(unsafe.Pointer(&ch)), len(ch), cap(ch))
	Point(KClose, o)
	o.Closed = true
	close(ch)
}

// Range replaces `for v := range ch`.
func Range[T any](ch <-chan T) iter.Seq[T] {
	return func(yield func(T) bool) {
		for {
			v, ok := Recv2(ch)
			if !ok {
				return
			}
			if !yield(v) {
				return
			}
		}
	}
}

// TrySend replaces `select { case ch <- v: ...; default: ... }`: a scheduling point that is always
// enabled, after which the send happens if and only if the buffer has room at that moment.
//
//go:norace
func TrySend[T any](ch chan<- T, v T) bool {
	e := cur
	if e == nil {
		select {
		case ch <- v:
			return true
		default:
			return false
		}
	}
	if e.aborting {
		return false
	}
	if ch == nil {
		Point(KYield, nil)
		return false
	}
	o := chanObj(*(*unsafe.Pointer)(unsafe.Pointer(&ch)), len(ch), cap(ch))
	Point(KYield, o)
	if o.Closed {
		panic("send on closed channel")
	}
	if o.Count >= o.Cap {
		return false
	}
	o.Count++
	ch <- v
	return true
}

// TryRecv replaces `select { case v, ok := <-ch: ...; default: ... }`; sel reports whether the
// receive case was taken (an element was buffered, or the channel is closed).
//
//go:norace
func TryRecv[T any](ch <-chan T) (v T, ok bool, sel bool) {
	e := cur
	if e == nil {
		select {
		case v, ok = <-ch:
			return v, ok, true
		default:
			return v, false, false
		}
	}
	if e.aborting {
		return v, false, false
	}
	if ch == nil {
		Point(KYield, nil)
		return v, false, false
	}
	o := chanObj(*(*unsafe.Pointer)(unsafe.Pointer(&ch)), len(ch), cap(ch))
	Point(KYield, o)
	if o.Count == 0 && !o.Closed {
		return v, false, false
	}
	if o.Count > 0 {
		o.Count--
	}
	v, ok = <-ch
	return v, ok, true
}
