// Package vtime stands in for the clock/timer functions of "time" in rewritten sources.
package vtime

import (
	"time"

	"github.com/zmap/zcrypto/vsched"
)

type Ticker = vsched.Ticker

func Now() time.Time                    { return vsched.VNow() }
func Since(t time.Time) time.Duration   { return vsched.VSince(t) }
func Sleep(d time.Duration)             { vsched.VSleep(d) }
func NewTicker(d time.Duration) *Ticker { return vsched.NewTicker(d) }
