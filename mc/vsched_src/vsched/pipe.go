package vsched

import (
	"io"
	"net"
	"os"
	"sync"
	"time"
)

// PipeConn is one endpoint of an in-memory duplex whose reads and writes are
// scheduling points (KPipeRead is enabled when data is available, the peer
// closed, or the read deadline expired). Outside a managed execution it must
// not be used.
type pipeHalf struct {
	o     Obj
	buf   []byte
	wdead bool // the WRITE deadline of the endpoint that writes into this half has expired
}

type PipeNet struct {
	mu         sync.Mutex // real lock around the byte queues (models the kernel)
	h          [2]pipeHalf
	ShortReads bool // offer "return 1 byte" as an environment alternative on reads
}

type PipeConn struct {
	n   *PipeNet
	out int
}

func NewPipe() (a, b *PipeConn, n *PipeNet) {
	n = &PipeNet{}
	return &PipeConn{n: n, out: 0}, &PipeConn{n: n, out: 1}, n
}

type pipeTimeout struct{}

func (pipeTimeout) Error() string   { return "vsched pipe: i/o timeout" }
func (pipeTimeout) Timeout() bool   { return true }
func (pipeTimeout) Temporary() bool { return true }

//go:norace
func (c *PipeConn) Read(p []byte) (int, error) {
	h := &c.n.h[1-c.out]
	if cur != nil && cur.aborting {
		return 0, io.ErrClosedPipe
	}
	Point(KPipeRead, &h.o)
	if len(p) == 0 {
		return 0, nil
	}
	if h.o.Count > 0 {
		k := len(p)
		if k > h.o.Count {
			k = h.o.Count
		}
		if c.n.ShortReads && k > 1 && Choose(2) == 1 {
			k = 1
		}
		c.n.mu.Lock()
		copy(p, h.buf[:k])
		h.buf = h.buf[k:]
		c.n.mu.Unlock()
		h.o.Count -= k
		return k, nil
	}
	if h.o.Dead {
		return 0, pipeTimeout{}
	}
	if h.o.Closed {
		return 0, io.EOF
	}
	return 0, io.ErrNoProgress
}

//go:norace
func (c *PipeConn) Write(p []byte) (int, error) {
	h := &c.n.h[c.out]
	if cur != nil && cur.aborting {
		return 0, io.ErrClosedPipe
	}
	Point(KPipeWrite, &h.o)
	if h.o.Closed {
		return 0, io.ErrClosedPipe
	}
	if h.wdead {
		// like a net.Conn whose write deadline has passed: nothing is delivered
		return 0, &net.OpError{Op: "write", Net: "vpipe", Addr: pipeAddr{}, Err: os.ErrDeadlineExceeded}
	}
	c.n.mu.Lock()
	h.buf = append(h.buf, p...)
	c.n.mu.Unlock()
	h.o.Count += len(p)
	return len(p), nil
}

//go:norace
func (c *PipeConn) Close() error {
	if cur != nil && cur.aborting {
		return nil
	}
	Point(KClose, nil)
	c.n.h[c.out].o.Closed = true
	c.n.h[1-c.out].o.Closed = true
	return nil
}

//go:norace
func (c *PipeConn) SetReadDeadline(t time.Time) error {
	if cur != nil && cur.aborting {
		return nil
	}
	Point(KOther, nil)
	c.n.h[1-c.out].o.Dead = !t.IsZero() && !t.After(VNow())
	return nil
}

// SetWriteDeadline: as on the read side the deadline is modelled by whether it has expired at the moment it is
// set (zero = none; a time not after the virtual clock = expired: every transport Write fails with a timeout
// until the deadline is changed; anything later = not expired). Write looks at it after its own scheduling
// point, before delivering, so a deadline set by another thread between two transport writes of one
// tls.Conn.Write is an explorable interleaving. The call is a scheduling point only when it changes that
// state: a call that changes nothing commutes with every other operation (so a zero deadline, and the
// real-clock deadlines tls sets around close_notify, leave every schedule exactly as it was).
//
//go:norace
func (c *PipeConn) SetWriteDeadline(t time.Time) error {
	if cur != nil && cur.aborting {
		return nil
	}
	h := &c.n.h[c.out]
	dead := !t.IsZero() && !t.After(VNow())
	if dead == h.wdead {
		return nil
	}
	Point(KOther, nil)
	h.wdead = dead
	return nil
}

func (c *PipeConn) SetDeadline(t time.Time) error {
	c.SetReadDeadline(t)
	return c.SetWriteDeadline(t)
}

type pipeAddr struct{}

func (pipeAddr) Network() string { return "vpipe" }
func (pipeAddr) String() string  { return "vpipe" }

func (c *PipeConn) LocalAddr() net.Addr  { return pipeAddr{} }
func (c *PipeConn) RemoteAddr() net.Addr { return pipeAddr{} }

var _ net.Conn = (*PipeConn)(nil)
