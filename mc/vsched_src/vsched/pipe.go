package vsched

import (
	"io"
	"net"
	"sync"
	"time"
)

// PipeConn is one endpoint of an in-memory duplex whose reads and writes are
// scheduling points (KPipeRead is enabled when data is available, the peer
// closed, or the read deadline expired). Outside a managed execution it must
// not be used.
type pipeHalf struct {
	o   Obj
	buf []byte
}

type PipeNet struct {
	mu         sync.Mutex // real lock around the byte queues (models the kernel)
	h          [2]pipeHalf
	ShortReads bool // offer "return 1 byte" as an environment alternative on reads
}

type PipeConn struct {
	n   *PipeNet
	out int
}

func NewPipe() (a, b *PipeConn, n *PipeNet) {
	n = &PipeNet{}
	return &PipeConn{n: n, out: 0}, &PipeConn{n: n, out: 1}, n
}

type pipeTimeout struct{}

func (pipeTimeout) Error() string   { return "vsched pipe: i/o timeout" }
func (pipeTimeout) Timeout() bool   { return true }
func (pipeTimeout) Temporary() bool { return true }

//go:norace
func (c *PipeConn) Read(p []byte) (int, error) {
	h := &c.n.h[1-c.out]
	if cur != nil && cur.aborting {
		return 0, io.ErrClosedPipe
	}
	Point(KPipeRead, &h.o)
	if len(p) == 0 {
		return 0, nil
	}
	if h.o.Count > 0 {
		k := len(p)
		if k > h.o.Count {
			k = h.o.Count
		}
		if c.n.ShortReads && k > 1 && Choose(2) == 1 {
			k = 1
		}
		c.n.mu.Lock()
		copy(p, h.buf[:k])
		h.buf = h.buf[k:]
		c.n.mu.Unlock()
		h.o.Count -= k
		return k, nil
	}
	if h.o.Dead {
		return 0, pipeTimeout{}
	}
	if h.o.Closed {
		return 0, io.EOF
	}
	return 0, io.ErrNoProgress
}

//go:norace
func (c *PipeConn) Write(p []byte) (int, error) {
	h := &c.n.h[c.out]
	if cur != nil && cur.aborting {
		return 0, io.ErrClosedPipe
	}
	Point(KPipeWrite, &h.o)
	if h.o.Closed {
		return 0, io.ErrClosedPipe
	}
	c.n.mu.Lock()
	h.buf = append(h.buf, p...)
	c.n.mu.Unlock()
	h.o.Count += len(p)
	return len(p), nil
}

//go:norace
func (c *PipeConn) Close() error {
	if cur != nil && cur.aborting {
		return nil
	}
	Point(KClose, nil)
	c.n.h[c.out].o.Closed = true
	c.n.h[1-c.out].o.Closed = true
	return nil
}

//go:norace
func (c *PipeConn) SetReadDeadline(t time.Time) error {
	if cur != nil && cur.aborting {
		return nil
	}
	Point(KOther, nil)
	c.n.h[1-c.out].o.Dead = !t.IsZero() && !t.After(VNow())
	return nil
}

func (c *PipeConn) SetWriteDeadline(t time.Time) error { return nil }
func (c *PipeConn) SetDeadline(t time.Time) error      { return c.SetReadDeadline(t) }

type pipeAddr struct{}

func (pipeAddr) Network() string { return "vpipe" }
func (pipeAddr) String() string  { return "vpipe" }

func (c *PipeConn) LocalAddr() net.Addr  { return pipeAddr{} }
func (c *PipeConn) RemoteAddr() net.Addr { return pipeAddr{} }

var _ net.Conn = (*PipeConn)(nil)
