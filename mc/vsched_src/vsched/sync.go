package vsched

import "sync"

// Shims for sync types. Each performs the REAL operation after the scheduler
// granted the turn (so a -race build sees the program's own happens-before
// edges), and is a plain pass-through outside a managed execution.

const maxHeld = 64

var held [maxHeld]*Mutex

//go:norace
func noteHeld(m *Mutex, on bool) {
	for i := range held {
		if on && held[i] == nil {
			held[i] = m
			return
		}
		if !on && held[i] == m {
			held[i] = nil
			return
		}
	}
}

// releaseHeld force-unlocks mutexes left locked by an aborted execution
// (global mutexes would otherwise poison the next execution).
//
//go:norace
func releaseHeld() {
	for i := range held {
		if m := held[i]; m != nil {
			m.o.Locked = false
			m.real.Unlock()
			held[i] = nil
		}
	}
}

type Mutex struct {
	o    Obj
	real sync.Mutex
}

//go:norace
func (m *Mutex) Lock() {
	e := cur
	if e == nil {
		m.real.Lock()
		return
	}
	if e.aborting {
		return
	}
	Point(KLock, &m.o)
	m.o.Locked = true
	noteHeld(m, true)
	m.real.Lock()
}

//go:norace
func (m *Mutex) TryLock() bool {
	e := cur
	if e == nil {
		return m.real.TryLock()
	}
	if e.aborting {
		return false
	}
	Point(KOther, nil)
	if m.o.Locked {
		return false
	}
	m.o.Locked = true
	noteHeld(m, true)
	m.real.Lock()
	return true
}

//go:norace
func (m *Mutex) Unlock() {
	e := cur
	if e == nil {
		m.real.Unlock()
		return
	}
	if e.aborting {
		if m.o.Locked {
			m.o.Locked = false
			noteHeld(m, false)
			m.real.Unlock()
		}
		return
	}
	Point(KUnlock, &m.o)
	if !m.o.Locked {
		panic("vsched: unlock of unlocked mutex")
	}
	m.o.Locked = false
	noteHeld(m, false)
	m.real.Unlock()
}

type RWMutex struct {
	o    Obj
	real sync.RWMutex
}

//go:norace
func (m *RWMutex) Lock() {
	e := cur
	if e == nil {
		m.real.Lock()
		return
	}
	if e.aborting {
		return
	}
	Point(KLock, &m.o)
	m.o.Locked = true
	m.real.Lock()
}

//go:norace
func (m *RWMutex) Unlock() {
	e := cur
	if e == nil {
		m.real.Unlock()
		return
	}
	if e.aborting {
		if m.o.Locked {
			m.o.Locked = false
			m.real.Unlock()
		}
		return
	}
	Point(KUnlock, &m.o)
	m.o.Locked = false
	m.real.Unlock()
}

//go:norace
func (m *RWMutex) RLock() {
	e := cur
	if e == nil {
		m.real.RLock()
		return
	}
	if e.aborting {
		return
	}
	Point(KRLock, &m.o)
	m.o.Readers++
	m.real.RLock()
}

//go:norace
func (m *RWMutex) RUnlock() {
	e := cur
	if e == nil {
		m.real.RUnlock()
		return
	}
	if e.aborting {
		if m.o.Readers > 0 {
			m.o.Readers--
			m.real.RUnlock()
		}
		return
	}
	Point(KRUnlock, &m.o)
	m.o.Readers--
	m.real.RUnlock()
}

func (m *RWMutex) RLocker() sync.Locker { return rlocker{m} }

type rlocker struct{ m *RWMutex }

func (r rlocker) Lock()   { r.m.RLock() }
func (r rlocker) Unlock() { r.m.RUnlock() }

type WaitGroup struct {
	o    Obj
	real sync.WaitGroup
}

//go:norace
func (w *WaitGroup) Add(n int) {
	e := cur
	if e == nil {
		w.real.Add(n)
		return
	}
	if e.aborting {
		return
	}
	Point(KWgAdd, &w.o)
	w.o.Count += n
	w.real.Add(n)
}

func (w *WaitGroup) Done() { w.Add(-1) }

//go:norace
func (w *WaitGroup) Wait() {
	e := cur
	if e == nil {
		w.real.Wait()
		return
	}
	if e.aborting {
		return
	}
	Point(KWgWait, &w.o)
	w.real.Wait()
}

// Once is built on the shim Mutex, so that concurrent first calls are explored.
type Once struct {
	m    Mutex
	done bool
}

func (o *Once) Do(f func()) {
	o.m.Lock()
	defer o.m.Unlock()
	if !o.done {
		defer func() { o.done = true }()
		f()
	}
}

// Pool and Map are not scheduling points.
type (
	Pool   = sync.Pool
	Map    = sync.Map
	Locker = sync.Locker
)
