// Package vsched is a cooperative, deterministic scheduler for exploring
// thread interleavings of real Go code (engine E3). It is compiled INTO the
// zcrypto module (virtual package github.com/zmap/zcrypto/vsched, injected by
// go build -overlay) together with source copies of the packages under test
// whose sync / sync/atomic / channel / go / time operations were redirected to
// the shims in this tree. Exactly one managed thread runs at a time; every
// hooked operation calls Point BEFORE it takes effect, and Point hands the turn
// to the thread chosen by the schedule.
//
// All scheduler state is plain memory touched only from //go:norace functions,
// and the hand-off is a spin on a plain word (no channel, no atomic, no lock):
// in a -race build ThreadSanitizer therefore sees NO happens-before edge from
// the scheduler, only the program's own synchronisation, which the shims still
// perform for real after being granted the turn.
package vsched

import (
	"runtime"
	"time"
)

// Kind of a scheduling point.
type Kind uint8

const (
	KNone Kind = iota
	KStart
	KGo
	KLock
	KUnlock
	KRLock
	KRUnlock
	KAtomic
	KSend
	KRecv
	KClose
	KWgAdd
	KWgWait
	KSleep
	KYield
	KEnv
	KPipeRead
	KPipeWrite
	KExit
	KOther
)

var kindNames = [...]string{"none", "start", "go", "lock", "unlock", "rlock", "runlock", "atomic", "send", "recv", "close", "wgadd", "wgwait", "sleep", "yield", "env", "piperead", "pipewrite", "exit", "other"}

func (k Kind) String() string { return kindNames[k] }

// Obj is the scheduler-visible state of a synchronisation object. The shims
// own one each; only scheduler-side (//go:norace) code reads and writes it.
type Obj struct {
	Locked  bool // mutex write-locked
	Readers int  // rwmutex readers
	Count   int  // waitgroup counter / channel length / pipe bytes available
	Cap     int  // channel capacity
	Closed  bool // channel or pipe closed
	Dead    bool // pipe: read deadline expired
}

const (
	maxThreads = 16
	maxPoints  = 20000
	maxTimers  = 16
	maxSteps   = 200000
)

type thread struct {
	used bool
	done bool
	kind Kind // pending operation
	obj  *Obj
	wake int64 // KSleep: virtual wake-up time
}

type timer struct {
	used   bool
	when   int64
	period int64
	fire   func() bool // run by the scheduler at quiescence; reports whether it changed anything
}

// PointInfo describes one recorded choice point of an execution.
type PointInfo struct {
	Kind           Kind // operation the deciding thread was about to perform
	Thread         int  // thread that was running when the choice arose
	N              int  // number of alternatives
	Chosen         int
	RunningEnabled bool // alternative 0 means "the same thread keeps running"
	Env            bool // environment choice (Choose), not a thread switch
}

// Result of one execution.
type Result struct {
	Points      []PointInfo
	Steps       int // all scheduling points incl. forced ones
	Deadlock    bool
	Horizon     bool
	Diverged    bool   // the prefix could not be replayed (choice out of range)
	DeadInfo    string // threads and their pending operations at deadlock
	Threads     int
	VirtualNs   int64
	Panic       string // a managed thread panicked
	PanicThread int
	Stragglers  int // threads that could not be unwound (process must be recycled)
}

type exec struct {
	threads  [maxThreads]thread
	nthreads int
	running  int
	turn     int // plain word the threads spin on
	aborting bool
	finished bool
	live     int
	prefix   []int
	pos      int
	points   []PointInfo
	npoints  int
	steps    int
	deadlock bool
	horizon  bool
	diverged bool
	deadInfo string
	now      int64
	timers   [maxTimers]timer
	panicMsg string
	panicThr int
	quiet    bool // choices are not explored: always alternative 0, nothing recorded
}

// SetExplore switches exploration of choice points off (set-up phases such as
// a handshake that must simply run to completion deterministically) and on.
//
//go:norace
func SetExplore(on bool) {
	if cur != nil {
		cur.quiet = !on
	}
}

var cur *exec

// Active reports whether a managed execution is in progress (and not being torn down).
//
//go:norace
func Active() bool { return cur != nil && !cur.aborting }

//go:norace
func enabled(t *thread, now int64) bool {
	if !t.used || t.done {
		return false
	}
	o := t.obj
	switch t.kind {
	case KLock:
		return !o.Locked && o.Readers == 0
	case KRLock:
		return !o.Locked
	case KWgWait:
		return o.Count <= 0
	case KSend:
		return o.Closed || o.Count < o.Cap
	case KRecv:
		return o.Closed || o.Count > 0
	case KPipeRead:
		return o.Closed || o.Dead || o.Count > 0
	case KSleep:
		return now >= t.wake
	}
	return true
}

// park spins until thread id is given the turn; on abort the goroutine exits.
//
//go:norace
func (e *exec) park(id int) {
	for e.turn != id || e.aborting {
		if e.aborting {
			e.live--
			runtime.Goexit()
		}
		runtime.Gosched()
	}
}

// abort tears the execution down from inside a managed thread.
//
//go:norace
func (e *exec) abort() {
	e.aborting = true
	e.live--
	runtime.Goexit()
}

// pick chooses the next thread to run. me is the deciding thread (whose pending
// operation is already recorded), or -1 when the deciding thread has just exited.
// It returns the chosen thread id, or -1 when the execution must abort.
//
//go:norace
func (e *exec) pick(me int, kind Kind) int {
	for {
		e.steps++
		if e.steps > maxSteps {
			e.horizon = true
			return -1
		}
		var cand [maxThreads]int
		n := 0
		selfEnabled := me >= 0 && enabled(&e.threads[me], e.now)
		if selfEnabled {
			cand[0] = me
			n = 1
		}
		for i := 0; i < e.nthreads; i++ {
			if i != me && enabled(&e.threads[i], e.now) {
				cand[n] = i
				n++
			}
		}
		if n == 0 {
			if e.advanceTime() {
				continue
			}
			e.deadlock = true
			e.describeDeadlock()
			return -1
		}
		choice := 0
		if n > 1 && !e.quiet {
			if e.pos < len(e.prefix) {
				choice = e.prefix[e.pos]
				if choice < 0 || choice >= n {
					e.diverged = true
					return -1
				}
			}
			e.pos++
			if e.npoints >= maxPoints {
				e.horizon = true
				return -1
			}
			who := me
			if who < 0 {
				who = e.running
			}
			e.points = append(e.points, PointInfo{Kind: kind, Thread: who, N: n, Chosen: choice, RunningEnabled: selfEnabled})
			e.npoints++
		}
		return cand[choice]
	}
}

//go:norace
func (e *exec) describeDeadlock() {
	s := ""
	for i := 0; i < e.nthreads; i++ {
		t := &e.threads[i]
		if t.used && !t.done {
			s += "T" + itoa(i) + ":" + t.kind.String() + " "
		}
	}
	e.deadInfo = s
}

func itoa(i int) string {
	if i == 0 {
		return "0"
	}
	s := ""
	for i > 0 {
		s = string(rune('0'+i%10)) + s
		i /= 10
	}
	return s
}

// advanceTime wakes the earliest sleeper / fires the earliest timer. It reports
// whether something changed (so that enabledness must be re-evaluated). Time
// only moves when no thread can run: timers fire at quiescence.
//
//go:norace
func (e *exec) advanceTime() bool {
	best := int64(-1)
	for i := 0; i < e.nthreads; i++ {
		t := &e.threads[i]
		if t.used && !t.done && t.kind == KSleep && (best < 0 || t.wake < best) {
			best = t.wake
		}
	}
	ti := -1
	for i := range e.timers {
		if e.timers[i].used && (best < 0 || e.timers[i].when < best) {
			best = e.timers[i].when
			ti = i
		}
	}
	if best < 0 {
		return false
	}
	if best > e.now {
		e.now = best
	}
	if ti >= 0 {
		tm := &e.timers[ti]
		f := tm.fire
		if tm.period > 0 {
			tm.when += tm.period
		} else {
			tm.used = false
		}
		if !f() {
			// a tick nobody can observe (channel already full): if nothing else is
			// pending in time, the system is stuck for good
			for i := 0; i < e.nthreads; i++ {
				t := &e.threads[i]
				if t.used && !t.done && t.kind == KSleep {
					return true
				}
			}
			for i := range e.timers {
				if i != ti && e.timers[i].used {
					return true
				}
			}
			return false
		}
	}
	return true
}

// Point announces that the running thread is about to perform an operation of
// the given kind on obj and lets the schedule decide who runs next. When it
// returns, the operation is enabled and the caller holds the turn.
//
//go:norace
func Point(kind Kind, obj *Obj) {
	e := cur
	if e == nil || e.aborting {
		return
	}
	me := e.running
	t := &e.threads[me]
	t.kind, t.obj = kind, obj
	next := e.pick(me, kind)
	if next < 0 {
		e.abort()
	}
	if next != me {
		e.running = next
		e.turn = next
		e.park(me)
	}
	t.kind, t.obj = KNone, nil
}

// SleepUntil blocks the running thread until virtual time reaches wake.
//
//go:norace
func SleepUntil(wake int64) {
	e := cur
	if e == nil || e.aborting {
		return
	}
	me := e.running
	t := &e.threads[me]
	t.kind, t.obj, t.wake = KSleep, nil, wake
	next := e.pick(me, KSleep)
	if next < 0 {
		e.abort()
	}
	if next != me {
		e.running = next
		e.turn = next
		e.park(me)
	}
	t.kind = KNone
}

// Now is the virtual clock in nanoseconds since the start of the execution.
//
//go:norace
func Now() int64 {
	if cur == nil {
		return 0
	}
	return cur.now
}

// AddTimer registers a (periodic if period>0) timer whose fire function is run
// by the scheduler when virtual time reaches it. The handle is for StopTimer.
//
//go:norace
func AddTimer(delay, period int64, fire func() bool) int {
	e := cur
	if e == nil {
		return -1
	}
	for i := range e.timers {
		if !e.timers[i].used {
			e.timers[i] = timer{used: true, when: e.now + delay, period: period, fire: fire}
			return i
		}
	}
	panic("vsched: too many timers")
}

//go:norace
func StopTimer(h int) {
	if cur != nil && h >= 0 {
		cur.timers[h].used = false
	}
}

// Choose is an environment choice point with n alternatives (0 = default).
//
//go:norace
func Choose(n int) int {
	e := cur
	if e == nil || e.aborting || n <= 1 || e.quiet {
		return 0
	}
	choice := 0
	if e.pos < len(e.prefix) {
		choice = e.prefix[e.pos]
		if choice < 0 || choice >= n {
			e.diverged = true
			e.abort()
		}
	}
	e.pos++
	if e.npoints >= maxPoints {
		e.horizon = true
		e.abort()
	}
	e.points = append(e.points, PointInfo{Kind: KEnv, Thread: e.running, N: n, Chosen: choice, Env: true})
	e.npoints++
	return choice
}

// Go starts f as a new managed thread. The spawn is itself a scheduling point.
// Outside a managed execution it is a plain go statement.
//
//go:norace
func Go(f func()) {
	e := cur
	if e == nil {
		go f()
		return
	}
	if e.aborting {
		return
	}
	if e.nthreads >= maxThreads {
		panic("vsched: too many threads")
	}
	id := e.nthreads
	e.nthreads++
	e.threads[id] = thread{used: true, kind: KStart}
	e.live++
	go threadMain(e, id, f)
	Point(KGo, nil)
}

//go:norace
func threadMain(e *exec, id int, f func()) {
	e.park(id)
	e.threads[id].kind = KNone
	defer threadExit(e, id)
	f()
}

//go:norace
func threadExit(e *exec, id int) {
	if r := recover(); r != nil {
		e.panicMsg = panicString(r)
		e.panicThr = id
		e.aborting = true
	}
	if e.aborting {
		e.live--
		return
	}
	t := &e.threads[id]
	t.done = true
	t.kind = KExit
	if id == 0 {
		// the body returned: the execution is complete, unwind whoever is left
		e.finished = true
		e.aborting = true
		e.live--
		return
	}
	next := e.pick(-1, KExit)
	e.live--
	if next < 0 {
		e.aborting = true
		return
	}
	e.running = next
	e.turn = next
}

func panicString(r any) string {
	switch v := r.(type) {
	case string:
		return v
	case error:
		return v.Error()
	case interface{ String() string }:
		return v.String()
	}
	return "panic (non-string value)"
}

// Run executes body as thread 0 under the given choice prefix (choice 0 after
// the prefix is exhausted) and returns what happened. Executions are strictly
// sequential within a process; the caller's goroutine is the controller.
//
//go:norace
func Run(prefix []int, body func()) Result {
	// points grows on demand: an exec used to embed a [maxPoints]PointInfo array (~800 KB), whose allocation and,
	// in a -race build, shadow clearing dominated the cost of short executions
	e := &exec{prefix: prefix, panicThr: -1, points: make([]PointInfo, 0, 64)}
	e.threads[0] = thread{used: true, kind: KStart}
	e.nthreads = 1
	e.live = 1
	e.turn = 0
	e.running = 0
	cur = e
	go threadMain(e, 0, body)
	// controller: wait until every managed goroutine has gone
	deadline := time.Time{}
	stragglers := 0
	for e.live > 0 {
		runtime.Gosched()
		if e.aborting {
			if deadline.IsZero() {
				deadline = time.Now().Add(10 * time.Second)
			} else if time.Now().After(deadline) {
				stragglers = e.live
				break
			}
		}
	}
	releaseHeld()
	resetChans()
	cur = nil
	res := Result{Steps: e.steps, Deadlock: e.deadlock, Horizon: e.horizon, Diverged: e.diverged, DeadInfo: e.deadInfo,
		Threads: e.nthreads, VirtualNs: e.now, Panic: e.panicMsg, PanicThread: e.panicThr, Stragglers: stragglers}
	res.Points = append(res.Points, e.points[:e.npoints]...)
	return res
}
