// Package vsched is a cooperative, deterministic scheduler for exploring
// thread interleavings of real Go code (engine E3). It is compiled INTO the
// zcrypto module (virtual package github.com/zmap/zcrypto/vsched, injected by
// go build -overlay) together with source copies of the packages under test
// whose sync / sync/atomic / channel / go / time operations were redirected to
// the shims in this tree. Exactly one managed thread runs at a time; every
// hooked operation calls Point BEFORE it takes effect, and Point hands the turn
// to the thread chosen by the schedule.
//
// All scheduler state is plain memory touched only from //go:norace functions,
// and the hand-off is a spin on a plain word (no channel, no atomic, no lock):
// in a -race build ThreadSanitizer therefore sees NO happens-before edge from
// the scheduler, only the program's own synchronisation, which the shims still
// perform for real after being granted the turn.
package vsched

import (
	"runtime"
	"time"
)

// Kind of a scheduling point.
type Kind uint8

const (
	KNone Kind = iota
	KStart
	KGo
	KLock
	KUnlock
	KRLock
	KRUnlock
	KAtomic
	KSend
	KRecv
	KClose
	KWgAdd
	KWgWait
	KSleep
	KYield
	KEnv
	KPipeRead
	KPipeWrite
	KExit
	KOther
)

var kindNames = [...]string{"none", "start", "go", "lock", "unlock", "rlock", "runlock", "atomic", "send", "recv", "close", "wgadd", "wgwait", "sleep", "yield", "env", "piperead", "pipewrite", "exit", "other"}

func (k Kind) String() string { return kindNames[k] }

// Obj is the scheduler-visible state of a synchronisation object. The shims
// embed or own one; only scheduler code reads and writes it.
type Obj struct {
	Locked  bool // mutex write-locked
	Readers int  // rwmutex readers
	Count   int  // waitgroup counter / channel length / pipe bytes available
	Cap     int  // channel capacity
	Closed  bool // channel or pipe closed
	Dead    bool // pipe: deadline expired
}

const (
	maxThreads = 16
	maxPoints  = 20000
	maxTimers  = 16
)

type thread struct {
	used     bool
	done     bool
	started  bool
	kind     Kind // pending operation
	obj      *Obj
	wake     int64 // KSleep: virtual wake-up time
	fn       func()
}

type timer struct {
	used   bool
	when   int64
	period int64
	fire   func() // executed by the scheduler (norace caller)
}

// PointInfo describes one recorded choice point of an execution.
type PointInfo struct {
	Kind           Kind // kind of the operation the deciding thread was about to do
	Thread         int  // thread that was running when the choice arose
	N              int  // number of alternatives
	Chosen         int
	RunningEnabled bool // alternative 0 is "keep running the same thread"
	Env            bool // environment choice (Choose), not a thread switch
}

// Result of one execution.
type Result struct {
	Points    []PointInfo
	Steps     int // all scheduling points incl. forced ones
	Deadlock  bool
	Horizon   bool
	Diverged  bool   // the prefix could not be replayed (choice out of range)
	DeadInfo  string // threads and their pending operations at deadlock
	Threads   int
	VirtualNs int64
}

type exec struct {
	threads  [maxThreads]thread
	nthreads int
	running  int
	turn     int // plain word the threads spin on
	aborting bool
	live     int
	prefix   []int
	pos      int
	points   [maxPoints]PointInfo
	npoints  int
	steps    int
	deadlock bool
	horizon  bool
	diverged bool
	deadInfo string
	now      int64
	timers   [maxTimers]timer
	finished bool
}

var cur *exec

// Active reports whether a managed execution is in progress.
//
//go:norace
func Active() bool { return cur != nil && !cur.aborting }

// Aborting reports that the execution is being torn down: shims must not block.
//
//go:norace
func Aborting() bool { return cur != nil && cur.aborting }

//go:norace
func enabled(t *thread, now int64) bool {
	if !t.used || t.done {
		return false
	}
	o := t.obj
	switch t.kind {
	case KLock:
		return !o.Locked && o.Readers == 0
	case KRLock:
		return !o.Locked
	case KWgWait:
		return o.Count <= 0
	case KSend:
		return o.Closed || o.Count < o.Cap
	case KRecv:
		return o.Closed || o.Count > 0
	case KPipeRead:
		return o.Closed || o.Dead || o.Count > 0
	case KSleep:
		return now >= t.wake
	}
	return true
}

//go:norace
func (e *exec) spinUntilTurn(id int) {
	for e.turn != id {
		if e.aborting {
			e.live--
			runtime.Goexit()
		}
		runtime.Gosched()
	}
}

// schedule is called by the running thread me (already carrying its pending
// operation). It picks the next thread and, if it is another one, hands over
// and waits for the turn to come back.
//
//go:norace
func (e *exec) schedule(me int) {
	e.steps++
	if e.steps > maxPoints*4 {
		e.horizon = true
		e.abortFrom(me)
		return
	}
	for {
		var cand [maxThreads]int
		n := 0
		selfEnabled := enabled(&e.threads[me], e.now)
		if selfEnabled {
			cand[0] = me
			n = 1
		}
		for i := 0; i < e.nthreads; i++ {
			if i != me && enabled(&e.threads[i], e.now) {
				cand[n] = i
				n++
			}
		}
		if n == 0 {
			if e.advanceTime() {
				continue
			}
			e.deadlock = true
			e.describeDeadlock()
			e.abortFrom(me)
			return
		}
		choice := 0
		if n > 1 {
			if e.pos < len(e.prefix) {
				choice = e.prefix[e.pos]
				if choice < 0 || choice >= n {
					e.diverged = true
					e.abortFrom(me)
					return
				}
			}
			e.pos++
			if e.npoints >= maxPoints {
				e.horizon = true
				e.abortFrom(me)
				return
			}
			e.points[e.npoints] = PointInfo{Kind: e.threads[me].kind, Thread: me, N: n, Chosen: choice, RunningEnabled: selfEnabled}
			e.npoints++
		}
		next := cand[choice]
		if next == me {
			return
		}
		e.running = next
		e.turn = next
		e.spinUntilTurn(me)
		return
	}
}

// abortFrom tears the execution down from inside thread me.
//
//go:norace
func (e *exec) abortFrom(me int) {
	e.aborting = true
	if me != 0 {
		// let the main thread (thread 0) observe the abort; this goroutine exits
		e.live--
		runtime.Goexit()
	}
	// thread 0: unwind its own body too
	panic(abortPanic{})
}

type abortPanic struct{}

//go:norace
func (e *exec) describeDeadlock() {
	s := ""
	for i := 0; i < e.nthreads; i++ {
		t := &e.threads[i]
		if t.used && !t.done {
			s += "T" + itoa(i) + ":" + t.kind.String() + " "
		}
	}
	e.deadInfo = s
}

func itoa(i int) string {
	if i == 0 {
		return "0"
	}
	s := ""
	for i > 0 {
		s = string(rune('0'+i%10)) + s
		i /= 10
	}
	return s
}

// advanceTime fires the earliest timer / wakes the earliest sleeper. It reports
// whether virtual time moved (so that enabledness must be re-evaluated).
//
//go:norace
func (e *exec) advanceTime() bool {
	best := int64(-1)
	for i := 0; i < e.nthreads; i++ {
		t := &e.threads[i]
		if t.used && !t.done && t.kind == KSleep && (best < 0 || t.wake < best) {
			best = t.wake
		}
	}
	ti := -1
	for i := range e.timers {
		if e.timers[i].used && (best < 0 || e.timers[i].when < best) {
			best = e.timers[i].when
			ti = i
		}
	}
	if best < 0 {
		return false
	}
	if best > e.now {
		e.now = best
	}
	if ti >= 0 {
		tm := &e.timers[ti]
		if tm.period > 0 {
			tm.when += tm.period
		} else {
			tm.used = false
		}
		tm.fire()
		// a periodic timer that wakes nobody must not spin forever
		e.steps++
		if e.steps > maxPoints*4 {
			return false
		}
	}
	return true
}

// Point announces that the running thread is about to perform an operation of
// the given kind on obj and lets the schedule decide who runs next. When it
// returns the operation is enabled and the caller holds the turn.
//
//go:norace
func Point(kind Kind, obj *Obj) {
	e := cur
	if e == nil {
		return
	}
	if e.aborting {
		return
	}
	me := e.running
	t := &e.threads[me]
	t.kind, t.obj = kind, obj
	e.schedule(me)
	t.kind, t.obj = KNone, nil
}

// SleepUntil blocks the running thread until virtual time reaches wake.
//
//go:norace
func SleepUntil(wake int64) {
	e := cur
	if e == nil || e.aborting {
		return
	}
	me := e.running
	t := &e.threads[me]
	t.kind, t.obj, t.wake = KSleep, nil, wake
	e.schedule(me)
	t.kind = KNone
}

// Now is the virtual clock in nanoseconds since the start of the execution.
//
//go:norace
func Now() int64 {
	if cur == nil {
		return 0
	}
	return cur.now
}

// AddTimer registers a (periodic if period>0) timer whose fire function is run
// by the scheduler when virtual time reaches it. It returns a handle for StopTimer.
//
//go:norace
func AddTimer(delay, period int64, fire func()) int {
	e := cur
	if e == nil {
		return -1
	}
	for i := range e.timers {
		if !e.timers[i].used {
			e.timers[i] = timer{used: true, when: e.now + delay, period: period, fire: fire}
			return i
		}
	}
	panic("vsched: too many timers")
}

//go:norace
func StopTimer(h int) {
	if cur != nil && h >= 0 {
		cur.timers[h].used = false
	}
}

// Choose is an environment choice point with n alternatives (0 = default).
//
//go:norace
func Choose(n int) int {
	e := cur
	if e == nil || e.aborting || n <= 1 {
		return 0
	}
	choice := 0
	if e.pos < len(e.prefix) {
		choice = e.prefix[e.pos]
		if choice < 0 || choice >= n {
			e.diverged = true
			e.abortFrom(e.running)
			return 0
		}
	}
	e.pos++
	if e.npoints >= maxPoints {
		e.horizon = true
		e.abortFrom(e.running)
		return 0
	}
	e.points[e.npoints] = PointInfo{Kind: KEnv, Thread: e.running, N: n, Chosen: choice, Env: true}
	e.npoints++
	return choice
}

// Go starts f as a new managed thread. The spawn is itself a scheduling point.
//
//go:norace
func Go(f func()) {
	e := cur
	if e == nil || e.aborting {
		if e == nil {
			go f()
		}
		return
	}
	if e.nthreads >= maxThreads {
		panic("vsched: too many threads")
	}
	id := e.nthreads
	e.nthreads++
	e.threads[id] = thread{used: true, kind: KStart}
	e.live++
	go threadMain(e, id, f)
	Point(KGo, nil)
}

//go:norace
func threadMain(e *exec, id int, f func()) {
	e.spinUntilTurn(id)
	e.threads[id].kind = KNone
	e.threads[id].started = true
	defer threadExit(e, id)
	f()
}

//go:norace
func threadExit(e *exec, id int) {
	if r := recover(); r != nil {
		if _, ok := r.(abortPanic); !ok {
			// a real panic in a managed thread: surface it through thread 0
			e.panicVal = r
			e.panicThread = id
			e.aborting = true
		}
	}
	if e.aborting {
		e.live--
		return
	}
	t := &e.threads[id]
	t.done = true
	t.kind = KExit
	e.live--
	// hand the turn to somebody else; this goroutine ends
	e.pickAfterExit(id)
}

// pickAfterExit chooses the next thread after thread id finished.
//
//go:norace
func (e *exec) pickAfterExit(id int) {
	for {
		var cand [maxThreads]int
		n := 0
		for i := 0; i < e.nthreads; i++ {
			if i != id && enabled(&e.threads[i], e.now) {
				cand[n] = i
				n++
			}
		}
		if n == 0 {
			if e.advanceTime() {
				continue
			}
			// nobody can run: if thread 0 is still alive this is a deadlock it must learn about
			e.deadlock = true
			e.describeDeadlock()
			e.aborting = true
			return
		}
		choice := 0
		if n > 1 {
			if e.pos < len(e.prefix) {
				choice = e.prefix[e.pos]
				if choice < 0 || choice >= n {
					e.diverged = true
					e.aborting = true
					return
				}
			}
			e.pos++
			if e.npoints >= maxPoints {
				e.horizon = true
				e.aborting = true
				return
			}
			e.points[e.npoints] = PointInfo{Kind: KExit, Thread: id, N: n, Chosen: choice}
			e.npoints++
		}
		e.running = cand[choice]
		e.turn = cand[choice]
		return
	}
}

// Run executes body as thread 0 under the given choice prefix (choice 0 after
// the prefix is exhausted) and returns what happened. Executions are strictly
// sequential within a process.
func Run(prefix []int, body func()) (res Result, panicVal any, panicThread int) {
	e := &exec{prefix: prefix}
	e.threads[0] = thread{used: true, started: true}
	e.nthreads = 1
	e.live = 1
	e.panicThread = -1
	cur = e
	runMain(e, body)
	// tear down: wake every parked thread so that it exits
	finish(e)
	cur = nil
	res = Result{Steps: e.steps, Deadlock: e.deadlock, Horizon: e.horizon, Diverged: e.diverged, DeadInfo: e.deadInfo, Threads: e.nthreads, VirtualNs: e.now}
	res.Points = append(res.Points, e.points[:e.npoints]...)
	return res, e.panicVal, e.panicThread
}

//go:norace
func runMain(e *exec, body func()) {
	defer func() {
		if r := recover(); r != nil {
			if _, ok := r.(abortPanic); !ok {
				e.panicVal = r
				e.panicThread = 0
			}
		}
		e.threads[0].done = true
	}()
	body()
	// body returned normally: thread 0 is done; let remaining threads be unwound by finish
	// (the harness decides whether unfinished threads are a violation by joining them in body)
	if e.aborting {
		// another thread aborted while we were running to completion
	}
}

// mainWait parks thread 0 until the turn comes back or the execution aborts
// (used when thread 0 is blocked in a Point: handled by spinUntilTurn, which
// for thread 0 must panic instead of Goexit).
//
//go:norace
func finish(e *exec) {
	e.aborting = true
	e.live-- // thread 0
	deadline := time.Now().Add(5 * time.Second)
	for e.live > 0 {
		runtime.Gosched()
		if time.Now().After(deadline) {
			e.stragglers = e.live
			break
		}
	}
}

// Stragglers reports threads that did not unwind after the last execution
// (blocked in an un-hooked operation): the process must then be recycled.
func Stragglers() int { return lastStragglers }

var lastStragglers int
