package vsched

import (
	"time"
	"unsafe"
)

// Virtual time. The clock only advances when no thread can run.

var epoch = time.Date(2026, 1, 15, 12, 0, 0, 0, time.UTC)

func VNow() time.Time { return epoch.Add(time.Duration(Now())) }

func VSince(t time.Time) time.Duration { return VNow().Sub(t) }

func VSleep(d time.Duration) {
	if cur == nil {
		return // unmanaged code does not need to wait for real
	}
	SleepUntil(Now() + int64(d))
}

// Ticker mirrors time.Ticker with a buffered channel of capacity 1.
type Ticker struct {
	C      chan time.Time
	handle int
}

//go:norace
func (t *Ticker) fire() bool {
	e := cur
	if e == nil {
		return false
	}
	ch := t.C
	o := chanObj(*(*unsafe.Pointer)(unsafe.Pointer(&ch)), len(ch), cap(ch))
	if o.Count < o.Cap {
		o.Count++
		ch <- epoch.Add(time.Duration(e.now))
		return true
	}
	return false
}

//go:norace
func NewTicker(d time.Duration) *Ticker {
	t := &Ticker{C: make(chan time.Time, 1), handle: -1}
	if cur != nil && !cur.aborting {
		t.handle = AddTimer(int64(d), int64(d), t.fire)
	}
	return t
}

//go:norace
func (t *Ticker) Stop() {
	StopTimer(t.handle)
	t.handle = -1
}

func (t *Ticker) Reset(d time.Duration) {
	t.Stop()
	if cur != nil && !cur.aborting {
		t.handle = AddTimer(int64(d), int64(d), t.fire)
	}
}
