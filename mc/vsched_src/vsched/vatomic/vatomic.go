// Package vatomic stands in for "sync/atomic" in rewritten sources: every
// operation is a scheduling point followed by the real atomic operation.
package vatomic

import (
	"sync/atomic"
	"unsafe"

	"github.com/zmap/zcrypto/vsched"
)

func p() { vsched.Point(vsched.KAtomic, nil) }

func LoadInt32(a *int32) int32                     { p(); return atomic.LoadInt32(a) }
func LoadInt64(a *int64) int64                     { p(); return atomic.LoadInt64(a) }
func LoadUint32(a *uint32) uint32                  { p(); return atomic.LoadUint32(a) }
func LoadUint64(a *uint64) uint64                  { p(); return atomic.LoadUint64(a) }
func LoadPointer(a *unsafe.Pointer) unsafe.Pointer { p(); return atomic.LoadPointer(a) }
func StoreInt32(a *int32, v int32)                 { p(); atomic.StoreInt32(a, v) }
func StoreInt64(a *int64, v int64)                 { p(); atomic.StoreInt64(a, v) }
func StoreUint32(a *uint32, v uint32)              { p(); atomic.StoreUint32(a, v) }
func StoreUint64(a *uint64, v uint64)              { p(); atomic.StoreUint64(a, v) }
func AddInt32(a *int32, d int32) int32             { p(); return atomic.AddInt32(a, d) }
func AddInt64(a *int64, d int64) int64             { p(); return atomic.AddInt64(a, d) }
func AddUint32(a *uint32, d uint32) uint32         { p(); return atomic.AddUint32(a, d) }
func AddUint64(a *uint64, d uint64) uint64         { p(); return atomic.AddUint64(a, d) }
func SwapInt32(a *int32, v int32) int32            { p(); return atomic.SwapInt32(a, v) }
func SwapInt64(a *int64, v int64) int64            { p(); return atomic.SwapInt64(a, v) }
func SwapUint32(a *uint32, v uint32) uint32        { p(); return atomic.SwapUint32(a, v) }
func CompareAndSwapInt32(a *int32, o, n int32) bool {
	p()
	return atomic.CompareAndSwapInt32(a, o, n)
}
func CompareAndSwapInt64(a *int64, o, n int64) bool {
	p()
	return atomic.CompareAndSwapInt64(a, o, n)
}
func CompareAndSwapUint32(a *uint32, o, n uint32) bool {
	p()
	return atomic.CompareAndSwapUint32(a, o, n)
}
func CompareAndSwapUint64(a *uint64, o, n uint64) bool {
	p()
	return atomic.CompareAndSwapUint64(a, o, n)
}

type Value = atomic.Value

type Bool struct{ v atomic.Bool }

func (b *Bool) Load() bool   { p(); return b.v.Load() }
func (b *Bool) Store(x bool) { p(); b.v.Store(x) }

type Int32 struct{ v atomic.Int32 }

func (b *Int32) Load() int32                    { p(); return b.v.Load() }
func (b *Int32) Store(x int32)                  { p(); b.v.Store(x) }
func (b *Int32) Add(x int32) int32              { p(); return b.v.Add(x) }
func (b *Int32) CompareAndSwap(o, n int32) bool { p(); return b.v.CompareAndSwap(o, n) }

type Int64 struct{ v atomic.Int64 }

func (b *Int64) Load() int64                    { p(); return b.v.Load() }
func (b *Int64) Store(x int64)                  { p(); b.v.Store(x) }
func (b *Int64) Add(x int64) int64              { p(); return b.v.Add(x) }
func (b *Int64) CompareAndSwap(o, n int64) bool { p(); return b.v.CompareAndSwap(o, n) }

type Uint32 struct{ v atomic.Uint32 }

func (b *Uint32) Load() uint32                    { p(); return b.v.Load() }
func (b *Uint32) Store(x uint32)                  { p(); b.v.Store(x) }
func (b *Uint32) Add(x uint32) uint32             { p(); return b.v.Add(x) }
func (b *Uint32) CompareAndSwap(o, n uint32) bool { p(); return b.v.CompareAndSwap(o, n) }
