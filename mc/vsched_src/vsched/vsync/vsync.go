// Package vsync stands in for "sync" in rewritten sources.
package vsync

import "github.com/zmap/zcrypto/vsched"

type (
	Mutex     = vsched.Mutex
	RWMutex   = vsched.RWMutex
	WaitGroup = vsched.WaitGroup
	Once      = vsched.Once
	Pool      = vsched.Pool
	Map       = vsched.Map
	Locker    = vsched.Locker
)
