package main

// Re-entrancy pass (internal/nohb): the hostname verdict must be a function of (certificate, host) also when two
// goroutines verify at once — on two certificates, and on ONE parsed certificate: a parsed certificate is the
// object every TLS stack and scanner hands to many goroutines for reading, the main phase of this check itself calls
// VerifyHostname on the same parsed certificates from all its workers, and VerifyHostname is documented as a pure
// query ("returns nil if c is a valid certificate for the named host"). Every ordered pair of the menu below is run
// as "first call to completion, then the second on another goroutine" WITHOUT a happens-before edge in a -race
// build: ThreadSanitizer reports every location both calls touch unsynchronised, for all interleavings at once.
//
// Menu: (a) VerifyHostname for a host list on a private parse of every second minted DER certificate of family M,
// (b) the same on private struct certificates of families A–D, (c) VerifyHostname(h), including formatting the
// returned HostnameError (which reads the certificate), on ONE shared parsed certificate for five hosts, together
// with the other read-only views of that certificate a server uses next to it (JSON view, Subject/Issuer.String,
// CollectAllNames).
// NOT shared: GetParsedDNSNames / GetParsedSubjectCommonName — documented as caches filled on the object, i.e.
// writers; the library promises nothing for concurrent writers of one certificate (observed: they do race on
// c.parsedDNSNames / c.parsedCommonName when called on one certificate; out of this property's scope).

import (
	"encoding/json"
	"fmt"
	"net"
	"os"
	"time"

	"github.com/zmap/zcrypto/x509"
	"verifmc/internal/ev"
	"verifmc/internal/fx"
	"verifmc/internal/nohb"
)

func reentrantRepoDir() string {
	if v := os.Getenv("VERIF_REPO_DIR"); v != "" {
		return v
	}
	return "/repo"
}

var reentrantHosts = []string{"a", "A.b", "x.b", "a.b.", "1.1.1.1", "[::1]", "::ffff:1.1.1.1", "K", "é.b", "", "*.b", "[a]", "a.x.b"}

func reentrantVerifyAll(c *x509.Certificate) {
	for _, h := range reentrantHosts {
		if err := c.VerifyHostname(h); err != nil {
			_ = err.Error()
		}
	}
}

func reentrantOps() []nohb.Op {
	var ops []nohb.Op
	var sharedDER []byte
	for i, ms := range mintSpecs() {
		ms := ms
		fc, err := fx.Mint(fx.CertSpec{CN: ms.cn, Key: "c09-leaf", Serial: int64(100 + i), DNS: ms.dns,
			Tweak: func(t *x509.Certificate) { t.IPAddresses = ms.ips; t.EmailAddresses = ms.emails }}, nil)
		if err != nil {
			continue
		}
		if len(ms.dns) > 0 && len(ms.ips) > 1 {
			sharedDER = fc.DER // CN "*", DNS a.b, three IP SANs
		}
		if i%2 == 1 {
			continue
		}
		der := fc.DER
		ops = append(ops, nohb.Op{Name: fmt.Sprintf("VerifyHostname(13 hosts) on own parse of minted[%d] cn=%q dns=%q ips=%d", i, ms.cn, ms.dns, len(ms.ips)), New: func() func() {
			c, err := x509.ParseCertificate(append([]byte{}, der...))
			return func() {
				if err == nil {
					reentrantVerifyAll(c)
				}
			}
		}})
	}
	for _, f := range []struct {
		name string
		s    spec
	}{
		{"A:san-dns[*.b],cn=*", spec{SAN: true, DNS: []string{"*.b"}, CN: "*"}},
		{"B:no-san,cn=a.b", spec{CN: "a.b"}},
		{"C:san-without-dns(all ips),cn=a", spec{SAN: true, IPs: ipSubset(31), CN: "a"}},
		{"D:san-dns[a,*.b],cn=*,all-ips", spec{SAN: true, DNS: []string{"a", "*.b"}, IPs: ipSubset(31), CN: "*"}},
	} {
		s := f.s
		ops = append(ops, nohb.Op{Name: "VerifyHostname(13 hosts) on own struct certificate " + f.name, New: func() func() {
			c := structCert(s)
			return func() { reentrantVerifyAll(c) }
		}})
	}
	// ONE parsed certificate read by both calls of a pair — a FRESH parse for every pair, so that a cache filled
	// lazily on the object by the first call would be seen as a write in every pair, not only in the first one
	if sharedDER != nil {
		if _, err := x509.ParseCertificate(sharedDER); err == nil {
			shared := rePairShared(func() *x509.Certificate {
				c, _ := x509.ParseCertificate(append([]byte{}, sharedDER...))
				return c
			})
			for _, h := range []string{"a.b", "x.b", "1.1.1.1", "[::1]", net.IP{9, 9, 9, 9}.String()} {
				h := h
				ops = append(ops, nohb.Op{Name: fmt.Sprintf("VerifyHostname(%q) on the SHARED parsed certificate", h), New: func() func() {
					c := shared()
					return func() {
						if err := c.VerifyHostname(h); err != nil {
							_ = err.Error()
						}
					}
				}})
			}
			ops = append(ops, nohb.Op{Name: "MarshalJSON + json.Marshal on the SHARED parsed certificate", New: func() func() {
				c := shared()
				return func() { c.MarshalJSON(); json.Marshal(c) }
			}})
			ops = append(ops, nohb.Op{Name: "Subject.String + Issuer.String + CollectAllNames on the SHARED parsed certificate", New: func() func() {
				c := shared()
				return func() {
					_ = c.Subject.String()
					_ = c.Issuer.String()
					c.CollectAllNames()
				}
			}})
			if os.Getenv("C09_REENTRANT_SHARED_CACHES") != "" { // experiment only: the documented cache fillers on one object
				ops = append(ops, nohb.Op{Name: "GetParsedDNSNames(false) on the SHARED parsed certificate", New: func() func() {
					c := shared()
					return func() { c.GetParsedDNSNames(false) }
				}})
				ops = append(ops, nohb.Op{Name: "GetParsedSubjectCommonName(false) on the SHARED parsed certificate", New: func() func() {
					c := shared()
					return func() { c.GetParsedSubjectCommonName(false) }
				}})
			}
		}
	}
	return rePairing(ops)
}

// nohb.WorkerMain builds every pair with exactly two New calls (first call, then second call) and calls New for
// nothing else, so New calls number 2k and 2k+1 belong to pair k. rePairing counts them; rePairShared(mk) returns
// an accessor that hands both calls of a pair the same object and makes a fresh one for the next pair.
var reNewCalls int

func rePairing(ops []nohb.Op) []nohb.Op {
	for i := range ops {
		inner := ops[i].New
		ops[i].New = func() func() { reNewCalls++; return inner() }
	}
	return ops
}

func rePairShared[T any](mk func() T) func() T {
	pair, cur := -1, *new(T)
	return func() T {
		if p := (reNewCalls - 1) / 2; p != pair {
			pair, cur = p, mk()
		}
		return cur
	}
}

const reentrantMenuText = "VerifyHostname x 13 hosts on own parses of every second minted certificate and on own struct certificates of families A-D; ONE shared parsed certificate (fresh per pair): VerifyHostname for 5 hosts incl. formatting HostnameError, MarshalJSON/json.Marshal, Subject/Issuer.String, CollectAllNames. GetParsedDNSNames/GetParsedSubjectCommonName (documented caches) are not shared"

func reentrantPhase(c *ev.Ctx) {
	if c.Replay != nil {
		return // --replay re-executes one recorded witness of the main phase only
	}
	t0 := time.Now()
	o := nohb.Run(os.Getenv("VERIF_RACE_BIN"), nil, 10*time.Minute)
	if o.Broken != "" {
		c.Broken("re-entrancy pass: %s", o.Broken)
	}
	for _, sig := range o.Sigs() {
		c.Violation("re-entrancy: two calls on different goroutines share unsynchronised state: "+sig, map[string]any{"pair": o.Races[sig], "kind": "nohb"})
	}
	for k, v := range o.Panics {
		c.Violation("re-entrancy: "+k, map[string]any{"pair": v, "kind": "nohb"})
	}
	c.Outcome("re-entrancy pairs without a report", int64(o.Pairs))
	c.States.Add(int64(o.Pairs))
	c.Traces.Add(int64(o.Pairs))
	c.Set("reentrancy", map[string]any{"calls": o.Ops, "ordered_pairs": o.Pairs, "race_signatures": len(o.Races), "harness_only_reports": o.Harness, "canary_ok": o.CanaryOK,
		"seconds": time.Since(t0).Seconds(), "menu": reentrantMenuText,
		"method": "every ordered pair (a, b) of the menu: a to completion on one goroutine, then b on another, without a happens-before edge, in a -race build; a ThreadSanitizer report with both accesses in the repository is a violation"})
}
