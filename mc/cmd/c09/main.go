// C09 — hostname verification follows the documented matching rules.
//
// Engine E2 (G-bytes on an alphabet): every host string over a 12-symbol
// alphabet up to a length bound (plus structured IP-literal / Unicode hosts) is
// checked against every certificate of several exhaustively enumerated
// families, and the nil / non-nil result of the real
// (*x509.Certificate).VerifyHostname is compared with a transcription of the
// property statement (oracle.go). Certificates are x509.Certificate structs
// shaped like parsed certificates, plus a smaller set of real DER certificates
// (CreateCertificate -> ParseCertificate) whose reference fields are read back
// with the Go standard library.
package main

import (
	"encoding/hex"
	"encoding/json"
	"fmt"
	"net"
	"runtime/debug"
	"sort"
	"strconv"
	"strings"
	"sync/atomic"

	"github.com/zmap/zcrypto/x509"
	"verifmc/internal/ev"
	"verifmc/internal/fx"
	"verifmc/internal/nohb"
)

// ------------------------------------------------------------------ alphabets

// sigma: letters of both cases, digit, '.', '*', '[', ']', ':', a lone
// non-ASCII byte, a 2-byte rune, and U+212A KELVIN SIGN (folds to 'k' under
// Unicode case folding, must NOT under ASCII folding).
var sigma = []string{"a", "A", "b", ".", "*", "1", "[", "]", ":", "\xc3", "\u00e9", "\u212a"}

var patSigma = []string{"a", "A", "b", ".", "*"}

func allStrings(alpha []string, maxLen int) []string {
	out := []string{""}
	level := []string{""}
	for l := 1; l <= maxLen; l++ {
		next := make([]string, 0, len(level)*len(alpha))
		for _, p := range level {
			for _, s := range alpha {
				next = append(next, p+s)
			}
		}
		out = append(out, next...)
		level = next
	}
	return out
}

var structuredHosts = []string{
	// IP literal forms
	"1.1.1.1", "[1.1.1.1]", "1.1.1.1.", "[1.1.1.1].", "[1.1.1.1.]", "1.1.1.2", "1.1.1", "1.1.1.1.1", "01.1.1.1", "1.1.1.01",
	"::1", "[::1]", "[[::1]]", "[::1", "::1]", "0:0:0:0:0:0:0:1", "[0:0:0:0:0:0:0:1]", "0:0:0:0:0:0:0:1.", "::1.",
	"::ffff:1.1.1.1", "[::ffff:1.1.1.1]", "::FFFF:1.1.1.1", "::ffff:101:101", "0:0:0:0:0:ffff:101:101", "::101:101", "::1.1.1.1",
	"::a", "::A", "[::A]", "0::a", "::", "[::]", "::2", "::1%a", "[::1%a]", "[]", "[a]", "[a", "a]", "[a.b]", "[.]",
	// DNS names
	"a.b", "A.B", "a.B", "a.b.", "A.B.", "a.b..", ".a.b", "a..b", "b.a", "b.a.b", "a.a.b", "1.a.b", "a.b.a.b", "aaaa.b", "aaaaa", "ab.ab",
	"a.1.1.1", "1.1.1.a", "1.1.1.1.b", "*.b", "*.a.b", "a.*", "*.*",
	"k", "K", "\u212a", "k.b", "K.b", "\u212a.b", "\u212a.B", "s", "S", "\u017f", "\u00e9", "\u00c9", "\u00e9.b", "\u00c9.b", "\u00c9.B",
	"\xc3a", "\xc3A", "\xc3a.b", "\xc3A.B", "a\xc3", "A\xc3", "\xff", "a-b.b", "xn--a.b", "a_b",
	// both ends of the ASCII letter ranges that case folding maps onto each other, alone and as the only upper-case
	// letter of a name, and the four code points next to the ranges ('@' '[' '`' '{'), which folding must leave alone
	"z", "Z", "z.b", "Z.b", "z.B", "Z.B", "b.z", "b.Z", "zz.b", "zZ.b", "Zz.b", "@.b", "`.b", "{.b", "[.b",
}

var structuredPatterns = []string{
	"a.b", "A.B", "a.B", "A.b", "a.b.", "A.B.", "a.b..", ".a.b", "a..b", "b.a", "ab.ab", "aaaa.b", "aaaaa",
	"*.b", "*.B", "*.b.", "*.a.b", "a.*", "A.*", "a.*.b", "*.*", "*.*.*", "*.*.*.*", "*.*.b", "a.*.*", "b.*.b",
	"k", "K", "\u212a", "k.b", "*.k", "\u212a.b", "s", "\u017f", "\u00e9", "\u00c9", "\u00e9.b", "\u00c9.b", "*.\u00e9",
	"\xc3", "\xc3a", "\xc3A", "\xc3a.b", "a\xc3", "\xff",
	"1", "11", "1a", "a1", "1.1", "1.1.1.1", "*.1.1.1", "1.1.1.*", "*.*.*.1", "1.1.1.1.", "1.1.1.1.b", "*.1.1.1.b",
	"::1", "[::1]", "[1.1.1.1]", "::a", "[a]", "[", "]", ":", "[]", "::", "[*]", "*:", "1:1",
	"a*", "*a", "a*.b", "*a.b", "**", "*.a*", "a*a",
	"z", "Z", "z.b", "Z.b", "z.B", "b.z", "b.Z", "*.z", "*.Z", "zz.b", "zZ.b", "*.zz.b", "*.zZ.b", "@.b", "`.b", "{.b", "[.b",
}

// p10 is the sub-alphabet of patterns used in pairs and as CN in cross products.
var p10 = []string{"a", "b", "*", "a.b", "*.b", "a.*", "A", "a.", "\u212a", "1.1.1.1"}

// IP SAN universe (as stored by a parser: 4 or 16 bytes).
var ipUniverse = [][]byte{
	{1, 1, 1, 1},
	net.ParseIP("1.1.1.1").To16(), // 16-byte form = ::ffff:1.1.1.1
	net.ParseIP("::1").To16(),
	net.ParseIP("::a").To16(),
	net.ParseIP("::101:101").To16(), // v4-compatible, NOT v4-mapped: differs from 1.1.1.1
}

func ipSubset(mask int) [][]byte {
	var out [][]byte
	for i, b := range ipUniverse {
		if mask&(1<<i) != 0 {
			out = append(out, b)
		}
	}
	return out
}

// ------------------------------------------------------------------ cases

type certCase struct {
	family string
	s      spec
	info   *specInfo
	cert   *x509.Certificate
	der    []byte // nil for struct certificates
	wide   bool   // run against the wide host set (thorough)
}

type mintSpec struct {
	cn     string
	dns    []string
	ips    []net.IP
	emails []string
}

func mintSpecs() []mintSpec {
	ip4 := net.IP{1, 1, 1, 1}
	ip16 := net.ParseIP("1.1.1.1").To16()
	l6 := net.ParseIP("::1")
	a6 := net.ParseIP("::a")
	c6 := net.ParseIP("::101:101")
	return []mintSpec{
		// CN only (no SAN extension)
		{cn: "a"}, {cn: "A.b"}, {cn: "*.b"}, {cn: "a.*"}, {cn: "a.b."}, {cn: "*"}, {cn: "\u212a"}, {cn: "\u00e9.b"},
		{cn: "1.1.1.1"}, {cn: "::1"}, {cn: ""}, {cn: "a*"},
		// DNS SANs
		{cn: "*", dns: []string{"a"}}, {cn: "a", dns: []string{"A.b"}}, {cn: "*", dns: []string{"*.b"}},
		{cn: "", dns: []string{"a.*"}}, {cn: "b", dns: []string{"a.b."}}, {cn: "*.*", dns: []string{"a", "*.b"}},
		{cn: "", dns: []string{"1.1.1.1"}}, {cn: "k", dns: []string{"\u212a"}}, {cn: "", dns: []string{"\u00e9"}},
		{cn: "", dns: []string{"*"}}, {cn: "", dns: []string{"a*"}}, {cn: "*.*.*", dns: []string{"a.*.b", "\xc3a"}},
		// IP SANs
		{cn: "a", ips: []net.IP{ip4}}, {cn: "*", ips: []net.IP{l6}}, {cn: "1.1.1.1", ips: []net.IP{ip16}},
		{cn: "*", dns: []string{"a.b"}, ips: []net.IP{ip4, l6, a6}}, {cn: "", ips: []net.IP{c6}}, {cn: "::1", ips: []net.IP{a6}},
		// SAN extension with neither DNS nor IP entries
		{cn: "a", emails: []string{"x@a"}}, {cn: "*.*", emails: []string{"x@a.b"}},
	}
}

func main() {
	if nohb.IsWorker() {
		nohb.WorkerMain(reentrantOps(), reentrantRepoDir())
		return
	}
	ev.Main("C09", "model_checking", func(c *ev.Ctx) {
		if c.Replay != nil {
			replay(c)
			return
		}
		thorough := !c.Quick()
		// VerifyHostname allocates on every call and the live heap is small:
		// collect less often (quick: small live heap; thorough keeps the default-ish setting).
		debug.SetGCPercent(ev.Pick(c, 800, 200))

		// ---- hosts
		hostStrs := allStrings(sigma, 4)
		nBase := len(hostStrs) // all strings of <= 4 symbols
		seen := map[string]bool{}
		for _, h := range hostStrs {
			seen[h] = true
		}
		for _, h := range structuredHosts {
			if !seen[h] {
				seen[h] = true
				hostStrs = append(hostStrs, h)
			}
		}
		nNarrow := len(hostStrs)
		if thorough {
			for _, h := range allStrings(sigma, 5)[nBase:] { // exactly the 5-symbol strings
				if !seen[h] {
					hostStrs = append(hostStrs, h)
				}
			}
		}
		hosts := make([]host, len(hostStrs))
		hflags := make([]uint32, len(hostStrs)) // coarse shape of the host, used only to bucket disagreements
		nIPHosts := 0
		for i, h := range hostStrs {
			hosts[i] = parseHost(h)
			hflags[i] = hostShape(h, &hosts[i])
			if hosts[i].ip {
				nIPHosts++
			}
		}

		// ---- patterns
		pats := allStrings(patSigma, 3)
		nPatEnum := len(pats)
		ps := map[string]bool{}
		for _, p := range pats {
			ps[p] = true
		}
		for _, p := range structuredPatterns {
			if !ps[p] {
				ps[p] = true
				pats = append(pats, p)
			}
		}
		var pats4 []string // thorough: the 4-symbol patterns
		if thorough {
			for _, p := range allStrings(patSigma, 4)[nPatEnum:] {
				if !ps[p] {
					pats4 = append(pats4, p)
				}
			}
		}

		// ---- certificates
		var certs []*certCase
		add := func(family string, s spec, wide bool) {
			certs = append(certs, &certCase{family: family, s: s, wide: wide}) // struct certificate and oracle view are built per work item
		}
		famCount := map[string]int{}
		cnDecoys := []string{"", "*", "*.*"}
		// A: SAN extension with one DNS name; CN is a decoy that must be ignored.
		for _, p := range pats {
			for _, cn := range cnDecoys {
				add("A:san-dns[p],cn-decoy", spec{SAN: true, DNS: []string{p}, CN: cn}, thorough)
			}
		}
		// B: no SAN extension, CN = p.
		for _, p := range pats {
			add("B:no-san,cn=p", spec{CN: p}, thorough)
		}
		// C: SAN extension without DNS names (IP subsets / email only / empty), CN from p10 ∪ {""}.
		cnSet := append([]string{""}, p10...)
		var masks []int
		for m := 0; m < 1<<len(ipUniverse); m++ {
			masks = append(masks, m)
		}
		for _, m := range masks {
			for _, cn := range cnSet {
				add("C:san-without-dns(ip-subset),cn", spec{SAN: true, IPs: ipSubset(m), CN: cn}, false)
			}
		}
		for _, cn := range cnSet {
			add("C:san-without-dns(email),cn", spec{SAN: true, Emails: []string{"x@a.b"}, CN: cn}, false)
		}
		// D: two DNS names (all ordered pairs over p10), decoy CN, every IP SAN.
		for _, p := range p10 {
			for _, q := range p10 {
				add("D:san-dns[p,q],cn=*,all-ips", spec{SAN: true, DNS: []string{p, q}, IPs: ipSubset(31), CN: "*"}, false)
			}
		}
		// E: one DNS name with IP subsets.
		for _, p := range p10 {
			for _, m := range masks {
				if m == 0 {
					continue
				}
				add("E:san-dns[p]+ip-subset,cn=*", spec{SAN: true, DNS: []string{p}, IPs: ipSubset(m), CN: "*"}, false)
			}
		}
		if thorough {
			// F: 4-symbol patterns, as SAN (with decoy CN) and as CN.
			for _, p := range pats4 {
				add("F:san-dns[p4],cn=*", spec{SAN: true, DNS: []string{p}, CN: "*"}, false)
				add("F:no-san,cn=p4", spec{CN: p}, false)
			}
			// G: full cross product DNS ∈ {[],[p],[p,q]} × CN × IP subsets of the first four addresses (DNS=[] with no IP = empty SAN extension).
			var lists [][]string
			lists = append(lists, nil)
			for _, p := range p10 {
				lists = append(lists, []string{p})
			}
			for _, p := range p10 {
				for _, q := range p10 {
					lists = append(lists, []string{p, q})
				}
			}
			for _, l := range lists {
				for _, cn := range cnSet {
					for m := 0; m < 16; m++ {
						add("G:cross dns-list×cn×ip-subset", spec{SAN: true, DNS: l, IPs: ipSubset(m), CN: cn}, false)
					}
				}
			}
		}
		// M: real DER certificates.
		minted, mintFail, stdFallback := 0, []string{}, 0
		for i, ms := range mintSpecs() {
			ms := ms
			fc, err := fx.Mint(fx.CertSpec{CN: ms.cn, Key: "c09-leaf", Serial: int64(100 + i), DNS: ms.dns,
				Tweak: func(t *x509.Certificate) { t.IPAddresses = ms.ips; t.EmailAddresses = ms.emails }}, nil)
			if err != nil {
				mintFail = append(mintFail, fmt.Sprintf("%q/%q: %v", ms.cn, ms.dns, err))
				continue
			}
			s, err := specFromDER(fc.DER)
			if err != nil {
				// The standard library refuses some SAN contents (non-ASCII dNSName):
				// fall back to what was asked for (no IP entries in those specs).
				stdFallback++
				s = spec{SAN: len(ms.dns)+len(ms.ips)+len(ms.emails) > 0, DNS: ms.dns, Emails: ms.emails, CN: ms.cn}
				if len(ms.ips) > 0 {
					c.Broken("minted certificate %d has IP SANs and is not parsed by crypto/x509: %v", i, err)
				}
			}
			certs = append(certs, &certCase{family: "M:minted-DER(parsed)", s: s, info: prepare(s), cert: fc.X, der: fc.DER, wide: thorough})
			minted++
		}
		if minted < 24 {
			c.Broken("only %d DER certificates could be minted: %v", minted, mintFail)
		}
		for _, cc := range certs {
			famCount[cc.family]++
		}

		c.Rule(fmt.Sprintf("every host × every certificate. Hosts: all strings of ≤4 symbols over Σ={a,A,b,.,*,1,[,],:,\\xc3,é,U+212A}%s "+
			"plus %d structured hosts not already among them (IP-literal forms, Unicode-folding probes, malformed names). "+
			"Certificates: families A (SAN ext, 1 DNS name p, decoy CN∈{\"\",*,*.*}), B (no SAN ext, CN=p), p ∈ all strings ≤3 over {a,A,b,.,*} ∪ %d further structured patterns; "+
			"C (SAN ext without DNS names: IP subsets/email/empty × CN), D (all ordered pairs of 10 patterns), E (1 DNS name × IP subsets)%s; "+
			"M (%d real DER certificates parsed by zcrypto). A case is non-trivial when the oracle demands a verdict and decided it by a real comparison "+
			"(accept, or reject with an IP SAN present / a candidate name with the same number of labels / a CN that would match but is suppressed by the SAN extension)",
			ev.Pick(c, "", " (≤5 symbols for families A, B, M)"), nNarrow-nBase, len(pats)-nPatEnum,
			ev.Pick(c, "", ", F (4-symbol patterns), G (full cross product dns-list × CN × IP subset)"), minted))
		c.Assume(
			"oracle = transcription of the property statement (oracle.go); IP literals are recognised with net/netip (zone literals are out of the compared domain)",
			"one trailing dot is ignored on the host AND on the pattern (DESIGN.md C09); IPv4 and the same address in 16-byte ::ffff: form are equal (net.IP semantics)",
			"silent points accept both results: empty host, names with an empty label (incl. ≥2 trailing dots) and pattern labels mixing '*' with other characters — a verdict is demanded there only when the literal, strict and liberal readings agree",
			"struct certificates model parsed ones: Extensions lists the SAN OID iff SAN entries exist or an empty SAN extension is modelled; DNSNames/IPAddresses are never set without it",
			"only nil / non-nil of the returned error is compared",
		)
		c.Set("hosts", map[string]any{"narrow(≤4 symbols + structured)": nNarrow, "wide": len(hosts), "ip_literals": nIPHosts})
		c.Set("patterns", map[string]any{"enumerated_len≤3": nPatEnum, "with_structured": len(pats), "extra_len4(thorough)": len(pats4)})
		c.Set("certificates", famCount)
		c.Set("minted", map[string]any{"ok": minted, "failed": mintFail, "reference_from_spec_because_crypto/x509_refused": stdFallback})

		// ---- run
		W := c.Workers()
		type local struct {
			hist     [nRules][2]int64
			otherErr int64
			sampled  [nRules]bool
			fails    []failCase
			nFail    int64
			nontriv  int64
			evals    int64
			parsedEv int64
			_pad     [8]int64
		}
		loc := make([]local, W+1)
		var sampledMask atomic.Uint32
		wantSample := [nRules]bool{rIPEqual: true, rIPNoEqual: true, rSANMatch: true, rCNMatch: true, rSANNoMatchCNIgnored: true, rSilentMalformed: true}
		// Work items: first every certificate against the narrow host set, then the
		// wide certificates against the 5-symbol hosts in chunks (so that a budget
		// stop only ever drops part of the wide extension).
		type item struct{ cert, lo, hi int }
		var items []item
		for i := range certs {
			items = append(items, item{i, 0, nNarrow})
		}
		const chunk = 1 << 15
		for i, cc := range certs {
			if !cc.wide {
				continue
			}
			for lo := nNarrow; lo < len(hosts); lo += chunk {
				items = append(items, item{i, lo, min(lo+chunk, len(hosts))})
			}
		}
		done := c.Parallel(len(items), func(w, i int) {
			cc := certs[items[i].cert]
			cert, info := cc.cert, cc.info
			if cert == nil {
				cert, info = structCert(cc.s), prepare(cc.s)
			}
			L := &loc[w]
			hs := hosts[items[i].lo:items[i].hi]
			var bucket map[uint32]int // disagreements of this item per (rule, result, host shape)
			cur := 0
			for cur < len(hs) {
				panicked, msg, site := ev.Try(func() {
					for ; cur < len(hs); cur++ {
						h := &hs[cur]
						err := cert.VerifyHostname(h.raw)
						got := err == nil
						want, rule, near := verdict(info, h)
						g := 0
						if got {
							g = 1
						} else if _, ok := err.(x509.HostnameError); !ok {
							L.otherErr++
						}
						L.hist[rule][g]++
						L.evals++
						if cc.der != nil {
							L.parsedEv++
						}
						if !L.sampled[rule] && wantSample[rule] && (near || want == Either) {
							L.sampled[rule] = true
							if bit := uint32(1) << rule; sampledMask.Or(bit)&bit == 0 {
								c.Sample(map[string]any{"family": cc.family, "cert": toJSpec(cc.s), "host": strconv.QuoteToASCII(h.raw),
									"oracle": want.String(), "rule": ruleNames[rule], "VerifyHostname_accepts": got})
							}
						}
						if want == Either {
							continue
						}
						if near {
							L.nontriv++
						}
						if got != (want == Accept) {
							// Keep the first two disagreements of every bucket of this item;
							// they are minimised and reported after the sweep, in a fixed order.
							L.nFail++
							key := uint32(rule)<<16 | hflags[items[i].lo+cur]<<1 | uint32(g)
							if bucket == nil {
								bucket = map[uint32]int{}
							}
							if bucket[key] < 2 {
								bucket[key]++
								L.fails = append(L.fails, failCase{items[i].cert, items[i].lo + cur, key, want, rule, got})
							}
						}
					}
				})
				if panicked {
					reportPanic(c, cc.s, cc.der, hs[cur].raw, msg, site)
					cur++
				}
			}
		})
		if !done {
			c.Incomplete("time budget hit before every (certificate, host range) item was run; items are ordered: all certificates × hosts of ≤4 symbols first, then the 5-symbol hosts")
		}
		// ---- disagreements: fixed order, bounded number per (family, bucket), minimised in parallel, reported in order.
		var fails []failCase
		var nFail int64
		for w := range loc {
			fails = append(fails, loc[w].fails...)
			nFail += loc[w].nFail
		}
		sort.Slice(fails, func(a, b int) bool {
			if fails[a].cert != fails[b].cert {
				return fails[a].cert < fails[b].cert
			}
			return fails[a].host < fails[b].host
		})
		{
			perBucket := map[string]int{}
			kept := fails[:0]
			for _, f := range fails {
				k := fmt.Sprintf("%s|%d", certs[f.cert].family, f.key)
				if perBucket[k] < 40 {
					perBucket[k]++
					kept = append(kept, f)
				}
			}
			fails = kept
		}
		if len(fails) > 0 {
			sigs := make([]string, len(fails))
			wits := make([]witness, len(fails))
			c.Parallel(len(fails), func(w, i int) {
				f := fails[i]
				cc := certs[f.cert]
				sigs[i], wits[i] = describe(cc.s, cc.der, hosts[f.host].raw, f.want, f.rule, f.got, true)
			})
			for i, f := range fails {
				if sigs[i] == "" { // budget exhausted during minimisation
					cc := certs[f.cert]
					sigs[i], wits[i] = describe(cc.s, cc.der, hosts[f.host].raw, f.want, f.rule, f.got, false)
				}
				c.Violation(sigs[i], wits[i])
			}
			c.Set("disagreements", map[string]any{"total": nFail, "minimised_and_reported": len(fails)})
		}

		var evals, nontriv, otherErr, parsedEv int64
		for w := range loc {
			evals += loc[w].evals
			nontriv += loc[w].nontriv
			otherErr += loc[w].otherErr
			parsedEv += loc[w].parsedEv
			for r := 0; r < nRules; r++ {
				if n := loc[w].hist[r][0]; n > 0 {
					c.Outcome(ruleNames[r]+" | VerifyHostname: error", n)
				}
				if n := loc[w].hist[r][1]; n > 0 {
					c.Outcome(ruleNames[r]+" | VerifyHostname: nil", n)
				}
			}
		}
		c.States.Add(evals)
		c.Transitions.Add(evals)
		c.Traces.Add(evals)
		c.Evaluations.Add(evals)
		c.Distinct.Add(nontriv)
		c.Set("evaluations_on_parsed_DER_certificates", parsedEv)
		c.Set("rejections_with_error_type_other_than_HostnameError", otherErr)
		reentrantPhase(c)
	})
}

type failCase struct {
	cert, host int
	key        uint32
	want       verdictT
	rule       int
	got        bool
}

// hostShape buckets hosts by coarse syntactic features (never used by the oracle).
func hostShape(raw string, h *host) uint32 {
	var f uint32
	set := func(bit uint, b bool) {
		if b {
			f |= 1 << bit
		}
	}
	set(0, h.ip)
	set(1, h.bracketed)
	set(2, strings.HasSuffix(raw, "."))
	set(3, asciiLower(raw) != raw)
	set(4, hasNonASCII(raw))
	set(5, strings.Contains(raw, "*"))
	set(6, h.ip && h.addr.Is4())
	set(7, strings.Count(raw, ".") > 1)
	return f
}

// replay re-executes one recorded witness.
func replay(c *ev.Ctx) {
	var w witness
	if err := json.Unmarshal(c.Replay, &w); err != nil {
		c.Broken("bad witness: %v", err)
	}
	s, err := w.Cert.spec()
	if err != nil {
		c.Broken("bad witness: %v", err)
	}
	hb, err := hex.DecodeString(w.HostHex)
	if err != nil {
		c.Broken("bad witness: %v", err)
	}
	cert := structCert(s)
	var der []byte
	if w.DERHex != "" {
		if der, err = hex.DecodeString(w.DERHex); err != nil {
			c.Broken("bad witness: %v", err)
		}
		if cert, err = x509.ParseCertificate(der); err != nil {
			c.Broken("witness DER does not parse: %v", err)
		}
	}
	h := parseHost(string(hb))
	want, rule, _ := verdict(prepare(s), &h)
	var got bool
	if p, msg, site := ev.Try(func() { got, _ = call(cert, h.raw) }); p {
		reportPanic(c, s, der, h.raw, msg, site)
	} else if want != Either && got != (want == Accept) {
		sig, wit := describe(s, der, h.raw, want, rule, got, true)
		c.Violation(sig, wit)
	}
	fmt.Printf("replay: host=%s oracle=%s (%s) VerifyHostname accepts=%v\n", strconv.QuoteToASCII(h.raw), want, ruleNames[rule], got)
	c.States.Add(1)
	c.Transitions.Add(1)
	c.Evaluations.Add(1)
}
