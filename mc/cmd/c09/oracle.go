package main

// The reference model of C09: a transcription of the property statement.
//
//   VerifyHostname accepts a host exactly when it is an IP literal (optionally
//   bracketed) equal to one of the certificate's IP SANs, or a DNS name that
//   case-insensitively matches a DNS SAN label by label (ignoring one trailing
//   dot, '*' matching any single label), falling back to the subject common
//   name only when the certificate has no SAN extension.
//
// Nothing in this file calls zcrypto. Where the statement is silent the verdict
// is Either (both behaviours are accepted):
//   - the empty host;
//   - an IP literal with a zone ("::1%a");
//   - malformed names: an empty name, a name with an empty label (this includes
//     more than one trailing dot) and pattern labels that contain '*' next to
//     other characters. For those, three readings of the statement are
//     evaluated (literal / liberal / strict, see matchName) and a verdict is
//     demanded only when all three agree.

import (
	"net/netip"
	"strings"
)

type verdictT uint8

const (
	Reject verdictT = iota
	Accept
	Either
)

func (v verdictT) String() string { return [...]string{"reject", "accept", "either"}[v] }

// asciiLower folds A-Z only, byte by byte (RFC 6125 6.4.1: DNS labels are
// compared ASCII-case-insensitively; no Unicode folding).
func asciiLower(s string) string {
	b := []byte(s)
	for i, ch := range b {
		if ch >= 'A' && ch <= 'Z' {
			b[i] = ch + ('a' - 'A')
		}
	}
	return string(b)
}

// name is a DNS host or pattern prepared for the three readings.
type name struct {
	raw         string
	lit         []string // ASCII-lowered, ONE trailing dot ignored, split at '.'
	lib         []string // ASCII-lowered, ALL trailing dots ignored; nil when empty or a label is empty
	malformed   bool     // empty, or an empty label, after ignoring one trailing dot
	partialWild bool     // a label contains '*' but is not exactly "*"
}

func parseName(s string) name {
	n := name{raw: s}
	l := asciiLower(s)
	n.lit = strings.Split(strings.TrimSuffix(l, "."), ".")
	for _, lab := range n.lit {
		if lab == "" {
			n.malformed = true
		}
		if lab != "*" && strings.Contains(lab, "*") {
			n.partialWild = true
		}
	}
	if all := strings.TrimRight(l, "."); all != "" {
		labs := strings.Split(all, ".")
		ok := true
		for _, lab := range labs {
			if lab == "" {
				ok = false
			}
		}
		if ok {
			n.lib = labs
		}
	}
	return n
}

// litMatch: label by label, a pattern label "*" matches any single label.
func litMatch(p, h []string) bool {
	if len(p) != len(h) {
		return false
	}
	for i := range p {
		if p[i] != "*" && p[i] != h[i] {
			return false
		}
	}
	return true
}

// glob: '*' inside a pattern label matches any run of bytes (liberal reading of
// partial wildcards only).
func glob(p, s string) bool {
	if p == "" {
		return s == ""
	}
	if p[0] == '*' {
		for i := 0; i <= len(s); i++ {
			if glob(p[1:], s[i:]) {
				return true
			}
		}
		return false
	}
	return s != "" && p[0] == s[0] && glob(p[1:], s[1:])
}

func libMatch(p, h []string) bool {
	if p == nil || h == nil || len(p) != len(h) {
		return false
	}
	for i := range p {
		if !glob(p[i], h[i]) {
			return false
		}
	}
	return true
}

// matchName evaluates "host matches pattern" under three readings:
//
//	literal: exactly the words of the statement; empty labels and labels such as
//	         "a*" are ordinary labels.
//	strict:  literal, but a malformed host or pattern never matches.
//	liberal: every trailing dot is ignored, a name that still has an empty label
//	         never matches, '*' inside a longer pattern label is a glob.
//
// For well-formed names the three coincide.
func matchName(p, h *name) verdictT {
	lit := litMatch(p.lit, h.lit)
	if !p.malformed && !p.partialWild && !h.malformed {
		if lit {
			return Accept
		}
		return Reject
	}
	lib := libMatch(p.lib, h.lib)
	// strict is false here.
	if !lit && !lib {
		return Reject
	}
	return Either
}

// host is a VerifyHostname argument prepared for the oracle.
type host struct {
	raw       string
	ip        bool // an IP literal, possibly in [ ]
	bracketed bool
	zone      bool
	addr      netip.Addr // 4-in-6 form unmapped
	n         name       // the DNS reading (used when !ip)
}

func parseHost(s string) host {
	h := host{raw: s}
	lit := s
	if len(s) >= 2 && s[0] == '[' && s[len(s)-1] == ']' {
		if _, err := netip.ParseAddr(s[1 : len(s)-1]); err == nil {
			lit = s[1 : len(s)-1]
			h.bracketed = true
		}
	}
	if a, err := netip.ParseAddr(lit); err == nil {
		h.ip = true
		h.zone = a.Zone() != ""
		h.addr = a.WithZone("").Unmap()
		return h
	}
	h.n = parseName(s)
	return h
}

// spec is the abstract certificate: exactly the fields the statement talks about.
type spec struct {
	SAN    bool     // the certificate has a subjectAltName extension
	DNS    []string // dNSName entries
	IPs    [][]byte // iPAddress entries (4 or 16 bytes)
	Emails []string // rfc822Name entries (irrelevant to the verdict, they only make the extension non-empty)
	CN     string   // subject common name ("" = none)
}

type specInfo struct {
	s     spec
	dns   []name
	cn    name
	addrs []netip.Addr
}

func prepare(s spec) *specInfo {
	si := &specInfo{s: s, cn: parseName(s.CN)}
	for _, d := range s.DNS {
		si.dns = append(si.dns, parseName(d))
	}
	for _, b := range s.IPs {
		if a, ok := netip.AddrFromSlice(b); ok {
			// An IPv4 address and the same address in 16-byte (::ffff:a.b.c.d)
			// form are the same net.IP value.
			si.addrs = append(si.addrs, a.Unmap())
		}
	}
	return si
}

// rules (outcome classes of the oracle)
const (
	rSilentEmptyHost = iota
	rSilentZone
	rSilentMalformed
	rIPEqual
	rIPNoEqual
	rSANMatch
	rSANNoMatch
	rSANNoMatchCNIgnored
	rCNMatch
	rCNNoMatch
	nRules
)

var ruleNames = [nRules]string{
	"silent:empty-host", "silent:ip-literal-with-zone", "silent:malformed-name",
	"accept:ip-literal-equals-ip-san", "reject:ip-literal-equals-no-ip-san",
	"accept:dns-san-matches", "reject:no-dns-san-matches", "reject:no-dns-san-matches,cn-would-but-san-extension-present",
	"accept:cn-matches,no-san-extension", "reject:cn-does-not-match,no-san-extension",
}

// verdict is the oracle. near reports that the case was decided by an actual
// comparison (an IP SAN to compare with, or a name with the same label count).
func verdict(si *specInfo, h *host) (v verdictT, rule int, near bool) {
	if h.raw == "" {
		return Either, rSilentEmptyHost, false
	}
	if h.ip {
		if h.zone {
			return Either, rSilentZone, false
		}
		for _, a := range si.addrs {
			if a == h.addr {
				return Accept, rIPEqual, true
			}
		}
		// DNS SANs and the common name are never consulted for an IP literal.
		return Reject, rIPNoEqual, len(si.addrs) > 0
	}
	if !si.s.SAN {
		switch matchName(&si.cn, &h.n) {
		case Accept:
			return Accept, rCNMatch, true
		case Either:
			return Either, rSilentMalformed, false
		}
		return Reject, rCNNoMatch, len(si.cn.lit) == len(h.n.lit)
	}
	silent := false
	for i := range si.dns {
		switch matchName(&si.dns[i], &h.n) {
		case Accept:
			return Accept, rSANMatch, true
		case Either:
			silent = true
		}
		if len(si.dns[i].lit) == len(h.n.lit) {
			near = true
		}
	}
	if silent {
		return Either, rSilentMalformed, false
	}
	if matchName(&si.cn, &h.n) == Accept {
		return Reject, rSANNoMatchCNIgnored, true
	}
	return Reject, rSANNoMatch, near
}
