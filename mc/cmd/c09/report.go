package main

// Building the real certificates, calling the real VerifyHostname, and turning
// a disagreement into a canonical signature (after delta-minimising it on the
// real implementation so that one defect yields few signatures).

import (
	stdx509 "crypto/x509"
	"encoding/hex"
	"fmt"
	"net"
	"sort"
	"strconv"
	"strings"

	"github.com/zmap/zcrypto/encoding/asn1"
	"github.com/zmap/zcrypto/x509"
	"github.com/zmap/zcrypto/x509/pkix"
	"verifmc/internal/ev"
)

var (
	oidKeyUsage         = asn1.ObjectIdentifier{2, 5, 29, 15}
	oidSubjectAltName   = asn1.ObjectIdentifier{2, 5, 29, 17}
	oidBasicConstraints = asn1.ObjectIdentifier{2, 5, 29, 19}
)

// structCert models a *parsed* certificate: ParseCertificate copies every
// extension into c.Extensions (that list is what hasSANExtension looks at) and
// fills DNSNames / IPAddresses / EmailAddresses from the SAN extension only.
func structCert(s spec) *x509.Certificate {
	if !s.SAN && (len(s.DNS) > 0 || len(s.IPs) > 0 || len(s.Emails) > 0) {
		panic("c09: unfaithful spec: SAN entries without a SAN extension")
	}
	c := &x509.Certificate{}
	c.Subject = pkix.Name{CommonName: s.CN}
	c.Extensions = append(c.Extensions, pkix.Extension{Id: oidKeyUsage, Critical: true, Value: []byte{3, 2, 5, 160}})
	if s.SAN {
		c.Extensions = append(c.Extensions, pkix.Extension{Id: oidSubjectAltName, Value: []byte{0x30, 0}})
	}
	c.Extensions = append(c.Extensions, pkix.Extension{Id: oidBasicConstraints, Critical: true, Value: []byte{0x30, 0}})
	c.DNSNames = append([]string(nil), s.DNS...)
	c.EmailAddresses = append([]string(nil), s.Emails...)
	for _, b := range s.IPs {
		c.IPAddresses = append(c.IPAddresses, net.IP(append([]byte(nil), b...)))
	}
	return c
}

// specFromDER reads the fields of a DER certificate with the Go standard
// library (independent of zcrypto's parser).
func specFromDER(der []byte) (spec, error) {
	sc, err := stdx509.ParseCertificate(der)
	if err != nil {
		return spec{}, err
	}
	s := spec{CN: sc.Subject.CommonName, DNS: sc.DNSNames, Emails: sc.EmailAddresses}
	for _, e := range sc.Extensions {
		if e.Id.String() == "2.5.29.17" {
			s.SAN = true
		}
	}
	for _, ip := range sc.IPAddresses {
		s.IPs = append(s.IPs, []byte(ip))
	}
	return s, nil
}

// call runs the real code once.
func call(c *x509.Certificate, h string) (accepted bool, err error) {
	err = c.VerifyHostname(h)
	return err == nil, err
}

// ---------------------------------------------------------------- witnesses

type jspec struct {
	SAN    bool     `json:"san_extension"`
	DNS    []string `json:"dns_san"`
	DNSHex []string `json:"dns_san_hex"`
	IPs    []string `json:"ip_san_hex"`
	Emails []string `json:"email_san"`
	CN     string   `json:"cn"`
	CNHex  string   `json:"cn_hex"`
}

func toJSpec(s spec) jspec {
	j := jspec{SAN: s.SAN, CN: strconv.QuoteToASCII(s.CN), CNHex: hex.EncodeToString([]byte(s.CN)), Emails: s.Emails}
	for _, d := range s.DNS {
		j.DNS = append(j.DNS, strconv.QuoteToASCII(d))
		j.DNSHex = append(j.DNSHex, hex.EncodeToString([]byte(d)))
	}
	for _, b := range s.IPs {
		j.IPs = append(j.IPs, hex.EncodeToString(b))
	}
	return j
}

func (j jspec) spec() (spec, error) {
	s := spec{SAN: j.SAN, Emails: j.Emails}
	b, err := hex.DecodeString(j.CNHex)
	if err != nil {
		return s, err
	}
	s.CN = string(b)
	for _, d := range j.DNSHex {
		b, err := hex.DecodeString(d)
		if err != nil {
			return s, err
		}
		s.DNS = append(s.DNS, string(b))
	}
	for _, d := range j.IPs {
		b, err := hex.DecodeString(d)
		if err != nil {
			return s, err
		}
		s.IPs = append(s.IPs, b)
	}
	return s, nil
}

type witness struct {
	Host     string `json:"host"`
	HostHex  string `json:"host_hex"`
	Cert     jspec  `json:"cert"`
	DERHex   string `json:"der_hex,omitempty"` // set when the certificate went through CreateCertificate/ParseCertificate
	Want     string `json:"oracle"`
	Rule     string `json:"oracle_rule"`
	Got      string `json:"implementation"`
	MinHost  string `json:"minimised_host,omitempty"`
	MinCert  *jspec `json:"minimised_cert,omitempty"`
	MinNotes string `json:"minimised_note,omitempty"`
}

// ---------------------------------------------------------------- minimiser

type mcase struct {
	s spec
	h string
}

func cloneSpec(s spec) spec {
	t := spec{SAN: s.SAN, CN: s.CN}
	t.DNS = append([]string(nil), s.DNS...)
	t.Emails = append([]string(nil), s.Emails...)
	for _, b := range s.IPs {
		t.IPs = append(t.IPs, append([]byte(nil), b...))
	}
	return t
}

func deNonASCII(s string) string {
	var b strings.Builder
	in := false
	for i := 0; i < len(s); i++ {
		if s[i] >= 0x80 {
			if !in {
				b.WriteByte('x')
			}
			in = true
			continue
		}
		in = false
		b.WriteByte(s[i])
	}
	return b.String()
}

// unwild replaces the k-th "*" label of pattern p by the host's label at that
// position (k < 0: all of them).
func unwild(p, h string, k int) string {
	pl := strings.Split(strings.TrimSuffix(p, "."), ".")
	hl := strings.Split(strings.TrimSuffix(h, "."), ".")
	if len(pl) != len(hl) {
		return p
	}
	n := 0
	for i := range pl {
		if pl[i] == "*" {
			if k < 0 || n == k {
				pl[i] = hl[i]
			}
			n++
		}
	}
	out := strings.Join(pl, ".")
	if strings.HasSuffix(p, ".") {
		out += "."
	}
	return out
}

func deDigit(s string) string {
	return strings.Map(func(r rune) rune {
		if r >= '0' && r <= '9' {
			return 'n'
		}
		return r
	}, s)
}

// candidates lists the one-step simplifications of a case.
func candidates(m mcase) []mcase {
	var out []mcase
	add := func(f func(t *mcase)) {
		t := mcase{cloneSpec(m.s), m.h}
		f(&t)
		out = append(out, t)
	}
	if len(m.s.Emails) > 0 {
		add(func(t *mcase) { t.s.Emails = nil })
	}
	for i := range m.s.IPs {
		i := i
		add(func(t *mcase) { t.s.IPs = append(t.s.IPs[:i], t.s.IPs[i+1:]...) })
	}
	for i := range m.s.DNS {
		i := i
		add(func(t *mcase) { t.s.DNS = append(t.s.DNS[:i], t.s.DNS[i+1:]...) })
	}
	if m.s.CN != "" {
		add(func(t *mcase) { t.s.CN = "" })
	}
	if m.s.SAN && len(m.s.DNS)+len(m.s.IPs)+len(m.s.Emails) == 0 {
		add(func(t *mcase) { t.s.SAN = false })
	}
	if len(m.h) >= 2 && m.h[0] == '[' && m.h[len(m.h)-1] == ']' {
		add(func(t *mcase) { t.h = t.h[1 : len(t.h)-1] })
	}
	if strings.HasSuffix(m.h, ".") {
		add(func(t *mcase) { t.h = strings.TrimSuffix(t.h, ".") })
	}
	if asciiLower(m.h) != m.h {
		add(func(t *mcase) { t.h = asciiLower(t.h) })
	}
	if strings.Contains(m.h, "*") {
		add(func(t *mcase) { t.h = strings.ReplaceAll(t.h, "*", "w") })
	}
	names := func(t *mcase, f func(string) string) {
		for i := range t.s.DNS {
			t.s.DNS[i] = f(t.s.DNS[i])
		}
		t.s.CN = f(t.s.CN)
	}
	add(func(t *mcase) { names(t, func(s string) string { return strings.TrimSuffix(s, ".") }) })
	add(func(t *mcase) { names(t, asciiLower) })
	for k := -1; k < 4; k++ {
		k := k
		add(func(t *mcase) { h := t.h; names(t, func(s string) string { return unwild(s, h, k) }) })
	}
	add(func(t *mcase) {
		if h := parseHost(t.h); !h.ip {
			t.h = deDigit(t.h)
			names(t, deDigit)
		}
	})
	add(func(t *mcase) { t.h = deNonASCII(t.h); names(t, deNonASCII) })
	return out
}

func sameCase(a, b mcase) bool {
	return fmt.Sprintf("%q", []any{a.s, a.h}) == fmt.Sprintf("%q", []any{b.s, b.h})
}

// minimise greedily simplifies a failing case while (a) the oracle still
// demands the same verdict and (b) the real code still gives the opposite one.
func minimise(m mcase, want verdictT) mcase {
	for round := 0; round < 40; round++ {
		progressed := false
		for _, t := range candidates(m) {
			if sameCase(t, m) {
				continue
			}
			h := parseHost(t.h)
			v, _, _ := verdict(prepare(t.s), &h)
			if v != want {
				continue
			}
			var acc bool
			if p, _, _ := ev.Try(func() { acc, _ = call(structCert(t.s), t.h) }); p {
				continue
			}
			if acc == (want == Accept) {
				continue // the simplified case passes: the removed feature was needed
			}
			m = t
			progressed = true
			break
		}
		if !progressed {
			break
		}
	}
	return m
}

// ---------------------------------------------------------------- signatures

func hasNonASCII(s string) bool {
	for i := 0; i < len(s); i++ {
		if s[i] >= 0x80 {
			return true
		}
	}
	return false
}

func ipForm(b []byte) string {
	switch len(b) {
	case 4:
		return "4-byte"
	case 16:
		if net.IP(b).To4() != nil {
			return "16-byte-v4-mapped"
		}
		return "16-byte"
	}
	return fmt.Sprintf("%d-byte", len(b))
}

func hostKind(h *host) string {
	if !h.ip {
		return "dns-name"
	}
	if h.addr.Is4() {
		return "ip-literal(v4)" // dotted, ::ffff:-mapped, bracketed or not: see the witness
	}
	return "ip-literal(v6)"
}

func certKind(s spec) string {
	if !s.SAN {
		return "no-san-extension"
	}
	var parts []string
	if len(s.DNS) > 0 {
		parts = append(parts, "dns")
	}
	if len(s.IPs) > 0 {
		parts = append(parts, "ip")
	}
	if len(s.Emails) > 0 {
		parts = append(parts, "email")
	}
	if len(parts) == 0 {
		return "san-extension(empty)"
	}
	return "san-extension(" + strings.Join(parts, "+") + ")"
}

// patternFeatures describes how pattern p relates to the (DNS) host h.
func patternFeatures(p string, h *host) []string {
	var f []string
	pn := parseName(p)
	if asciiLower(p) != p || asciiLower(h.raw) != h.raw {
		f = append(f, "ascii-case-differs")
	}
	if strings.HasSuffix(p, ".") {
		f = append(f, "pattern-trailing-dot")
	}
	for i, l := range pn.lit {
		if l == "*" {
			if i == 0 {
				f = append(f, "wildcard-leftmost-label")
			} else {
				f = append(f, "wildcard-non-leftmost-label")
			}
		}
	}
	if len(pn.lit) != len(h.n.lit) {
		f = append(f, "label-count-differs")
	} else if !litMatch(pn.lit, h.n.lit) {
		// equal under Unicode (non-ASCII) case folding?
		fold := true
		for i := range pn.lit {
			if pn.lit[i] != "*" && !strings.EqualFold(pn.lit[i], h.n.lit[i]) &&
				strings.ToLower(pn.lit[i]) != strings.ToLower(h.n.lit[i]) {
				fold = false
			}
		}
		if fold {
			f = append(f, "equal-only-under-unicode-case-folding")
		} else {
			f = append(f, "labels-differ")
		}
	}
	if hasNonASCII(p) || hasNonASCII(h.raw) {
		f = append(f, "non-ascii-bytes")
	}
	return f
}

func uniq(f []string) []string {
	sort.Strings(f)
	out := f[:0]
	for i, s := range f {
		if i == 0 || s != f[i-1] {
			out = append(out, s)
		}
	}
	return out
}

// signature names the defect class from the minimised case.
func signature(m mcase, want verdictT) string {
	h := parseHost(m.h)
	var f []string
	if h.ip {
		for _, b := range m.s.IPs {
			f = append(f, "ip-san-"+ipForm(b))
		}
		if len(m.s.DNS) > 0 {
			f = append(f, "dns-san-present")
		}
		if m.s.CN != "" {
			f = append(f, "cn-present")
		}
	} else {
		if strings.HasSuffix(m.h, ".") {
			f = append(f, "host-trailing-dot")
		}
		if len(m.h) >= 2 && m.h[0] == '[' && m.h[len(m.h)-1] == ']' {
			f = append(f, "host-in-brackets")
		}
		if m.s.SAN {
			for _, d := range m.s.DNS {
				f = append(f, patternFeatures(d, &h)...)
			}
			if len(m.s.DNS) > 1 {
				f = append(f, "several-dns-sans")
			}
			if m.s.CN != "" {
				f = append(f, "cn-needed-although-san-extension-present")
			}
		} else {
			f = append(f, patternFeatures(m.s.CN, &h)...)
		}
	}
	f = uniq(f)
	dir := "missed match (oracle accept, VerifyHostname rejects)"
	if want == Reject {
		dir = "spurious match (oracle reject, VerifyHostname accepts)"
		if !h.ip {
			// For a name that should not have matched, the class is HOW the accepted
			// name relates to the host; what else the names contain (wildcards, dots,
			// case) is incidental and stays in the witness only.
			primary := map[string]bool{"equal-only-under-unicode-case-folding": true, "label-count-differs": true,
				"labels-differ": true, "cn-needed-although-san-extension-present": true, "several-dns-sans": true, "host-in-brackets": true}
			k := f[:0]
			for _, x := range f {
				if primary[x] {
					k = append(k, x)
				}
			}
			f = k
		}
	}
	return fmt.Sprintf("%s: host=%s cert=%s features=[%s]", dir, hostKind(&h), certKind(m.s), strings.Join(f, ","))
}

// describe turns one disagreement into (signature, witness). der is non-nil for
// certificates that went through CreateCertificate/ParseCertificate.
func describe(s spec, der []byte, hraw string, want verdictT, rule int, got bool, doMinimise bool) (string, witness) {
	w := witness{Host: strconv.QuoteToASCII(hraw), HostHex: hex.EncodeToString([]byte(hraw)), Cert: toJSpec(s),
		Want: want.String(), Rule: ruleNames[rule], Got: map[bool]string{true: "accept (nil error)", false: "reject (error)"}[got]}
	m := mcase{cloneSpec(s), hraw}
	if der != nil {
		w.DERHex = hex.EncodeToString(der)
		// Same disagreement on the struct model of this certificate?
		var acc bool
		p, _, _ := ev.Try(func() { acc, _ = call(structCert(s), hraw) })
		if p || acc != got {
			w.MinNotes = "the struct model of this certificate does not show the disagreement; not minimised"
			return "parsed certificate only: " + signature(m, want), w
		}
	}
	if !doMinimise {
		w.MinNotes = "not minimised (time budget)"
		return "unminimised: " + signature(m, want), w
	}
	mm := minimise(m, want)
	js := toJSpec(mm.s)
	w.MinHost = strconv.QuoteToASCII(mm.h)
	w.MinCert = &js
	return signature(mm, want), w
}

func reportPanic(c *ev.Ctx, s spec, der []byte, hraw, msg, site string) {
	w := witness{Host: strconv.QuoteToASCII(hraw), HostHex: hex.EncodeToString([]byte(hraw)), Cert: toJSpec(s), Got: "panic: " + msg}
	if der != nil {
		w.DERHex = hex.EncodeToString(der)
	}
	c.Violation("panic@"+site+": "+ev.MsgClass(msg), w)
}
