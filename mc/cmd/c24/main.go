// C24 — TLS endpoints interoperate and negotiate correctly.
//
// Engine E4 (tlsx): a real zcrypto tls.Client against a real tls.Server over a
// deterministic in-memory duplex, for every point of an explicitly enumerated
// configuration lattice; the outcome is compared with an independent reference
// negotiation function (model.go) and the recorded wire transcript (wire.go).
package main

import (
	"encoding/json"
	"fmt"
	"os"
	"sort"
	"sync"
	"sync/atomic"
	"time"

	"github.com/zmap/zcrypto/tls"
	"verifmc/internal/ev"
)

type interval struct{ lo, hi uint16 }

func intervals() []interval {
	var out []interval
	for i, lo := range allVersions {
		for _, hi := range allVersions[i:] {
			out = append(out, interval{lo, hi})
		}
	}
	return out
}

var keys = []string{"p256", "rsa2048", "ed-c24"}

// representative suites, one per key-exchange x cipher class.
const (
	sRSACBC     uint16 = 0x002F // RSA, AES-CBC-SHA
	sRSAGCM     uint16 = 0x009C // RSA, AES-GCM (1.2 only)
	sERSAGCM    uint16 = 0xC02F // ECDHE-RSA, AES-GCM (1.2 only)
	sERSARC4    uint16 = 0xC011 // ECDHE-RSA, RC4
	sERSACBC    uint16 = 0xC013 // ECDHE-RSA, AES-CBC-SHA
	sDHECBC     uint16 = 0x0033 // DHE-RSA, AES-CBC-SHA (needs ForceSuites on the client)
	sEECChaCha  uint16 = 0xCCA9 // ECDHE-ECDSA, ChaCha20 (1.2 only)
	sEECCBC     uint16 = 0xC009 // ECDHE-ECDSA, AES-CBC-SHA
	sEECGCM     uint16 = 0xC02B // ECDHE-ECDSA, AES-GCM (1.2 only)
	s13AES128   uint16 = 0x1301
	s13AES256   uint16 = 0x1302
	s13ChaCha   uint16 = 0x1303
	curveP256   uint16 = 23
	curveP384   uint16 = 24
	curveP521   uint16 = 25
	curveX25519 uint16 = 29
)

var repSet = []uint16{sRSACBC, sRSAGCM, sERSAGCM, sEECChaCha, sDHECBC, sERSARC4, sEECCBC}

type gen struct {
	m    *model
	seen map[string]bool
	out  []Cfg
	part map[string]int
}

func (g *gen) add(part string, c Cfg) {
	// the generator, not the model, decides ForceSuites: needed iff the client
	// list holds an id outside the exported lists.
	c.Force = false
	for _, s := range c.CS {
		if !g.m.exported[s] {
			c.Force = true
		}
	}
	k := c.key()
	if g.seen[k] {
		return
	}
	g.seen[k] = true
	c.Note = part
	g.out = append(g.out, c)
	g.part[part]++
}

func base() Cfg {
	return Cfg{CMin: V10, CMax: V13, SMin: V10, SMax: V13, Key: "p256"}
}

// axes of the "remaining axes" lattice: every axis is a list of mutations of a
// Cfg; index 0 is the identity (baseline value).
type axis struct {
	name string
	vals []func(*Cfg)
}

func axes() []axis {
	ivs := intervals()
	var ax []axis
	cv := axis{name: "client-versions", vals: []func(*Cfg){func(*Cfg) {}}}
	sv := axis{name: "server-versions", vals: []func(*Cfg){func(*Cfg) {}}}
	for _, iv := range ivs {
		iv := iv
		cv.vals = append(cv.vals, func(c *Cfg) { c.CMin, c.CMax = iv.lo, iv.hi })
		sv.vals = append(sv.vals, func(c *Cfg) { c.SMin, c.SMax = iv.lo, iv.hi })
	}
	ax = append(ax, cv, sv)
	ka := axis{name: "server-key", vals: []func(*Cfg){func(*Cfg) {}}}
	for _, k := range keys {
		k := k
		ka.vals = append(ka.vals, func(c *Cfg) { c.Key = k })
	}
	ax = append(ax, ka)
	lists := [][]uint16{
		{sRSACBC},
		{sERSAGCM, sRSACBC},
		{sRSACBC, sERSAGCM},
		{sEECGCM, sEECChaCha, sEECCBC},
		{sEECCBC, sEECChaCha, sEECGCM, sERSACBC},
		{s13AES128},
		{s13AES256, sEECGCM, sERSAGCM},
		{sERSARC4, sDHECBC},
	}
	ca := axis{name: "client-suites", vals: []func(*Cfg){func(*Cfg) {}}}
	sa := axis{name: "server-suites", vals: []func(*Cfg){func(*Cfg) {}}}
	for _, l := range lists {
		l := l
		ca.vals = append(ca.vals, func(c *Cfg) { c.CS = l })
		sa.vals = append(sa.vals, func(c *Cfg) { c.SS = l })
	}
	ax = append(ax, ca, sa)
	ax = append(ax, axis{name: "prefer-server", vals: []func(*Cfg){func(*Cfg) {}, func(c *Cfg) { c.Prefer = !c.Prefer }}})
	curves := [][]uint16{{curveP256}, {curveX25519}, {curveP384, curveP256}, {curveP521}}
	cc := axis{name: "client-curves", vals: []func(*Cfg){func(*Cfg) {}}}
	sc := axis{name: "server-curves", vals: []func(*Cfg){func(*Cfg) {}}}
	for _, l := range curves {
		l := l
		cc.vals = append(cc.vals, func(c *Cfg) { c.CCurves = l })
		sc.vals = append(sc.vals, func(c *Cfg) { c.SCurves = l })
	}
	ax = append(ax, cc, sc)
	protos := [][]string{{"h2"}, {"h2", "http/1.1"}, {"http/1.1", "h2"}, {"x"}}
	cp := axis{name: "client-alpn", vals: []func(*Cfg){func(*Cfg) {}}}
	sp := axis{name: "server-alpn", vals: []func(*Cfg){func(*Cfg) {}}}
	for _, l := range protos {
		l := l
		cp.vals = append(cp.vals, func(c *Cfg) { c.CProtos = l })
		sp.vals = append(sp.vals, func(c *Cfg) { c.SProtos = l })
	}
	ax = append(ax, cp, sp)
	ax = append(ax, axis{name: "tickets", vals: []func(*Cfg){func(*Cfg) {}, func(c *Cfg) { c.Tickets = 1 }, func(c *Cfg) { c.Tickets = 2 }}})
	ax = append(ax, axis{name: "extended-master-secret", vals: []func(*Cfg){func(*Cfg) {}, func(c *Cfg) { c.EMS = true }}})
	return ax
}

// deviations enumerates every configuration that differs from b in at most d axes.
func (g *gen) deviations(part string, b Cfg, ax []axis, d int) {
	var rec func(start, left int, c Cfg)
	rec = func(start, left int, c Cfg) {
		g.add(part, c)
		if left == 0 {
			return
		}
		for a := start; a < len(ax); a++ {
			for vi := 1; vi < len(ax[a].vals); vi++ {
				n := c
				ax[a].vals[vi](&n)
				rec(a+1, left-1, n)
			}
		}
	}
	rec(0, d, b)
}

func enumerate(c *ev.Ctx, m *model, implemented []uint16) (*gen, []string) {
	g := &gen{m: m, seen: map[string]bool{}, part: map[string]int{}}
	ivs := intervals()
	var notes []string

	// Part 1: full product version intervals x version intervals x key x single suite on both sides.
	for _, s := range implemented {
		if _, ok := suiteOf(s); !ok {
			notes = append(notes, fmt.Sprintf("implemented suite %#04x is unknown to the reference model: not enumerated", s))
			continue
		}
		for _, ci := range ivs {
			for _, si := range ivs {
				for _, k := range keys {
					g.add("1:versions x versions x key x single-suite", Cfg{CMin: ci.lo, CMax: ci.hi, SMin: si.lo, SMax: si.hi, Key: k, CS: []uint16{s}, SS: []uint16{s}})
				}
			}
		}
	}
	// Part 1b: the same product with default suite lists on both sides.
	for _, ci := range ivs {
		for _, si := range ivs {
			for _, k := range keys {
				g.add("1b:versions x versions x key, default suites", Cfg{CMin: ci.lo, CMax: ci.hi, SMin: si.lo, SMax: si.hi, Key: k})
			}
		}
	}
	// Part 2: ordered pairs of the representative set on both sides x preference flag x key,
	// at TLS 1.2 and at TLS 1.1 (where the 1.2-only suites must be skipped).
	var pairs [][]uint16
	for _, a := range repSet {
		for _, b := range repSet {
			if a != b {
				pairs = append(pairs, []uint16{a, b})
			}
		}
	}
	type vs struct{ cmax, smax uint16 }
	vsets := []vs{{V12, V12}, {V11, V13}}
	if !c.Quick() {
		vsets = append(vsets, vs{V13, V12}, vs{V12, V10})
	}
	for _, v := range vsets {
		for _, cl := range pairs {
			for _, sl := range pairs {
				for _, pf := range []bool{false, true} {
					for _, k := range keys {
						g.add("2:ordered suite pairs x pairs x prefer x key", Cfg{CMin: V10, CMax: v.cmax, SMin: V10, SMax: v.smax, Key: k, CS: cl, SS: sl, Prefer: pf})
					}
				}
			}
		}
	}
	// Part 3: TLS 1.3 suite lists on both sides x preference flag x key.
	l13 := [][]uint16{nil, {s13AES128}, {s13AES256}, {s13ChaCha},
		{s13AES128, s13AES256}, {s13AES256, s13AES128}, {s13ChaCha, s13AES128}, {s13AES128, s13ChaCha}, {s13AES256, s13ChaCha}, {s13ChaCha, s13AES256},
		{s13AES128, s13AES256, s13ChaCha}, {s13ChaCha, s13AES256, s13AES128}}
	for _, cl := range l13 {
		for _, sl := range l13 {
			for _, pf := range []bool{false, true} {
				for _, k := range keys {
					b := base()
					b.Key, b.CS, b.SS, b.Prefer = k, cl, sl, pf
					g.add("3:TLS1.3 suite lists x lists x prefer x key", b)
				}
			}
		}
	}
	// Part 4: all combinations of <= d deviations over the 12 axes from two baselines.
	d := ev.Pick(c, 2, 3)
	ax := axes()
	g.deviations(fmt.Sprintf("4:<=%d deviations from the default baseline", d), base(), ax, d)
	legacy := Cfg{CMin: V10, CMax: V12, SMin: V10, SMax: V12, Key: "rsa2048"}
	g.deviations(fmt.Sprintf("4:<=%d deviations from the TLS<=1.2/RSA baseline", d), legacy, ax, d)
	// Part 5: downgrade by a man in the middle: every version interval pair x key x every
	// common version below the highest common one.
	for _, ci := range ivs {
		for _, si := range ivs {
			var common []uint16
			for _, v := range allVersions {
				if v >= ci.lo && v <= ci.hi && v >= si.lo && v <= si.hi {
					common = append(common, v)
				}
			}
			for _, k := range keys {
				for j := 0; j+1 < len(common); j++ {
					g.add("5:MITM version downgrade", Cfg{CMin: ci.lo, CMax: ci.hi, SMin: si.lo, SMax: si.hi, Key: k, Down: common[j]})
				}
			}
		}
	}
	// Part 6: servers holding several chains (Config.Certificates order matters) and the
	// same chains behind a GetCertificate callback: key sets x versions x suite lists x
	// preference flag x client curves.
	keySets := []string{"rsa2048+p256", "p256+rsa2048", "rsa2048+ed-c24", "ed-c24+rsa2048", "p256+ed-c24", "ed-c24+p256",
		"rsa2048+p256+ed-c24", "ed-c24+p256+rsa2048"}
	mlists := [][]uint16{nil, {sRSACBC}, {sERSAGCM, sRSACBC}, {sEECGCM, sEECChaCha, sEECCBC}, {sEECCBC, sERSACBC}, {sERSACBC, sEECCBC},
		{sEECGCM, sERSAGCM, sRSACBC}, {sERSARC4, sDHECBC}}
	type variant struct {
		prefer bool
		curves []uint16
	}
	variants := []variant{{false, nil}, {true, nil}, {false, []uint16{curveX25519}}}
	if !c.Quick() {
		variants = append(variants, variant{true, []uint16{curveX25519}}, variant{false, []uint16{curveP384, curveP256}}, variant{true, []uint16{curveP384, curveP256}})
	}
	for _, ks := range keySets {
		for _, gc := range []bool{false, true} {
			for _, v := range allVersions {
				for ci, cl := range mlists {
					for si, sl := range mlists {
						if c.Quick() && ci != si && ci != 0 && si != 0 {
							continue // quick: equal lists and every list against the default list
						}
						for _, va := range variants {
							g.add("6:several chains x GetCertificate x version x suite lists x prefer x client curves",
								Cfg{CMin: V10, CMax: v, SMin: V10, SMax: v, Key: ks, GetCert: gc, CS: cl, SS: sl, Prefer: va.prefer, CCurves: va.curves})
						}
						if ci == 0 && si == 0 {
							g.add("6:several chains x GetCertificate x version x suite lists x prefer x client curves",
								Cfg{CMin: V10, CMax: v, SMin: V10, SMax: v, Key: ks, GetCert: gc, Tickets: 1})
						}
					}
				}
			}
		}
	}
	// Part 7: CurvePreferences lists x lists (including every HelloRetryRequest constellation:
	// the client's first group is not one of the server's) x version x key.
	clists := [][]uint16{nil, {curveP256}, {curveX25519}, {curveP384}, {curveP521}, {curveP256, curveX25519}, {curveX25519, curveP256},
		{curveP384, curveP256}, {curveP521, curveP384, curveP256, curveX25519}}
	ckeys := []string{"p256", "rsa2048"}
	if !c.Quick() {
		ckeys = keys
	}
	for _, cl := range clists {
		for _, sl := range clists {
			for _, v := range []uint16{V10, V12, V13} {
				for _, k := range ckeys {
					g.add("7:curve lists x curve lists x version x key", Cfg{CMin: V10, CMax: v, SMin: V10, SMax: v, Key: k, CCurves: cl, SCurves: sl})
				}
			}
		}
	}
	// Part 7b: post-quantum hybrid groups (TLS 1.3 only; a client whose first group is a hybrid sends TWO key shares,
	// the hybrid one and its classical component) as members of either list, in every order relative to the classical groups.
	hybrid := [][]uint16{{4588}, {4588, curveX25519}, {curveX25519, 4588}, {4588, curveP256}, {4587, curveP256}, {curveP256, 4587}, {4589, curveP384}, {4588, 4587, 4589}}
	classic := [][]uint16{nil, {curveX25519}, {curveP256}, {curveP384}, {curveP256, curveX25519}}
	both := append(append([][]uint16{}, hybrid...), classic...)
	for ci, cl := range both {
		for si, sl := range both {
			if ci >= len(hybrid) && si >= len(hybrid) {
				continue // classical x classical: part 7
			}
			g.add("7b:hybrid-group lists x lists at TLS 1.3", Cfg{CMin: V10, CMax: V13, SMin: V10, SMax: V13, Key: "p256", CCurves: cl, SCurves: sl})
		}
	}
	// Part 8: ALPN lists x ALPN lists x tickets/resumption x version (two connections each).
	plists := [][]string{nil, {"h2"}, {"h2", "http/1.1"}, {"http/1.1", "h2"}, {"x"}}
	for _, cp := range plists {
		for _, sp := range plists {
			for _, t := range []int{1, 2} {
				for _, v := range []uint16{V10, V12, V13} {
					g.add("8:ALPN lists x ALPN lists x tickets x version", Cfg{CMin: V10, CMax: v, SMin: V10, SMax: v, Key: "p256", CProtos: cp, SProtos: sp, Tickets: t})
				}
			}
		}
	}
	// Part 9: the default lists as a configuration value (defaults.go): client lists {nil, all rotations of the 16 default
	// suites and of their reversal, the 22 table suites both ways, three short lists} x server lists {nil, 3 explicit
	// 16-suite lists} x preference flag x key x {TLS 1.2, 1.1, 1.3}.
	g.part9()
	return g, notes
}

func learnSuites() (m *model, implemented []uint16, info map[string]any) {
	m = &model{exported: map[uint16]bool{}}
	var secureAll, insecure []uint16
	for _, s := range tls.CipherSuites() {
		m.exported[s.ID] = true
		secureAll = append(secureAll, s.ID)
		onlyTLS13 := len(s.SupportedVersions) == 1 && s.SupportedVersions[0] == tls.VersionTLS13
		if onlyTLS13 {
			m.all13 = append(m.all13, s.ID)
		} else {
			m.secure12 = append(m.secure12, s.ID)
		}
	}
	for _, s := range tls.InsecureCipherSuites() {
		m.exported[s.ID] = true
		insecure = append(insecure, s.ID)
	}
	std, impl, t13 := tls.VerifC24SuiteIDs()
	seen := map[uint16]bool{}
	for _, l := range [][]uint16{secureAll, insecure, std, impl, t13} {
		for _, s := range l {
			if !seen[s] {
				seen[s] = true
				implemented = append(implemented, s)
			}
		}
	}
	sort.Slice(implemented, func(i, j int) bool { return implemented[i] < implemented[j] })
	info = map[string]any{
		"exported_secure": len(secureAll), "exported_insecure": len(insecure),
		"table_cipherSuites": len(std), "table_implementedCipherSuites": len(impl), "table_cipherSuitesTLS13": len(t13),
		"distinct_implemented_ids": len(implemented),
		"aesgcm_hardware":          tls.VerifC24HasAESGCMHardwareSupport(),
	}
	return
}

func main() {
	ev.Main("C24", "model_checking", func(c *ev.Ctx) {
		m, implemented, info := learnSuites()
		c.Set("suites", info)
		c.Rule("a configuration = (client [min,max], server [min,max], server key type(s): one chain or several chains in Config.Certificates order, served directly or by a GetCertificate callback, client/server CipherSuites, ForceSuites, PreferServerCipherSuites, client/server CurvePreferences, client/server NextProtos, tickets mode, ExtendedMasterSecret, MITM downgrade target); distinct = distinct canonical configuration; non-trivial = the server produced a ServerHello")
		c.Assume(
			"post-quantum hybrid groups (part 7b, TLS 1.3): a zcrypto client whose top CurvePreferences entry is a hybrid also offers the classical component as a key share (documented in handshake_client.go) even when that group is not in its list; the statement does not speak about groups, so the client's usable groups are its list plus that fallback, and a handshake completing on it is an outcome (it deviates from RFC 8446 4.2.8, recorded in DESIGN.md); transcripts with a hybrid key share are not reproducible under a fixed Config.Rand (ML-KEM draws from the system source) and are exempt from the determinism rule",
			"reference negotiation written from RFC 8446 §4.1.3/§4.2.1, RFC 5246, RFC 7301 §3.2, RFC 5077, the IANA suite names and the tls.Config doc comments",
			"default curve set is {X25519,P-256,P-384,P-521}; default pre-1.3 suite set is tls.CipherSuites() minus the TLS 1.3 suites; the default lists are a configuration value like any other: their order is the one documented next to the suite table (AES-GCM hardware: the four ECDHE AES-GCM suites, the two ECDHE ChaCha20 suites, then the table: ECDHE CBC, RSA AES-GCM, RSA CBC, 3DES; without the hardware ChaCha20 first; TLS 1.3: AES-128-GCM, ChaCha20, AES-256-GCM resp. ChaCha20 first), transcribed in defaults.go and never read from zcrypto; a client with CipherSuites=nil must offer exactly that list in that order (TLS 1.2-only suites left out below TLS 1.2)",
			"exact suite prediction TLS<=1.2: explicit list of the preferring side; server default list under PreferServerCipherSuites=true: the documented order with the AES-GCM suites moved behind the neighbouring ChaCha20 suites iff the ClientHello's first suite is not an AES-GCM suite, the relative order of everything else preserved (both orders accepted when that first suite is an AES-GCM suite without ECDHE or is outside the exported lists); client default list under client preference: the order of the ClientHello on the wire; no verdict on an AES-GCM-vs-ChaCha20 choice under client preference on a machine without (or with unknown) AES-GCM hardware; with several chains the rule is judged among the suites usable with the chain presented",
			"second opinion on the server default order: the ClientHello recorded on the wire is replayed to a GOROOT crypto/tls server with the same leaf key, version range, curves and the same 16 suites enabled (crypto/tls always selects by its own documented table, which orders the suites usable with one key type like zcrypto's default list); where it negotiates the same version and knows the first suite of the ClientHello the selected suite must be equal; single-chain servers, first connection, no MITM; non-comparable cases are counted",
			"TLS 1.3 suite: first suite of the preferring side's list the other side supports - the client's order as read from the ClientHello on the wire, or the server's explicit CipherSuites order - after the documented AES-GCM reordering (server preference: the ClientHello does not start with an AES-GCM suite; client preference: this machine lacks AES+CLMUL instructions, read from golang.org/x/sys/cpu); a server without a TLS 1.3 suite in its list uses the documented default TLS 1.3 order",
			"several chains: completion is demanded when some chain fits a common suite (below TLS 1.3 an ECDSA chain counts strictly only if its curve is in both CurvePreferences, RFC 8422 §5.3); the chain presented must be a configured one, fit the suite and the client's signature_algorithms, and be the first compatible chain (Config.Certificates doc) unless an earlier chain fits loosely only",
			"the (EC)DHE group is read from the ServerKeyExchange named_curve / the ServerHello and HelloRetryRequest key_share and must lie in both CurvePreferences lists (default list {X25519,P-256,P-384,P-521}); which common group is not demanded",
			"Ed25519 server keys below TLS 1.2 and disjoint non-empty ALPN lists: both completion and failure accepted",
			"a client 'supporting the higher version' = client max 1.3, or client max 1.2 against a server max 1.2; other downgrade combinations accepted either way",
			"each configuration is executed twice from scratch; transcripts (every write of both directions of every connection) must be byte-identical")

		if c.Replay != nil {
			var w witness
			if err := json.Unmarshal(c.Replay, &w); err != nil {
				c.Broken("bad witness: %v", err)
			}
			r := &reporter{c: c, hist: ev.Hist{}, agg: &interopAgg{}}
			obs := runCfg(w.Cfg)
			r.check(m, w.Cfg, obs)
			r.agg.emit(c)
			for i, o := range obs {
				fmt.Printf("connection %d: %s\n", i, o.summary())
			}
			c.Merge(r.hist)
			c.States.Add(1)
			return
		}

		g, notes := enumerate(c, m, implemented)
		cfgs := g.out
		c.Set("configurations_by_part", g.part)
		for _, n := range notes {
			c.Incomplete(n)
		}

		// watchdog: a worker stuck in one configuration is a harness defect (never a verdict).
		W := c.Workers()
		started := make([]atomic.Int64, W)
		current := make([]atomic.Int64, W)
		done := make(chan struct{})
		go func() {
			t := time.NewTicker(5 * time.Second)
			defer t.Stop()
			for {
				select {
				case <-done:
					return
				case <-t.C:
					now := time.Now().UnixNano()
					for w := 0; w < W; w++ {
						if s := started[w].Load(); s != 0 && now-s > int64(120*time.Second) {
							blob, _ := json.Marshal(cfgs[current[w].Load()])
							fmt.Fprintf(os.Stderr, "CHECK-BROKEN C24: configuration did not terminate within 120 s: %s\n", blob)
							os.Exit(2)
						}
					}
				}
			}
		}()

		var mu sync.Mutex
		hists := make([]ev.Hist, W)
		for i := range hists {
			hists[i] = ev.Hist{}
		}
		var ran atomic.Int64
		agg := &interopAgg{}
		complete := c.Parallel(len(cfgs), func(w, i int) {
			current[w].Store(int64(i))
			started[w].Store(time.Now().UnixNano())
			cfg := cfgs[i]
			r := &reporter{c: c, hist: hists[w], agg: agg}
			a := runCfg(cfg)
			b := runCfg(cfg)
			same := len(a) == len(b)
			recs := 0
			for j := range a {
				recs += a[j].Records
				if same && a[j].digest != b[j].digest {
					same = false
				}
			}
			c.Transitions.Add(int64(2 * recs))
			if same {
				c.Traces.Add(2)
			} else if anyHybrid(cfg.CCurves, cfg.SCurves) {
				// ML-KEM key generation and encapsulation draw from the system's random source, not from Config.Rand:
				// transcripts with a hybrid key share are not reproducible, and the statement does not promise it
				hists[w]["hybrid group in a list: transcripts not reproducible under a fixed Config.Rand (not judged)"]++
			} else {
				c.Violation("determinism: two executions of the same configuration produced different wire transcripts",
					witness{cfg, 0, "transcript digests differ", a[0].summary() + " || " + b[0].summary()})
			}
			r.check(m, cfg, a)
			c.Evaluations.Add(1)
			if a[0].hello() != nil || len(a[0].Hellos) > 0 {
				c.Distinct.Add(1)
			}
			ran.Add(1)
			if c.WantSample() && (i%997 == 0) {
				mu.Lock()
				c.Sample(map[string]any{"cfg": cfg, "observed": a[0].summary()})
				mu.Unlock()
			}
			started[w].Store(0)
		})
		close(done)
		agg.emit(c)
		for _, h := range hists {
			c.Merge(h)
		}
		c.States.Add(ran.Load())
		c.Set("configurations_total", len(cfgs))
		if !complete {
			c.Incomplete(fmt.Sprintf("time budget hit after %d of %d configurations (parts are enumerated in order 1,1b,2,3,4,5,6,7,8,9)", ran.Load(), len(cfgs)))
		}
	})
}
