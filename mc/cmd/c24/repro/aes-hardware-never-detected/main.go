// Reproducer (outside the C24 harness): on a machine with AES-NI + PCLMULQDQ a
// zcrypto TLS 1.3 server without PreferServerCipherSuites must select the
// client's most preferred suite. The client offers [TLS_AES_128_GCM_SHA256,
// TLS_CHACHA20_POLY1305_SHA256]; before the fix the server selected ChaCha20
// because tls.hasAESGCMHardwareSupport was computed from
// zcrypto/internal/cpu, whose feature flags nobody ever initialised.
//
//	cd /verif/mc && GOFLAGS=-mod=mod GOPROXY=off go run ./cmd/c24/repro/aes-hardware-never-detected
package main

import (
	"fmt"
	"os"
	"runtime"

	"github.com/zmap/zcrypto/tls"
	"golang.org/x/sys/cpu"
	"verifmc/internal/tlsx"
)

func main() {
	hw := runtime.GOARCH == "amd64" && cpu.X86.HasAES && cpu.X86.HasPCLMULQDQ
	fmt.Printf("GOARCH=%s AES=%v PCLMULQDQ=%v -> AES-GCM hardware: %v\n", runtime.GOARCH, cpu.X86.HasAES, cpu.X86.HasPCLMULQDQ, hw)
	id := tlsx.ServerIdentity("p256")
	cc, sc := tlsx.BaseConfigs(id, "repro")
	cc.CipherSuites = []uint16{tls.TLS_AES_128_GCM_SHA256, tls.TLS_CHACHA20_POLY1305_SHA256}
	s := tlsx.Handshake(cc, sc, nil)
	defer s.Close()
	if !s.Client.OKDone || !s.Server.OKDone {
		fmt.Println("handshake failed:", s.Client.Err, s.Server.Err)
		os.Exit(2)
	}
	got := s.Server.State.CipherSuite
	fmt.Printf("client offers [TLS_AES_128_GCM_SHA256 TLS_CHACHA20_POLY1305_SHA256], PreferServerCipherSuites=false, server selected %#04x\n", got)
	if hw && got != tls.TLS_AES_128_GCM_SHA256 {
		fmt.Println("DEFECT: the client's AES-GCM preference was overridden although this machine has AES-GCM hardware")
		os.Exit(1)
	}
	fmt.Println("ok")
}
