// Reproducer (C24 finding): a TLS 1.3 zcrypto server ignores Config.CipherSuites.
//
// tls.Config.CipherSuites is documented as: "For TLS 1.3, any TLS 1.3 suite IDs
// present in the list are used; if none are present (or the list is nil), a
// default list of secure suites is used." The client honours this
// (Config.cipherSuitesTLS13), the server does not: handshake_server_tls13.go
// processClientHello uses defaultCipherSuitesTLS13() for both the preference
// and the supported list. A server that enabled only TLS_AES_256_GCM_SHA384
// therefore negotiates a suite it did not enable.
//
//	cd /verif/mc && GOFLAGS=-mod=mod GOPROXY=off go run ./cmd/c24/repro/tls13-server-ignores-ciphersuites
package main

import (
	"fmt"
	"os"

	"github.com/zmap/zcrypto/tls"
	"verifmc/internal/tlsx"
)

func main() {
	id := tlsx.ServerIdentity("p256")
	cc, sc := tlsx.BaseConfigs(id, "repro")
	sc.CipherSuites = []uint16{tls.TLS_AES_256_GCM_SHA384} // the only TLS 1.3 suite the server enables
	cc.CipherSuites = []uint16{tls.TLS_AES_128_GCM_SHA256} // the only TLS 1.3 suite the client enables
	s := tlsx.Handshake(cc, sc, nil)
	defer s.Close()
	if !s.Client.OKDone || !s.Server.OKDone {
		fmt.Println("handshake failed (expected by the documentation: no common enabled suite):", s.Client.Err, "/", s.Server.Err)
		return
	}
	fmt.Printf("handshake completed: version %#04x, suite %s; server Config.CipherSuites = [TLS_AES_256_GCM_SHA384]\n",
		s.Server.State.Version, tls.CipherSuiteName(s.Server.State.CipherSuite))
	if s.Server.State.CipherSuite != tls.TLS_AES_256_GCM_SHA384 {
		fmt.Println("BUG: the server negotiated a TLS 1.3 suite that its Config.CipherSuites does not contain")
		os.Exit(1)
	}
}
