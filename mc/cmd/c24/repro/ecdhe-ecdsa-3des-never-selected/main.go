// Reproducer (C24 finding): TLS_ECDHE_ECDSA_WITH_3DES_EDE_CBC_SHA (0xC008) is in
// implementedCipherSuites but a zcrypto server can never negotiate it.
//
// Its table row (tls/cipher_suites.go) carries the flag suiteECDSA where the
// server's cipherSuiteOk (tls/handshake_server.go) tests suiteECSign. Every
// other ECDSA row with suiteECDSA is shadowed by an earlier duplicate row with
// suiteECSign; 0xC008 has no such duplicate. With an ECDSA key the server
// therefore treats the suite as RSA-signed and skips it ("no cipher suite
// supported by both client and server"); with an RSA key it selects it and then
// fails in generateServerKeyExchange.
//
//	cd /verif/mc && GOFLAGS=-mod=mod GOPROXY=off go run ./cmd/c24/repro/ecdhe-ecdsa-3des-never-selected
package main

import (
	"fmt"
	"os"

	"github.com/zmap/zcrypto/tls"
	"verifmc/internal/tlsx"
)

func main() {
	bad := false
	for _, key := range []string{"p256", "rsa2048"} {
		id := tlsx.ServerIdentity(key)
		cc, sc := tlsx.BaseConfigs(id, "repro")
		cc.MaxVersion, sc.MaxVersion = tls.VersionTLS12, tls.VersionTLS12
		cc.CipherSuites = []uint16{tls.TLS_ECDHE_ECDSA_WITH_3DES_EDE_CBC_SHA}
		cc.ForceSuites = true // the suite is outside the client's default table
		sc.CipherSuites = []uint16{tls.TLS_ECDHE_ECDSA_WITH_3DES_EDE_CBC_SHA}
		s := tlsx.Handshake(cc, sc, nil)
		fmt.Printf("server key %-8s client: ok=%v err=%v | server: ok=%v err=%v\n", key, s.Client.OKDone, s.Client.Err, s.Server.OKDone, s.Server.Err)
		if key == "p256" && !(s.Client.OKDone && s.Server.OKDone) {
			bad = true
		}
		s.Close()
	}
	// control: the sibling suite with the correct flag works with the same key
	id := tlsx.ServerIdentity("p256")
	cc, sc := tlsx.BaseConfigs(id, "repro")
	cc.MaxVersion, sc.MaxVersion = tls.VersionTLS12, tls.VersionTLS12
	cc.CipherSuites = []uint16{tls.TLS_ECDHE_ECDSA_WITH_AES_128_CBC_SHA}
	sc.CipherSuites = []uint16{tls.TLS_ECDHE_ECDSA_WITH_AES_128_CBC_SHA}
	s := tlsx.Handshake(cc, sc, nil)
	fmt.Printf("control  ECDHE_ECDSA_AES_128_CBC_SHA with p256: client ok=%v server ok=%v\n", s.Client.OKDone, s.Server.OKDone)
	s.Close()
	if bad {
		fmt.Println("BUG: an implemented ECDHE-ECDSA suite enabled on both sides cannot be negotiated with an ECDSA server key")
		os.Exit(1)
	}
}
