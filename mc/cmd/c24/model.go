package main

// Reference negotiation model for C24. Written from the property statement,
// the IANA TLS cipher suite registry, RFC 5246 / 5288 / 7905 / 8422 / 8446 /
// 7301 / 5077 and the doc comments of tls.Config. It never calls zcrypto.

import (
	"fmt"
	"sort"
	"strings"
)

const (
	V10 uint16 = 0x0301
	V11 uint16 = 0x0302
	V12 uint16 = 0x0303
	V13 uint16 = 0x0304
)

var allVersions = []uint16{V10, V11, V12, V13}

func vname(v uint16) string {
	switch v {
	case V10:
		return "1.0"
	case V11:
		return "1.1"
	case V12:
		return "1.2"
	case V13:
		return "1.3"
	case 0:
		return "none"
	}
	return fmt.Sprintf("%#04x", v)
}

// IANA "TLS Cipher Suites" registry names of every id this check knows how to
// reason about. An implemented id that is missing here is reported as not
// covered (never guessed).
var ianaNames = map[uint16]string{
	0x0005: "TLS_RSA_WITH_RC4_128_SHA",
	0x000A: "TLS_RSA_WITH_3DES_EDE_CBC_SHA",
	0x002F: "TLS_RSA_WITH_AES_128_CBC_SHA",
	0x0035: "TLS_RSA_WITH_AES_256_CBC_SHA",
	0x003C: "TLS_RSA_WITH_AES_128_CBC_SHA256",
	0x003D: "TLS_RSA_WITH_AES_256_CBC_SHA256",
	0x009C: "TLS_RSA_WITH_AES_128_GCM_SHA256",
	0x009D: "TLS_RSA_WITH_AES_256_GCM_SHA384",
	0x0016: "TLS_DHE_RSA_WITH_3DES_EDE_CBC_SHA",
	0x0033: "TLS_DHE_RSA_WITH_AES_128_CBC_SHA",
	0x0039: "TLS_DHE_RSA_WITH_AES_256_CBC_SHA",
	0x0067: "TLS_DHE_RSA_WITH_AES_128_CBC_SHA256",
	0x006B: "TLS_DHE_RSA_WITH_AES_256_CBC_SHA256",
	0x009E: "TLS_DHE_RSA_WITH_AES_128_GCM_SHA256",
	0x009F: "TLS_DHE_RSA_WITH_AES_256_GCM_SHA384",
	0xCCAA: "TLS_DHE_RSA_WITH_CHACHA20_POLY1305_SHA256",
	0x0013: "TLS_DHE_DSS_WITH_3DES_EDE_CBC_SHA",
	0x0032: "TLS_DHE_DSS_WITH_AES_128_CBC_SHA",
	0x0038: "TLS_DHE_DSS_WITH_AES_256_CBC_SHA",
	0x0040: "TLS_DHE_DSS_WITH_AES_128_CBC_SHA256",
	0x006A: "TLS_DHE_DSS_WITH_AES_256_CBC_SHA256",
	0x0066: "TLS_DHE_DSS_WITH_RC4_128_SHA",
	0x00A2: "TLS_DHE_DSS_WITH_AES_128_GCM_SHA256",
	0x00A3: "TLS_DHE_DSS_WITH_AES_256_GCM_SHA384",
	0xC007: "TLS_ECDHE_ECDSA_WITH_RC4_128_SHA",
	0xC008: "TLS_ECDHE_ECDSA_WITH_3DES_EDE_CBC_SHA",
	0xC009: "TLS_ECDHE_ECDSA_WITH_AES_128_CBC_SHA",
	0xC00A: "TLS_ECDHE_ECDSA_WITH_AES_256_CBC_SHA",
	0xC011: "TLS_ECDHE_RSA_WITH_RC4_128_SHA",
	0xC012: "TLS_ECDHE_RSA_WITH_3DES_EDE_CBC_SHA",
	0xC013: "TLS_ECDHE_RSA_WITH_AES_128_CBC_SHA",
	0xC014: "TLS_ECDHE_RSA_WITH_AES_256_CBC_SHA",
	0xC023: "TLS_ECDHE_ECDSA_WITH_AES_128_CBC_SHA256",
	0xC024: "TLS_ECDHE_ECDSA_WITH_AES_256_CBC_SHA384",
	0xC027: "TLS_ECDHE_RSA_WITH_AES_128_CBC_SHA256",
	0xC028: "TLS_ECDHE_RSA_WITH_AES_256_CBC_SHA384",
	0xC02B: "TLS_ECDHE_ECDSA_WITH_AES_128_GCM_SHA256",
	0xC02C: "TLS_ECDHE_ECDSA_WITH_AES_256_GCM_SHA384",
	0xC02F: "TLS_ECDHE_RSA_WITH_AES_128_GCM_SHA256",
	0xC030: "TLS_ECDHE_RSA_WITH_AES_256_GCM_SHA384",
	0xCCA8: "TLS_ECDHE_RSA_WITH_CHACHA20_POLY1305_SHA256",
	0xCCA9: "TLS_ECDHE_ECDSA_WITH_CHACHA20_POLY1305_SHA256",
	0x1301: "TLS_AES_128_GCM_SHA256",
	0x1302: "TLS_AES_256_GCM_SHA384",
	0x1303: "TLS_CHACHA20_POLY1305_SHA256",
}

type suiteInfo struct {
	ID        uint16
	Name      string
	Kx        string // RSA | DHE_RSA | DHE_DSS | ECDHE_RSA | ECDHE_ECDSA | TLS13
	TLS12Only bool   // SHA-256/384 PRF or AEAD suite: RFC 5246 A.5 / RFC 5288 / RFC 7905 -> TLS 1.2 only
	AESGCM    bool
	ChaCha    bool
}

func suiteOf(id uint16) (suiteInfo, bool) {
	n, ok := ianaNames[id]
	if !ok {
		return suiteInfo{ID: id}, false
	}
	s := suiteInfo{ID: id, Name: n}
	body := strings.TrimPrefix(n, "TLS_")
	i := strings.Index(body, "_WITH_")
	if i < 0 {
		s.Kx = "TLS13"
	} else {
		s.Kx = body[:i]
		s.TLS12Only = strings.HasSuffix(n, "_SHA256") || strings.HasSuffix(n, "_SHA384")
	}
	s.AESGCM = strings.Contains(n, "_GCM_")
	s.ChaCha = strings.Contains(n, "CHACHA20")
	return s, true
}

func sname(id uint16) string {
	if n, ok := ianaNames[id]; ok {
		return strings.TrimPrefix(n, "TLS_")
	}
	return fmt.Sprintf("%#04x", id)
}

func is13(id uint16) bool { s, ok := suiteOf(id); return ok && s.Kx == "TLS13" }

// Cfg is one point of the configuration lattice (also the replay witness).
type Cfg struct {
	CMin, CMax uint16   // client [MinVersion, MaxVersion]
	SMin, SMax uint16   // server [MinVersion, MaxVersion]
	Key        string   // fixture(s) of the server leaf key(s): rsa2048 | p256 | ed-c24, several chains joined by "+" in Config.Certificates order
	GetCert    bool     // the chains are served by a Config.GetCertificate callback (first chain ClientHelloInfo.SupportsCertificate accepts, else the first) and Config.Certificates is empty
	CS, SS     []uint16 // Config.CipherSuites of client / server (nil = default)
	Force      bool     // client ForceSuites (set by the generator iff CS holds an id outside the exported suite lists)
	Prefer     bool     // server PreferServerCipherSuites
	CCurves    []uint16 // CurvePreferences (nil = default)
	SCurves    []uint16
	CProtos    []string // NextProtos
	SProtos    []string
	Tickets    int    // 0: client has no session cache; 1: cache + server tickets on; 2: cache, server SessionTicketsDisabled
	EMS        bool   // Config.ExtendedMasterSecret on both sides
	Down       uint16 // != 0: a man in the middle rewrites the ClientHello so that the server sees no version above Down
	Note       string `json:",omitempty"`
}

func (c Cfg) key() string {
	k := fmt.Sprintf("%x-%x|%x-%x|%s|%x|%x|%v|%v|%x|%x|%q|%q|%d|%v|%x",
		c.CMin, c.CMax, c.SMin, c.SMax, c.Key, c.CS, c.SS, c.Force, c.Prefer, c.CCurves, c.SCurves, c.CProtos, c.SProtos, c.Tickets, c.EMS, c.Down)
	if c.GetCert {
		k += "|getcert"
	}
	return k
}

// certInfo is what the model knows about one configured chain.
type certInfo struct {
	Fixture string
	Kind    string // rsa | ecdsa | ed25519
	Curve   uint16 // ecdsa: named curve of the leaf key
}

func certsOf(key string) []certInfo {
	var out []certInfo
	for _, k := range strings.Split(key, "+") {
		ci := certInfo{Fixture: k, Kind: keyKind(k)}
		if ci.Kind == "ecdsa" {
			ci.Curve = 23 // "p256" is the only ECDSA fixture
		}
		out = append(out, ci)
	}
	return out
}

// fits reports whether pre-1.3 suite s can be negotiated at version v with the
// chain ci. With several chains configured the strict reading also applies RFC
// 8422 §5.3 (below TLS 1.3 the key of an ECDSA certificate must lie on a curve
// of the client's supported_groups); the loose reading does not (a server with
// a single chain has nothing to choose and zcrypto then presents it anyway).
func fits(s suiteInfo, v uint16, ci certInfo, overlap bool, cc, sc []uint16, multi, strict bool) bool {
	if ok, _ := usable12(s, v, ci.Kind, overlap, strict); !ok {
		return false
	}
	if strict && multi && ci.Kind == "ecdsa" && !(has16(cc, ci.Curve) && has16(sc, ci.Curve)) {
		return false
	}
	return true
}

func keyKind(k string) string {
	switch {
	case strings.HasPrefix(k, "rsa"):
		return "rsa"
	case strings.HasPrefix(k, "p"):
		return "ecdsa"
	}
	return "ed25519"
}

// documented defaults.
var defaultCurves = []uint16{29, 23, 24, 25} // X25519, P-256, P-384, P-521

func curvesOf(l []uint16) []uint16 {
	if len(l) == 0 {
		return defaultCurves
	}
	return l
}

// hybridFallback: the classical component a zcrypto client also offers as a key share when a post-quantum hybrid
// group is the top entry of its CurvePreferences (handshake_client.go: "If one of the hybrid PQ algorithms is
// explicitly enabled as the top preference, also send a fallback").
var hybridFallback = map[uint16]uint16{4588: 29, 4587: 23, 4589: 24}

func isHybrid(g uint16) bool { _, ok := hybridFallback[g]; return ok }

func anyHybrid(ls ...[]uint16) bool {
	for _, l := range ls {
		for _, g := range l {
			if isHybrid(g) {
				return true
			}
		}
	}
	return false
}

// clientGroups: the groups a client with this CurvePreferences list can end up using: the list, plus the classical
// fallback of a hybrid top preference (offered as a key share even when it is not in the list; the statement does
// not speak about groups, so the handshake completing on that fallback is an outcome, not a violation).
func clientGroups(l []uint16) []uint16 {
	cc := curvesOf(l)
	if fb, ok := hybridFallback[cc[0]]; ok && !has16(cc, fb) {
		return append(append([]uint16{}, cc...), fb)
	}
	return cc
}

func has16(l []uint16, x uint16) bool {
	for _, y := range l {
		if x == y {
			return true
		}
	}
	return false
}

func hasStr(l []string, x string) bool {
	for _, y := range l {
		if x == y {
			return true
		}
	}
	return false
}

// Pred is the verdict of the reference negotiation for one connection.
type Pred struct {
	Version uint16 // highest version in both intervals, 0 if none
	Must    bool   // the statement demands that the handshake completes
	Why     string // class of the prediction (outcome histogram)
	// Suites both enabled and usable (strict reading), in no particular order.
	Cands []uint16
	// Exact != 0: the documented preference rule determines the suite.
	Exact     uint16
	ExactWhy  string
	ALPN      string // protocol to be negotiated ("" = none)
	ALPNFirm  bool   // false: the lists are disjoint and non-empty (RFC 7301 abort vs. continue both accepted)
	COffer12  []uint16
	COffer13  []uint16
	SEnable12 []uint16
	SEnable13 []uint16
	CDefault  bool // client list is the (unordered, CPU dependent) default
	SDefault  bool
	Overlap   bool // curve lists intersect
}

// model holds what the check learnt about zcrypto's exported suite lists.
type model struct {
	secure12 []uint16 // tls.CipherSuites() ids that are not TLS 1.3 suites: the default pre-1.3 set
	all13    []uint16 // the three TLS 1.3 suites
	exported map[uint16]bool
}

func (m *model) clientOffer(c Cfg) (o12, o13 []uint16, def bool) {
	if c.CS == nil {
		return m.secure12, m.all13, true
	}
	for _, s := range c.CS {
		if is13(s) {
			o13 = append(o13, s)
		} else {
			o12 = append(o12, s)
		}
	}
	// Config.CipherSuites: "For TLS 1.3, any TLS 1.3 suite IDs present in the
	// list are used; if none are present (or the list is nil), a default list
	// of secure suites is used." ForceSuites sends the list verbatim.
	if len(o13) == 0 && !c.Force {
		o13 = m.all13
	}
	return o12, o13, false
}

func (m *model) serverEnable(c Cfg) (e12, e13 []uint16, def bool) {
	if c.SS == nil {
		return m.secure12, m.all13, true
	}
	for _, s := range c.SS {
		if is13(s) {
			e13 = append(e13, s)
		} else {
			e12 = append(e12, s)
		}
	}
	if len(e13) == 0 {
		e13 = m.all13
	}
	return e12, e13, false
}

// usable12 reports whether pre-1.3 suite s can be negotiated at version v with
// the server key kind and the curve overlap. strict=false gives the benefit of
// the doubt where the RFCs allow something zcrypto documents as unsupported
// (Ed25519 certificates below TLS 1.2, RFC 8422 §5.10).
func usable12(s suiteInfo, v uint16, kind string, overlap bool, strict bool) (bool, string) {
	if s.Kx == "TLS13" {
		return false, "TLS 1.3 suite below TLS 1.3"
	}
	if v > V12 {
		return false, "pre-1.3 suite at TLS 1.3"
	}
	if s.TLS12Only && v != V12 {
		return false, "TLS 1.2-only suite below TLS 1.2"
	}
	switch s.Kx {
	case "RSA", "DHE_RSA":
		if kind != "rsa" {
			return false, "RSA key exchange/signature without an RSA key"
		}
	case "ECDHE_RSA":
		if kind != "rsa" {
			return false, "RSA signature without an RSA key"
		}
		if !overlap {
			return false, "ECDHE without a common curve"
		}
	case "ECDHE_ECDSA":
		if kind == "rsa" {
			return false, "ECDSA suite with an RSA key"
		}
		if !overlap {
			return false, "ECDHE without a common curve"
		}
		if kind == "ed25519" && v < V12 && strict {
			return false, "Ed25519 key below TLS 1.2 (documented as unsupported)"
		}
	case "DHE_DSS":
		return false, "DSS suite without a DSA key"
	default:
		return false, "unknown key exchange"
	}
	return true, ""
}

func (m *model) predict(c Cfg) Pred {
	var p Pred
	for _, v := range allVersions {
		if v >= c.CMin && v <= c.CMax && v >= c.SMin && v <= c.SMax {
			p.Version = v // RFC 8446 §4.2.1 / RFC 5246 E.1: highest version both support
		}
	}
	p.COffer12, p.COffer13, p.CDefault = m.clientOffer(c)
	p.SEnable12, p.SEnable13, p.SDefault = m.serverEnable(c)
	cc, sc := clientGroups(c.CCurves), curvesOf(c.SCurves)
	for _, x := range cc {
		if has16(sc, x) {
			p.Overlap = true
		}
	}
	// ALPN (RFC 7301 §3.2: the server selects its most preferred protocol that the client offered).
	p.ALPNFirm = true
	if len(c.CProtos) > 0 && len(c.SProtos) > 0 {
		for _, s := range c.SProtos {
			if hasStr(c.CProtos, s) {
				p.ALPN = s
				break
			}
		}
		if p.ALPN == "" {
			p.ALPNFirm = false
		}
	}
	if p.Version == 0 {
		p.Why = "no-common-version"
		return p
	}
	certs := certsOf(c.Key)
	multi := len(certs) > 1
	doubt := false
	if p.Version == V13 {
		for _, s := range p.COffer13 {
			if has16(p.SEnable13, s) {
				p.Cands = append(p.Cands, s)
			}
		}
		if len(p.Cands) == 0 {
			p.Why = "no-common-suite(1.3)"
			return p
		}
		if !p.Overlap {
			p.Why = "no-common-group(1.3)"
			p.Cands = nil
			return p
		}
		// the preference rule is judged in check() against the ClientHello as it
		// went over the wire (exact13).
		p.ExactWhy = "tls13"
	} else {
		p.Cands, doubt = m.cands12(c, &p, certs, multi)
		if len(p.Cands) == 0 {
			p.Why = "no-usable-common-suite"
			if doubt {
				p.ExactWhy = "no-strictly-usable-candidate"
				p.Why = "unspecified:ed25519-below-1.2"
				if multi {
					p.Why = "unspecified:no-chain-fits-strictly"
				}
			}
			return p
		}
		if multi {
			// Config.Certificates: "The first certificate compatible with the peer's
			// requirements is selected automatically" - the suite preference rule is
			// then judged among the suites usable with the chain actually presented.
			p.ExactWhy = "multi-cert"
		} else {
			p.Exact, p.ExactWhy = m.exact12(c, &p, p.Cands, doubt)
		}
	}
	if doubt && !multi {
		p.Why = "unspecified:ed25519-below-1.2"
		return p
	}
	if !p.ALPNFirm {
		p.Why = "unspecified:alpn-disjoint"
		return p
	}
	p.Must = true
	p.Why = "must-succeed"
	return p
}

// cands12: the pre-1.3 suites both sides enabled that are usable (strict
// reading) with at least one of the given chains, in the order of the
// preferring side; doubt: some common suite is usable under the loose reading only.
func (m *model) cands12(c Cfg, p *Pred, certs []certInfo, multi bool) (cands []uint16, doubt bool) {
	order := p.COffer12
	other := p.SEnable12
	if c.Prefer {
		order, other = p.SEnable12, p.COffer12
	}
	cc, sc := clientGroups(c.CCurves), curvesOf(c.SCurves)
	for _, id := range order {
		if !has16(other, id) || has16(cands, id) {
			continue
		}
		s, ok := suiteOf(id)
		if !ok {
			continue
		}
		strict, loose := false, false
		for _, ci := range certs {
			if fits(s, p.Version, ci, p.Overlap, cc, sc, multi, true) {
				strict = true
			} else if fits(s, p.Version, ci, p.Overlap, cc, sc, multi, false) {
				loose = true
			}
		}
		if strict {
			cands = append(cands, id)
		} else if loose {
			doubt = true
		}
	}
	return
}

// exact12: Documented preference rule (PreferServerCipherSuites): the preferring
// side's most preferred suite, "as expressed in the order of elements in
// CipherSuites". A default (nil) list has no documented order.
func (m *model) exact12(c Cfg, p *Pred, cands []uint16, doubt bool) (exact uint16, why string) {
	if len(cands) == 0 {
		if doubt {
			return 0, "no-strictly-usable-candidate"
		}
		return 0, "model-predicts-no-common-suite"
	}
	gcm, chacha := false, false
	for _, id := range cands {
		s, _ := suiteOf(id)
		gcm = gcm || s.AESGCM
		chacha = chacha || s.ChaCha
	}
	switch {
	case doubt:
		return 0, "ed25519-below-1.2"
	case c.Prefer && p.SDefault:
		return 0, "server-default-order"
	case !c.Prefer && p.CDefault:
		return 0, "client-default-order"
	case !c.Prefer && gcm && chacha && aesHW != 1:
		// zcrypto (like crypto/tls) may move ChaCha20 before AES-GCM when the
		// server CPU lacks AES hardware (or the check cannot tell): the reordering
		// of a mixed pre-1.3 list is not part of the documented rule. With AES-GCM
		// hardware the client's order stands.
		return 0, "aesgcm-vs-chacha-cpu-dependent"
	}
	return cands[0], ""
}

// deprioritizeAES13: "rearranging adjacent AEAD ciphers such that AES-GCM based
// ciphers are moved after other AEAD ciphers" - every TLS 1.3 suite is an AEAD
// suite, so within a TLS 1.3 list all ChaCha20 suites move before all AES-GCM
// suites, each group keeping its order.
func deprioritizeAES13(l []uint16) []uint16 {
	var a, b []uint16
	for _, id := range l {
		if s, _ := suiteOf(id); s.AESGCM {
			b = append(b, id)
		} else {
			a = append(a, id)
		}
	}
	return append(a, b...)
}

func firstCommon(order, other []uint16) uint16 {
	for _, id := range order {
		if has16(other, id) {
			return id
		}
	}
	return 0
}

// exact13: the documented TLS 1.3 rule (PreferServerCipherSuites doc comment +
// the comments of the TLS 1.3 server): the server walks the preferring side's
// list - the server's explicit CipherSuites order when PreferServerCipherSuites,
// else the client's order as offered in its ClientHello - and takes the first
// suite the other side supports. Before that, AES-GCM suites are moved behind
// ChaCha20 when (server preference) "the client does not seem to have hardware
// support for AES-GCM" = the first valid suite of the ClientHello is not an
// AES-GCM suite, or (client preference) the server itself lacks
// AES-GCM hardware. allowed holds every suite that rule can give with what the
// check knows; a default (nil) server list has no documented order.
// hw: 1 = AES-GCM hardware present, 0 = absent, -1 = unknown on this architecture.
func (m *model) exact13(c Cfg, p *Pred, wire []uint16, hw int) (allowed []uint16, why string) {
	var w13 []uint16
	for _, id := range wire {
		if is13(id) {
			w13 = append(w13, id)
		}
	}
	add := func(id uint16) {
		if id != 0 && !has16(allowed, id) {
			allowed = append(allowed, id)
		}
	}
	if !c.Prefer {
		if hw != 0 {
			add(firstCommon(w13, p.SEnable13))
		}
		if hw != 1 {
			add(firstCommon(deprioritizeAES13(w13), p.SEnable13))
		}
		return allowed, ""
	}
	order := p.SEnable13
	if p.SDefault || !hasAny13(c.SS) {
		// no TLS 1.3 suite configured: the documented default TLS 1.3 list (defaults.go)
		if hw == -1 {
			return nil, "server-default-order(1.3):aes-hardware-unknown"
		}
		order = defaultOrder13(hw)
	}
	// "first valid cipher in the preference list": decidable for the check when the
	// first id of the ClientHello is a suite of the exported lists and the rule's
	// wording and table agree on it (gcmRuleClass); otherwise both orders are accepted.
	cls := m.firstValidClass(wire)
	if cls != 0 {
		add(firstCommon(order, w13))
	}
	if cls != 1 {
		add(firstCommon(deprioritizeAES13(order), w13))
	}
	return allowed, ""
}

func hasAny13(l []uint16) bool {
	for _, id := range l {
		if is13(id) {
			return true
		}
	}
	return false
}

func sortedCopy(l []uint16) []uint16 {
	o := append([]uint16(nil), l...)
	sort.Slice(o, func(i, j int) bool { return o[i] < o[j] })
	return o
}
