package main

// Execution of one configuration on the real zcrypto client and server (E4
// engine) and the oracles comparing the observation with the reference model.

import (
	"bytes"
	"crypto/sha256"
	"encoding/binary"
	"fmt"
	"io"
	"runtime"
	"sort"
	"strings"
	"sync"

	"github.com/zmap/zcrypto/tls"
	"golang.org/x/sys/cpu"
	"verifmc/internal/ev"
	"verifmc/internal/tlsx"
)

type sideObs struct {
	OK      bool
	Err     string
	Panic   string
	Version uint16
	Suite   uint16
	ALPN    string
	Resumed bool
}

type connObs struct {
	C, S        sideObs
	EKMEqual    bool
	EKMErr      string
	EKM         []byte
	Hellos      []*serverHello
	LaterTypes  []byte // record types the client wrote after its first write
	ClientAlert int
	Stalled     bool
	Records     int
	MitmApplied bool
	DataErr     string
	CHs         []*clientHello // ClientHello message(s) as sent
	CHRaw       []byte         // the client's first write (the record(s) holding its first ClientHello)
	Flight      *serverFlight  // plaintext Certificate / ServerKeyExchange (TLS <= 1.2)
	PeerLeaf    []byte         // client ConnectionState.PeerCertificates[0].Raw
	digest      [32]byte
}

func (o *connObs) lastCH() *clientHello {
	if n := len(o.CHs); n > 0 {
		return o.CHs[n-1]
	}
	return nil
}

// aesHardware: does this machine have the AES-GCM hardware support the TLS 1.3
// server comments talk about (AES + carry-less multiply instructions)?
// 1 yes, 0 no, -1 unknown for this architecture.
func aesHardware() int {
	b := func(x bool) int {
		if x {
			return 1
		}
		return 0
	}
	switch runtime.GOARCH {
	case "amd64":
		return b(cpu.X86.HasAES && cpu.X86.HasPCLMULQDQ)
	case "arm64":
		return b(cpu.ARM64.HasAES && cpu.ARM64.HasPMULL)
	}
	return -1
}

var aesHW = aesHardware()

func (o *connObs) hello() *serverHello {
	if n := len(o.Hellos); n > 0 && !o.Hellos[n-1].HRR {
		return o.Hellos[n-1]
	}
	return nil
}

func (o *connObs) summary() string {
	f := func(s sideObs) string {
		if s.Panic != "" {
			return "panic: " + s.Panic
		}
		if !s.OK {
			return "err: " + s.Err
		}
		return fmt.Sprintf("ok v=%s suite=%s alpn=%q resumed=%v", vname(s.Version), sname(s.Suite), s.ALPN, s.Resumed)
	}
	sh := "no ServerHello"
	if h := o.hello(); h != nil {
		sh = fmt.Sprintf("ServerHello v=%s suite=%s random[24:]=%x", vname(h.Version), sname(h.Suite), h.Random[24:])
	}
	return fmt.Sprintf("client{%s} server{%s} %s stalled=%v later-client-records=%v", f(o.C), f(o.S), sh, o.Stalled, o.LaterTypes)
}

func curveIDs(l []uint16) []tls.CurveID {
	if l == nil {
		return nil
	}
	o := make([]tls.CurveID, len(l))
	for i, x := range l {
		o[i] = tls.CurveID(x)
	}
	return o
}

func buildConfigs(c Cfg) (cc, sc *tls.Config) {
	fixtures := strings.Split(c.Key, "+")
	id := tlsx.ServerIdentity(fixtures[0])
	cc, sc = tlsx.BaseConfigs(id, c.key())
	if len(fixtures) > 1 || c.GetCert {
		var chains []tls.Certificate
		for _, f := range fixtures {
			x := tlsx.ServerIdentity(f)
			chains = append(chains, x.TLSCert())
			cc.RootCAs.AddCert(x.Root.X)
		}
		sc.Certificates = chains
		if c.GetCert {
			// the documented idiom: the callback walks its chains and returns the first
			// one ClientHelloInfo.SupportsCertificate accepts, else the first.
			sc.Certificates = nil
			sc.GetCertificate = func(chi *tls.ClientHelloInfo) (*tls.Certificate, error) {
				for i := range chains {
					if chi.SupportsCertificate(&chains[i]) == nil {
						return &chains[i], nil
					}
				}
				return &chains[0], nil
			}
		}
	}
	cc.MinVersion, cc.MaxVersion = c.CMin, c.CMax
	sc.MinVersion, sc.MaxVersion = c.SMin, c.SMax
	if c.CS != nil {
		cc.CipherSuites = append([]uint16{}, c.CS...)
	}
	if c.SS != nil {
		sc.CipherSuites = append([]uint16{}, c.SS...)
	}
	cc.ForceSuites = c.Force
	sc.PreferServerCipherSuites = c.Prefer
	cc.CurvePreferences = curveIDs(c.CCurves)
	sc.CurvePreferences = curveIDs(c.SCurves)
	cc.NextProtos = append([]string(nil), c.CProtos...)
	sc.NextProtos = append([]string(nil), c.SProtos...)
	switch c.Tickets {
	case 0:
	case 1:
		cc.ClientSessionCache = tls.NewLRUClientSessionCache(4)
	case 2:
		cc.ClientSessionCache = tls.NewLRUClientSessionCache(4)
		sc.SessionTicketsDisabled = true
	}
	cc.ExtendedMasterSecret = c.EMS
	sc.ExtendedMasterSecret = c.EMS
	return
}

const ekmLabel = "EXPERIMENTAL-verif-c24"

func side(s *tlsx.Side) sideObs {
	o := sideObs{OK: s.OKDone, Panic: s.Panic}
	if s.Err != nil {
		o.Err = s.Err.Error()
	}
	if s.OKDone {
		o.Version = s.State.Version
		o.Suite = s.State.CipherSuite
		o.ALPN = s.State.NegotiatedProtocol
		o.Resumed = s.State.DidResume
	}
	return o
}

// runConn performs one connection between the two configs.
func runConn(cc, sc *tls.Config, down uint16) *connObs {
	o := &connObs{ClientAlert: -1}
	applied := false
	prep := func(n *tlsx.Net) {
		if down == 0 {
			return
		}
		n.Mitm = func(d tlsx.Dir, nth int, data []byte) [][]byte {
			if d == tlsx.C2S && nth == 0 {
				if nw, ok := rewriteClientHello(data, down); ok {
					applied = true
					return [][]byte{nw}
				}
			}
			return [][]byte{data}
		}
	}
	s := tlsx.Handshake(cc, sc, prep)
	o.MitmApplied = applied
	o.C, o.S = side(&s.Client), side(&s.Server)
	if o.C.OK && len(s.Client.State.PeerCertificates) > 0 {
		o.PeerLeaf = append([]byte(nil), s.Client.State.PeerCertificates[0].Raw...)
	}
	if o.C.OK && o.S.OK {
		// exported keying material, RFC 5705 / RFC 8446 §7.5
		var all []byte
		o.EKMEqual = true
		for _, ctx := range [][]byte{nil, []byte("c")} {
			a, ea := s.Client.State.ExportKeyingMaterial(ekmLabel, ctx, 32)
			b, eb := s.Server.State.ExportKeyingMaterial(ekmLabel, ctx, 32)
			if ea != nil || eb != nil {
				o.EKMErr = fmt.Sprintf("client: %v, server: %v", ea, eb)
				o.EKMEqual = false
				break
			}
			if !bytes.Equal(a, b) || len(a) != 32 {
				o.EKMEqual = false
			}
			all = append(all, a...)
		}
		o.EKM = all
		// a short data phase: proves both ends hold the same traffic keys and
		// lets a TLS 1.3 client consume the NewSessionTicket messages.
		p, msg, site := ev.Try(func() {
			buf := make([]byte, 4)
			if _, err := s.Client.Conn.Write([]byte("ping")); err != nil {
				o.DataErr = "client write: " + err.Error()
				return
			}
			if _, err := io.ReadFull(s.Server.Conn, buf); err != nil || string(buf) != "ping" {
				o.DataErr = fmt.Sprintf("server read: %q %v", buf, err)
				return
			}
			if _, err := s.Server.Conn.Write([]byte("pong")); err != nil {
				o.DataErr = "server write: " + err.Error()
				return
			}
			if _, err := io.ReadFull(s.Client.Conn, buf); err != nil || string(buf) != "pong" {
				o.DataErr = fmt.Sprintf("client read: %q %v", buf, err)
				return
			}
		})
		if p {
			o.DataErr = "panic: " + msg + " @ " + site
		}
	}
	s.Close()
	o.Stalled = s.Net.Stalled
	h := sha256.New()
	for _, d := range []tlsx.Dir{tlsx.C2S, tlsx.S2C} {
		for _, w := range s.Net.Writes(d) {
			var l [9]byte
			l[0] = byte(d)
			binary.BigEndian.PutUint64(l[1:], uint64(len(w)))
			h.Write(l[:])
			h.Write(w)
		}
	}
	copy(o.digest[:], h.Sum(nil))
	s2c := s.Net.Stream(tlsx.S2C)
	o.Hellos = serverHellos(s2c)
	o.CHs = clientHellos(s.Net.Stream(tlsx.C2S))
	if ws := s.Net.Writes(tlsx.C2S); len(ws) > 0 {
		o.CHRaw = ws[0]
	}
	if h := o.hello(); h != nil && h.Version <= V12 {
		si, _ := suiteOf(h.Suite)
		o.Flight = parseServerFlight(s2c, strings.HasPrefix(si.Kx, "ECDHE"), h.Version == V12)
	}
	o.Records = len(tlsx.ParseRecords(s2c)) + len(tlsx.ParseRecords(s.Net.Stream(tlsx.C2S)))
	o.LaterTypes, o.ClientAlert = clientLaterRecords(s.Net)
	return o
}

// runCfg runs the connection(s) of one configuration once.
func runCfg(c Cfg) []*connObs {
	cc, sc := buildConfigs(c)
	out := []*connObs{runConn(cc, sc, c.Down)}
	if c.Tickets != 0 && c.Down == 0 {
		out = append(out, runConn(cc, sc, 0))
	}
	return out
}

func sentinel(random []byte) int {
	if len(random) != 32 {
		return 0
	}
	switch string(random[24:]) {
	case "DOWNGRD\x01":
		return 1
	case "DOWNGRD\x00":
		return 2
	}
	return 0
}

type reporter struct {
	c    *ev.Ctx
	hist ev.Hist
	agg  *interopAgg
}

// interopAgg groups "predicted success, observed failure" cases by root error
// so that one defect yields one signature: the signature names the error class
// and the (key exchange / server key) classes affected (or "many").
type interopAgg struct {
	mu sync.Mutex
	m  map[string]*interopClass
}

type interopClass struct {
	combos map[string]bool
	first  witness
	n      int
}

func (a *interopAgg) add(class, combo string, w witness) {
	a.mu.Lock()
	defer a.mu.Unlock()
	if a.m == nil {
		a.m = map[string]*interopClass{}
	}
	ic := a.m[class]
	if ic == nil {
		ic = &interopClass{combos: map[string]bool{}, first: w}
		a.m[class] = ic
	}
	ic.combos[combo] = true
	ic.n++
}

func (a *interopAgg) emit(c *ev.Ctx) {
	a.mu.Lock()
	defer a.mu.Unlock()
	var classes []string
	for k := range a.m {
		classes = append(classes, k)
	}
	sort.Strings(classes)
	for _, k := range classes {
		ic := a.m[k]
		var cs []string
		for x := range ic.combos {
			cs = append(cs, x)
		}
		sort.Strings(cs)
		aff := strings.Join(cs, ",")
		if len(cs) > 3 {
			aff = "many"
		}
		w := ic.first
		w.Detail = fmt.Sprintf("%d configurations in this class (kx/key classes: %s); first: %s", ic.n, strings.Join(cs, ","), w.Detail)
		c.Violation("interop: configurations share a version and a usable suite but the "+k+" [kx/key affected: "+aff+"]", w)
	}
}

type witness struct {
	Cfg    Cfg    `json:"cfg"`
	Conn   int    `json:"connection"`
	Detail string `json:"detail"`
	Seen   string `json:"observed"`
}

func errClass(s string) string {
	s = ev.MsgClass(s)
	if i := strings.Index(s, ": x509"); i > 0 {
		s = s[:i]
	}
	if len(s) > 70 {
		s = s[:70]
	}
	return s
}

// check applies every oracle to the observations of one configuration.
func (r *reporter) check(m *model, c Cfg, obs []*connObs) {
	p := m.predict(c)
	viol := func(conn int, sig, detail string) {
		r.c.Violation(sig, witness{c, conn, detail, obs[conn].summary()})
	}
	for i, o := range obs {
		for _, sd := range []struct {
			n string
			s sideObs
		}{{"client", o.C}, {"server", o.S}} {
			if sd.s.Panic != "" {
				viol(i, "panic in "+sd.n+" handshake: "+errClass(sd.s.Panic), sd.s.Panic)
			}
		}
		r.checkSentinel(c, i, o, viol)
		if c.Down != 0 {
			r.checkDowngrade(c, p, i, o, viol)
			continue
		}
		second := i == 1
		both := o.C.OK && o.S.OK
		if !both {
			if p.Must {
				conn := "first"
				if second {
					conn = "second"
				}
				h := o.hello()
				switch {
				case h != nil && h.Version != p.Version:
					// root cause visible in the transcript: the server's version choice
					rel := "lower"
					if h.Version > p.Version {
						rel = "higher"
					}
					viol(i, "version: ServerHello selects a version "+rel+" than the highest version both sides support (handshake then failed)",
						fmt.Sprintf("selected %s, highest common %s", vname(h.Version), vname(p.Version)))
				case h != nil && !has16(p.Cands, h.Suite):
					viol(i, "suite: ServerHello selects a suite outside the enabled-and-usable common set (handshake then failed)",
						fmt.Sprintf("selected %s, candidates %v", sname(h.Suite), names(p.Cands)))
				default:
					// root cause = the local error of the endpoint that gave up first
					cls := "client: " + errClass(o.C.Err)
					if o.C.OK || strings.HasPrefix(o.C.Err, "remote error") || o.C.Err == "EOF" {
						cls = "server: " + errClass(o.S.Err)
					}
					if o.Stalled {
						cls = "both endpoints blocked reading"
					}
					kx := ""
					for _, id := range p.Cands {
						si, _ := suiteOf(id)
						if kx == "" {
							kx = si.Kx
						} else if kx != si.Kx {
							kx = "mixed"
						}
					}
					kk := keyKind(c.Key)
					if strings.Contains(c.Key, "+") {
						kk = "several chains"
					}
					r.agg.add(conn+" handshake failed: "+cls, kx+"/"+kk,
						witness{c, i, fmt.Sprintf("model: version %s candidates %v", vname(p.Version), names(p.Cands)), o.summary()})
				}
				r.hist["VIOLATION/interop-failure"]++
			} else {
				r.hist["fail/"+p.Why]++
				if o.C.OK != o.S.OK {
					r.hist["fail/one-sided-completion(no demand)"]++
				}
			}
			continue
		}
		// ---- both sides completed: agreement and correctness of the result ----
		if p.Must {
			r.hist["ok/TLS"+vname(o.C.Version)+"/must-succeed"]++
		} else {
			r.hist["ok/TLS"+vname(o.C.Version)+"/not-demanded:"+p.Why]++
		}
		if o.C.Version != o.S.Version {
			viol(i, "agreement: ConnectionState.Version differs between client and server", "")
		}
		if o.C.Suite != o.S.Suite {
			viol(i, "agreement: ConnectionState.CipherSuite differs between client and server", "")
		}
		if o.C.ALPN != o.S.ALPN {
			viol(i, "agreement: NegotiatedProtocol differs between client and server", "")
		}
		if o.C.Resumed != o.S.Resumed {
			viol(i, "agreement: DidResume differs between client and server", "")
		}
		if !o.EKMEqual {
			if o.EKMErr != "" {
				viol(i, "agreement: ExportKeyingMaterial failed after a completed handshake (TLS "+vname(o.C.Version)+")", o.EKMErr)
			} else {
				viol(i, "agreement: ExportKeyingMaterial outputs differ between client and server (TLS "+vname(o.C.Version)+")", "")
			}
		}
		if o.DataErr != "" {
			viol(i, "agreement: application data does not pass after a completed handshake (TLS "+vname(o.C.Version)+"): "+errClass(o.DataErr), o.DataErr)
		}
		if h := o.hello(); h != nil {
			if h.Version != o.S.Version || h.Suite != o.S.Suite {
				viol(i, "transcript: ServerHello version/suite differ from the server's ConnectionState", "")
			}
		} else {
			viol(i, "transcript: no parsable ServerHello in a completed handshake", "")
		}
		v, s := o.S.Version, o.S.Suite
		// version: highest common
		switch {
		case p.Version == 0:
			viol(i, "version: handshake completed although the version intervals are disjoint", "")
		case v != p.Version:
			rel := "lower"
			if v > p.Version {
				rel = "higher"
			}
			viol(i, "version: negotiated version is "+rel+" than the highest version both sides support", fmt.Sprintf("negotiated %s, highest common %s", vname(v), vname(p.Version)))
		}
		// suite: enabled on both sides, usable
		si, known := suiteOf(s)
		gen := "pre-1.3"
		offer, enable := p.COffer12, p.SEnable12
		if v == V13 {
			gen = "1.3"
			offer, enable = p.COffer13, p.SEnable13
		}
		if p.CDefault || !has16(offer, s) {
			if !(p.CDefault && m.exported[s]) {
				viol(i, "suite: negotiated "+gen+" suite was not enabled by the client", sname(s))
			}
		}
		if !has16(enable, s) {
			if !(p.SDefault && m.exported[s]) {
				viol(i, "suite: negotiated "+gen+" suite was not enabled by the server", fmt.Sprintf("%s not in server list %v", sname(s), names(c.SS)))
			}
		}
		if !known {
			r.hist["suite/unknown-to-the-model"]++
		} else if v == V13 {
			if si.Kx != "TLS13" {
				viol(i, "suite: pre-1.3 suite negotiated at TLS 1.3", sname(s))
			}
			if !p.Overlap {
				viol(i, "suite: TLS 1.3 completed without a common key exchange group", "")
			}
		} else {
			ok, why := false, ""
			for _, ci := range certsOf(c.Key) {
				var u bool
				if u, why = usable12(si, v, ci.Kind, p.Overlap, false); u {
					ok = true
					break
				}
			}
			if !ok {
				viol(i, "suite: negotiated suite is not usable: "+why, fmt.Sprintf("%s at TLS %s with key(s) %s", sname(s), vname(v), c.Key))
			}
		}
		// ---- certificate presented, key exchange group
		presented := r.checkCertificate(m, c, p, i, o, si, known, viol)
		r.checkGroup(c, i, o, si, known, viol)
		// preference rule
		exact, exactWhy := p.Exact, p.ExactWhy
		ruleCands := p.Cands
		if v == p.Version && v <= V12 && p.ExactWhy == "multi-cert" {
			// several chains: the rule is judged among the suites usable with the chain presented
			if presented >= 0 {
				one := certsOf(c.Key)[presented : presented+1]
				cands, doubt := m.cands12(c, &p, one, true)
				exact, exactWhy = m.exact12(c, &p, cands, doubt)
				ruleCands = cands
			} else {
				exact, exactWhy = 0, "multi-cert:presented-chain-unknown"
			}
		}
		r.checkDefaultHello(c, i, o, viol)
		switch {
		case v == p.Version && v <= V12 && exact == 0 && (exactWhy == "server-default-order" || exactWhy == "client-default-order") && o.lastCH() != nil && !(second && o.S.Resumed):
			// the preferring side's list is the DEFAULT list: documented order (defaults.go), the
			// client's order being the one of its ClientHello on the wire
			wire := o.lastCH().Suites
			allowed, why := m.exact12default(c, ruleCands, wire, aesHW)
			if why != "" || len(allowed) == 0 {
				if why == "" {
					why = exactWhy + ":no-candidate-on-the-wire"
				}
				r.hist["suite/membership-only:"+why]++
				break
			}
			r.hist["suite/exact-rule-checked("+exactWhy+")"]++
			if len(allowed) > 1 {
				r.hist["suite/exact-rule-checked("+exactWhy+"):two-orders-accepted"]++
			}
			if !has16(allowed, s) {
				if c.Prefer {
					viol(i, "suite: PreferServerCipherSuites=true, server CipherSuites=nil: not the most preferred usable common suite of the documented default order (AES-GCM behind ChaCha20 iff the ClientHello does not start with AES-GCM, everything else in place)",
						fmt.Sprintf("selected %s, rule gives %v (ClientHello offers %v, aes hardware=%d)", sname(s), names(allowed), names(wire), aesHW))
				} else {
					viol(i, "suite: PreferServerCipherSuites=false, client CipherSuites=nil: not the first usable common suite of the ClientHello",
						fmt.Sprintf("selected %s, rule gives %v (ClientHello offers %v)", sname(s), names(allowed), names(wire)))
				}
			}
			if c.Prefer {
				r.checkGoroot(m, c, i, o, ruleCands, viol)
			}
		case v == p.Version && v == V13 && len(p.Cands) > 0 && o.lastCH() != nil:
			// TLS 1.3: the suite is negotiated afresh on a resumed connection as well
			allowed, why := m.exact13(c, &p, o.lastCH().Suites, aesHW)
			if why != "" || len(allowed) == 0 {
				if why == "" {
					why = "tls13:no-common-suite-on-the-wire"
				}
				r.hist["suite/membership-only:"+why]++
				break
			}
			r.hist["suite/exact-rule-checked(1.3)"]++
			if len(allowed) > 1 {
				r.hist["suite/exact-rule-checked(1.3):two-orders-accepted"]++
			}
			if !has16(allowed, s) && !c.Prefer && aesHW == 1 && s == firstCommon(deprioritizeAES13(o.lastCH().Suites), p.SEnable13) {
				// one root cause, one signature: the server believes it has no AES-GCM hardware
				viol(i, "suite: TLS 1.3, PreferServerCipherSuites=false: AES-GCM moved behind ChaCha20 against the client's order although this machine has AES-GCM hardware",
					fmt.Sprintf("selected %s, ClientHello offers %v", sname(s), names(o.lastCH().Suites)))
			} else if !has16(allowed, s) {
				who := "client"
				if c.Prefer {
					who = "server"
				}
				viol(i, fmt.Sprintf("suite: TLS 1.3, PreferServerCipherSuites=%v: the %s's most preferred common suite (documented rule incl. the AES-GCM hardware heuristic) was not selected", c.Prefer, who),
					fmt.Sprintf("selected %s, rule gives %v (ClientHello offers %v, server enables %v, aes hardware=%d)", sname(s), names(allowed), names(o.lastCH().Suites), names(p.SEnable13), aesHW))
			}
		case v == p.Version && exact != 0 && !(second && o.S.Resumed):
			r.hist["suite/exact-rule-checked"]++
			if s != exact {
				who := "client"
				if c.Prefer {
					who = "server"
				}
				viol(i, fmt.Sprintf("suite: PreferServerCipherSuites=%v but the %s's most preferred usable common suite was not selected", c.Prefer, who),
					fmt.Sprintf("selected %s, rule gives %s (candidates in preference order %v)", sname(s), sname(exact), names(p.Cands)))
			}
		default:
			why := exactWhy
			if why == "" {
				why = "model-predicts-no-common-suite"
			}
			if second && o.S.Resumed {
				why = "resumed-connection"
			}
			r.hist["suite/membership-only:"+why]++
		}
		// ALPN
		switch {
		case p.ALPNFirm && o.S.ALPN != p.ALPN:
			if p.ALPN == "" {
				viol(i, "alpn: a protocol was negotiated although one side offers none", o.S.ALPN)
			} else if !hasStr(c.CProtos, o.S.ALPN) || !hasStr(c.SProtos, o.S.ALPN) {
				viol(i, "alpn: negotiated protocol is not offered by both sides", fmt.Sprintf("got %q", o.S.ALPN))
			} else {
				viol(i, "alpn: not the server's most preferred protocol offered by the client (RFC 7301 §3.2)", fmt.Sprintf("got %q want %q", o.S.ALPN, p.ALPN))
			}
		case !p.ALPNFirm && o.S.ALPN != "":
			viol(i, "alpn: negotiated protocol is not offered by both sides", fmt.Sprintf("got %q", o.S.ALPN))
		}
		if p.ALPN != "" {
			r.hist["alpn/negotiated"]++
		}
		// resumption
		if !second {
			if o.S.Resumed || o.C.Resumed {
				viol(i, "resumption: first connection of a fresh client reports DidResume", "")
			}
		} else {
			f := obs[0]
			firstOK := f.C.OK && f.S.OK
			switch {
			case c.Tickets != 1 && (o.S.Resumed || o.C.Resumed):
				viol(i, "resumption: session resumed although the server has SessionTicketsDisabled", "")
			case c.Tickets == 1 && firstOK && !(o.S.Resumed && o.C.Resumed):
				viol(i, "resumption: identical second connection with tickets enabled on both sides did not resume (TLS "+vname(v)+")", "")
			}
			if o.S.Resumed {
				r.hist["resumed/TLS"+vname(v)]++
				if firstOK && (f.S.Version != v || (v <= V12 && f.S.Suite != s)) {
					viol(i, "resumption: resumed session changed version or suite", fmt.Sprintf("first %s/%s second %s/%s", vname(f.S.Version), sname(f.S.Suite), vname(v), sname(s)))
				}
				if firstOK && bytes.Equal(f.EKM, o.EKM) && len(o.EKM) > 0 {
					r.hist["resumed/same-ekm-as-first(not demanded)"]++
				}
			} else {
				r.hist["not-resumed/tickets="+fmt.Sprint(c.Tickets)]++
			}
		}
		if len(o.Hellos) > 1 {
			r.hist["ok/with-hello-retry-request"]++
		}
	}
}

// checkDefaultHello: a client with CipherSuites=nil offers the documented default suites in the documented order
// (its preference, which a server with PreferServerCipherSuites=false follows).
func (r *reporter) checkDefaultHello(c Cfg, i int, o *connObs, viol func(int, string, string)) {
	if c.CS != nil || aesHW == -1 || len(o.CHs) == 0 || c.Down != 0 {
		return
	}
	var got []uint16
	for _, id := range o.CHs[0].Suites {
		if id != 0x00FF && id != 0x5600 { // renegotiation_info and fallback signalling values are not suites
			got = append(got, id)
		}
	}
	want := defaultHelloSuites(c.CMax, aesHW)
	if eq16(got, want) {
		r.hist["suite/default-clienthello-is-the-documented-list"]++
		return
	}
	viol(i, "suite: client CipherSuites=nil: the ClientHello does not offer the documented default suites in the documented preference order",
		fmt.Sprintf("offered %v, documented %v (client max %s, aes hardware=%d)", names(got), names(want), vname(c.CMax), aesHW))
}

// checkGoroot: second opinion on the default server order. The GOROOT crypto/tls server with the same key, versions,
// curves and the same suites enabled answers the very ClientHello the zcrypto server saw; it selects by the same
// documented table (whatever the client's order), so whenever it negotiates the same version and both servers
// regard the same first suite of the ClientHello as valid, the suite must be the same.
func (r *reporter) checkGoroot(m *model, c Cfg, i int, o *connObs, cands []uint16, viol func(int, string, string)) {
	if i != 0 || c.Down != 0 || strings.Contains(c.Key, "+") || o.CHRaw == nil || o.lastCH() == nil || len(o.CHs) != 1 {
		return
	}
	wire := o.lastCH().Suites
	if len(wire) == 0 || !stdSupports(wire[0]) || !m.exported[wire[0]] {
		r.hist["goroot/not-comparable:first suite of the ClientHello unknown to one of the two"]++
		return
	}
	sh := stdAnswer(o.CHRaw, stdServerConfig(c))
	switch {
	case sh == nil:
		r.hist["goroot/not-comparable:crypto/tls refuses the ClientHello"]++
	case sh.Version != o.S.Version:
		r.hist["goroot/not-comparable:crypto/tls negotiates another version"]++
	case !has16(cands, sh.Suite):
		r.hist["goroot/not-comparable:crypto/tls selects outside the common usable set of the model"]++
	case sh.Suite != o.S.Suite:
		viol(i, "suite: PreferServerCipherSuites=true, server CipherSuites=nil: the suite selected differs from the one the GOROOT crypto/tls server selects for the same ClientHello with the same suites enabled",
			fmt.Sprintf("zcrypto %s, crypto/tls %s (ClientHello offers %v)", sname(o.S.Suite), sname(sh.Suite), names(wire)))
	default:
		r.hist["goroot/same-suite-as-crypto/tls"]++
	}
}

var schemeKind = map[uint16]string{
	0x0201: "rsa", 0x0401: "rsa", 0x0501: "rsa", 0x0601: "rsa", 0x0804: "rsa", 0x0805: "rsa", 0x0806: "rsa",
	0x0203: "ecdsa", 0x0403: "ecdsa", 0x0503: "ecdsa", 0x0603: "ecdsa",
	0x0807: "ed25519",
}

// leafIndex: which configured chain has this leaf (-1: none).
func leafIndex(c Cfg, der []byte) int {
	for i, f := range strings.Split(c.Key, "+") {
		if bytes.Equal(tlsx.ServerIdentity(f).Leaf.DER, der) {
			return i
		}
	}
	return -1
}

// checkCertificate: the certificate actually presented (the client's view and,
// below TLS 1.3, the Certificate message on the wire) is a configured chain,
// fits the negotiated suite and the signature schemes the client offered, and is
// the one the Config.Certificates rule selects. Returns the index of the chain
// presented (-1 unknown / resumed).
func (r *reporter) checkCertificate(m *model, c Cfg, p Pred, i int, o *connObs, si suiteInfo, known bool, viol func(int, string, string)) int {
	if o.S.Resumed {
		if o.Flight != nil && o.Flight.HasCert {
			viol(i, "certificate: Certificate message sent on a resumed connection", "")
		}
		return -1
	}
	v := o.S.Version
	if o.PeerLeaf == nil {
		viol(i, "certificate: the client completed a full handshake without a peer certificate", "")
		return -1
	}
	idx := leafIndex(c, o.PeerLeaf)
	if idx < 0 {
		viol(i, "certificate: the leaf the client saw is not the leaf of a configured chain", "")
		return -1
	}
	certs := certsOf(c.Key)
	ci := certs[idx]
	multi := len(certs) > 1
	r.hist[fmt.Sprintf("certificate/presented:%s(chain %d of %d)", ci.Kind, idx+1, len(certs))]++
	ch := o.lastCH()
	if v <= V12 {
		if o.Flight == nil || !o.Flight.HasCert {
			viol(i, "transcript: no parsable Certificate message in a completed full handshake", "")
		} else if !bytes.Equal(o.Flight.Leaf, o.PeerLeaf) {
			viol(i, "transcript: the leaf of the Certificate message differs from the client's PeerCertificates[0]", "")
		}
		if known {
			if ok, why := usable12(si, v, ci.Kind, p.Overlap, false); !ok {
				viol(i, "certificate: the chain presented does not fit the negotiated suite ("+ci.Kind+" leaf, "+si.Kx+" suite)", why)
			}
		}
		if v == V12 && known && strings.HasPrefix(si.Kx, "ECDHE") && o.Flight != nil && o.Flight.ECDHEOK && ch != nil {
			sa := o.Flight.SigAlg
			switch {
			case !has16(ch.SigAlgs, sa):
				viol(i, "certificate: ServerKeyExchange is signed with a scheme the client did not offer in signature_algorithms", fmt.Sprintf("%#04x", sa))
			case schemeKind[sa] != ci.Kind:
				viol(i, "certificate: ServerKeyExchange signature scheme does not belong to the key type of the chain presented", fmt.Sprintf("scheme %#04x, %s leaf", sa, ci.Kind))
			default:
				r.hist["certificate/skx-signature-scheme-offered-and-fits"]++
			}
		}
	} else if ch != nil {
		// TLS 1.3 (RFC 8446 §4.4.2.2): the leaf key must be usable with a scheme of the
		// client's signature_algorithms.
		ok := false
		for _, sa := range ch.SigAlgs {
			k := schemeKind[sa]
			if sa>>8 == 0x02 || (k == "rsa" && sa>>8 != 0x08) {
				continue // SHA-1 and PKCS#1 v1.5 schemes do not exist for TLS 1.3 signatures
			}
			if k == ci.Kind && (k != "ecdsa" || sa == 0x0403) {
				ok = true
			}
		}
		if !ok {
			viol(i, "certificate: the chain presented at TLS 1.3 has no signature scheme among the client's signature_algorithms", ci.Kind)
		}
	}
	if multi {
		// Config.Certificates: "The first certificate compatible with the peer's
		// requirements is selected automatically."
		want, firm := -1, false
		cc, sc := clientGroups(c.CCurves), curvesOf(c.SCurves)
		for k, x := range certs {
			strict, loose := v == V13, v == V13
			if v <= V12 {
				for _, id := range p.COffer12 {
					if s, ok := suiteOf(id); ok && has16(p.SEnable12, id) {
						strict = strict || fits(s, v, x, p.Overlap, cc, sc, true, true)
						loose = loose || fits(s, v, x, p.Overlap, cc, sc, true, false)
					}
				}
			}
			if strict {
				want, firm = k, true
				break
			}
			if loose {
				break
			}
		}
		switch {
		case !firm:
			r.hist["certificate/selection:not-predicted(an earlier chain fits loosely only)"]++
		case want != idx:
			viol(i, "certificate: not the first configured chain compatible with the client's offer (Config.Certificates rule)",
				fmt.Sprintf("presented chain %d (%s), first compatible chain %d (%s)", idx+1, ci.Kind, want+1, certs[want].Kind))
		default:
			r.hist["certificate/selection:first-compatible-chain"]++
		}
	}
	return idx
}

func cname(g uint16) string {
	switch g {
	case 23:
		return "P-256"
	case 24:
		return "P-384"
	case 25:
		return "P-521"
	case 29:
		return "X25519"
	case 4587:
		return "SecP256r1MLKEM768"
	case 4588:
		return "X25519MLKEM768"
	case 4589:
		return "SecP384r1MLKEM1024"
	}
	return fmt.Sprintf("%#04x", g)
}

// checkGroup: the (EC)DHE group on the wire lies in both CurvePreferences lists.
func (r *reporter) checkGroup(c Cfg, i int, o *connObs, si suiteInfo, known bool, viol func(int, string, string)) {
	cc, sc := clientGroups(c.CCurves), curvesOf(c.SCurves)
	v := o.S.Version
	both := func(g uint16, where string) {
		inC, inS := has16(cc, g), has16(sc, g)
		switch {
		case !inC:
			viol(i, "group: the "+where+" is not in the client's CurvePreferences", fmt.Sprintf("%s, client %v, server %v", cname(g), cc, sc))
		case !inS:
			viol(i, "group: the "+where+" is not in the server's CurvePreferences", fmt.Sprintf("%s, client %v, server %v", cname(g), cc, sc))
		}
	}
	if v == V13 {
		h := o.hello()
		if h == nil {
			return
		}
		if !h.HasShare {
			viol(i, "group: TLS 1.3 ServerHello without key_share in a completed handshake", "")
			return
		}
		both(h.Group, "group of the ServerHello key_share")
		if ch := o.lastCH(); ch != nil && !has16(ch.ShareGrps, h.Group) {
			viol(i, "group: the ServerHello key_share group is not a group the client sent a share for", fmt.Sprintf("%s, client shares %v", cname(h.Group), ch.ShareGrps))
		}
		if len(o.Hellos) > 1 && o.Hellos[0].HRR {
			hrr := o.Hellos[0]
			switch {
			case !hrr.HasShare:
				r.hist["group/1.3:hello-retry-request-without-selected_group"]++
			case hrr.Group != h.Group:
				viol(i, "group: the ServerHello key_share group differs from the HelloRetryRequest selected_group", fmt.Sprintf("%s vs %s", cname(h.Group), cname(hrr.Group)))
			case len(o.CHs) > 0 && has16(o.CHs[0].ShareGrps, hrr.Group):
				viol(i, "group: HelloRetryRequest selects a group the first ClientHello already carried a share for (RFC 8446 §4.2.8)", cname(hrr.Group))
			default:
				both(hrr.Group, "HelloRetryRequest selected_group")
				r.hist["group/1.3:after-hello-retry-request:"+cname(h.Group)]++
			}
		} else {
			r.hist["group/1.3:"+cname(h.Group)]++
		}
		return
	}
	if !known || !strings.HasPrefix(si.Kx, "ECDHE") || o.S.Resumed {
		return
	}
	f := o.Flight
	if f == nil || !f.HasSKX || !f.ECDHEOK || f.CurveType != 3 {
		viol(i, "transcript: no parsable named-curve ServerKeyExchange in a completed ECDHE handshake", "")
		return
	}
	both(f.Curve, "named_curve of the ServerKeyExchange")
	r.hist["group/TLS<=1.2:"+cname(f.Curve)]++
}

func names(l []uint16) []string {
	o := make([]string, len(l))
	for i, x := range l {
		o[i] = sname(x)
	}
	return o
}

// checkSentinel: RFC 8446 §4.1.3 on whatever ServerHello the server produced.
func (r *reporter) checkSentinel(c Cfg, i int, o *connObs, viol func(int, string, string)) {
	h := o.hello()
	if h == nil {
		return
	}
	n := h.Version
	got := sentinel(h.Random)
	switch {
	case c.SMax >= V12 && n < c.SMax:
		want := 2
		if n == V12 {
			want = 1
		}
		if got != want {
			viol(i, fmt.Sprintf("downgrade sentinel: missing or wrong in ServerHello.random[24:32] (server max %s, negotiated %s)", vname(c.SMax), vname(n)),
				fmt.Sprintf("random[24:]=%x", h.Random[24:]))
		} else {
			r.hist[fmt.Sprintf("sentinel/present smax=%s neg=%s", vname(c.SMax), vname(n))]++
		}
	case n >= c.SMax:
		if got != 0 {
			viol(i, "downgrade sentinel: present although the server negotiated its maximum version", fmt.Sprintf("server max %s negotiated %s", vname(c.SMax), vname(n)))
		} else {
			r.hist["sentinel/absent-at-server-max"]++
		}
	default:
		r.hist["sentinel/undefined-below-1.2-server(both accepted)"]++
	}
}

// checkDowngrade: the man in the middle hid every version above c.Down.
func (r *reporter) checkDowngrade(c Cfg, p Pred, i int, o *connObs, viol func(int, string, string)) {
	if !o.MitmApplied {
		r.hist["mitm/not-applied"]++
		return
	}
	h := o.hello()
	if h == nil {
		r.hist["mitm/no-server-hello"]++
		return
	}
	if h.Version > c.Down {
		viol(i, "mitm: server negotiated a version the (rewritten) ClientHello did not offer", fmt.Sprintf("offered <= %s, got %s", vname(c.Down), vname(h.Version)))
		return
	}
	continued := false
	for _, t := range o.LaterTypes {
		if t != 21 {
			continued = true
		}
	}
	sentinelDue := c.SMax >= V12 && h.Version < c.SMax
	// "a client supporting the higher version aborts": TLS 1.3 clients MUST check
	// both values; a TLS 1.2 client facing a TLS 1.2 server supports the server's
	// maximum and is covered by the statement (RFC: SHOULD). Other combinations
	// (client max below the server's max) are left open.
	demand := sentinelDue && (c.CMax == V13 || (c.CMax == V12 && c.SMax == V12 && h.Version <= V11))
	switch {
	case demand && (o.C.OK || continued):
		viol(i, fmt.Sprintf("downgrade: client (max %s) did not abort on the downgrade sentinel (server max %s, forced %s)", vname(c.CMax), vname(c.SMax), vname(h.Version)),
			fmt.Sprintf("client wrote records of types %v after its ClientHello", o.LaterTypes))
	case demand:
		r.hist["mitm/client-aborted-on-sentinel"]++
		if o.ClientAlert == 47 {
			r.hist["mitm/client-alert-illegal_parameter"]++
		}
	case o.C.OK && o.S.OK:
		r.hist["mitm/downgrade-completed(outside the statement)"]++
	default:
		r.hist["mitm/no-abort-demanded:failed-later"]++
	}
}
