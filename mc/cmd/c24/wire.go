package main

// Independent (harness-side) parsing of the recorded wire transcript and the
// ClientHello rewriting used by the downgrade man in the middle.

import (
	"bytes"

	"verifmc/internal/tlsx"
)

type serverHello struct {
	LegacyVersion uint16
	Version       uint16 // supported_versions selection if present, else legacy
	Random        []byte
	Suite         uint16
	ALPN          string
	HasALPN       bool
	HRR           bool
	Group         uint16 // key_share: group of the server share (ServerHello) / selected_group (HelloRetryRequest)
	HasShare      bool
}

// RFC 8446 §4.1.3: SHA-256("HelloRetryRequest").
var hrrRandom = []byte{
	0xCF, 0x21, 0xAD, 0x74, 0xE5, 0x9A, 0x61, 0x11, 0xBE, 0x1D, 0x8C, 0x02, 0x1E, 0x65, 0xB8, 0x91,
	0xC2, 0xA2, 0x11, 0x16, 0x7A, 0xBB, 0x8C, 0x5E, 0x07, 0x9E, 0x09, 0xE2, 0xC8, 0xA8, 0x33, 0x9C,
}

type rd struct {
	b  []byte
	ok bool
}

func (r *rd) take(n int) []byte {
	if !r.ok || n < 0 || len(r.b) < n {
		r.ok = false
		return nil
	}
	o := r.b[:n]
	r.b = r.b[n:]
	return o
}
func (r *rd) u8() int {
	b := r.take(1)
	if b == nil {
		return 0
	}
	return int(b[0])
}
func (r *rd) u16() int {
	b := r.take(2)
	if b == nil {
		return 0
	}
	return int(b[0])<<8 | int(b[1])
}
func (r *rd) u24() int {
	b := r.take(3)
	if b == nil {
		return 0
	}
	return int(b[0])<<16 | int(b[1])<<8 | int(b[2])
}

func parseServerHelloBody(body []byte) (*serverHello, bool) {
	r := &rd{b: body, ok: true}
	sh := &serverHello{}
	sh.LegacyVersion = uint16(r.u16())
	sh.Version = sh.LegacyVersion
	sh.Random = append([]byte(nil), r.take(32)...)
	r.take(r.u8()) // session id
	sh.Suite = uint16(r.u16())
	r.u8() // compression
	if !r.ok {
		return nil, false
	}
	if len(r.b) == 0 {
		return sh, true
	}
	ext := &rd{b: r.take(r.u16()), ok: r.ok}
	for ext.ok && len(ext.b) > 0 {
		typ := ext.u16()
		data := ext.take(ext.u16())
		if !ext.ok {
			return nil, false
		}
		switch typ {
		case 43: // supported_versions
			if len(data) == 2 {
				sh.Version = uint16(data[0])<<8 | uint16(data[1])
			}
		case 51: // key_share: KeyShareEntry (ServerHello) or NamedGroup (HelloRetryRequest)
			if len(data) >= 2 {
				sh.Group = uint16(data[0])<<8 | uint16(data[1])
				sh.HasShare = true
			}
		case 16: // ALPN: ProtocolNameList with exactly one name
			d := &rd{b: data, ok: true}
			l := &rd{b: d.take(d.u16()), ok: d.ok}
			name := l.take(l.u8())
			if l.ok {
				sh.ALPN = string(name)
				sh.HasALPN = true
			}
		}
	}
	sh.HRR = bytes.Equal(sh.Random, hrrRandom)
	return sh, true
}

// serverHellos extracts the plaintext ServerHello / HelloRetryRequest messages
// of a recorded server->client stream.
func serverHellos(stream []byte) []*serverHello {
	var out []*serverHello
	recs := tlsx.ParseRecords(stream)
	i := 0
	for i < len(recs) {
		if recs[i].Type == 20 { // a CCS before any ServerHello ends the plaintext phase, after an HRR it is the compatibility CCS
			if len(out) == 1 && out[0].HRR {
				i++
				continue
			}
			break
		}
		if recs[i].Type != 22 {
			break
		}
		r := &rd{b: recs[i].Payload, ok: true}
		stop := false
		for r.ok && len(r.b) > 0 {
			typ := r.u8()
			body := r.take(r.u24())
			if !r.ok {
				stop = true
				break
			}
			if typ == 2 {
				if sh, ok := parseServerHelloBody(body); ok {
					out = append(out, sh)
				}
			}
		}
		if stop {
			break
		}
		// after a genuine ServerHello nothing else is needed
		if n := len(out); n > 0 && !out[n-1].HRR {
			break
		}
		i++
	}
	return out
}

// rewriteClientHello returns the first client write with every offered version
// above `down` removed (supported_versions filtered, legacy_version capped).
// ok=false: the write is not a complete single-record ClientHello.
func rewriteClientHello(w []byte, down uint16) ([]byte, bool) {
	if len(w) < 9 || w[0] != 22 {
		return nil, false
	}
	rl := int(w[3])<<8 | int(w[4])
	if 5+rl != len(w) || w[5] != 1 {
		return nil, false
	}
	hl := int(w[6])<<16 | int(w[7])<<8 | int(w[8])
	if 4+hl != rl {
		return nil, false
	}
	body := w[9:]
	r := &rd{b: body, ok: true}
	legacy := uint16(r.u16())
	random := r.take(32)
	sid := r.take(r.u8())
	suites := r.take(r.u16())
	comp := r.take(r.u8())
	if !r.ok {
		return nil, false
	}
	if legacy > down {
		legacy = down
	}
	var nb []byte
	nb = append(nb, byte(legacy>>8), byte(legacy))
	nb = append(nb, random...)
	nb = append(nb, byte(len(sid)))
	nb = append(nb, sid...)
	nb = append(nb, byte(len(suites)>>8), byte(len(suites)))
	nb = append(nb, suites...)
	nb = append(nb, byte(len(comp)))
	nb = append(nb, comp...)
	if len(r.b) > 0 {
		ext := &rd{b: r.take(r.u16()), ok: r.ok}
		var ne []byte
		for ext.ok && len(ext.b) > 0 {
			typ := ext.u16()
			data := ext.take(ext.u16())
			if !ext.ok {
				return nil, false
			}
			if typ == 43 && len(data) >= 1 {
				var keep []byte
				for j := 1; j+1 < len(data); j += 2 {
					v := uint16(data[j])<<8 | uint16(data[j+1])
					if v <= down {
						keep = append(keep, data[j], data[j+1])
					}
				}
				data = append([]byte{byte(len(keep))}, keep...)
			}
			ne = append(ne, byte(typ>>8), byte(typ), byte(len(data)>>8), byte(len(data)))
			ne = append(ne, data...)
		}
		nb = append(nb, byte(len(ne)>>8), byte(len(ne)))
		nb = append(nb, ne...)
	}
	out := []byte{22, w[1], w[2], 0, 0, 1, byte(len(nb) >> 16), byte(len(nb) >> 8), byte(len(nb))}
	out = append(out, nb...)
	n := len(out) - 5
	out[3], out[4] = byte(n>>8), byte(n)
	return out, true
}

// clientSentAfterHello classifies what the client wrote after its first flight:
// the record types (as recorded before any MITM) of every later record.
func clientLaterRecords(n *tlsx.Net) (types []byte, alertDesc int) {
	alertDesc = -1
	ws := n.Writes(tlsx.C2S)
	if len(ws) <= 1 {
		return nil, -1
	}
	var rest []byte
	for _, w := range ws[1:] {
		rest = append(rest, w...)
	}
	for _, r := range tlsx.ParseRecords(rest) {
		types = append(types, r.Type)
		if r.Type == 21 && len(r.Payload) == 2 && alertDesc < 0 {
			alertDesc = int(r.Payload[1])
		}
	}
	return
}

// ---------------------------------------------------------------------------
// Further transcript facts (certificate presented, key exchange group,
// signature scheme, the client's offer as it went over the wire).

// clientHello is what one ClientHello message offered.
type clientHello struct {
	Suites    []uint16
	Groups    []uint16 // supported_groups (extension 10)
	SigAlgs   []uint16 // signature_algorithms (extension 13)
	ShareGrps []uint16 // groups of the key_share entries (extension 51)
}

func parseClientHelloBody(body []byte) (*clientHello, bool) {
	r := &rd{b: body, ok: true}
	ch := &clientHello{}
	r.u16()
	r.take(32)
	r.take(r.u8())
	cs := &rd{b: r.take(r.u16()), ok: r.ok}
	for cs.ok && len(cs.b) >= 2 {
		ch.Suites = append(ch.Suites, uint16(cs.u16()))
	}
	r.take(r.u8())
	if !r.ok {
		return nil, false
	}
	if len(r.b) == 0 {
		return ch, true
	}
	ext := &rd{b: r.take(r.u16()), ok: r.ok}
	for ext.ok && len(ext.b) > 0 {
		typ := ext.u16()
		data := ext.take(ext.u16())
		if !ext.ok {
			return nil, false
		}
		d := &rd{b: data, ok: true}
		switch typ {
		case 10, 13:
			l := &rd{b: d.take(d.u16()), ok: d.ok}
			for l.ok && len(l.b) >= 2 {
				v := uint16(l.u16())
				if typ == 10 {
					ch.Groups = append(ch.Groups, v)
				} else {
					ch.SigAlgs = append(ch.SigAlgs, v)
				}
			}
		case 51:
			l := &rd{b: d.take(d.u16()), ok: d.ok}
			for l.ok && len(l.b) >= 4 {
				g := uint16(l.u16())
				l.take(l.u16())
				if l.ok {
					ch.ShareGrps = append(ch.ShareGrps, g)
				}
			}
		}
	}
	return ch, true
}

// handshakeMessages splits the plaintext handshake records at the start of a
// stream into messages. It stops at the first record that is not a plaintext
// handshake record; a ChangeCipherSpec is skipped when skipCCS says so (the
// TLS 1.3 middlebox-compatibility CCS) and ends the plaintext phase otherwise.
type hsMsg struct {
	Type byte
	Body []byte
}

func handshakeMessages(stream []byte, skipCCS func(sofar []hsMsg) bool) []hsMsg {
	var out []hsMsg
	var buf []byte
	for _, rec := range tlsx.ParseRecords(stream) {
		if rec.Type == 20 {
			if skipCCS != nil && skipCCS(out) {
				continue
			}
			break
		}
		if rec.Type != 22 {
			break
		}
		buf = append(buf, rec.Payload...)
		for len(buf) >= 4 {
			n := int(buf[1])<<16 | int(buf[2])<<8 | int(buf[3])
			if len(buf) < 4+n {
				break
			}
			out = append(out, hsMsg{buf[0], append([]byte(nil), buf[4:4+n]...)})
			buf = buf[4+n:]
		}
	}
	return out
}

// clientHellos: every plaintext ClientHello of the client->server stream (two
// after a HelloRetryRequest).
func clientHellos(stream []byte) []*clientHello {
	var out []*clientHello
	msgs := handshakeMessages(stream, func(sofar []hsMsg) bool {
		// a TLS 1.3 client sends its compatibility CCS between the two ClientHellos
		return len(sofar) == 1 && sofar[0].Type == 1
	})
	for _, m := range msgs {
		if m.Type != 1 {
			break
		}
		if ch, ok := parseClientHelloBody(m.Body); ok {
			out = append(out, ch)
		}
	}
	return out
}

// serverFlight holds what the plaintext part of the server's first flight shows
// beyond the ServerHello (TLS <= 1.2 only: TLS 1.3 encrypts it).
type serverFlight struct {
	Leaf      []byte // DER of the first certificate of the Certificate message
	HasCert   bool
	HasSKX    bool
	SKX       []byte
	CurveType int
	Curve     uint16 // named_curve of an ECDHE ServerKeyExchange
	SigAlg    uint16 // SignatureAndHashAlgorithm (TLS 1.2), 0 below
	ECDHEOK   bool   // SKX parsed as ECDHE parameters
}

// parseServerFlight parses Certificate and ServerKeyExchange; ecdhe says how to
// read the ServerKeyExchange (the message format depends on the suite), v12
// whether a SignatureAndHashAlgorithm follows the parameters.
func parseServerFlight(stream []byte, ecdhe, v12 bool) *serverFlight {
	f := &serverFlight{}
	for _, m := range handshakeMessages(stream, nil) {
		switch m.Type {
		case 11:
			r := &rd{b: m.Body, ok: true}
			l := &rd{b: r.take(r.u24()), ok: r.ok}
			der := l.take(l.u24())
			if l.ok && !f.HasCert {
				f.Leaf, f.HasCert = append([]byte(nil), der...), true
			}
		case 12:
			f.HasSKX, f.SKX = true, m.Body
			if !ecdhe {
				continue
			}
			r := &rd{b: m.Body, ok: true}
			f.CurveType = r.u8()
			f.Curve = uint16(r.u16())
			r.take(r.u8())
			if v12 {
				f.SigAlg = uint16(r.u16())
			}
			r.take(r.u16()) // signature
			f.ECDHEOK = r.ok && len(r.b) == 0
		}
	}
	return f
}
