package main

// The DEFAULT suite lists as a configuration value (round-3 strengthening).
//
// A nil Config.CipherSuites stands for a list like any other: the package documents it in its source next to the
// suite table ("Ciphersuite order is chosen so that ECDHE comes before plain RSA and AEADs are the top
// preference"; "If AES-GCM hardware is provided then prioritise AES-GCM cipher suites" / "Without AES-GCM
// hardware, we put the ChaCha20-Poly1305 cipher suites first") and documents one adjustment of it ("If the
// client does not seem to have hardware support for AES-GCM, and the application did not specify a cipher suite
// preference order, prefer other AEAD ciphers even if we prioritized AES-GCM ciphers by default": AES-GCM suites
// are moved after the other AEAD suites next to them, nothing else changes place). This file transcribes that
// documentation - it never asks zcrypto for its list - and, as an independent second opinion, lets the GOROOT
// crypto/tls server (which selects by the same documented table, whatever the client's order) answer the very
// same ClientHello.

import (
	"crypto"
	stdtls "crypto/tls"
	"io"
	"net"
	"sync"

	"verifmc/internal/fx"
	"verifmc/internal/tlsx"
)

// defaultOrder12: the documented default list for TLS <= 1.2, most preferred first.
// hw: 1 = this machine has AES-GCM hardware support, 0 = it has not.
func defaultOrder12(hw int) []uint16 {
	gcm := []uint16{0xC02F, 0xC030, 0xC02B, 0xC02C} // ECDHE_RSA_AES128_GCM, ECDHE_RSA_AES256_GCM, ECDHE_ECDSA_AES128_GCM, ECDHE_ECDSA_AES256_GCM
	chacha := []uint16{0xCCA8, 0xCCA9}              // ECDHE_RSA_CHACHA20, ECDHE_ECDSA_CHACHA20
	var top []uint16
	if hw == 1 {
		top = append(append(top, gcm...), chacha...)
	} else {
		top = append(append(top, chacha...), gcm...)
	}
	// the rest of the suite table in its order: ECDHE before plain RSA, AEAD before CBC, 3DES last
	rest := []uint16{
		0xC013, 0xC009, // ECDHE_RSA_AES128_CBC_SHA, ECDHE_ECDSA_AES128_CBC_SHA
		0xC014, 0xC00A, // ECDHE_RSA_AES256_CBC_SHA, ECDHE_ECDSA_AES256_CBC_SHA
		0x009C, 0x009D, // RSA_AES128_GCM, RSA_AES256_GCM
		0x002F, 0x0035, // RSA_AES128_CBC_SHA, RSA_AES256_CBC_SHA
		0xC012, 0x000A, // ECDHE_RSA_3DES, RSA_3DES
	}
	return append(top, rest...)
}

// defaultOrder13: the documented default TLS 1.3 list.
func defaultOrder13(hw int) []uint16 {
	if hw == 1 {
		return []uint16{s13AES128, s13ChaCha, s13AES256}
	}
	return []uint16{s13ChaCha, s13AES128, s13AES256}
}

// gcmRuleClass: is id an "AES-GCM cipher" in the sense of the reordering rule? 1 yes (the ECDHE and TLS 1.3
// AES-GCM suites: the ones that have a ChaCha20 sibling in the top preference group), 0 no, -1 an AES-GCM suite
// with another key exchange (the rule's wording covers it, its table does not: both readings are accepted).
func gcmRuleClass(id uint16) int {
	s, ok := suiteOf(id)
	switch {
	case !ok:
		return -1
	case s.ChaCha || !s.AESGCM:
		return 0
	case s.Kx == "ECDHE_RSA" || s.Kx == "ECDHE_ECDSA" || s.Kx == "TLS13":
		return 1
	}
	return -1
}

func aeadRule(id uint16) bool {
	s, ok := suiteOf(id)
	return ok && (gcmRuleClass(id) == 1 || (s.ChaCha && s.Kx != "DHE_RSA"))
}

// deprioritizeRuns: "rearranging adjacent AEAD ciphers such that AES-GCM based ciphers are moved after other AEAD
// ciphers": within every maximal run of neighbouring AEAD suites the ChaCha20 suites come first, each group in its
// old order; every other suite keeps its place.
func deprioritizeRuns(l []uint16) []uint16 {
	out := append([]uint16(nil), l...)
	for i := 0; i < len(out); {
		j := i
		for j < len(out) && aeadRule(out[j]) {
			j++
		}
		if j == i {
			i++
			continue
		}
		var a, b []uint16
		for _, id := range out[i:j] {
			if gcmRuleClass(id) == 1 {
				b = append(b, id)
			} else {
				a = append(a, id)
			}
		}
		copy(out[i:j], append(a, b...))
		i = j
	}
	return out
}

// firstValidClass: the class of "the first valid cipher in the [client's] preference list" where the check can
// tell (the first id of the ClientHello is a suite of the exported lists), else -1.
func (m *model) firstValidClass(wire []uint16) int {
	if len(wire) > 0 && m.exported[wire[0]] {
		return gcmRuleClass(wire[0])
	}
	return -1
}

// exact12default: the preference rule for TLS <= 1.2 when the preferring side's list is the default one.
// Server preference: the documented default order, AES-GCM moved behind ChaCha20 when the ClientHello does not
// start with an AES-GCM suite. Client preference: the order of the ClientHello as it went over the wire (that
// this order is the documented default one is a check of its own, checkDefaultHello).
func (m *model) exact12default(c Cfg, cands, wire []uint16, hw int) (allowed []uint16, why string) {
	add := func(id uint16) {
		if id != 0 && !has16(allowed, id) {
			allowed = append(allowed, id)
		}
	}
	if c.Prefer {
		if hw == -1 {
			return nil, "server-default-order:aes-hardware-unknown"
		}
		order := defaultOrder12(hw)
		cls := m.firstValidClass(wire)
		if cls != 0 {
			add(firstCommon(order, cands))
		}
		if cls != 1 {
			add(firstCommon(deprioritizeRuns(order), cands))
		}
		return allowed, ""
	}
	gcm, chacha := false, false
	for _, id := range cands {
		s, _ := suiteOf(id)
		gcm = gcm || s.AESGCM
		chacha = chacha || s.ChaCha
	}
	if gcm && chacha && hw != 1 {
		return nil, "aesgcm-vs-chacha-cpu-dependent"
	}
	add(firstCommon(wire, cands))
	return allowed, ""
}

// defaultHelloSuites: what a client with CipherSuites=nil is documented to offer, in order.
func defaultHelloSuites(cmax uint16, hw int) []uint16 {
	var out []uint16
	for _, id := range defaultOrder12(hw) {
		if s, _ := suiteOf(id); s.TLS12Only && cmax < V12 {
			continue // "Don't advertise TLS 1.2-only cipher suites unless we're attempting TLS 1.2"
		}
		out = append(out, id)
	}
	if cmax == V13 {
		out = append(out, defaultOrder13(hw)...)
	}
	return out
}

func eq16(a, b []uint16) bool {
	if len(a) != len(b) {
		return false
	}
	for i := range a {
		if a[i] != b[i] {
			return false
		}
	}
	return true
}

// ---------------------------------------------------------------- GOROOT crypto/tls as a second opinion

var (
	stdSuiteOnce sync.Once
	stdSuiteSet  map[uint16]bool
)

func stdSupports(id uint16) bool {
	stdSuiteOnce.Do(func() {
		stdSuiteSet = map[uint16]bool{}
		for _, s := range stdtls.CipherSuites() {
			stdSuiteSet[s.ID] = true
		}
		for _, s := range stdtls.InsecureCipherSuites() {
			stdSuiteSet[s.ID] = true
		}
	})
	return stdSuiteSet[id]
}

func stdKey(fixture string) crypto.PrivateKey {
	switch keyKind(fixture) {
	case "rsa":
		return fx.StdRSA(fixture)
	case "ecdsa":
		return fx.EC(fixture)
	}
	return fx.Ed(fixture)
}

// stdServerConfig: the GOROOT crypto/tls configuration equivalent to a zcrypto server with CipherSuites=nil
// (the same enabled set given explicitly: crypto/tls orders by its own table whatever the order given).
func stdServerConfig(c Cfg) *stdtls.Config {
	cfg := &stdtls.Config{
		Certificates:           []stdtls.Certificate{{Certificate: [][]byte{tlsx.ServerIdentity(c.Key).Leaf.DER}, PrivateKey: stdKey(c.Key)}},
		MinVersion:             c.SMin,
		MaxVersion:             c.SMax,
		CipherSuites:           defaultOrder12(1),
		SessionTicketsDisabled: true,
		Time:                   tlsx.Now,
		Rand:                   tlsx.NewDetRand("c24-goroot-" + c.key()),
	}
	for _, g := range curvesOf(c.SCurves) {
		cfg.CurvePreferences = append(cfg.CurvePreferences, stdtls.CurveID(g))
	}
	return cfg
}

// stdAnswer hands the recorded first flight of the zcrypto client to a GOROOT crypto/tls server and returns the
// ServerHello it answers with (nil: it refused). Purely structural: the reader stops at the ServerHello, an alert
// or the end of the stream, then closes the connection, which ends the server's handshake.
func stdAnswer(chRaw []byte, cfg *stdtls.Config) *serverHello {
	cEnd, sEnd := net.Pipe()
	var wg sync.WaitGroup
	wg.Add(2)
	go func() {
		defer wg.Done()
		srv := stdtls.Server(sEnd, cfg)
		srv.Handshake()
		sEnd.Close()
	}()
	go func() {
		defer wg.Done()
		cEnd.Write(chRaw)
	}()
	var stream []byte
	var sh *serverHello
	hdr := make([]byte, 5)
	for sh == nil {
		if _, err := io.ReadFull(cEnd, hdr); err != nil {
			break
		}
		body := make([]byte, int(hdr[3])<<8|int(hdr[4]))
		if _, err := io.ReadFull(cEnd, body); err != nil {
			break
		}
		if hdr[0] != 22 {
			break
		}
		stream = append(append(stream, hdr...), body...)
		if hs := serverHellos(stream); len(hs) > 0 {
			sh = hs[0]
		}
	}
	cEnd.Close()
	wg.Wait()
	return sh
}

// ---------------------------------------------------------------- enumeration (part 9)

func rotate(l []uint16, k int) []uint16 {
	return append(append([]uint16(nil), l[k:]...), l[:k]...)
}

func reversed(l []uint16) []uint16 {
	o := make([]uint16, len(l))
	for i, x := range l {
		o[len(l)-1-i] = x
	}
	return o
}

// part9 enumerates the default lists as a configuration value: client lists {nil, every rotation of the 16 default
// suites and of their reversal (every suite - AES-GCM, ChaCha20, CBC, 3DES - is the client's first choice once in
// either direction), the 22 suites of the suite table forwards and backwards, three short lists starting with
// ChaCha20 / CBC / AES-GCM} x server lists {nil, the 16 suites given explicitly, reversed, starting with
// ChaCha20} x PreferServerCipherSuites x key kinds x {TLS 1.2, TLS 1.1 (1.2-only suites drop out), TLS 1.3}.
func (g *gen) part9() {
	long := defaultOrder12(1)
	all := append(append([]uint16(nil), long...), 0xC027, 0xC023, 0x003C, 0x0005, 0xC011, 0xC007)
	clients := [][]uint16{nil}
	for k := range long {
		clients = append(clients, rotate(long, k), rotate(reversed(long), k))
	}
	clients = append(clients, all, reversed(all),
		[]uint16{0xCCA8, 0xCCA9, sERSAGCM, sEECGCM, sERSACBC, sEECCBC},
		[]uint16{sERSACBC, sEECCBC, sERSAGCM, sEECGCM, 0xCCA8, 0xCCA9},
		[]uint16{sERSAGCM, sEECGCM, sERSACBC, sEECCBC, 0xCCA8, 0xCCA9})
	servers := [][]uint16{nil, long, reversed(long), rotate(long, 4)}
	type vs struct{ cmax, smax uint16 }
	for _, v := range []vs{{V12, V12}, {V11, V13}, {V13, V13}} {
		for _, cl := range clients {
			for _, sl := range servers {
				for _, pf := range []bool{false, true} {
					for _, k := range keys {
						g.add("9:default and long (>=13) suite lists x rotations x prefer x key x version",
							Cfg{CMin: V10, CMax: v.cmax, SMin: V10, SMax: v.smax, Key: k, CS: cl, SS: sl, Prefer: pf})
					}
				}
			}
		}
	}
}
