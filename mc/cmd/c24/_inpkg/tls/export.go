package tls

// Thin accessors for check C24 (compiled into package tls through go build
// -overlay; never part of /repo). No logic: they only expose the ids held in
// the unexported suite tables and one CPU feature flag.

// VerifC24SuiteIDs returns the ids of cipherSuites (what a client may offer
// without ForceSuites), implementedCipherSuites (what cipherSuiteByID finds)
// and cipherSuitesTLS13, in table order (duplicates kept).
func VerifC24SuiteIDs() (std, impl, t13 []uint16) {
	for _, s := range cipherSuites {
		std = append(std, s.id)
	}
	for _, s := range implementedCipherSuites {
		impl = append(impl, s.id)
	}
	for _, s := range cipherSuitesTLS13 {
		t13 = append(t13, s.id)
	}
	return
}

// VerifC24HasAESGCMHardwareSupport exposes hasAESGCMHardwareSupport (evidence only).
func VerifC24HasAESGCMHardwareSupport() bool { return hasAESGCMHardwareSupport }
