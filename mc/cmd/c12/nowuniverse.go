package main

// A universe whose validity windows are relative to the wall clock: the only way
// to exercise the documented default "a zero VerifyTime means now". Every
// boundary is at least two hours away from the instant the universe was created,
// so "now" is on the same side of every boundary during the whole run whatever
// the load of the machine (the run is abandoned, not judged, if it ever lasted
// an hour).

import (
	"crypto/sha256"
	"encoding/binary"
	"encoding/hex"
	"fmt"
	"time"

	"github.com/zmap/zcrypto/verifier"
	"github.com/zmap/zcrypto/x509"
	"verifmc/cmd/c11/pki"
	"verifmc/internal/fx"
)

// certSource is what the oracle needs from a universe (*pki.Universe is one).
type certSource interface {
	FPOf(x *x509.Certificate) string
	ByPtr(x *x509.Certificate) *pki.Cert
	SPKIHash(n pki.Node) string
	Cert(d pki.CertDesc) *pki.Cert
	Build(s *pki.Spec, reverse bool) *pki.Built
}

var nowWindowNames = []string{"valid now [now-48h, now+48h]", "expired [now-48h, now-2h]", "not yet valid [now+2h, now+48h]"}

// nowWindows: index 0 valid now, 1 expired, 2 not yet valid.
func nowWindows(now0 time.Time) []pki.Window {
	return []pki.Window{
		{NotBefore: now0.Add(-48 * time.Hour), NotAfter: now0.Add(48 * time.Hour)},
		{NotBefore: now0.Add(-48 * time.Hour), NotAfter: now0.Add(-2 * time.Hour)},
		{NotBefore: now0.Add(2 * time.Hour), NotAfter: now0.Add(48 * time.Hour)},
	}
}

func hexSHA(parts ...[]byte) string {
	h := sha256.New()
	for _, p := range parts {
		h.Write(p)
	}
	return hex.EncodeToString(h.Sum(nil))
}

// nowUniverse mints the certificates of a description with the windows above
// (same conventions as pki.Universe: Ed25519 keys by name, an identity
// certificate per node as signing parent, SANs on non-CA certificates). Not
// safe for concurrent use: one per worker.
type nowUniverse struct {
	wins  []pki.Window
	ident map[string]*fx.Cert
	certs map[pki.CertDesc]*pki.Cert
	byPtr map[*x509.Certificate]*pki.Cert
	byFP  map[string]*pki.Cert
}

func newNowUniverse(wins []pki.Window) *nowUniverse {
	return &nowUniverse{wins: wins, ident: map[string]*fx.Cert{}, certs: map[pki.CertDesc]*pki.Cert{}, byPtr: map[*x509.Certificate]*pki.Cert{}, byFP: map[string]*pki.Cert{}}
}

func (u *nowUniverse) identity(n pki.Node) *fx.Cert {
	k := n.Subject + "|" + n.Key
	if c, ok := u.ident[k]; ok {
		return c
	}
	c := fx.MustMint(fx.CertSpec{CN: n.Subject, Key: n.Key, IsCA: true, Serial: 1, NotBefore: u.wins[0].NotBefore, NotAfter: u.wins[0].NotAfter}, nil)
	u.ident[k] = c
	return c
}

func (u *nowUniverse) FPOf(x *x509.Certificate) string {
	if x == nil {
		return "nil"
	}
	if c, ok := u.byPtr[x]; ok {
		return c.FP
	}
	return hexSHA(x.Raw)
}
func (u *nowUniverse) ByPtr(x *x509.Certificate) *pki.Cert { return u.byPtr[x] }
func (u *nowUniverse) nodeID(n pki.Node) string {
	id := u.identity(n)
	return hexSHA(id.X.RawSubjectPublicKeyInfo, id.X.RawSubject)
}
func (u *nowUniverse) SPKIHash(n pki.Node) string {
	return hexSHA(u.identity(n).X.RawSubjectPublicKeyInfo)
}

func (u *nowUniverse) Cert(d pki.CertDesc) *pki.Cert {
	if c, ok := u.certs[d]; ok {
		return c
	}
	if d.Win < 0 || d.Win >= len(u.wins) {
		panic(fmt.Sprintf("c12: no now-window %d", d.Win))
	}
	h := sha256.Sum256([]byte(fmt.Sprintf("%+v", d)))
	serial := int64(binary.BigEndian.Uint32(h[:4])) + 2
	var dns []string
	if !d.To.CA {
		s := pki.Slug(d.To.Subject)
		dns = []string{s + ".example", "*.w." + s + ".example"}
	}
	w := u.wins[d.Win]
	spec := fx.CertSpec{CN: d.To.Subject, Key: d.To.Key, Serial: serial, IsCA: d.To.CA, DNS: dns, NotBefore: w.NotBefore, NotAfter: w.NotAfter}
	if d.To.CA && d.To.PathLen >= 0 {
		spec.PathLenP1 = d.To.PathLen + 1
	}
	parent := u.identity(d.From)
	m := fx.MustMint(spec, parent)
	c := &pki.Cert{Desc: d, X: m.X, DER: m.DER, FP: hexSHA(m.DER), Serial: serial, DNS: dns,
		ChildID:  hexSHA(m.X.RawSubjectPublicKeyInfo, m.X.RawSubject),
		IssuerID: u.nodeID(d.From),
		SPKIHash: hexSHA(m.X.RawSubjectPublicKeyInfo)}
	if !m.X.NotBefore.Equal(w.NotBefore) || !m.X.NotAfter.Equal(w.NotAfter) {
		panic("c12: minted certificate does not carry the window of its description: " + d.Short())
	}
	if c.ChildID != u.nodeID(d.To) || string(m.X.RawIssuer) != string(parent.X.RawSubject) {
		panic("c12: minted certificate does not carry the described names and key: " + d.Short())
	}
	if _, dup := u.byFP[c.FP]; dup {
		panic("c12: two descriptions mint the same certificate: " + d.Short())
	}
	u.byFP[c.FP] = c
	u.byPtr[c.X] = c
	u.certs[d] = c
	return c
}

func (u *nowUniverse) Build(s *pki.Spec, reverse bool) *pki.Built {
	b := &pki.Built{Spec: s, G: verifier.NewGraph(), Certs: make([]*pki.Cert, len(s.Edges)), IDs: make([]string, len(s.Nodes))}
	for i, n := range s.Nodes {
		b.IDs[i] = u.nodeID(n)
	}
	for i, e := range s.Edges {
		b.Certs[i] = u.Cert(s.Desc(e))
	}
	for k := range s.Edges {
		i := k
		if reverse {
			i = len(s.Edges) - 1 - k
		}
		if s.Edges[i].Root {
			b.G.AddRoot(b.Certs[i].X)
		} else {
			b.G.AddCert(b.Certs[i].X)
		}
	}
	return b
}

// allWindowAssignments lists every assignment of nWin windows to the edges of s.
func allWindowAssignments(s *pki.Spec, nWin int) []*pki.Spec {
	var out []*pki.Spec
	m := len(s.Edges)
	cur := make([]int, m)
	for {
		cp := *s
		cp.Edges = append([]pki.Edge(nil), s.Edges...)
		tag := ""
		for i, w := range cur {
			cp.Edges[i].Win = w
			tag += fmt.Sprint(w)
		}
		cp.Name = s.Name + " now-windows[" + tag + "]"
		out = append(out, &cp)
		i := 0
		for ; i < m; i++ {
			cur[i]++
			if cur[i] < nWin {
				break
			}
			cur[i] = 0
		}
		if i == m {
			return out
		}
	}
}
