// C12 — verifier results are a consistent view of the walked chains.
//
// Engine E2 over graph states: small PKI graphs (the hand-listed shapes of C11
// with validity windows drawn from four windows) x every certificate of the
// universe (in or out of the graph) x verification times around every validity
// boundary x names x OneCRL contents x CRLSet contents. Every field of the
// VerificationResult named by the property statement is recomputed from
// Graph.WalkChains (trusted here; its own correctness is C11) by a reference
// written from the statement and from the documentation of VerificationResult.
package main

import (
	"crypto/sha256"
	"encoding/base64"
	"encoding/hex"
	"encoding/json"
	"fmt"
	"math/big"
	"sort"
	"strings"
	"sync/atomic"
	"time"

	"github.com/zmap/zcrypto/verifier"
	"github.com/zmap/zcrypto/x509"
	"github.com/zmap/zcrypto/x509/revocation/google"
	"github.com/zmap/zcrypto/x509/revocation/mozilla"
	"verifmc/cmd/c11/pki"
	"verifmc/internal/ev"
)

// ---------------------------------------------------------------------------
// Reference: dates
// ---------------------------------------------------------------------------

const (
	clsCurrent = 1 << iota
	clsExpired
	clsNever
)

var listNames = [3]string{"CurrentChains", "ExpiredChains", "NeverValidChains"}

// classify returns the set of lists a chain with the common validity window
// [lower, upper] may be in at time t. The statement ("valid at the time" / "valid
// at some point" / "never valid") does not fix what happens exactly ON a
// boundary instant, so both neighbours are accepted there.
func classify(lower, upper, t time.Time) (allowed int, relation int) {
	switch {
	case lower.After(upper):
		return clsNever, 0
	case lower.Equal(upper):
		if t.Equal(lower) {
			return clsCurrent | clsExpired | clsNever, 1
		}
		return clsExpired | clsNever, 2
	case t.After(lower) && t.Before(upper):
		return clsCurrent, 3
	case t.Equal(lower):
		return clsCurrent | clsExpired, 4
	case t.Equal(upper):
		return clsCurrent | clsExpired, 5
	case t.Before(lower):
		return clsExpired, 6
	default:
		return clsExpired, 7
	}
}

var relNames = [8]string{"is empty (no instant at which all certificates are valid)", "is a single instant, the verification time",
	"is a single instant (touching validity periods), not the verification time", "contains the verification time",
	"begins exactly at the verification time", "ends exactly at the verification time", "begins after the verification time", "ended before the verification time"}

// histogram keys of the hot path, built once
var chainInKeys [3][8]string
var typeKeys = map[x509.CertificateType]string{}

// windowsSeparateExpiry: some window begins exactly 2 s before window 0 ends (c11/pki: W2). A parent in that window is
// valid at NotAfter-1 s of a window-0 child and NOT valid (its window begins exactly then) at NotAfter-2 s nor earlier:
// this is what separates "valid one second before the certificate's expiry" from every earlier instant.
func windowsSeparateExpiry() bool {
	want := pki.Windows[0].NotAfter.Add(-2 * time.Second)
	for _, w := range pki.Windows {
		if w.NotBefore.Equal(want) && w.NotAfter.After(pki.Windows[0].NotAfter) {
			return true
		}
	}
	return false
}

func init() {
	for li := range listNames {
		for r := range relNames {
			chainInKeys[li][r] = "chain in " + listNames[li] + ": window " + relNames[r]
		}
	}
	for _, t := range []x509.CertificateType{x509.CertificateTypeUnknown, x509.CertificateTypeLeaf, x509.CertificateTypeIntermediate, x509.CertificateTypeRoot} {
		typeKeys[t] = "type " + typeName(t)
	}
}

func clsString(a int) string {
	var l []string
	for i, n := range listNames {
		if a&(1<<uint(i)) != 0 {
			l = append(l, n)
		}
	}
	return strings.Join(l, " or ")
}

// ---------------------------------------------------------------------------
// Reference: host names (independent matcher for well-formed names)
// ---------------------------------------------------------------------------

func asciiLower(s string) string {
	b := []byte(s)
	for i, ch := range b {
		if ch >= 'A' && ch <= 'Z' {
			b[i] = ch + 'a' - 'A'
		}
	}
	return string(b)
}

func nameMatches(pattern, host string) bool {
	p := strings.Split(strings.TrimSuffix(asciiLower(pattern), "."), ".")
	h := strings.Split(strings.TrimSuffix(asciiLower(host), "."), ".")
	if len(p) != len(h) {
		return false
	}
	for i := range p {
		if p[i] == "" || h[i] == "" {
			return false
		}
		if p[i] != "*" && p[i] != h[i] {
			return false
		}
	}
	return true
}

// hostAccepted: DNS SANs when the certificate has a SAN extension, the common
// name only when it has none. (All names used here are well-formed DNS-style
// names, never IP literals.)
func hostAccepted(c *pki.Cert, host string) bool {
	if len(c.DNS) > 0 {
		for _, d := range c.DNS {
			if nameMatches(d, host) {
				return true
			}
		}
		return false
	}
	return nameMatches(c.Desc.To.Subject, host)
}

// namesFor lists the names a certificate is verified against.
func namesFor(c *pki.Cert) []string {
	if len(c.DNS) > 0 {
		s := pki.Slug(c.Desc.To.Subject)
		return []string{"", s + ".example", "Q.W." + strings.ToUpper(s) + ".example.", "other.example", "a.b.w." + s + ".example", c.Desc.To.Subject}
	}
	cn := c.Desc.To.Subject
	return []string{"", cn, strings.ToUpper(cn) + ".", "other.example", "x." + cn}
}

// ---------------------------------------------------------------------------
// Revocation sets
// ---------------------------------------------------------------------------

var ghost = pki.Node{Subject: "c12 absent issuer", Key: "c12-absent", CA: true, PathLen: -1}           // issues the leaf whose issuer is unknown
var unrelated = pki.Node{Subject: "c12 unrelated issuer", Key: "c12-unrelated", CA: true, PathLen: -1} // issues nothing that is verified: the "other" issuer / key of the revocation sets
var freshLeaf = pki.Node{Subject: "c12 fresh leaf", Key: "c12-fresh", CA: false, PathLen: -1}

const siblingVariant = 7

var oneCRLKinds = []string{"nil", "lists the certificate (issuer name + serial)", "same issuer, other serial", "other issuer, same serial",
	"blocks the certificate's subject + key hash", "blocks the subject with another key hash", "empty",
	"blocks another subject with the certificate's key hash"}
var crlSetKinds = []string{"nil", "lists (issuer SPKI hash, serial)", "issuer SPKI hash, other serial", "issuer SPKI hash blocked", "other SPKI hash listed with the serial and blocked", "empty",
	"issuer SPKI hash blocked, base64 form (as google.Parse leaves the header entries)"}

func sha(b []byte) []byte { s := sha256.Sum256(b); return s[:] }

// mkOneCRL builds the OneCRL value directly in the form mozilla.Parse produces.
func mkOneCRL(kind int, c *pki.Cert, other *pki.Cert) *mozilla.OneCRL {
	if kind == 0 {
		return nil
	}
	o := &mozilla.OneCRL{IssuerLists: map[string]*mozilla.IssuerList{}, Blocked: []*mozilla.SubjectAndPublicKey{}}
	list := func(x *x509.Certificate, serial int64) {
		iss := x.Issuer
		e := &mozilla.Entry{Enabled: true, Issuer: &iss, SerialNumber: big.NewInt(serial)}
		k := iss.String()
		if o.IssuerLists[k] == nil {
			o.IssuerLists[k] = &mozilla.IssuerList{Issuer: &iss}
		}
		o.IssuerLists[k].Entries = append(o.IssuerLists[k].Entries, e)
	}
	switch kind {
	case 1:
		list(c.X, c.Serial+1)
		list(c.X, c.Serial)
	case 2:
		list(c.X, c.Serial+1)
	case 3:
		list(other.X, c.Serial)
	case 4:
		o.Blocked = append(o.Blocked, &mozilla.SubjectAndPublicKey{RawSubject: other.X.RawSubject, PubKeyHash: sha(c.X.RawSubjectPublicKeyInfo)},
			&mozilla.SubjectAndPublicKey{RawSubject: c.X.RawSubject, PubKeyHash: sha(c.X.RawSubjectPublicKeyInfo)})
	case 5:
		o.Blocked = append(o.Blocked, &mozilla.SubjectAndPublicKey{RawSubject: c.X.RawSubject, PubKeyHash: sha(other.X.RawSubjectPublicKeyInfo)})
	case 7:
		// the key hash alone must not be enough: a Blocked record names a (subject, key) pair
		o.Blocked = append(o.Blocked, &mozilla.SubjectAndPublicKey{RawSubject: other.X.RawSubject, PubKeyHash: sha(c.X.RawSubjectPublicKeyInfo)})
	}
	return o
}

// oneCRLLists: the reference — the set lists the certificate by (issuer name,
// serial) or blocks its (subject, SHA-256 of its SubjectPublicKeyInfo).
func oneCRLLists(kind int) bool { return kind == 1 || kind == 4 }

// mkCRLSet builds the CRLSet in the form Check consumes (hex SPKI hashes, as
// verifier.go passes them).
func mkCRLSet(kind int, c *pki.Cert, issuerSPKI, otherSPKI string) *google.CRLSet {
	if kind == 0 {
		return nil
	}
	s := &google.CRLSet{Version: "c12", IssuerLists: map[string]*google.IssuerList{}}
	list := func(spki string, serials ...int64) {
		il := &google.IssuerList{SPKIHash: spki}
		for _, n := range serials {
			il.Entries = append(il.Entries, &google.Entry{SerialNumber: big.NewInt(n)})
		}
		s.IssuerLists[spki] = il
	}
	switch kind {
	case 1:
		list(issuerSPKI, c.Serial+1, c.Serial)
	case 2:
		list(issuerSPKI, c.Serial+1)
	case 3:
		s.BlockedSPKIs = []string{otherSPKI, issuerSPKI}
	case 4:
		list(otherSPKI, c.Serial)
		s.BlockedSPKIs = []string{otherSPKI}
	case 6:
		raw, err := hex.DecodeString(issuerSPKI)
		if err != nil {
			panic(err)
		}
		s.BlockedSPKIs = []string{base64.StdEncoding.EncodeToString(raw)}
	}
	s.NumParents = len(s.IssuerLists)
	return s
}

// crlSetLists: the reference, evaluated against one parent SPKI hash.
func crlSetLists(kind int, parentSPKI, issuerSPKI string) bool {
	return (kind == 1 || kind == 3 || kind == 6) && parentSPKI == issuerSPKI
}

// ---------------------------------------------------------------------------
// One verification
// ---------------------------------------------------------------------------

type chainRef struct {
	fps          []string
	lower, upper time.Time
	second       *x509.Certificate
}

type caseT struct {
	u       certSource
	wins    []pki.Window // the validity windows CertDesc.Win indexes
	nowU    bool         // the universe with windows relative to the wall clock
	b       *pki.Built
	cert    *pki.Cert
	inGraph bool
	isRoot  bool
	walked  map[string]*chainRef
	other   *pki.Cert
	oneCRLs []*mozilla.OneCRL
	crlSets []*google.CRLSet
	issSPKI string
	// some walked chain (of any date class) has a second certificate whose key is the key this certificate was issued under
	secondWithIssuerKey bool
}

// prepare builds the revocation sets of this certificate once.
func (k *caseT) prepare() {
	k.issSPKI = k.u.SPKIHash(k.cert.Desc.From)
	otherSPKI := k.u.SPKIHash(unrelated)
	for i := range oneCRLKinds {
		k.oneCRLs = append(k.oneCRLs, mkOneCRL(i, k.cert, k.other))
	}
	for i := range crlSetKinds {
		k.crlSets = append(k.crlSets, mkCRLSet(i, k.cert, k.issSPKI, otherSPKI))
	}
}

type witness struct {
	Spec     *pki.Spec    `json:"spec"`
	Graph    []string     `json:"graph"`
	Cert     pki.CertDesc `json:"certificate"`
	InGraph  bool         `json:"certificate_in_graph"`
	NowU     bool         `json:"windows_relative_to_now,omitempty"`
	Default  bool         `json:"verify_time_left_zero,omitempty"`
	Time     time.Time    `json:"verify_time"`
	TimeNote string       `json:"verify_time_note,omitempty"`
	Name     string       `json:"name"`
	OneCRL   int          `json:"onecrl_kind"`
	CRLSet   int          `json:"crlset_kind"`
	OneCRLs  string       `json:"onecrl"`
	CRLSets  string       `json:"crlset"`
	Detail   string       `json:"detail"`
	Result   any          `json:"result,omitempty"`
}

func (k *caseT) chainKey(ch x509.CertificateChain) string {
	var b strings.Builder
	for i, c := range ch {
		if i > 0 {
			b.WriteByte(',')
		}
		b.WriteString(k.u.FPOf(c))
	}
	return b.String()
}

func (k *caseT) chainNames(ch x509.CertificateChain) []string {
	var out []string
	for _, c := range ch {
		if pc := k.u.ByPtr(c); pc != nil {
			out = append(out, pc.Desc.Short())
		} else {
			out = append(out, "?")
		}
	}
	return out
}

func secondsOf(u certSource, chains []x509.CertificateChain, keep func(*x509.Certificate) bool) map[string]bool {
	out := map[string]bool{}
	for _, ch := range chains {
		if len(ch) >= 2 && (keep == nil || keep(ch[1])) {
			out[u.FPOf(ch[1])] = true
		}
	}
	return out
}

func sameKeys(a, b map[string]bool) bool {
	if len(a) != len(b) {
		return false
	}
	for k := range a {
		if !b[k] {
			return false
		}
	}
	return true
}

type resultDump struct {
	Current, Expired, Never, ValidAtExpiration [][]string
	Parents                                    []string
	Name                                       string
	ResultVerifyTime                           string
	ExpiredFlag                                bool
	Type                                       string
	NameError                                  string
	InRevocationSet                            bool
}

func (k *caseT) dump(res *verifier.VerificationResult) resultDump {
	d := resultDump{ExpiredFlag: res.Expired, InRevocationSet: res.InRevocationSet, Name: res.Name}
	if !res.VerifyTime.IsZero() {
		d.ResultVerifyTime = res.VerifyTime.UTC().Format(time.RFC3339Nano)
	}
	for _, ch := range res.CurrentChains {
		d.Current = append(d.Current, k.chainNames(ch))
	}
	for _, ch := range res.ExpiredChains {
		d.Expired = append(d.Expired, k.chainNames(ch))
	}
	for _, ch := range res.NeverValidChains {
		d.Never = append(d.Never, k.chainNames(ch))
	}
	for _, ch := range res.ValidAtExpirationChains {
		d.ValidAtExpiration = append(d.ValidAtExpiration, k.chainNames(ch))
	}
	d.Parents = k.chainNames(res.Parents)
	tb, _ := res.CertificateType.MarshalJSON()
	d.Type = string(tb)
	if res.NameError != nil {
		d.NameError = res.NameError.Error()
	}
	return d
}

func typeFor(isRoot, isCA, hasParents bool) x509.CertificateType {
	switch {
	case isRoot:
		return x509.CertificateTypeRoot
	case isCA && hasParents:
		return x509.CertificateTypeIntermediate
	case hasParents:
		return x509.CertificateTypeLeaf
	}
	return x509.CertificateTypeUnknown
}

func typeName(t x509.CertificateType) string {
	b, _ := t.MarshalJSON()
	return strings.Trim(string(b), `"`)
}

const defaultPrefix = "VerifyTime left zero (documented default: now): "

// verifyOne runs Verify once and checks every field the statement names. With
// deflt the options carry a zero VerifyTime and the reference time is the wall
// clock sampled right before the call (only used with the universe whose
// boundaries are hours away from now).
//
// Every failed expectation is recorded in *sigs (when sigs is not nil); a
// default-time call does not report what the explicit-time call of the same
// configuration already reported (already): such a defect is not one of the default.
func (k *caseT) verifyOne(c *ev.Ctx, h ev.Hist, t time.Time, tnote, name string, ok, ck int, report, deflt bool, sigs *[]string, already []string) (res *verifier.VerificationResult) {
	cert := k.cert
	issuerSPKI := k.issSPKI
	opts := verifier.VerificationOptions{VerifyTime: t, Name: name, OneCRL: k.oneCRLs[ok], CRLSet: k.crlSets[ck]}
	if deflt {
		opts.VerifyTime = time.Time{}
		t = time.Now()
	}
	v := verifier.NewVerifier(k.b.G, nil)
	panicked, msg, site := ev.Try(func() { res = v.Verify(cert.X, opts) })
	c.Transitions.Add(1)
	mkW := func(detail string) witness {
		w := witness{Spec: k.b.Spec, Graph: k.b.Spec.Describe(), Cert: cert.Desc, InGraph: k.inGraph, NowU: k.nowU, Default: deflt, Time: t, TimeNote: tnote, Name: name,
			OneCRL: ok, CRLSet: ck, OneCRLs: oneCRLKinds[ok], CRLSets: crlSetKinds[ck], Detail: detail}
		if res != nil {
			w.Result = k.dump(res)
		}
		return w
	}
	bad := false
	viol := func(sig, detail string) {
		bad = true
		if sigs != nil {
			*sigs = append(*sigs, sig)
		}
		if deflt {
			for _, a := range already {
				if a == sig {
					return
				}
			}
			sig = defaultPrefix + sig
		}
		if report {
			c.Violation(sig, mkW(detail))
		}
	}
	if panicked {
		viol("Verify panics: panic@"+site+": "+ev.MsgClass(msg), msg)
		return nil
	}
	if res == nil {
		viol("Verify returns nil", "")
		return nil
	}

	// --- the three lists partition the walked chains, each chain in a list its window allows
	count := map[string]int{}
	for li, list := range [3][]x509.CertificateChain{res.CurrentChains, res.ExpiredChains, res.NeverValidChains} {
		for _, ch := range list {
			key := k.chainKey(ch)
			ref, known := k.walked[key]
			if !known {
				viol(listNames[li]+" holds a chain that WalkChains does not return", strings.Join(k.chainNames(ch), " "))
				continue
			}
			count[key]++
			if allowed, rel := classify(ref.lower, ref.upper, t); allowed&(1<<uint(li)) == 0 {
				viol(fmt.Sprintf("date partition: a chain whose common validity window %s is in %s (expected %s)", relNames[rel], listNames[li], clsString(allowed)), strings.Join(k.chainNames(ch), " "))
			} else {
				h[chainInKeys[li][rel]]++
			}
		}
	}
	for key := range k.walked {
		switch n := count[key]; {
		case n == 0:
			viol("a chain that WalkChains returns is in none of the three date lists", key)
		case n > 1:
			viol("a chain that WalkChains returns appears more than once in the three date lists", key)
		}
	}

	// --- valid-at-expiration chains: those valid one second before the certificate's NotAfter
	win := k.wins[cert.Desc.Win]
	tExp := win.NotAfter.Add(-time.Second)
	vae := map[string]bool{}
	for _, ch := range res.ValidAtExpirationChains {
		key := k.chainKey(ch)
		ref, known := k.walked[key]
		if !known {
			viol("ValidAtExpirationChains holds a chain that WalkChains does not return", strings.Join(k.chainNames(ch), " "))
			continue
		}
		if vae[key] {
			viol("ValidAtExpirationChains holds one chain twice", strings.Join(k.chainNames(ch), " "))
		}
		vae[key] = true
		if allowed, rel := classify(ref.lower, ref.upper, tExp); allowed&clsCurrent == 0 {
			viol("ValidAtExpirationChains holds a chain that is not valid one second before the certificate's NotAfter (its window "+strings.Replace(relNames[rel], "the verification time", "that instant", 1)+")", strings.Join(k.chainNames(ch), " "))
		}
	}
	for key, ref := range k.walked {
		if allowed, _ := classify(ref.lower, ref.upper, tExp); allowed == clsCurrent && !vae[key] {
			viol("ValidAtExpirationChains lacks a chain that is valid one second before the certificate's NotAfter", key)
		}
	}
	if len(res.ValidAtExpirationChains) > 0 {
		h["valid-at-expiration chains: some"]++
	} else {
		h["valid-at-expiration chains: none"]++
	}

	// --- Expired: "false if NotBefore < VerifyTime < NotAfter" (VerificationResult.Expired; x509.TimeInValidityPeriod:
	// "returns true if NotBefore < t < NotAfter"; DESIGN: Expired <=> not (NotBefore < t < NotAfter)). Both comparisons are
	// strict in the documentation and in the code, so ON NotBefore and ON NotAfter the certificate is not inside: Expired.
	inside := t.After(win.NotBefore) && t.Before(win.NotAfter)
	boundary := t.Equal(win.NotBefore) || t.Equal(win.NotAfter)
	switch {
	case inside && res.Expired:
		viol("Expired is true although NotBefore < VerifyTime < NotAfter", "")
	case boundary && !res.Expired:
		if t.Equal(win.NotBefore) {
			viol("Expired is false although VerifyTime is exactly NotBefore (documented: false only if NotBefore < VerifyTime < NotAfter)", "")
		} else {
			viol("Expired is false although VerifyTime is exactly NotAfter (documented: false only if NotBefore < VerifyTime < NotAfter)", "")
		}
	case !inside && !res.Expired:
		if t.Before(win.NotBefore) {
			viol("Expired is false although VerifyTime is before NotBefore", "")
		} else {
			viol("Expired is false although VerifyTime is after NotAfter", "")
		}
	case boundary:
		h["Expired = true exactly on NotBefore / NotAfter"]++
		// one consistent view: the certificate is the first element of every chain, so a result that calls the
		// certificate itself outside its validity (Expired, strict) cannot list a chain as valid at the same instant
		if res.Expired && len(res.CurrentChains) > 0 {
			viol("Expired is true (VerifyTime exactly on NotBefore/NotAfter) and yet CurrentChains is not empty: the two date tests disagree on the boundary instant", "")
		}
	case res.Expired:
		h["Expired = true"]++
	default:
		h["Expired = false"]++
	}

	// --- Parents: distinct second certificates of the relevant chains. Readings accepted:
	//   R1 (code comment "parents at the time of expiration for expired certs", DESIGN): ValidAtExpiration chains if
	//      Expired, else Current chains;
	//   R3 (field doc "part of a chain that is valid at the time the certificate ... expires"): ValidAtExpiration chains;
	//   R2 (field doc, whole sentence, "currently valid certificates that ..."): R3 restricted to parents valid at VerifyTime.
	got := map[string]bool{}
	for _, p := range res.Parents {
		fp := k.u.FPOf(p)
		if got[fp] {
			viol("Parents holds one certificate twice", fp)
		}
		got[fp] = true
	}
	r1 := secondsOf(k.u, res.CurrentChains, nil)
	if res.Expired {
		r1 = secondsOf(k.u, res.ValidAtExpirationChains, nil)
	}
	r3 := secondsOf(k.u, res.ValidAtExpirationChains, nil)
	r2 := secondsOf(k.u, res.ValidAtExpirationChains, func(p *x509.Certificate) bool {
		pc := k.u.ByPtr(p)
		return pc != nil && t.After(k.wins[pc.Desc.Win].NotBefore) && t.Before(k.wins[pc.Desc.Win].NotAfter)
	})
	readings := []map[string]bool{r1, r3, r2}
	matched := -1
	for i, r := range readings {
		if sameKeys(got, r) {
			matched = i
			break
		}
	}
	// The statement's "relevant chains" are fixed by the code comment and DESIGN §4 as R1. R3/R2 are the looser
	// readings of the field's doc comment; they are only used to describe the mismatch (a result that follows R3
	// or R2 but not R1 takes its parents from chains that are not the relevant ones for this verification time).
	if matched > 0 {
		viol(fmt.Sprintf("Parents is not the set of distinct second certificates of the relevant chains (Expired=%v): it follows reading %s instead", res.Expired, []string{"", "R3 (valid-at-expiration chains although not expired)", "R2 (valid-at-expiration chains restricted to currently valid parents)"}[matched]),
			fmt.Sprintf("got %d parents; relevant chains give %d", len(got), len(r1)))
	} else if matched < 0 {
		rel := "ValidAtExpirationChains"
		if !res.Expired {
			rel = "CurrentChains"
		}
		viol(fmt.Sprintf("Parents is not the set of distinct second certificates of the relevant chains (Expired=%v: %s; nor of any documented reading)", res.Expired, rel),
			fmt.Sprintf("got %d parents; readings give %d / %d / %d", len(got), len(r1), len(r3), len(r2)))
	} else if !sameKeys(r1, r3) || !sameKeys(r1, r2) {
		h["Parents: documented readings differ here; result matches reading "+[]string{"R1 (current, or valid-at-expiration if expired)", "R3 (valid-at-expiration)", "R2 (valid-at-expiration and currently valid)"}[matched]]++
	}
	if len(got) > 0 {
		h["Parents: some"]++
	} else {
		h["Parents: none"]++
	}

	// --- certificate type: root iff in the root store; else intermediate iff CA with a parent; else leaf iff a parent; else unknown
	okType := false
	var wantTypes []string
	for _, r := range readings[:1] {
		wt := typeFor(k.isRoot, cert.Desc.To.CA, len(r) > 0)
		if wt == res.CertificateType {
			okType = true
		}
		wantTypes = append(wantTypes, typeName(wt))
	}
	if !okType {
		viol(fmt.Sprintf("CertificateType is %s for a certificate with root-store=%v CA=%v parents=%v (documented rule gives %s)", typeName(res.CertificateType), k.isRoot, cert.Desc.To.CA, len(got) > 0, wantTypes[0]), "")
	} else {
		h[typeKeys[res.CertificateType]]++
	}

	// --- NameError
	switch {
	case name == "" && res.NameError != nil:
		viol("NameError is set although no name was given", res.NameError.Error())
	case name == "":
		h["name: none given"]++
	default:
		want := hostAccepted(cert, name)
		if want && res.NameError != nil {
			viol("NameError is set although the name matches the certificate", res.NameError.Error())
		} else if !want && res.NameError == nil {
			viol("NameError is nil although the name does not match the certificate", "")
		} else if want {
			h["name: matches"]++
		} else {
			h["name: does not match (NameError set)"]++
		}
	}

	// --- InRevocationSet: OneCRL lists the certificate, or the CRLSet lists it under the SPKI of one of its parents
	wantRev := oneCRLLists(ok)
	either, noParentKey := false, false
	if !wantRev && ck != 0 {
		for _, p := range res.Parents {
			ps := ""
			if pc := k.u.ByPtr(p); pc != nil {
				ps = pc.SPKIHash // hex SHA-256 of the parent's SubjectPublicKeyInfo (crypto/sha256, at minting)
			} else {
				ps = fmt.Sprintf("%x", sha(p.RawSubjectPublicKeyInfo))
			}
			if crlSetLists(ck, ps, issuerSPKI) {
				wantRev = true
			}
		}
		if !wantRev && len(res.Parents) == 0 && crlSetLists(ck, issuerSPKI, issuerSPKI) {
			// The set lists the certificate under its issuer's key, but Parents is empty. A CRLSet is keyed by the hash
			// of the ISSUER's key, which the certificate does not carry: the verifier can only evaluate the set against
			// the key of a certificate it knows as a parent. If some walked chain (of whatever date class) has a second
			// certificate with the listed key, the answer depends on which chains supply "the parents" for this purpose —
			// the statement does not say, either is accepted. If NO walked chain has one, no reading of the statement
			// gives the verifier a key under which the set lists the certificate: the flag must stay false.
			either = k.secondWithIssuerKey
			noParentKey = !either
		}
	}
	switch {
	case either:
		h[fmt.Sprintf("revocation: CRLSet lists the certificate under the key of a second certificate of a walked chain that is not among Parents (either accepted; InRevocationSet=%v)", res.InRevocationSet)]++
	case noParentKey && res.InRevocationSet:
		viol(fmt.Sprintf("InRevocationSet is true although no OneCRL lists the certificate and no walked chain gives it a parent under whose key the CRLSet could list it [CRLSet: %s]", crlSetKinds[ck]), "")
	case noParentKey:
		h["revocation: CRLSet names the issuer key but no walked chain has a parent with that key (not listed)"]++
	case wantRev && !res.InRevocationSet:
		src := "the CRLSet lists it (" + crlSetKinds[ck] + ")"
		if oneCRLLists(ok) {
			src = "the OneCRL lists it (" + oneCRLKinds[ok] + ")"
		}
		viol("InRevocationSet is false although "+src+fmt.Sprintf(" [OneCRL given=%v, CRLSet given=%v]", ok != 0, ck != 0), "")
	case !wantRev && res.InRevocationSet:
		viol(fmt.Sprintf("InRevocationSet is true although neither set lists the certificate [OneCRL: %s; CRLSet: %s]", oneCRLKinds[ok], crlSetKinds[ck]), "")
	case wantRev && oneCRLLists(ok):
		h["revocation: listed by OneCRL"]++
	case wantRev:
		h["revocation: listed by CRLSet under a parent's SPKI"]++
	default:
		h["revocation: not listed"]++
	}

	if len(k.walked) == 0 && res.ValidationError == nil {
		h["info: no chain could be built and ValidationError is nil (the field is never set; not part of the statement)"]++
	}
	if res.VerifyTime.IsZero() {
		h["info: result.VerifyTime is left zero (not part of the statement)"]++
	}
	c.Traces.Add(1)
	if bad {
		h["verification with a discrepancy"]++
	} else {
		h["verification conforming"]++
	}
	if k.nowU && deflt && !bad {
		h[fmt.Sprintf("VerifyTime left zero: certificate %s, Expired=%v, parents=%v, %s", nowWindowNames[cert.Desc.Win], res.Expired, len(res.Parents) > 0, typeKeys[res.CertificateType])]++
	}
	return res
}

// sameResult compares, field by field, the result of a call that left VerifyTime
// zero with the result of a call that passed the wall clock explicitly (chains
// and parents as sets; VerificationResult.VerifyTime itself is not compared).
func (k *caseT) sameResult(a, b *verifier.VerificationResult) (diff []string) {
	chainSet := func(l []x509.CertificateChain) string {
		var o []string
		for _, ch := range l {
			o = append(o, k.chainKey(ch))
		}
		sort.Strings(o)
		return strings.Join(o, ";")
	}
	certSet := func(l []*x509.Certificate) string {
		var o []string
		for _, x := range l {
			o = append(o, k.u.FPOf(x))
		}
		sort.Strings(o)
		return strings.Join(o, ";")
	}
	errStr := func(e error) string {
		if e == nil {
			return "<nil>"
		}
		return e.Error()
	}
	cmp := func(field string, same bool) {
		if !same {
			diff = append(diff, field)
		}
	}
	cmp("Name", a.Name == b.Name)
	cmp("Expired", a.Expired == b.Expired)
	cmp("CurrentChains", chainSet(a.CurrentChains) == chainSet(b.CurrentChains))
	cmp("ExpiredChains", chainSet(a.ExpiredChains) == chainSet(b.ExpiredChains))
	cmp("NeverValidChains", chainSet(a.NeverValidChains) == chainSet(b.NeverValidChains))
	cmp("ValidAtExpirationChains", chainSet(a.ValidAtExpirationChains) == chainSet(b.ValidAtExpirationChains))
	cmp("Parents", certSet(a.Parents) == certSet(b.Parents))
	cmp("CertificateType", a.CertificateType == b.CertificateType)
	cmp("NameError", errStr(a.NameError) == errStr(b.NameError))
	cmp("ValidationError", errStr(a.ValidationError) == errStr(b.ValidationError))
	cmp("InRevocationSet", a.InRevocationSet == b.InRevocationSet)
	cmp("OCSPRevoked/CRLRevoked", a.OCSPRevoked == b.OCSPRevoked && a.CRLRevoked == b.CRLRevoked)
	cmp("OCSPCheckError/CRLCheckError", errStr(a.OCSPCheckError) == errStr(b.OCSPCheckError) && errStr(a.CRLCheckError) == errStr(b.CRLCheckError))
	cmp("ParentSPKISubjectFingerprint", string(a.ParentSPKISubjectFingerprint) == string(b.ParentSPKISubjectFingerprint) || len(a.Parents) > 1)
	cmp("ParentSPKI", string(a.ParentSPKI) == string(b.ParentSPKI) || len(a.Parents) > 1)
	return diff
}

// ---------------------------------------------------------------------------
// Graph states
// ---------------------------------------------------------------------------

// windowAssignments lists every assignment of windows to the edges of s in which
// at most d certificates deviate from window 0.
func windowAssignments(s *pki.Spec, d int) []*pki.Spec {
	var out []*pki.Spec
	m := len(s.Edges)
	var rec func(start int, left int, cur []int)
	rec = func(start, left int, cur []int) {
		cp := *s
		cp.Edges = append([]pki.Edge(nil), s.Edges...)
		var tag []string
		for i, w := range cur {
			cp.Edges[i].Win = w
			if w != 0 {
				tag = append(tag, fmt.Sprintf("%d:w%d", i, w))
			}
		}
		cp.Name = s.Name + " windows[" + strings.Join(tag, " ") + "]"
		out = append(out, &cp)
		if left == 0 {
			return
		}
		for i := start; i < m; i++ {
			for w := 1; w < len(pki.Windows); w++ {
				cur[i] = w
				rec(i+1, left-1, cur)
				cur[i] = 0
			}
		}
	}
	rec(0, d, make([]int, m))
	return out
}

type timeT struct {
	t    time.Time
	note string
}

// universeOf lists the certificates verified against a graph and the verification times.
func universeOf(u certSource, b *pki.Built, siblings bool) (certs []*pki.Cert, inGraph []bool, times []timeT) {
	s := b.Spec
	seen := map[string]bool{}
	add := func(c *pki.Cert, in bool) {
		if !seen[c.FP] {
			seen[c.FP] = true
			certs = append(certs, c)
			inGraph = append(inGraph, in)
		}
	}
	for i := range s.Edges {
		add(b.Certs[i], true)
	}
	for _, e := range s.Edges {
		if !siblings {
			break
		}
		d := s.Desc(e)
		d.Variant = siblingVariant
		add(u.Cert(d), false)
	}
	for _, n := range s.Nodes {
		add(u.Cert(pki.CertDesc{From: n, To: freshLeaf, Win: 1}), false)
	}
	add(u.Cert(pki.CertDesc{From: ghost, To: freshLeaf}), false)
	inst := map[int64]time.Time{}
	for _, c := range certs {
		inst[c.X.NotBefore.Unix()] = c.X.NotBefore
		inst[c.X.NotAfter.Unix()] = c.X.NotAfter
	}
	var keys []int64
	for k := range inst {
		keys = append(keys, k)
	}
	sort.Slice(keys, func(i, j int) bool { return keys[i] < keys[j] })
	ts := map[int64]bool{}
	for _, k := range keys {
		for _, d := range []int{-1, 0, 1} {
			t := inst[k].Add(time.Duration(d) * time.Second)
			if !ts[t.Unix()] {
				ts[t.Unix()] = true
				times = append(times, timeT{t, fmt.Sprintf("validity boundary %s %+ds", inst[k].UTC().Format(time.RFC3339), d)})
			}
		}
	}
	return
}

func isRootInSpec(s *pki.Spec, b *pki.Built, c *pki.Cert) bool {
	for i, e := range s.Edges {
		if b.Certs[i].FP == c.FP {
			return e.Root
		}
	}
	return false
}

// space bounds of a tier
type bounds struct {
	siblings bool // also verify, for every certificate of the graph, a sibling that is not in the graph
	names    int  // how many of namesFor
	oneCRL   int  // how many of oneCRLKinds
	crlSet   int  // how many of crlSetKinds
	// oneAtATime: instead of the full product name x OneCRL x CRLSet, every value of each of the three with the
	// other two at their default ("" / nil / nil)
	oneAtATime bool
}

type confT struct {
	name   string
	ok, ck int
}

func (bd bounds) configs(names []string) (out []confT) {
	if len(names) > bd.names {
		names = names[:bd.names]
	}
	if bd.oneAtATime {
		for _, n := range names {
			out = append(out, confT{n, 0, 0})
		}
		for ok := 1; ok < bd.oneCRL; ok++ {
			out = append(out, confT{names[0], ok, 0})
		}
		for ck := 1; ck < bd.crlSet; ck++ {
			out = append(out, confT{names[0], 0, ck})
		}
		return
	}
	for _, n := range names {
		for ok := 0; ok < bd.oneCRL; ok++ {
			for ck := 0; ck < bd.crlSet; ck++ {
				out = append(out, confT{n, ok, ck})
			}
		}
	}
	return
}

// graphState evaluates one graph state completely (or one recorded case of it).
// wins are the windows the specification's Win indexes refer to; nowU says they
// are relative to the wall clock: the verification times are then "now", passed
// explicitly and left to the documented default.
func graphState(c *ev.Ctx, u certSource, wins []pki.Window, nowU bool, s *pki.Spec, bd bounds, h ev.Hist, only *witness) {
	b := u.Build(s, false)
	if diff := b.CheckDump(); diff != "" {
		c.Broken("the graph built from %q is not the specified graph: %s", s.Name, diff)
	}
	c.States.Add(1)
	other := u.Cert(pki.CertDesc{From: unrelated, To: unrelated})
	certs, inGraph, times := universeOf(u, b, bd.siblings)
	for ci, cert := range certs {
		if only != nil && only.Cert != cert.Desc {
			continue
		}
		k := &caseT{u: u, wins: wins, nowU: nowU, b: b, cert: cert, inGraph: inGraph[ci], isRoot: isRootInSpec(s, b, cert), walked: map[string]*chainRef{}, other: other}
		// the reference view: WalkChains, once per certificate
		for _, ch := range b.G.WalkChains(cert.X) {
			ref := &chainRef{}
			for i, x := range ch {
				pc := u.ByPtr(x)
				if pc == nil {
					c.Broken("WalkChains returned a certificate that was never minted")
				}
				w := wins[pc.Desc.Win] // the window the specification gave the certificate
				if i == 0 || w.NotBefore.After(ref.lower) {
					ref.lower = w.NotBefore
				}
				if i == 0 || w.NotAfter.Before(ref.upper) {
					ref.upper = w.NotAfter
				}
			}
			if len(ch) >= 2 {
				ref.second = ch[1]
			}
			key := k.chainKey(ch)
			if _, dup := k.walked[key]; dup {
				h["info: WalkChains returned one chain twice (C11's subject)"]++
			}
			k.walked[key] = ref
		}
		k.prepare()
		for _, ref := range k.walked {
			if ref.second != nil && u.ByPtr(ref.second).SPKIHash == k.issSPKI {
				k.secondWithIssuerKey = true
			}
		}
		c.Evaluations.Add(1)
		if len(k.walked) > 0 {
			c.Distinct.Add(1)
		}
		h[fmt.Sprintf("certificate in graph=%v root=%v CA=%v", k.inGraph, k.isRoot, cert.Desc.To.CA)]++
		confs := bd.configs(namesFor(cert))
		if nowU {
			// the only verification time is the wall clock: once passed explicitly (sampled before the call), once
			// left to the default; both are judged by the reference, then compared with each other
			for _, cf := range confs {
				if only != nil && (only.Name != cf.name || only.OneCRL != cf.ok || only.CRLSet != cf.ck) {
					continue
				}
				var sigsExp []string
				rExp := k.verifyOne(c, h, time.Now(), "time.Now() sampled before the call, passed as VerifyTime", cf.name, cf.ok, cf.ck, true, false, &sigsExp, nil)
				rDef := k.verifyOne(c, h, time.Time{}, "VerifyTime left zero; reference time = time.Now() sampled before the call", cf.name, cf.ok, cf.ck, true, true, nil, sigsExp)
				if rExp == nil || rDef == nil {
					continue
				}
				if diff := k.sameResult(rDef, rExp); len(diff) > 0 {
					w := witness{Spec: s, Graph: s.Describe(), Cert: cert.Desc, InGraph: k.inGraph, NowU: true, Default: true, Time: time.Now(), TimeNote: "VerifyTime left zero, compared with VerifyTime = time.Now()",
						Name: cf.name, OneCRL: cf.ok, CRLSet: cf.ck, OneCRLs: oneCRLKinds[cf.ok], CRLSets: crlSetKinds[cf.ck],
						Detail: "fields that differ: " + strings.Join(diff, ", "), Result: map[string]any{"verify_time_zero": k.dump(rDef), "verify_time_now": k.dump(rExp)}}
					c.Violation(defaultPrefix+"the result differs from the result for an explicit VerifyTime = time.Now()", w)
					h["zero VerifyTime vs explicit now: results differ"]++
				} else {
					h["zero VerifyTime vs explicit now: results equal field by field"]++
				}
			}
			continue
		}
		for _, tt := range times {
			if only != nil && !only.Time.Equal(tt.t) {
				continue
			}
			for _, cf := range confs {
				if only != nil && (only.Name != cf.name || only.OneCRL != cf.ok || only.CRLSet != cf.ck) {
					continue
				}
				k.verifyOne(c, h, tt.t, tt.note, cf.name, cf.ok, cf.ck, true, false, nil, nil)
			}
		}
	}
}

func main() {
	ev.Main("C12", "model_checking", func(c *ev.Ctx) {
		if !windowsSeparateExpiry() {
			c.Broken("no validity window of c11/pki begins 2 s before window 0 ends: 'one second before expiry' would not be separated from earlier instants")
		}
		if c.Replay != nil {
			var w witness
			if err := json.Unmarshal(c.Replay, &w); err != nil || w.Spec == nil {
				c.Broken("bad witness: %v", err)
			}
			h := ev.Hist{}
			if w.NowU {
				// windows relative to the wall clock of THIS run: the case is the same relative to now
				wins := nowWindows(time.Now().Truncate(time.Second))
				graphState(c, newNowUniverse(wins), wins, true, w.Spec, bounds{siblings: true, names: 6, oneCRL: len(oneCRLKinds), crlSet: len(crlSetKinds)}, h, &w)
				c.Merge(h)
				return
			}
			graphState(c, pki.NewUniverse(), pki.Windows[:], false, w.Spec, bounds{siblings: true, names: 6, oneCRL: len(oneCRLKinds), crlSet: len(crlSetKinds)}, h, &w)
			c.Merge(h)
			return
		}
		shapes := pki.SmallFamilies()
		type stateT struct {
			spec *pki.Spec
			bd   bounds
		}
		var states []stateT
		perShape := map[string]map[string]int{}
		full := bounds{siblings: true, names: 6, oneCRL: len(oneCRLKinds), crlSet: len(crlSetKinds)}
		var ruleStates string
		if c.Quick() {
			// 8 shapes, at most one certificate outside window 0; every OneCRL and CRLSet content kind, every name, no siblings
			bd := bounds{siblings: false, names: 6, oneCRL: len(oneCRLKinds), crlSet: len(crlSetKinds)}
			for _, s := range shapes[:8] {
				l := windowAssignments(s, 1)
				perShape[s.Name] = map[string]int{"states_with_at_most_1_certificate_outside_window_0": len(l)}
				for _, x := range l {
					states = append(states, stateT{x, bd})
				}
			}
			ruleStates = "the first 8 hand-listed shapes x every assignment of the 4 validity windows with at most 1 certificate outside window 0; per state: every certificate of the graph + a fresh leaf (not in the graph) under every node + a leaf with unknown issuer; all names, OneCRL and CRLSet contents"
		} else {
			// all 16 shapes with <= 1 deviation and everything; the first 8 shapes also with exactly 2 deviations (without the siblings)
			noSib := full
			noSib.siblings = false
			for i, s := range shapes {
				l := windowAssignments(s, 1)
				perShape[s.Name] = map[string]int{"states_with_at_most_1_certificate_outside_window_0": len(l)}
				for _, x := range l {
					states = append(states, stateT{x, full})
				}
				if i < 8 {
					l2 := windowAssignments(s, 2)[len(l):]
					n := 0
					for _, x := range l2 {
						dev := 0
						for _, e := range x.Edges {
							if e.Win != 0 {
								dev++
							}
						}
						if dev == 2 {
							states = append(states, stateT{x, noSib})
							n++
						}
					}
					perShape[s.Name]["states_with_exactly_2_certificates_outside_window_0"] = n
				}
			}
			ruleStates = "all 16 hand-listed shapes x every assignment of the 4 validity windows with at most 1 certificate outside window 0 (per state: every certificate of the graph + a sibling of each that is not in the graph + a fresh leaf under every node + a leaf with unknown issuer), and the first 8 shapes with exactly 2 certificates outside window 0 (same without the siblings); all names, OneCRL and CRLSet contents"
		}
		c.Set("graph_states", map[string]any{"states": len(states), "per_shape": perShape})
		c.Set("windows", pki.Windows)
		c.Rule("graph states = hand-listed shapes of the C11 families (straight chains, two roots, parallel certificates, cross-signed roots, cycles, mutual cross-signs, key rollover, dangling issuer, non-CA intermediate, parallel root/non-root certificates, cycle edge as root, lone self-signed root): " + ruleStates + "; validity windows: W0 wide, W1 nested in W0 and ending 2 s before W0 ends, W2 beginning at that instant (touching W1, overlapping the last 2 s of W0), W3 disjoint — so a chain through a W2 parent is valid exactly 1 s, and no longer, before a W0 certificate expires; VerifyTime = every distinct NotBefore/NotAfter of the state's certificates x {-1 s, 0, +1 s} (this includes NotAfter-1 s and NotAfter-2 s); Name = {\"\", exact SAN or CN, wildcard instance in upper case with trailing dot / upper-case CN with dot, other.example, a name one label too deep, the CN of a certificate that has SANs}; OneCRL = {" + strings.Join(oneCRLKinds, " | ") + "}; CRLSet = {" + strings.Join(crlSetKinds, " | ") + "}; full product of certificate x time x name x OneCRL x CRLSet. PLUS the default verification time: a second universe whose windows are relative to the wall clock at the start of the run (valid now [now-48h, now+48h] | expired [now-48h, now-2h] | not yet valid [now+2h, now+48h]); graph states = {lone root, leaf<-root, leaf<-intermediate<-root, leaf<-intermediate<-two roots} x EVERY assignment of the three windows to the certificates (3+9+27+243 states); per state every certificate of the graph + an expired fresh leaf under every node + a leaf with unknown issuer" + ev.Pick(c, "", " + a sibling of each certificate that is not in the graph") + "; per certificate " + ev.Pick(c, "every name, every OneCRL kind, every CRLSet kind, one at a time with the other two at their default", "the full product name x OneCRL x CRLSet") + "; each configuration verified twice, with VerifyTime = time.Now() sampled before the call and with VerifyTime left zero: both results are judged by the reference above (reference time = the sampled wall clock) and then compared with each other field by field (chains and parents as sets; every field except VerificationResult.VerifyTime). distinct = (state, certificate) pairs with at least one walked chain")
		c.Assume("Graph.WalkChains is trusted (C11): the reference view of a certificate's chains is one WalkChains call per (state, certificate)",
			"date classes on an exact boundary instant (VerifyTime equal to the start or end of a chain's common window, or a window that is a single instant) accept both neighbouring lists; the Expired flag is false exactly when NotBefore < VerifyTime < NotAfter (documentation of VerificationResult.Expired and of TimeInValidityPeriod, both strict): ON NotBefore/NotAfter it must be true",
			"Parents and CertificateType follow reading R1 (code comment and DESIGN: second certificates of the valid-at-expiration chains if Expired, else of the current chains); the two looser readings of the field documentation only name the mismatch",
			"OneCRL and CRLSet values are built directly as Go structs in the form Check consumes (IssuerLists keyed by hex SPKI hash as verifier.go passes it; BlockedSPKIs in hex and, thorough tier, in the base64 form google.Parse leaves them in); parsing of the wire formats is C15's subject",
			"a CRLSet that names the key the certificate was issued under while Parents is empty: accepted either way when some walked chain (of any date class) has a second certificate with that key (the statement does not say which chains supply the parents for this purpose); must be 'not listed' when no walked chain has one (the certificate does not carry its issuer's key, so no reading lets the verifier find the listing); NameError must be nil when no name is given",
			"fields the statement does not name (VerifyTime, ValidationError, ParentSPKI..., OCSP/CRL fields) are not judged; two observations about them are counted as info outcomes",
			"the default of VerificationOptions (opts.clean applies exactly one: a zero VerifyTime means time.Now(); a nil OneCRL/CRLSet, an empty Name and ShouldCheckOCSP/ShouldCheckCRL=false are the values every call above already passes) is exercised against the wall clock: validity boundaries of that universe are >= 2 h away from the instant it is created and the part is abandoned (incomplete, not judged) should the run ever last 1 h, so the class of 'now' relative to every boundary cannot change during the run")

		W := c.Workers()
		unis := make([]*pki.Universe, W)
		hists := make([]ev.Hist, W)
		for i := range unis {
			unis[i] = pki.NewUniverse()
			hists[i] = ev.Hist{}
		}

		// --- the default verification time: windows relative to the wall clock (first: a budget stop must not drop it)
		{
			now0 := time.Now().Truncate(time.Second)
			wins := nowWindows(now0)
			var nowStates []*pki.Spec
			perNow := map[string]int{}
			for _, s := range []*pki.Spec{pki.Straight(1), pki.Straight(2), pki.Straight(3), pki.TwoRoots()} {
				l := allWindowAssignments(s, len(wins))
				perNow[s.Name] = len(l)
				nowStates = append(nowStates, l...)
			}
			bdNow := bounds{siblings: !c.Quick(), names: 6, oneCRL: len(oneCRLKinds), crlSet: len(crlSetKinds), oneAtATime: c.Quick()}
			nowUnis := make([]*nowUniverse, W)
			for i := range nowUnis {
				nowUnis[i] = newNowUniverse(wins)
			}
			var late atomic.Bool
			doneNow := c.Parallel(len(nowStates), func(w, i int) {
				if time.Since(now0) > time.Hour {
					late.Store(true)
					return
				}
				graphState(c, nowUnis[w], wins, true, nowStates[i], bdNow, hists[w], nil)
			})
			if !doneNow || late.Load() {
				c.Incomplete("budget hit (or the run lasted more than an hour): only part of the now-relative graph states was verified")
			}
			c.Set("now_relative_states", map[string]any{"states": len(nowStates), "per_shape": perNow, "windows": nowWindowNames, "created": now0.UTC().Format(time.RFC3339), "lasted": time.Since(now0).Round(time.Millisecond).String()})
		}

		sampled := 0
		done := c.Parallel(len(states), func(w, i int) {
			graphState(c, unis[w], pki.Windows[:], false, states[i].spec, states[i].bd, hists[w], nil)
		})
		if !done {
			c.Incomplete(fmt.Sprintf("budget hit: only part of the %d graph states was verified", len(states)))
		}
		for _, h := range hists {
			c.Merge(h)
		}
		// samples: one fully described verification per shape class
		for _, st := range states {
			if sampled >= 4 {
				break
			}
			if strings.Contains(st.spec.Name, ":w2") {
				c.Sample(map[string]any{"state": st.spec.Name, "graph": st.spec.Describe()})
				sampled++
			}
		}
	})
}
