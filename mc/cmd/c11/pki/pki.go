// Package pki holds what C11 and C12 share: PKI graph SPECIFICATIONS (nodes =
// (subject, key) pairs, edges = certificates), the minting of the certificates a
// specification describes (Ed25519, through fx.Mint, cached per Universe), the
// construction of the real verifier.Graph from them and the assertion — through
// the VerifDump hook — that the graph built is the graph specified.
//
// Nothing in this package walks a graph: the path oracle lives in cmd/c11, the
// result oracle in cmd/c12. A Universe is NOT safe for concurrent use: every
// worker owns one (WalkChainsAsync writes c.ValidSignature on the certificate it
// is handed, so certificates are never shared between goroutines).
package pki

import (
	"crypto/sha256"
	"encoding/binary"
	"encoding/hex"
	"fmt"
	"sort"
	"strings"
	"time"

	"github.com/zmap/zcrypto/verifier"
	"github.com/zmap/zcrypto/x509"
	"verifmc/internal/fx"
)

// Window is a validity period.
type Window struct{ NotBefore, NotAfter time.Time }

// Windows are the four validity windows certificates are drawn from (index 0 is
// the default): W0 wide; W1 nested in W0 and ending 2 s before W0 ends; W2
// touching W1 (it begins at the very instant W1 ends) and overlapping the last
// 2 s of W0; W3 disjoint from all others. The 2 s offsets put validity
// boundaries of parents inside the last seconds of a child's validity.
var Windows = [4]Window{
	{fx.T0.Add(-48 * time.Hour), fx.T0.Add(48 * time.Hour)},
	{fx.T0.Add(-24 * time.Hour), fx.T0.Add(48*time.Hour - 2*time.Second)},
	{fx.T0.Add(48*time.Hour - 2*time.Second), fx.T0.Add(72 * time.Hour)},
	{fx.T0.Add(96 * time.Hour), fx.T0.Add(120 * time.Hour)},
}

// Node is a (subject, key) pair together with the attributes every certificate
// issued TO it carries.
type Node struct {
	Subject string `json:"subject"` // common name; two nodes may share it (different keys)
	Key     string `json:"key"`     // fx key fixture name (Ed25519 by name)
	CA      bool   `json:"ca"`
	PathLen int    `json:"path_len"` // -1 = no pathLenConstraint (only meaningful with CA)
}

// Edge is one certificate: issued by node From to node To.
type Edge struct {
	From    int  `json:"from"`
	To      int  `json:"to"`
	Root    bool `json:"root,omitempty"`    // added with AddRoot
	Variant int  `json:"variant,omitempty"` // distinguishes parallel certificates of one node pair
	Win     int  `json:"win,omitempty"`     // index into Windows
}

// Spec is a graph specification.
type Spec struct {
	Name  string `json:"name"`
	Nodes []Node `json:"nodes"`
	Edges []Edge `json:"edges"`
}

// CertDesc identifies a certificate independently of any specification.
type CertDesc struct {
	From    Node `json:"issuer"`
	To      Node `json:"subject"`
	Variant int  `json:"variant,omitempty"`
	Win     int  `json:"win,omitempty"`
}

func (d CertDesc) key() string {
	return fmt.Sprintf("%s|%s>%s|%s ca=%v pl=%d v=%d w=%d", d.From.Subject, d.From.Key, d.To.Subject, d.To.Key, d.To.CA, d.To.PathLen, d.Variant, d.Win)
}

// Short is a compact human-readable name of the certificate.
func (d CertDesc) Short() string {
	s := fmt.Sprintf("%s(%s)<-%s(%s)", d.To.Subject, d.To.Key, d.From.Subject, d.From.Key)
	if d.Variant != 0 {
		s += fmt.Sprintf("#%d", d.Variant)
	}
	if d.Win != 0 {
		s += fmt.Sprintf("@w%d", d.Win)
	}
	return s
}

// Cert is a minted certificate.
type Cert struct {
	Desc     CertDesc
	X        *x509.Certificate
	DER      []byte
	FP       string // hex SHA-256(DER), computed with crypto/sha256
	ChildID  string // hex SHA-256(SPKI || subject) of the subject node
	IssuerID string // same for the issuer node (the identity the certificate was signed under)
	SPKIHash string // hex SHA-256(SubjectPublicKeyInfo)
	Serial   int64
	DNS      []string
}

// Universe mints and caches certificates.
type Universe struct {
	ident map[string]*fx.Cert
	certs map[string]*Cert
	byFP  map[string]*Cert
	byPtr map[*x509.Certificate]*Cert
}

func NewUniverse() *Universe {
	return &Universe{ident: map[string]*fx.Cert{}, certs: map[string]*Cert{}, byFP: map[string]*Cert{}, byPtr: map[*x509.Certificate]*Cert{}}
}

// FPOf is the hex SHA-256 of the DER of x (looked up by pointer for the
// certificates this universe minted, computed otherwise).
func (u *Universe) FPOf(x *x509.Certificate) string {
	if x == nil {
		return "nil"
	}
	if c, ok := u.byPtr[x]; ok {
		return c.FP
	}
	return sha256hex(x.Raw)
}

// ByPtr returns the minted certificate whose parsed form is x (nil if unknown).
func (u *Universe) ByPtr(x *x509.Certificate) *Cert { return u.byPtr[x] }

func sha256hex(parts ...[]byte) string {
	h := sha256.New()
	for _, p := range parts {
		h.Write(p)
	}
	return hex.EncodeToString(h.Sum(nil))
}

// identity is a self-signed certificate carrying the node's name and key; it is
// only used as the signing parent and is never put into a graph.
func (u *Universe) identity(n Node) *fx.Cert {
	k := n.Subject + "|" + n.Key
	if c, ok := u.ident[k]; ok {
		return c
	}
	c := fx.MustMint(fx.CertSpec{CN: n.Subject, Key: n.Key, IsCA: true, Serial: 1}, nil)
	u.ident[k] = c
	return c
}

// NodeID is the hex SHA-256(SPKI || subject) of a node (the key FindNode and the
// VerifDump use).
func (u *Universe) NodeID(n Node) string {
	id := u.identity(n)
	return sha256hex(id.X.RawSubjectPublicKeyInfo, id.X.RawSubject)
}

// SPKIHash is the hex SHA-256 of the node's SubjectPublicKeyInfo.
func (u *Universe) SPKIHash(n Node) string {
	return sha256hex(u.identity(n).X.RawSubjectPublicKeyInfo)
}

// Slug is the DNS-label form of a subject name.
func Slug(s string) string {
	var b strings.Builder
	for _, r := range strings.ToLower(s) {
		if (r >= 'a' && r <= 'z') || (r >= '0' && r <= '9') {
			b.WriteRune(r)
		} else {
			b.WriteByte('-')
		}
	}
	return b.String()
}

// Cert mints (or returns the cached) certificate d.
func (u *Universe) Cert(d CertDesc) *Cert {
	k := d.key()
	if c, ok := u.certs[k]; ok {
		return c
	}
	h := sha256.Sum256([]byte(k))
	serial := int64(binary.BigEndian.Uint32(h[:4])) + 2
	var dns []string
	if !d.To.CA {
		s := Slug(d.To.Subject)
		dns = []string{s + ".example", "*.w." + s + ".example"}
	}
	w := Windows[d.Win]
	spec := fx.CertSpec{CN: d.To.Subject, Key: d.To.Key, Serial: serial, IsCA: d.To.CA, DNS: dns, NotBefore: w.NotBefore, NotAfter: w.NotAfter}
	if d.To.CA && d.To.PathLen >= 0 {
		spec.PathLenP1 = d.To.PathLen + 1
	}
	parent := u.identity(d.From)
	m := fx.MustMint(spec, parent)
	c := &Cert{Desc: d, X: m.X, DER: m.DER, FP: sha256hex(m.DER), Serial: serial, DNS: dns,
		ChildID:  sha256hex(m.X.RawSubjectPublicKeyInfo, m.X.RawSubject),
		IssuerID: u.NodeID(d.From),
		SPKIHash: sha256hex(m.X.RawSubjectPublicKeyInfo)}
	if c.ChildID != u.NodeID(d.To) {
		panic("pki: minted certificate does not carry the node's (subject, key): " + d.Short())
	}
	if string(m.X.RawIssuer) != string(parent.X.RawSubject) {
		panic("pki: minted certificate does not name its issuer node: " + d.Short())
	}
	if other, dup := u.byFP[c.FP]; dup {
		panic("pki: two descriptions mint the same certificate: " + d.Short() + " / " + other.Desc.Short())
	}
	u.byFP[c.FP] = c
	u.byPtr[c.X] = c
	u.certs[k] = c
	return c
}

// ByFP returns the minted certificate with that fingerprint (nil if unknown).
func (u *Universe) ByFP(fp string) *Cert { return u.byFP[fp] }

// Desc returns the description of an edge of s.
func (s *Spec) Desc(e Edge) CertDesc {
	return CertDesc{From: s.Nodes[e.From], To: s.Nodes[e.To], Variant: e.Variant, Win: e.Win}
}

// Present reports, per node, whether the specification contains a certificate
// issued TO it: only such (subject, key) pairs are nodes of the graph.
func (s *Spec) Present() []bool {
	p := make([]bool, len(s.Nodes))
	for _, e := range s.Edges {
		p[e.To] = true
	}
	return p
}

// Built is a specification realised as a verifier.Graph.
type Built struct {
	Spec  *Spec
	G     *verifier.Graph
	Certs []*Cert // per edge of Spec
	IDs   []string
	// History is set when G was not built from Spec in one go but reached it by insertions interleaved with
	// walks (growth histories): the full specification, how many of its edges are in, and the order.
	History *History
}

// History describes how a graph under test reached its state.
type History struct {
	Full    *Spec `json:"full_specification"`
	Step    int   `json:"insertions_done"`
	Reverse bool  `json:"inserted_in_reverse_order"`
}

// Build mints the certificates of s and inserts them (AddRoot for root edges,
// AddCert otherwise) in specification order, or in reverse order.
func (u *Universe) Build(s *Spec, reverse bool) *Built {
	b := &Built{Spec: s, G: verifier.NewGraph(), Certs: make([]*Cert, len(s.Edges)), IDs: make([]string, len(s.Nodes))}
	for i, n := range s.Nodes {
		b.IDs[i] = u.NodeID(n)
	}
	for i, e := range s.Edges {
		b.Certs[i] = u.Cert(s.Desc(e))
	}
	for k := range s.Edges {
		i := k
		if reverse {
			i = len(s.Edges) - 1 - k
		}
		if s.Edges[i].Root {
			b.G.AddRoot(b.Certs[i].X)
		} else {
			b.G.AddCert(b.Certs[i].X)
		}
	}
	return b
}

func sortedCopy(l []string) []string {
	o := append([]string{}, l...)
	sort.Strings(o)
	return o
}

func sameSet(a, b []string) bool {
	a, b = sortedCopy(a), sortedCopy(b)
	if len(a) != len(b) {
		return false
	}
	for i := range a {
		if a[i] != b[i] {
			return false
		}
	}
	return true
}

// CheckDump compares the internal state of the built graph (VerifDump hook) with
// the specification: one node per (subject, key) that has a certificate, one
// edge per certificate with its child, its issuer (none when the issuer pair has
// no certificate of its own in the graph) and its root flag, adjacency sets and
// the dangling-edge index. A non-empty result means the graph under test is not
// the graph the oracle reasons about (that is C10's subject, not C11's).
func (b *Built) CheckDump() string {
	s := b.Spec
	d := b.G.VerifDump()
	present := s.Present()
	var wantNodes []string
	for i, p := range present {
		if p {
			wantNodes = append(wantNodes, b.IDs[i])
		}
	}
	var gotNodes []string
	for _, n := range d.Nodes {
		gotNodes = append(gotNodes, n.Fingerprint)
	}
	if !sameSet(gotNodes, wantNodes) {
		return fmt.Sprintf("node set differs: got %d nodes, specification has %d", len(gotNodes), len(wantNodes))
	}
	if !sameSet(d.BySubjectAndKey, wantNodes) {
		return "nodesBySubjectAndKey index differs from the node set"
	}
	type pair struct{ a, b string }
	wantAdj := map[pair][]string{}
	wantMissing := map[string][]string{}
	wantEdge := map[string]verifier.VerifEdge{}
	for i, e := range s.Edges {
		c := b.Certs[i]
		ve := verifier.VerifEdge{Cert: c.FP, Child: b.IDs[e.To], Root: e.Root}
		if present[e.From] {
			ve.Issuer = b.IDs[e.From]
			wantAdj[pair{ve.Issuer, ve.Child}] = append(wantAdj[pair{ve.Issuer, ve.Child}], c.FP)
		} else {
			wantMissing[string(c.X.RawIssuer)] = append(wantMissing[string(c.X.RawIssuer)], c.FP)
		}
		if _, dup := wantEdge[c.FP]; dup {
			return "specification lists one certificate twice: " + c.Desc.Short()
		}
		wantEdge[c.FP] = ve
	}
	if len(d.Edges) != len(wantEdge) {
		return fmt.Sprintf("edge set differs: got %d edges, specification has %d", len(d.Edges), len(wantEdge))
	}
	for _, e := range d.Edges {
		w, ok := wantEdge[e.Cert]
		if !ok {
			return "graph holds an edge for a certificate that is not in the specification"
		}
		if e != w {
			return fmt.Sprintf("edge %s: graph has child=%.8s issuer=%.8s root=%v, specification child=%.8s issuer=%.8s root=%v",
				b.CertName(e.Cert), e.Child, e.Issuer, e.Root, w.Child, w.Issuer, w.Root)
		}
	}
	gotCh, gotPa := map[pair][]string{}, map[pair][]string{}
	for _, n := range d.Nodes {
		for ch, l := range n.Children {
			if len(l) > 0 {
				gotCh[pair{n.Fingerprint, ch}] = l
			}
		}
		for pa, l := range n.Parents {
			if len(l) > 0 {
				gotPa[pair{pa, n.Fingerprint}] = l
			}
		}
	}
	for _, m := range []struct {
		name string
		got  map[pair][]string
	}{{"children", gotCh}, {"parents", gotPa}} {
		if len(m.got) != len(wantAdj) {
			return m.name + " adjacency differs from the specification"
		}
		for p, l := range wantAdj {
			if !sameSet(m.got[p], l) {
				return m.name + " adjacency differs from the specification"
			}
		}
	}
	nMiss := 0
	for k, l := range d.MissingIssuer {
		if len(l) == 0 {
			continue
		}
		nMiss++
		if !sameSet(l, wantMissing[k]) {
			return "dangling-edge index differs from the specification"
		}
	}
	if nMiss != len(wantMissing) {
		return "dangling-edge index differs from the specification"
	}
	return ""
}

// CertName names a certificate of the built graph by fingerprint.
func (b *Built) CertName(fp string) string {
	for _, c := range b.Certs {
		if c.FP == fp {
			return c.Desc.Short()
		}
	}
	if len(fp) > 8 {
		fp = fp[:8]
	}
	return "?" + fp
}

// Describe lists the edges of a specification in readable form.
func (s *Spec) Describe() []string {
	var out []string
	for _, e := range s.Edges {
		t := s.Desc(e).Short()
		if !s.Nodes[e.To].CA {
			t += " non-CA"
		}
		if s.Nodes[e.To].CA && s.Nodes[e.To].PathLen >= 0 {
			t += fmt.Sprintf(" pathlen=%d", s.Nodes[e.To].PathLen)
		}
		if e.Root {
			t += " ROOT"
		}
		out = append(out, t)
	}
	return out
}
