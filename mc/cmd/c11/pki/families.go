package pki

import "fmt"

// N is the default CA node number i.
func N(i int) Node {
	return Node{Subject: fmt.Sprintf("c11 n%d", i), Key: fmt.Sprintf("c11-k%d", i), CA: true, PathLen: -1}
}

// Leaf is a non-CA node.
func Leaf(i int) Node {
	n := N(i)
	n.CA = false
	return n
}

type builder struct{ s Spec }

func newB(name string) *builder { return &builder{Spec{Name: name}} }
func (b *builder) node(n Node) int {
	b.s.Nodes = append(b.s.Nodes, n)
	return len(b.s.Nodes) - 1
}
func (b *builder) ca() int   { return b.node(N(len(b.s.Nodes))) }
func (b *builder) leaf() int { return b.node(Leaf(len(b.s.Nodes))) }
func (b *builder) edge(from, to int) *builder {
	b.s.Edges = append(b.s.Edges, Edge{From: from, To: to})
	return b
}
func (b *builder) edgeV(from, to, variant int) *builder {
	b.s.Edges = append(b.s.Edges, Edge{From: from, To: to, Variant: variant})
	return b
}
func (b *builder) root(from, to int) *builder {
	b.s.Edges = append(b.s.Edges, Edge{From: from, To: to, Root: true})
	return b
}
func (b *builder) done() *Spec { s := b.s; return &s }

// Straight is leaf <- I1 <- ... <- R with m certificates (R self-signed, root):
// the walk from the leaf certificate has exactly one candidate path, of length m.
func Straight(m int) *Spec {
	b := newB(fmt.Sprintf("straight chain of %d certificates", m))
	b.leaf()
	for i := 1; i < m; i++ {
		b.ca()
	}
	for i := 0; i+1 < m; i++ {
		b.edge(i+1, i)
	}
	b.root(m-1, m-1)
	return b.done()
}

// StraightPathLen is Straight(m) with a pathLenConstraint v on node j.
func StraightPathLen(m, j, v int) *Spec {
	s := Straight(m)
	s.Name = fmt.Sprintf("straight chain of %d certificates, pathlen=%d on the certificate at position %d", m, v, j)
	s.Nodes[j].PathLen = v
	return s
}

// Ladder has a leaf, k levels of two cross-signing CAs and a root: every node of
// level j+1 certifies every node of level j, 2^k paths of k+2 certificates.
func Ladder(k int) *Spec {
	b := newB(fmt.Sprintf("ladder with %d cross-signed levels (2^%d paths of %d certificates)", k, k, k+2))
	prev := []int{b.leaf()}
	for l := 1; l <= k; l++ {
		cur := []int{b.ca(), b.ca()}
		for _, p := range cur {
			for _, c := range prev {
				b.edge(p, c)
			}
		}
		prev = cur
	}
	r := b.ca()
	for _, c := range prev {
		b.edge(r, c)
	}
	b.root(r, r)
	return b.done()
}

// Cycle is a leaf under C0, a certification cycle C0 <- C1 <- ... <- C(L-1) <- C0
// and a root R that also certifies each node listed in exits.
func Cycle(L int, exits ...int) *Spec {
	b := newB(fmt.Sprintf("cycle of length %d with exit(s) to a root at %v", L, exits))
	lf := b.leaf()
	var c []int
	for i := 0; i < L; i++ {
		c = append(c, b.ca())
	}
	r := b.ca()
	b.edge(c[0], lf)
	for i := 0; i < L; i++ {
		b.edge(c[(i+1)%L], c[i])
	}
	for _, j := range exits {
		b.edge(r, c[j])
	}
	b.root(r, r)
	return b.done()
}

// CycleRootEdge is a leaf under C0 and a cycle of length L whose edge into C(j)
// (issued by C(j+1)) is itself in the root store; there is no other root.
func CycleRootEdge(L, j int) *Spec {
	b := newB(fmt.Sprintf("cycle of length %d whose certificate for C%d (issued by C%d) is a root", L, j, (j+1)%L))
	lf := b.leaf()
	var c []int
	for i := 0; i < L; i++ {
		c = append(c, b.ca())
	}
	b.edge(c[0], lf)
	for i := 0; i < L; i++ {
		if i == j {
			b.root(c[(i+1)%L], c[i])
		} else {
			b.edge(c[(i+1)%L], c[i])
		}
	}
	return b.done()
}

// TwoRoots: leaf <- I, I certified by two self-signed roots.
func TwoRoots() *Spec {
	b := newB("two roots reachable")
	lf, i, r1, r2 := b.leaf(), b.ca(), b.ca(), b.ca()
	b.edge(i, lf).edge(r1, i).edge(r2, i).root(r1, r1).root(r2, r2)
	return b.done()
}

// Multi: two parallel certificates on every hop (leaf<-I, I<-R, R self-signed root).
func Multi() *Spec {
	b := newB("multigraph: two certificates between each node pair")
	lf, i, r := b.leaf(), b.ca(), b.ca()
	b.edgeV(i, lf, 0).edgeV(i, lf, 1).edgeV(r, i, 0).edgeV(r, i, 1)
	b.s.Edges = append(b.s.Edges, Edge{From: r, To: r, Root: true}, Edge{From: r, To: r, Root: true, Variant: 1})
	return b.done()
}

// MultiMixed: parallel certificates of which one is a root and one is not.
func MultiMixed() *Spec {
	b := newB("multigraph: parallel certificates, one of each pair in the root store")
	lf, i, r := b.leaf(), b.ca(), b.ca()
	b.edge(i, lf).edgeV(r, i, 0)
	b.s.Edges = append(b.s.Edges, Edge{From: r, To: i, Root: true, Variant: 1}, Edge{From: r, To: r, Root: true}, Edge{From: r, To: r, Variant: 1})
	return b.done()
}

// RootAlsoThrough: leaf <- I <- R1; R1 has a self-signed certificate and a
// cross-certificate from R2 (self-signed root). ssRoot / crossRoot say which of
// R1's two certificates are in the root store.
func RootAlsoThrough(ssRoot, crossRoot bool) *Spec {
	b := newB(fmt.Sprintf("root R1 (self-signed in store=%v) also cross-signed by root R2 (cross-certificate in store=%v)", ssRoot, crossRoot))
	lf, i, r1, r2 := b.leaf(), b.ca(), b.ca(), b.ca()
	b.edge(i, lf).edge(r1, i)
	b.s.Edges = append(b.s.Edges, Edge{From: r1, To: r1, Root: ssRoot}, Edge{From: r2, To: r1, Root: crossRoot})
	b.root(r2, r2)
	return b.done()
}

// MutualCross: two self-signed roots that also cross-sign each other.
func MutualCross() *Spec {
	b := newB("two self-signed roots cross-signing each other")
	lf, a, c := b.leaf(), b.ca(), b.ca()
	b.edge(a, lf).root(a, a).root(c, c).edge(c, a).edge(a, c)
	return b.done()
}

// Rollover: one subject with two keys. R/K1 self-signed root, R/K2 certified by
// R/K1 (self-issued rollover certificate) and self-signed (not in the store);
// back says whether R/K1 is also certified by R/K2.
func Rollover(back bool) *Spec {
	b := newB(fmt.Sprintf("key rollover: one subject, two keys (back-certificate=%v)", back))
	lf, i := b.leaf(), b.ca()
	r1 := b.node(Node{Subject: "c11 roll", Key: "c11-roll-k1", CA: true, PathLen: -1})
	r2 := b.node(Node{Subject: "c11 roll", Key: "c11-roll-k2", CA: true, PathLen: -1})
	b.edge(i, lf).edge(r2, i).edge(r1, r2).edge(r2, r2).root(r1, r1)
	if back {
		b.edge(r2, r1)
	}
	return b.done()
}

// NonCA: leaf <- X <- R where X is not a CA, plus a leaf issued by the leaf.
func NonCA() *Spec {
	b := newB("non-CA certificate in intermediate position")
	lf, x, r, l2 := b.leaf(), b.leaf(), b.ca(), b.leaf()
	b.edge(x, lf).edge(r, x).root(r, r).edge(lf, l2)
	return b.done()
}

// Dangling: leaf <- I; I certified by an absent issuer and (variant) by a root.
func Dangling(alsoRoot bool) *Spec {
	b := newB(fmt.Sprintf("intermediate whose issuer is absent (second certificate from a root=%v)", alsoRoot))
	lf, i, ghost, r := b.leaf(), b.ca(), b.ca(), b.ca()
	b.edge(i, lf).edge(ghost, i)
	if alsoRoot {
		b.edge(r, i)
	}
	b.root(r, r)
	return b.done()
}

// Families is the hand-listed part (ii) of the C11 space.
func Families() []*Spec {
	var out []*Spec
	for m := 1; m <= 12; m++ {
		out = append(out, Straight(m))
	}
	for j := 1; j <= 4; j++ {
		for _, v := range []int{j - 2, j - 1, j} {
			if v >= 0 {
				out = append(out, StraightPathLen(5, j, v))
			}
		}
	}
	// path-length limits at the depth boundary
	out = append(out, StraightPathLen(9, 8, 7), StraightPathLen(9, 8, 6), StraightPathLen(9, 7, 6), StraightPathLen(9, 7, 5))
	for _, k := range []int{1, 2, 3, 6, 7, 8} {
		out = append(out, Ladder(k))
	}
	for L := 2; L <= 4; L++ {
		for j := 0; j < L; j++ {
			out = append(out, Cycle(L, j))
			out = append(out, CycleRootEdge(L, j))
		}
		out = append(out, Cycle(L, 0, L-1))
		out = append(out, Cycle(L)) // no exit: no chain at all
	}
	out = append(out, TwoRoots(), Multi(), MultiMixed(), MutualCross(), NonCA())
	for _, a := range []bool{false, true} {
		for _, c := range []bool{false, true} {
			out = append(out, RootAlsoThrough(a, c))
		}
		out = append(out, Rollover(a), Dangling(a))
	}
	return out
}

// SmallFamilies are the shapes C12 assigns validity windows to (few
// certificates each, every structural feature of Families represented).
func SmallFamilies() []*Spec {
	return []*Spec{Straight(2), Straight(3), TwoRoots(), Multi(), RootAlsoThrough(true, false), RootAlsoThrough(false, false),
		Cycle(2, 1), MutualCross(), Rollover(false), Dangling(true), NonCA(), Straight(4), MultiMixed(), Cycle(3, 0), CycleRootEdge(2, 1), Straight(1)}
}
