package verifier

// VerifC11MaxIntermediateCount exposes the unexported depth limit of the chain
// walk (read-only) so that the C11 oracle follows the constant instead of
// hard-coding its value.
const VerifC11MaxIntermediateCount = maxIntermediateCount
