// Standalone reproducer for C11 finding A: WalkChains returns chains in which one
// (subject, key) pair occurs twice, whenever a pair has a self-signed certificate
// that is NOT a root and another certificate (a cross-certificate).
//
//	cd /verif/mc && GOFLAGS=-mod=mod GOPROXY=off go run -modfile=/verif/.work/c11-$(echo -n /repo | md5sum | cut -c1-10).mod ./cmd/c11/repro/selfsigned_nonroot
//
// (the modfile is written by `/verif/check C11 build`). Exit status 1 = defect present.
package main

import (
	"fmt"
	"os"

	"github.com/zmap/zcrypto/verifier"
	"verifmc/internal/fx"
)

func main() {
	ca := func(cn, key string, parent *fx.Cert, serial int64) *fx.Cert {
		return fx.MustMint(fx.CertSpec{CN: cn, Key: key, IsCA: true, Serial: serial}, parent)
	}
	R := ca("R", "repro-r", nil, 1)    // self-signed, in the root store
	Xss := ca("X", "repro-x", nil, 2)  // X self-signed, NOT in the root store
	Xcross := ca("X", "repro-x", R, 3) // X cross-certified by R
	I := ca("I", "repro-i", Xss, 4)    // issued by X's key
	L := fx.MustMint(fx.CertSpec{CN: "leaf", Key: "repro-l", Serial: 5}, I)

	g := verifier.NewGraph()
	g.AddRoot(R.X)
	g.AddCert(Xss.X)
	g.AddCert(Xcross.X)
	g.AddCert(I.X)
	g.AddCert(L.X)
	name := map[string]string{string(R.X.FingerprintSHA256): "R(self-signed,root)", string(Xss.X.FingerprintSHA256): "X(self-signed,not a root)",
		string(Xcross.X.FingerprintSHA256): "X(by R)", string(I.X.FingerprintSHA256): "I(by X)", string(L.X.FingerprintSHA256): "leaf(by I)"}
	bad := 0
	for _, start := range []*fx.Cert{L, Xss} {
		fmt.Printf("WalkChains(%s):\n", name[string(start.X.FingerprintSHA256)])
		for _, ch := range g.WalkChains(start.X) {
			seen := map[string]bool{}
			dup := false
			fmt.Print("   ")
			for _, c := range ch {
				fmt.Print(name[string(c.FingerprintSHA256)], " ")
				k := string(c.RawSubject) + "|" + string(c.RawSubjectPublicKeyInfo)
				if seen[k] {
					dup = true
				}
				seen[k] = true
			}
			if dup {
				fmt.Print("  <-- (subject,key) pair X occurs twice")
				bad++
			}
			fmt.Println()
		}
	}
	if bad > 0 {
		fmt.Println("DEFECT: chains revisit a (subject,key) pair (documentation: 'all non-looping paths')")
		os.Exit(1)
	}
	fmt.Println("ok")
}
