// Standalone reproducer for C11 finding B: WalkChains does not return a chain
// that ends at a root certificate when that root certificate is not self-signed
// and the pair that issued it already occurs in the chain (the walk tests the
// ISSUER of the next certificate against the chain before looking at the root flag).
//
//	cd /verif/mc && GOFLAGS=-mod=mod GOPROXY=off go run -modfile=/verif/.work/c11-$(echo -n /repo | md5sum | cut -c1-10).mod ./cmd/c11/repro/root_issuer_in_chain
//
// Exit status 1 = defect present.
package main

import (
	"fmt"
	"os"

	"github.com/zmap/zcrypto/verifier"
	"verifmc/internal/fx"
)

func main() {
	idA := fx.MustMint(fx.CertSpec{CN: "A", Key: "repro-a", IsCA: true, Serial: 1}, nil) // only used as signer identity
	idB := fx.MustMint(fx.CertSpec{CN: "B", Key: "repro-b", IsCA: true, Serial: 2}, nil)
	AbyB := fx.MustMint(fx.CertSpec{CN: "A", Key: "repro-a", IsCA: true, Serial: 3}, idB) // A certified by B
	BbyA := fx.MustMint(fx.CertSpec{CN: "B", Key: "repro-b", IsCA: true, Serial: 4}, idA) // B certified by A: THE TRUST ANCHOR
	L := fx.MustMint(fx.CertSpec{CN: "leaf", Key: "repro-l", Serial: 5}, idA)             // leaf issued by A

	g := verifier.NewGraph()
	g.AddCert(AbyB.X)
	g.AddRoot(BbyA.X)
	g.AddCert(L.X)
	LB := fx.MustMint(fx.CertSpec{CN: "leaf under B", Key: "repro-lb", Serial: 6}, idB)
	// control: the anchor is reachable when its issuer pair (A) is not in the chain
	fmt.Printf("WalkChains(leaf under B) = %d chain(s)   (want 1: [leaf under B, B-by-A(root)])\n", len(g.WalkChains(LB.X)))
	// A-by-B -> B-by-A(root): B-by-A's issuer is A, the pair of the start certificate itself
	fmt.Printf("WalkChains(A-by-B)       = %d chain(s)   (want 1: [A-by-B, B-by-A(root)])\n", len(g.WalkChains(AbyB.X)))
	// leaf -> A-by-B -> B-by-A(root): B-by-A's issuer is A, which is already in the chain
	n := len(g.WalkChains(L.X))
	fmt.Printf("WalkChains(leaf under A) = %d chain(s)   (want 1: [leaf, A-by-B, B-by-A(root)])\n", n)
	if n != 1 {
		fmt.Println("DEFECT: a root-terminated, non-looping path is not returned")
		os.Exit(1)
	}
	fmt.Println("ok")
}
