// Standalone reproducer for C11 finding C: a root certificate that is not
// self-signed and whose issuer has no certificate in the graph (e.g. a
// cross-certificate used as trust anchor) is never reached by WalkChains: the
// walk follows node.parentsBySubjectAndKey, which only holds edges whose issuer
// node is known.
//
//	cd /verif/mc && GOFLAGS=-mod=mod GOPROXY=off go run -modfile=/verif/.work/c11-$(echo -n /repo | md5sum | cut -c1-10).mod ./cmd/c11/repro/dangling_root
//
// Exit status 1 = defect present.
package main

import (
	"fmt"
	"os"

	"github.com/zmap/zcrypto/verifier"
	"verifmc/internal/fx"
)

func main() {
	idX := fx.MustMint(fx.CertSpec{CN: "X", Key: "repro-x", IsCA: true, Serial: 1}, nil) // X never enters the graph
	idA := fx.MustMint(fx.CertSpec{CN: "A", Key: "repro-a", IsCA: true, Serial: 2}, nil)
	AbyX := fx.MustMint(fx.CertSpec{CN: "A", Key: "repro-a", IsCA: true, Serial: 3}, idX) // trust anchor: A certified by X
	L := fx.MustMint(fx.CertSpec{CN: "leaf", Key: "repro-l", Serial: 4}, idA)

	g := verifier.NewGraph()
	g.AddRoot(AbyX.X)
	g.AddCert(L.X)
	fmt.Printf("IsRoot(A-by-X) = %v\n", g.IsRoot(AbyX.X))
	fmt.Printf("WalkChains(A-by-X) = %d chain(s) (want 1: the certificate is itself a root)\n", len(g.WalkChains(AbyX.X)))
	n := len(g.WalkChains(L.X))
	fmt.Printf("WalkChains(leaf)   = %d chain(s) (want 1: [leaf, A-by-X(root)])\n", n)
	if n != 1 {
		fmt.Println("DEFECT: the chain to a root certificate whose own issuer is absent from the graph is not returned")
		os.Exit(1)
	}
	fmt.Println("ok")
}
