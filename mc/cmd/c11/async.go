package main

// Exhaustive schedule exploration of WalkChainsAsync (engine E3): verifier/walk.go is compiled from a
// copy whose go statement and channel operations go through the vsched shims; for each selected graph,
// start certificate, channel size and consumer program, EVERY interleaving of producer and consumer is
// executed (the space is small, so the preemption bound is effectively unbounded) and the received chains
// must be the synchronous result, with the channel closed at the end (otherwise the scheduler reports a
// deadlock: the consumer parked on the channel with no thread able to run).

import (
	"encoding/json"
	"fmt"
	"os"
	"sort"
	"strings"
	"time"

	"github.com/zmap/zcrypto/verifier"
	"github.com/zmap/zcrypto/vsched"
	"github.com/zmap/zcrypto/x509"
	"verifmc/cmd/c11/pki"
	"verifmc/internal/ev"
	"verifmc/internal/vx"
)

type asyncJob struct {
	Family   int `json:"family"`   // index into asyncSpecs()
	ChanSize int `json:"chansize"` // WalkOptions.ChannelSize
	Consumer int `json:"consumer"` // 0 = drain with range; 1 = receive one chain, yield, drain
	PB       int `json:"preempt_bound"`
}

func asyncSpecs() []*pki.Spec {
	return []*pki.Spec{pki.Straight(1), pki.Straight(3), pki.TwoRoots(), pki.Multi(), pki.Ladder(2), pki.Ladder(3), pki.Cycle(2, 1), pki.Cycle(3),
		pki.MutualCross(), pki.RootAlsoThrough(true, true), pki.Rollover(false), pki.Dangling(true), pki.NonCA(), pki.CycleRootEdge(2, 1)}
}

type asyncObs struct {
	n      int
	chains [64]string
	kept   [64]x509.CertificateChain // the delivered slices themselves, re-read after the walk has finished
	closed bool
	moved  bool // a delivered chain changed after it was received
}

//go:norace
func (o *asyncObs) addc(s string, c x509.CertificateChain) {
	if o.n < len(o.chains) {
		o.chains[o.n] = s
		o.kept[o.n] = c
	}
	o.n++
}

func asyncChainKey(u *pki.Universe, ch x509.CertificateChain) string {
	var parts []string
	for _, c := range ch {
		parts = append(parts, u.FPOf(c)[:12])
	}
	return strings.Join(parts, ">")
}

func asyncWorker(js string) {
	var j asyncJob
	out := vx.WorkerOut{Job: js, Outcomes: map[string]int64{}, Bound: -1}
	emit := func() { b, _ := json.Marshal(out); fmt.Println(string(b)) }
	if err := json.Unmarshal([]byte(js), &j); err != nil || j.Family < 0 || j.Family >= len(asyncSpecs()) {
		out.Broken = "bad job"
		emit()
		return
	}
	spec := asyncSpecs()[j.Family]
	u := pki.NewUniverse()
	b := u.Build(spec, false)
	if msg := b.CheckDump(); msg != "" {
		out.Broken = "graph differs from its specification: " + msg
		emit()
		return
	}
	seen := map[string]bool{}
	deadline := time.Now().Add(100 * time.Second)
	if os.Getenv("VERIF_TIER") == "thorough" {
		deadline = time.Now().Add(15 * time.Minute)
	}
	complete := true
	for si, start := range b.Certs {
		// reference: the synchronous walk, outside any managed execution (shims are pass-through)
		var want []string
		for _, ch := range b.G.WalkChains(start.X) {
			want = append(want, asyncChainKey(u, ch))
		}
		sort.Strings(want)
		st := vx.Explore(vx.Options{PreemptBound: j.PB, Deadline: deadline}, func(prefix []int) (vsched.Result, any) {
			o := &asyncObs{}
			res := vsched.Run(prefix, func() {
				ch := b.G.WalkChainsAsync(start.X, verifier.WalkOptions{ChannelSize: j.ChanSize})
				if j.Consumer == 1 {
					if c, ok := vsched.Recv2(ch); ok {
						o.addc(asyncChainKey(u, c), c)
						vsched.Point(vsched.KYield, nil)
					}
				}
				for c := range vsched.Range(ch) {
					o.addc(asyncChainKey(u, c), c)
				}
				o.closed = true
				for i := 0; i < o.n && i < len(o.kept); i++ {
					if asyncChainKey(u, o.kept[i]) != o.chains[i] {
						o.moved = true
					}
				}
			})
			return res, o
		}, func(x *vx.Exec) bool {
			o := x.Obs.(*asyncObs)
			cls, detail := "", ""
			switch {
			case x.Result.Panic != "":
				cls, detail = "WalkChainsAsync: panic in the walk: "+ev.MsgClass(x.Result.Panic), ""
			case x.Result.Deadlock:
				cls, detail = "WalkChainsAsync: the channel is never closed (consumer blocked forever) in some schedule", x.Result.DeadInfo
			case x.Result.Horizon:
				cls = "WalkChainsAsync: step horizon exceeded"
			case !o.closed:
				cls = "WalkChainsAsync: consumer did not finish"
			case o.moved:
				cls = "WalkChainsAsync: a chain already delivered to the consumer is modified by the rest of the walk"
			default:
				got := append([]string{}, o.chains[:min(o.n, len(o.chains))]...)
				sort.Strings(got)
				if strings.Join(got, "|") != strings.Join(want, "|") {
					cls, detail = "WalkChainsAsync delivers a different multiset of chains than WalkChains in some schedule", fmt.Sprintf("got %d want %d", len(got), len(want))
				}
			}
			if cls != "" {
				if !seen[cls] {
					seen[cls] = true
					out.Violations = append(out.Violations, vx.WorkerViol{Sig: cls, Witness: map[string]any{"job": j, "graph": spec.Name, "start_edge": si, "schedule": x.Choices, "detail": detail}})
				}
				out.Outcomes["VIOLATION "+cls]++
			} else {
				out.Outcomes[fmt.Sprintf("ok chains=%d", len(want))]++
			}
			if len(out.Samples) < 1 && len(x.Choices) > 2 {
				out.Samples = append(out.Samples, map[string]any{"async_job": j, "graph": spec.Name, "start_edge": si, "schedule": x.Choices, "chains": len(want)})
			}
			return x.Result.Stragglers == 0
		})
		out.Stats.Execs += st.Execs
		out.Stats.Points += st.Points
		out.Stats.Steps += st.Steps
		if st.MaxPoints > out.Stats.MaxPoints {
			out.Stats.MaxPoints = st.MaxPoints
		}
		out.Stats.Deadlocks += st.Deadlocks
		if st.Stragglers > 0 {
			out.Broken = "threads could not be unwound"
		}
		if !st.Complete {
			complete = false
		}
	}
	out.Stats.Complete = complete
	if complete {
		out.Bound = j.PB
	}
	emit()
}

// asyncPhase runs the schedule exploration as worker processes of this binary and merges the results.
func asyncPhase(c *ev.Ctx) {
	self, _ := os.Executable()
	var jobs []string
	pb := ev.Pick(c, 1000, 1000) // effectively unbounded: every interleaving of producer and consumer
	for f := range asyncSpecs() {
		for _, cs := range []int{0, 1, 2} {
			for cons := 0; cons <= 1; cons++ {
				b, _ := json.Marshal(asyncJob{Family: f, ChanSize: cs, Consumer: cons, PB: pb})
				jobs = append(jobs, string(b))
			}
		}
	}
	perJob := 140 * time.Second
	if !c.Quick() {
		perJob = 16 * time.Minute
	}
	outs := vx.RunWorkers(self, []string{"VERIF_TIER=" + c.Tier}, jobs, c.Workers(), perJob)
	var execs, steps, points int64
	for _, o := range outs {
		if o.Broken != "" {
			c.Incomplete("async worker " + o.Job + ": " + o.Broken)
			continue
		}
		execs += int64(o.Stats.Execs)
		steps += o.Stats.Steps
		points += o.Stats.Points
		for k, n := range o.Outcomes {
			c.Outcome("async schedules: "+k, n)
		}
		for _, v := range o.Violations {
			c.Violation(v.Sig, v.Witness)
		}
		for _, s := range o.Samples {
			c.Sample(s)
		}
		if !o.Stats.Complete {
			c.Incomplete("async " + o.Job + ": preemption bound not completed")
		}
	}
	c.States.Add(execs)
	c.Traces.Add(execs)
	c.Transitions.Add(steps)
	c.Set("async_schedule_exploration", map[string]any{"jobs": len(jobs), "graphs": len(asyncSpecs()), "channel_sizes": []int{0, 1, 2}, "consumer_programs": 2,
		"preemption_bound": pb, "executions": execs, "choice_points": points, "scheduling_steps": steps})
}
