// C11 — chain walking returns exactly the permitted root-terminated paths.
//
// Engine E2 (bounded-exhaustive inputs): graph SPECIFICATIONS are enumerated,
// realised as a real verifier.Graph (AddCert/AddRoot of certificates minted from
// the specification, asserted equal to the specification through the VerifDump
// hook), walked from every start certificate with WalkChains and — for a sweep
// of channel sizes — WalkChainsAsync, and compared with an independent
// enumeration of the permitted paths computed on the SPECIFICATION only.
//
// The full schedule exploration of WalkChainsAsync (E3) is not part of this
// file; here the asynchronous walk is only run under the Go scheduler for every
// channel size, drained with a plain `range`, and must deliver the same set and
// close its channel.
package main

import (
	"crypto/sha256"
	"encoding/hex"
	"encoding/json"
	"fmt"
	"os"
	"sort"
	"strings"
	"sync"
	"sync/atomic"
	"time"

	"github.com/zmap/zcrypto/verifier"
	"github.com/zmap/zcrypto/x509"
	"verifmc/cmd/c11/pki"
	"verifmc/internal/ev"
)

// ---------------------------------------------------------------------------
// The oracle: permitted paths of a specification
// ---------------------------------------------------------------------------

// acert is everything the oracle knows about a certificate.
type acert struct {
	fp      string
	name    string
	child   int // node index of its (subject, key); -1 = a pair that is no node of the specification
	issuer  int // node index of the pair that signed it; -1 = unknown to the specification
	inGraph bool
	root    bool
	ca      bool
	pathLen int // -1 = none
}

func (a *acert) selfSigned() bool { return a.child >= 0 && a.child == a.issuer }

type model struct {
	certs   []*acert   // in-graph certificates, in specification order
	byChild [][]*acert // node -> in-graph certificates issued TO it
	byFP    map[string]*acert
}

func nodeIndex(s *pki.Spec, n pki.Node) int {
	for i, m := range s.Nodes {
		if m.Subject == n.Subject && m.Key == n.Key {
			return i
		}
	}
	return -1
}

func newModel(b *pki.Built) *model {
	s := b.Spec
	m := &model{byChild: make([][]*acert, len(s.Nodes)), byFP: map[string]*acert{}}
	for i, e := range s.Edges {
		n := s.Nodes[e.To]
		a := &acert{fp: b.Certs[i].FP, name: b.Certs[i].Desc.Short(), child: e.To, issuer: e.From, inGraph: true, root: e.Root, ca: n.CA, pathLen: -1}
		if n.CA {
			a.pathLen = n.PathLen
		}
		m.certs = append(m.certs, a)
		m.byChild[e.To] = append(m.byChild[e.To], a)
		m.byFP[a.fp] = a
	}
	return m
}

// abstractStart describes a start certificate to the oracle.
func (m *model) abstractStart(s *pki.Spec, c *pki.Cert) *acert {
	if a, ok := m.byFP[c.FP]; ok {
		return a
	}
	a := &acert{fp: c.FP, name: c.Desc.Short(), child: nodeIndex(s, c.Desc.To), issuer: nodeIndex(s, c.Desc.From), ca: c.Desc.To.CA, pathLen: -1}
	if a.ca {
		a.pathLen = c.Desc.To.PathLen
	}
	return a
}

const (
	cutRoot     = "path ends: root certificate reached"
	cutDepth    = "cut: maximum length reached before a root"
	cutNoIssuer = "cut: issuer pair has no certificate in the graph"
	cutRevisit  = "cut: next certificate would revisit a (subject,key) pair"
	cutNonCA    = "cut: next certificate is not a CA certificate"
	cutPathLen  = "cut: next certificate's path-length limit exceeded"
	noteRootPL  = "root certificate's own path-length limit exceeded (either accepted)"
)

type oracleOut struct {
	must    map[string][]*acert // permitted under every reading
	mayOnly map[string][]*acert // permitted only if a root's own path-length limit is not enforced
	cuts    map[string]int
}

func chainKey(p []*acert) string {
	var b strings.Builder
	for i, a := range p {
		if i > 0 {
			b.WriteByte(',')
		}
		b.WriteString(a.fp)
	}
	return b.String()
}

// paths enumerates, from the statement: every path that starts at the start
// certificate, follows issuer edges (the next certificate is a certificate of
// the graph issued TO the pair that signed the previous one), stops at the first
// root edge, never has two certificates of one (subject, key) pair, has only CA
// certificates within their path-length limits between the start and the root,
// and has at most maxLen certificates.
func (m *model) paths(start *acert, maxLen int) oracleOut {
	out := oracleOut{must: map[string][]*acert{}, mayOnly: map[string][]*acert{}, cuts: map[string]int{}}
	var dfs func(path []*acert, visited uint64, rootPL bool)
	dfs = func(path []*acert, visited uint64, rootPL bool) {
		last := path[len(path)-1]
		if last.inGraph && last.root {
			out.cuts[cutRoot]++
			p := append([]*acert(nil), path...)
			if rootPL {
				out.cuts[noteRootPL]++
				out.mayOnly[chainKey(p)] = p
			} else {
				out.must[chainKey(p)] = p
			}
			return
		}
		if len(path) >= maxLen {
			out.cuts[cutDepth]++
			return
		}
		p := last.issuer
		if p < 0 || len(m.byChild[p]) == 0 {
			out.cuts[cutNoIssuer]++
			return
		}
		if visited&(1<<uint(p)) != 0 {
			// every certificate issued to p would be the second certificate of that pair
			out.cuts[cutRevisit]++
			return
		}
		below := len(path) - 1 // certificates strictly between the start and the candidate
		for _, e := range m.byChild[p] {
			if e.root {
				dfs(append(path, e), visited|1<<uint(p), rootPL || (e.pathLen >= 0 && below > e.pathLen))
				continue
			}
			if !e.ca {
				out.cuts[cutNonCA]++
				continue
			}
			if e.pathLen >= 0 && below > e.pathLen {
				out.cuts[cutPathLen]++
				continue
			}
			dfs(append(path, e), visited|1<<uint(p), rootPL)
		}
	}
	var v uint64
	if start.child >= 0 {
		v = 1 << uint(start.child)
	}
	dfs([]*acert{start}, v, false)
	return out
}

// whyNotPermitted names the first clause of the statement a returned chain breaks.
func (m *model) whyNotPermitted(start *acert, fps []string, maxLen int) string {
	if len(fps) == 0 {
		return "is empty"
	}
	var p []*acert
	for i, fp := range fps {
		switch {
		case i == 0 && fp == start.fp:
			p = append(p, start)
		case i == 0:
			return "does not start at the start certificate"
		default:
			a, ok := m.byFP[fp]
			if !ok {
				return "contains a certificate that is not in the graph"
			}
			p = append(p, a)
		}
	}
	for i := 0; i+1 < len(p); i++ {
		if p[i].issuer < 0 || p[i+1].child != p[i].issuer {
			return "has a certificate followed by a certificate that was not issued to its issuer"
		}
	}
	for i := 0; i+1 < len(p); i++ {
		if p[i].inGraph && p[i].root {
			return "continues past a root certificate"
		}
	}
	if last := p[len(p)-1]; !(last.inGraph && last.root) {
		return "does not end at a root certificate"
	}
	seen := map[int]bool{}
	for i, a := range p {
		if a.child >= 0 && seen[a.child] {
			prev := p[i-1]
			if prev.selfSigned() && prev.child == a.child {
				if i == 1 {
					return "has two certificates of one (subject,key) pair: the start certificate is self-signed, not a root, and is followed by another certificate of its own pair"
				}
				return "has two certificates of one (subject,key) pair: a self-signed non-root certificate is followed by another certificate of its own pair"
			}
			return "has two certificates of one (subject,key) pair (certification cycle)"
		}
		seen[a.child] = true
	}
	for i := 1; i+1 < len(p); i++ {
		if !p[i].ca {
			return "has a non-CA certificate between the start and the root"
		}
	}
	for i := 1; i+1 < len(p); i++ {
		if p[i].pathLen >= 0 && i-1 > p[i].pathLen {
			return "exceeds the path-length limit of an intermediate certificate"
		}
	}
	if len(p) > maxLen {
		return fmt.Sprintf("has %d certificates more than the maximum length", len(p)-maxLen)
	}
	return "is not a permitted path (unclassified)"
}

// whyMissed classifies a permitted chain that was not returned.
func (m *model) whyMissed(p []*acert, maxLen int) string {
	last := p[len(p)-1]
	if len(p) > 1 && !last.selfSigned() && (last.issuer < 0 || len(m.byChild[last.issuer]) == 0) {
		return "the chain ends at a root certificate that is not self-signed and whose issuer pair has no certificate in the graph"
	}
	if !last.selfSigned() && last.issuer >= 0 {
		for _, a := range p[:len(p)-1] {
			if a.child == last.issuer {
				return "the chain ends at a root certificate that is not self-signed and whose issuer pair occurs earlier in the chain"
			}
		}
	}
	// one primary feature only (a single defect must not fan out into many signatures)
	for i := 1; i < len(p); i++ {
		if p[i].pathLen >= 0 && i-1 == p[i].pathLen {
			return "a certificate of the chain is exactly at its path-length limit"
		}
	}
	switch {
	case len(p) == maxLen:
		return "the chain has exactly the maximum length"
	case len(p) == 1:
		return "the start certificate is itself a root"
	case !last.selfSigned():
		return "the root certificate is not self-signed"
	case !last.ca:
		return "the root certificate is not a CA certificate"
	case !p[0].inGraph:
		return "the start certificate is not in the graph"
	}
	return "an ordinary chain"
}

// ---------------------------------------------------------------------------
// Running the real walk
// ---------------------------------------------------------------------------

const hangGuard = 60 * time.Second

type walkRes struct {
	chains [][]string
	panicS string
}

func fpOf(c *x509.Certificate) string {
	s := sha256.Sum256(c.Raw)
	return hex.EncodeToString(s[:])
}

func toFPs(chains []x509.CertificateChain) [][]string {
	out := make([][]string, len(chains))
	for i, ch := range chains {
		l := make([]string, len(ch))
		for j, c := range ch {
			if c == nil {
				l[j] = "nil"
			} else {
				l[j] = fpOf(c)
			}
		}
		out[i] = l
	}
	return out
}

// doWalk runs one walk: size == syncWalk means WalkChains, anything else is
// WalkChainsAsync with that ChannelSize drained by a plain range.
const syncWalk = -1000

func doWalk(g *verifier.Graph, c *x509.Certificate, size int) walkRes {
	var r walkRes
	panicked, msg, site := ev.Try(func() {
		if size == syncWalk {
			r.chains = toFPs(g.WalkChains(c))
			return
		}
		var got []x509.CertificateChain
		for ch := range g.WalkChainsAsync(c, verifier.WalkOptions{ChannelSize: size}) {
			got = append(got, ch)
		}
		r.chains = toFPs(got)
	})
	if panicked {
		r.panicS = "panic@" + site + ": " + ev.MsgClass(msg)
	}
	return r
}

// guarded joins the walk; a walk that never returns (channel never closed) would
// block forever, so a generous guard abandons it. ok=false is never a verdict by
// itself: the caller reproduces it.
func guarded(g *verifier.Graph, c *x509.Certificate, size int, guard time.Duration) (walkRes, bool) {
	done := make(chan walkRes, 1)
	go func() { done <- doWalk(g, c, size) }()
	t := time.NewTimer(guard)
	defer t.Stop()
	select {
	case r := <-done:
		return r, true
	case <-t.C:
		return walkRes{}, false
	}
}

// ---------------------------------------------------------------------------
// Enumeration of part (i): all small digraphs
// ---------------------------------------------------------------------------

type cfg struct {
	n    int
	d    [16]uint8 // d[i*n+j]: certificate issued by i to j — 0 absent, 1 present, 2 present and root
	ca   [4]bool
	pl   [4]int8
	spec *pki.Spec // part (ii): a hand-listed specification instead
}

func permutations(n int) [][]int {
	var out [][]int
	var rec func(p []int, used uint)
	rec = func(p []int, used uint) {
		if len(p) == n {
			out = append(out, append([]int(nil), p...))
			return
		}
		for i := 0; i < n; i++ {
			if used&(1<<uint(i)) == 0 {
				rec(append(p, i), used|1<<uint(i))
			}
		}
	}
	rec(nil, 0)
	return out
}

func (c *cfg) key(p []int) uint64 {
	n := c.n
	var d [16]uint8
	var ca, pl [4]uint64
	for i := 0; i < n; i++ {
		for j := 0; j < n; j++ {
			d[p[i]*n+p[j]] = c.d[i*n+j]
		}
		if c.ca[i] {
			ca[p[i]] = 1
		}
		pl[p[i]] = uint64(c.pl[i] + 1)
	}
	var k uint64
	for i := 0; i < n*n; i++ {
		k = k*3 + uint64(d[i])
	}
	for i := 0; i < n; i++ {
		k = k*2 + ca[i]
	}
	for i := 0; i < n; i++ {
		k = k*3 + pl[i]
	}
	return k
}

// enumSmall lists one representative per isomorphism class of: n nodes, every
// subset of the n*n issuer->child certificates, root flag on self-signed
// certificates (or on any certificate), per-node CA flag, one path-length value
// in {0,1} on at most one (CA) node. Graphs with a node that has no certificate
// at all (neither issued to nor by it) are those of a smaller n and are skipped.
func enumSmall(n int, rootAnywhere, caFlags, pathLens bool) (out []cfg, raw int) {
	perms := permutations(n)
	total := 1
	for i := 0; i < n*n; i++ {
		total *= 3
	}
	for code := 0; code < total; code++ {
		var c cfg
		c.n = n
		x := code
		ok := true
		for i := n*n - 1; i >= 0; i-- {
			c.d[i] = uint8(x % 3)
			x /= 3
			if c.d[i] == 2 && !rootAnywhere && i/n != i%n {
				ok = false
			}
		}
		if !ok {
			continue
		}
		if n > 1 {
			for v := 0; v < n && ok; v++ {
				touched := false
				for w := 0; w < n; w++ {
					if c.d[v*n+w] != 0 || c.d[w*n+v] != 0 {
						touched = true
					}
				}
				ok = touched
			}
			if !ok {
				continue
			}
		}
		caMax := 1
		if caFlags {
			caMax = 1 << uint(n)
		}
		for cab := 0; cab < caMax; cab++ {
			nonCA := 0
			for i := 0; i < n; i++ {
				c.ca[i] = !caFlags || cab&(1<<uint(i)) != 0
				if !c.ca[i] {
					nonCA++
				}
			}
			if n >= 4 && nonCA > 1 {
				continue // 4 nodes: at most one non-CA node (keeps the thorough tier inside its budget)
			}
			plOpts := [][2]int{{-1, -1}}
			if pathLens {
				for j := 0; j < n; j++ {
					if c.ca[j] {
						plOpts = append(plOpts, [2]int{j, 0}, [2]int{j, 1})
					}
				}
			}
			for _, po := range plOpts {
				for i := 0; i < 4; i++ {
					c.pl[i] = -1
				}
				if po[0] >= 0 {
					c.pl[po[0]] = int8(po[1])
				}
				raw++
				id := c.key(perms[0])
				canonical := true
				for _, p := range perms[1:] {
					if c.key(p) < id {
						canonical = false
						break
					}
				}
				if canonical {
					out = append(out, c)
				}
			}
		}
	}
	return out, raw
}

func (c *cfg) toSpec() *pki.Spec {
	if c.spec != nil {
		return c.spec
	}
	s := &pki.Spec{}
	var parts []string
	for i := 0; i < c.n; i++ {
		nd := pki.N(i)
		nd.CA = c.ca[i]
		nd.PathLen = int(c.pl[i])
		s.Nodes = append(s.Nodes, nd)
	}
	for i := 0; i < c.n; i++ {
		for j := 0; j < c.n; j++ {
			if st := c.d[i*c.n+j]; st != 0 {
				s.Edges = append(s.Edges, pki.Edge{From: i, To: j, Root: st == 2})
				t := fmt.Sprintf("%d>%d", i, j)
				if st == 2 {
					t += "R"
				}
				parts = append(parts, t)
			}
		}
	}
	s.Name = fmt.Sprintf("digraph on %d nodes [%s]", c.n, strings.Join(parts, " "))
	return s
}

// ---------------------------------------------------------------------------
// Start certificates
// ---------------------------------------------------------------------------

var freshLeaf = pki.Node{Subject: "c11 fresh leaf", Key: "c11-fresh", CA: false, PathLen: -1}
var ghost = pki.Node{Subject: "c11 ghost", Key: "c11-ghost", CA: true, PathLen: -1}

const siblingVariant = 7

type startKind int

const (
	skEdge    startKind = iota // a certificate of the graph
	skSibling                  // not in the graph; same issuer and subject pair as a certificate of the graph
	skAbsent                   // not in the graph; between two nodes of the specification that have no certificate
	skFresh                    // not in the graph; a new leaf issued by a node of the specification
	skUnknown                  // not in the graph; issuer unknown
)

var startKindNames = []string{"start: certificate of the graph", "start: not in the graph, sibling of a graph certificate", "start: not in the graph, between two specification nodes",
	"start: not in the graph, fresh leaf under a node", "start: not in the graph, issuer unknown"}

type startT struct {
	desc pki.CertDesc
	kind startKind
}

func startsOf(s *pki.Spec, allPairs bool) []startT {
	var out []startT
	have := map[[2]int]bool{}
	for _, e := range s.Edges {
		out = append(out, startT{s.Desc(e), skEdge})
		if !have[[2]int{e.From, e.To}] {
			have[[2]int{e.From, e.To}] = true
			d := s.Desc(e)
			d.Variant = siblingVariant
			out = append(out, startT{d, skSibling})
		}
	}
	if allPairs {
		for i := range s.Nodes {
			for j := range s.Nodes {
				if !have[[2]int{i, j}] {
					out = append(out, startT{pki.CertDesc{From: s.Nodes[i], To: s.Nodes[j]}, skAbsent})
				}
			}
		}
	}
	for i := range s.Nodes {
		out = append(out, startT{pki.CertDesc{From: s.Nodes[i], To: freshLeaf}, skFresh})
	}
	out = append(out, startT{pki.CertDesc{From: ghost, To: freshLeaf}, skUnknown})
	return out
}

// ---------------------------------------------------------------------------
// The check
// ---------------------------------------------------------------------------

type witness struct {
	Spec        *pki.Spec    `json:"spec"`
	Reverse     bool         `json:"inserted_in_reverse_order"`
	AllPairs    bool         `json:"all_pairs"`
	Start       pki.CertDesc `json:"start"`
	StartKind   string       `json:"start_kind"`
	ChannelSize *int         `json:"channel_size,omitempty"`
	Graph       []string     `json:"graph"`
	Chain       []string     `json:"chain,omitempty"`
	Returned    [][]string   `json:"returned,omitempty"`
	Permitted   [][]string   `json:"permitted,omitempty"`
	Detail      string       `json:"detail,omitempty"`
	History     *pki.History `json:"history,omitempty"`
}

var channelSizes = []int{0, -1, 1, 2, 4, 16}

type runner struct {
	c       *ev.Ctx
	maxLen  int
	hung    atomic.Bool
	slow    atomic.Int64
	hangMu  sync.Mutex
	sampled sync.Map
}

func names(m *model, start *acert, fps []string) []string {
	out := make([]string, len(fps))
	for i, fp := range fps {
		switch {
		case fp == start.fp:
			out[i] = start.name
		case m.byFP[fp] != nil:
			out[i] = m.byFP[fp].name
		default:
			out[i] = "?" + fp[:8]
		}
	}
	return out
}

// walk runs one guarded walk and reproduces a guard expiry before reporting it.
func (r *runner) walk(b *pki.Built, c *x509.Certificate, size int, w func() witness) (walkRes, bool) {
	res, ok := guarded(b.G, c, size, hangGuard)
	if ok {
		return res, true
	}
	// reproduce twice more (in parallel); only three expiries make a report
	type rr struct {
		res walkRes
		ok  bool
	}
	ch := make(chan rr, 2)
	for k := 0; k < 2; k++ {
		go func() { x, ok := guarded(b.G, c, size, hangGuard); ch <- rr{x, ok} }()
	}
	var good *walkRes
	for k := 0; k < 2; k++ {
		if x := <-ch; x.ok {
			good = &x.res
		}
	}
	if good != nil {
		r.slow.Add(1)
		return *good, true
	}
	r.hangMu.Lock()
	defer r.hangMu.Unlock()
	wt := w()
	if size == syncWalk {
		r.c.Violation("WalkChains does not return (reproduced 3 times, guard 60 s each)", wt)
	} else {
		wt.ChannelSize = &size
		r.c.Violation("WalkChainsAsync: channel not closed although the consumer drains it (reproduced 3 times, guard 60 s each)", wt)
	}
	r.hung.Store(true)
	r.c.Broken("a walk blocks forever; stopping (blocked goroutines cannot be reclaimed)")
	return walkRes{}, false
}

func multiset(chains [][]string) map[string]int {
	m := map[string]int{}
	for _, ch := range chains {
		m[strings.Join(ch, ",")]++
	}
	return m
}

// one evaluates one (graph, start certificate) case.
func (r *runner) one(u *pki.Universe, b *pki.Built, m *model, st startT, reverse, allPairs bool, h ev.Hist, report bool) {
	c := r.c
	s := b.Spec
	cert := u.Cert(st.desc)
	a := m.abstractStart(s, cert)
	if (st.kind == skEdge) != a.inGraph {
		c.Broken("start certificate %s: kind %v but inGraph=%v", st.desc.Short(), st.kind, a.inGraph)
	}
	want := m.paths(a, r.maxLen)
	c.Evaluations.Add(1)
	mkW := func() witness {
		return witness{Spec: s, Reverse: reverse, AllPairs: allPairs, Start: st.desc, StartKind: startKindNames[st.kind], Graph: s.Describe(), History: b.History}
	}
	full := func(w *witness, got [][]string) {
		for _, g := range got {
			w.Returned = append(w.Returned, names(m, a, g))
		}
		var ks []string
		for k := range want.must {
			ks = append(ks, k)
		}
		sort.Strings(ks)
		for _, k := range ks {
			w.Permitted = append(w.Permitted, names(m, a, strings.Split(k, ",")))
		}
	}
	viol := func(sig string, w witness) {
		if report {
			c.Violation(sig, w)
		}
	}

	res, ok := r.walk(b, cert.X, syncWalk, mkW)
	if !ok {
		return
	}
	c.Transitions.Add(1)
	if res.panicS != "" {
		viol("WalkChains: "+res.panicS, mkW())
		return
	}
	got := multiset(res.chains)
	conform := true
	for k, n := range got {
		fps := strings.Split(k, ",")
		if n > 1 {
			conform = false
			w := mkW()
			w.Chain = names(m, a, fps)
			w.Detail = fmt.Sprintf("returned %d times", n)
			full(&w, res.chains)
			viol("WalkChains returns one chain more than once", w)
		}
		if _, ok := want.must[k]; ok {
			continue
		}
		if _, ok := want.mayOnly[k]; ok {
			h["either: chain through a root whose own path-length limit is exceeded — returned"]++
			continue
		}
		conform = false
		w := mkW()
		w.Chain = names(m, a, fps)
		full(&w, res.chains)
		viol("WalkChains returns a chain that "+m.whyNotPermitted(a, fps, r.maxLen), w)
	}
	for k, p := range want.must {
		if got[k] == 0 {
			conform = false
			w := mkW()
			w.Chain = names(m, a, strings.Split(k, ","))
			full(&w, res.chains)
			viol("WalkChains misses a permitted chain: "+m.whyMissed(p, r.maxLen), w)
		}
	}
	for k := range want.mayOnly {
		if got[k] == 0 {
			h["either: chain through a root whose own path-length limit is exceeded — not returned"]++
		}
	}

	// asynchronous walk, every channel size: same multiset, channel closed
	for _, size := range channelSizes {
		size := size
		ar, ok := r.walk(b, cert.X, size, mkW)
		if !ok {
			return
		}
		c.Transitions.Add(1)
		if ar.panicS != "" {
			w := mkW()
			w.ChannelSize = &size
			viol("WalkChainsAsync: "+ar.panicS, w)
			conform = false
			continue
		}
		ag := multiset(ar.chains)
		same := len(ag) == len(got)
		for k, n := range got {
			if ag[k] != n {
				same = false
			}
		}
		if !same {
			conform = false
			w := mkW()
			w.ChannelSize = &size
			w.Detail = fmt.Sprintf("WalkChains returned %d chains, the channel delivered %d", len(res.chains), len(ar.chains))
			for _, g := range ar.chains {
				w.Returned = append(w.Returned, names(m, a, g))
			}
			viol("WalkChainsAsync delivers a different set of chains than WalkChains (channel size in the witness)", w)
		}
	}

	// bookkeeping (vacuity guards)
	c.Traces.Add(1)
	if len(want.must)+len(want.mayOnly) > 0 {
		c.Distinct.Add(1)
	}
	h[startKindNames[st.kind]]++
	for k, n := range want.cuts {
		h["oracle "+k] += int64(n)
	}
	n := len(want.must)
	var cls string
	switch {
	case n == 0:
		cls = "permitted chains: 0"
	case n == 1:
		cls = "permitted chains: 1"
	case n <= 4:
		cls = "permitted chains: 2-4"
	case n <= 31:
		cls = "permitted chains: 5-31"
	default:
		cls = "permitted chains: 32+"
	}
	h[cls]++
	for _, p := range want.must {
		if len(p) == r.maxLen {
			h["permitted chain of exactly the maximum length"]++
		}
	}
	if conform {
		h["case conforming (sync + all channel sizes)"]++
	} else {
		h["case with a discrepancy"]++
	}
	if report && n >= 2 && len(s.Edges) <= 8 && c.WantSample() {
		if _, dup := r.sampled.LoadOrStore(cls+startKindNames[st.kind], true); !dup {
			w := mkW()
			full(&w, res.chains)
			c.Sample(w)
		}
	}
}

// graph evaluates one specification with all its start certificates.
func (r *runner) graph(u *pki.Universe, s *pki.Spec, reverse, allPairs bool, h ev.Hist, only *pki.CertDesc) {
	c := r.c
	if len(s.Nodes) > 62 {
		c.Broken("specification too large for the oracle's visited mask")
	}
	b := u.Build(s, reverse)
	c.Transitions.Add(int64(len(s.Edges)))
	if diff := b.CheckDump(); diff != "" {
		c.Broken("the graph built from %q is not the specified graph (C10's subject, not C11's): %s", s.Name, diff)
	}
	m := newModel(b)
	c.States.Add(1)
	for _, st := range startsOf(s, allPairs) {
		if only != nil && *only != st.desc {
			continue
		}
		r.one(u, b, m, st, reverse, allPairs, h, true)
	}
}

// growth walks ONE graph object while it grows: after every insertion (and before the first) every start
// certificate — certificates already in the graph, certificates of the specification that are not in yet,
// siblings, fresh leaves under every node, a leaf of an unknown issuer — is walked (synchronously and with every
// channel size) and compared with the oracle for the edges inserted so far. Earlier walks on the same object
// precede every later state, so anything a walk leaves behind in the graph (memoised start edges, signature
// flags, adjacency fix-ups done lazily) that is not invalidated by a later AddCert/AddRoot shows up as a
// difference from the oracle, which only knows the specification.
func (r *runner) growth(u *pki.Universe, s *pki.Spec, reverse bool, h ev.Hist) {
	c := r.c
	g := verifier.NewGraph()
	n := len(s.Edges)
	in := make([]bool, n)
	for step := 0; step <= n; step++ {
		if step > 0 {
			i := step - 1
			if reverse {
				i = n - step
			}
			in[i] = true
			x := u.Cert(s.Desc(s.Edges[i])).X
			if s.Edges[i].Root {
				g.AddRoot(x)
			} else {
				g.AddCert(x)
			}
			c.Transitions.Add(1)
		}
		ps := &pki.Spec{Name: fmt.Sprintf("%s [growth history: %d of %d certificates inserted]", s.Name, step, n), Nodes: s.Nodes}
		for i, e := range s.Edges {
			if in[i] {
				ps.Edges = append(ps.Edges, e)
			}
		}
		ref := u.Build(ps, false) // mints/looks up the certificates; its own graph is only used for the sanity check below
		if diff := ref.CheckDump(); diff != "" {
			c.Broken("the graph built from %q is not the specified graph (C10's subject, not C11's): %s", ps.Name, diff)
		}
		hb := *ref
		hb.G = g
		hb.History = &pki.History{Full: s, Step: step, Reverse: reverse}
		if diff := hb.CheckDump(); diff != "" {
			c.Broken("growth history: after %d insertions and the walks in between the graph is not the specified graph (C10's subject, not C11's): %s", step, diff)
		}
		m := newModel(&hb)
		c.States.Add(1)
		for _, st := range startsOf(ps, true) {
			r.one(u, &hb, m, st, reverse, true, h, true)
		}
		if r.hung.Load() {
			return
		}
	}
	h["growth histories: graph states walked in place"] += int64(n + 1)
}

func main() {
	for i, a := range os.Args {
		if a == "-worker" && i+1 < len(os.Args) {
			asyncWorker(os.Args[i+1])
			return
		}
	}
	ev.Main("C11", "model_checking", func(c *ev.Ctx) {
		defer func() {
			if c.Replay == nil {
				asyncPhase(c)
			}
		}()
		maxLen := verifier.VerifC11MaxIntermediateCount
		r := &runner{c: c, maxLen: maxLen}
		c.Set("maximum_chain_length_used_by_oracle", maxLen)
		c.Set("note_on_maximum", fmt.Sprintf("the only documentation of the limit is the unexported constant maxIntermediateCount = %d (no comment) and the line 'If we've traveled too far, just stop'; the statement speaks of a maximum LENGTH, so the oracle requires every permitted path of <= %d certificates (start and root included) and forbids longer ones. Read as a count of intermediates the name would permit %d certificates; the walk returns at most %d intermediates.", maxLen, maxLen, maxLen+2, maxLen-2))

		if c.Replay != nil {
			var w witness
			if err := json.Unmarshal(c.Replay, &w); err != nil || w.Spec == nil {
				c.Broken("bad witness: %v", err)
			}
			h := ev.Hist{}
			if w.History != nil && w.History.Full != nil {
				r.growth(pki.NewUniverse(), w.History.Full, w.History.Reverse, h)
				c.Merge(h)
				return
			}
			r.graph(pki.NewUniverse(), w.Spec, w.Reverse, w.AllPairs, h, &w.Start)
			c.Merge(h)
			return
		}

		c.Rule("graph specifications = (i) one representative per isomorphism class of all digraphs on 1..3 (subject,key) nodes: every subset of the n*n issuer->child certificates x root flag (quick: on self-signed certificates; thorough: on any certificate) x per-node CA flag x pathLenConstraint in {0,1} on at most one CA node [quick also: 3 nodes, root flag on any certificate, all CA, no path length; thorough also: 4 nodes, at most one non-CA node, no path length, roots self-signed]; (ii) hand-listed families on up to 18 nodes (straight chains of 1..12 certificates, path-length limits at and beside their boundary, cross-signed ladders with 2^k paths k in {1,2,3,6,7,8}, cycles of length 2..4 with 0/1/2 exits to a root or with a cycle edge in the root store, two roots, parallel certificates, roots that are also cross-signed, mutual cross-signs, key rollover (one subject, two keys), non-CA intermediates, dangling issuers); every graph is built with AddCert/AddRoot (alternately in specification and in reverse order) and asserted equal to its specification through VerifDump. Start certificates per graph = every certificate of the graph + for every connected node pair a sibling certificate that is not in the graph + (part i) a certificate for every unconnected ordered node pair + a fresh leaf under every node + a leaf with an unknown issuer. Per (graph,start): WalkChains and WalkChainsAsync with ChannelSize in {0,-1,1,2,4,16}. (iii) growth histories: every 1-/2-node class, the small families and every family of <= 8 certificates is also grown certificate by certificate (both orders) on ONE graph object, with all starts (incl. certificates not inserted yet) walked after every insertion and compared with the oracle of the edges inserted so far. distinct = (graph,start) cases with at least one permitted chain")
		c.Assume("oracle = depth-first enumeration over the SPECIFICATION (never over Graph internals) transcribing the statement; compared with the walk as multisets of SHA-256(DER) sequences",
			"a root certificate's own pathLenConstraint: the statement constrains only the certificates before the root, so chains through a root whose own limit is exceeded are accepted whether returned or not (counted as 'either')",
			"maximum length = value of verifier.maxIntermediateCount read through an in-package constant, applied to the number of certificates of the chain (see note_on_maximum)",
			"WalkChainsAsync is exercised under the Go scheduler only (one run per channel size); the schedule exploration is a separate check. A walk that does not finish within 60 s is retried twice and reported only if all three block",
			"certificates are Ed25519-signed; the graph built is asserted to be the specified one, so issuer resolution (C10) is trusted here")

		var jobs []cfg
		stats := map[string]any{}
		add := func(label string, n int, rootAnywhere, caFlags, pathLens bool) {
			l, raw := enumSmall(n, rootAnywhere, caFlags, pathLens)
			stats[label] = map[string]int{"labelled_graphs": raw, "isomorphism_classes": len(l)}
			jobs = append(jobs, l...)
		}
		fams := pki.Families()
		// root flag on ANY certificate for n <= 2 in both tiers, for n = 3 in the thorough tier
		add("part_i_1_node", 1, true, true, true)
		add("part_i_2_nodes", 2, true, true, true)
		add("part_i_3_nodes", 3, !c.Quick(), true, true)
		for _, s := range fams { // after the small digraphs: the first witness of a signature is then a small graph
			jobs = append(jobs, cfg{spec: s})
		}
		if c.Quick() {
			add("part_i_3_nodes_root_flag_on_any_certificate_all_CA_no_pathlen", 3, true, false, false)
		} else {
			add("part_i_4_nodes_at_most_one_non_CA_no_pathlen_roots_self_signed", 4, false, true, false)
		}
		stats["part_ii_hand_listed_families"] = len(fams)
		c.Set("graphs", stats)

		W := c.Workers()
		unis := make([]*pki.Universe, W)
		hists := make([]ev.Hist, W)
		for i := range unis {
			unis[i] = pki.NewUniverse()
			hists[i] = ev.Hist{}
		}
		done := c.Parallel(len(jobs), func(w, i int) {
			if r.hung.Load() {
				return
			}
			j := &jobs[i]
			r.graph(unis[w], j.toSpec(), i%2 == 1, j.spec == nil, hists[w], nil)
		})
		if !done {
			c.Incomplete(fmt.Sprintf("budget hit: only part of the %d graph specifications was walked", len(jobs)))
		}
		// growth histories: every 1- and 2-node digraph class, the small families and every hand-listed family of
		// at most 8 certificates, each grown in specification order and in reverse order
		var grow []*pki.Spec
		l1, _ := enumSmall(1, true, true, true)
		l2, _ := enumSmall(2, true, true, true)
		for i := range l1 {
			grow = append(grow, l1[i].toSpec())
		}
		for i := range l2 {
			grow = append(grow, l2[i].toSpec())
		}
		grow = append(grow, pki.SmallFamilies()...)
		for _, s := range fams {
			if len(s.Edges) <= 8 {
				grow = append(grow, s)
			}
		}
		c.Set("growth_histories", map[string]any{"specifications": len(grow), "orders": 2})
		gdone := c.Parallel(2*len(grow), func(w, i int) {
			if r.hung.Load() {
				return
			}
			r.growth(unis[w], grow[i/2], i%2 == 1, hists[w])
		})
		if !gdone {
			c.Incomplete("budget hit: only part of the growth histories was walked")
		}
		for _, h := range hists {
			c.Merge(h)
		}
		if n := r.slow.Load(); n > 0 {
			c.Set("walks_that_exceeded_the_guard_once_but_finished_on_retry", n)
		}
	})
}
