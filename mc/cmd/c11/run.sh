#!/bin/bash
# Called by /verif/check (which exports VERIF_BIN, VERIF_MODARGS, VERIF_REPO_DIR, VERIF_DIR) as: run.sh <tier|build> [flags]
#
# Why this check needs its own build step: package verifier imports github.com/zmap/zcertificate (and, through it,
# logrus). The shared mc/go.mod does not list those modules and they cannot be resolved offline (GOPROXY=off), and
# builders must not edit mc/go.mod. So: build with a private modfile under .work/ = the modfile check would have
# used (mc/go.mod, or the alt-repo copy) + the two requirements at the versions the zcrypto checkout itself pins.
set -u
TIER="${1:?usage: run.sh quick|thorough|build [flags]}"; shift
VERIF="${VERIF_DIR:-/verif}"
REPO="${VERIF_REPO_DIR:-/repo}"
BIN="${VERIF_BIN:-$VERIF/.bin/c11}"
export GOFLAGS=-mod=mod GOPROXY=off
cd "$VERIF/mc" || exit 2
base="$VERIF/mc/go.mod"
args=()
for a in ${VERIF_MODARGS:-}; do
  case "$a" in
    -modfile=*) base="${a#-modfile=}" ;;
    *) args+=("$a") ;;
  esac
done
tag="$(echo -n "$REPO" | md5sum | cut -c1-10)"
priv="$VERIF/.work/c11-$tag.mod"
mkdir -p "$VERIF/.work" "$VERIF/.bin"
{
  cat "$base"
  echo
  echo "require ("
  for m in github.com/zmap/zcertificate github.com/sirupsen/logrus; do
    if ! grep -q "^[[:space:]]*$m " "$base"; then
      grep -E "^[[:space:]]*$m v" "$REPO/go.mod" | head -1 | sed 's#$# // indirect#'
    fi
  done
  echo ")"
} > "$priv.tmp.$$" && mv "$priv.tmp.$$" "$priv"
cp "$REPO/go.sum" "${priv%.mod}.sum"
# E3: compile verifier/walk.go from a copy whose go statement / channel operations go through the vsched shims
# (pass-through outside a managed execution), merged with the in-package overlay prepared by ./check.
baseovl=""; rest=()
set -- ${args[@]+"${args[@]}"}
while [ $# -gt 0 ]; do
  case "$1" in
    -overlay) baseovl="$2"; shift 2 ;;
    *) rest+=("$1"); shift ;;
  esac
done
rw="$VERIF/.work/rw-c11-$tag"; rm -rf "$rw"; mkdir -p "$rw"
go build -o "$VERIF/.bin/vrewrite" ./cmd/vrewrite || { echo "CHECK-BROKEN C11: vrewrite build failed" >&2; exit 2; }
"$VERIF/.bin/vrewrite" -repo "$REPO" -src "$VERIF/mc/vsched_src" -out "$rw" -overlay "$rw/overlay.json" ${baseovl:+-merge "$baseovl"} 'verifier/walk.go:full' 2> "$rw/rewrite.log" \
  || { cat "$rw/rewrite.log" >&2; echo "CHECK-BROKEN C11: source rewriting failed" >&2; exit 2; }
args=(${rest[@]+"${rest[@]}"} -overlay "$rw/overlay.json")
if ! go build -modfile="$priv" ${args[@]+"${args[@]}"} -tags verif -o "$BIN" ./cmd/c11 2> "$BIN.buildlog"; then
  cat "$BIN.buildlog" >&2
  echo "CHECK-BROKEN C11: build failed" >&2
  exit 2
fi
[ "$TIER" = build ] && exit 0
exec "$BIN" -tier "$TIER" "$@"
