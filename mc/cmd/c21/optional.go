package main

// The optional-reader family. Expectations are derived from the reference
// bytes of the rest of the level: the element "is present" iff the next
// reference byte is the reader's tag (that is the property's wording: "consume
// an element only when its tag is present").

import (
	"bytes"
	"fmt"
	"math/big"

	"github.com/zmap/zcrypto/cryptobyte"
)

// readOptional handles ids[j]. It returns a failure, or the index/offset to
// continue from; stop=true ends the program without a verdict on the rest
// (the statement is silent: follower bytes that merely begin with the tag).
func (r *runner) readOptional(s *cryptobyte.String, ids []int, j int, ref []byte, off int, levelIn []byte, v int) (f *failure, nj, noff int, stop bool) {
	i := ids[j]
	e := r.e(i)
	rest := ref[off:]
	tag := byte(e.tag)
	presentRef := len(rest) > 0 && rest[0] == tag
	if e.present && !presentRef {
		panic("harness: written optional element not at the reference offset")
	}
	spec := true
	var content []byte
	total := 0
	if presentRef {
		_, c, t, ok := refTLV(rest)
		if !ok {
			spec = false
		} else {
			content, total = c, t
		}
	}
	var wantZ *big.Int
	var wantBytes []byte
	var wantB bool
	if presentRef && spec {
		switch e.k {
		case kOptInt, kOptBigInt, kOptInt64, kOptUint64:
			if e.present {
				wantZ = e.z
			} else if t2, c2, n2, ok2 := refTLV(content); !ok2 || t2 != 0x02 || n2 != len(content) {
				spec = false
			} else if z, okz := refInteger(c2); !okz || ((e.k == kOptInt || e.k == kOptInt64) && !z.IsInt64()) || (e.k == kOptUint64 && !z.IsUint64()) {
				spec = false
			} else {
				wantZ = z
			}
		case kOptOctet:
			if e.present {
				wantBytes = e.data
			} else if t2, c2, n2, ok2 := refTLV(content); !ok2 || t2 != 0x04 || n2 != len(content) {
				spec = false
			} else {
				wantBytes = c2
			}
		case kOptBool:
			if e.present {
				wantB = e.b
			} else if len(content) == 1 && (content[0] == 0 || content[0] == 0xff) {
				wantB = content[0] == 0xff
			} else {
				spec = false
			}
		}
	}
	state := "absent"
	if presentRef {
		state = "present"
	}
	follower := r.followerClass(ids, off+total, int(tag), rest[total:])

	reader := ""
	ok := false
	bad := ""
	var child cryptobyte.String
	switch e.k {
	case kOptASN1:
		out := cryptobyte.String{0xee}
		p := !presentRef
		if v%2 == 0 {
			reader = "ReadOptionalASN1"
			r.phase = reader
			ok = s.ReadOptionalASN1(&out, &p, e.tag)
			if p != presentRef {
				bad = fmt.Sprintf("outPresent=%v", p)
			}
		} else {
			reader = "ReadOptionalASN1(outPresent=nil)"
			r.phase = reader
			ok = s.ReadOptionalASN1(&out, nil, e.tag)
		}
		if presentRef && spec && bad == "" && off+total <= len(levelIn) && !bytes.Equal(out, levelIn[off+total-len(content):off+total]) {
			bad = "content differs: " + hexShort(out)
		}
		child = out
	case kOptSkip:
		reader = "SkipOptionalASN1"
		r.phase = reader
		ok = s.SkipOptionalASN1(e.tag)
	case kOptInt:
		reader = "ReadOptionalASN1Integer(*int)"
		r.phase = reader
		x := 99
		ok = s.ReadOptionalASN1Integer(&x, e.tag, int(e.defI))
		want := e.defI
		if presentRef && spec {
			want = wantZ.Int64()
		}
		if int64(x) != want {
			bad = fmt.Sprintf("got %d want %d", x, want)
		}
	case kOptInt64:
		reader = "ReadOptionalASN1Integer(*int64)"
		r.phase = reader
		x := int64(99)
		ok = s.ReadOptionalASN1Integer(&x, e.tag, int64(e.defI))
		want := e.defI
		if presentRef && spec {
			want = wantZ.Int64()
		}
		if x != want {
			bad = fmt.Sprintf("got %d want %d", x, want)
		}
	case kOptUint64:
		reader = "ReadOptionalASN1Integer(*uint64)"
		r.phase = reader
		x := uint64(99)
		ok = s.ReadOptionalASN1Integer(&x, e.tag, uint64(e.defI))
		want := uint64(e.defI)
		if presentRef && spec {
			want = wantZ.Uint64()
		}
		if x != want {
			bad = fmt.Sprintf("got %d want %d", x, want)
		}
	case kOptBigInt:
		reader = "ReadOptionalASN1Integer(*big.Int)"
		r.phase = reader
		x := big.NewInt(99)
		ok = s.ReadOptionalASN1Integer(x, e.tag, big.NewInt(e.defI))
		want := big.NewInt(e.defI)
		if presentRef && spec {
			want = wantZ
		}
		if x.Cmp(want) != 0 {
			bad = fmt.Sprintf("got %s want %s", x, want)
		}
	case kOptOctet:
		x := []byte{9}
		p := !presentRef
		if v%2 == 0 {
			reader = "ReadOptionalASN1OctetString"
			r.phase = reader
			ok = s.ReadOptionalASN1OctetString(&x, &p, e.tag)
			if p != presentRef {
				bad = fmt.Sprintf("outPresent=%v", p)
			}
		} else {
			reader = "ReadOptionalASN1OctetString(outPresent=nil)"
			r.phase = reader
			ok = s.ReadOptionalASN1OctetString(&x, nil, e.tag)
		}
		if bad == "" {
			if presentRef && spec && !bytes.Equal(x, wantBytes) {
				bad = "octets differ: " + hexShort(x)
			} else if !presentRef && len(x) != 0 {
				bad = "out not reset to nil/empty: " + hexShort(x)
			}
		}
	case kOptBool:
		reader = "ReadOptionalASN1Boolean"
		r.phase = reader
		want := e.defB
		if presentRef && spec {
			want = wantB
		}
		x := !want
		ok = s.ReadOptionalASN1Boolean(&x, e.defB)
		if x != want {
			bad = fmt.Sprintf("got %v want %v", x, want)
		}
	default:
		panic("harness: unknown optional kind")
	}
	if !spec {
		r.h["optional: follower merely begins with the tag byte (unspecified, no verdict)"]++
		return nil, 0, 0, true
	}
	mk := func(kind, detail string) *failure {
		return &failure{sig: fmt.Sprintf("%s [element %s, followed by %s]: %s", reader, state, follower, kind), detail: detail}
	}
	if !ok {
		return mk("returned false", hexShort(levelIn)), 0, 0, false
	}
	rem := len(ref) - off - total
	if off+total > len(levelIn) || !bytes.Equal(*s, levelIn[off+total:]) {
		if ok && e.present && e.k == kOptASN1 && len(r.sh.kids[i]) > 0 {
			// wrongly sized block: blame the first inner op that does not read back, if any
			if f := r.readLevel(&child, r.sh.kids[i], content, v); f != nil && f.sig != endOfLevelSig {
				return f, 0, 0, false
			}
		}
		what := "wrong remainder"
		if !presentRef {
			what = "input not left untouched"
		}
		return mk(what, fmt.Sprintf("%d bytes left, want %d", len(*s), rem)), 0, 0, false
	}
	if bad != "" {
		return mk("wrong value", bad), 0, 0, false
	}
	switch {
	case !presentRef:
		r.h["optional absent: default returned, input untouched"]++
	case e.present:
		r.h["optional present: consumed, value returned"]++
	default:
		r.h["optional not written but follower carries the tag: follower consumed"]++
	}
	if e.present {
		if e.container && e.k == kOptASN1 {
			kids := r.sh.kids[i]
			if len(kids) == 0 {
				if !child.Empty() {
					return mk("wrong value", "content of an empty element is not empty"), 0, 0, false
				}
			} else if f := r.readLevel(&child, kids, content, v); f != nil {
				return f, 0, 0, false
			}
		}
		return nil, j, off + total, false
	}
	if !presentRef {
		return nil, j, off, false
	}
	// the reader legitimately consumed following ops: resume after them if aligned
	target := off + total
	pos, k := off, j+1
	for ; k < len(ids) && pos < target; k++ {
		pos += len(r.enc[ids[k]])
	}
	if pos != target {
		return nil, 0, 0, true
	}
	return nil, k - 1, target, false
}
