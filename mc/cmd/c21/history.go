package main

// Short read histories of the optional readers: two consecutive optional reads
// (tags [0] and [1]; BOOLEAN, BOOLEAN for ReadOptionalASN1Boolean) with the SAME
// destination object and the SAME default object, in all four present/absent
// combinations, followed by a third read that finds its element absent — for
// every ReadOptional* function and every destination kind ReadOptionalASN1Integer
// accepts. The main phase reads every optional element once, into a fresh
// destination, with a fresh default, and never looks at either afterwards.
//
// Statement: "Optional-element readers consume an element only when its tag is
// present and otherwise leave the input untouched and return the default."
// After every step: the reader returned true; the destination holds the written
// value (present) or the default (absent; ReadOptionalASN1 has no default and
// documents nothing about out then: only outPresent is looked at; an absent
// OCTET STRING leaves out empty); the String is the input minus the consumed
// elements; the input bytes are unchanged; the default object still holds its
// value. After steps 1 and 2 the harness writes through the destination
// (big.Int words + SetInt64, slice elements) and inspects the default and the
// input again (a window of the input — cryptobyte's []byte results by design —
// is restored, no verdict); the following step must again return the written
// value / the default.
//
// Inputs are built with the reference encoders of alphabet.go (encoding/asn1 of
// the Go standard library + derHeader), not with the Builder.
//
// Enumerated completely: defaults x first value x second value x prior content
// of the destination x {present,absent}^2 x follower {nothing, an OCTET STRING}.

import (
	"bytes"
	"fmt"
	"math/big"
	"sort"
	"strings"

	"github.com/zmap/zcrypto/cryptobyte"
	cbasn1 "github.com/zmap/zcrypto/cryptobyte/asn1"
	"verifmc/internal/ev"
)

const (
	histTag1 = cbasn1.Tag(0xa0)
	histTag2 = cbasn1.Tag(0xa1)
)

var histFollowers = [][]byte{nil, {0x04, 0x01, 0x55}}

type hctx struct {
	h                 ev.Hist
	best              map[string]*witness
	histories, reads  int64
	oracle            int64
	cur               string // description of the running history
	step              int
	reader            string
	in, saved, remain []byte
}

func (hc *hctx) fail(kind, detail string) {
	sig := fmt.Sprintf("%s [read history, same destination and default object]: %s", hc.reader, kind)
	if w := hc.best[sig]; w != nil {
		w.Occurrences++
		return
	}
	hc.best[sig] = &witness{Program: "history: " + hc.cur, Mode: "history", Reference: hexShort(hc.saved),
		Detail: fmt.Sprintf("step %d: %s", hc.step, detail), Occurrences: 1}
}

// begin starts a history on input `in`.
func (hc *hctx) begin(reader, desc string, in []byte) cryptobyte.String {
	hc.reader, hc.cur, hc.step = reader, desc, 0
	hc.in = in
	hc.saved = append([]byte{}, in...)
	hc.remain = hc.saved
	hc.histories++
	return cryptobyte.String(in)
}

// after checks what every step shares: reader's bool, remainder, input bytes.
// consumed = number of bytes the reference says this step consumes.
func (hc *hctx) after(s cryptobyte.String, ok bool, present bool, consumed int) bool {
	hc.reads++
	hc.oracle++
	good := true
	if !ok {
		hc.fail("returned false", fmt.Sprintf("element present=%v", present))
		good = false
	}
	hc.remain = hc.remain[consumed:]
	if !bytes.Equal(hc.in, hc.saved) {
		hc.fail("the read modified the bytes of the String", fmt.Sprintf("input now %s", hexShort(hc.in)))
		copy(hc.in, hc.saved)
		good = false
	}
	if ok && !bytes.Equal(s, hc.remain) {
		what := "wrong remainder"
		if !present {
			what = "input not left untouched"
		}
		hc.fail(what, fmt.Sprintf("%d bytes left, want %d", len(s), len(hc.remain)))
		good = false
	}
	if good {
		if present {
			hc.h["history step: element present, consumed, value returned"]++
		} else {
			hc.h["history step: element absent, input untouched, default returned"]++
		}
	}
	return good
}

// call runs one reader call; a panic out of the reader is a violation of the step and ends the history.
func (hc *hctx) call(f func() bool) (ok, panicked bool) {
	defer func() {
		if rec := recover(); rec != nil {
			msg := fmt.Sprint(rec)
			if strings.HasPrefix(msg, "harness:") {
				panic(rec)
			}
			hc.reads++
			hc.fail("panic: "+ev.MsgClass(msg), msg)
			panicked = true
		}
	}()
	return f(), false
}

// wrote: the harness wrote through the destination; a changed input is a window (restored).
func (hc *hctx) wrote() {
	hc.h["history: destination written through between the reads"]++
	if !bytes.Equal(hc.in, hc.saved) {
		copy(hc.in, hc.saved)
		hc.h["history: the destination is a window of the input (by design; input restored)"]++
	}
}

func derInt(z *big.Int) []byte { return mustStd(z, "") }

func isSigned[T integer]() bool { return ^T(0) < 0 }

func toBig[T integer](v T) *big.Int {
	if isSigned[T]() {
		return big.NewInt(int64(v))
	}
	return new(big.Int).SetUint64(uint64(v))
}

// histInput: the optional elements that are present, then the follower.
func histInput(p1, p2 bool, e1, e2, follower []byte) []byte {
	var in []byte
	if p1 {
		in = append(in, e1...)
	}
	if p2 {
		in = append(in, e2...)
	}
	return append(in, follower...)
}

func pa(p bool) string {
	if p {
		return "present"
	}
	return "absent"
}

// ---- ReadOptionalASN1Integer into a fixed-width integer

func histIntKind[T integer](hc *hctx, name string, octets int) {
	large := largeOf[T](octets)
	vals := []T{100, ^T(0), large}
	defs := []T{7, large / 2}
	priors := []T{0, ^T(0)}
	reader := "ReadOptionalASN1Integer(*" + name + ")"
	for _, D := range defs {
		for _, v1 := range vals {
			for _, v2 := range vals {
				e1, e2 := wrap(byte(histTag1), derInt(toBig(v1))), wrap(byte(histTag2), derInt(toBig(v2)))
				for _, prior := range priors {
					for c := 0; c < 4; c++ {
						p1, p2 := c&2 != 0, c&1 != 0
						for fi, fol := range histFollowers {
							s := hc.begin(reader, fmt.Sprintf("%s default %v, destination held %v, [0] %s (%v), [1] %s (%v), follower #%d", reader, D, prior, pa(p1), v1, pa(p2), v2, fi),
								histInput(p1, p2, e1, e2, fol))
							out := prior
							var def interface{} = D // one boxed default for every read
							steps := []struct {
								tag     cbasn1.Tag
								present bool
								v       T
								n       int
							}{{histTag1, p1, v1, len(e1)}, {histTag2, p2, v2, len(e2)}, {histTag1, false, 0, 0}}
							for i, st := range steps {
								hc.step = i + 1
								ok, pan := hc.call(func() bool { return s.ReadOptionalASN1Integer(&out, st.tag, def) })
								if pan {
									break
								}
								want, n := D, 0
								if st.present {
									want, n = st.v, st.n
								}
								if !hc.after(s, ok, st.present, n) {
									break
								}
								if out != want {
									hc.fail("wrong value", fmt.Sprintf("element %s: got %v want %v", pa(st.present), out, want))
									break
								}
								if got, isT := def.(T); !isT || got != D {
									hc.fail("the default value changed", fmt.Sprintf("was %v, is %v", D, def))
									break
								}
							}
						}
					}
				}
			}
		}
	}
}

// ---- ReadOptionalASN1Integer into a *big.Int

func histBig(hc *hctx) {
	two64 := new(big.Int).Lsh(big.NewInt(1), 64)
	neg70 := new(big.Int).Neg(new(big.Int).Add(new(big.Int).Lsh(big.NewInt(1), 70), big.NewInt(3)))
	d130 := new(big.Int).Add(new(big.Int).Lsh(big.NewInt(1), 130), big.NewInt(5))
	vals := []*big.Int{big.NewInt(128), two64, neg70}
	defs := []*big.Int{big.NewInt(7), d130}
	priors := []*big.Int{big.NewInt(0), big.NewInt(-1), bigLarge}
	const reader = "ReadOptionalASN1Integer(*big.Int)"
	for _, D := range defs {
		for _, v1 := range vals {
			for _, v2 := range vals {
				e1, e2 := wrap(byte(histTag1), derInt(v1)), wrap(byte(histTag2), derInt(v2))
				for _, prior := range priors {
					for c := 0; c < 4; c++ {
						p1, p2 := c&2 != 0, c&1 != 0
						for fi, fol := range histFollowers {
							s := hc.begin(reader, fmt.Sprintf("%s default %s, destination held %s, [0] %s (%s), [1] %s (%s), follower #%d", reader, D, prior, pa(p1), v1, pa(p2), v2, fi),
								histInput(p1, p2, e1, e2, fol))
							out := new(big.Int).Set(prior) // ONE destination object
							def := new(big.Int).Set(D)     // ONE default object
							defOK := func(when string) bool {
								hc.oracle++
								if def.Cmp(D) != 0 {
									hc.fail("the default value changed "+when, fmt.Sprintf("was %s, is %s", D, def))
									return false
								}
								return true
							}
							steps := []struct {
								tag     cbasn1.Tag
								present bool
								v       *big.Int
								n       int
							}{{histTag1, p1, v1, len(e1)}, {histTag2, p2, v2, len(e2)}, {histTag1, false, nil, 0}}
							for i, st := range steps {
								hc.step = i + 1
								ok, pan := hc.call(func() bool { return s.ReadOptionalASN1Integer(out, st.tag, def) })
								if pan {
									break
								}
								want, n := D, 0
								if st.present {
									want, n = st.v, st.n
								}
								if !hc.after(s, ok, st.present, n) {
									break
								}
								if out.Cmp(want) != 0 {
									hc.fail("wrong value", fmt.Sprintf("element %s: got %s want %s", pa(st.present), out, want))
									break
								}
								if !defOK("during a read") {
									break
								}
								if i < 2 {
									scribBig(out)
									hc.wrote()
									if !defOK("when the harness wrote through the destination (the result shares storage with the default)") {
										break
									}
								}
							}
						}
					}
				}
			}
		}
	}
}

// ---- ReadOptionalASN1OctetString / ReadOptionalASN1

func histBytes(hc *hctx) {
	vals := [][]byte{{}, {0x11, 0x22}, pat(130, 3, 0x40)}
	for _, octet := range []bool{true, false} {
		for _, withPresent := range []bool{true, false} {
			reader := "ReadOptionalASN1"
			if octet {
				reader = "ReadOptionalASN1OctetString"
			}
			if !withPresent {
				reader += "(outPresent=nil)"
			}
			for _, v1 := range vals {
				for _, v2 := range vals {
					c1, c2 := v1, v2
					if octet {
						c1, c2 = wrap(0x04, v1), wrap(0x04, v2)
					}
					e1, e2 := wrap(byte(histTag1), c1), wrap(byte(histTag2), c2)
					for pi := 0; pi < 3; pi++ {
						for c := 0; c < 4; c++ {
							p1, p2 := c&2 != 0, c&1 != 0
							for fi, fol := range histFollowers {
								s := hc.begin(reader, fmt.Sprintf("%s destination prior #%d, [0] %s (%d bytes), [1] %s (%d bytes), follower #%d", reader, pi, pa(p1), len(v1), pa(p2), len(v2), fi),
									histInput(p1, p2, e1, e2, fol))
								var out []byte // ONE destination object
								switch pi {
								case 1:
									out = freshBytes(priorLong, 24)
								case 2:
									out = freshBytes([]byte{0xff}, 0)
								}
								steps := []struct {
									tag     cbasn1.Tag
									present bool
									v       []byte
									n       int
								}{{histTag1, p1, v1, len(e1)}, {histTag2, p2, v2, len(e2)}, {histTag1, false, nil, 0}}
								for i, st := range steps {
									hc.step = i + 1
									flag := !st.present
									fp := &flag
									if !withPresent {
										fp = nil
									}
									ok, pan := hc.call(func() bool {
										if octet {
											return s.ReadOptionalASN1OctetString(&out, fp, st.tag)
										}
										return s.ReadOptionalASN1((*cryptobyte.String)(&out), fp, st.tag)
									})
									if pan {
										break
									}
									n := 0
									if st.present {
										n = st.n
									}
									if !hc.after(s, ok, st.present, n) {
										break
									}
									if withPresent && flag != st.present {
										hc.fail("wrong outPresent", fmt.Sprintf("element %s: outPresent=%v", pa(st.present), flag))
										break
									}
									if st.present && !bytes.Equal(out, st.v) {
										hc.fail("wrong value", fmt.Sprintf("got %s want %s", hexShort(out), hexShort(st.v)))
										break
									}
									if !st.present && octet && len(out) != 0 {
										hc.fail("wrong value", "element absent: out not reset to nil/empty: "+hexShort(out))
										break
									}
									if i < 2 && scribBytes(out) {
										hc.wrote()
									}
								}
							}
						}
					}
				}
			}
		}
	}
}

// ---- ReadOptionalASN1Boolean: both reads look for the BOOLEAN tag, so the
// first read takes the first element that is there.

func histBool(hc *hctx) {
	const reader = "ReadOptionalASN1Boolean"
	enc := func(v bool) []byte { return mustStd(v, "") }
	for _, D := range []bool{false, true} {
		for _, v1 := range []bool{false, true} {
			for _, v2 := range []bool{false, true} {
				for _, prior := range []bool{false, true} {
					for c := 0; c < 4; c++ {
						p1, p2 := c&2 != 0, c&1 != 0
						for fi, fol := range histFollowers {
							s := hc.begin(reader, fmt.Sprintf("%s default %v, destination held %v, first %s (%v), second %s (%v), follower #%d", reader, D, prior, pa(p1), v1, pa(p2), v2, fi),
								histInput(p1, p2, enc(v1), enc(v2), fol))
							var there []bool // the BOOLEANs on the wire, in order
							if p1 {
								there = append(there, v1)
							}
							if p2 {
								there = append(there, v2)
							}
							out := prior
							for i := 0; i < 3; i++ {
								hc.step = i + 1
								ok, pan := hc.call(func() bool { return s.ReadOptionalASN1Boolean(&out, D) })
								if pan {
									break
								}
								want, present, n := D, false, 0
								if i < len(there) {
									want, present, n = there[i], true, 3
								}
								if !hc.after(s, ok, present, n) {
									break
								}
								if out != want {
									hc.fail("wrong value", fmt.Sprintf("element %s: got %v want %v", pa(present), out, want))
									break
								}
							}
						}
					}
				}
			}
		}
	}
}

// historyPhase runs every history and reports.
func historyPhase(c *ev.Ctx) {
	hc := &hctx{h: ev.Hist{}, best: map[string]*witness{}}
	histIntKind[int](hc, "int", 8)
	histIntKind[int8](hc, "int8", 1)
	histIntKind[int16](hc, "int16", 2)
	histIntKind[int32](hc, "int32", 4)
	histIntKind[int64](hc, "int64", 8)
	histIntKind[uint](hc, "uint", 8)
	histIntKind[uint8](hc, "uint8", 1)
	histIntKind[uint16](hc, "uint16", 2)
	histIntKind[uint32](hc, "uint32", 4)
	histIntKind[uint64](hc, "uint64", 8)
	histBig(hc)
	histBytes(hc)
	histBool(hc)
	sigs := make([]string, 0, len(hc.best))
	for s := range hc.best {
		sigs = append(sigs, s)
	}
	sort.Strings(sigs)
	var nviol int64
	for _, s := range sigs {
		c.Violation(s, *hc.best[s])
		nviol += hc.best[s].Occurrences
	}
	if nviol > 0 {
		c.Outcome("violation (read history step)", nviol)
	}
	c.Merge(hc.h)
	c.States.Add(hc.histories)
	c.Traces.Add(hc.histories)
	c.Transitions.Add(hc.reads)
	c.Evaluations.Add(hc.oracle)
	c.Set("read_histories", hc.histories)
	c.Set("read_history_reader_calls", hc.reads)
}
