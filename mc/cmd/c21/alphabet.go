package main

// The op alphabet of C21 and the reference encoding of every op.
//
// The reference encodings of all ASN.1 leaves come from the Go standard
// library (encoding/asn1), never from zcrypto.

import (
	stdasn1 "encoding/asn1"
	"fmt"
	"math"
	"math/big"
	"time"

	cbasn1 "github.com/zmap/zcrypto/cryptobyte/asn1"
)

type kind int

const (
	kU8 kind = iota
	kU16
	kU24
	kU32
	kBytes
	kInt64
	kUint64
	kBigInt
	kEnum
	kIntTag
	kBool
	kNull
	kOctet
	kBit
	kOID
	kTime
	kLP8
	kLP16
	kLP24
	kLP32
	kASN1
	kOptASN1
	kOptSkip
	kOptInt
	kOptBigInt
	kOptOctet
	kOptBool
)

// entry is one letter of the alphabet: an op with its concrete argument.
type entry struct {
	k         kind
	name      string // unique, stable (used in witnesses / replay)
	class     string // coarse class used in violation signatures
	container bool   // takes a child program (BuilderContinuation)
	optional  bool   // read back with a reader of the optional family
	present   bool   // optional family: the element is written
	u         uint64
	i         int64
	z         *big.Int
	data      []byte
	b         bool
	oid       []int
	t         time.Time
	tag       cbasn1.Tag
	defI      int64
	defB      bool
	enc       []byte // reference encoding (leaves only)
	err       string // documented Builder error class this op must raise ("" = none)
	elemTag   int    // identifier octet when the op writes one ASN.1 element, else -1
	lenLen    int    // kLP*: width of the length prefix
}

var alphabet []*entry
var byName = map[string]*entry{}
var containers []int // indices of container entries

func pat(n int, mul, add byte) []byte {
	d := make([]byte, n)
	for i := range d {
		d[i] = byte(i)*mul + add
	}
	return d
}

func mustStd(v any, params string) []byte {
	var out []byte
	var err error
	if params == "" {
		out, err = stdasn1.Marshal(v)
	} else {
		out, err = stdasn1.MarshalWithParams(v, params)
	}
	if err != nil {
		panic(fmt.Sprintf("reference encoder (encoding/asn1) failed on %v: %v", v, err))
	}
	return out
}

// derHeader is the X.690 identifier + definite minimal length for a
// low-tag-number element. Cross-checked against encoding/asn1 at start-up.
func derHeader(tag byte, n int) []byte {
	if n < 128 {
		return []byte{tag, byte(n)}
	}
	var l []byte
	for v := n; v > 0; v >>= 8 {
		l = append([]byte{byte(v)}, l...)
	}
	return append([]byte{tag, 0x80 | byte(len(l))}, l...)
}

func wrap(tag byte, content []byte) []byte {
	return append(derHeader(tag, len(content)), content...)
}

func add(e *entry) {
	if !e.container && e.enc == nil && e.err == "" {
		panic("entry without reference encoding: " + e.name)
	}
	if _, dup := byName[e.name]; dup {
		panic("duplicate entry " + e.name)
	}
	byName[e.name] = e
	if e.container {
		containers = append(containers, len(alphabet))
	}
	alphabet = append(alphabet, e)
}

func validOID(o []int) bool {
	// X.660 / X.690 8.19: at least two arcs, first in 0..2, second < 40 unless first = 2, none negative.
	if len(o) < 2 || o[0] < 0 || o[0] > 2 {
		return false
	}
	if o[0] < 2 && o[1] >= 40 {
		return false
	}
	for _, v := range o {
		if v < 0 {
			return false
		}
	}
	return true
}

func buildAlphabet() {
	// fixed-width integers
	for _, v := range []uint64{0, 1, 0xff} {
		add(&entry{k: kU8, name: fmt.Sprintf("AddUint8(%d)", v), class: "AddUint8", u: v, enc: []byte{byte(v)}, elemTag: -1})
	}
	for _, v := range []uint64{0, 1, 0xffff} {
		add(&entry{k: kU16, name: fmt.Sprintf("AddUint16(%d)", v), class: "AddUint16", u: v, enc: []byte{byte(v >> 8), byte(v)}, elemTag: -1})
	}
	for _, v := range []uint64{0, 1, 0xffffff} {
		add(&entry{k: kU24, name: fmt.Sprintf("AddUint24(%d)", v), class: "AddUint24", u: v, enc: []byte{byte(v >> 16), byte(v >> 8), byte(v)}, elemTag: -1})
	}
	for _, v := range []uint64{0, 1, 0xffffffff} {
		add(&entry{k: kU32, name: fmt.Sprintf("AddUint32(%d)", v), class: "AddUint32", u: v, enc: []byte{byte(v >> 24), byte(v >> 16), byte(v >> 8), byte(v)}, elemTag: -1})
	}
	for _, n := range []int{0, 1, 300} {
		d := pat(n, 31, 7)
		cl := "AddBytes"
		if n == 0 {
			cl = "AddBytes(len 0)"
		}
		add(&entry{k: kBytes, name: fmt.Sprintf("AddBytes(len %d)", n), class: cl, data: d, enc: append([]byte{}, d...), elemTag: -1})
	}
	// ASN.1 integers
	for _, v := range []int64{0, 127, 128, -128, -129, math.MaxInt64, math.MinInt64} {
		add(&entry{k: kInt64, name: fmt.Sprintf("AddASN1Int64(%d)", v), class: "AddASN1Int64", i: v, z: big.NewInt(v), enc: mustStd(big.NewInt(v), ""), elemTag: 0x02})
	}
	for _, v := range []uint64{0, 1 << 63, math.MaxUint64} {
		z := new(big.Int).SetUint64(v)
		add(&entry{k: kUint64, name: fmt.Sprintf("AddASN1Uint64(%d)", v), class: "AddASN1Uint64", u: v, z: z, enc: mustStd(z, ""), elemTag: 0x02})
	}
	two64 := new(big.Int).Lsh(big.NewInt(1), 64)
	for _, z := range []*big.Int{big.NewInt(0), two64, new(big.Int).Neg(two64)} {
		add(&entry{k: kBigInt, name: fmt.Sprintf("AddASN1BigInt(%s)", z), class: "AddASN1BigInt", z: z, enc: mustStd(z, ""), elemTag: 0x02})
	}
	for _, v := range []int64{0, 128, -129} {
		add(&entry{k: kEnum, name: fmt.Sprintf("AddASN1Enum(%d)", v), class: "AddASN1Enum", i: v, enc: mustStd(stdasn1.Enumerated(v), ""), elemTag: 0x0a})
	}
	for _, c := range []struct {
		v   int64
		tag byte
	}{{5, 0x80}, {-129, 0x81}} {
		e := mustStd(big.NewInt(c.v), "")
		e[0] = c.tag
		add(&entry{k: kIntTag, name: fmt.Sprintf("AddASN1Int64WithTag(%d,0x%02x)", c.v, c.tag), class: "AddASN1Int64WithTag", i: c.v, tag: cbasn1.Tag(c.tag), enc: e, elemTag: int(c.tag)})
	}
	add(&entry{k: kIntTag, name: "AddASN1Int64WithTag(1,0x1f)", class: "AddASN1Int64WithTag(high tag)", i: 1, tag: 0x1f, err: "high-tag", elemTag: -1})
	for _, v := range []bool{false, true} {
		add(&entry{k: kBool, name: fmt.Sprintf("AddASN1Boolean(%v)", v), class: "AddASN1Boolean", b: v, enc: mustStd(v, ""), elemTag: 0x01})
	}
	add(&entry{k: kNull, name: "AddASN1NULL()", class: "AddASN1NULL", enc: mustStd(stdasn1.NullRawValue, ""), elemTag: 0x05})
	// lengths on both sides of every DER length-form boundary (0x7f/0x80, 0xff/0x100, 0xffff/0x10000)
	for _, n := range []int{0, 1, 127, 128, 255, 256, 65535, 65536} {
		d := pat(n, 13, 1)
		add(&entry{k: kOctet, name: fmt.Sprintf("AddASN1OctetString(len %d)", n), class: "AddASN1OctetString", data: d, enc: mustStd(d, ""), elemTag: 0x04})
	}
	for _, n := range []int{0, 1, 126, 127, 254, 255} {
		d := pat(n, 5, 0x81)
		add(&entry{k: kBit, name: fmt.Sprintf("AddASN1BitString(len %d)", n), class: "AddASN1BitString", data: d, enc: mustStd(stdasn1.BitString{Bytes: d, BitLength: 8 * n}, ""), elemTag: 0x03})
	}
	// OIDs
	for _, o := range [][]int{
		{1, 2}, {2, 999}, {1, 2, 127}, {1, 2, 128}, {1, 2, 1 << 14}, {1, 2, 1 << 21}, {1, 2, 1<<28 - 1},
		{1, 2, 1 << 28}, {1, 2, 1<<31 - 1}, {2, 1 << 28},
		{1}, {3, 1}, {1, 40}, {1, 2, -1},
	} {
		e := &entry{k: kOID, name: fmt.Sprintf("AddASN1ObjectIdentifier(%v)", o), oid: o, elemTag: 0x06}
		if !validOID(o) {
			e.err, e.class, e.elemTag = "invalid-oid", "AddASN1ObjectIdentifier(invalid)", -1
		} else {
			e.enc = mustStd(stdasn1.ObjectIdentifier(o), "")
			big5 := o[0]*40+o[1] >= 1<<28
			for _, v := range o[2:] {
				if v >= 1<<28 {
					big5 = true
				}
			}
			if big5 {
				e.class = "AddASN1ObjectIdentifier(sub-identifier >= 2^28, 5 base-128 octets)"
			} else {
				e.class = "AddASN1ObjectIdentifier(sub-identifiers < 2^28)"
			}
		}
		add(e)
	}
	// GeneralizedTime
	for _, c := range []struct {
		n string
		t time.Time
	}{
		{"year 1", time.Date(1, 1, 1, 0, 0, 0, 0, time.UTC)},
		{"1999", time.Date(1999, 12, 31, 23, 59, 59, 0, time.UTC)},
		{"9999", time.Date(9999, 12, 31, 23, 59, 59, 0, time.UTC)},
		{"zoned +0130", time.Date(2020, 6, 15, 12, 30, 45, 0, time.FixedZone("", 5400))},
		{"year 10000", time.Date(10000, 1, 1, 0, 0, 0, 0, time.UTC)},
	} {
		e := &entry{k: kTime, name: "AddASN1GeneralizedTime(" + c.n + ")", class: "AddASN1GeneralizedTime", t: c.t, elemTag: 0x18}
		if c.t.Year() > 9999 {
			e.err, e.class, e.elemTag = "time-range", "AddASN1GeneralizedTime(year > 9999)", -1
		} else {
			e.enc = mustStd(c.t, "generalized")
		}
		add(e)
	}
	// optional family, leaf forms. Explicit tag [0] constructed = 0xa0.
	const xt = 0xa0
	add(&entry{k: kOptASN1, name: "Optional[ReadOptionalASN1 0xa0] absent", class: "ReadOptionalASN1", optional: true, tag: xt, enc: []byte{}, elemTag: -1})
	add(&entry{k: kOptSkip, name: "Optional[SkipOptionalASN1 0xa0] absent", class: "SkipOptionalASN1", optional: true, tag: xt, enc: []byte{}, elemTag: -1})
	for _, v := range []int64{128, -129} {
		add(&entry{k: kOptInt, name: fmt.Sprintf("Optional[ReadOptionalASN1Integer(*int) 0xa0 default 7] present AddASN1(0xa0){AddASN1Int64(%d)}", v), class: "ReadOptionalASN1Integer(*int)",
			optional: true, present: true, tag: xt, i: v, z: big.NewInt(v), defI: 7, enc: wrap(xt, mustStd(big.NewInt(v), "")), elemTag: xt})
	}
	for _, d := range []int64{0, 7} {
		add(&entry{k: kOptInt, name: fmt.Sprintf("Optional[ReadOptionalASN1Integer(*int) 0xa0 default %d] absent", d), class: "ReadOptionalASN1Integer(*int)",
			optional: true, tag: xt, defI: d, enc: []byte{}, elemTag: -1})
	}
	for _, z := range []*big.Int{big.NewInt(128), two64} {
		add(&entry{k: kOptBigInt, name: fmt.Sprintf("Optional[ReadOptionalASN1Integer(*big.Int) 0xa0 default 7] present AddASN1(0xa0){AddASN1BigInt(%s)}", z), class: "ReadOptionalASN1Integer(*big.Int)",
			optional: true, present: true, tag: xt, z: z, defI: 7, enc: wrap(xt, mustStd(z, "")), elemTag: xt})
	}
	for _, d := range []int64{0, 7} {
		add(&entry{k: kOptBigInt, name: fmt.Sprintf("Optional[ReadOptionalASN1Integer(*big.Int) 0xa0 default %d] absent", d), class: "ReadOptionalASN1Integer(*big.Int)",
			optional: true, tag: xt, defI: d, enc: []byte{}, elemTag: -1})
	}
	for _, n := range []int{0, 1, 128} {
		d := pat(n, 3, 0x40)
		add(&entry{k: kOptOctet, name: fmt.Sprintf("Optional[ReadOptionalASN1OctetString 0xa0] present AddASN1(0xa0){AddASN1OctetString(len %d)}", n), class: "ReadOptionalASN1OctetString",
			optional: true, present: true, tag: xt, data: d, enc: wrap(xt, mustStd(d, "")), elemTag: xt})
	}
	add(&entry{k: kOptOctet, name: "Optional[ReadOptionalASN1OctetString 0xa0] absent", class: "ReadOptionalASN1OctetString", optional: true, tag: xt, enc: []byte{}, elemTag: -1})
	for _, v := range []bool{true, false} {
		add(&entry{k: kOptBool, name: fmt.Sprintf("Optional[ReadOptionalASN1Boolean default %v] present AddASN1Boolean(%v)", !v, v), class: "ReadOptionalASN1Boolean",
			optional: true, present: true, tag: 0x01, b: v, defB: !v, enc: mustStd(v, ""), elemTag: 0x01})
	}
	for _, d := range []bool{false, true} {
		add(&entry{k: kOptBool, name: fmt.Sprintf("Optional[ReadOptionalASN1Boolean default %v] absent", d), class: "ReadOptionalASN1Boolean",
			optional: true, tag: 0x01, defB: d, enc: []byte{}, elemTag: -1})
	}
	// containers
	for _, n := range []int{1, 2, 3, 4} {
		add(&entry{k: kLP8 + kind(n-1), name: fmt.Sprintf("AddUint%dLengthPrefixed", 8*n), class: fmt.Sprintf("AddUint%dLengthPrefixed", 8*n), container: true, lenLen: n, elemTag: -1})
	}
	for _, t := range []byte{0x30, 0x31, 0xa0, 0x81} {
		add(&entry{k: kASN1, name: fmt.Sprintf("AddASN1(0x%02x)", t), class: "AddASN1", container: true, tag: cbasn1.Tag(t), elemTag: int(t)})
	}
	add(&entry{k: kASN1, name: "AddASN1(0x3f)", class: "AddASN1(high tag)", container: true, tag: 0x3f, err: "high-tag", elemTag: -1})
	add(&entry{k: kOptASN1, name: "Optional[ReadOptionalASN1 0xa0] present AddASN1(0xa0)", class: "ReadOptionalASN1", container: true, optional: true, present: true, tag: xt, elemTag: xt})
	add(&entry{k: kOptSkip, name: "Optional[SkipOptionalASN1 0xa0] present AddASN1(0xa0)", class: "SkipOptionalASN1", container: true, optional: true, present: true, tag: xt, elemTag: xt})
}

// selfTestReference cross-checks the hand-written DER header against encoding/asn1.
func selfTestReference() error {
	for _, n := range []int{0, 1, 127, 128, 255, 256, 65535, 65536, 70000} {
		c := make([]byte, n)
		got := wrap(0x30, c)
		want := mustStd(stdasn1.RawValue{Class: 0, Tag: 16, IsCompound: true, Bytes: c}, "")
		if string(got) != string(want) {
			return fmt.Errorf("derHeader(0x30,%d) disagrees with encoding/asn1", n)
		}
		got = wrap(0xa0, c)
		want = mustStd(stdasn1.RawValue{Class: 2, Tag: 0, IsCompound: true, Bytes: c}, "")
		if string(got) != string(want) {
			return fmt.Errorf("derHeader(0xa0,%d) disagrees with encoding/asn1", n)
		}
	}
	return nil
}

// refTLV parses one DER element (X.690: single identifier octet, definite
// minimal length) at the start of b.
func refTLV(b []byte) (tag byte, content []byte, total int, ok bool) {
	if len(b) < 2 || b[0]&0x1f == 0x1f {
		return
	}
	tag = b[0]
	n, h := 0, 2
	if b[1] < 0x80 {
		n = int(b[1])
	} else {
		ll := int(b[1] & 0x7f)
		if ll == 0 || ll > 4 || len(b) < 2+ll || b[2] == 0 {
			return
		}
		for _, x := range b[2 : 2+ll] {
			n = n<<8 | int(x)
		}
		if n < 128 {
			return
		}
		h = 2 + ll
	}
	if len(b) < h+n {
		return
	}
	return tag, b[h : h+n], h + n, true
}

// refInteger decodes the content octets of a DER INTEGER.
func refInteger(c []byte) (*big.Int, bool) {
	if len(c) == 0 {
		return nil, false
	}
	if len(c) > 1 && (c[0] == 0 && c[1] < 0x80 || c[0] == 0xff && c[1] >= 0x80) {
		return nil, false
	}
	z := new(big.Int).SetBytes(c)
	if c[0] >= 0x80 {
		z.Sub(z, new(big.Int).Lsh(big.NewInt(1), uint(8*len(c))))
	}
	return z, true
}
