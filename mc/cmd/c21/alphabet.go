package main

// The op alphabet of C21 and the reference encoding of every op.
//
// The reference encodings of all ASN.1 leaves come from the Go standard
// library (encoding/asn1), never from zcrypto.

import (
	stdasn1 "encoding/asn1"
	"errors"
	"fmt"
	"math"
	"math/big"
	"time"

	cbasn1 "github.com/zmap/zcrypto/cryptobyte/asn1"
)

type kind int

const (
	kU8 kind = iota
	kU16
	kU24
	kU32
	kBytes
	kInt64
	kUint64
	kBigInt
	kEnum
	kIntTag
	kBool
	kNull
	kOctet
	kBit
	kOID
	kTime
	kLP8
	kLP16
	kLP24
	kLP32
	kASN1
	kOptASN1
	kOptSkip
	kOptInt
	kOptBigInt
	kOptOctet
	kOptBool
	kOptInt64
	kOptUint64
	kWriteUnwrite // AddBytes(data) immediately followed by Unwrite(n) on the same Builder
	kUnwrite      // Unwrite(n) on whatever the Builder of this level holds
	kSetError
	kAddValue    // AddValue(MarshalingValue writing AddUint16)
	kAddValueErr // AddValue(MarshalingValue returning an error)
	kPanicBuildError
	kPanicOther
	kUTCTime
	kMarshalErr // MarshalASN1 of a value encoding/asn1 cannot marshal
)

// Sentinel errors / panic value handed to the Builder by the harness.
var (
	errSet     = errors.New("harness sentinel: SetError")
	errMarshal = errors.New("harness sentinel: MarshalingValue.Marshal")
	errBuild   = errors.New("harness sentinel: BuildError")
)

type userPanic struct{ id int }

var thePanic = userPanic{id: 0x5a}

// entry is one letter of the alphabet: an op with its concrete argument.
type entry struct {
	k         kind
	name      string // unique, stable (used in witnesses / replay)
	class     string // coarse class used in violation signatures
	container bool   // takes a child program (BuilderContinuation)
	optional  bool   // read back with a reader of the optional family
	present   bool   // optional family: the element is written
	u         uint64
	i         int64
	z         *big.Int
	data      []byte
	b         bool
	oid       []int
	t         time.Time
	tag       cbasn1.Tag
	defI      int64
	defB      bool
	enc       []byte // reference encoding (leaves only)
	err       string // documented Builder error class this op must raise ("" = none)
	elemTag   int    // identifier octet when the op writes one ASN.1 element, else -1
	lenLen    int    // kLP*: width of the length prefix
	n         int    // kWriteUnwrite / kUnwrite: number of bytes rolled back
	sentinel  error  // the error value the op hands to the Builder (SetError, AddValue, BuildError)
	ext       bool   // extended letter: all programs of <= 2 nodes, and 3-node programs with context letters around it
	ctx       bool   // context letter of the extended 3-node programs
	huge      bool   // 16 MiB letter: thorough tier, directed programs only
	marshal   bool   // kInt64: written with Builder.MarshalASN1(int64) instead of AddASN1Int64
	noFixed   bool   // programs with this letter are not rebuilt with NewFixedBuilder (transient size differs from the final size)
}

var alphabet []*entry
var byName = map[string]*entry{}
var containers []int // indices of the core container entries
var coreAll []int    // indices of the core letters (leaves and containers)
var extAll []int     // indices of the extended letters
var extContainers []int
var ctxLeaves []int
var hugeLeaves []int

func pat(n int, mul, add byte) []byte {
	d := make([]byte, n)
	for i := range d {
		d[i] = byte(i)*mul + add
	}
	return d
}

func mustStd(v any, params string) []byte {
	var out []byte
	var err error
	if params == "" {
		out, err = stdasn1.Marshal(v)
	} else {
		out, err = stdasn1.MarshalWithParams(v, params)
	}
	if err != nil {
		panic(fmt.Sprintf("reference encoder (encoding/asn1) failed on %v: %v", v, err))
	}
	return out
}

// derHeader is the X.690 identifier + definite minimal length for a
// low-tag-number element. Cross-checked against encoding/asn1 at start-up.
func derHeader(tag byte, n int) []byte {
	if n < 128 {
		return []byte{tag, byte(n)}
	}
	var l []byte
	for v := n; v > 0; v >>= 8 {
		l = append([]byte{byte(v)}, l...)
	}
	return append([]byte{tag, 0x80 | byte(len(l))}, l...)
}

func wrap(tag byte, content []byte) []byte {
	return append(derHeader(tag, len(content)), content...)
}

func add(e *entry) {
	if !e.container && e.enc == nil && e.err == "" {
		panic("entry without reference encoding: " + e.name)
	}
	if _, dup := byName[e.name]; dup {
		panic("duplicate entry " + e.name)
	}
	byName[e.name] = e
	idx := len(alphabet)
	switch {
	case e.huge:
		hugeLeaves = append(hugeLeaves, idx)
	case e.ext:
		extAll = append(extAll, idx)
		if e.container {
			extContainers = append(extContainers, idx)
		}
	default:
		coreAll = append(coreAll, idx)
		if e.container {
			containers = append(containers, idx)
		}
	}
	if e.ctx && !e.container {
		ctxLeaves = append(ctxLeaves, idx)
	}
	alphabet = append(alphabet, e)
}

func addExt(e *entry) { e.ext = true; add(e) }

func validOID(o []int) bool {
	// X.660 / X.690 8.19: at least two arcs, first in 0..2, second < 40 unless first = 2, none negative.
	if len(o) < 2 || o[0] < 0 || o[0] > 2 {
		return false
	}
	if o[0] < 2 && o[1] >= 40 {
		return false
	}
	for _, v := range o {
		if v < 0 {
			return false
		}
	}
	return true
}

func buildAlphabet() {
	// fixed-width integers
	for _, v := range []uint64{0, 1, 0xff} {
		add(&entry{k: kU8, name: fmt.Sprintf("AddUint8(%d)", v), class: "AddUint8", u: v, enc: []byte{byte(v)}, elemTag: -1})
	}
	for _, v := range []uint64{0, 1, 0xffff} {
		add(&entry{k: kU16, name: fmt.Sprintf("AddUint16(%d)", v), class: "AddUint16", u: v, enc: []byte{byte(v >> 8), byte(v)}, elemTag: -1})
	}
	for _, v := range []uint64{0, 1, 0xffffff} {
		add(&entry{k: kU24, name: fmt.Sprintf("AddUint24(%d)", v), class: "AddUint24", u: v, enc: []byte{byte(v >> 16), byte(v >> 8), byte(v)}, elemTag: -1})
	}
	for _, v := range []uint64{0, 1, 0xffffffff} {
		add(&entry{k: kU32, name: fmt.Sprintf("AddUint32(%d)", v), class: "AddUint32", u: v, enc: []byte{byte(v >> 24), byte(v >> 16), byte(v >> 8), byte(v)}, elemTag: -1})
	}
	for _, n := range []int{0, 1, 300} {
		d := pat(n, 31, 7)
		cl := "AddBytes"
		if n == 0 {
			cl = "AddBytes(len 0)"
		}
		add(&entry{k: kBytes, name: fmt.Sprintf("AddBytes(len %d)", n), class: cl, data: d, enc: append([]byte{}, d...), elemTag: -1})
	}
	// ASN.1 integers
	for _, v := range []int64{0, 127, 128, -128, -129, math.MaxInt64, math.MinInt64} {
		add(&entry{k: kInt64, name: fmt.Sprintf("AddASN1Int64(%d)", v), class: "AddASN1Int64", i: v, z: big.NewInt(v), enc: mustStd(big.NewInt(v), ""), elemTag: 0x02})
	}
	for _, v := range []uint64{0, 1 << 63, math.MaxUint64} {
		z := new(big.Int).SetUint64(v)
		add(&entry{k: kUint64, name: fmt.Sprintf("AddASN1Uint64(%d)", v), class: "AddASN1Uint64", u: v, z: z, enc: mustStd(z, ""), elemTag: 0x02})
	}
	two64 := new(big.Int).Lsh(big.NewInt(1), 64)
	for _, z := range []*big.Int{big.NewInt(0), two64, new(big.Int).Neg(two64)} {
		add(&entry{k: kBigInt, name: fmt.Sprintf("AddASN1BigInt(%s)", z), class: "AddASN1BigInt", z: z, enc: mustStd(z, ""), elemTag: 0x02})
	}
	for _, v := range []int64{0, 128, -129} {
		add(&entry{k: kEnum, name: fmt.Sprintf("AddASN1Enum(%d)", v), class: "AddASN1Enum", i: v, enc: mustStd(stdasn1.Enumerated(v), ""), elemTag: 0x0a})
	}
	for _, c := range []struct {
		v   int64
		tag byte
	}{{5, 0x80}, {-129, 0x81}} {
		e := mustStd(big.NewInt(c.v), "")
		e[0] = c.tag
		add(&entry{k: kIntTag, name: fmt.Sprintf("AddASN1Int64WithTag(%d,0x%02x)", c.v, c.tag), class: "AddASN1Int64WithTag", i: c.v, tag: cbasn1.Tag(c.tag), enc: e, elemTag: int(c.tag)})
	}
	add(&entry{k: kIntTag, name: "AddASN1Int64WithTag(1,0x1f)", class: "AddASN1Int64WithTag(high tag)", i: 1, tag: 0x1f, err: "high-tag", elemTag: -1})
	for _, v := range []bool{false, true} {
		add(&entry{k: kBool, name: fmt.Sprintf("AddASN1Boolean(%v)", v), class: "AddASN1Boolean", b: v, enc: mustStd(v, ""), elemTag: 0x01})
	}
	add(&entry{k: kNull, name: "AddASN1NULL()", class: "AddASN1NULL", enc: mustStd(stdasn1.NullRawValue, ""), elemTag: 0x05})
	// lengths on both sides of every DER length-form boundary (0x7f/0x80, 0xff/0x100, 0xffff/0x10000)
	for _, n := range []int{0, 1, 127, 128, 255, 256, 65535, 65536} {
		d := pat(n, 13, 1)
		add(&entry{k: kOctet, name: fmt.Sprintf("AddASN1OctetString(len %d)", n), class: "AddASN1OctetString", data: d, enc: mustStd(d, ""), elemTag: 0x04})
	}
	for _, n := range []int{0, 1, 126, 127, 254, 255} {
		d := pat(n, 5, 0x81)
		add(&entry{k: kBit, name: fmt.Sprintf("AddASN1BitString(len %d)", n), class: "AddASN1BitString", data: d, enc: mustStd(stdasn1.BitString{Bytes: d, BitLength: 8 * n}, ""), elemTag: 0x03})
	}
	// OIDs
	for _, o := range [][]int{
		{1, 2}, {2, 999}, {1, 2, 127}, {1, 2, 128}, {1, 2, 1 << 14}, {1, 2, 1 << 21}, {1, 2, 1<<28 - 1},
		{1, 2, 1 << 28}, {1, 2, 1<<31 - 1}, {2, 1 << 28},
		{1}, {3, 1}, {1, 40}, {1, 2, -1},
	} {
		e := &entry{k: kOID, name: fmt.Sprintf("AddASN1ObjectIdentifier(%v)", o), oid: o, elemTag: 0x06}
		if !validOID(o) {
			e.err, e.class, e.elemTag = "invalid-oid", "AddASN1ObjectIdentifier(invalid)", -1
		} else {
			e.enc = mustStd(stdasn1.ObjectIdentifier(o), "")
			big5 := o[0]*40+o[1] >= 1<<28
			for _, v := range o[2:] {
				if v >= 1<<28 {
					big5 = true
				}
			}
			if big5 {
				e.class = "AddASN1ObjectIdentifier(sub-identifier >= 2^28, 5 base-128 octets)"
			} else {
				e.class = "AddASN1ObjectIdentifier(sub-identifiers < 2^28)"
			}
		}
		add(e)
	}
	// GeneralizedTime
	for _, c := range []struct {
		n string
		t time.Time
	}{
		{"year 1", time.Date(1, 1, 1, 0, 0, 0, 0, time.UTC)},
		{"1999", time.Date(1999, 12, 31, 23, 59, 59, 0, time.UTC)},
		{"9999", time.Date(9999, 12, 31, 23, 59, 59, 0, time.UTC)},
		{"zoned +0130", time.Date(2020, 6, 15, 12, 30, 45, 0, time.FixedZone("", 5400))},
		{"year 10000", time.Date(10000, 1, 1, 0, 0, 0, 0, time.UTC)},
	} {
		e := &entry{k: kTime, name: "AddASN1GeneralizedTime(" + c.n + ")", class: "AddASN1GeneralizedTime", t: c.t, elemTag: 0x18}
		if c.t.Year() > 9999 {
			e.err, e.class, e.elemTag = "time-range", "AddASN1GeneralizedTime(year > 9999)", -1
		} else {
			e.enc = mustStd(c.t, "generalized")
		}
		add(e)
	}
	// optional family, leaf forms. Explicit tag [0] constructed = 0xa0.
	const xt = 0xa0
	add(&entry{k: kOptASN1, name: "Optional[ReadOptionalASN1 0xa0] absent", class: "ReadOptionalASN1", optional: true, tag: xt, enc: []byte{}, elemTag: -1})
	add(&entry{k: kOptSkip, name: "Optional[SkipOptionalASN1 0xa0] absent", class: "SkipOptionalASN1", optional: true, tag: xt, enc: []byte{}, elemTag: -1})
	for _, v := range []int64{128, -129} {
		add(&entry{k: kOptInt, name: fmt.Sprintf("Optional[ReadOptionalASN1Integer(*int) 0xa0 default 7] present AddASN1(0xa0){AddASN1Int64(%d)}", v), class: "ReadOptionalASN1Integer(*int)",
			optional: true, present: true, tag: xt, i: v, z: big.NewInt(v), defI: 7, enc: wrap(xt, mustStd(big.NewInt(v), "")), elemTag: xt})
	}
	for _, d := range []int64{0, 7} {
		add(&entry{k: kOptInt, name: fmt.Sprintf("Optional[ReadOptionalASN1Integer(*int) 0xa0 default %d] absent", d), class: "ReadOptionalASN1Integer(*int)",
			optional: true, tag: xt, defI: d, enc: []byte{}, elemTag: -1})
	}
	for _, z := range []*big.Int{big.NewInt(128), two64} {
		add(&entry{k: kOptBigInt, name: fmt.Sprintf("Optional[ReadOptionalASN1Integer(*big.Int) 0xa0 default 7] present AddASN1(0xa0){AddASN1BigInt(%s)}", z), class: "ReadOptionalASN1Integer(*big.Int)",
			optional: true, present: true, tag: xt, z: z, defI: 7, enc: wrap(xt, mustStd(z, "")), elemTag: xt})
	}
	for _, d := range []int64{0, 7} {
		add(&entry{k: kOptBigInt, name: fmt.Sprintf("Optional[ReadOptionalASN1Integer(*big.Int) 0xa0 default %d] absent", d), class: "ReadOptionalASN1Integer(*big.Int)",
			optional: true, tag: xt, defI: d, enc: []byte{}, elemTag: -1})
	}
	for _, n := range []int{0, 1, 128} {
		d := pat(n, 3, 0x40)
		add(&entry{k: kOptOctet, name: fmt.Sprintf("Optional[ReadOptionalASN1OctetString 0xa0] present AddASN1(0xa0){AddASN1OctetString(len %d)}", n), class: "ReadOptionalASN1OctetString",
			optional: true, present: true, tag: xt, data: d, enc: wrap(xt, mustStd(d, "")), elemTag: xt})
	}
	add(&entry{k: kOptOctet, name: "Optional[ReadOptionalASN1OctetString 0xa0] absent", class: "ReadOptionalASN1OctetString", optional: true, tag: xt, enc: []byte{}, elemTag: -1})
	for _, v := range []bool{true, false} {
		add(&entry{k: kOptBool, name: fmt.Sprintf("Optional[ReadOptionalASN1Boolean default %v] present AddASN1Boolean(%v)", !v, v), class: "ReadOptionalASN1Boolean",
			optional: true, present: true, tag: 0x01, b: v, defB: !v, enc: mustStd(v, ""), elemTag: 0x01})
	}
	for _, d := range []bool{false, true} {
		add(&entry{k: kOptBool, name: fmt.Sprintf("Optional[ReadOptionalASN1Boolean default %v] absent", d), class: "ReadOptionalASN1Boolean",
			optional: true, tag: 0x01, defB: d, enc: []byte{}, elemTag: -1})
	}
	// containers
	for _, n := range []int{1, 2, 3, 4} {
		add(&entry{k: kLP8 + kind(n-1), name: fmt.Sprintf("AddUint%dLengthPrefixed", 8*n), class: fmt.Sprintf("AddUint%dLengthPrefixed", 8*n), container: true, lenLen: n, elemTag: -1})
	}
	for _, t := range []byte{0x30, 0x31, 0xa0, 0x81} {
		add(&entry{k: kASN1, name: fmt.Sprintf("AddASN1(0x%02x)", t), class: "AddASN1", container: true, tag: cbasn1.Tag(t), elemTag: int(t)})
	}
	add(&entry{k: kASN1, name: "AddASN1(0x3f)", class: "AddASN1(high tag)", container: true, tag: 0x3f, err: "high-tag", elemTag: -1})
	add(&entry{k: kOptASN1, name: "Optional[ReadOptionalASN1 0xa0] present AddASN1(0xa0)", class: "ReadOptionalASN1", container: true, optional: true, present: true, tag: xt, elemTag: xt})
	add(&entry{k: kOptSkip, name: "Optional[SkipOptionalASN1 0xa0] present AddASN1(0xa0)", class: "SkipOptionalASN1", container: true, optional: true, present: true, tag: xt, elemTag: xt})
	buildExtended()
	for _, n := range []string{"AddUint8(1)", "AddBytes(len 1)", "AddASN1Boolean(true)", "Optional[ReadOptionalASN1 0xa0] absent",
		"Optional[ReadOptionalASN1Integer(*int) 0xa0 default 7] absent"} {
		e := byName[n]
		if e == nil {
			panic("no context letter " + n)
		}
		e.ctx = true
		for k, a := range alphabet {
			if a == e {
				ctxLeaves = append(ctxLeaves, k)
			}
		}
	}
}

const utcLayout = "060102150405Z0700" // X.680 47.3 with seconds: YYMMDDhhmmss then Z or +-hhmm

// buildExtended: the letters added for the boundary / byte-order / tag /
// never-called-API gaps. They are "extended" letters: see main.go for the
// programs they appear in.
func buildExtended() {
	// fixed-width values whose octets all differ: a writer/reader pair that agrees on a wrong byte order is seen
	addExt(&entry{k: kU16, name: "AddUint16(0x0102)", class: "AddUint16", u: 0x0102, enc: []byte{1, 2}, elemTag: -1})
	addExt(&entry{k: kU24, name: "AddUint24(0x010203)", class: "AddUint24", u: 0x010203, enc: []byte{1, 2, 3}, elemTag: -1})
	addExt(&entry{k: kU32, name: "AddUint32(0x01020304)", class: "AddUint32", u: 0x01020304, enc: []byte{1, 2, 3, 4}, elemTag: -1})
	{
		const v = 0x0102030405060708
		z := big.NewInt(v)
		addExt(&entry{k: kInt64, name: "AddASN1Int64(0x0102030405060708)", class: "AddASN1Int64", i: v, z: z, enc: mustStd(z, ""), elemTag: 0x02})
		addExt(&entry{k: kUint64, name: "AddASN1Uint64(0x0102030405060708)", class: "AddASN1Uint64", u: v, z: z, enc: mustStd(z, ""), elemTag: 0x02})
		zn := big.NewInt(-v)
		addExt(&entry{k: kInt64, name: "AddASN1Int64(-0x0102030405060708)", class: "AddASN1Int64", i: -v, z: zn, enc: mustStd(zn, ""), elemTag: 0x02})
	}
	// raw lengths on both sides of the 1- and 2-octet length-prefix limits
	for _, n := range []int{254, 255, 256, 65534, 65535, 65536} {
		d := pat(n, 31, 7)
		addExt(&entry{k: kBytes, name: fmt.Sprintf("AddBytes(len %d)", n), class: "AddBytes", data: d, enc: append([]byte{}, d...), elemTag: -1})
	}
	// tag number 30 (the largest low-tag-number form) in three classes, and the refused 0x1f
	for _, t := range []byte{0xbe, 0x7e, 0x1e} {
		addExt(&entry{k: kASN1, name: fmt.Sprintf("AddASN1(0x%02x)", t), class: "AddASN1", container: true, tag: cbasn1.Tag(t), elemTag: int(t)})
	}
	addExt(&entry{k: kASN1, name: "AddASN1(0x1f)", class: "AddASN1(high tag)", container: true, tag: 0x1f, err: "high-tag", elemTag: -1})
	addExt(&entry{k: kASN1, name: "AddASN1(0xff)", class: "AddASN1(high tag)", container: true, tag: 0xff, err: "high-tag", elemTag: -1})
	addExt(&entry{k: kOptASN1, name: "Optional[ReadOptionalASN1 0x9e] present AddASN1(0x9e)", class: "ReadOptionalASN1", container: true, optional: true, present: true, tag: 0x9e, elemTag: 0x9e})
	addExt(&entry{k: kOptASN1, name: "Optional[ReadOptionalASN1 0x9e] absent", class: "ReadOptionalASN1", optional: true, tag: 0x9e, enc: []byte{}, elemTag: -1})
	addExt(&entry{k: kOptSkip, name: "Optional[SkipOptionalASN1 0x9e] absent", class: "SkipOptionalASN1", optional: true, tag: 0x9e, enc: []byte{}, elemTag: -1})
	// ReadOptionalASN1Integer with *int64 / *uint64 destinations
	const xt = 0xa0
	for _, v := range []int64{128, -129, math.MinInt64} {
		addExt(&entry{k: kOptInt64, name: fmt.Sprintf("Optional[ReadOptionalASN1Integer(*int64) 0xa0 default 7] present AddASN1(0xa0){AddASN1Int64(%d)}", v), class: "ReadOptionalASN1Integer(*int64)",
			optional: true, present: true, tag: xt, i: v, z: big.NewInt(v), defI: 7, enc: wrap(xt, mustStd(big.NewInt(v), "")), elemTag: xt})
	}
	for _, v := range []uint64{128, 1 << 63, math.MaxUint64} {
		z := new(big.Int).SetUint64(v)
		addExt(&entry{k: kOptUint64, name: fmt.Sprintf("Optional[ReadOptionalASN1Integer(*uint64) 0xa0 default 7] present AddASN1(0xa0){AddASN1Uint64(%d)}", v), class: "ReadOptionalASN1Integer(*uint64)",
			optional: true, present: true, tag: xt, u: v, z: z, defI: 7, enc: wrap(xt, mustStd(z, "")), elemTag: xt})
	}
	for _, d := range []int64{0, 7} {
		addExt(&entry{k: kOptInt64, name: fmt.Sprintf("Optional[ReadOptionalASN1Integer(*int64) 0xa0 default %d] absent", d), class: "ReadOptionalASN1Integer(*int64)",
			optional: true, tag: xt, defI: d, enc: []byte{}, elemTag: -1})
		addExt(&entry{k: kOptUint64, name: fmt.Sprintf("Optional[ReadOptionalASN1Integer(*uint64) 0xa0 default %d] absent", d), class: "ReadOptionalASN1Integer(*uint64)",
			optional: true, tag: xt, defI: d, enc: []byte{}, elemTag: -1})
	}
	// GeneralizedTime west of UTC with a half-hour offset
	{
		t := time.Date(2020, 6, 15, 12, 30, 45, 0, time.FixedZone("", -12600))
		addExt(&entry{k: kTime, name: "AddASN1GeneralizedTime(zoned -0330)", class: "AddASN1GeneralizedTime", t: t, enc: mustStd(t, "generalized"), elemTag: 0x18})
	}
	// UTCTime: cryptobyte has a reader only; the element is written with AddASN1(UTCTime){AddBytes(text)}
	for _, c := range []struct {
		n string
		t time.Time
	}{
		{"1950", time.Date(1950, 1, 1, 0, 0, 0, 0, time.UTC)},
		{"1999", time.Date(1999, 12, 31, 23, 59, 59, 0, time.UTC)},
		{"2000", time.Date(2000, 1, 1, 0, 0, 0, 0, time.UTC)},
		{"2049", time.Date(2049, 12, 31, 23, 59, 59, 0, time.UTC)},
		{"zoned -0330", time.Date(2020, 6, 15, 12, 30, 45, 0, time.FixedZone("", -12600))},
	} {
		text := []byte(c.t.Format(utcLayout))
		enc := mustStd(c.t, "utc")
		if string(enc) != string(wrap(0x17, text)) {
			panic("harness: UTCTime text disagrees with encoding/asn1 for " + c.n)
		}
		addExt(&entry{k: kUTCTime, name: "AddASN1(UTCTime){AddBytes(" + c.n + ")}", class: "UTCTime", t: c.t, data: text, enc: enc, elemTag: 0x17})
	}
	// Unwrite
	for _, c := range []struct{ w, n int }{{2, 2}, {3, 1}, {300, 45}, {300, 44}, {1, 0}} {
		d := pat(c.w, 17, 1)
		addExt(&entry{k: kWriteUnwrite, name: fmt.Sprintf("AddBytes(len %d);Unwrite(%d)", c.w, c.n), class: "AddBytes;Unwrite", data: d, n: c.n,
			enc: append([]byte{}, d[:c.w-c.n]...), elemTag: -1, noFixed: true})
	}
	for _, n := range []int{0, 1, 2} {
		addExt(&entry{k: kUnwrite, name: fmt.Sprintf("Unwrite(%d)", n), class: "Unwrite", n: n, enc: []byte{}, elemTag: -1, noFixed: true})
	}
	// MarshalASN1 (delegates to the repository's encoding/asn1.Marshal)
	for _, v := range []int64{300, -129} {
		addExt(&entry{k: kInt64, name: fmt.Sprintf("MarshalASN1(int64 %d)", v), class: "MarshalASN1", i: v, z: big.NewInt(v), enc: mustStd(big.NewInt(v), ""), elemTag: 0x02, marshal: true})
	}
	addExt(&entry{k: kMarshalErr, name: "MarshalASN1(chan int)", class: "MarshalASN1(unsupported type)", err: "marshal-asn1-error", elemTag: -1})
	// error plumbing
	addExt(&entry{k: kSetError, name: "SetError(sentinel)", class: "SetError", err: "set-error", sentinel: errSet, elemTag: -1})
	addExt(&entry{k: kAddValue, name: "AddValue(Marshal: AddUint16(0x0a0b))", class: "AddValue", u: 0x0a0b, enc: []byte{0x0a, 0x0b}, elemTag: -1})
	addExt(&entry{k: kAddValueErr, name: "AddValue(Marshal: error)", class: "AddValue(error)", err: "marshal-error", sentinel: errMarshal, elemTag: -1})
	addExt(&entry{k: kPanicBuildError, name: "panic(BuildError{sentinel})", class: "panic(BuildError)", enc: []byte{}, sentinel: errBuild, elemTag: -1, noFixed: true})
	addExt(&entry{k: kPanicOther, name: "panic(other value)", class: "panic(other)", enc: []byte{}, elemTag: -1, noFixed: true})
	// 16 MiB: four-octet DER length, and the 3-octet length-prefix limit (thorough tier, directed programs)
	for _, n := range []int{1<<24 - 1, 1 << 24} {
		d := pat(n, 29, 3)
		add(&entry{k: kBytes, name: fmt.Sprintf("AddBytes(len %d)", n), class: "AddBytes", data: d, enc: d, elemTag: -1, huge: true})
	}
}

// selfTestReference cross-checks the hand-written DER header against encoding/asn1.
func selfTestReference() error {
	for _, n := range []int{0, 1, 127, 128, 255, 256, 65535, 65536, 70000} {
		c := make([]byte, n)
		got := wrap(0x30, c)
		want := mustStd(stdasn1.RawValue{Class: 0, Tag: 16, IsCompound: true, Bytes: c}, "")
		if string(got) != string(want) {
			return fmt.Errorf("derHeader(0x30,%d) disagrees with encoding/asn1", n)
		}
		got = wrap(0xa0, c)
		want = mustStd(stdasn1.RawValue{Class: 2, Tag: 0, IsCompound: true, Bytes: c}, "")
		if string(got) != string(want) {
			return fmt.Errorf("derHeader(0xa0,%d) disagrees with encoding/asn1", n)
		}
	}
	return nil
}

// refTLV parses one DER element (X.690: single identifier octet, definite
// minimal length) at the start of b.
func refTLV(b []byte) (tag byte, content []byte, total int, ok bool) {
	if len(b) < 2 || b[0]&0x1f == 0x1f {
		return
	}
	tag = b[0]
	n, h := 0, 2
	if b[1] < 0x80 {
		n = int(b[1])
	} else {
		ll := int(b[1] & 0x7f)
		if ll == 0 || ll > 4 || len(b) < 2+ll || b[2] == 0 {
			return
		}
		for _, x := range b[2 : 2+ll] {
			n = n<<8 | int(x)
		}
		if n < 128 {
			return
		}
		h = 2 + ll
	}
	if len(b) < h+n {
		return
	}
	return tag, b[h : h+n], h + n, true
}

// refInteger decodes the content octets of a DER INTEGER.
func refInteger(c []byte) (*big.Int, bool) {
	if len(c) == 0 {
		return nil, false
	}
	if len(c) > 1 && (c[0] == 0 && c[1] < 0x80 || c[0] == 0xff && c[1] >= 0x80) {
		return nil, false
	}
	z := new(big.Int).SetBytes(c)
	if c[0] >= 0x80 {
		z.Sub(z, new(big.Int).Lsh(big.NewInt(1), uint(8*len(c))))
	}
	return z, true
}
