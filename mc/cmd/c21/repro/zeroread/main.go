// Reproducer (C21 finding e, minor): reading zero bytes from a nil String fails.
//
//	cd /verif/mc && GOFLAGS=-mod=mod GOPROXY=off go run ./cmd/c21/repro/zeroread
//
// Exit status 1 when the defect is present.
package main

import (
	"fmt"
	"os"

	"github.com/zmap/zcrypto/cryptobyte"
)

func main() {
	var b cryptobyte.Builder
	b.AddBytes(nil) // a zero-length value: the Builder's output is a nil slice
	s := cryptobyte.String(b.BytesOrPanic())
	var out []byte
	r1 := s.ReadBytes(&out, 0)
	r2 := s.Skip(0)
	r3 := s.CopyBytes(nil)
	e := cryptobyte.String([]byte{}) // same content, non-nil
	r4 := e.ReadBytes(&out, 0)
	fmt.Printf("nil String:   ReadBytes(0)=%v Skip(0)=%v CopyBytes(len 0)=%v   (want true)\n", r1, r2, r3)
	fmt.Printf("empty String: ReadBytes(0)=%v\n", r4)
	if !r1 || !r2 || !r3 {
		fmt.Println("DEFECT PRESENT: String.read(0) returns nil (= failure) when the String is nil")
		os.Exit(1)
	}
	fmt.Println("ok")
}
