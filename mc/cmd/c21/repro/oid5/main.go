// Reproducer (C21 finding b): Builder.AddASN1ObjectIdentifier writes arcs
// >= 2^28 (5 base-128 octets) that String.ReadASN1ObjectIdentifier rejects.
//
//	cd /verif/mc && GOFLAGS=-mod=mod GOPROXY=off go run ./cmd/c21/repro/oid5
//
// Exit status 1 when the defect is present.
package main

import (
	"fmt"
	"os"

	"github.com/zmap/zcrypto/cryptobyte"
	"github.com/zmap/zcrypto/encoding/asn1"
)

func main() {
	bad := false
	for _, oid := range []asn1.ObjectIdentifier{
		{1, 2, 1<<28 - 1},
		{1, 2, 1 << 28},
		{1, 2, 1<<31 - 1},
		{2, 1 << 28},
	} {
		var b cryptobyte.Builder
		b.AddASN1ObjectIdentifier(oid)
		enc, err := b.Bytes()
		if err != nil {
			fmt.Printf("%v: builder error %v\n", oid, err)
			continue
		}
		s := cryptobyte.String(enc)
		var got asn1.ObjectIdentifier
		ok := s.ReadASN1ObjectIdentifier(&got)
		// cross-check with the zcrypto encoding/asn1 decoder, which accepts the same bytes
		var ref asn1.ObjectIdentifier
		_, rerr := asn1.Unmarshal(enc, &ref)
		fmt.Printf("%v -> %x : ReadASN1ObjectIdentifier ok=%v got=%v ; encoding/asn1.Unmarshal -> %v err=%v\n", oid, enc, ok, got, ref, rerr)
		if !ok || !got.Equal(oid) {
			bad = true
		}
	}
	if bad {
		fmt.Println("DEFECT PRESENT: readBase128Int gives up after 4 octets")
		os.Exit(1)
	}
	fmt.Println("ok")
}
