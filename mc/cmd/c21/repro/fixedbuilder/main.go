// Reproducer (C21 findings c, d): NewFixedBuilder with a buffer that is too small
// (c) panics "cryptobyte: internal error" when the length prefix itself does not fit,
// (d) silently drops the last content byte, without error, when only the extra
//
//	    octets of a long-form ASN.1 length do not fit.
//
//		cd /verif/mc && GOFLAGS=-mod=mod GOPROXY=off go run ./cmd/c21/repro/fixedbuilder
//
// Exit status 1 when the Builder panics or truncates instead of reporting an error.
package main

import (
	"fmt"
	"os"

	"github.com/zmap/zcrypto/cryptobyte"
)

func try(name string, f func() ([]byte, error)) (panicked bool) {
	defer func() {
		if r := recover(); r != nil {
			fmt.Printf("%-60s PANIC: %v\n", name, r)
			panicked = true
		}
	}()
	out, err := f()
	fmt.Printf("%-60s bytes=%x err=%v\n", name, out, err)
	return false
}

func main() {
	bad := false
	bad = try("cap 0: AddUint8LengthPrefixed(empty)", func() ([]byte, error) {
		b := cryptobyte.NewFixedBuilder(make([]byte, 0, 0))
		b.AddUint8LengthPrefixed(func(c *cryptobyte.Builder) {})
		return b.Bytes()
	}) || bad
	bad = try("cap 1: AddUint8(7); AddUint8LengthPrefixed(empty)", func() ([]byte, error) {
		b := cryptobyte.NewFixedBuilder(make([]byte, 0, 1))
		b.AddUint8(7)
		b.AddUint8LengthPrefixed(func(c *cryptobyte.Builder) {})
		return b.Bytes()
	}) || bad
	bad = try("cap 1: AddUint16LengthPrefixed(AddUint8(1))", func() ([]byte, error) {
		b := cryptobyte.NewFixedBuilder(make([]byte, 0, 1))
		b.AddUint16LengthPrefixed(func(c *cryptobyte.Builder) { c.AddUint8(1) })
		return b.Bytes()
	}) || bad
	bad = try("cap 2: AddASN1Boolean(true)   (needs 3)", func() ([]byte, error) {
		b := cryptobyte.NewFixedBuilder(make([]byte, 0, 2))
		b.AddASN1Boolean(true)
		return b.Bytes()
	}) || bad
	bad = try("cap 1: AddASN1Boolean(true)   (needs 3)", func() ([]byte, error) {
		b := cryptobyte.NewFixedBuilder(make([]byte, 0, 1))
		b.AddASN1Boolean(true)
		return b.Bytes()
	}) || bad
	bad = try("cap 3: AddUint8LengthPrefixed(AddUint8 x3) (needs 4)", func() ([]byte, error) {
		b := cryptobyte.NewFixedBuilder(make([]byte, 0, 3))
		b.AddUint8LengthPrefixed(func(c *cryptobyte.Builder) { c.AddUint8(1); c.AddUint8(2); c.AddUint8(3) })
		return b.Bytes()
	}) || bad
	// (d) OCTET STRING of 128 bytes needs 3+128 = 131 bytes; capacity 130.
	{
		data := make([]byte, 128)
		for i := range data {
			data[i] = byte(i + 1)
		}
		b := cryptobyte.NewFixedBuilder(make([]byte, 0, 130))
		b.AddASN1OctetString(data)
		out, err := b.Bytes()
		fmt.Printf("cap 130: AddASN1OctetString(128 bytes) (needs 131): len=%d err=%v head=%x tail=%x\n", len(out), err, out[:min(4, len(out))], out[max(0, len(out)-2):])
		if err == nil {
			fmt.Println("  -> no error; header says 128 content bytes, only 127 are there (last byte 0x80 lost)")
			bad = true
		}
	}
	if bad {
		fmt.Println("DEFECT PRESENT: fixed-size Builder panics / truncates instead of returning an error")
		os.Exit(1)
	}
	fmt.Println("ok")
}
