// Reproducer (C21 finding a): String.ReadOptionalASN1Boolean fails / reads the
// wrong element when the optional BOOLEAN is present.
//
//	cd /verif/mc && GOFLAGS=-mod=mod GOPROXY=off go run ./cmd/c21/repro/optbool
//
// Exit status 1 when the defect is present.
package main

import (
	"fmt"
	"os"

	"github.com/zmap/zcrypto/cryptobyte"
)

func main() {
	bad := false

	// 1. BOOLEAN TRUE present, nothing after it.
	var b cryptobyte.Builder
	b.AddASN1Boolean(true)
	s := cryptobyte.String(b.BytesOrPanic()) // 01 01 ff
	out := false
	ok := s.ReadOptionalASN1Boolean(&out, false)
	fmt.Printf("input 0101ff           : ok=%v out=%v rest=%x   (want ok=true out=true rest=)\n", ok, out, []byte(s))
	if !ok || !out || len(s) != 0 {
		bad = true
	}

	// 2. BOOLEAN TRUE present, followed by BOOLEAN FALSE.
	b = cryptobyte.Builder{}
	b.AddASN1Boolean(true)
	b.AddASN1Boolean(false)
	s = cryptobyte.String(b.BytesOrPanic()) // 01 01 ff 01 01 00
	out = false
	ok = s.ReadOptionalASN1Boolean(&out, false)
	fmt.Printf("input 0101ff010100     : ok=%v out=%v rest=%x   (want ok=true out=true rest=010100)\n", ok, out, []byte(s))
	if !ok || !out || len(s) != 3 {
		bad = true
	}

	// 3. BOOLEAN TRUE present, followed by INTEGER 5.
	b = cryptobyte.Builder{}
	b.AddASN1Boolean(true)
	b.AddASN1Int64(5)
	s = cryptobyte.String(b.BytesOrPanic()) // 01 01 ff 02 01 05
	out = false
	ok = s.ReadOptionalASN1Boolean(&out, false)
	fmt.Printf("input 0101ff020105     : ok=%v out=%v rest=%x   (want ok=true out=true rest=020105)\n", ok, out, []byte(s))
	if !ok || !out || len(s) != 3 {
		bad = true
	}

	if bad {
		fmt.Println("DEFECT PRESENT: ReadOptionalASN1Boolean decodes from the rest of s instead of the element it consumed")
		os.Exit(1)
	}
	fmt.Println("ok")
}
