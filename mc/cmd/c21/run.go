package main

// Execution of one program on the real Builder / String and the oracle.

import (
	"bytes"
	"fmt"
	"math/big"
	"runtime"
	"strings"
	"time"

	"github.com/zmap/zcrypto/cryptobyte"
	cbasn1 "github.com/zmap/zcrypto/cryptobyte/asn1"
	zasn1 "github.com/zmap/zcrypto/encoding/asn1"
	"verifmc/internal/ev"
)

const nVariants = 3

const endOfLevelSig = "end of level: bytes left over"

type failure struct {
	sig    string
	detail string
	mode   string
	capa   int
	prefix int
	varnt  int
}

type runner struct {
	sh  *shape
	lab []int
	enc [maxN][]byte // reference encoding per node (children included)
	h   ev.Hist

	phase string // what the real code is doing (for panic signatures)

	nBuildOps, nReads, nOracle, nTraces int64
	fixedLevel                          int
	scratch                             []byte // backing store of the fixed-size builders

	// dest.go: destination independence / input immutability / aliasing probes
	inSave  []byte // copy of the unread bytes taken before an op is probed
	noProbe bool   // set while output that was already probed is read again (fixed-size Builder family)
}

func (r *runner) e(i int) *entry { return alphabet[r.lab[i]] }

// ---------- reference encoding of the program ----------

var lpMax = [5]int64{0, 0xff, 0xffff, 0xffffff, 0xffffffff}

// refResult is the reference outcome of a program.
type refResult struct {
	top      []byte
	errClass string // documented Builder error the program must end in ("" = none)
	errNode  int
	errIs    error  // when non-nil: the very error value Bytes must return
	panicCls string // "" | "user" (a continuation's own panic must be re-raised) | "unwrite" (documented Unwrite panic)
	cut      bool   // an Unwrite removed bytes written by a preceding op of its level: no mechanical read program
	unspec   bool   // an Unwrite reached into a completed length-prefixed block: the statement is silent
}

// level is the reference model of one Builder (top level or the child handed to a continuation).
type level struct {
	buf    []byte
	err    string
	errN   int
	errIs  error
	direct int // buf[direct:] was written by leaf ops of this level
}

func (r *runner) reference() (top []byte, errClass string, errNode int) {
	res := r.simulate()
	return res.top, res.errClass, res.errNode
}

// simulate executes the program on the reference model in the order the
// harness executes it on the real Builder. The model is the documented
// behaviour of builder.go: writes after an error are ignored, a length-prefixed
// block whose Builder is already in error does not run its continuation,
// SetError / AddValue's error / AddASN1GeneralizedTime's range error replace the
// error unconditionally, a BuildError panic unwinds to the outermost
// continuation and becomes the Builder's error, any other panic is re-raised.
func (r *runner) simulate() *refResult {
	res := &refResult{errNode: -1}
	var L level
	for _, i := range r.sh.roots {
		switch p := r.sim([]int{i}, &L, 0, res); p {
		case "":
		case "build-error", "build-error-overridden":
			L.err, L.errN, L.errIs = "build-error", i, errBuild
			if p == "build-error-overridden" {
				L.errIs = nil
			}
		default:
			res.panicCls = p
			return res
		}
	}
	res.top, res.errClass, res.errNode, res.errIs = L.buf, L.err, L.errN, L.errIs
	if L.err == "" {
		res.errNode = -1
	}
	return res
}

func (r *runner) sim(ids []int, L *level, depth int, res *refResult) string {
	for _, i := range ids {
		e := r.e(i)
		r.enc[i] = nil
		switch e.k {
		case kPanicBuildError:
			if depth > 0 {
				return "build-error"
			}
			continue // outside a continuation the harness does not panic
		case kPanicOther:
			if depth > 0 {
				return "user"
			}
			continue
		case kSetError, kAddValueErr:
			L.err, L.errN, L.errIs = e.err, i, e.sentinel
			continue
		case kUnwrite:
			if L.err != "" {
				continue
			}
			if e.n > len(L.buf) {
				return "unwrite"
			}
			if e.n > 0 {
				if len(L.buf)-e.n < L.direct {
					res.unspec = true
				}
				L.buf = L.buf[:len(L.buf)-e.n]
				if L.direct > len(L.buf) {
					L.direct = len(L.buf)
				}
				res.cut = true
			}
			continue
		}
		if !e.container {
			if e.err != "" {
				// AddASN1GeneralizedTime assigns its range error without looking at the Builder's state
				if L.err == "" || e.err == "time-range" {
					L.err, L.errN, L.errIs = e.err, i, nil
				}
				continue
			}
			r.enc[i] = e.enc
			if L.err == "" {
				L.buf = append(L.buf, e.enc...)
			}
			continue
		}
		// AddASN1 / length-prefixed block / written optional element
		if L.err != "" {
			continue // the continuation is not run
		}
		if e.err != "" { // high tag
			L.err, L.errN, L.errIs = e.err, i, nil
			continue
		}
		var C level
		p := r.sim(r.sh.kids[i], &C, depth+1, res)
		n := len(C.buf)
		overflow := e.lenLen > 0 && int64(n) > lpMax[e.lenLen]
		switch p {
		case "":
		case "build-error", "build-error-overridden":
			// the pending blocks on the way out are still flushed: an error of the block's own
			// Builder or a length that does not fit the prefix replaces the BuildError's error
			if C.err != "" || overflow {
				return "build-error-overridden"
			}
			return p
		default:
			return p
		}
		if C.err != "" {
			L.err, L.errN, L.errIs = C.err, C.errN, C.errIs
			continue
		}
		if overflow {
			L.err, L.errN, L.errIs = "length-prefix-overflow", i, nil
			continue
		}
		start := len(L.buf)
		if e.lenLen > 0 {
			for j := e.lenLen - 1; j >= 0; j-- {
				L.buf = append(L.buf, byte(n>>(8*uint(j))))
			}
		} else {
			L.buf = append(L.buf, derHeader(byte(e.tag), n)...)
		}
		L.buf = append(L.buf, C.buf...)
		r.enc[i] = append([]byte(nil), L.buf[start:]...)
		L.direct = len(L.buf)
	}
	return ""
}

func (r *runner) contentLen(i int) int {
	n := 0
	for _, k := range r.sh.kids[i] {
		n += len(r.enc[k])
	}
	return n
}

// ---------- real Builder ----------

func (r *runner) write(b *cryptobyte.Builder, ids []int, depth int) {
	for _, i := range ids {
		e := r.e(i)
		r.nBuildOps++
		switch e.k {
		case kU8:
			b.AddUint8(uint8(e.u))
		case kU16:
			b.AddUint16(uint16(e.u))
		case kU24:
			b.AddUint24(uint32(e.u))
		case kU32:
			b.AddUint32(uint32(e.u))
		case kBytes:
			b.AddBytes(e.data)
		case kInt64:
			if e.marshal {
				b.MarshalASN1(e.i)
			} else {
				b.AddASN1Int64(e.i)
			}
		case kMarshalErr:
			b.MarshalASN1(make(chan int))
		case kUint64:
			b.AddASN1Uint64(e.u)
		case kBigInt:
			b.AddASN1BigInt(e.z)
		case kEnum:
			b.AddASN1Enum(e.i)
		case kIntTag:
			b.AddASN1Int64WithTag(e.i, e.tag)
		case kBool:
			b.AddASN1Boolean(e.b)
		case kNull:
			b.AddASN1NULL()
		case kOctet:
			b.AddASN1OctetString(e.data)
		case kBit:
			b.AddASN1BitString(e.data)
		case kOID:
			b.AddASN1ObjectIdentifier(zasn1.ObjectIdentifier(e.oid))
		case kTime:
			b.AddASN1GeneralizedTime(e.t)
		case kLP8, kLP16, kLP24, kLP32:
			kids := r.sh.kids[i]
			f := func(c *cryptobyte.Builder) { r.write(c, kids, depth+1) }
			switch e.lenLen {
			case 1:
				b.AddUint8LengthPrefixed(f)
			case 2:
				b.AddUint16LengthPrefixed(f)
			case 3:
				b.AddUint24LengthPrefixed(f)
			case 4:
				b.AddUint32LengthPrefixed(f)
			}
		case kASN1:
			kids := r.sh.kids[i]
			b.AddASN1(e.tag, func(c *cryptobyte.Builder) { r.write(c, kids, depth+1) })
		case kOptASN1, kOptSkip:
			if e.present {
				kids := r.sh.kids[i]
				b.AddASN1(e.tag, func(c *cryptobyte.Builder) { r.write(c, kids, depth+1) })
			}
		case kOptInt:
			if e.present {
				b.AddASN1(e.tag, func(c *cryptobyte.Builder) { c.AddASN1Int64(e.i) })
			}
		case kOptBigInt:
			if e.present {
				b.AddASN1(e.tag, func(c *cryptobyte.Builder) { c.AddASN1BigInt(e.z) })
			}
		case kOptOctet:
			if e.present {
				b.AddASN1(e.tag, func(c *cryptobyte.Builder) { c.AddASN1OctetString(e.data) })
			}
		case kOptBool:
			if e.present {
				b.AddASN1Boolean(e.b)
			}
		case kOptInt64:
			if e.present {
				b.AddASN1(e.tag, func(c *cryptobyte.Builder) { c.AddASN1Int64(e.i) })
			}
		case kOptUint64:
			if e.present {
				b.AddASN1(e.tag, func(c *cryptobyte.Builder) { c.AddASN1Uint64(e.u) })
			}
		case kWriteUnwrite:
			b.AddBytes(e.data)
			b.Unwrite(e.n)
		case kUnwrite:
			b.Unwrite(e.n)
		case kSetError:
			b.SetError(e.sentinel)
		case kAddValue:
			b.AddValue(mvWrite{uint16(e.u)})
		case kAddValueErr:
			b.AddValue(mvFail{})
		case kPanicBuildError:
			if depth > 0 {
				panic(cryptobyte.BuildError{Err: e.sentinel})
			}
		case kPanicOther:
			if depth > 0 {
				panic(thePanic)
			}
		case kUTCTime:
			b.AddASN1(cbasn1.UTCTime, func(c *cryptobyte.Builder) { c.AddBytes(e.data) })
		default:
			panic("harness: unknown kind")
		}
	}
}

// mvWrite / mvFail are the MarshalingValues handed to Builder.AddValue.
type mvWrite struct{ v uint16 }

func (m mvWrite) Marshal(b *cryptobyte.Builder) error { b.AddUint16(m.v); return nil }

type mvFail struct{}

func (mvFail) Marshal(b *cryptobyte.Builder) error { return errMarshal }

// zcryptoSite names the first zcrypto frame of the current (panicking) stack.
func zcryptoSite() string {
	pcs := make([]uintptr, 64)
	n := runtime.Callers(3, pcs)
	frames := runtime.CallersFrames(pcs[:n])
	for {
		fr, more := frames.Next()
		if strings.Contains(fr.Function, "github.com/zmap/zcrypto/") {
			return strings.TrimPrefix(fr.Function, "github.com/zmap/zcrypto/")
		}
		if !more {
			return "?"
		}
	}
}

func (r *runner) guard(f func() *failure) (out *failure) {
	defer func() {
		if rec := recover(); rec != nil {
			msg := fmt.Sprint(rec)
			if strings.HasPrefix(msg, "harness:") {
				panic(rec)
			}
			// A panic raised inside a continuation is re-panicked by callContinuation, which hides the
			// original site: explicit library panics are therefore identified by their message alone,
			// runtime errors (index out of range ...) by message class and first zcrypto frame.
			site := ""
			if strings.HasPrefix(msg, "runtime error") {
				site = "@" + zcryptoSite()
			}
			out = &failure{sig: fmt.Sprintf("panic%s: %s [%s]", site, ev.MsgClass(msg), r.phase), detail: msg}
		}
	}()
	return f()
}

func (r *runner) build(b *cryptobyte.Builder) ([]byte, error) {
	r.write(b, r.sh.roots, 0)
	return b.Bytes()
}

// capture runs f and returns the value it panicked with (nil = no panic) and,
// for a panic, the failure that reports it as unexpected.
func (r *runner) capture(f func()) (pv any, unexpected *failure) {
	unexpected = r.guard(func() *failure {
		defer func() {
			if rec := recover(); rec != nil {
				pv = rec
				panic(rec)
			}
		}()
		f()
		return nil
	})
	return
}

// opAt names the class of the op whose reference bytes hold offset off of the level.
func (r *runner) opAt(ids []int, off int) string {
	pos := 0
	for _, i := range ids {
		n := len(r.enc[i])
		if off < pos+n {
			e := r.e(i)
			// one defect in the length handling shows up under every op that writes a length: name the octets, not the op
			if e.lenLen > 0 && off-pos < e.lenLen {
				return "a length prefix"
			}
			if e.elemTag >= 0 {
				if _, content, _, ok := refTLV(r.enc[i]); ok && off-pos < n-len(content) {
					return "the identifier/length octets of an ASN.1 element"
				}
			}
			if e.container {
				hdr := n - r.contentLen(i)
				if off >= pos+hdr {
					return r.opAt(r.sh.kids[i], off-pos-hdr)
				}
			}
			return e.class
		}
		pos += n
	}
	return "end of output"
}

// runProgram executes the program in every mode and returns the failures (one per mode at most).
func (r *runner) runProgram() []*failure {
	var fails []*failure
	res := r.simulate()
	ref, wantErr, errNode := res.top, res.errClass, res.errNode
	var out, out2 []byte
	var err error
	r.phase = "Builder"
	r.nTraces++
	bld := cryptobyte.NewBuilder(nil)
	pv, f := r.capture(func() { out, err = r.build(bld) })
	r.nOracle++
	if res.unspec {
		r.h["unspecified: Unwrite reaches into a completed length-prefixed block (no verdict)"]++
		return nil
	}
	grow := func(f *failure) []*failure {
		f.mode = "grow"
		return append(fails, f)
	}
	// a Builder that is unexpectedly in error ignores the op that should panic: report the error, once
	if res.panicCls != "" && pv == nil && err != nil {
		return grow(&failure{sig: "Builder: unexpected error: " + ev.MsgClass(err.Error()), detail: err.Error()})
	}
	switch res.panicCls {
	case "user":
		if pv != any(thePanic) {
			return grow(&failure{sig: "Builder: a continuation's panic (not a BuildError) is not re-raised with the same value", detail: fmt.Sprintf("recovered %#v, err %v", pv, err)})
		}
		r.h["continuation panic re-raised with the same value"]++
		return nil
	case "unwrite":
		if pv == nil || !strings.Contains(fmt.Sprint(pv), "unwrite more than was written") {
			return grow(&failure{sig: "Builder: Unwrite of more bytes than this Builder wrote does not panic as documented", detail: fmt.Sprintf("recovered %#v, Bytes() = %s, err %v", pv, hexShort(out), err)})
		}
		r.h["Unwrite beyond the Builder's own bytes: documented panic"]++
		return nil
	}
	switch {
	case f != nil:
	case wantErr != "" && err == nil:
		f = &failure{sig: fmt.Sprintf("Builder: no error although %s must fail (%s)", r.e(errNode).class, wantErr), detail: "Bytes() = " + hexShort(out)}
	case wantErr == "" && err != nil:
		f = &failure{sig: "Builder: unexpected error: " + ev.MsgClass(err.Error()), detail: err.Error()}
	case wantErr != "" && res.errIs != nil && err != res.errIs:
		f = &failure{sig: "Builder: Bytes does not return the error value handed to the Builder (SetError / AddValue / BuildError)", detail: fmt.Sprintf("error expected from %s: got %q want %q", r.e(errNode).class, err, res.errIs)}
	}
	if f != nil {
		return grow(f)
	}
	// BytesOrPanic: same bytes, or a panic with the Builder's error
	r.phase = "BytesOrPanic"
	pv2, _ := r.capture(func() { out2 = bld.BytesOrPanic() })
	r.nOracle++
	if wantErr != "" {
		if pv2 != any(err) {
			return grow(&failure{sig: "BytesOrPanic: no panic with the Builder's error", detail: fmt.Sprintf("recovered %#v, Bytes() error %v", pv2, err)})
		}
		r.h["builder-error:"+wantErr]++
		return nil
	}
	if pv2 != nil || !bytes.Equal(out2, out) {
		return grow(&failure{sig: "BytesOrPanic: differs from Bytes", detail: fmt.Sprintf("recovered %#v, %s vs %s", pv2, hexShort(out2), hexShort(out))})
	}
	// the built bytes are the documented encoding (big-endian integers, minimal-length prefixes, DER)
	if !bytes.Equal(out, ref) {
		d := 0
		for d < len(out) && d < len(ref) && out[d] == ref[d] {
			d++
		}
		// a difference caused by Unwrite shows up in the enclosing block's length: name Unwrite itself
		cls := ""
		for i := 0; i < r.sh.n; i++ {
			if k := r.e(i).k; k == kUnwrite || k == kWriteUnwrite {
				cls = "a program with Unwrite"
			}
		}
		if cls == "" {
			cls = r.opAt(r.sh.roots, d)
		}
		return grow(&failure{sig: "Builder: output differs from the reference encoding (first difference in " + cls + ")",
			detail: fmt.Sprintf("offset %d: got %s (len %d) want %s (len %d)", d, hexShort(out[d:]), len(out), hexShort(ref[d:]), len(ref))})
	}
	if res.cut {
		r.h["Unwrite removed bytes of preceding ops: built bytes equal the reference (no mechanical read-back)"]++
		return nil
	}
	// round trip, every reader variant
	good := true
	for v := 0; v < nVariants; v++ {
		v := v
		r.nTraces++
		f := r.guard(func() *failure {
			s := cryptobyte.String(out)
			return r.readLevel(&s, r.sh.roots, ref, v)
		})
		if f != nil {
			// only the first failing variant is reported: a defect in shared code would otherwise be
			// reported once per reader variant; a defect in one variant only is still seen (the others pass)
			f.mode, f.varnt = "grow", v
			fails = append(fails, f)
			good = false
			break
		}
	}
	if good {
		r.h["roundtrip-ok"]++
	}
	fixed := r.fixedLevel > 0
	for i := 0; i < r.sh.n; i++ {
		if r.e(i).noFixed {
			fixed = false
		}
	}
	if fixed {
		fails = append(fails, r.fixedFamily(out, ref, good)...)
	}
	return fails
}

// fixedFamily: NewFixedBuilder with exact and short capacities.
func (r *runner) fixedFamily(grow, ref []byte, readable bool) []*failure {
	var fails []*failure
	exact := len(ref)
	type cfg struct{ capa, prefix int }
	var cfgArr [12]cfg
	cfgs := append(cfgArr[:0], cfg{exact, 0})
	if r.fixedLevel >= 2 {
		cfgs = append(cfgs, cfg{exact, 2})
		if exact <= 8 {
			for c := 0; c < exact; c++ {
				cfgs = append(cfgs, cfg{c, 0})
			}
		} else {
			cfgs = append(cfgs, cfg{0, 0}, cfg{1, 0}, cfg{exact - 2, 0}, cfg{exact - 1, 0})
		}
	} else if exact > 0 {
		cfgs = append(cfgs, cfg{exact - 1, 0})
	}
	var seenSig map[string]bool
	if len(r.scratch) < exact+2 {
		r.scratch = make([]byte, exact+2+1024)
	}
	for _, cf := range cfgs {
		cf := cf
		short := cf.capa < exact
		var out []byte
		var err error
		r.phase = "fixed-size Builder, capacity = needed"
		if short {
			r.phase = "fixed-size Builder, capacity < needed"
		}
		r.nTraces++
		f := r.guard(func() *failure {
			buf := r.scratch[: cf.prefix : cf.prefix+cf.capa]
			for i := range buf {
				buf[i] = 0xee
			}
			out, err = r.build(cryptobyte.NewFixedBuilder(buf))
			return nil
		})
		r.nOracle++
		if f == nil {
			switch {
			case short && err == nil:
				what := "output has the full length"
				if len(out) < exact {
					what = "output silently truncated"
				}
				f = &failure{sig: "fixed-size Builder, capacity < needed: no error, " + what, detail: fmt.Sprintf("needed %d, capacity %d, Bytes() = %s (len %d)", exact, cf.capa, hexShort(out), len(out))}
			case short:
				r.h["fixed-short-capacity-error"]++
			case err != nil:
				f = &failure{sig: "fixed-size Builder, capacity = needed: unexpected error: " + ev.MsgClass(err.Error()), detail: err.Error()}
			default:
				want := grow
				if cf.prefix > 0 {
					want = append(bytes.Repeat([]byte{0xee}, cf.prefix), grow...)
				}
				if bytes.Equal(out, want) {
					r.h["fixed-exact-capacity-ok"]++
				} else if !readable {
					// growable output already reported as unreadable; nothing more to learn
				} else {
					// different bytes are acceptable iff they still read back
					r.phase = "fixed-size Builder output"
					f = r.guard(func() *failure {
						s := cryptobyte.String(out)
						if !s.Skip(cf.prefix) {
							return &failure{sig: "fixed-size Builder, capacity = needed: output shorter than the initial buffer"}
						}
						r.noProbe = true
						defer func() { r.noProbe = false }()
						return r.readLevel(&s, r.sh.roots, ref, 0)
					})
					if f != nil {
						f.sig = "fixed-size Builder, capacity = needed: " + f.sig
					} else {
						r.h["fixed-exact-capacity-different-bytes-readable"]++
					}
				}
			}
		}
		if f != nil && !seenSig[f.sig] {
			if seenSig == nil {
				seenSig = map[string]bool{}
			}
			seenSig[f.sig] = true
			f.mode, f.capa, f.prefix = "fixed", cf.capa, cf.prefix
			fails = append(fails, f)
		}
	}
	return fails
}

// ---------- real String readers + oracle ----------

// sameTime: the same instant with the same offset from UTC (the offset is part
// of what AddASN1GeneralizedTime writes, and of the written value).
func sameTime(a, b time.Time) bool {
	_, oa := a.Zone()
	_, ob := b.Zone()
	return a.Equal(b) && oa == ob
}

// followerClass classifies what starts at byte offset off of the level (rest = reference bytes from off):
// nothing / a well-formed element carrying the reader's tag / another ASN.1 element written by one op / raw bytes.
func (r *runner) followerClass(ids []int, off int, tag int, rest []byte) string {
	if len(rest) == 0 {
		return "nothing"
	}
	if int(rest[0]) == tag {
		if _, _, _, ok := refTLV(rest); ok {
			return "element of the same tag"
		}
		return "raw bytes"
	}
	pos := 0
	for _, i := range ids {
		if pos == off && len(r.enc[i]) > 0 {
			if r.e(i).elemTag >= 0 {
				return "element of a different tag"
			}
			return "raw bytes"
		}
		if pos > off {
			break
		}
		pos += len(r.enc[i])
	}
	return "raw bytes"
}

// readLevel reads the ops ids from s. ref is the reference encoding of the level.
func (r *runner) readLevel(s *cryptobyte.String, ids []int, ref []byte, v int) *failure {
	levelIn := []byte(*s)
	off := 0 // reference offset of the next unread op
	fail := func(reader, class, kind, detail string) *failure {
		return &failure{sig: fmt.Sprintf("%s [%s]: %s", reader, class, kind), detail: detail}
	}
	// "leaves exactly the unread remainder": after the ops up to reference offset o have been read,
	// s must be the level's input minus its first o bytes.
	tailAt := func(o int) ([]byte, bool) {
		if o > len(levelIn) {
			return nil, false
		}
		return levelIn[o:], true
	}
	for j := 0; j < len(ids); j++ {
		i := ids[j]
		e := r.e(i)
		encLen := len(r.enc[i])
		reader := ""
		ok := false
		bad := "" // value mismatch description
		var child cryptobyte.String
		descend := false
		r.nReads++
		r.nOracle++

		if !r.noProbe {
			if f := r.probeOp(*s, e, encLen, v); f != nil {
				return f
			}
		}

		if e.optional {
			if f, nj, noff, stop := r.readOptional(s, ids, j, ref, off, levelIn, v); f != nil || stop {
				return f
			} else {
				j, off = nj, noff
			}
			continue
		}

		switch e.k {
		case kU8:
			reader = "ReadUint8"
			r.phase = reader
			x := uint8(0x5a)
			ok = s.ReadUint8(&x)
			if uint64(x) != e.u {
				bad = fmt.Sprintf("got %d want %d", x, e.u)
			}
		case kU16:
			reader = "ReadUint16"
			r.phase = reader
			x := uint16(0x5a5a)
			ok = s.ReadUint16(&x)
			if uint64(x) != e.u {
				bad = fmt.Sprintf("got %d want %d", x, e.u)
			}
		case kU24:
			reader = "ReadUint24"
			r.phase = reader
			x := uint32(0x5a5a5a5a)
			ok = s.ReadUint24(&x)
			if uint64(x) != e.u {
				bad = fmt.Sprintf("got %d want %d", x, e.u)
			}
		case kU32:
			reader = "ReadUint32"
			r.phase = reader
			x := uint32(0x5a5a5a5a)
			ok = s.ReadUint32(&x)
			if uint64(x) != e.u {
				bad = fmt.Sprintf("got %d want %d", x, e.u)
			}
		case kBytes:
			if len(e.data) == 0 && *s == nil {
				// Degenerate: the whole input is a nil String (only AddBytes(len 0) was written). A
				// zero-length raw read on a nil String is outside the statement's value kinds: no verdict.
				r.h["unspecified: zero-length raw read on a nil String (no verdict)"]++
				continue
			}
			switch v % 3 {
			case 0:
				reader = "ReadBytes"
				r.phase = reader
				var x []byte
				ok = s.ReadBytes(&x, len(e.data))
				if !bytes.Equal(x, e.data) {
					bad = "bytes differ"
				}
			case 1:
				reader = "CopyBytes"
				r.phase = reader
				x := make([]byte, len(e.data))
				ok = s.CopyBytes(x)
				if !bytes.Equal(x, e.data) {
					bad = "bytes differ"
				}
			default:
				reader = "Skip"
				r.phase = reader
				ok = s.Skip(len(e.data))
			}
		case kInt64:
			switch v % 3 {
			case 0:
				reader = "ReadASN1Integer(*int64)"
				r.phase = reader
				x := int64(0x5a5a5a5a)
				ok = s.ReadASN1Integer(&x)
				if x != e.i {
					bad = fmt.Sprintf("got %d want %d", x, e.i)
				}
			case 1:
				reader = "ReadASN1Integer(*big.Int)"
				r.phase = reader
				x := big.NewInt(99)
				ok = s.ReadASN1Integer(x)
				if x.Cmp(e.z) != 0 {
					bad = fmt.Sprintf("got %s want %s", x, e.z)
				}
			default:
				reader = "ReadASN1Int64WithTag(INTEGER)"
				r.phase = reader
				x := int64(-1)
				ok = s.ReadASN1Int64WithTag(&x, cbasn1.INTEGER)
				if x != e.i {
					bad = fmt.Sprintf("got %d want %d", x, e.i)
				}
			}
		case kUint64:
			if v%2 == 0 {
				reader = "ReadASN1Integer(*uint64)"
				r.phase = reader
				x := uint64(0x5a5a)
				ok = s.ReadASN1Integer(&x)
				if x != e.u {
					bad = fmt.Sprintf("got %d want %d", x, e.u)
				}
			} else {
				reader = "ReadASN1Integer(*big.Int)"
				r.phase = reader
				x := big.NewInt(99)
				ok = s.ReadASN1Integer(x)
				if x.Cmp(e.z) != 0 {
					bad = fmt.Sprintf("got %s want %s", x, e.z)
				}
			}
		case kBigInt:
			reader = "ReadASN1Integer(*big.Int)"
			r.phase = reader
			x := big.NewInt(-99)
			ok = s.ReadASN1Integer(x)
			if x.Cmp(e.z) != 0 {
				bad = fmt.Sprintf("got %s want %s", x, e.z)
			}
		case kEnum:
			reader = "ReadASN1Enum"
			r.phase = reader
			x := 0x5a5a
			ok = s.ReadASN1Enum(&x)
			if int64(x) != e.i {
				bad = fmt.Sprintf("got %d want %d", x, e.i)
			}
		case kIntTag:
			reader = "ReadASN1Int64WithTag"
			r.phase = reader
			x := int64(0x5a5a)
			ok = s.ReadASN1Int64WithTag(&x, e.tag)
			if x != e.i {
				bad = fmt.Sprintf("got %d want %d", x, e.i)
			}
		case kBool:
			reader = "ReadASN1Boolean"
			r.phase = reader
			x := !e.b
			ok = s.ReadASN1Boolean(&x)
			if x != e.b {
				bad = fmt.Sprintf("got %v want %v", x, e.b)
			}
		case kNull:
			switch v % 3 {
			case 0:
				reader = "ReadASN1(NULL)"
				r.phase = reader
				x := cryptobyte.String{1}
				ok = s.ReadASN1(&x, cbasn1.NULL)
				if len(x) != 0 {
					bad = "NULL content not empty"
				}
			case 1:
				reader = "SkipASN1(NULL)"
				r.phase = reader
				ok = s.SkipASN1(cbasn1.NULL)
			default:
				reader = "ReadAnyASN1Element"
				r.phase = reader
				var x cryptobyte.String
				var t cbasn1.Tag
				ok = s.ReadAnyASN1Element(&x, &t)
				if t != cbasn1.NULL || !bytes.Equal(x, []byte{5, 0}) {
					bad = fmt.Sprintf("got tag 0x%x element %x", uint8(t), []byte(x))
				}
			}
		case kOctet:
			switch v % 3 {
			case 0:
				reader = "ReadASN1Bytes(OCTET_STRING)"
				r.phase = reader
				var x []byte
				ok = s.ReadASN1Bytes(&x, cbasn1.OCTET_STRING)
				if !bytes.Equal(x, e.data) {
					bad = "content differs"
				}
			case 1:
				reader = "ReadASN1(OCTET_STRING)"
				r.phase = reader
				var x cryptobyte.String
				ok = s.ReadASN1(&x, cbasn1.OCTET_STRING)
				if !bytes.Equal(x, e.data) {
					bad = "content differs"
				}
			default:
				reader = "ReadASN1Element(OCTET_STRING)"
				r.phase = reader
				var el, x cryptobyte.String
				ok = s.ReadASN1Element(&el, cbasn1.OCTET_STRING)
				if ok && (!el.ReadASN1(&x, cbasn1.OCTET_STRING) || !el.Empty() || !bytes.Equal(x, e.data)) {
					bad = "element does not contain exactly the written OCTET STRING"
				}
			}
		case kBit:
			if v%2 == 0 {
				reader = "ReadASN1BitString"
				r.phase = reader
				var x zasn1.BitString
				ok = s.ReadASN1BitString(&x)
				if x.BitLength != 8*len(e.data) || !bytes.Equal(x.Bytes, e.data) {
					bad = fmt.Sprintf("got %d bits", x.BitLength)
				}
			} else {
				reader = "ReadASN1BitStringAsBytes"
				r.phase = reader
				var x []byte
				ok = s.ReadASN1BitStringAsBytes(&x)
				if !bytes.Equal(x, e.data) {
					bad = "bytes differ"
				}
			}
		case kOID:
			reader = "ReadASN1ObjectIdentifier"
			r.phase = reader
			var x zasn1.ObjectIdentifier
			ok = s.ReadASN1ObjectIdentifier(&x)
			if !x.Equal(zasn1.ObjectIdentifier(e.oid)) {
				bad = fmt.Sprintf("got %v want %v", x, e.oid)
			}
		case kTime:
			reader = "ReadASN1GeneralizedTime"
			r.phase = reader
			x := e.t.AddDate(1, 0, 0)
			ok = s.ReadASN1GeneralizedTime(&x)
			if !sameTime(x, e.t) {
				bad = fmt.Sprintf("got %v want %v", x, e.t)
			}
		case kUTCTime:
			reader = "ReadASN1UTCTime"
			r.phase = reader
			x := e.t.AddDate(1, 0, 0)
			ok = s.ReadASN1UTCTime(&x)
			if !sameTime(x, e.t) {
				bad = fmt.Sprintf("got %v want %v", x, e.t)
			}
		case kAddValue:
			reader = "ReadUint16"
			r.phase = reader
			x := uint16(0x5a5a)
			ok = s.ReadUint16(&x)
			if uint64(x) != e.u {
				bad = fmt.Sprintf("got %d want %d", x, e.u)
			}
		case kWriteUnwrite:
			reader = "ReadBytes"
			r.phase = reader
			if encLen == 0 {
				ok = true // nothing was left to read
			} else {
				var x []byte
				ok = s.ReadBytes(&x, encLen)
				if !bytes.Equal(x, e.enc) {
					bad = "bytes differ"
				}
			}
		case kUnwrite, kPanicBuildError, kPanicOther:
			// Unwrite(0), or a panic letter outside any continuation: nothing was written
			reader = "(no reader)"
			ok = true
		case kLP8:
			reader = "ReadUint8LengthPrefixed"
			r.phase = reader
			ok = s.ReadUint8LengthPrefixed(&child)
			descend = true
		case kLP16:
			reader = "ReadUint16LengthPrefixed"
			r.phase = reader
			ok = s.ReadUint16LengthPrefixed(&child)
			descend = true
		case kLP24:
			reader = "ReadUint24LengthPrefixed"
			r.phase = reader
			ok = s.ReadUint24LengthPrefixed(&child)
			descend = true
		case kLP32:
			reader = "ReadUint32+ReadBytes"
			r.phase = reader
			var n uint32
			ok = s.ReadUint32(&n) && s.ReadBytes((*[]byte)(&child), int(n))
			descend = true
		case kASN1:
			descend = true
			switch v % 3 {
			case 0:
				reader = "ReadASN1"
				r.phase = reader
				if !s.PeekASN1Tag(e.tag) {
					bad = "PeekASN1Tag is false on the written element"
				}
				ok = s.ReadASN1(&child, e.tag)
			case 1:
				reader = "ReadAnyASN1"
				r.phase = reader
				var t cbasn1.Tag
				ok = s.ReadAnyASN1(&child, &t)
				if t != e.tag {
					bad = fmt.Sprintf("got tag 0x%x want 0x%x", uint8(t), uint8(e.tag))
				}
			default:
				reader = "ReadASN1Element"
				r.phase = reader
				var el cryptobyte.String
				ok = s.ReadASN1Element(&el, e.tag)
				if ok && (!el.ReadASN1(&child, e.tag) || !el.Empty()) {
					bad = "element is not exactly one TLV of the written tag"
				}
			}
		default:
			panic("harness: unknown kind in reader")
		}

		if !ok {
			return fail(reader, e.class, "returned false", hexShort(levelIn))
		}
		if bad != "" {
			return fail(reader, e.class, "wrong value", bad)
		}
		off += encLen
		want, fits := tailAt(off)
		remOK := fits && bytes.Equal(*s, want)
		if descend {
			cl := r.contentLen(i)
			content := r.enc[i][encLen-cl:]
			if !remOK || !bytes.Equal(child, levelIn[off-cl:off]) {
				// the block has not the expected extent: blame the first op inside it that does not read
				// back, if any (a wrongly sized inner element), else the block reader itself
				if len(r.sh.kids[i]) > 0 {
					if f := r.readLevel(&child, r.sh.kids[i], content, v); f != nil && f.sig != endOfLevelSig {
						return f
					}
				}
				if !remOK {
					return fail(reader, e.class, "wrong remainder", fmt.Sprintf("%d bytes left, want %d", len(*s), len(ref)-off))
				}
				return fail(reader, e.class, "wrong child content", fmt.Sprintf("child %s", hexShort(child)))
			}
			if len(r.sh.kids[i]) == 0 {
				if !child.Empty() {
					return fail(reader, e.class, "wrong child content", "child of an empty block is not empty")
				}
			} else if f := r.readLevel(&child, r.sh.kids[i], content, v); f != nil {
				return f
			}
		} else if !remOK {
			return fail(reader, e.class, "wrong remainder", fmt.Sprintf("%d bytes left, want %d", len(*s), len(ref)-off))
		}
	}
	if !s.Empty() {
		return &failure{sig: endOfLevelSig, detail: hexShort(*s)}
	}
	return nil
}
