package main

// Execution of one program on the real Builder / String and the oracle.

import (
	"bytes"
	"fmt"
	"math/big"
	"runtime"
	"strings"

	"github.com/zmap/zcrypto/cryptobyte"
	cbasn1 "github.com/zmap/zcrypto/cryptobyte/asn1"
	zasn1 "github.com/zmap/zcrypto/encoding/asn1"
	"verifmc/internal/ev"
)

const nVariants = 3

const endOfLevelSig = "end of level: bytes left over"

type failure struct {
	sig    string
	detail string
	mode   string
	capa   int
	prefix int
	varnt  int
}

type runner struct {
	sh   *shape
	lab  []int
	enc  [maxN][]byte // reference encoding per node (children included)
	errc [maxN]string // documented error class per node (children included)
	errn [maxN]int    // node that raises it
	h    ev.Hist

	phase string // what the real code is doing (for panic signatures)

	nBuildOps, nReads, nOracle, nTraces int64
	fixedLevel                          int
	scratch                             []byte // backing store of the fixed-size builders
}

func (r *runner) e(i int) *entry { return alphabet[r.lab[i]] }

// ---------- reference encoding of the program ----------

var lpMax = [5]int64{0, 0xff, 0xffff, 0xffffff, 0xffffffff}

func (r *runner) reference() (top []byte, errClass string, errNode int) {
	sh := r.sh
	for i := sh.n - 1; i >= 0; i-- {
		e := r.e(i)
		r.errc[i], r.errn[i] = "", -1
		if !e.container {
			r.enc[i] = e.enc
			if e.err != "" {
				r.errc[i], r.errn[i] = e.err, i
			}
			continue
		}
		if e.err != "" { // high tag: the continuation is not even run
			r.enc[i] = nil
			r.errc[i], r.errn[i] = e.err, i
			continue
		}
		n := 0
		for _, k := range sh.kids[i] {
			n += len(r.enc[k])
			if r.errc[i] == "" && r.errc[k] != "" {
				r.errc[i], r.errn[i] = r.errc[k], r.errn[k]
			}
		}
		var buf []byte
		if e.lenLen > 0 {
			if r.errc[i] == "" && int64(n) > lpMax[e.lenLen] {
				r.errc[i], r.errn[i] = "length-prefix-overflow", i
			}
			buf = make([]byte, e.lenLen, e.lenLen+n)
			for j, v := e.lenLen-1, n; j >= 0; j, v = j-1, v>>8 {
				buf[j] = byte(v)
			}
		} else {
			h := derHeader(byte(e.tag), n)
			buf = make([]byte, len(h), len(h)+n)
			copy(buf, h)
		}
		for _, k := range sh.kids[i] {
			buf = append(buf, r.enc[k]...)
		}
		r.enc[i] = buf
	}
	errNode = -1
	if len(sh.roots) == 1 {
		top = r.enc[sh.roots[0]]
	}
	for _, k := range sh.roots {
		if len(sh.roots) != 1 {
			top = append(top, r.enc[k]...)
		}
		if errClass == "" && r.errc[k] != "" {
			errClass, errNode = r.errc[k], r.errn[k]
		}
	}
	return
}

func (r *runner) contentLen(i int) int {
	n := 0
	for _, k := range r.sh.kids[i] {
		n += len(r.enc[k])
	}
	return n
}

// ---------- real Builder ----------

func (r *runner) write(b *cryptobyte.Builder, ids []int) {
	for _, i := range ids {
		e := r.e(i)
		r.nBuildOps++
		switch e.k {
		case kU8:
			b.AddUint8(uint8(e.u))
		case kU16:
			b.AddUint16(uint16(e.u))
		case kU24:
			b.AddUint24(uint32(e.u))
		case kU32:
			b.AddUint32(uint32(e.u))
		case kBytes:
			b.AddBytes(e.data)
		case kInt64:
			b.AddASN1Int64(e.i)
		case kUint64:
			b.AddASN1Uint64(e.u)
		case kBigInt:
			b.AddASN1BigInt(e.z)
		case kEnum:
			b.AddASN1Enum(e.i)
		case kIntTag:
			b.AddASN1Int64WithTag(e.i, e.tag)
		case kBool:
			b.AddASN1Boolean(e.b)
		case kNull:
			b.AddASN1NULL()
		case kOctet:
			b.AddASN1OctetString(e.data)
		case kBit:
			b.AddASN1BitString(e.data)
		case kOID:
			b.AddASN1ObjectIdentifier(zasn1.ObjectIdentifier(e.oid))
		case kTime:
			b.AddASN1GeneralizedTime(e.t)
		case kLP8, kLP16, kLP24, kLP32:
			kids := r.sh.kids[i]
			f := func(c *cryptobyte.Builder) { r.write(c, kids) }
			switch e.lenLen {
			case 1:
				b.AddUint8LengthPrefixed(f)
			case 2:
				b.AddUint16LengthPrefixed(f)
			case 3:
				b.AddUint24LengthPrefixed(f)
			case 4:
				b.AddUint32LengthPrefixed(f)
			}
		case kASN1:
			kids := r.sh.kids[i]
			b.AddASN1(e.tag, func(c *cryptobyte.Builder) { r.write(c, kids) })
		case kOptASN1, kOptSkip:
			if e.present {
				kids := r.sh.kids[i]
				b.AddASN1(e.tag, func(c *cryptobyte.Builder) { r.write(c, kids) })
			}
		case kOptInt:
			if e.present {
				b.AddASN1(e.tag, func(c *cryptobyte.Builder) { c.AddASN1Int64(e.i) })
			}
		case kOptBigInt:
			if e.present {
				b.AddASN1(e.tag, func(c *cryptobyte.Builder) { c.AddASN1BigInt(e.z) })
			}
		case kOptOctet:
			if e.present {
				b.AddASN1(e.tag, func(c *cryptobyte.Builder) { c.AddASN1OctetString(e.data) })
			}
		case kOptBool:
			if e.present {
				b.AddASN1Boolean(e.b)
			}
		default:
			panic("harness: unknown kind")
		}
	}
}

// zcryptoSite names the first zcrypto frame of the current (panicking) stack.
func zcryptoSite() string {
	pcs := make([]uintptr, 64)
	n := runtime.Callers(3, pcs)
	frames := runtime.CallersFrames(pcs[:n])
	for {
		fr, more := frames.Next()
		if strings.Contains(fr.Function, "github.com/zmap/zcrypto/") {
			return strings.TrimPrefix(fr.Function, "github.com/zmap/zcrypto/")
		}
		if !more {
			return "?"
		}
	}
}

func (r *runner) guard(f func() *failure) (out *failure) {
	defer func() {
		if rec := recover(); rec != nil {
			msg := fmt.Sprint(rec)
			if strings.HasPrefix(msg, "harness:") {
				panic(rec)
			}
			// A panic raised inside a continuation is re-panicked by callContinuation, which hides the
			// original site: explicit library panics are therefore identified by their message alone,
			// runtime errors (index out of range ...) by message class and first zcrypto frame.
			site := ""
			if strings.HasPrefix(msg, "runtime error") {
				site = "@" + zcryptoSite()
			}
			out = &failure{sig: fmt.Sprintf("panic%s: %s [%s]", site, ev.MsgClass(msg), r.phase), detail: msg}
		}
	}()
	return f()
}

func (r *runner) build(b *cryptobyte.Builder) ([]byte, error) {
	r.write(b, r.sh.roots)
	return b.Bytes()
}

// runProgram executes the program in every mode and returns the failures (one per mode at most).
func (r *runner) runProgram() []*failure {
	var fails []*failure
	ref, wantErr, errNode := r.reference()
	var out []byte
	var err error
	r.phase = "Builder"
	r.nTraces++
	f := r.guard(func() *failure {
		out, err = r.build(cryptobyte.NewBuilder(nil))
		return nil
	})
	r.nOracle++
	switch {
	case f != nil:
	case wantErr != "" && err == nil:
		f = &failure{sig: fmt.Sprintf("Builder: no error although %s must fail (%s)", r.e(errNode).class, wantErr), detail: "Bytes() = " + hexShort(out)}
	case wantErr == "" && err != nil:
		f = &failure{sig: "Builder: unexpected error: " + ev.MsgClass(err.Error()), detail: err.Error()}
	}
	if f != nil {
		f.mode = "grow"
		return append(fails, f)
	}
	if wantErr != "" {
		r.h["builder-error:"+wantErr]++
		return nil
	}
	// round trip, every reader variant
	good := true
	for v := 0; v < nVariants; v++ {
		v := v
		r.nTraces++
		f := r.guard(func() *failure {
			s := cryptobyte.String(out)
			return r.readLevel(&s, r.sh.roots, ref, v)
		})
		if f != nil {
			// only the first failing variant is reported: a defect in shared code would otherwise be
			// reported once per reader variant; a defect in one variant only is still seen (the others pass)
			f.mode, f.varnt = "grow", v
			fails = append(fails, f)
			good = false
			break
		}
	}
	if good {
		r.h["roundtrip-ok"]++
	}
	if r.fixedLevel > 0 {
		fails = append(fails, r.fixedFamily(out, ref, good)...)
	}
	return fails
}

// fixedFamily: NewFixedBuilder with exact and short capacities.
func (r *runner) fixedFamily(grow, ref []byte, readable bool) []*failure {
	var fails []*failure
	exact := len(ref)
	type cfg struct{ capa, prefix int }
	var cfgArr [12]cfg
	cfgs := append(cfgArr[:0], cfg{exact, 0})
	if r.fixedLevel >= 2 {
		cfgs = append(cfgs, cfg{exact, 2})
		if exact <= 8 {
			for c := 0; c < exact; c++ {
				cfgs = append(cfgs, cfg{c, 0})
			}
		} else {
			cfgs = append(cfgs, cfg{0, 0}, cfg{1, 0}, cfg{exact - 2, 0}, cfg{exact - 1, 0})
		}
	} else if exact > 0 {
		cfgs = append(cfgs, cfg{exact - 1, 0})
	}
	var seenSig map[string]bool
	if len(r.scratch) < exact+2 {
		r.scratch = make([]byte, exact+2+1024)
	}
	for _, cf := range cfgs {
		cf := cf
		short := cf.capa < exact
		var out []byte
		var err error
		r.phase = "fixed-size Builder, capacity = needed"
		if short {
			r.phase = "fixed-size Builder, capacity < needed"
		}
		r.nTraces++
		f := r.guard(func() *failure {
			buf := r.scratch[: cf.prefix : cf.prefix+cf.capa]
			for i := range buf {
				buf[i] = 0xee
			}
			out, err = r.build(cryptobyte.NewFixedBuilder(buf))
			return nil
		})
		r.nOracle++
		if f == nil {
			switch {
			case short && err == nil:
				what := "output has the full length"
				if len(out) < exact {
					what = "output silently truncated"
				}
				f = &failure{sig: "fixed-size Builder, capacity < needed: no error, " + what, detail: fmt.Sprintf("needed %d, capacity %d, Bytes() = %s (len %d)", exact, cf.capa, hexShort(out), len(out))}
			case short:
				r.h["fixed-short-capacity-error"]++
			case err != nil:
				f = &failure{sig: "fixed-size Builder, capacity = needed: unexpected error: " + ev.MsgClass(err.Error()), detail: err.Error()}
			default:
				want := grow
				if cf.prefix > 0 {
					want = append(bytes.Repeat([]byte{0xee}, cf.prefix), grow...)
				}
				if bytes.Equal(out, want) {
					r.h["fixed-exact-capacity-ok"]++
				} else if !readable {
					// growable output already reported as unreadable; nothing more to learn
				} else {
					// different bytes are acceptable iff they still read back
					r.phase = "fixed-size Builder output"
					f = r.guard(func() *failure {
						s := cryptobyte.String(out)
						if !s.Skip(cf.prefix) {
							return &failure{sig: "fixed-size Builder, capacity = needed: output shorter than the initial buffer"}
						}
						return r.readLevel(&s, r.sh.roots, ref, 0)
					})
					if f != nil {
						f.sig = "fixed-size Builder, capacity = needed: " + f.sig
					} else {
						r.h["fixed-exact-capacity-different-bytes-readable"]++
					}
				}
			}
		}
		if f != nil && !seenSig[f.sig] {
			if seenSig == nil {
				seenSig = map[string]bool{}
			}
			seenSig[f.sig] = true
			f.mode, f.capa, f.prefix = "fixed", cf.capa, cf.prefix
			fails = append(fails, f)
		}
	}
	return fails
}

// ---------- real String readers + oracle ----------

// followerClass classifies what starts at byte offset off of the level (rest = reference bytes from off):
// nothing / a well-formed element carrying the reader's tag / another ASN.1 element written by one op / raw bytes.
func (r *runner) followerClass(ids []int, off int, tag int, rest []byte) string {
	if len(rest) == 0 {
		return "nothing"
	}
	if int(rest[0]) == tag {
		if _, _, _, ok := refTLV(rest); ok {
			return "element of the same tag"
		}
		return "raw bytes"
	}
	pos := 0
	for _, i := range ids {
		if pos == off && len(r.enc[i]) > 0 {
			if r.e(i).elemTag >= 0 {
				return "element of a different tag"
			}
			return "raw bytes"
		}
		if pos > off {
			break
		}
		pos += len(r.enc[i])
	}
	return "raw bytes"
}

// readLevel reads the ops ids from s. ref is the reference encoding of the level.
func (r *runner) readLevel(s *cryptobyte.String, ids []int, ref []byte, v int) *failure {
	levelIn := []byte(*s)
	off := 0 // reference offset of the next unread op
	fail := func(reader, class, kind, detail string) *failure {
		return &failure{sig: fmt.Sprintf("%s [%s]: %s", reader, class, kind), detail: detail}
	}
	// "leaves exactly the unread remainder": after the ops up to reference offset o have been read,
	// s must be the level's input minus its first o bytes.
	tailAt := func(o int) ([]byte, bool) {
		if o > len(levelIn) {
			return nil, false
		}
		return levelIn[o:], true
	}
	for j := 0; j < len(ids); j++ {
		i := ids[j]
		e := r.e(i)
		encLen := len(r.enc[i])
		reader := ""
		ok := false
		bad := "" // value mismatch description
		var child cryptobyte.String
		descend := false
		r.nReads++
		r.nOracle++

		if e.optional {
			if f, nj, noff, stop := r.readOptional(s, ids, j, ref, off, levelIn, v); f != nil || stop {
				return f
			} else {
				j, off = nj, noff
			}
			continue
		}

		switch e.k {
		case kU8:
			reader = "ReadUint8"
			r.phase = reader
			x := uint8(0x5a)
			ok = s.ReadUint8(&x)
			if uint64(x) != e.u {
				bad = fmt.Sprintf("got %d want %d", x, e.u)
			}
		case kU16:
			reader = "ReadUint16"
			r.phase = reader
			x := uint16(0x5a5a)
			ok = s.ReadUint16(&x)
			if uint64(x) != e.u {
				bad = fmt.Sprintf("got %d want %d", x, e.u)
			}
		case kU24:
			reader = "ReadUint24"
			r.phase = reader
			x := uint32(0x5a5a5a5a)
			ok = s.ReadUint24(&x)
			if uint64(x) != e.u {
				bad = fmt.Sprintf("got %d want %d", x, e.u)
			}
		case kU32:
			reader = "ReadUint32"
			r.phase = reader
			x := uint32(0x5a5a5a5a)
			ok = s.ReadUint32(&x)
			if uint64(x) != e.u {
				bad = fmt.Sprintf("got %d want %d", x, e.u)
			}
		case kBytes:
			if len(e.data) == 0 && *s == nil {
				// Degenerate: the whole input is a nil String (only AddBytes(len 0) was written). A
				// zero-length raw read on a nil String is outside the statement's value kinds: no verdict.
				r.h["unspecified: zero-length raw read on a nil String (no verdict)"]++
				continue
			}
			switch v % 3 {
			case 0:
				reader = "ReadBytes"
				r.phase = reader
				var x []byte
				ok = s.ReadBytes(&x, len(e.data))
				if !bytes.Equal(x, e.data) {
					bad = "bytes differ"
				}
			case 1:
				reader = "CopyBytes"
				r.phase = reader
				x := make([]byte, len(e.data))
				ok = s.CopyBytes(x)
				if !bytes.Equal(x, e.data) {
					bad = "bytes differ"
				}
			default:
				reader = "Skip"
				r.phase = reader
				ok = s.Skip(len(e.data))
			}
		case kInt64:
			switch v % 3 {
			case 0:
				reader = "ReadASN1Integer(*int64)"
				r.phase = reader
				x := int64(0x5a5a5a5a)
				ok = s.ReadASN1Integer(&x)
				if x != e.i {
					bad = fmt.Sprintf("got %d want %d", x, e.i)
				}
			case 1:
				reader = "ReadASN1Integer(*big.Int)"
				r.phase = reader
				x := big.NewInt(99)
				ok = s.ReadASN1Integer(x)
				if x.Cmp(e.z) != 0 {
					bad = fmt.Sprintf("got %s want %s", x, e.z)
				}
			default:
				reader = "ReadASN1Int64WithTag(INTEGER)"
				r.phase = reader
				x := int64(-1)
				ok = s.ReadASN1Int64WithTag(&x, cbasn1.INTEGER)
				if x != e.i {
					bad = fmt.Sprintf("got %d want %d", x, e.i)
				}
			}
		case kUint64:
			if v%2 == 0 {
				reader = "ReadASN1Integer(*uint64)"
				r.phase = reader
				x := uint64(0x5a5a)
				ok = s.ReadASN1Integer(&x)
				if x != e.u {
					bad = fmt.Sprintf("got %d want %d", x, e.u)
				}
			} else {
				reader = "ReadASN1Integer(*big.Int)"
				r.phase = reader
				x := big.NewInt(99)
				ok = s.ReadASN1Integer(x)
				if x.Cmp(e.z) != 0 {
					bad = fmt.Sprintf("got %s want %s", x, e.z)
				}
			}
		case kBigInt:
			reader = "ReadASN1Integer(*big.Int)"
			r.phase = reader
			x := big.NewInt(-99)
			ok = s.ReadASN1Integer(x)
			if x.Cmp(e.z) != 0 {
				bad = fmt.Sprintf("got %s want %s", x, e.z)
			}
		case kEnum:
			reader = "ReadASN1Enum"
			r.phase = reader
			x := 0x5a5a
			ok = s.ReadASN1Enum(&x)
			if int64(x) != e.i {
				bad = fmt.Sprintf("got %d want %d", x, e.i)
			}
		case kIntTag:
			reader = "ReadASN1Int64WithTag"
			r.phase = reader
			x := int64(0x5a5a)
			ok = s.ReadASN1Int64WithTag(&x, e.tag)
			if x != e.i {
				bad = fmt.Sprintf("got %d want %d", x, e.i)
			}
		case kBool:
			reader = "ReadASN1Boolean"
			r.phase = reader
			x := !e.b
			ok = s.ReadASN1Boolean(&x)
			if x != e.b {
				bad = fmt.Sprintf("got %v want %v", x, e.b)
			}
		case kNull:
			switch v % 3 {
			case 0:
				reader = "ReadASN1(NULL)"
				r.phase = reader
				x := cryptobyte.String{1}
				ok = s.ReadASN1(&x, cbasn1.NULL)
				if len(x) != 0 {
					bad = "NULL content not empty"
				}
			case 1:
				reader = "SkipASN1(NULL)"
				r.phase = reader
				ok = s.SkipASN1(cbasn1.NULL)
			default:
				reader = "ReadAnyASN1Element"
				r.phase = reader
				var x cryptobyte.String
				var t cbasn1.Tag
				ok = s.ReadAnyASN1Element(&x, &t)
				if t != cbasn1.NULL || !bytes.Equal(x, []byte{5, 0}) {
					bad = fmt.Sprintf("got tag 0x%x element %x", uint8(t), []byte(x))
				}
			}
		case kOctet:
			switch v % 3 {
			case 0:
				reader = "ReadASN1Bytes(OCTET_STRING)"
				r.phase = reader
				var x []byte
				ok = s.ReadASN1Bytes(&x, cbasn1.OCTET_STRING)
				if !bytes.Equal(x, e.data) {
					bad = "content differs"
				}
			case 1:
				reader = "ReadASN1(OCTET_STRING)"
				r.phase = reader
				var x cryptobyte.String
				ok = s.ReadASN1(&x, cbasn1.OCTET_STRING)
				if !bytes.Equal(x, e.data) {
					bad = "content differs"
				}
			default:
				reader = "ReadASN1Element(OCTET_STRING)"
				r.phase = reader
				var el, x cryptobyte.String
				ok = s.ReadASN1Element(&el, cbasn1.OCTET_STRING)
				if ok && (!el.ReadASN1(&x, cbasn1.OCTET_STRING) || !el.Empty() || !bytes.Equal(x, e.data)) {
					bad = "element does not contain exactly the written OCTET STRING"
				}
			}
		case kBit:
			if v%2 == 0 {
				reader = "ReadASN1BitString"
				r.phase = reader
				var x zasn1.BitString
				ok = s.ReadASN1BitString(&x)
				if x.BitLength != 8*len(e.data) || !bytes.Equal(x.Bytes, e.data) {
					bad = fmt.Sprintf("got %d bits", x.BitLength)
				}
			} else {
				reader = "ReadASN1BitStringAsBytes"
				r.phase = reader
				var x []byte
				ok = s.ReadASN1BitStringAsBytes(&x)
				if !bytes.Equal(x, e.data) {
					bad = "bytes differ"
				}
			}
		case kOID:
			reader = "ReadASN1ObjectIdentifier"
			r.phase = reader
			var x zasn1.ObjectIdentifier
			ok = s.ReadASN1ObjectIdentifier(&x)
			if !x.Equal(zasn1.ObjectIdentifier(e.oid)) {
				bad = fmt.Sprintf("got %v want %v", x, e.oid)
			}
		case kTime:
			reader = "ReadASN1GeneralizedTime"
			r.phase = reader
			x := e.t.AddDate(1, 0, 0)
			ok = s.ReadASN1GeneralizedTime(&x)
			if !x.Equal(e.t) {
				bad = fmt.Sprintf("got %v want %v", x, e.t)
			}
		case kLP8:
			reader = "ReadUint8LengthPrefixed"
			r.phase = reader
			ok = s.ReadUint8LengthPrefixed(&child)
			descend = true
		case kLP16:
			reader = "ReadUint16LengthPrefixed"
			r.phase = reader
			ok = s.ReadUint16LengthPrefixed(&child)
			descend = true
		case kLP24:
			reader = "ReadUint24LengthPrefixed"
			r.phase = reader
			ok = s.ReadUint24LengthPrefixed(&child)
			descend = true
		case kLP32:
			reader = "ReadUint32+ReadBytes"
			r.phase = reader
			var n uint32
			ok = s.ReadUint32(&n) && s.ReadBytes((*[]byte)(&child), int(n))
			descend = true
		case kASN1:
			descend = true
			switch v % 3 {
			case 0:
				reader = "ReadASN1"
				r.phase = reader
				if !s.PeekASN1Tag(e.tag) {
					bad = "PeekASN1Tag is false on the written element"
				}
				ok = s.ReadASN1(&child, e.tag)
			case 1:
				reader = "ReadAnyASN1"
				r.phase = reader
				var t cbasn1.Tag
				ok = s.ReadAnyASN1(&child, &t)
				if t != e.tag {
					bad = fmt.Sprintf("got tag 0x%x want 0x%x", uint8(t), uint8(e.tag))
				}
			default:
				reader = "ReadASN1Element"
				r.phase = reader
				var el cryptobyte.String
				ok = s.ReadASN1Element(&el, e.tag)
				if ok && (!el.ReadASN1(&child, e.tag) || !el.Empty()) {
					bad = "element is not exactly one TLV of the written tag"
				}
			}
		default:
			panic("harness: unknown kind in reader")
		}

		if !ok {
			return fail(reader, e.class, "returned false", hexShort(levelIn))
		}
		if bad != "" {
			return fail(reader, e.class, "wrong value", bad)
		}
		off += encLen
		want, fits := tailAt(off)
		remOK := fits && bytes.Equal(*s, want)
		if descend {
			cl := r.contentLen(i)
			content := r.enc[i][encLen-cl:]
			if !remOK || !bytes.Equal(child, levelIn[off-cl:off]) {
				// the block has not the expected extent: blame the first op inside it that does not read
				// back, if any (a wrongly sized inner element), else the block reader itself
				if len(r.sh.kids[i]) > 0 {
					if f := r.readLevel(&child, r.sh.kids[i], content, v); f != nil && f.sig != endOfLevelSig {
						return f
					}
				}
				if !remOK {
					return fail(reader, e.class, "wrong remainder", fmt.Sprintf("%d bytes left, want %d", len(*s), len(ref)-off))
				}
				return fail(reader, e.class, "wrong child content", fmt.Sprintf("child %s", hexShort(child)))
			}
			if len(r.sh.kids[i]) == 0 {
				if !child.Empty() {
					return fail(reader, e.class, "wrong child content", "child of an empty block is not empty")
				}
			} else if f := r.readLevel(&child, r.sh.kids[i], content, v); f != nil {
				return f
			}
		} else if !remOK {
			return fail(reader, e.class, "wrong remainder", fmt.Sprintf("%d bytes left, want %d", len(*s), len(ref)-off))
		}
	}
	if !s.Empty() {
		return &failure{sig: endOfLevelSig, detail: hexShort(*s)}
	}
	return nil
}
