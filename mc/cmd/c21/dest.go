package main

// Destination independence, input immutability and aliasing of every read op.
//
// "Reading the same sequence back returns the written values and leaves exactly
// the unread remainder; optional readers otherwise leave the input untouched and
// return the default": what a read returns is a function of the bytes it reads
// (and of the default), never of what the caller's destination variable held
// before, and a read changes nothing but its destination and the String's
// position. The main oracle (readLevel) reads every value once, into a fresh
// destination, with a fresh default, and never looks at either again. Before
// each op of a derived read program is read for the verdict, probeOp therefore
// reads the same op from a copy of the String, with the reader the variant
// selects:
//
//  1. baseline: into the zero value of the destination kind;
//  2. destination pre-fill: again into a second destination object holding each
//     prior content of the kind (all ones / -1 / true, a large previous value
//     with more octets than the new one; slices, OIDs and big.Ints: a longer
//     non-empty previous value in a backing array with spare capacity that the
//     harness keeps, and a short full one; time.Time: a zoned instant with
//     nanoseconds). The reader's bool, the unread remainder and — when the read
//     succeeded — the value must equal the baseline's. After a failed read the
//     package documents nothing about the destination: nothing is demanded;
//  3. after every read the bytes of the String are compared with a copy taken
//     before, and the default object handed to the optional readers (the SAME
//     object in every read of the probe) with a pristine copy;
//  4. aliasing: the harness then writes through the second result (slice
//     elements, big.Int words, SetInt64) and looks again: the default must be
//     unchanged, the baseline result (another destination) must be unchanged. If
//     the input changed the result is a window of the input — cryptobyte "wraps
//     a []byte slice", its []byte / String / BitString.Bytes results are
//     sub-slices by design: counted, input restored, no verdict. Finally the
//     baseline result is written through as well (default and input re-inspected).
//
// ReadOptionalASN1 has no default and documents nothing about out for an absent
// element: its out is compared only when the element was present.

import (
	"bytes"
	"fmt"
	"math"
	"math/big"
	"time"

	"github.com/zmap/zcrypto/cryptobyte"
	cbasn1 "github.com/zmap/zcrypto/cryptobyte/asn1"
	zasn1 "github.com/zmap/zcrypto/encoding/asn1"
)

// dkind describes one kind of destination.
type dkind[T any] struct {
	name   string
	zero   func() T   // nil: the Go zero value
	priors func() []T // fresh prior contents; the harness keeps every object / backing array it hands out
	eq     func(a, b T) bool
	clone  func(a T) T
	scrib  func(p *T) bool // write through the value; nil: a scalar holds no storage; false: nothing reachable
	show   func(a T) string
}

type integer interface {
	~int | ~int8 | ~int16 | ~int32 | ~int64 | ~uint | ~uint8 | ~uint16 | ~uint32 | ~uint64
}

// largeOf: every octet of the type filled with pairwise different values, top bit clear.
func largeOf[T integer](octets int) T {
	var large T
	for i := 0; i < octets; i++ {
		for j := 0; j < 8; j++ {
			large += large
		}
		large += T(0x5b - i)
	}
	return large
}

func intKind[T integer](name string, octets int) *dkind[T] {
	ps := []T{^T(0), largeOf[T](octets)}
	return &dkind[T]{name: name,
		priors: func() []T { return ps },
		eq:     func(a, b T) bool { return a == b },
		clone:  func(a T) T { return a },
		show:   func(a T) string { return fmt.Sprint(a) },
	}
}

var (
	kindU8   = intKind[uint8]("uint8", 1)
	kindU16  = intKind[uint16]("uint16", 2)
	kindU32  = intKind[uint32]("uint32", 4)
	kindU64  = intKind[uint64]("uint64", 8)
	kindI    = intKind[int]("int", 8)
	kindI64  = intKind[int64]("int64", 8)
	kindBool = &dkind[bool]{name: "bool",
		priors: func() []bool { return []bool{true} },
		eq:     func(a, b bool) bool { return a == b },
		clone:  func(a bool) bool { return a },
		show:   func(a bool) string { return fmt.Sprint(a) },
	}
	kindNone = &dkind[struct{}]{name: "(no destination)",
		priors: func() []struct{} { return nil },
		eq:     func(a, b struct{}) bool { return true },
		clone:  func(a struct{}) struct{} { return a },
		show:   func(a struct{}) string { return "-" },
	}
)

// ---- []byte-like

var priorLong = func() []byte {
	b := make([]byte, 48)
	for i := range b {
		b[i] = 0xc0 ^ byte(i*7)
	}
	return b
}()

func freshBytes(p []byte, spare int) []byte {
	b := make([]byte, len(p), len(p)+spare)
	copy(b, p)
	return b
}

// scribBytes writes through b: every element up to 64 of them, else the first,
// the middle and the last one (enough to see shared storage).
func scribBytes(b []byte) bool {
	if len(b) <= 64 {
		for i := range b {
			b[i] ^= 0xa5
		}
		return len(b) > 0
	}
	b[0] ^= 0xa5
	b[len(b)/2] ^= 0xa5
	b[len(b)-1] ^= 0xa5
	return true
}

func bytesKindOf[T ~[]byte](name string) *dkind[T] {
	return &dkind[T]{name: name,
		priors: func() []T { return []T{T(freshBytes(priorLong, 24)), T(freshBytes([]byte{0xff}, 0))} },
		eq:     func(a, b T) bool { return bytes.Equal(a, b) },
		clone:  func(a T) T { return T(append([]byte{}, a...)) },
		scrib:  func(p *T) bool { return scribBytes(*p) },
		show:   func(a T) string { return hexShort(a) },
	}
}

var (
	kindBytes = bytesKindOf[[]byte]("[]byte")
	kindStr   = bytesKindOf[cryptobyte.String]("cryptobyte.String")
)

// fixedBuf: the caller's buffer of CopyBytes; every prior content has the length to copy.
func fixedBufKind(n int) *dkind[[]byte] {
	k := *kindBytes
	k.name = "[]byte (CopyBytes buffer)"
	k.zero = func() []byte { return make([]byte, n) }
	k.priors = func() [][]byte {
		a, b := make([]byte, n, n+8), make([]byte, n)
		for i := range a {
			a[i], b[i] = 0xff, 0xc0^byte(i*7)
		}
		return [][]byte{a, b}
	}
	return &k
}

var kindBitString = &dkind[zasn1.BitString]{name: "asn1.BitString",
	priors: func() []zasn1.BitString {
		return []zasn1.BitString{{Bytes: freshBytes(priorLong, 24), BitLength: 381}, {Bytes: freshBytes([]byte{0xff}, 0), BitLength: -1}}
	},
	eq: func(a, b zasn1.BitString) bool { return a.BitLength == b.BitLength && bytes.Equal(a.Bytes, b.Bytes) },
	clone: func(a zasn1.BitString) zasn1.BitString {
		return zasn1.BitString{Bytes: append([]byte{}, a.Bytes...), BitLength: a.BitLength}
	},
	scrib: func(p *zasn1.BitString) bool { return scribBytes(p.Bytes) },
	show: func(a zasn1.BitString) string {
		return fmt.Sprintf("{BitLength:%d Bytes:%s}", a.BitLength, hexShort(a.Bytes))
	},
}

var kindOID = &dkind[zasn1.ObjectIdentifier]{name: "asn1.ObjectIdentifier",
	priors: func() []zasn1.ObjectIdentifier {
		long := make(zasn1.ObjectIdentifier, 40, 64)
		for i := range long {
			long[i] = 1000003 * (i + 1)
		}
		long[0], long[1] = 2, 999
		return []zasn1.ObjectIdentifier{long, {math.MaxInt}}
	},
	eq:    func(a, b zasn1.ObjectIdentifier) bool { return a.Equal(b) },
	clone: func(a zasn1.ObjectIdentifier) zasn1.ObjectIdentifier { return append(zasn1.ObjectIdentifier{}, a...) },
	scrib: func(p *zasn1.ObjectIdentifier) bool {
		for i := range *p {
			(*p)[i] ^= 0x2a2a2a2a
		}
		return len(*p) > 0
	},
	show: func(a zasn1.ObjectIdentifier) string { return a.String() },
}

// ---- *big.Int (the object the reader is handed)

var bigLarge, _ = new(big.Int).SetString("5b5a59585756555453525150"+"4f4e4d4c4b4a49484746454443424140"+"3f3e3d3c3b3a39383736353433323130", 16)

func scribBig(z *big.Int) bool {
	w := z.Bits()
	w = w[:cap(w)] // the whole word array the value owns
	for i := range w {
		w[i] = ^w[i]
	}
	z.SetInt64(-0x5a5a5a5a5a5a)
	return true
}

var kindBig = &dkind[*big.Int]{name: "*big.Int",
	zero: func() *big.Int { return new(big.Int) },
	priors: func() []*big.Int {
		return []*big.Int{big.NewInt(-1), new(big.Int).Set(bigLarge), new(big.Int).Neg(bigLarge)}
	},
	eq:    func(a, b *big.Int) bool { return a.Cmp(b) == 0 },
	clone: func(a *big.Int) *big.Int { return new(big.Int).Set(a) },
	scrib: func(p **big.Int) bool { return scribBig(*p) },
	show:  func(a *big.Int) string { return a.String() },
}

// ---- time.Time

func sameZonedTime(a, b time.Time) bool {
	na, oa := a.Zone()
	nb, ob := b.Zone()
	return a.Equal(b) && oa == ob && na == nb
}

var kindTime = &dkind[time.Time]{name: "time.Time",
	priors: func() []time.Time {
		return []time.Time{time.Date(9999, 12, 31, 23, 59, 59, 999999999, time.FixedZone("prior", 5400)), time.Unix(-62135596801, 1).UTC()}
	},
	eq:    sameZonedTime,
	clone: func(a time.Time) time.Time { return a },
	show:  func(a time.Time) string { return a.Format(time.RFC3339Nano) },
}

// ---- readers with two destinations

type strTag struct {
	S cryptobyte.String
	T cbasn1.Tag
}

var kindStrTag = &dkind[strTag]{name: "cryptobyte.String + asn1.Tag",
	priors: func() []strTag {
		return []strTag{{cryptobyte.String(freshBytes(priorLong, 24)), 0xff}, {cryptobyte.String(freshBytes([]byte{0xff}, 0)), 0x5b}}
	},
	eq:    func(a, b strTag) bool { return a.T == b.T && bytes.Equal(a.S, b.S) },
	clone: func(a strTag) strTag { return strTag{append(cryptobyte.String{}, a.S...), a.T} },
	scrib: func(p *strTag) bool { return scribBytes(p.S) },
	show:  func(a strTag) string { return fmt.Sprintf("tag 0x%02x %s", uint8(a.T), hexShort(a.S)) },
}

// strPresent: out and outPresent of ReadOptionalASN1. For an absent element out
// is documented by nothing (there is no default): S counts only when P is set.
type strPresent struct {
	S cryptobyte.String
	P bool
}

var kindStrPresent = &dkind[strPresent]{name: "cryptobyte.String + outPresent",
	priors: func() []strPresent {
		return []strPresent{{cryptobyte.String(freshBytes(priorLong, 24)), true}, {cryptobyte.String(freshBytes([]byte{0xff}, 0)), false}}
	},
	eq:    func(a, b strPresent) bool { return a.P == b.P && (!a.P || bytes.Equal(a.S, b.S)) },
	clone: func(a strPresent) strPresent { return strPresent{append(cryptobyte.String{}, a.S...), a.P} },
	scrib: func(p *strPresent) bool { return p.P && scribBytes(p.S) },
	show:  func(a strPresent) string { return fmt.Sprintf("present=%v %s", a.P, hexShort(a.S)) },
}

// bytesPresent: out and outPresent of ReadOptionalASN1OctetString (an absent element sets out to nil).
type bytesPresent struct {
	B []byte
	P bool
}

var kindBytesPresent = &dkind[bytesPresent]{name: "[]byte + outPresent",
	priors: func() []bytesPresent {
		return []bytesPresent{{freshBytes(priorLong, 24), true}, {freshBytes([]byte{0xff}, 0), false}}
	},
	eq:    func(a, b bytesPresent) bool { return a.P == b.P && bytes.Equal(a.B, b.B) },
	clone: func(a bytesPresent) bytesPresent { return bytesPresent{append([]byte{}, a.B...), a.P} },
	scrib: func(p *bytesPresent) bool { return scribBytes(p.B) },
	show:  func(a bytesPresent) string { return fmt.Sprintf("present=%v %s", a.P, hexShort(a.B)) },
}

// u32Bytes: the two destinations of the 32-bit length-prefixed read (ReadUint32 + ReadBytes).
type u32Bytes struct {
	N uint32
	B []byte
}

var kindU32Bytes = &dkind[u32Bytes]{name: "uint32 + []byte",
	priors: func() []u32Bytes {
		return []u32Bytes{{math.MaxUint32, freshBytes(priorLong, 24)}, {0x5b5a5958, freshBytes([]byte{0xff}, 0)}}
	},
	eq:    func(a, b u32Bytes) bool { return a.N == b.N && bytes.Equal(a.B, b.B) },
	clone: func(a u32Bytes) u32Bytes { return u32Bytes{a.N, append([]byte{}, a.B...)} },
	scrib: func(p *u32Bytes) bool { return scribBytes(p.B) },
	show:  func(a u32Bytes) string { return fmt.Sprintf("%d %s", a.N, hexShort(a.B)) },
}

// ---------------------------------------------------------------- the probe

const (
	pkDecision = "the reader's verdict depends on what the destination held before the call"
	pkValue    = "the value read depends on what the destination held before the call"
	pkInput    = "the read modified the bytes of the String"
	pkDefault  = "the read modified the default value it was given"
	pkDefAlias = "the result shares storage with the default value: writing through the result changed the default"
	pkClobber  = "an earlier result changed when the same bytes were read into a second destination"
	pkShare    = "results read into two destinations share storage: writing through one changed the other"
)

// probe reads the op at the head of s0 as described at the top of this file.
// defBad reports (as text) a default object that no longer holds its value, "" = intact.
func probe[T any](r *runner, reader, class string, s0 cryptobyte.String, dk *dkind[T], read func(s *cryptobyte.String, out *T) bool, defBad func() string) *failure {
	r.phase = reader + " (destination independence)"
	// one defect of a reader shows under every op class the reader reads: the class goes into the detail
	fail := func(kind, detail string) *failure {
		return &failure{sig: fmt.Sprintf("%s [destination probe]: %s", reader, kind), detail: "op class " + class + ": " + detail}
	}
	r.inSave = append(r.inSave[:0], s0...)
	saved := r.inSave
	intact := func(when string) *failure {
		r.nOracle++
		if !bytes.Equal(s0, saved) {
			d := 0
			for d < len(s0) && s0[d] == saved[d] {
				d++
			}
			f := fail(pkInput, fmt.Sprintf("%s: first difference at offset %d of the unread bytes: now %s, was %s", when, d, hexShort(s0[d:]), hexShort(saved[d:])))
			copy(s0, saved)
			return f
		}
		if defBad != nil {
			if bad := defBad(); bad != "" {
				return fail(pkDefault, when+": "+bad)
			}
		}
		return nil
	}
	var d0 T
	if dk.zero != nil {
		d0 = dk.zero()
	}
	s := s0
	ok0 := read(&s, &d0)
	rest0 := len(s)
	r.nReads++
	if f := intact("after the read into a zero " + dk.name); f != nil {
		return f
	}
	var v0 T
	if ok0 {
		v0 = dk.clone(d0)
	}
	for k, dv := range dk.priors() {
		was := func() string { return dk.show(dk.priors()[k]) } // the prior content, rebuilt for the report only
		s := s0
		ok := read(&s, &dv)
		r.nReads++
		r.h["destination pre-filled: read"]++
		if f := intact("after the read into a pre-filled " + dk.name); f != nil {
			return f
		}
		if ok != ok0 {
			return fail(pkDecision, fmt.Sprintf("returned %v into a zero %s, %v when the destination held %s (prior content #%d)", ok0, dk.name, ok, was(), k+1))
		}
		if !ok {
			r.h["destination pre-filled: read fails like the baseline (destination: undocumented, no verdict)"]++
			continue
		}
		if len(s) != rest0 || !dk.eq(dv, v0) {
			return fail(pkValue, fmt.Sprintf("destination held %s: got %s leaving %d bytes; into a zero %s: %s leaving %d bytes", was(), dk.show(dv), len(s), dk.name, dk.show(v0), rest0))
		}
		if !dk.eq(d0, v0) {
			return fail(pkClobber, fmt.Sprintf("first result was %s, is %s", dk.show(v0), dk.show(d0)))
		}
		if dk.scrib == nil || !dk.scrib(&dv) {
			continue
		}
		r.h["destination pre-filled: result written through"]++
		if !bytes.Equal(s0, saved) {
			copy(s0, saved)
			r.h["destination pre-filled: the result is a window of the input (by design; input restored)"]++
		}
		if defBad != nil {
			if bad := defBad(); bad != "" {
				return fail(pkDefAlias, bad)
			}
		}
		if !dk.eq(d0, v0) {
			return fail(pkShare, fmt.Sprintf("first result was %s, is %s after the harness wrote through the second result", dk.show(v0), dk.show(d0)))
		}
	}
	// the baseline result itself: does it share storage with the default?
	if ok0 && dk.scrib != nil && dk.scrib(&d0) {
		if !bytes.Equal(s0, saved) {
			copy(s0, saved)
		}
		if defBad != nil {
			if bad := defBad(); bad != "" {
				return fail(pkDefAlias, bad)
			}
		}
	}
	return nil
}

// probeOp probes op e (the next op of the level, unread bytes s0) with the
// reader that variant v uses in readLevel / readOptional.
func (r *runner) probeOp(s0 cryptobyte.String, e *entry, encLen, v int) *failure {
	// Variant v reads op e with reader number v mod readerPeriod(e.k); the probe depends on nothing but
	// (bytes, op, reader): a variant that repeats the reader of an earlier variant would repeat its probe.
	if v >= readerPeriod(e.k) {
		return nil
	}
	cl := e.class
	switch e.k {
	case kU8:
		return probe(r, "ReadUint8", cl, s0, kindU8, func(s *cryptobyte.String, o *uint8) bool { return s.ReadUint8(o) }, nil)
	case kU16, kAddValue:
		return probe(r, "ReadUint16", cl, s0, kindU16, func(s *cryptobyte.String, o *uint16) bool { return s.ReadUint16(o) }, nil)
	case kU24:
		return probe(r, "ReadUint24", cl, s0, kindU32, func(s *cryptobyte.String, o *uint32) bool { return s.ReadUint24(o) }, nil)
	case kU32:
		return probe(r, "ReadUint32", cl, s0, kindU32, func(s *cryptobyte.String, o *uint32) bool { return s.ReadUint32(o) }, nil)
	case kBytes:
		n := len(e.data)
		if n == 0 && s0 == nil {
			return nil // zero-length raw read on a nil String: outside the statement (see readLevel)
		}
		switch v % 3 {
		case 0:
			return probe(r, "ReadBytes", cl, s0, kindBytes, func(s *cryptobyte.String, o *[]byte) bool { return s.ReadBytes(o, n) }, nil)
		case 1:
			return probe(r, "CopyBytes", cl, s0, fixedBufKind(n), func(s *cryptobyte.String, o *[]byte) bool { return s.CopyBytes(*o) }, nil)
		}
		return probe(r, "Skip", cl, s0, kindNone, func(s *cryptobyte.String, o *struct{}) bool { return s.Skip(n) }, nil)
	case kWriteUnwrite:
		if encLen == 0 {
			return nil
		}
		return probe(r, "ReadBytes", cl, s0, kindBytes, func(s *cryptobyte.String, o *[]byte) bool { return s.ReadBytes(o, encLen) }, nil)
	case kInt64:
		switch v % 3 {
		case 0:
			return probe(r, "ReadASN1Integer(*int64)", cl, s0, kindI64, func(s *cryptobyte.String, o *int64) bool { return s.ReadASN1Integer(o) }, nil)
		case 1:
			return probe(r, "ReadASN1Integer(*big.Int)", cl, s0, kindBig, func(s *cryptobyte.String, o **big.Int) bool { return s.ReadASN1Integer(*o) }, nil)
		}
		return probe(r, "ReadASN1Int64WithTag(INTEGER)", cl, s0, kindI64, func(s *cryptobyte.String, o *int64) bool { return s.ReadASN1Int64WithTag(o, cbasn1.INTEGER) }, nil)
	case kUint64:
		if v%2 == 0 {
			return probe(r, "ReadASN1Integer(*uint64)", cl, s0, kindU64, func(s *cryptobyte.String, o *uint64) bool { return s.ReadASN1Integer(o) }, nil)
		}
		return probe(r, "ReadASN1Integer(*big.Int)", cl, s0, kindBig, func(s *cryptobyte.String, o **big.Int) bool { return s.ReadASN1Integer(*o) }, nil)
	case kBigInt:
		return probe(r, "ReadASN1Integer(*big.Int)", cl, s0, kindBig, func(s *cryptobyte.String, o **big.Int) bool { return s.ReadASN1Integer(*o) }, nil)
	case kEnum:
		return probe(r, "ReadASN1Enum", cl, s0, kindI, func(s *cryptobyte.String, o *int) bool { return s.ReadASN1Enum(o) }, nil)
	case kIntTag:
		return probe(r, "ReadASN1Int64WithTag", cl, s0, kindI64, func(s *cryptobyte.String, o *int64) bool { return s.ReadASN1Int64WithTag(o, e.tag) }, nil)
	case kBool:
		return probe(r, "ReadASN1Boolean", cl, s0, kindBool, func(s *cryptobyte.String, o *bool) bool { return s.ReadASN1Boolean(o) }, nil)
	case kNull:
		switch v % 3 {
		case 0:
			return probe(r, "ReadASN1(NULL)", cl, s0, kindStr, func(s *cryptobyte.String, o *cryptobyte.String) bool { return s.ReadASN1(o, cbasn1.NULL) }, nil)
		case 1:
			return probe(r, "SkipASN1(NULL)", cl, s0, kindNone, func(s *cryptobyte.String, o *struct{}) bool { return s.SkipASN1(cbasn1.NULL) }, nil)
		}
		return probe(r, "ReadAnyASN1Element", cl, s0, kindStrTag, func(s *cryptobyte.String, o *strTag) bool { return s.ReadAnyASN1Element(&o.S, &o.T) }, nil)
	case kOctet:
		switch v % 3 {
		case 0:
			return probe(r, "ReadASN1Bytes(OCTET_STRING)", cl, s0, kindBytes, func(s *cryptobyte.String, o *[]byte) bool { return s.ReadASN1Bytes(o, cbasn1.OCTET_STRING) }, nil)
		case 1:
			return probe(r, "ReadASN1(OCTET_STRING)", cl, s0, kindStr, func(s *cryptobyte.String, o *cryptobyte.String) bool { return s.ReadASN1(o, cbasn1.OCTET_STRING) }, nil)
		}
		return probe(r, "ReadASN1Element(OCTET_STRING)", cl, s0, kindStr, func(s *cryptobyte.String, o *cryptobyte.String) bool {
			return s.ReadASN1Element(o, cbasn1.OCTET_STRING)
		}, nil)
	case kBit:
		if v%2 == 0 {
			return probe(r, "ReadASN1BitString", cl, s0, kindBitString, func(s *cryptobyte.String, o *zasn1.BitString) bool { return s.ReadASN1BitString(o) }, nil)
		}
		return probe(r, "ReadASN1BitStringAsBytes", cl, s0, kindBytes, func(s *cryptobyte.String, o *[]byte) bool { return s.ReadASN1BitStringAsBytes(o) }, nil)
	case kOID:
		return probe(r, "ReadASN1ObjectIdentifier", cl, s0, kindOID, func(s *cryptobyte.String, o *zasn1.ObjectIdentifier) bool { return s.ReadASN1ObjectIdentifier(o) }, nil)
	case kTime:
		return probe(r, "ReadASN1GeneralizedTime", cl, s0, kindTime, func(s *cryptobyte.String, o *time.Time) bool { return s.ReadASN1GeneralizedTime(o) }, nil)
	case kUTCTime:
		return probe(r, "ReadASN1UTCTime", cl, s0, kindTime, func(s *cryptobyte.String, o *time.Time) bool { return s.ReadASN1UTCTime(o) }, nil)
	case kLP8:
		return probe(r, "ReadUint8LengthPrefixed", cl, s0, kindStr, func(s *cryptobyte.String, o *cryptobyte.String) bool { return s.ReadUint8LengthPrefixed(o) }, nil)
	case kLP16:
		return probe(r, "ReadUint16LengthPrefixed", cl, s0, kindStr, func(s *cryptobyte.String, o *cryptobyte.String) bool { return s.ReadUint16LengthPrefixed(o) }, nil)
	case kLP24:
		return probe(r, "ReadUint24LengthPrefixed", cl, s0, kindStr, func(s *cryptobyte.String, o *cryptobyte.String) bool { return s.ReadUint24LengthPrefixed(o) }, nil)
	case kLP32:
		return probe(r, "ReadUint32+ReadBytes", cl, s0, kindU32Bytes, func(s *cryptobyte.String, o *u32Bytes) bool { return s.ReadUint32(&o.N) && s.ReadBytes(&o.B, int(o.N)) }, nil)
	case kASN1:
		switch v % 3 {
		case 0:
			return probe(r, "ReadASN1", cl, s0, kindStr, func(s *cryptobyte.String, o *cryptobyte.String) bool { return s.ReadASN1(o, e.tag) }, nil)
		case 1:
			return probe(r, "ReadAnyASN1", cl, s0, kindStrTag, func(s *cryptobyte.String, o *strTag) bool { return s.ReadAnyASN1(&o.S, &o.T) }, nil)
		}
		return probe(r, "ReadASN1Element", cl, s0, kindStr, func(s *cryptobyte.String, o *cryptobyte.String) bool { return s.ReadASN1Element(o, e.tag) }, nil)

	// ---- the optional family: one default object for every read of the probe
	case kOptASN1:
		if v%2 == 0 {
			return probe(r, "ReadOptionalASN1", cl, s0, kindStrPresent, func(s *cryptobyte.String, o *strPresent) bool { return s.ReadOptionalASN1(&o.S, &o.P, e.tag) }, nil)
		}
		return probe(r, "ReadOptionalASN1(outPresent=nil)", cl, s0, kindStrPresent, func(s *cryptobyte.String, o *strPresent) bool {
			before := len(*s)
			ok := s.ReadOptionalASN1(&o.S, nil, e.tag)
			o.P = len(*s) != before // consumed something = the element was there
			return ok
		}, nil)
	case kOptSkip:
		return probe(r, "SkipOptionalASN1", cl, s0, kindNone, func(s *cryptobyte.String, o *struct{}) bool { return s.SkipOptionalASN1(e.tag) }, nil)
	case kOptInt:
		var def interface{} = int(e.defI)
		return probe(r, "ReadOptionalASN1Integer(*int)", cl, s0, kindI, func(s *cryptobyte.String, o *int) bool { return s.ReadOptionalASN1Integer(o, e.tag, def) },
			func() string { return boxedBad(def, int(e.defI)) })
	case kOptInt64:
		var def interface{} = int64(e.defI)
		return probe(r, "ReadOptionalASN1Integer(*int64)", cl, s0, kindI64, func(s *cryptobyte.String, o *int64) bool { return s.ReadOptionalASN1Integer(o, e.tag, def) },
			func() string { return boxedBad(def, int64(e.defI)) })
	case kOptUint64:
		var def interface{} = uint64(e.defI)
		return probe(r, "ReadOptionalASN1Integer(*uint64)", cl, s0, kindU64, func(s *cryptobyte.String, o *uint64) bool { return s.ReadOptionalASN1Integer(o, e.tag, def) },
			func() string { return boxedBad(def, uint64(e.defI)) })
	case kOptBigInt:
		def := big.NewInt(e.defI)
		return probe(r, "ReadOptionalASN1Integer(*big.Int)", cl, s0, kindBig, func(s *cryptobyte.String, o **big.Int) bool { return s.ReadOptionalASN1Integer(*o, e.tag, def) },
			func() string {
				if def.Cmp(big.NewInt(e.defI)) != 0 {
					return fmt.Sprintf("the default *big.Int was %d, is %s", e.defI, def)
				}
				return ""
			})
	case kOptOctet:
		if v%2 == 0 {
			return probe(r, "ReadOptionalASN1OctetString", cl, s0, kindBytesPresent, func(s *cryptobyte.String, o *bytesPresent) bool {
				return s.ReadOptionalASN1OctetString(&o.B, &o.P, e.tag)
			}, nil)
		}
		return probe(r, "ReadOptionalASN1OctetString(outPresent=nil)", cl, s0, kindBytes, func(s *cryptobyte.String, o *[]byte) bool { return s.ReadOptionalASN1OctetString(o, nil, e.tag) }, nil)
	case kOptBool:
		return probe(r, "ReadOptionalASN1Boolean", cl, s0, kindBool, func(s *cryptobyte.String, o *bool) bool { return s.ReadOptionalASN1Boolean(o, e.defB) }, nil)
	}
	return nil // kUnwrite(0), panic letters outside a continuation: nothing was written, nothing is read
}

// readerPeriod: the number of different readers the variants use for an op kind (v%3, v%2 or one reader).
func readerPeriod(k kind) int {
	switch k {
	case kBytes, kInt64, kNull, kOctet, kASN1:
		return 3
	case kUint64, kBit, kOptASN1, kOptOctet:
		return 2
	}
	return 1
}

func boxedBad[T comparable](def interface{}, want T) string {
	if got, ok := def.(T); !ok || got != want {
		return fmt.Sprintf("the default was %v, is %v", want, def)
	}
	return ""
}
