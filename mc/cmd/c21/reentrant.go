package main

// Re-entrancy pass (internal/nohb): Builders and Strings are per-goroutine objects, but the package functions behind
// them are shared by every goroutine that writes or reads a TLS message or a certificate; "reading what a Builder
// wrote gives back the values" must not depend on another goroutine building or reading at the same time (a shared
// scratch buffer for lengths, OID arcs or time formatting would break it). Every ordered pair of the menu below is
// run as "first call to completion, then the second on another goroutine" WITHOUT a happens-before edge in a -race
// build: ThreadSanitizer reports every location both calls touch unsynchronised, for all interleavings at once.
//
// Menu: one write program per block op (core and extended containers) holding four leaf ops, the leaves taken in
// turn from all leaf letters of the alphabet (core and extended, except those with operands above 1 KiB), so that
// every such letter occurs; remaining leaves as flat 5-op programs. One call = the main phase's runProgram on the caller's own runner:
// build with NewBuilder, compare, Bytes/BytesOrPanic, read back with every reader variant, and the NewFixedBuilder
// family. The letters' constant operands (the alphabet table) are read-only inputs and are the only objects both
// calls see.

import (
	"os"
	"time"

	"verifmc/internal/ev"
	"verifmc/internal/nohb"
)

func reentrantRepoDir() string {
	if v := os.Getenv("VERIF_REPO_DIR"); v != "" {
		return v
	}
	return "/repo"
}

func reentrantOps() []nohb.Op {
	buildAlphabet()
	var leaves, conts []int
	for i, e := range alphabet {
		switch {
		case e.huge || len(e.data) > 1024 || len(e.enc) > 1024: // 64 KiB / 16 MiB operands: seconds per pair under the race detector, same code paths as the 254..256-octet letters
		case e.container:
			conts = append(conts, i)
		default:
			leaves = append(leaves, i)
		}
	}
	var ops []nohb.Op
	add := func(par []int, lab []int) {
		sh := mkShape(par)
		ops = append(ops, nohb.Op{Name: render(sh, lab), New: func() func() {
			r := &runner{sh: mkShape(par), lab: append([]int{}, lab...), h: ev.Hist{}, fixedLevel: 2}
			return func() { r.runProgram() }
		}})
	}
	next := 0
	take := func() int { l := leaves[next%len(leaves)]; next++; return l }
	for _, c := range conts {
		add([]int{-1, 0, 0, 0, 0}, []int{c, take(), take(), take(), take()})
	}
	for next < len(leaves) {
		add([]int{-1, -1, -1, -1, -1}, []int{take(), take(), take(), take(), take()})
	}
	return ops
}

const reentrantMenuText = "one 5-op write program per block op (core + extended) with four leaf ops, remaining leaves as flat 5-op programs, so that every letter with operands <= 1 KiB occurs; one call = runProgram on an own runner (Builder, Bytes/BytesOrPanic, every reader variant, NewFixedBuilder family)"

func reentrantPhase(c *ev.Ctx) {
	if c.Replay != nil {
		return // --replay re-executes one recorded witness of the main phase only
	}
	t0 := time.Now()
	o := nohb.Run(os.Getenv("VERIF_RACE_BIN"), nil, 10*time.Minute)
	if o.Broken != "" {
		c.Broken("re-entrancy pass: %s", o.Broken)
	}
	for _, sig := range o.Sigs() {
		c.Violation("re-entrancy: two calls on different goroutines share unsynchronised state: "+sig, map[string]any{"pair": o.Races[sig], "kind": "nohb"})
	}
	for k, v := range o.Panics {
		c.Violation("re-entrancy: "+k, map[string]any{"pair": v, "kind": "nohb"})
	}
	c.Outcome("re-entrancy pairs without a report", int64(o.Pairs))
	c.States.Add(int64(o.Pairs))
	c.Traces.Add(int64(o.Pairs))
	c.Set("reentrancy", map[string]any{"calls": o.Ops, "ordered_pairs": o.Pairs, "race_signatures": len(o.Races), "harness_only_reports": o.Harness, "canary_ok": o.CanaryOK,
		"seconds": time.Since(t0).Seconds(), "menu": reentrantMenuText,
		"method": "every ordered pair (a, b) of the menu: a to completion on one goroutine, then b on another, without a happens-before edge, in a -race build; a ThreadSanitizer report with both accesses in the repository is a violation"})
}
