package main

// Program shapes: ordered forests with n nodes in preorder.

import (
	"fmt"
	"strings"
)

const maxN = 6

type shape struct {
	n        int
	par      []int
	kids     [][]int
	roots    []int
	internal []bool
	depth    int // max number of containers enclosing a node
}

func mkShape(par []int) *shape {
	n := len(par)
	sh := &shape{n: n, par: append([]int{}, par...), kids: make([][]int, n), internal: make([]bool, n)}
	d := make([]int, n)
	for i, p := range par {
		if p < 0 {
			sh.roots = append(sh.roots, i)
		} else {
			sh.kids[p] = append(sh.kids[p], i)
			sh.internal[p] = true
			d[i] = d[p] + 1
			if d[i] > sh.depth {
				sh.depth = d[i]
			}
		}
	}
	return sh
}

// genShapes returns every ordered forest with n nodes (Catalan(n) of them).
func genShapes(n int) []*shape {
	var out []*shape
	par := make([]int, n)
	var rec func(i int)
	rec = func(i int) {
		if i == n {
			out = append(out, mkShape(par))
			return
		}
		if i == 0 {
			par[0] = -1
			rec(1)
			return
		}
		// the parent of node i is -1 or any node on the path root..i-1
		for p := i - 1; ; p = par[p] {
			par[i] = p
			rec(i + 1)
			if p < 0 {
				break
			}
		}
	}
	if n > 0 {
		rec(0)
	}
	return out
}

// radices gives, per node, the list of alphabet indices allowed there.
func (sh *shape) radices(all, conts []int) [][]int {
	r := make([][]int, sh.n)
	for i := 0; i < sh.n; i++ {
		if sh.internal[i] {
			r[i] = conts
		} else {
			r[i] = all
		}
	}
	return r
}

func render(sh *shape, lab []int) string {
	var rec func(ids []int) string
	rec = func(ids []int) string {
		var parts []string
		for _, i := range ids {
			e := alphabet[lab[i]]
			s := e.name
			if e.container {
				s += "{" + rec(sh.kids[i]) + "}"
			}
			parts = append(parts, s)
		}
		return strings.Join(parts, "; ")
	}
	return rec(sh.roots)
}

func hexShort(b []byte) string {
	if len(b) <= 48 {
		return fmt.Sprintf("%x", b)
	}
	return fmt.Sprintf("%x...(%d bytes)", b[:48], len(b))
}
