// C21 — cryptobyte builders and readers are exact inverses.
//
// Engine E2 (programs): every write program (ordered forest of Builder ops,
// <= N nodes) over a 94-letter op alphabet is executed on the real Builder;
// the matching read program is derived mechanically and executed on the real
// String with every reader variant. Reference encodings come from the Go
// standard library encoding/asn1; optional-reader expectations are derived
// from the reference bytes of the rest of the level.
package main

import (
	"encoding/json"
	"fmt"
	"sort"

	"verifmc/internal/ev"
)

type witness struct {
	Program     string   `json:"program"`
	Par         []int    `json:"par"`
	Ops         []string `json:"ops"`
	Mode        string   `json:"mode"`
	Capacity    int      `json:"capacity,omitempty"`
	Prefix      int      `json:"prefix,omitempty"`
	Variant     int      `json:"reader_variant"`
	Reference   string   `json:"reference_bytes"`
	Detail      string   `json:"detail"`
	Occurrences int64    `json:"occurrences"`
	size        int
	order       int64
}

func mkWitness(r *runner, f *failure, order int64) witness {
	ref, _, _ := r.reference()
	ops := make([]string, r.sh.n)
	for i := range ops {
		ops[i] = r.e(i).name
	}
	return witness{Program: render(r.sh, r.lab), Par: r.sh.par, Ops: ops, Mode: f.mode, Capacity: f.capa, Prefix: f.prefix,
		Variant: f.varnt, Reference: hexShort(ref), Detail: f.detail, Occurrences: 1, size: r.sh.n*1000000 + len(ref), order: order}
}

func better(a, b *witness) bool { // is a a smaller witness than b
	if a.size != b.size {
		return a.size < b.size
	}
	return a.order < b.order
}

func main() {
	ev.Main("C21", "model_checking", func(c *ev.Ctx) {
		buildAlphabet()
		if err := selfTestReference(); err != nil {
			c.Broken("%v", err)
		}
		all := make([]int, len(alphabet))
		for i := range all {
			all[i] = i
		}

		if c.Replay != nil {
			var w witness
			if err := json.Unmarshal(c.Replay, &w); err != nil {
				c.Broken("bad witness: %v", err)
			}
			sh := mkShape(w.Par)
			lab := make([]int, len(w.Ops))
			for i, n := range w.Ops {
				e, ok := byName[n]
				if !ok {
					c.Broken("unknown op %q", n)
				}
				for k, a := range alphabet {
					if a == e {
						lab[i] = k
					}
				}
			}
			r := &runner{sh: sh, lab: lab, h: ev.Hist{}, fixedLevel: 2}
			for _, f := range r.runProgram() {
				c.Violation(f.sig, mkWitness(r, f, 0))
			}
			c.States.Add(1)
			c.Transitions.Add(r.nBuildOps + r.nReads)
			c.Merge(r.h)
			return
		}

		maxNodes := ev.Pick(c, 3, 4)
		fixedUpTo := 3 // the NewFixedBuilder family runs on all programs up to this size
		c.Rule(fmt.Sprintf("all write programs = ordered forests of <= %d Builder ops (nesting = child programs of the %d block ops, depth unbounded within the node bound) over a %d-letter alphabet "+
			"(fixed-width ints, AddBytes, 4 length-prefixed blocks, ASN.1 INTEGER/ENUM/tagged INTEGER/BOOLEAN/NULL/OCTET STRING/BIT STRING/OID/GeneralizedTime with boundary values, AddASN1 with 4 tags + a high tag, "+
			"optional family x {present,absent} x defaults); each read back with %d reader variants; each program of <= %d nodes also built with NewFixedBuilder at capacity exact, exact with a 2-byte initial buffer, and short capacities "+
			"(all c < needed when needed <= 8, else {0,1,needed-2,needed-1}); a case is non-trivial/distinct when it is a distinct program that builds without a documented error and is read back",
			maxNodes, len(containers), len(alphabet), nVariants, fixedUpTo))
		c.Assume("reference encodings of all ASN.1 leaves come from Go's encoding/asn1; DER headers of blocks from a hand-written X.690 encoder cross-checked against encoding/asn1 at start-up",
			"GeneralizedTime values are compared as instants (time.Time.Equal)",
			"an absent optional element followed by bytes that begin with the reader's tag is 'present' for the reader; when those bytes are not a well-formed element of the reader's type no verdict is given",
			"int is 64 bits (OID arcs, ReadASN1Enum)")

		W := c.Workers()
		type wstate struct {
			h                                    ev.Hist
			best                                 map[string]*witness
			programs                             int64
			buildOps, reads, oracle, traces, vio int64
			samples                              []any
		}
		ws := make([]*wstate, W)
		for i := range ws {
			ws[i] = &wstate{h: ev.Hist{}, best: map[string]*witness{}}
		}
		var orderBase int64
		perSize := map[string]any{}
		const chunk = 4096
		complete := true
		for n := 1; n <= maxNodes && complete; n++ {
			var sizeTotal int64
			for si, sh := range genShapes(n) {
				rad := sh.radices(all)
				total := int64(1)
				for _, rr := range rad {
					total *= int64(len(rr))
				}
				sizeTotal += total
				nChunks := int((total + chunk - 1) / chunk)
				fixedLevel := 2
				if n > fixedUpTo {
					fixedLevel = 0
				}
				sh, base := sh, orderBase
				done := c.Parallel(nChunks, func(w, ci int) {
					st := ws[w]
					r := &runner{sh: sh, lab: make([]int, sh.n), h: st.h, fixedLevel: fixedLevel}
					digits := make([]int, sh.n)
					lo := int64(ci) * chunk
					hi := lo + chunk
					if hi > total {
						hi = total
					}
					// mixed radix, last node fastest
					x := lo
					for d := sh.n - 1; d >= 0; d-- {
						digits[d] = int(x % int64(len(rad[d])))
						x /= int64(len(rad[d]))
					}
					for idx := lo; idx < hi; idx++ {
						for d := 0; d < sh.n; d++ {
							r.lab[d] = rad[d][digits[d]]
						}
						fails := r.runProgram()
						st.programs++
						for _, f := range fails {
							st.vio++
							cur, ok := st.best[f.sig]
							if ok {
								cur.Occurrences++
								// cheap pre-test: only a smaller program can replace the witness
								if r.sh.n*1000000 > cur.size {
									continue
								}
							}
							wt := mkWitness(r, f, base+idx)
							if !ok {
								st.best[f.sig] = &wt
							} else if better(&wt, cur) {
								wt.Occurrences = cur.Occurrences
								*cur = wt
							}
						}
						if len(fails) == 0 && si == 0 && idx%977 == 13 && len(st.samples) < 2 && n >= 2 {
							ref, ec, _ := r.reference()
							st.samples = append(st.samples, map[string]any{"program": render(sh, r.lab), "reference_bytes": hexShort(ref), "documented_error": ec})
						}
						for d := sh.n - 1; d >= 0; d-- {
							digits[d]++
							if digits[d] < len(rad[d]) {
								break
							}
							digits[d] = 0
						}
					}
					st.buildOps += r.nBuildOps
					st.reads += r.nReads
					st.oracle += r.nOracle
					st.traces += r.nTraces
				})
				orderBase += total
				if !done {
					complete = false
					c.Incomplete(fmt.Sprintf("budget hit in programs of %d nodes, shape %d %v; all programs of < %d nodes were covered", n, si, sh.par, n))
					break
				}
			}
			perSize[fmt.Sprintf("programs_with_%d_nodes", n)] = sizeTotal
		}

		// merge
		merged := map[string]*witness{}
		var programs, buildOps, reads, oracle, traces int64
		for _, st := range ws {
			programs += st.programs
			buildOps += st.buildOps
			reads += st.reads
			oracle += st.oracle
			traces += st.traces
			for sig, wt := range st.best {
				if cur, ok := merged[sig]; !ok {
					cp := *wt
					merged[sig] = &cp
				} else {
					n := cur.Occurrences + wt.Occurrences
					if better(wt, cur) {
						*cur = *wt
					}
					cur.Occurrences = n
				}
			}
			for _, s := range st.samples {
				c.Sample(s)
			}
		}
		// all workers share distinct Hist objects
		for _, st := range ws {
			c.Merge(st.h)
		}
		sigs := make([]string, 0, len(merged))
		for s := range merged {
			sigs = append(sigs, s)
		}
		sort.Strings(sigs)
		var nviol int64
		for _, s := range sigs {
			c.Violation(s, *merged[s])
			nviol += merged[s].Occurrences
		}
		if nviol > 0 {
			c.Outcome("violation (program x mode)", nviol)
		}
		var nontrivial int64
		for _, st := range ws {
			nontrivial += st.h["roundtrip-ok"]
		}
		c.States.Add(programs)
		c.Distinct.Add(nontrivial)
		c.Transitions.Add(buildOps + reads)
		c.Traces.Add(traces)
		c.Evaluations.Add(oracle)
		c.Set("alphabet_size", len(alphabet))
		c.Set("block_ops", len(containers))
		c.Set("max_nodes", maxNodes)
		c.Set("programs_by_size", perSize)
		c.Set("builder_ops_executed", buildOps)
		c.Set("reader_calls_executed", reads)
	})
}
