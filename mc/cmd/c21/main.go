// C21 — cryptobyte builders and readers are exact inverses.
//
// Engine E2 (programs): every write program (ordered forest of Builder ops,
// <= N nodes) over the core op alphabet, every program of <= 2 ops over the
// core + extended alphabet and every 3-op program around an extended letter is
// executed on the real Builder; the built bytes are compared with a reference
// encoding, the matching read program is derived mechanically and executed on
// the real String with every reader variant. Reference encodings come from the
// Go standard library encoding/asn1 and from an ordered reference model of the
// Builder's documented error / panic / Unwrite behaviour (run.go: simulate);
// optional-reader expectations are derived from the reference bytes of the
// rest of the level.
package main

import (
	"encoding/json"
	"fmt"
	"sort"

	"verifmc/internal/ev"
	"verifmc/internal/nohb"
)

type witness struct {
	Program     string   `json:"program"`
	Par         []int    `json:"par"`
	Ops         []string `json:"ops"`
	Mode        string   `json:"mode"`
	Capacity    int      `json:"capacity,omitempty"`
	Prefix      int      `json:"prefix,omitempty"`
	Variant     int      `json:"reader_variant"`
	Reference   string   `json:"reference_bytes"`
	Detail      string   `json:"detail"`
	Occurrences int64    `json:"occurrences"`
	size        int
	order       int64
}

func mkWitness(r *runner, f *failure, order int64) witness {
	ref, _, _ := r.reference()
	ops := make([]string, r.sh.n)
	for i := range ops {
		ops[i] = r.e(i).name
	}
	return witness{Program: render(r.sh, r.lab), Par: r.sh.par, Ops: ops, Mode: f.mode, Capacity: f.capa, Prefix: f.prefix,
		Variant: f.varnt, Reference: hexShort(ref), Detail: f.detail, Occurrences: 1, size: r.sh.n*1000000 + len(ref), order: order}
}

func better(a, b *witness) bool { // is a a smaller witness than b
	if a.size != b.size {
		return a.size < b.size
	}
	return a.order < b.order
}

func main() {
	if nohb.IsWorker() {
		nohb.WorkerMain(reentrantOps(), reentrantRepoDir())
		return
	}
	ev.Main("C21", "model_checking", func(c *ev.Ctx) {
		buildAlphabet()
		if err := selfTestReference(); err != nil {
			c.Broken("%v", err)
		}
		all := make([]int, len(alphabet))
		for i := range all {
			all[i] = i
		}

		if c.Replay != nil {
			var w witness
			if err := json.Unmarshal(c.Replay, &w); err != nil {
				c.Broken("bad witness: %v", err)
			}
			if w.Mode == "history" { // a read history of the optional readers (history.go): the family is small, re-run all of it
				historyPhase(c)
				return
			}
			sh := mkShape(w.Par)
			lab := make([]int, len(w.Ops))
			for i, n := range w.Ops {
				e, ok := byName[n]
				if !ok {
					c.Broken("unknown op %q", n)
				}
				for k, a := range alphabet {
					if a == e {
						lab[i] = k
					}
				}
			}
			r := &runner{sh: sh, lab: lab, h: ev.Hist{}, fixedLevel: 2}
			for _, f := range r.runProgram() {
				c.Violation(f.sig, mkWitness(r, f, 0))
			}
			c.States.Add(1)
			c.Transitions.Add(r.nBuildOps + r.nReads)
			c.Merge(r.h)
			return
		}

		maxNodes := ev.Pick(c, 3, 4)
		fixedUpTo := 3 // the NewFixedBuilder family runs on all programs up to this size
		allContainers := append(append([]int{}, containers...), extContainers...)
		full := append(append([]int{}, coreAll...), extAll...)
		ctxAll := append(append([]int{}, ctxLeaves...), allContainers...) // context: a few leaves + every block op (also as an empty block)
		ctxCore := append(append([]int{}, ctxLeaves...), containers...)
		c.Rule(fmt.Sprintf("write programs = ordered forests of Builder ops (nesting = child programs of the block ops, depth unbounded within the node bound). "+
			"(1) all forests of <= %d ops over the %d core letters (%d block ops): fixed-width ints {0,1,max}, AddBytes, 4 length-prefixed blocks, ASN.1 INTEGER/ENUM/tagged INTEGER/BOOLEAN/NULL/OCTET STRING/BIT STRING/OID/GeneralizedTime with boundary values "+
			"(OCTET/BIT STRING lengths on both sides of 0x7f/0x80, 0xff/0x100, 0xffff/0x10000), AddASN1 with 4 tags + a high tag, optional family x {present,absent} x defaults; "+
			"(2) all forests of <= 2 ops over core + %d extended letters (%d extended block ops), and all 3-op forests holding at least one extended letter with every other op over the context letters (%d leaves + all %d block ops). "+
			"Extended letters: AddUint16/24/32 and ASN.1 INTEGERs with pairwise different octets (0x0102, 0x010203, 0x01020304, +-0x0102030405060708); AddBytes of 254,255,256,65534,65535,65536 octets (1- and 2-octet length-prefix limits: the first length that does not fit must be a Builder error); "+
			"AddASN1 with tag number 30 (0x1e, 0x7e, 0xbe), refused 0x1f / 0xff, optional readers with tag 0x9e; ReadOptionalASN1Integer into *int64 / *uint64; GeneralizedTime and UTCTime (ReadASN1UTCTime) incl. a -0330 zone; "+
			"Builder.Unwrite (after AddBytes in the same Builder incl. pending length-prefixed children, and alone: on preceding ops' bytes or with nothing to unwrite = documented panic), SetError, AddValue (writing / failing MarshalingValue), MarshalASN1 (int64 / a type encoding/asn1 refuses), "+
			"a continuation panicking with BuildError (becomes the Builder's error) or with another value (re-raised unchanged); "+
			"(3) thorough only: directed programs with AddBytes of 2^24-1 / 2^24 octets (4-octet DER length, 3-octet length-prefix limit). "+
			"Every program: built bytes == reference encoding, Bytes/BytesOrPanic agree, documented errors/panics, then read back with %d reader variants (values, Zone offsets, exact remainder after every op); programs of <= %d ops also built with NewFixedBuilder at capacity exact, exact with a 2-byte initial buffer, and short capacities "+
			"(all c < needed when needed <= 8, else {0,1,needed-2,needed-1}); a case is non-trivial/distinct when it is a distinct program that builds without a documented error and is read back. "+
			"(4) destination independence, input immutability, aliasing (dest.go): before every op of every derived read program is read for the verdict, the same op is read from a copy of the String with every distinct reader the variants use for it - "+
			"into a zero destination, then into a second destination object holding each prior content of its kind (integers: all ones and 0x5b5a59.. in every octet; bool: true; *big.Int: -1, +-a 44-octet value; []byte / String / BitString / ObjectIdentifier / the two-destination readers: a longer non-empty value in a kept backing array with spare capacity and a one-element full one; time.Time: a zoned instant with nanoseconds, one before year 1; CopyBytes: buffers of the length to copy): "+
			"reader's bool, remainder and (on success) value must equal the baseline's; after every read the String's bytes equal a copy taken before and the default handed to the optional readers (ONE object for all reads of the probe) still holds its value; then the harness writes through the result (slice elements, big.Int words + SetInt64): default unchanged, the baseline result in the other destination unchanged "+
			"(a result that is a window of the input - cryptobyte's []byte results by design - is counted, input restored). ReadOptionalASN1's out is compared only for a present element. "+
			"(5) read histories (history.go): for ReadOptionalASN1Integer into *int/*int8/*int16/*int32/*int64/*uint/*uint8/*uint16/*uint32/*uint64/*big.Int, ReadOptionalASN1OctetString, ReadOptionalASN1 (each with and without outPresent) and ReadOptionalASN1Boolean: "+
			"two consecutive optional reads (tags [0], [1]; BOOLEAN twice) with the SAME destination object and the SAME default object in all 4 present/absent combinations, then a third read that finds its element absent; "+
			"x defaults x first value x second value x prior content of the destination x follower {nothing, an OCTET STRING}; inputs from the reference encoders; after every step value / default returned, exact remainder, input bytes and default object unchanged, also after the harness wrote through the destination between the reads",
			maxNodes, len(coreAll), len(containers), len(extAll), len(extContainers), len(ctxLeaves), len(allContainers), nVariants, fixedUpTo))
		c.Assume("reference encodings of all ASN.1 leaves come from Go's encoding/asn1; DER headers of blocks from a hand-written X.690 encoder cross-checked against encoding/asn1 at start-up",
			"the documented encodings (AddUintN: big-endian; length prefixes: big-endian byte count; AddASN1*: DER) are part of 'exact inverse': the built bytes are compared with the reference, not only read back",
			"time values are compared as instants (time.Time.Equal) and by their Zone() offset, which AddASN1GeneralizedTime writes",
			"an absent optional element followed by bytes that begin with the reader's tag is 'present' for the reader; when those bytes are not a well-formed element of the reader's type no verdict is given",
			"Unwrite reaching into a completed length-prefixed block of the same Builder: statement and documentation are silent, no verdict",
			"after a reader returned false the package documents nothing about the destination; for an absent element ReadOptionalASN1 documents nothing about out: neither is demanded",
			"cryptobyte.String 'wraps a []byte slice': []byte, String and BitString.Bytes results may be windows of the input; they may never share storage with a default or with the result in another destination unless both are windows of the input",
			"int is 64 bits (OID arcs, ReadASN1Enum)")

		W := c.Workers()
		type wstate struct {
			h                                    ev.Hist
			best                                 map[string]*witness
			programs                             int64
			buildOps, reads, oracle, traces, vio int64
			samples                              []any
		}
		ws := make([]*wstate, W)
		for i := range ws {
			ws[i] = &wstate{h: ev.Hist{}, best: map[string]*witness{}}
		}

		// the enumeration jobs: a shape with the letters allowed at each node
		type job struct {
			group      string
			n, si      int
			sh         *shape
			rad        [][]int
			fixedLevel int
		}
		var jobs []job
		fixedFor := func(n int) int {
			if n > fixedUpTo {
				return 0
			}
			return 2
		}
		coreJobs := func(from, to int) {
			for n := from; n <= to; n++ {
				for si, sh := range genShapes(n) {
					if n <= 2 {
						jobs = append(jobs, job{"programs_with_%d_nodes", n, si, sh, sh.radices(full, allContainers), fixedFor(n)})
					} else {
						jobs = append(jobs, job{"programs_with_%d_nodes", n, si, sh, sh.radices(coreAll, containers), fixedFor(n)})
					}
				}
			}
		}
		coreJobs(1, min(3, maxNodes))
		// 3-op forests around an extended letter: node p holds it, the nodes before p range over the context
		// letters and core block ops, the nodes after p over the context letters and all block ops
		for si, sh := range genShapes(3) {
			for p := 0; p < 3; p++ {
				rad := make([][]int, 3)
				for q := 0; q < 3; q++ {
					switch {
					case q == p && sh.internal[q]:
						rad[q] = extContainers
					case q == p:
						rad[q] = extAll
					case q < p && sh.internal[q]:
						rad[q] = containers
					case q < p:
						rad[q] = ctxCore
					case sh.internal[q]:
						rad[q] = allContainers
					default:
						rad[q] = ctxAll
					}
				}
				jobs = append(jobs, job{"extended_programs_with_%d_nodes", 3, si, sh, rad, 2})
			}
		}
		if !c.Quick() {
			lp := func(names ...string) []int {
				var out []int
				for _, n := range names {
					for k, a := range alphabet {
						if a.name == n {
							out = append(out, k)
						}
					}
				}
				if len(out) != len(names) {
					c.Broken("directed programs: unknown letter")
				}
				return out
			}
			blocks := lp("AddUint16LengthPrefixed", "AddUint24LengthPrefixed", "AddUint32LengthPrefixed", "AddASN1(0x30)")
			one := lp("AddUint8(1)")
			jobs = append(jobs,
				job{"huge_programs_with_%d_nodes", 1, 0, mkShape([]int{-1}), [][]int{hugeLeaves}, 1},
				job{"huge_programs_with_%d_nodes", 2, 0, mkShape([]int{-1, 0}), [][]int{blocks, hugeLeaves}, 1},
				job{"huge_programs_with_%d_nodes", 3, 0, mkShape([]int{-1, 0, 0}), [][]int{blocks, one, hugeLeaves}, 1},
				job{"huge_programs_with_%d_nodes", 3, 1, mkShape([]int{-1, 0, 1}), [][]int{blocks, blocks, hugeLeaves}, 1})
		}

		coreJobs(4, maxNodes) // thorough: the 4-op forests come last, so that a budget stop leaves the extended and directed programs covered

		var orderBase int64
		perSize := map[string]int64{}
		const chunk = 4096
		for _, jb := range jobs {
			rad := jb.rad
			total := int64(1)
			for _, rr := range rad {
				total *= int64(len(rr))
			}
			perSize[fmt.Sprintf(jb.group, jb.n)] += total
			if total == 0 {
				continue
			}
			nChunks := int((total + chunk - 1) / chunk)
			sh, base, fixedLevel, n, si := jb.sh, orderBase, jb.fixedLevel, jb.n, jb.si
			done := c.Parallel(nChunks, func(w, ci int) {
				st := ws[w]
				r := &runner{sh: sh, lab: make([]int, sh.n), h: st.h, fixedLevel: fixedLevel}
				digits := make([]int, sh.n)
				lo := int64(ci) * chunk
				hi := lo + chunk
				if hi > total {
					hi = total
				}
				// mixed radix, last node fastest
				x := lo
				for d := sh.n - 1; d >= 0; d-- {
					digits[d] = int(x % int64(len(rad[d])))
					x /= int64(len(rad[d]))
				}
				for idx := lo; idx < hi; idx++ {
					for d := 0; d < sh.n; d++ {
						r.lab[d] = rad[d][digits[d]]
					}
					fails := r.runProgram()
					st.programs++
					for _, f := range fails {
						st.vio++
						cur, ok := st.best[f.sig]
						if ok {
							cur.Occurrences++
							// cheap pre-test: only a smaller program can replace the witness
							if r.sh.n*1000000 > cur.size {
								continue
							}
						}
						wt := mkWitness(r, f, base+idx)
						if !ok {
							st.best[f.sig] = &wt
						} else if better(&wt, cur) {
							wt.Occurrences = cur.Occurrences
							*cur = wt
						}
					}
					if len(fails) == 0 && si == 0 && idx%977 == 13 && len(st.samples) < 2 && n >= 2 {
						ref, ec, _ := r.reference()
						st.samples = append(st.samples, map[string]any{"program": render(sh, r.lab), "reference_bytes": hexShort(ref), "documented_error": ec})
					}
					for d := sh.n - 1; d >= 0; d-- {
						digits[d]++
						if digits[d] < len(rad[d]) {
							break
						}
						digits[d] = 0
					}
				}
				st.buildOps += r.nBuildOps
				st.reads += r.nReads
				st.oracle += r.nOracle
				st.traces += r.nTraces
			})
			orderBase += total
			if !done {
				c.Incomplete(fmt.Sprintf("budget hit in %s, shape %d %v; the jobs before it were covered completely", fmt.Sprintf(jb.group, jb.n), si, sh.par))
				break
			}
		}

		// merge
		merged := map[string]*witness{}
		var programs, buildOps, reads, oracle, traces int64
		for _, st := range ws {
			programs += st.programs
			buildOps += st.buildOps
			reads += st.reads
			oracle += st.oracle
			traces += st.traces
			for sig, wt := range st.best {
				if cur, ok := merged[sig]; !ok {
					cp := *wt
					merged[sig] = &cp
				} else {
					n := cur.Occurrences + wt.Occurrences
					if better(wt, cur) {
						*cur = *wt
					}
					cur.Occurrences = n
				}
			}
			for _, s := range st.samples {
				c.Sample(s)
			}
		}
		// all workers share distinct Hist objects
		for _, st := range ws {
			c.Merge(st.h)
		}
		sigs := make([]string, 0, len(merged))
		for s := range merged {
			sigs = append(sigs, s)
		}
		sort.Strings(sigs)
		var nviol int64
		for _, s := range sigs {
			c.Violation(s, *merged[s])
			nviol += merged[s].Occurrences
		}
		if nviol > 0 {
			c.Outcome("violation (program x mode)", nviol)
		}
		var nontrivial int64
		for _, st := range ws {
			nontrivial += st.h["roundtrip-ok"]
		}
		c.States.Add(programs)
		c.Distinct.Add(nontrivial)
		c.Transitions.Add(buildOps + reads)
		c.Traces.Add(traces)
		c.Evaluations.Add(oracle)
		historyPhase(c)
		reentrantPhase(c)
		c.Set("alphabet_size", len(alphabet))
		c.Set("core_letters", len(coreAll))
		c.Set("extended_letters", len(extAll))
		c.Set("block_ops", len(allContainers))
		c.Set("max_nodes", maxNodes)
		c.Set("programs_by_size", perSize)
		c.Set("builder_ops_executed", buildOps)
		c.Set("reader_calls_executed", reads)
	})
}
