package main

// Semantic equality of an original value and the value decoded from its JSON.
// Plain Go, written from the meaning of the types (RFC 5280 names, IP networks,
// integers); no zcrypto logic except the accessors needed to read a value.

import (
	"bytes"
	"encoding/json"
	"fmt"
	"math/big"
	"net"
	"reflect"
	"sort"
	"strings"
	"time"

	"github.com/zmap/zcrypto/encoding/asn1"
	"github.com/zmap/zcrypto/tls"
	"github.com/zmap/zcrypto/x509"
	"github.com/zmap/zcrypto/x509/pkix"
	"verifmc/internal/ev"
)

var (
	tBigPtr    = reflect.TypeOf((*big.Int)(nil))
	tIP        = reflect.TypeOf(net.IP(nil))
	tIPNet     = reflect.TypeOf(net.IPNet{})
	tTime      = reflect.TypeOf(time.Time{})
	tName      = reflect.TypeOf(pkix.Name{})
	tOtherName = reflect.TypeOf(pkix.OtherName{})
	tKeyShareP = reflect.TypeOf((*tls.KeyShareExtension)(nil))
	tSubtreeIP = reflect.TypeOf(x509.GeneralSubtreeIP{})
)

// gdiff is the default Diff of a spec: both arguments are pointers to values of the same type.
func gdiff(orig, dec any) string {
	return vdiff(reflect.ValueOf(orig).Elem(), reflect.ValueOf(dec).Elem(), "value")
}

func sub(path, f string) string {
	if path == "" {
		return f
	}
	return path + "." + f
}

func vdiff(a, b reflect.Value, path string) string {
	t := a.Type()
	switch t {
	case tBigPtr:
		x, y := a.Interface().(*big.Int), b.Interface().(*big.Int)
		switch {
		case x == nil && y == nil:
			return ""
		case x == nil:
			return path + ": nil integer decoded as a set integer"
		case y == nil:
			return path + ": set integer decoded as nil"
		case x.Cmp(y) != 0:
			if x.CmpAbs(y) == 0 {
				return path + ": integer sign changed"
			}
			return path + ": integer value changed"
		}
		return ""
	case tIP:
		x, y := a.Interface().(net.IP), b.Interface().(net.IP)
		if len(x) == 0 && len(y) == 0 {
			return ""
		}
		if !x.Equal(y) {
			return path + ": IP address changed"
		}
		return ""
	case tIPNet:
		return ipnetDiff(a.Interface().(net.IPNet), b.Interface().(net.IPNet), path)
	case tTime:
		if !a.Interface().(time.Time).Equal(b.Interface().(time.Time)) {
			return path + ": instant changed"
		}
		return ""
	case tName:
		return nameDiff(a.Interface().(pkix.Name), b.Interface().(pkix.Name), path)
	case tOtherName:
		x, y := a.Interface().(pkix.OtherName), b.Interface().(pkix.OtherName)
		if !x.TypeID.Equal(y.TypeID) {
			return sub(path, "TypeID") + ": OID changed"
		}
		if !bytes.Equal(x.Value.Bytes, y.Value.Bytes) {
			return sub(path, "Value.Bytes") + ": bytes changed"
		}
		return ""
	case tKeyShareP:
		// JSON cannot distinguish an absent extension from one without a group: both are null.
		x, y := a.Interface().(*tls.KeyShareExtension), b.Interface().(*tls.KeyShareExtension)
		xe := x == nil || x.KeyExchange == nil
		ye := y == nil || y.KeyExchange == nil
		if xe || ye {
			if xe != ye {
				return path + ": absent-vs-present"
			}
			return ""
		}
		if *x.KeyExchange != *y.KeyExchange {
			return sub(path, "KeyExchange") + ": value changed"
		}
		return ""
	}
	switch a.Kind() {
	case reflect.Ptr:
		if a.IsNil() || b.IsNil() {
			if a.IsNil() != b.IsNil() {
				if a.IsNil() {
					return path + ": nil pointer decoded as a set value"
				}
				return path + ": set pointer decoded as nil"
			}
			return ""
		}
		return vdiff(a.Elem(), b.Elem(), path)
	case reflect.Interface:
		if a.IsNil() || b.IsNil() {
			if a.IsNil() != b.IsNil() {
				return path + ": nil-vs-set interface"
			}
			return ""
		}
		if !reflect.DeepEqual(a.Interface(), b.Interface()) {
			return path + ": dynamic value changed"
		}
		return ""
	case reflect.Slice:
		if a.Len() != b.Len() { // nil and empty are the same list
			if t.Elem().Kind() == reflect.Uint8 {
				return path + ": bytes changed (length)"
			}
			return path + ": list length changed"
		}
		if t.Elem().Kind() == reflect.Uint8 {
			if !bytes.Equal(a.Bytes(), b.Bytes()) {
				return path + ": bytes changed"
			}
			return ""
		}
		for i := 0; i < a.Len(); i++ {
			if d := vdiff(a.Index(i), b.Index(i), path+"[]"); d != "" {
				return d
			}
		}
		return ""
	case reflect.Array:
		for i := 0; i < a.Len(); i++ {
			if d := vdiff(a.Index(i), b.Index(i), path+"[]"); d != "" {
				return d
			}
		}
		return ""
	case reflect.Struct:
		for i := 0; i < t.NumField(); i++ {
			f := t.Field(i)
			if f.PkgPath != "" && !f.Anonymous {
				continue
			}
			if f.Tag.Get("json") == "-" {
				continue // documented as not serialised
			}
			if !a.Field(i).CanInterface() {
				continue
			}
			if d := vdiff(a.Field(i), b.Field(i), sub(path, f.Name)); d != "" {
				return d
			}
		}
		return ""
	case reflect.Bool:
		if a.Bool() != b.Bool() {
			return path + ": value changed"
		}
	case reflect.Int, reflect.Int8, reflect.Int16, reflect.Int32, reflect.Int64:
		if a.Int() != b.Int() {
			return path + ": value changed"
		}
	case reflect.Uint, reflect.Uint8, reflect.Uint16, reflect.Uint32, reflect.Uint64:
		if a.Uint() != b.Uint() {
			return path + ": value changed"
		}
	case reflect.String:
		if a.String() != b.String() {
			return path + ": string changed"
		}
	default:
		if !reflect.DeepEqual(a.Interface(), b.Interface()) {
			return path + ": value changed"
		}
	}
	return ""
}

// normNet maps an (address, mask) pair to its canonical form: an IPv4 address
// is 4 bytes whatever its in-memory form, and a 16-byte mask whose first 96
// bits are ones over an IPv4 address is the 4-byte mask of its last 32 bits.
func normNet(n net.IPNet) (ip, mask []byte) {
	ip, mask = n.IP, n.Mask
	if v4 := n.IP.To4(); v4 != nil {
		ip = v4
		if len(mask) == 16 && bytes.Equal(mask[:12], bytes.Repeat([]byte{0xff}, 12)) {
			mask = mask[12:]
		}
	}
	return
}

func ipnetDiff(x, y net.IPNet, path string) string {
	xi, xm := normNet(x)
	yi, ym := normNet(y)
	if !bytes.Equal(xi, yi) {
		return sub(path, "IP") + ": address changed"
	}
	if !bytes.Equal(xm, ym) {
		return sub(path, "Mask") + ": mask changed"
	}
	return ""
}

// ---- distinguished names ----------------------------------------------------

// The attribute types the JSON form of a Name has a member for (RFC 5280 /
// X.520 / CABF EV guidelines / ETSI EN 319 412-1), transcribed from the RFCs.
var nameAttrs = []struct {
	key string
	oid []int
}{
	{"common_name", []int{2, 5, 4, 3}},
	{"surname", []int{2, 5, 4, 4}},
	{"serial_number", []int{2, 5, 4, 5}},
	{"country", []int{2, 5, 4, 6}},
	{"locality", []int{2, 5, 4, 7}},
	{"province", []int{2, 5, 4, 8}},
	{"street_address", []int{2, 5, 4, 9}},
	{"organization", []int{2, 5, 4, 10}},
	{"organizational_unit", []int{2, 5, 4, 11}},
	{"postal_code", []int{2, 5, 4, 17}},
	{"given_name", []int{2, 5, 4, 42}},
	{"organization_id", []int{2, 5, 4, 97}},
	{"domain_component", []int{0, 9, 2342, 19200300, 100, 1, 25}},
	{"email_address", []int{1, 2, 840, 113549, 1, 9, 1}},
	{"jurisdiction_locality", []int{1, 3, 6, 1, 4, 1, 311, 60, 2, 1, 1}},
	{"jurisdiction_province", []int{1, 3, 6, 1, 4, 1, 311, 60, 2, 1, 2}},
	{"jurisdiction_country", []int{1, 3, 6, 1, 4, 1, 311, 60, 2, 1, 3}},
}

func attrKey(oid asn1.ObjectIdentifier) string {
	for _, a := range nameAttrs {
		if oid.Equal(asn1.ObjectIdentifier(a.oid)) {
			return a.key
		}
	}
	return ""
}

type attrView map[string][]string

func (v attrView) addATV(atvs []pkix.AttributeTypeAndValue) {
	for _, a := range atvs {
		s, ok := a.Value.(string)
		if !ok {
			continue // non-string values have no JSON member
		}
		if k := attrKey(a.Type); k != "" {
			v[k] = append(v[k], s)
		}
	}
}

// fieldsView reads the attribute lists a Name carries in its typed members.
func fieldsView(n pkix.Name) attrView {
	v := attrView{}
	add := func(k string, l []string) { v[k] = append(v[k], l...) }
	if len(n.CommonNames) > 0 {
		add("common_name", n.CommonNames)
	} else if n.CommonName != "" {
		add("common_name", []string{n.CommonName})
	}
	if len(n.SerialNumbers) > 0 {
		add("serial_number", n.SerialNumbers)
	} else if n.SerialNumber != "" {
		add("serial_number", []string{n.SerialNumber})
	}
	add("surname", n.Surname)
	add("country", n.Country)
	add("locality", n.Locality)
	add("province", n.Province)
	add("street_address", n.StreetAddress)
	add("organization", n.Organization)
	add("organizational_unit", n.OrganizationalUnit)
	add("postal_code", n.PostalCode)
	add("given_name", n.GivenName)
	add("organization_id", n.OrganizationIDs)
	add("domain_component", n.DomainComponent)
	add("email_address", n.EmailAddress)
	add("jurisdiction_locality", n.JurisdictionLocality)
	add("jurisdiction_province", n.JurisdictionProvince)
	add("jurisdiction_country", n.JurisdictionCountry)
	v.addATV(n.ExtraNames)
	return v
}

// truthView is the distinguished name an ORIGINAL value denotes: the RDN
// sequence it was parsed from when there is one (documented: "if OriginalRDNS
// is non-nil, the String and ToRDNSequence methods will simply use this"),
// else its typed members. The harness only builds originals for which the two
// agree, or which have no OriginalRDNS.
func truthView(n pkix.Name) attrView {
	if n.OriginalRDNS != nil {
		v := attrView{}
		for _, rdn := range n.OriginalRDNS {
			v.addATV(rdn)
		}
		return v
	}
	return fieldsView(n)
}

func namesView(n pkix.Name) attrView {
	v := attrView{}
	v.addATV(n.Names)
	return v
}

func sameMultiset(a, b []string) bool {
	if len(a) != len(b) {
		return false
	}
	x := append([]string(nil), a...)
	y := append([]string(nil), b...)
	sort.Strings(x)
	sort.Strings(y)
	for i := range x {
		if x[i] != y[i] {
			return false
		}
	}
	return true
}

// nameDiff: the decoded name must denote the same multiset of (type, value)
// attributes; an attribute counts as present in the decoded value when it is
// in the typed members (incl. ExtraNames) OR in the Names list.
func nameDiff(orig, dec pkix.Name, path string) string {
	truth := truthView(orig)
	f, nv := fieldsView(dec), namesView(dec)
	var lost []string
	for _, a := range nameAttrs {
		want := truth[a.key]
		if sameMultiset(want, f[a.key]) || sameMultiset(want, nv[a.key]) {
			continue
		}
		kind := "changed"
		if len(f[a.key]) == 0 && len(nv[a.key]) == 0 {
			kind = "lost"
		} else if len(want) == 0 {
			kind = "appeared"
		}
		lost = append(lost, a.key+" "+kind)
	}
	if len(lost) == 0 {
		return ""
	}
	// signature part: the first attribute type only (one signature per lost type); all of them in the detail
	return sub(path, "attributes") + ": " + lost[0] + " || all: " + strings.Join(lost, ", ")
}

// ---- null in context --------------------------------------------------------

// nullInContext re-tries a value whose encoding is the document "null" as a
// pointer member of a struct (`json:"f,omitempty"`), which is how zcrypto
// embeds such types. Returns "" when that round trip works (member decodes to
// nil, i.e. "absent").
func nullInContext(s *spec, k kase) (note string) {
	pt := reflect.TypeOf(k.Val) // *T
	st := reflect.StructOf([]reflect.StructField{{Name: "F", Type: pt, Tag: `json:"f,omitempty"`}})
	w := reflect.New(st)
	w.Elem().Field(0).Set(reflect.ValueOf(k.Val))
	var enc []byte
	var err error
	if p, msg, _ := ev.Try(func() { enc, err = json.Marshal(w.Interface()) }); p {
		return "panic: " + msg
	}
	if err != nil {
		return "encode error: " + err.Error()
	}
	d := reflect.New(st)
	if p, msg, _ := ev.Try(func() { err = json.Unmarshal(enc, d.Interface()) }); p {
		return "panic: " + msg
	}
	if err != nil {
		return "decode error: " + err.Error()
	}
	if !d.Elem().Field(0).IsNil() {
		return fmt.Sprintf("member decoded to a non-nil value from %s", enc)
	}
	return ""
}
