package main

// Certificate Transparency value types (both copies: ct and x509/ct).

import (
	"fmt"

	zct "github.com/zmap/zcrypto/ct"
	xct "github.com/zmap/zcrypto/x509/ct"
)

const oodSigLen = "signature longer than 2^16-1 bytes: not a TLS DigitallySigned value (opaque signature<0..2^16-1>)"

func dsLens(tier string) (all []int, few []int) {
	all = []int{0, 1, 72}
	if tier == "thorough" {
		all = []int{0, 1, 2, 3, 72, 256}
	}
	few = []int{255, 256, 257, 65535, 65536, 65537, 131072}
	return
}

func ctSpecs(tier string) []*spec {
	var out []*spec
	all, few := dsLens(tier)
	nAll := 0x10000 * len(all)
	n := nAll + len(few)
	pick := func(i int) (h, s byte, l int) {
		if i < nAll {
			return byte((i % 0x10000) >> 8), byte(i), all[i/0x10000]
		}
		return 4, 3, few[i-nAll]
	}
	desc := func(i int) (string, string) {
		h, s, l := pick(i)
		ood := ""
		if l > 65535 {
			ood = oodSigLen
		}
		return fmt.Sprintf("hash=%d sig=%d len(signature)=%d", h, s, l), ood
	}
	space := fmt.Sprintf("all 2^16 (hash, signature algorithm) pairs × signature lengths %v, plus (4,3) × lengths %v", all, few)
	out = append(out, &spec{Name: "ct.DigitallySigned", Scope: "statement", N: n,
		Case: func(i int) kase {
			h, s, l := pick(i)
			d, ood := desc(i)
			return kase{Desc: d, OOD: ood, Val: &zct.DigitallySigned{HashAlgorithm: zct.HashAlgorithm(h), SignatureAlgorithm: zct.SignatureAlgorithm(s), Signature: patBytes(l)}}
		},
		Fresh: func() any { return new(zct.DigitallySigned) }, Diff: gdiff,
		Canon: func() any {
			return &zct.DigitallySigned{HashAlgorithm: zct.SHA256, SignatureAlgorithm: zct.ECDSA, Signature: patBytes(71)}
		},
		Space: space})
	out = append(out, &spec{Name: "x509/ct.DigitallySigned", Scope: "statement", N: n,
		Case: func(i int) kase {
			h, s, l := pick(i)
			d, ood := desc(i)
			return kase{Desc: d, OOD: ood, Val: &xct.DigitallySigned{HashAlgorithm: xct.HashAlgorithm(h), SignatureAlgorithm: xct.SignatureAlgorithm(s), Signature: patBytes(l)}}
		},
		Fresh: func() any { return new(xct.DigitallySigned) }, Diff: gdiff,
		Canon: func() any {
			return &xct.DigitallySigned{HashAlgorithm: xct.SHA256, SignatureAlgorithm: xct.ECDSA, Signature: patBytes(71)}
		},
		Space: space})

	// SHA256Hash: zero, all-ones, a pattern, and every single byte position set to 0x01 / 0x80 / 0xff
	hashOf := func(i int) (v [32]byte, d string) {
		switch {
		case i == 0:
			return v, "all zero"
		case i == 1:
			for j := range v {
				v[j] = 0xff
			}
			return v, "all 0xff"
		case i == 2:
			copy(v[:], patBytes(32))
			return v, "pattern"
		}
		i -= 3
		b := []byte{0x01, 0x80, 0xff, 0x3e, 0x3f}[i%5]
		v[i/5] = b
		return v, fmt.Sprintf("byte %d = 0x%02x", i/5, b)
	}
	nh := 3 + 32*5
	out = append(out, &spec{Name: "ct.SHA256Hash", Scope: "statement", N: nh,
		Case:  func(i int) kase { v, d := hashOf(i); h := zct.SHA256Hash(v); return kase{Desc: d, Val: &h} },
		Fresh: func() any { return new(zct.SHA256Hash) }, Diff: gdiff,
		Canon: func() any { v, _ := hashOf(2); h := zct.SHA256Hash(v); return &h },
		Space: "zero, all-ones, pattern, every byte position × {01,80,ff,3e,3f}"})
	out = append(out, &spec{Name: "x509/ct.SHA256Hash", Scope: "statement", N: nh,
		Case:  func(i int) kase { v, d := hashOf(i); h := xct.SHA256Hash(v); return kase{Desc: d, Val: &h} },
		Fresh: func() any { return new(xct.SHA256Hash) }, Diff: gdiff,
		Canon: func() any { v, _ := hashOf(2); h := xct.SHA256Hash(v); return &h },
		Space: "zero, all-ones, pattern, every byte position × {01,80,ff,3e,3f}"})
	return out
}
