package main

// x509 / pkix value types: general names, name constraints, subtrees, names,
// extensions, fingerprints, validity.

import (
	"bytes"
	"fmt"
	"net"
	"time"

	"github.com/zmap/zcrypto/encoding/asn1"
	"github.com/zmap/zcrypto/x509"
	"github.com/zmap/zcrypto/x509/pkix"
)

const (
	oodUTF8   = "non-UTF-8 string: a JSON string cannot carry arbitrary bytes (encoding/json substitutes U+FFFD)"
	oodMinMax = "subtree Min/Max ≠ 0: RFC 5280 4.2.1.10 requires minimum 0 and maximum absent; the JSON form has no member for them"
	oodOID    = "empty OID: not an OBJECT IDENTIFIER value"
	oodIPLen  = "IP address of 5 bytes: not an iPAddress GeneralName (RFC 5280 4.2.1.6: exactly 4 or 16 octets); the certificate parser refuses it (\"certificate contained IP address of length\") and net.IP.MarshalText documents the error"
)

var strFlavours = []string{"ascii", "empty string", "unicode+escapes", "invalid UTF-8"}

// flavoured rewrites a base string according to the flavour alternative.
func flavoured(base string, fl int) string {
	switch fl {
	case 1:
		return ""
	case 2:
		return base + " ü <&>\"\\\t\x00é"
	case 3:
		return base + "\xff\xfe"
	}
	return base
}

func strList(n, fl int, a, b string) []string {
	switch n {
	case 1:
		return []string{flavoured(a, fl)}
	case 2:
		return []string{flavoured(a, fl), b}
	}
	return nil
}

func atv(oid []int, v any) pkix.AttributeTypeAndValue {
	return pkix.AttributeTypeAndValue{Type: asn1.ObjectIdentifier(oid), Value: v}
}

// cleanName builds the Name a certificate parser would produce for
// C=US, O=<o>, CN=<cn> (no attribute that needs special treatment).
func cleanName(o, cn string) pkix.Name {
	rdns := pkix.RDNSequence{
		{atv([]int{2, 5, 4, 6}, "US")},
		{atv([]int{2, 5, 4, 10}, o)},
		{atv([]int{2, 5, 4, 3}, cn)},
	}
	var n pkix.Name
	n.FillFromRDNSequence(&rdns)
	return n
}

func nameList(n int) []pkix.Name {
	switch n {
	case 1:
		return []pkix.Name{cleanName("Org A", "name a")}
	case 2:
		return []pkix.Name{cleanName("Org A", "name a"), cleanName("Org B", "name b")}
	}
	return nil
}

func ediList(n int) []pkix.EDIPartyName {
	switch n {
	case 1:
		return []pkix.EDIPartyName{{NameAssigner: "assigner", PartyName: "party"}}
	case 2:
		return []pkix.EDIPartyName{{NameAssigner: "assigner", PartyName: "party"}, {PartyName: "only party"}}
	}
	return nil
}

func otherName(oid []int, val []byte) pkix.OtherName {
	return pkix.OtherName{TypeID: asn1.ObjectIdentifier(oid), Value: asn1.RawValue{Class: asn1.ClassContextSpecific, Tag: 0, IsCompound: true, Bytes: val}}
}

var derUTF8 = []byte{0x0c, 0x09, 'u', '@', 'e', 'x', 'a', 'm', 'p', 'l', 'e'}

func otherList(n int) []pkix.OtherName {
	a := otherName([]int{1, 3, 6, 1, 4, 1, 311, 20, 2, 3}, derUTF8)
	b := otherName([]int{1, 3, 6, 1, 5, 5, 7, 8, 5}, []byte{0x0c, 0x01, 'x'})
	switch n {
	case 1:
		return []pkix.OtherName{a}
	case 2:
		return []pkix.OtherName{a, b}
	}
	return nil
}

var oidFlavours = []string{"small arcs", "arc 2^31-1", "joint-iso 2.999", "empty OID"}

func oidList(n, fl int) []asn1.ObjectIdentifier {
	first := asn1.ObjectIdentifier{1, 2, 3, 4}
	switch fl {
	case 1:
		first = asn1.ObjectIdentifier{1, 2, 2147483647, 0}
	case 2:
		first = asn1.ObjectIdentifier{2, 999, 3}
	case 3:
		first = asn1.ObjectIdentifier{}
	}
	switch n {
	case 1:
		return []asn1.ObjectIdentifier{first}
	case 2:
		return []asn1.ObjectIdentifier{first, {2, 5, 29, 17}}
	}
	return nil
}

var ipFlavours = []string{"4-byte IPv4 + IPv6", "IPv4 in 16-byte form", "zero-length IP", "5-byte IP"}

func ipList(n, fl int) []net.IP {
	first := net.IP{192, 0, 2, 1}
	switch fl {
	case 1:
		first = net.IPv4(192, 0, 2, 1)
	case 2:
		first = net.IP{}
	case 3:
		first = net.IP{1, 2, 3, 4, 5}
	}
	switch n {
	case 1:
		return []net.IP{first}
	case 2:
		return []net.IP{first, net.ParseIP("2001:db8::1")}
	}
	return nil
}

func cidr(s string) net.IPNet {
	_, n, err := net.ParseCIDR(s)
	if err != nil {
		panic(err)
	}
	return *n
}

func subtreeIPList(n, mm int) []x509.GeneralSubtreeIP {
	a := x509.GeneralSubtreeIP{Data: cidr("10.0.0.0/8"), Min: mm, Max: mm}
	b := x509.GeneralSubtreeIP{Data: cidr("2001:db8::/32")}
	switch n {
	case 1:
		return []x509.GeneralSubtreeIP{a}
	case 2:
		return []x509.GeneralSubtreeIP{a, b}
	}
	return nil
}

func x509Specs(tier string) []*spec {
	var out []*spec
	cnt := []string{"empty", "1 element", "2 elements"}

	// ---- GeneralNames --------------------------------------------------------
	{
		fs := []fieldSpec{{"DirectoryNames", cnt}, {"DNSNames", cnt}, {"EDIPartyNames", cnt}, {"EmailAddresses", cnt}, {"IPAddresses", cnt},
			{"OtherNames", cnt}, {"RegisteredIDs", cnt}, {"URIs", cnt},
			{"string flavour", strFlavours}, {"IP flavour", ipFlavours}, {"OID flavour", oidFlavours}, {"list form", []string{"nil lists", "empty non-nil lists"}}}
		build := func(a []int) (any, string) {
			g := &x509.GeneralNames{
				DirectoryNames: nameList(a[0]), DNSNames: strList(a[1], a[8], "a.example", "*.b.example"), EDIPartyNames: ediList(a[2]),
				EmailAddresses: strList(a[3], a[8], "user@example.com", "other@example.org"), IPAddresses: ipList(a[4], a[9]),
				OtherNames: otherList(a[5]), RegisteredIDs: oidList(a[6], a[10]), URIs: strList(a[7], a[8], "https://example.com/a?b=c", "urn:x:y"),
			}
			if a[11] == 1 {
				if g.DNSNames == nil {
					g.DNSNames = []string{}
				}
				if g.IPAddresses == nil {
					g.IPAddresses = []net.IP{}
				}
				if g.RegisteredIDs == nil {
					g.RegisteredIDs = []asn1.ObjectIdentifier{}
				}
				if g.DirectoryNames == nil {
					g.DirectoryNames = []pkix.Name{}
				}
			}
			ood := ""
			if a[8] == 3 && (a[1] > 0 || a[3] > 0 || a[7] > 0) {
				ood = oodUTF8
			}
			if a[10] == 3 && a[6] > 0 {
				ood = oodOID
			}
			if a[9] == 3 && a[4] > 0 {
				ood = oodIPLen
			}
			return g, ood
		}
		out = append(out, fieldsSpec("x509.GeneralNames", "statement", tier, fs, false, build,
			func() any { return new(x509.GeneralNames) }, nil, []int{1, 2, 2, 1, 2, 2, 2, 1, 0, 0, 0, 0}))
	}

	// ---- NameConstraints -----------------------------------------------------
	{
		fs := []fieldSpec{{"Critical", []string{"false", "true"}},
			{"PermittedDNSNames", cnt}, {"PermittedEmailAddresses", cnt}, {"PermittedURIs", cnt}, {"PermittedIPAddresses", cnt},
			{"PermittedDirectoryNames", cnt}, {"PermittedEdiPartyNames", cnt}, {"PermittedRegisteredIDs", cnt},
			{"ExcludedEmailAddresses", cnt}, {"ExcludedDNSNames", cnt}, {"ExcludedURIs", cnt}, {"ExcludedIPAddresses", cnt},
			{"ExcludedDirectoryNames", cnt}, {"ExcludedEdiPartyNames", cnt}, {"ExcludedRegisteredIDs", cnt},
			{"string flavour", strFlavours[:3]}, {"subtree Min/Max", []string{"0", "1"}}}
		ss := func(n, fl, mm int, a, b string) []x509.GeneralSubtreeString {
			var l []x509.GeneralSubtreeString
			for i, s := range strList(n, fl, a, b) {
				g := x509.GeneralSubtreeString{Data: s}
				if i == 0 {
					g.Min, g.Max = mm, mm
				}
				l = append(l, g)
			}
			return l
		}
		sn := func(n, mm int) []x509.GeneralSubtreeName {
			var l []x509.GeneralSubtreeName
			for _, x := range nameList(n) {
				l = append(l, x509.GeneralSubtreeName{Data: x, Min: mm})
			}
			return l
		}
		se := func(n, mm int) []x509.GeneralSubtreeEdi {
			var l []x509.GeneralSubtreeEdi
			for _, x := range ediList(n) {
				l = append(l, x509.GeneralSubtreeEdi{Data: x, Max: mm})
			}
			return l
		}
		so := func(n, mm int) []x509.GeneralSubtreeOid {
			var l []x509.GeneralSubtreeOid
			for _, x := range oidList(n, 0) {
				l = append(l, x509.GeneralSubtreeOid{Data: x, Min: mm})
			}
			return l
		}
		build := func(a []int) (any, string) {
			fl, mm := a[15], a[16]
			nc := &x509.NameConstraints{
				Critical:                a[0] == 1,
				PermittedDNSNames:       ss(a[1], fl, mm, ".example.com", "sub.example.org"),
				PermittedEmailAddresses: ss(a[2], fl, mm, "example.com", "user@example.org"),
				PermittedURIs:           ss(a[3], fl, mm, ".example.com", "host.example.net"),
				PermittedIPAddresses:    subtreeIPList(a[4], mm),
				PermittedDirectoryNames: sn(a[5], mm),
				PermittedEdiPartyNames:  se(a[6], mm),
				PermittedRegisteredIDs:  so(a[7], mm),
				ExcludedEmailAddresses:  ss(a[8], fl, mm, "bad.example", "x@bad.example"),
				ExcludedDNSNames:        ss(a[9], fl, mm, "bad.example", ".worse.example"),
				ExcludedURIs:            ss(a[10], fl, mm, "bad.example", ".worse.example"),
				ExcludedIPAddresses:     subtreeIPList(a[11], mm),
				ExcludedDirectoryNames:  sn(a[12], mm),
				ExcludedEdiPartyNames:   se(a[13], mm),
				ExcludedRegisteredIDs:   so(a[14], mm),
			}
			ood := ""
			if mm != 0 {
				any := false
				for i := 1; i <= 14; i++ {
					any = any || a[i] > 0
				}
				if any {
					ood = oodMinMax
				}
			}
			return nc, ood
		}
		out = append(out, fieldsSpec("x509.NameConstraints", "statement", tier, fs, false, build,
			func() any { return new(x509.NameConstraints) }, nil, []int{1, 2, 1, 1, 2, 1, 2, 2, 1, 2, 1, 2, 1, 2, 2, 0, 0}))
	}

	out = append(out, subtreeIPSpec(tier))

	// ---- pkix.Extension ------------------------------------------------------
	oidAlts := []string{"2.5.29.17", "1.2.840.113549.1.1.11", "2.999.1", "1.3.2147483647", "0.0", "empty"}
	oidVals := []asn1.ObjectIdentifier{{2, 5, 29, 17}, {1, 2, 840, 113549, 1, 1, 11}, {2, 999, 1}, {1, 3, 2147483647}, {0, 0}, {}}
	{
		vs := []string{"3 bytes", "nil", "empty", "300 bytes"}
		fs := []fieldSpec{{"Id", oidAlts}, {"Critical", []string{"false", "true"}}, {"Value", vs}}
		out = append(out, fieldsSpec("pkix.Extension", "statement", tier, fs, true, func(a []int) (any, string) {
			ood := ""
			if a[0] == 5 {
				ood = oodOID
			}
			return &pkix.Extension{Id: oidVals[a[0]], Critical: a[1] == 1, Value: bytesOf(vs[a[2]])}, ood
		}, func() any { return new(pkix.Extension) }, nil, []int{0, 1, 0}))
	}

	// ---- pkix.OtherName ------------------------------------------------------
	{
		vs := []string{"DER UTF8String", "nil", "empty", "300 bytes"}
		fs := []fieldSpec{{"TypeID", oidAlts}, {"Value.Bytes", vs}, {"construction", []string{"literal [0] constructed", "parsed from DER by encoding/asn1 (tag:0)"}}}
		out = append(out, fieldsSpec("pkix.OtherName", "statement", tier, fs, true, func(a []int) (any, string) {
			ood := ""
			if a[0] == 5 {
				ood = oodOID
			}
			val := derUTF8
			if a[1] != 0 {
				val = bytesOf(vs[a[1]])
			}
			o := otherName(oidVals[a[0]], val)
			if a[2] == 1 && a[0] != 5 && a[0] != 3 {
				// the route the certificate parser takes: OtherName ::= [0] SEQUENCE-like { type-id, [0] EXPLICIT value }
				der, err := asn1.MarshalWithParams(o, "tag:0")
				if err == nil {
					var p pkix.OtherName
					if _, err := asn1.UnmarshalWithParams(der, &p, "tag:0"); err == nil {
						o = p
					}
				}
			}
			return &o, ood
		}, func() any { return new(pkix.OtherName) }, nil, []int{0, 0, 0}))
	}

	// ---- pkix.EDIPartyName ---------------------------------------------------
	{
		as := []string{"", "assigner", "unicode ü <&>"}
		ps := []string{"party", "", "unicode ü <&>"}
		fs := []fieldSpec{{"NameAssigner", []string{"empty", "ascii", "unicode+escapes"}}, {"PartyName", []string{"ascii", "empty", "unicode+escapes"}}}
		out = append(out, fieldsSpec("pkix.EDIPartyName", "statement", tier, fs, true, func(a []int) (any, string) {
			return &pkix.EDIPartyName{NameAssigner: as[a[0]], PartyName: ps[a[1]]}, ""
		}, func() any { return new(pkix.EDIPartyName) }, nil, []int{1, 0}))
	}

	// ---- pkix.AttributeTypeAndValue -------------------------------------------
	{
		vals := []any{"value", "", "ü <&>\"", 5, []byte{1, 2}, nil}
		fs := []fieldSpec{{"Type", oidAlts}, {"Value", []string{"string", "empty string", "unicode+escapes", "int (non-string)", "[]byte (non-string)", "nil"}}}
		out = append(out, fieldsSpec("pkix.AttributeTypeAndValue", "statement", tier, fs, true, func(a []int) (any, string) {
			ood := ""
			if a[1] >= 3 {
				ood = "non-string attribute value: the JSON form carries string values only (MarshalJSON documents the type switch)"
			}
			return &pkix.AttributeTypeAndValue{Type: oidVals[a[0]], Value: vals[a[1]]}, ood
		}, func() any { return new(pkix.AttributeTypeAndValue) }, nil, []int{0, 0}))
	}

	// ---- pkix.AuxOID ---------------------------------------------------------
	{
		vals := []pkix.AuxOID{{2, 5, 4, 3}, {1, 2, 840, 113549, 1, 1, 11}, {0}, {2, 999}, {1, 2, 2147483647}, {}, nil, {1, -2}}
		labels := []string{"2.5.4.3", "1.2.840.113549.1.1.11", "0", "2.999", "1.2.2147483647", "empty", "nil", "1.-2"}
		fs := []fieldSpec{{"arcs", labels}}
		out = append(out, fieldsSpec("pkix.AuxOID", "statement", tier, fs, true, func(a []int) (any, string) {
			v := append(pkix.AuxOID(nil), vals[a[0]]...)
			ood := ""
			if a[0] == 5 || a[0] == 6 {
				ood = oodOID
			}
			if a[0] == 7 {
				ood = "negative arc: not an OBJECT IDENTIFIER value"
			}
			return &v, ood
		}, func() any { return new(pkix.AuxOID) }, nil, []int{1}))
	}

	// ---- fingerprints / key identifiers ---------------------------------------
	{
		n := 65 + 256
		mk := func(i int) []byte {
			if i < 65 {
				return patBytes(i)
			}
			return []byte{byte(i - 65)}
		}
		desc := func(i int) string {
			if i < 65 {
				return fmt.Sprintf("%d pattern bytes", i)
			}
			return fmt.Sprintf("single byte 0x%02x", i-65)
		}
		out = append(out, &spec{Name: "x509.CertificateFingerprint", Scope: "statement", N: n,
			Case:  func(i int) kase { v := x509.CertificateFingerprint(mk(i)); return kase{Desc: desc(i), Val: &v} },
			Fresh: func() any { return new(x509.CertificateFingerprint) }, Diff: gdiff,
			Canon: func() any { v := x509.CertificateFingerprint(patBytes(32)); return &v },
			Space: "byte strings of every length 0..64 (fixed pattern) + all 256 one-byte strings"})
		out = append(out, &spec{Name: "x509.SubjAuthKeyId", Scope: "design", N: n,
			Case:  func(i int) kase { v := x509.SubjAuthKeyId(mk(i)); return kase{Desc: desc(i), Val: &v} },
			Fresh: func() any { return new(x509.SubjAuthKeyId) }, Diff: gdiff,
			Canon: func() any { v := x509.SubjAuthKeyId(patBytes(20)); return &v },
			Space: "byte strings of every length 0..64 (fixed pattern) + all 256 one-byte strings"})
	}

	// ---- validity (unexported; through the in-package accessor) ----------------
	{
		t0 := time.Date(2024, 2, 29, 12, 34, 56, 0, time.UTC)
		type tv struct {
			label string
			t     time.Time
			ood   string
		}
		const oodRange = "year outside 0001..9999: RFC 3339 (the JSON form) cannot express it; MarshalJSON clamps"
		ts := []tv{
			{"2024-02-29T12:34:56Z", t0, ""},
			{"+1s", t0.Add(time.Second), ""},
			{"1950-01-01", time.Date(1950, 1, 1, 0, 0, 0, 0, time.UTC), ""},
			{"2049-12-31T23:59:59", time.Date(2049, 12, 31, 23, 59, 59, 0, time.UTC), ""},
			{"0001-01-01 (minimum)", time.Date(1, 1, 1, 0, 0, 0, 0, time.UTC), ""},
			{"9999-12-31T23:59:59 (maximum)", time.Date(9999, 12, 31, 23, 59, 59, 0, time.UTC), ""},
			{"same instant in zone +02:00", t0.In(time.FixedZone("x", 7200)), ""},
			{"zero time.Time", time.Time{}, ""},
			{"year 10000", time.Date(10000, 1, 1, 0, 0, 0, 0, time.UTC), oodRange},
			{"year 0", time.Date(0, 6, 1, 0, 0, 0, 0, time.UTC), oodRange},
			{"sub-second (+500ms)", t0.Add(500 * time.Millisecond), "sub-second time: X.509 Time has a resolution of one second"},
		}
		labels := make([]string, len(ts))
		for i, t := range ts {
			labels[i] = t.label
		}
		fs := []fieldSpec{{"NotBefore", labels}, {"NotAfter", labels}}
		out = append(out, fieldsSpec("x509.validity", "design", tier, fs, true, func(a []int) (any, string) {
			ood := ts[a[0]].ood
			if ood == "" {
				ood = ts[a[1]].ood
			}
			return &validityBox{NotBefore: ts[a[0]].t, NotAfter: ts[a[1]].t}, ood
		}, func() any { return new(validityBox) }, nil, []int{0, 1}))
	}

	// ---- ExtendedKeyUsageExtension (adjacent: not in the statement's list) ------
	{
		fs := []fieldSpec{{"Known", []string{"empty", "[ServerAuth]", "[ServerAuth ClientAuth]"}}, {"Unknown", []string{"empty", "[1.2.3.4]"}}}
		s := fieldsSpec("x509.ExtendedKeyUsageExtension", "adjacent", tier, fs, true, func(a []int) (any, string) {
			e := &x509.ExtendedKeyUsageExtension{}
			if a[0] >= 1 {
				e.Known = append(e.Known, x509.ExtKeyUsageServerAuth)
			}
			if a[0] >= 2 {
				e.Known = append(e.Known, x509.ExtKeyUsageClientAuth)
			}
			if a[1] == 1 {
				e.Unknown = []asn1.ObjectIdentifier{{1, 2, 3, 4}}
			}
			return e, ""
		}, func() any { return new(x509.ExtendedKeyUsageExtension) }, nil, []int{2, 1})
		s.InfoOnly = true
		out = append(out, s)
	}
	return out
}

// validityBox gives the unexported x509.validity type a face in this package.
type validityBox struct{ NotBefore, NotAfter time.Time }

func (v *validityBox) MarshalJSON() ([]byte, error) {
	return x509.VerifC33ValidityMarshal(v.NotBefore, v.NotAfter)
}
func (v *validityBox) UnmarshalJSON(b []byte) error {
	nb, na, err := x509.VerifC33ValidityUnmarshal(b)
	v.NotBefore, v.NotAfter = nb, na
	return err
}

// ---- GeneralSubtreeIP: explicit case list ---------------------------------------

type ipCase struct {
	desc string
	v    x509.GeneralSubtreeIP
	ood  string
}

func subtreeIPSpec(tier string) *spec {
	var cases []ipCase
	v4 := []net.IP{{0, 0, 0, 0}, {10, 1, 2, 3}, {255, 255, 255, 255}}
	v6 := []net.IP{net.ParseIP("::"), net.ParseIP("2001:db8:1:2:3:4:5:6"), bytes.Repeat([]byte{0xff}, 16), net.ParseIP("fe80::1")}
	if tier == "thorough" {
		v4 = append(v4, net.IP{192, 168, 0, 1}, net.IP{127, 0, 0, 1}, net.IP{224, 0, 0, 251}, net.IP{1, 0, 0, 0})
		v6 = append(v6, net.ParseIP("::1"), net.ParseIP("2002::"), net.ParseIP("ff02::fb"), net.ParseIP("64:ff9b::c000:201"))
	}
	// every prefix length, host bits set or not (a certificate carries address and mask verbatim)
	for _, ip := range v4 {
		for ones := 0; ones <= 32; ones++ {
			cases = append(cases, ipCase{fmt.Sprintf("IPv4 %s mask /%d", ip, ones), x509.GeneralSubtreeIP{Data: net.IPNet{IP: append(net.IP(nil), ip...), Mask: net.CIDRMask(ones, 32)}}, ""})
		}
	}
	for _, ip := range v6 {
		for ones := 0; ones <= 128; ones++ {
			cases = append(cases, ipCase{fmt.Sprintf("IPv6 %s mask /%d", ip, ones), x509.GeneralSubtreeIP{Data: net.IPNet{IP: append(net.IP(nil), ip...), Mask: net.CIDRMask(ones, 128)}}, ""})
		}
	}
	// masks that are not a prefix (the certificate parser stores any 4+4 / 16+16 bytes)
	for _, m := range []net.IPMask{{255, 0, 255, 0}, {0, 255, 255, 255}, {255, 255, 255, 1}, {0, 0, 0, 1}} {
		for _, ip := range v4[:2] {
			cases = append(cases, ipCase{fmt.Sprintf("IPv4 %s non-contiguous mask %s", ip, net.IP(m)), x509.GeneralSubtreeIP{Data: net.IPNet{IP: append(net.IP(nil), ip...), Mask: m}}, ""})
		}
	}
	nc6 := append(bytes.Repeat([]byte{0xff}, 7), append([]byte{0}, bytes.Repeat([]byte{0xff}, 8)...)...)
	cases = append(cases, ipCase{"IPv6 2001:db8:1:2:3:4:5:6 non-contiguous mask ffff:ffff:ffff:ff00:ffff:ffff:ffff:ffff", x509.GeneralSubtreeIP{Data: net.IPNet{IP: v6[1], Mask: nc6}}, ""})
	// exotic in-memory forms
	const oodForm = "address/mask length mismatch or nil: not a value the certificate parser produces (it stores 4+4 or 16+16 bytes)"
	cases = append(cases,
		ipCase{"IPv4 in 16-byte form with 16-byte /120 mask", x509.GeneralSubtreeIP{Data: net.IPNet{IP: net.IPv4(10, 1, 2, 3), Mask: net.CIDRMask(120, 128)}}, "IPv4-mapped IPv6 address: exotic form"},
		ipCase{"IPv4 in 16-byte form with 16-byte /64 mask", x509.GeneralSubtreeIP{Data: net.IPNet{IP: net.IPv4(10, 1, 2, 3), Mask: net.CIDRMask(64, 128)}}, "IPv4-mapped IPv6 address: exotic form"},
		ipCase{"IPv4 in 16-byte form with 4-byte /8 mask", x509.GeneralSubtreeIP{Data: net.IPNet{IP: net.IPv4(10, 1, 2, 3), Mask: net.CIDRMask(8, 32)}}, oodForm},
		ipCase{"4-byte IP with 16-byte mask", x509.GeneralSubtreeIP{Data: net.IPNet{IP: net.IP{10, 1, 2, 3}, Mask: net.CIDRMask(8, 128)}}, oodForm},
		ipCase{"16-byte IP with 4-byte mask", x509.GeneralSubtreeIP{Data: net.IPNet{IP: v6[1], Mask: net.CIDRMask(8, 32)}}, oodForm},
		ipCase{"zero value (nil IP, nil mask)", x509.GeneralSubtreeIP{}, oodForm},
		ipCase{"nil mask", x509.GeneralSubtreeIP{Data: net.IPNet{IP: net.IP{10, 1, 2, 3}}}, oodForm},
		ipCase{"nil IP", x509.GeneralSubtreeIP{Data: net.IPNet{Mask: net.CIDRMask(8, 32)}}, oodForm},
		ipCase{"5-byte IP and mask", x509.GeneralSubtreeIP{Data: net.IPNet{IP: net.IP{1, 2, 3, 4, 5}, Mask: net.IPMask{255, 255, 255, 255, 0}}}, oodForm},
		ipCase{"10.0.0.0/8 Min=1", x509.GeneralSubtreeIP{Data: cidr("10.0.0.0/8"), Min: 1}, oodMinMax},
		ipCase{"10.0.0.0/8 Max=1", x509.GeneralSubtreeIP{Data: cidr("10.0.0.0/8"), Max: 1}, oodMinMax},
	)
	return &spec{
		Name: "x509.GeneralSubtreeIP", Scope: "statement", N: len(cases),
		Case: func(i int) kase {
			v := cases[i].v
			v.Data.IP = append(net.IP(nil), v.Data.IP...)
			v.Data.Mask = append(net.IPMask(nil), v.Data.Mask...)
			if cases[i].v.Data.IP == nil {
				v.Data.IP = nil
			}
			if cases[i].v.Data.Mask == nil {
				v.Data.Mask = nil
			}
			return kase{Desc: cases[i].desc, Val: &v, OOD: cases[i].ood}
		},
		Fresh: func() any { return new(x509.GeneralSubtreeIP) }, Diff: gdiff,
		Canon: func() any { return &x509.GeneralSubtreeIP{Data: cidr("10.0.0.0/8")} },
		Space: fmt.Sprintf("%d IPv4 addresses × every mask length 0..32, %d IPv6 addresses × every mask length 0..128, 9 non-contiguous masks, 9 malformed in-memory forms, Min/Max=1 (%d cases)", len(v4), len(v6), len(cases)),
	}
}
