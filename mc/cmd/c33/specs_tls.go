package main

// Composite TLS handshake-log types (default struct encoding): they are the
// context in which zcrypto itself serialises the enumerated and key-parameter
// types (non-pointer members, slices, omitempty pointers).

import (
	jsonKeys "github.com/zmap/zcrypto/json"
	"github.com/zmap/zcrypto/tls"
)

func dhOf(label string) *jsonKeys.DHParams {
	switch label {
	case "nil":
		return nil
	case "server DH":
		return &jsonKeys.DHParams{Prime: bigOf("2^2048+1"), Generator: bigOf("2"), ServerPublic: bigOf("256-bit")}
	case "client DH + private":
		return &jsonKeys.DHParams{Prime: bigOf("2^2048+1"), Generator: bigOf("2"), ClientPublic: bigOf("256-bit"), ClientPrivate: bigOf("1")}
	}
	panic(label)
}

func ecdhOf(label string) *jsonKeys.ECDHParams {
	switch label {
	case "nil":
		return nil
	case "P-256 server share":
		return &jsonKeys.ECDHParams{TLSCurveID: 23, ServerPublic: pointOf("P-256 point (X,Y)"), ServerPrivate: mkPriv("set")}
	case "x25519 server share (Y=nil)":
		return &jsonKeys.ECDHParams{TLSCurveID: 29, ServerPublic: pointOf("x25519 point (X only, Y=nil)")}
	case "P-256 client share":
		return &jsonKeys.ECDHParams{TLSCurveID: 23, ClientPublic: pointOf("P-256 point (X,Y)")}
	}
	panic(label)
}

func sigOf(label string) *tls.DigitalSignature {
	switch label {
	case "nil":
		return nil
	case "TLS1.2 rsa/sha256":
		return &tls.DigitalSignature{Raw: patBytes(64), Type: "rsa", Valid: true, SigHashExtension: &tls.SignatureAndHash{Signature: 1, Hash: 4}, Version: 0x0303}
	case "TLS1.0 (no sig-hash)":
		return &tls.DigitalSignature{Raw: patBytes(64), Type: "ecdsa", Version: 0x0301}
	}
	panic(label)
}

func tlsSpecs(tier string) []*spec {
	var out []*spec

	// ---- DigitalSignature ----------------------------------------------------
	{
		raws := []string{"32 bytes", "nil", "empty"}
		types := []string{"rsa", "", "unknown.7"}
		shs := []*tls.SignatureAndHash{{Signature: 1, Hash: 4}, nil, {Signature: 2, Hash: 99}, {Signature: 227, Hash: 8}}
		vers := []tls.TLSVersion{0x0303, 0x0300, 0x0304, 0x1234, 0}
		fs := []fieldSpec{{"Raw", raws}, {"Type", []string{"rsa", "empty", "unknown.7"}}, {"Valid", []string{"true", "false"}},
			{"SigHashExtension", []string{"{1,4}", "nil", "{2,99}", "{227,8}"}}, {"Version", []string{"0x0303", "0x0300", "0x0304", "0x1234", "0"}}}
		out = append(out, fieldsSpec("tls.DigitalSignature", "composite", tier, fs, true, func(a []int) (any, string) {
			d := &tls.DigitalSignature{Raw: bytesOf(raws[a[0]]), Type: types[a[1]], Valid: a[2] == 0, Version: vers[a[4]]}
			if shs[a[3]] != nil {
				c := *shs[a[3]]
				d.SigHashExtension = &c
			}
			return d, ""
		}, func() any { return new(tls.DigitalSignature) }, nil, []int{0, 0, 0, 0, 0}))
	}

	// ---- ServerKeyExchange ---------------------------------------------------
	{
		dhs := []string{"nil", "server DH"}
		ecs := []string{"nil", "P-256 server share", "x25519 server share (Y=nil)"}
		sigs := []string{"nil", "TLS1.2 rsa/sha256", "TLS1.0 (no sig-hash)"}
		digs := []string{"nil", "32 bytes"}
		fs := []fieldSpec{{"DHParams", dhs}, {"ECDHParams", ecs}, {"Digest", digs}, {"Signature", sigs}, {"SignatureError", []string{"empty", "text"}}, {"Raw (json:\"-\")", []string{"nil", "3 bytes"}}}
		out = append(out, fieldsSpec("tls.ServerKeyExchange", "composite", tier, fs, true, func(a []int) (any, string) {
			s := &tls.ServerKeyExchange{DHParams: dhOf(dhs[a[0]]), ECDHParams: ecdhOf(ecs[a[1]]), Digest: bytesOf(digs[a[2]]), Signature: sigOf(sigs[a[3]])}
			if a[4] == 1 {
				s.SignatureError = "tls: invalid signature"
			}
			if a[5] == 1 {
				s.Raw = bytesOf("3 bytes")
			}
			return s, ""
		}, func() any { return new(tls.ServerKeyExchange) }, nil, []int{1, 1, 1, 1, 1, 0}))
	}

	// ---- ClientKeyExchange ---------------------------------------------------
	{
		rs := []string{"nil", "set", "empty struct"}
		dhs := []string{"nil", "client DH + private"}
		ecs := []string{"nil", "P-256 client share"}
		fs := []fieldSpec{{"RSAParams", rs}, {"DHParams", dhs}, {"ECDHParams", ecs}}
		out = append(out, fieldsSpec("tls.ClientKeyExchange", "composite", tier, fs, true, func(a []int) (any, string) {
			c := &tls.ClientKeyExchange{DHParams: dhOf(dhs[a[1]]), ECDHParams: ecdhOf(ecs[a[2]])}
			switch a[0] {
			case 1:
				c.RSAParams = &jsonKeys.RSAClientParams{Length: 256, EncryptedPMS: patBytes(256)}
			case 2:
				c.RSAParams = &jsonKeys.RSAClientParams{}
			}
			return c, ""
		}, func() any { return new(tls.ClientKeyExchange) }, nil, []int{1, 1, 1}))
	}

	// ---- ServerHello ---------------------------------------------------------
	{
		vers := []tls.TLSVersion{0x0303, 0x0300, 0x0304, 0xfafa}
		suites := []tls.CipherSuiteID{0xc02f, 0x1301, 0x5a5a, 0}
		comps := []tls.CompressionMethod{0, 1, 64, 200}
		fs := []fieldSpec{{"Version", []string{"0x0303", "0x0300", "0x0304", "0xfafa"}}, {"Random", []string{"32 bytes", "nil"}}, {"SessionID", []string{"32 bytes", "nil", "empty"}},
			{"CipherSuite", []string{"0xc02f", "0x1301", "0x5a5a", "0"}}, {"CompressionMethod", []string{"0", "1", "64", "200"}},
			{"flags", []string{"all false", "all true"}}, {"ExtendedRandom", []string{"nil", "32 bytes"}}, {"AlpnProtocol", []string{"empty", "h2"}},
			{"SupportedVersions", []string{"nil", "{0x0304}", "{0x7f1c}"}}, {"KeyShare", []string{"nil", "{x25519}", "{group 0x6a6a}", "{KeyExchange=nil}"}},
			{"ExtensionIdentifiers", []string{"nil", "[0 65281 51]"}}, {"UnknownExtensions", []string{"nil", "[[0xfa 0xfa 0 0]]"}}}
		out = append(out, fieldsSpec("tls.ServerHello", "composite", tier, fs, false, func(a []int) (any, string) {
			h := &tls.ServerHello{Version: vers[a[0]], CipherSuite: suites[a[3]], CompressionMethod: comps[a[4]]}
			if a[1] == 0 {
				h.Random = patBytes(32)
			}
			h.SessionID = bytesOf([]string{"32 bytes", "nil", "empty"}[a[2]])
			if a[5] == 1 {
				h.OcspStapling, h.TicketSupported, h.SecureRenegotiation, h.HeartbeatSupported, h.ExtendedMasterSecret = true, true, true, true, true
			}
			if a[6] == 1 {
				h.ExtendedRandom = patBytes(32)
			}
			if a[7] == 1 {
				h.AlpnProtocol = "h2"
			}
			switch a[8] {
			case 1:
				h.SupportedVersions = &tls.SupportedVersionsExt{SelectedVersion: 0x0304}
			case 2:
				h.SupportedVersions = &tls.SupportedVersionsExt{SelectedVersion: 0x7f1c}
			}
			switch a[9] {
			case 1:
				g := tls.X25519
				h.KeyShare = &tls.KeyShareExtension{KeyExchange: &g}
			case 2:
				g := tls.CurveID(0x6a6a)
				h.KeyShare = &tls.KeyShareExtension{KeyExchange: &g}
			case 3:
				h.KeyShare = &tls.KeyShareExtension{}
			}
			if a[10] == 1 {
				h.ExtensionIdentifiers = []uint16{0, 65281, 51}
			}
			if a[11] == 1 {
				h.UnknownExtensions = [][]byte{{0xfa, 0xfa, 0, 0}}
			}
			return h, ""
		}, func() any { return new(tls.ServerHello) }, nil, []int{0, 0, 0, 0, 1, 1, 1, 1, 1, 1, 1, 1}))
	}

	// ---- ClientHello ---------------------------------------------------------
	{
		cnt := []string{"empty", "1 element", "3 elements (named, GREASE, zero)"}
		fs := []fieldSpec{{"Version", []string{"0x0303", "0x0200"}}, {"CipherSuites", cnt}, {"CompressionMethods", cnt}, {"SupportedCurves", cnt},
			{"SupportedPoints", cnt}, {"SupportedVersions", cnt}, {"SignatureAndHashes", cnt}, {"SessionTicket", []string{"nil", "set", "empty struct"}},
			{"strings", []string{"empty", "set"}}, {"flags", []string{"all false", "all true"}}, {"byte members", []string{"nil", "set"}}}
		take := func(n int) int {
			if n == 2 {
				return 3
			}
			return n
		}
		out = append(out, fieldsSpec("tls.ClientHello", "composite", tier, fs, false, func(a []int) (any, string) {
			h := &tls.ClientHello{Version: []tls.TLSVersion{0x0303, 0x0200}[a[0]]}
			h.CipherSuites = []tls.CipherSuiteID{0x1301, 0x0a0a, 0}[:take(a[1])]
			h.CompressionMethods = []tls.CompressionMethod{0, 0xaa, 1}[:take(a[2])]
			h.SupportedCurves = []tls.CurveID{29, 0x0a0a, 0}[:take(a[3])]
			h.SupportedPoints = []tls.PointFormat{0, 0xaa, 2}[:take(a[4])]
			h.SupportedVersions = []tls.TLSVersion{0x0304, 0x0a0a, 0}[:take(a[5])]
			h.SignatureAndHashes = []tls.SignatureAndHash{{Signature: 1, Hash: 4}, {Signature: 0x0a, Hash: 0x0a}, {}}[:take(a[6])]
			switch a[7] {
			case 1:
				h.SessionTicket = &tls.SessionTicket{Value: patBytes(16), Length: 16, LifetimeHint: 7200}
			case 2:
				h.SessionTicket = &tls.SessionTicket{}
			}
			if a[8] == 1 {
				h.ServerName = "srv.example"
				h.AlpnProtocols = []string{"h2", "http/1.1"}
			}
			if a[9] == 1 {
				h.OcspStapling, h.TicketSupported, h.SecureRenegotiation, h.HeartbeatSupported, h.ExtendedMasterSecret, h.Scts, h.SctEnabled = true, true, true, true, true, true, true
			}
			if a[10] == 1 {
				h.Random, h.SessionID, h.ExtendedRandom, h.UnknownExtensions = patBytes(32), patBytes(32), patBytes(64), [][]byte{{0x0a, 0x0a, 0, 0}}
			}
			return h, ""
		}, func() any { return new(tls.ClientHello) }, nil, []int{0, 2, 2, 2, 2, 2, 2, 1, 1, 1, 1}))
	}
	return out
}
