// Standalone reproducers for the C33 findings (no harness code): each section
// marshals one value with encoding/json and decodes the result again.
//
//	cd /verif/mc && GOFLAGS=-mod=mod GOPROXY=off go run ./cmd/c33/repro/findings
package main

import (
	"encoding/json"
	"fmt"
	"math/big"
	"net"

	"github.com/zmap/zcrypto/encoding/asn1"
	jsonKeys "github.com/zmap/zcrypto/json"
	"github.com/zmap/zcrypto/rsa"
	"github.com/zmap/zcrypto/tls"
	"github.com/zmap/zcrypto/x509"
	"github.com/zmap/zcrypto/x509/pkix"
)

func try(name string, f func()) {
	defer func() {
		if r := recover(); r != nil {
			fmt.Printf("   PANIC: %v\n", r)
		}
	}()
	fmt.Println("--", name)
	f()
}

func main() {
	try("F1 tls.ClientAuthType: UnmarshalJSON panics", func() {
		v := tls.RequireAndVerifyClientCert
		b, err := json.Marshal(&v)
		fmt.Printf("   encoded %s err=%v\n", b, err)
		var w tls.ClientAuthType
		fmt.Println("   decode:", json.Unmarshal(b, &w), w)
	})
	try("F2 json.ECPoint without Y (x25519 share): decoder dereferences nil", func() {
		p := &jsonKeys.ECPoint{X: big.NewInt(9)}
		b, err := json.Marshal(p)
		fmt.Printf("   encoded %s err=%v\n", b, err)
		var w jsonKeys.ECPoint
		fmt.Println("   decode:", json.Unmarshal(b, &w))
	})
	try("F2b the same through tls.ServerKeyExchange (what a TLS 1.2 X25519 handshake log contains)", func() {
		s := &tls.ServerKeyExchange{ECDHParams: &jsonKeys.ECDHParams{TLSCurveID: 29, ServerPublic: &jsonKeys.ECPoint{X: big.NewInt(9)}}}
		b, _ := json.Marshal(s)
		fmt.Printf("   encoded %s\n", b)
		var w tls.ServerKeyExchange
		fmt.Println("   decode:", json.Unmarshal(b, &w))
	})
	try("F3 tls.SignatureAndHash: names ecdsa / ed25519 are shared by two code points, decoder picks by map order", func() {
		for _, s := range []uint8{3, 229, 7, 230} {
			v := tls.SignatureAndHash{Signature: s, Hash: 4}
			b, _ := json.Marshal(&v)
			seen := map[uint8]int{}
			for i := 0; i < 64; i++ {
				var w tls.SignatureAndHash
				if err := json.Unmarshal(b, &w); err != nil {
					fmt.Println("   decode error", err)
				}
				seen[w.Signature]++
			}
			fmt.Printf("   Signature=%d encoded %s; 64 decodings gave Signature → count %v\n", s, b, seen)
		}
	})
	try("F4 x509.PublicKeyAlgorithm: Ed25519 and X25519 decode to Unknown", func() {
		for _, v := range []x509.PublicKeyAlgorithm{x509.RSA, x509.ECDSA, x509.Ed25519, x509.X25519} {
			b, _ := json.Marshal(&v)
			var w x509.PublicKeyAlgorithm
			err := json.Unmarshal(b, &w)
			fmt.Printf("   %d encoded %s decoded %d err=%v\n", v, b, w, err)
		}
	})
	try("F5 x509.SignatureAlgorithm: UnknownSignatureAlgorithm encodes but cannot be decoded", func() {
		v := x509.UnknownSignatureAlgorithm
		b, err := json.Marshal(&v)
		fmt.Printf("   encoded %s err=%v\n", b, err)
		var w x509.SignatureAlgorithm
		fmt.Println("   decode:", json.Unmarshal(b, &w))
	})
	try("F6 x509.CertificateFingerprint / SubjAuthKeyId: hex out, base64 in", func() {
		f := x509.SHA256Fingerprint([]byte("x"))
		b, _ := json.Marshal(&f)
		var w x509.CertificateFingerprint
		err := json.Unmarshal(b, &w)
		fmt.Printf("   %d-byte fingerprint encoded %s decoded to %d bytes (%x…) err=%v equal=%v\n", len(f), b, len(w), []byte(w)[:4], err, f.Equal(w))
		f1 := x509.CertificateFingerprint{0x0b}
		b, _ = json.Marshal(&f1)
		fmt.Printf("   1-byte fingerprint encoded %s decode err=%v\n", b, json.Unmarshal(b, &w))
		k := x509.SubjAuthKeyId{1, 2, 3, 4}
		b, _ = json.Marshal(&k)
		var kw x509.SubjAuthKeyId
		err = json.Unmarshal(b, &kw)
		fmt.Printf("   SubjAuthKeyId %x encoded %s decoded %x err=%v\n", []byte(k), b, []byte(kw), err)
	})
	try("F7 pkix.Name: given_name / surname / organization_id (and the EmailAddress member) are dropped by UnmarshalJSON", func() {
		rdns := pkix.RDNSequence{
			{{Type: asn1.ObjectIdentifier{2, 5, 4, 6}, Value: "US"}},
			{{Type: asn1.ObjectIdentifier{2, 5, 4, 42}, Value: "Given"}},
			{{Type: asn1.ObjectIdentifier{2, 5, 4, 4}, Value: "Sur"}},
			{{Type: asn1.ObjectIdentifier{2, 5, 4, 97}, Value: "NTRUS-1"}},
			{{Type: asn1.ObjectIdentifier{1, 2, 840, 113549, 1, 9, 1}, Value: "a@b.c"}},
			{{Type: asn1.ObjectIdentifier{2, 5, 4, 3}, Value: "cn"}},
		}
		var n pkix.Name
		n.FillFromRDNSequence(&rdns)
		b, _ := json.Marshal(&n)
		fmt.Printf("   encoded %s\n", b)
		var w pkix.Name
		err := json.Unmarshal(b, &w)
		fmt.Printf("   decode err=%v GivenName=%v Surname=%v OrganizationIDs=%v EmailAddress=%v\n   original DN: %s\n   decoded  DN: %s\n", err, w.GivenName, w.Surname, w.OrganizationIDs, w.EmailAddress, n.String(), w.String())
		b2, _ := json.Marshal(&w)
		fmt.Printf("   re-encoded %s\n", b2)
	})
	try("F8 x509.GeneralSubtreeIP: a mask that is not a prefix encodes but cannot be decoded (or decodes to another mask)", func() {
		for _, m := range []net.IPMask{{255, 255, 0, 0}, {255, 0, 255, 0}, {0, 0, 0, 1}} {
			g := x509.GeneralSubtreeIP{Data: net.IPNet{IP: net.IP{10, 1, 2, 3}, Mask: m}}
			b, err := json.Marshal(&g)
			var w x509.GeneralSubtreeIP
			derr := json.Unmarshal(b, &w)
			fmt.Printf("   mask %s encoded %s (err=%v) decode err=%v decoded mask %s\n", net.IP(m), b, err, derr, net.IP(w.Data.Mask))
		}
	})
	try("F9 json.RSAPublicKey: absent key (what rsaKeyAgreement.RSAParams() returns) decodes to the key N=0,E=0", func() {
		k := &jsonKeys.RSAPublicKey{}
		b, err := json.Marshal(k)
		var w jsonKeys.RSAPublicKey
		derr := json.Unmarshal(b, &w)
		fmt.Printf("   encoded %s (err=%v) decode err=%v decoded PublicKey=%+v\n", b, err, derr, w.PublicKey)
	})
	try("F9b json.RSAPublicKey with N=nil: MarshalJSON panics (E=nil gives an error instead)", func() {
		k := &jsonKeys.RSAPublicKey{PublicKey: &rsa.PublicKey{E: big.NewInt(3)}}
		b, err := json.Marshal(k)
		fmt.Printf("   encoded %s err=%v\n", b, err)
	})
}
