package main

// Key-parameter types of package json (RSA / DH / ECDH parameters and points).

import (
	"bytes"
	"crypto/elliptic"
	"math/big"

	jsonKeys "github.com/zmap/zcrypto/json"
	"github.com/zmap/zcrypto/rsa"
)

const (
	oodNeg  = "negative integer: key parameters are unsigned magnitudes (the JSON form is the big-endian magnitude)"
	oodMand = "mandatory member nil: the JSON schema always carries this member, a value without it is not in its domain"
)

func mustBig(s string) *big.Int {
	n, ok := new(big.Int).SetString(s, 0)
	if !ok {
		panic("bad literal " + s)
	}
	return n
}

// bigOf maps an alternative label to a fresh integer (nil for "nil").
func bigOf(label string) *big.Int {
	switch label {
	case "nil":
		return nil
	case "0":
		return new(big.Int)
	case "1":
		return big.NewInt(1)
	case "2":
		return big.NewInt(2)
	case "3":
		return big.NewInt(3)
	case "65537":
		return big.NewInt(65537)
	case "-3":
		return big.NewInt(-3)
	case "-5":
		return big.NewInt(-5)
	case "2^64+1":
		return new(big.Int).Add(new(big.Int).Lsh(big.NewInt(1), 64), big.NewInt(1))
	case "2^255-19":
		return new(big.Int).Sub(new(big.Int).Lsh(big.NewInt(1), 255), big.NewInt(19))
	case "256-bit":
		return mustBig("0x6b17d1f2e12c4247f8bce6e563a440f277037d812deb33a0f4a13945d898c296")
	case "2^2048+1":
		return new(big.Int).Add(new(big.Int).Lsh(big.NewInt(1), 2048), big.NewInt(1))
	case "2^8192-1":
		return new(big.Int).Sub(new(big.Int).Lsh(big.NewInt(1), 8192), big.NewInt(1))
	case "0x00ff..(leading zero byte irrelevant)":
		return big.NewInt(0xff)
	}
	panic("unknown integer label " + label)
}

func isNeg(label string) bool { return len(label) > 0 && label[0] == '-' }

func patBytes(n int) []byte {
	b := make([]byte, n)
	for i := range b {
		b[i] = byte(i*37 + 11)
	}
	return b
}

func bytesOf(label string) []byte {
	switch label {
	case "nil":
		return nil
	case "empty":
		return []byte{}
	case "1 byte":
		return []byte{0x80}
	case "3 bytes":
		return []byte{0x30, 0x01, 0xff}
	case "32 bytes":
		return patBytes(32)
	case "48 bytes":
		return patBytes(48)
	case "256 bytes":
		return patBytes(256)
	case "300 bytes":
		return patBytes(300)
	case "zeros(8)":
		return bytes.Repeat([]byte{0}, 8)
	}
	panic("unknown bytes label " + label)
}

// fieldsSpec assembles a G-field spec.
func fieldsSpec(name, scope, tier string, fs []fieldSpec, full bool, build func(a []int) (any, string), fresh func() any, diff func(o, d any) string, canon []int) *spec {
	d := devBound(tier)
	if full {
		d = len(fs)
	}
	as := assignments(altCounts(fs), d)
	if diff == nil {
		diff = gdiff
	}
	s := &spec{
		Name: name, Scope: scope, N: len(as),
		Case: func(i int) kase {
			v, ood := build(as[i])
			return kase{Desc: describe(fs, as[i]), Val: v, OOD: ood}
		},
		Fresh: fresh, Diff: diff,
		Space: spaceDesc(fs, d, len(as)),
	}
	if canon != nil {
		s.Canon = func() any { v, _ := build(canon); return v }
	}
	return s
}

func mkPoint(x, y string) *jsonKeys.ECPoint { return &jsonKeys.ECPoint{X: bigOf(x), Y: bigOf(y)} }

func mkPriv(label string) *jsonKeys.ECDHPrivateParams {
	switch label {
	case "nil":
		return nil
	case "set":
		return &jsonKeys.ECDHPrivateParams{Value: patBytes(32), Length: 32}
	case "empty struct":
		return &jsonKeys.ECDHPrivateParams{}
	}
	panic(label)
}

func pointOf(label string) *jsonKeys.ECPoint {
	switch label {
	case "nil":
		return nil
	case "P-256 point (X,Y)":
		return mkPoint("256-bit", "2^255-19")
	case "x25519 point (X only, Y=nil)":
		return mkPoint("2^255-19", "nil")
	case "point (0,0)":
		return mkPoint("0", "0")
	}
	panic(label)
}

func keySpecs(tier string) []*spec {
	var out []*spec

	// ---- ECPoint -------------------------------------------------------------
	{
		ints := []string{"256-bit", "nil", "0", "1", "2^2048+1", "-5"}
		fs := []fieldSpec{{"X", ints}, {"Y", ints}}
		out = append(out, fieldsSpec("json.ECPoint", "statement", tier, fs, true, func(a []int) (any, string) {
			ood := ""
			if ints[a[0]] == "nil" {
				ood = oodMand
			}
			if isNeg(ints[a[0]]) || isNeg(ints[a[1]]) {
				ood = oodNeg
			}
			return mkPoint(ints[a[0]], ints[a[1]]), ood
		}, func() any { return new(jsonKeys.ECPoint) }, nil, []int{0, 0}))
	}

	// ---- ECDHPrivateParams ---------------------------------------------------
	{
		vals := []string{"32 bytes", "nil", "empty", "1 byte", "zeros(8)"}
		lens := []int{32, 0, 1, -1, 1 << 40}
		fs := []fieldSpec{{"Value", vals}, {"Length", []string{"32", "0", "1", "-1", "2^40"}}}
		out = append(out, fieldsSpec("json.ECDHPrivateParams", "statement", tier, fs, true, func(a []int) (any, string) {
			return &jsonKeys.ECDHPrivateParams{Value: bytesOf(vals[a[0]]), Length: lens[a[1]]}, ""
		}, func() any { return new(jsonKeys.ECDHPrivateParams) }, nil, []int{0, 0}))
	}

	// ---- ECDHParams ----------------------------------------------------------
	{
		curves := []jsonKeys.TLSCurveID{23, 0, 29, 0xffff}
		pts := []string{"nil", "P-256 point (X,Y)", "x25519 point (X only, Y=nil)", "point (0,0)"}
		prs := []string{"nil", "set", "empty struct"}
		fs := []fieldSpec{
			{"TLSCurveID", []string{"23", "0", "29", "65535"}},
			{"Curve", []string{"nil", "elliptic.P256()"}},
			{"ServerPublic", pts}, {"ServerPrivate", prs}, {"ClientPublic", pts}, {"ClientPrivate", prs},
		}
		out = append(out, fieldsSpec("json.ECDHParams", "statement", tier, fs, true, func(a []int) (any, string) {
			p := &jsonKeys.ECDHParams{TLSCurveID: curves[a[0]], ServerPublic: pointOf(pts[a[2]]), ServerPrivate: mkPriv(prs[a[3]]),
				ClientPublic: pointOf(pts[a[4]]), ClientPrivate: mkPriv(prs[a[5]])}
			if a[1] == 1 {
				p.Curve = elliptic.P256() // tagged json:"-": not part of the JSON form
			}
			return p, ""
		}, func() any { return new(jsonKeys.ECDHParams) }, nil, []int{0, 0, 1, 1, 1, 1}))
	}

	// ---- DHParams ------------------------------------------------------------
	{
		prime := []string{"2^2048+1", "nil", "0", "1", "2^8192-1", "-5"}
		gen := []string{"2", "nil", "0", "2^2048+1", "-5"}
		opt := []string{"nil", "256-bit", "0", "1", "2^2048+1", "-5"}
		fs := []fieldSpec{{"Prime", prime}, {"Generator", gen}, {"ServerPublic", opt}, {"ServerPrivate", opt},
			{"ClientPublic", opt}, {"ClientPrivate", opt}, {"SessionKey", opt}}
		out = append(out, fieldsSpec("json.DHParams", "statement", tier, fs, false, func(a []int) (any, string) {
			ood := ""
			if prime[a[0]] == "nil" || gen[a[1]] == "nil" {
				ood = oodMand
			}
			if isNeg(prime[a[0]]) || isNeg(gen[a[1]]) {
				ood = oodNeg
			}
			for i := 2; i < 7; i++ {
				if isNeg(opt[a[i]]) {
					ood = oodNeg
				}
			}
			return &jsonKeys.DHParams{Prime: bigOf(prime[a[0]]), Generator: bigOf(gen[a[1]]), ServerPublic: bigOf(opt[a[2]]),
				ServerPrivate: bigOf(opt[a[3]]), ClientPublic: bigOf(opt[a[4]]), ClientPrivate: bigOf(opt[a[5]]), SessionKey: bigOf(opt[a[6]])}, ood
		}, func() any { return new(jsonKeys.DHParams) }, nil, []int{0, 0, 1, 1, 1, 1, 1}))
	}

	// ---- RSAPublicKey --------------------------------------------------------
	{
		ns := []string{"2^2048+1", "nil", "0", "1", "2^8192-1", "-5"}
		es := []string{"65537", "nil", "0", "3", "2^64+1", "-3"}
		fs := []fieldSpec{{"PublicKey", []string{"set", "nil"}}, {"N", ns}, {"E", es}}
		out = append(out, fieldsSpec("json.RSAPublicKey", "statement", tier, fs, true, func(a []int) (any, string) {
			if a[0] == 1 {
				// absent key: the JSON schema always carries exponent/modulus/length, so it
				// decodes as the key N=0,E=0 (coordinator decision: information, like the other
				// nil mandatory members)
				return &jsonKeys.RSAPublicKey{}, oodMand
			}
			ood := ""
			if ns[a[1]] == "nil" || es[a[2]] == "nil" {
				ood = oodMand
			}
			if isNeg(ns[a[1]]) {
				ood = oodNeg
			}
			return &jsonKeys.RSAPublicKey{PublicKey: &rsa.PublicKey{N: bigOf(ns[a[1]]), E: bigOf(es[a[2]])}}, ood
		}, func() any { return new(jsonKeys.RSAPublicKey) }, nil, []int{0, 0, 0}))
	}

	// ---- RSAClientParams -----------------------------------------------------
	{
		ls := []uint16{48, 0, 1, 65535}
		vs := []string{"48 bytes", "nil", "empty", "1 byte", "256 bytes"}
		fs := []fieldSpec{{"Length", []string{"48", "0", "1", "65535"}}, {"EncryptedPMS", vs}}
		out = append(out, fieldsSpec("json.RSAClientParams", "statement", tier, fs, true, func(a []int) (any, string) {
			return &jsonKeys.RSAClientParams{Length: ls[a[0]], EncryptedPMS: bytesOf(vs[a[1]])}, ""
		}, func() any { return new(jsonKeys.RSAClientParams) }, nil, []int{0, 0}))
	}
	return out
}
