package main

import (
	"encoding/json"
	"fmt"
	"sort"
)

// Generic JSON documents fed to every decoder.
var genericDocs = []string{
	`null`, `true`, `false`,
	`0`, `-1`, `1`, `1.5`, `255`, `256`, `65535`, `65536`, `4294967296`,
	`18446744073709551616`, `-9223372036854775809`, `1e400`,
	`""`, `"a"`, `"AA=="`, `"00"`, `"0g"`, `"!!!"`, `"unknown"`, `"1.2.3"`, `"1..2"`, `"-1.2"`, `"99999999999999999999.1"`,
	`"AAAA"`, `"AAEAAA=="`, `"AAEAAQ=="`, `"AAH//w=="`,
	`[]`, `[null]`, `[0]`, `[""]`, `[{}]`, `[[]]`,
	`{}`, `{"a":1}`, `{"value":null}`, `{"name":null,"value":null}`,
}

// wrong-type replacements for a member
var wrongDocs = []any{nil, "x", "", 7.0, -1.0, true, map[string]any{}, []any{}, []any{nil}, []any{"x"}, []any{map[string]any{}}}

// poolDocs: generic tokens + the canonical encoding of the type with each key
// (down to depth 3, through arrays) missing / null / replaced by a value of
// another JSON type.
func poolDocs(s *spec) []string {
	docs := append([]string(nil), genericDocs...)
	if s.Canon == nil {
		return docs
	}
	base, err := json.Marshal(s.Canon())
	if err != nil {
		return docs
	}
	docs = append(docs, string(base))
	var root any
	if json.Unmarshal(base, &root) != nil {
		return docs
	}
	seen := map[string]bool{}
	for _, d := range docs {
		seen[d] = true
	}
	emit := func() {
		b, err := json.Marshal(root)
		if err == nil && !seen[string(b)] {
			seen[string(b)] = true
			docs = append(docs, string(b))
		}
	}
	var walk func(node any, depth int)
	walk = func(node any, depth int) {
		switch n := node.(type) {
		case map[string]any:
			keys := make([]string, 0, len(n))
			for k := range n {
				keys = append(keys, k)
			}
			sort.Strings(keys)
			for _, k := range keys {
				old := n[k]
				delete(n, k)
				emit()
				for _, w := range wrongDocs {
					n[k] = w
					emit()
				}
				n[k] = old
				if depth < 3 {
					walk(old, depth+1)
				}
			}
		case []any:
			if len(n) > 0 {
				old := n[0]
				for _, w := range wrongDocs {
					n[0] = w
					emit()
				}
				n[0] = old
				if depth < 3 {
					walk(old, depth+1)
				}
			}
		}
	}
	walk(root, 1)
	return docs
}

// ---- G-field enumeration ------------------------------------------------------

// assignments returns every vector a with 0 ≤ a[i] < alts[i] in which at most d
// entries are non-zero (0 = the member's default), ordered by the number of
// deviations (so that the first failing case is a minimal one).
func assignments(alts []int, d int) [][]int {
	var out [][]int
	n := len(alts)
	if d > n {
		d = n
	}
	cur := make([]int, n)
	var rec func(k, from, left int)
	rec = func(k, from, left int) {
		if left == 0 {
			out = append(out, append([]int(nil), cur...))
			return
		}
		for i := from; i < n; i++ {
			for a := 1; a < alts[i]; a++ {
				cur[i] = a
				rec(k, i+1, left-1)
			}
			cur[i] = 0
		}
	}
	for k := 0; k <= d; k++ {
		rec(k, 0, k)
	}
	return out
}

// fieldSpec names one member and its alternatives (index 0 = default).
type fieldSpec struct {
	name string
	alts []string
}

func altCounts(fs []fieldSpec) []int {
	out := make([]int, len(fs))
	for i, f := range fs {
		out[i] = len(f.alts)
	}
	return out
}

func describe(fs []fieldSpec, a []int) string {
	s := ""
	for i, x := range a {
		if x != 0 {
			if s != "" {
				s += ", "
			}
			s += fs[i].name + "=" + fs[i].alts[x]
		}
	}
	if s == "" {
		return "baseline"
	}
	return s
}

func spaceDesc(fs []fieldSpec, d int, n int) string {
	s := ""
	for i, f := range fs {
		if i > 0 {
			s += " × "
		}
		s += fmt.Sprintf("%s%v", f.name, f.alts)
	}
	if d >= len(fs) {
		return fmt.Sprintf("full product (%d cases) of %s", n, s)
	}
	return fmt.Sprintf("≤ %d non-default members (%d cases) over %s", d, n, s)
}
