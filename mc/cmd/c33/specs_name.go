package main

// pkix.Name: attribute lists with a bounded number of deviations, built both the
// way the certificate parser builds a Name (FillFromRDNSequence) and the way a
// certificate author does (typed members + ExtraNames).

import (
	"fmt"

	"github.com/zmap/zcrypto/encoding/asn1"
	"github.com/zmap/zcrypto/x509/pkix"
)

func nameSpecs(tier string) []*spec {
	// one member per attribute type with a JSON key; baseline C=1, O=1, CN=1
	var fs []fieldSpec
	base := map[string]bool{"country": true, "organization": true, "common_name": true}
	counts := make([][]int, len(nameAttrs))
	for i, a := range nameAttrs {
		if base[a.key] {
			fs = append(fs, fieldSpec{a.key, []string{"1 value", "absent", "2 values"}})
			counts[i] = []int{1, 0, 2}
		} else {
			fs = append(fs, fieldSpec{a.key, []string{"absent", "1 value", "2 values"}})
			counts[i] = []int{0, 1, 2}
		}
	}
	nA := len(nameAttrs)
	fs = append(fs,
		fieldSpec{"attribute without JSON key (2.5.4.12 title)", []string{"absent", "present"}},
		fieldSpec{"non-string value (CN as INTEGER)", []string{"absent", "present"}},
		fieldSpec{"string flavour", strFlavours},
		fieldSpec{"RDN grouping", []string{"one attribute per RDN", "all attributes in one multi-valued RDN"}},
	)
	val := func(key string, j, fl int) string {
		s := fmt.Sprintf("%s-%d", key, j+1)
		if j == 0 {
			return flavoured(s, fl)
		}
		return s
	}
	attrsOf := func(a []int) (atvs []pkix.AttributeTypeAndValue, ood string) {
		fl := a[nA+2]
		for i, at := range nameAttrs {
			for j := 0; j < counts[i][a[i]]; j++ {
				atvs = append(atvs, atv(at.oid, val(at.key, j, fl)))
			}
		}
		if a[nA] == 1 {
			atvs = append(atvs, atv([]int{2, 5, 4, 12}, "a title"))
		}
		if a[nA+1] == 1 {
			atvs = append(atvs, atv([]int{2, 5, 4, 3}, int64(7)))
		}
		if fl == 3 && len(atvs) > 0 {
			ood = oodUTF8
		}
		return
	}

	parsed := fieldsSpec("pkix.Name (parsed from RDNSequence)", "statement", tier, fs, false, func(a []int) (any, string) {
		atvs, ood := attrsOf(a)
		var rdns pkix.RDNSequence
		if a[nA+3] == 1 {
			if len(atvs) > 0 {
				rdns = pkix.RDNSequence{pkix.RelativeDistinguishedNameSET(atvs)}
			}
		} else {
			for _, x := range atvs {
				rdns = append(rdns, pkix.RelativeDistinguishedNameSET{x})
			}
		}
		if rdns == nil {
			rdns = pkix.RDNSequence{}
		}
		n := new(pkix.Name)
		n.FillFromRDNSequence(&rdns)
		return n, ood
	}, func() any { return new(pkix.Name) }, nil, func() []int {
		c := make([]int, len(fs))
		for i := range nameAttrs {
			c[i] = 1
			if base[nameAttrs[i].key] {
				c[i] = 0
			}
		}
		return c
	}())

	// typed-member route: what ToRDNSequence documents as encoded — the typed lists,
	// CommonName / SerialNumber (single strings) and ExtraNames for everything else.
	fs2 := append([]fieldSpec(nil), fs[:nA+3]...)
	typed := fieldsSpec("pkix.Name (typed members + ExtraNames)", "statement", tier, fs2, false, func(a []int) (any, string) {
		atvs, ood := attrsOf(append(append([]int(nil), a...), 0))
		n := new(pkix.Name)
		extra := func(x pkix.AttributeTypeAndValue) { n.ExtraNames = append(n.ExtraNames, x) }
		for _, x := range atvs {
			s, isStr := x.Value.(string)
			if !isStr {
				extra(x)
				continue
			}
			switch attrKey(x.Type) {
			case "common_name":
				if n.CommonName == "" && s != "" {
					n.CommonName = s
				} else {
					extra(x)
				}
			case "serial_number":
				if n.SerialNumber == "" && s != "" {
					n.SerialNumber = s
				} else {
					extra(x)
				}
			case "country":
				n.Country = append(n.Country, s)
			case "locality":
				n.Locality = append(n.Locality, s)
			case "province":
				n.Province = append(n.Province, s)
			case "street_address":
				n.StreetAddress = append(n.StreetAddress, s)
			case "organization":
				n.Organization = append(n.Organization, s)
			case "organizational_unit":
				n.OrganizationalUnit = append(n.OrganizationalUnit, s)
			case "postal_code":
				n.PostalCode = append(n.PostalCode, s)
			case "domain_component":
				n.DomainComponent = append(n.DomainComponent, s)
			case "email_address":
				n.EmailAddress = append(n.EmailAddress, s)
			case "organization_id":
				n.OrganizationIDs = append(n.OrganizationIDs, s)
			case "jurisdiction_locality":
				n.JurisdictionLocality = append(n.JurisdictionLocality, s)
			case "jurisdiction_province":
				n.JurisdictionProvince = append(n.JurisdictionProvince, s)
			case "jurisdiction_country":
				n.JurisdictionCountry = append(n.JurisdictionCountry, s)
			default: // surname, given_name (no typed member is encoded), attributes without key
				extra(x)
			}
		}
		return n, ood
	}, func() any { return new(pkix.Name) }, nil, nil)
	return []*spec{parsed, typed}
}

var _ = asn1.ObjectIdentifier{}
