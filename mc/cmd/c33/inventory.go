package main

// Inventory of the JSON-serialisable value types of the anchored files
// (grep "func (.*) MarshalJSON|UnmarshalJSON" in tls/, json/, x509/, x509/pkix/,
// ct/, x509/ct/, x509/revocation/crl/).
//
// IN SCOPE — both directions exist (custom method or encoding/json default) and
// the type is named or implied by the statement:
//
//   custom both ways : tls.TLSVersion, tls.CipherSuiteID, tls.CompressionMethod,
//     tls.CurveID, tls.PointFormat, tls.SignatureAndHash, tls.ClientAuthType,
//     tls.KeyShareExtension, json.TLSCurveID, json.ECPoint, json.DHParams
//     (and the unexported json.cryptoParameter through them), json.RSAPublicKey,
//     x509.KeyUsage, x509.SignatureAlgorithm, x509.PublicKeyAlgorithm,
//     x509.validity (unexported, via _inpkg accessor), x509.GeneralSubtreeIP,
//     x509.GeneralNames, x509.NameConstraints, pkix.Name, pkix.Extension,
//     pkix.OtherName, pkix.AttributeTypeAndValue, pkix.AuxOID,
//     ct.DigitallySigned, ct.SHA256Hash (+ their x509/ct copies),
//     crl.RevocationReasonCode
//   custom Marshal + default Unmarshal : x509.CertificateFingerprint ("fingerprints"
//     in the statement), x509.SubjAuthKeyId
//   default both ways : json.ECDHParams, json.ECDHPrivateParams, json.RSAClientParams,
//     pkix.EDIPartyName, ct.Version, ct.LogEntryType, x509/ct.Version
//   composites (context of use) : tls.DigitalSignature, tls.ServerKeyExchange,
//     tls.ClientKeyExchange, tls.ServerHello, tls.ClientHello
//   adjacent, information only : x509.CertificateType, x509.ExtendedKeyUsageExtension
//   values produced by the real parser + the certificate document as a composite : specs_composite.go

// excluded lists the types with JSON methods that are NOT checked, with the reason.
var excluded = map[string]string{
	"x509.Certificate / x509.JSONCertificate":              "one-way view: UnmarshalJSON is implemented to always return an error (documented)",
	"ct.SignedCertificateTimestamp (both copies)":          "one-way view: MarshalJSON only, documented lossy (timestamp converted from ms to s, clamped)",
	"x509.CertificatePoliciesData":                         "one-way view: MarshalJSON only (re-shapes parallel arrays into a list of policies)",
	"x509.CertValidationLevel":                             "one-way view: MarshalJSON only",
	"x509.QCStatementASN, x509.QCType":                     "one-way view: MarshalJSON only",
	"mozilla.Entry":                                        "decode-only (UnmarshalJSON only): OneCRL input format, not a zcrypto encoding",
	"x509.ECDSAPublicKeyJSON, DSAPublicKeyJSON, …":         "plain default-encoded auxiliary structs of the certificate view (no custom method, members are []byte/string/int); part of the one-way certificate JSON",
	"x509.BasicConstraints, AuthorityInfoAccess, …":        "plain default-encoded structs not named by the statement",
	"tls.ServerHandshake, Certificates, SimpleCertificate": "embed *x509.Certificate, whose decoder always errors (one-way)",
}

func buildSpecs(tier string) []*spec {
	var out []*spec
	out = append(out, enumSpecs(tier)...)
	out = append(out, keySpecs(tier)...)
	out = append(out, x509Specs(tier)...)
	out = append(out, nameSpecs(tier)...)
	out = append(out, ctSpecs(tier)...)
	out = append(out, tlsSpecs(tier)...)
	out = append(out, compositeSpecs(tier)...)
	return out
}
