package x509

// Thin accessors for check C33 (compiled into package x509 through -overlay;
// never part of /repo). No logic here: the oracle lives in verifmc/cmd/c33.

import (
	"encoding/json"
	"time"
)

// VerifC33ValidityMarshal encodes the unexported validity type exactly the way
// encoding/json would when it meets it inside a certificate document.
func VerifC33ValidityMarshal(notBefore, notAfter time.Time) ([]byte, error) {
	return json.Marshal(&validity{NotBefore: notBefore, NotAfter: notAfter})
}

// VerifC33ValidityUnmarshal decodes a JSON document into a fresh validity value.
func VerifC33ValidityUnmarshal(b []byte) (notBefore, notAfter time.Time, err error) {
	var v validity
	err = json.Unmarshal(b, &v)
	return v.NotBefore, v.NotAfter, err
}
