package main

// Enumerated types: every value of the underlying small integer type.

import (
	"fmt"

	zct "github.com/zmap/zcrypto/ct"
	jsonKeys "github.com/zmap/zcrypto/json"
	"github.com/zmap/zcrypto/tls"
	"github.com/zmap/zcrypto/x509"
	xct "github.com/zmap/zcrypto/x509/ct"
	"github.com/zmap/zcrypto/x509/revocation/crl"
)

func enumSpec[T any](name, scope string, lo, hi int, mk func(i int) T, ood func(i int) string, canon int) *spec {
	return &spec{
		Name: name, Scope: scope, N: hi - lo + 1,
		Case: func(i int) kase {
			v := mk(lo + i)
			k := kase{Desc: fmt.Sprintf("%d (0x%X)", lo+i, lo+i), Val: &v}
			if ood != nil {
				k.OOD = ood(lo + i)
			}
			return k
		},
		Fresh: func() any { return new(T) },
		Diff:  gdiff,
		Canon: func() any { v := mk(canon); return &v },
		Space: fmt.Sprintf("all integers %d..%d (%d values)", lo, hi, hi-lo+1),
	}
}

func outside(lo, hi int, why string) func(int) string {
	return func(i int) string {
		if i < lo || i > hi {
			return why
		}
		return ""
	}
}

func enumSpecs(tier string) []*spec {
	var out []*spec
	out = append(out,
		enumSpec("tls.TLSVersion", "statement", 0, 0xffff, func(i int) tls.TLSVersion { return tls.TLSVersion(i) }, nil, 0x0303),
		enumSpec("tls.CipherSuiteID", "statement", 0, 0xffff, func(i int) tls.CipherSuiteID { return tls.CipherSuiteID(i) }, nil, 0xc02f),
		enumSpec("tls.CompressionMethod", "statement", 0, 0xff, func(i int) tls.CompressionMethod { return tls.CompressionMethod(i) }, nil, 1),
		enumSpec("tls.CurveID", "statement", 0, 0xffff, func(i int) tls.CurveID { return tls.CurveID(i) }, nil, 29),
		enumSpec("json.TLSCurveID", "statement", 0, 0xffff, func(i int) jsonKeys.TLSCurveID { return jsonKeys.TLSCurveID(i) }, nil, 23),
		enumSpec("tls.PointFormat", "statement", 0, 0xff, func(i int) tls.PointFormat { return tls.PointFormat(i) }, nil, 1),
		enumSpec("tls.SignatureAndHash", "statement", 0, 0xffff, func(i int) tls.SignatureAndHash {
			return tls.SignatureAndHash{Signature: uint8(i >> 8), Hash: uint8(i)}
		}, nil, 0x0104),
		enumSpec("tls.ClientAuthType", "statement", -2, 16, func(i int) tls.ClientAuthType { return tls.ClientAuthType(i) },
			outside(0, 4, "undefined code point: not one of the five declared ClientAuthType constants"), 4),
		enumSpec("x509.KeyUsage", "statement", -1, 1<<10, func(i int) x509.KeyUsage { return x509.KeyUsage(i) },
			outside(0, 1<<10, "negative: KeyUsage is a bit mask"), 0x1ff),
		enumSpec("x509.SignatureAlgorithm", "statement", -1, 40, func(i int) x509.SignatureAlgorithm { return x509.SignatureAlgorithm(i) },
			func(i int) string {
				if i == 0 {
					// {"name":"0","oid":""} is refused by AuxOID.UnmarshalJSON; accepting "" there breaks the
					// repository's stable test, so the failure is pinned behaviour, not a defect.
					return "unrecognised algorithm: the repository's TestSignatureAlgorithmJSON requires decoding UnknownSignatureAlgorithm to fail (\"Should fail on unrecognized algorithm\")"
				}
				return outside(0, int(x509.Ed25519Sig), "undefined code point: not a declared SignatureAlgorithm constant (UnknownSignatureAlgorithm … Ed25519Sig)")(i)
			}, int(x509.SHA256WithRSAPSS)),
		enumSpec("x509.PublicKeyAlgorithm", "statement", -1, 40, func(i int) x509.PublicKeyAlgorithm { return x509.PublicKeyAlgorithm(i) },
			outside(0, int(x509.X25519), "undefined code point: not a declared PublicKeyAlgorithm constant (String() maps it to unknown_algorithm)"), int(x509.ECDSA)),
		// no out-of-domain class: the CRL / OCSP parsers store whatever ENUMERATED value the wire carries
		// (7, 11.., negative), so every integer is a value a parser can produce and must round-trip
		enumSpec("crl.RevocationReasonCode", "design", -1, 16, func(i int) crl.RevocationReasonCode { return crl.RevocationReasonCode(i) }, nil, 1),
		enumSpec("x509.CertificateType", "adjacent", -1, 8, func(i int) x509.CertificateType { return x509.CertificateType(i) },
			outside(0, 3, "undefined code point: documented — any unknown integer value is considered the same as CertificateTypeUnknown"), 1),
		enumSpec("ct.Version", "design", 0, 0xff, func(i int) zct.Version { return zct.Version(i) }, nil, 0),
		enumSpec("ct.LogEntryType", "design", 0, 0xffff, func(i int) zct.LogEntryType { return zct.LogEntryType(i) }, nil, 1),
		enumSpec("x509/ct.Version", "design", 0, 0xff, func(i int) xct.Version { return xct.Version(i) }, nil, 0),
	)
	// TLS 1.3 key_share log entry: absent group, or any of the 2^16 groups.
	ks := &spec{
		Name: "tls.KeyShareExtension", Scope: "design", N: 0x10001, NullCtx: true,
		Case: func(i int) kase {
			if i == 0x10000 {
				return kase{Desc: "KeyExchange=nil", Val: &tls.KeyShareExtension{}}
			}
			g := tls.CurveID(i)
			return kase{Desc: fmt.Sprintf("KeyExchange=%d", i), Val: &tls.KeyShareExtension{KeyExchange: &g}}
		},
		Fresh: func() any { return new(tls.KeyShareExtension) },
		Diff: func(o, d any) string {
			a, b := o.(*tls.KeyShareExtension), d.(*tls.KeyShareExtension)
			if (a.KeyExchange == nil) != (b.KeyExchange == nil) {
				return "KeyExchange: absent-vs-present"
			}
			if a.KeyExchange != nil && *a.KeyExchange != *b.KeyExchange {
				return "KeyExchange: value changed"
			}
			return ""
		},
		Canon: func() any { g := tls.X25519; return &tls.KeyShareExtension{KeyExchange: &g} },
		Space: "KeyExchange ∈ {nil} ∪ all 2^16 groups",
	}
	out = append(out, ks)
	for _, s := range out {
		if s.Name == "tls.SignatureAndHash" {
			s.Repeat = 16 // its decoder searches a Go map by value: iteration order is random per call
		}
	}
	return out
}
