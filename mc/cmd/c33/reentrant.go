package main

// Re-entrancy pass (internal/nohb): scan results are exported as JSON by every worker goroutine of a scanner, and
// read back by consumers in parallel; "decode(encode(v)) == v" must not depend on another goroutine encoding or
// decoding at the same time (an auxiliary struct, a name/OID lookup table filled lazily or a buffer kept at package
// scope by a MarshalJSON/UnmarshalJSON method would mix two documents). Every ordered pair of the menu below is run
// as "first call to completion, then the second on another goroutine" WITHOUT a happens-before edge in a -race
// build: ThreadSanitizer reports every location both calls touch unsynchronised, for all interleavings at once.
//
// Menu: every type of the inventory (statement, design, composite and adjacent scope, quick-tier specs), one
// in-domain case each (the middle one of its enumeration whose encoding decodes): json.Marshal of the caller's OWN
// value followed by json.Unmarshal of its own copy of the document into a fresh value. The caller's own value is
// obtained by decoding the document once more before the pair starts, so nothing reachable from the spec tables
// (shared *big.Int, parsed certificates, handshake logs) is handed to both calls. MarshalJSON / UnmarshalJSON of the
// type are called directly first and through encoding/json afterwards: ThreadSanitizer reasons by happens-before,
// and encoding/json's internal sync.Pool (taken before a MarshalJSON method runs, returned after it) orders the two
// calls of a pair as far as everything inside json.Marshal is concerned; only the direct calls are free of it.
// Methods of MEMBER types reached only through json.Marshal of their holder stay behind that edge (limitation).

import (
	"encoding/json"
	"os"
	"time"

	"verifmc/internal/ev"
	"verifmc/internal/nohb"
)

func reentrantRepoDir() string {
	if v := os.Getenv("VERIF_REPO_DIR"); v != "" {
		return v
	}
	return "/repo"
}

func reentrantOps() []nohb.Op {
	var ops []nohb.Op
	for _, s := range buildSpecs("quick") {
		s := s
		// the in-domain case closest to the middle of the enumeration whose document decodes
		var doc []byte
		desc := ""
		for d := 0; d < s.N && doc == nil; d++ {
			for _, i := range []int{s.N/2 + d, s.N/2 - d} {
				if i < 0 || i >= s.N || doc != nil {
					continue
				}
				ev.Try(func() {
					k := s.Case(i)
					if k.OOD != "" {
						return
					}
					enc, err := json.Marshal(k.Val)
					if err != nil || string(enc) == "null" {
						return
					}
					if json.Unmarshal(enc, s.Fresh()) == nil {
						doc, desc = enc, k.Desc
					}
				})
			}
			if d > 64 {
				break
			}
		}
		if doc == nil {
			continue
		}
		if len(desc) > 60 {
			desc = desc[:60]
		}
		ops = append(ops, nohb.Op{Name: s.Name + " [" + desc + "]: json.Marshal, json.Unmarshal", New: func() func() {
			own := s.Fresh()
			err := json.Unmarshal(append([]byte{}, doc...), own)
			in := append([]byte{}, doc...)
			dst := s.Fresh()
			return func() {
				// the type's own methods first, called directly: json.Marshal takes its encoder state from a
				// sync.Pool BEFORE it calls MarshalJSON, and that Get/Put pair is a happens-before edge between the
				// two calls that would hide whatever MarshalJSON shares (see the note at the top)
				if m, ok := own.(json.Marshaler); ok && err == nil {
					m.MarshalJSON()
				}
				if u, ok := dst.(json.Unmarshaler); ok {
					u.UnmarshalJSON(in)
				}
				if err == nil {
					json.Marshal(own)
				}
				json.Unmarshal(in, dst)
			}
		}})
	}
	return ops
}

const reentrantMenuText = "every type of the inventory (quick-tier specs), one in-domain case each: MarshalJSON/UnmarshalJSON called directly, then json.Marshal/json.Unmarshal, on an own decoded value and an own copy of the document"

func reentrantPhase(c *ev.Ctx) {
	if c.Replay != nil {
		return // --replay re-executes one recorded witness of the main phase only
	}
	t0 := time.Now()
	o := nohb.Run(os.Getenv("VERIF_RACE_BIN"), nil, 10*time.Minute)
	if o.Broken != "" {
		c.Broken("re-entrancy pass: %s", o.Broken)
	}
	for _, sig := range o.Sigs() {
		c.Violation("re-entrancy: two calls on different goroutines share unsynchronised state: "+sig, map[string]any{"pair": o.Races[sig], "kind": "nohb"})
	}
	for k, v := range o.Panics {
		c.Violation("re-entrancy: "+k, map[string]any{"pair": v, "kind": "nohb"})
	}
	c.Outcome("re-entrancy pairs without a report", int64(o.Pairs))
	c.States.Add(int64(o.Pairs))
	c.Traces.Add(int64(o.Pairs))
	c.Set("reentrancy", map[string]any{"calls": o.Ops, "ordered_pairs": o.Pairs, "race_signatures": len(o.Races), "harness_only_reports": o.Harness, "canary_ok": o.CanaryOK,
		"seconds": time.Since(t0).Seconds(), "menu": reentrantMenuText,
		"method": "every ordered pair (a, b) of the menu: a to completion on one goroutine, then b on another, without a happens-before edge, in a -race build; a ThreadSanitizer report with both accesses in the repository is a violation"})
}
