package main

// Values PRODUCED BY THE REAL PARSER, and the certificate JSON as a composite.
//
// (1) The enumerated-type specs cast integers; a certificate parser produces its
// values differently (an unknown OID becomes the "unknown" member, a known OID
// one of the declared constants, names come from FillFromRDNSequence ...). Here
// certificates are created through zcrypto's CreateCertificate (fx.Mint), some
// of them re-assembled by the harness' own DER splicer with another signature
// AlgorithmIdentifier or another SubjectPublicKeyInfo (every signature OID of
// RFC 3279 / 4055 / 5758 / 8410 typed below, unknown OIDs, X25519, DSA, an
// unknown key algorithm), parsed with x509.ParseCertificate, and every value of
// a two-way JSON type that the parser put into the Certificate must round-trip
// through that type's own JSON methods: decode success is REQUIRED for every
// value the parser can produce. The single exception is pinned by the
// repository itself: UnknownSignatureAlgorithm marshals to a document that
// TestSignatureAlgorithmJSON requires NOT to decode ("Should fail on
// unrecognized algorithm"); that one value stays outside the domain.
//
// (2) The certificate document json.Marshal(cert) is a one-way view as a whole
// (its UnmarshalJSON always errors, documented), but its members of two-way
// types are encoded inside a real composite: each of them must be in the form
// its own UnmarshalJSON accepts and must decode to the value the certificate
// holds. A member encoded by the default rules because its pointer-receiver
// MarshalJSON was skipped (by-value holder in a non-addressable composite)
// fails here as a composite round-trip failure.

import (
	"crypto/sha256"
	"encoding/json"
	"fmt"
	"math/big"
	"net"
	"net/url"
	"reflect"
	"sort"
	"sync"

	"github.com/zmap/zcrypto/encoding/asn1"
	jsonKeys "github.com/zmap/zcrypto/json"
	zrsa "github.com/zmap/zcrypto/rsa"
	"github.com/zmap/zcrypto/tls"
	"github.com/zmap/zcrypto/x509"
	"github.com/zmap/zcrypto/x509/pkix"
	"verifmc/internal/fx"
	"verifmc/internal/tlsx"
)

// ---- the harness' own DER helpers (splicing only; nothing is decoded by zcrypto here)

func derLen(n int) []byte {
	if n < 128 {
		return []byte{byte(n)}
	}
	var b []byte
	for m := n; m > 0; m >>= 8 {
		b = append([]byte{byte(m)}, b...)
	}
	return append([]byte{0x80 | byte(len(b))}, b...)
}

func tlv(tag byte, content ...[]byte) []byte {
	var c []byte
	for _, x := range content {
		c = append(c, x...)
	}
	return append(append([]byte{tag}, derLen(len(c))...), c...)
}

func b128(n int) []byte {
	out := []byte{byte(n & 0x7f)}
	for n >>= 7; n > 0; n >>= 7 {
		out = append([]byte{byte(n&0x7f) | 0x80}, out...)
	}
	return out
}

func derOID(o ...int) []byte {
	c := b128(o[0]*40 + o[1])
	for _, n := range o[2:] {
		c = append(c, b128(n)...)
	}
	return tlv(0x06, c)
}

// children splits the content of a constructed element into its raw TLVs.
func children(b []byte) (tag byte, kids [][]byte, err error) {
	read := func(b []byte) (hdr, n int, e error) {
		if len(b) < 2 {
			return 0, 0, fmt.Errorf("short")
		}
		n = int(b[1])
		hdr = 2
		if n&0x80 != 0 {
			k := n & 0x7f
			if k == 0 || k > 3 || len(b) < 2+k {
				return 0, 0, fmt.Errorf("length")
			}
			n = 0
			for i := 0; i < k; i++ {
				n = n<<8 | int(b[2+i])
			}
			hdr += k
		}
		if len(b) < hdr+n {
			return 0, 0, fmt.Errorf("truncated")
		}
		return hdr, n, nil
	}
	hdr, n, e := read(b)
	if e != nil || hdr+n != len(b) {
		return 0, nil, fmt.Errorf("outer: %v", e)
	}
	tag = b[0]
	c := b[hdr:]
	for len(c) > 0 {
		h, m, e := read(c)
		if e != nil {
			return 0, nil, e
		}
		kids = append(kids, c[:h+m])
		c = c[h+m:]
	}
	return tag, kids, nil
}

// splice re-assembles a certificate with another signature AlgorithmIdentifier
// (both occurrences) and/or another SubjectPublicKeyInfo.
func splice(der []byte, sigAlg, spki []byte) ([]byte, error) {
	_, top, err := children(der)
	if err != nil || len(top) != 3 {
		return nil, fmt.Errorf("certificate: %v", err)
	}
	_, tbs, err := children(top[0])
	if err != nil {
		return nil, fmt.Errorf("tbs: %v", err)
	}
	off := 0
	if tbs[0][0] == 0xa0 {
		off = 1
	}
	if len(tbs) < off+6 {
		return nil, fmt.Errorf("tbs has %d elements", len(tbs))
	}
	if sigAlg != nil {
		tbs[off+1] = sigAlg
		top[1] = sigAlg
	}
	if spki != nil {
		tbs[off+5] = spki
	}
	return tlv(0x30, tlv(0x30, tbs...), top[1], top[2]), nil
}

var derNull = []byte{0x05, 0x00}

func algID(params []byte, oid ...int) []byte { return tlv(0x30, derOID(oid...), params) }

// ---- certificates

type sigOID struct {
	name   string
	oid    []int
	params []byte // nil: absent
}

// signature algorithm identifiers, typed from RFC 3279 §2.2, RFC 4055 §5, RFC 5758 §3, RFC 8410 §3,
// the OIW arc (1.3.14.3.2.29) and two OIDs that are nobody's.
var sigOIDs = []sigOID{
	{"md2WithRSAEncryption", []int{1, 2, 840, 113549, 1, 1, 2}, derNull},
	{"md5WithRSAEncryption", []int{1, 2, 840, 113549, 1, 1, 4}, derNull},
	{"sha1WithRSAEncryption", []int{1, 2, 840, 113549, 1, 1, 5}, derNull},
	{"sha1WithRSASignature (OIW)", []int{1, 3, 14, 3, 2, 29}, derNull},
	{"sha224WithRSAEncryption", []int{1, 2, 840, 113549, 1, 1, 14}, derNull},
	{"sha256WithRSAEncryption", []int{1, 2, 840, 113549, 1, 1, 11}, derNull},
	{"sha384WithRSAEncryption", []int{1, 2, 840, 113549, 1, 1, 12}, derNull},
	{"sha512WithRSAEncryption", []int{1, 2, 840, 113549, 1, 1, 13}, derNull},
	{"RSASSA-PSS without parameters", []int{1, 2, 840, 113549, 1, 1, 10}, nil},
	{"dsa-with-sha1", []int{1, 2, 840, 10040, 4, 3}, nil},
	{"dsa-with-sha256", []int{2, 16, 840, 1, 101, 3, 4, 3, 2}, nil},
	{"ecdsa-with-SHA1", []int{1, 2, 840, 10045, 4, 1}, nil},
	{"ecdsa-with-SHA224", []int{1, 2, 840, 10045, 4, 3, 1}, nil},
	{"ecdsa-with-SHA256", []int{1, 2, 840, 10045, 4, 3, 2}, nil},
	{"ecdsa-with-SHA384", []int{1, 2, 840, 10045, 4, 3, 3}, nil},
	{"ecdsa-with-SHA512", []int{1, 2, 840, 10045, 4, 3, 4}, nil},
	{"id-Ed25519", []int{1, 3, 101, 112}, nil},
	{"id-Ed25519 with NULL parameters (RFC 8410: MUST be absent)", []int{1, 3, 101, 112}, derNull},
	{"id-Ed448", []int{1, 3, 101, 113}, nil},
	{"unknown OID 1.2.3.4", []int{1, 2, 3, 4}, derNull},
	{"unknown OID 2.999.1", []int{2, 999, 1}, nil},
}

type certCase struct {
	desc string
	cert *x509.Certificate
}

var (
	certOnce  sync.Once
	certCases []certCase
	certNotes []string
)

func mustURL(s string) string { // zcrypto keeps URIs as strings
	if _, err := url.Parse(s); err != nil {
		panic(err)
	}
	return s
}

func dnSeq(cn string) []byte {
	return tlv(0x30, tlv(0x31, tlv(0x30, derOID(2, 5, 4, 3), tlv(0x0c, []byte(cn)))))
}

// every GeneralName form of RFC 5280 4.2.1.6 except x400Address, as a subjectAltName extension value
func allGeneralNames() []byte {
	return tlv(0x30,
		tlv(0xa0, derOID(1, 3, 6, 1, 4, 1, 311, 20, 2, 3), tlv(0xa0, tlv(0x0c, []byte("u@example")))), // otherName (UPN)
		tlv(0x81, []byte("user@example.com")),
		tlv(0x82, []byte("a.example.com")),
		tlv(0xa4, dnSeq("directory name")),
		tlv(0xa5, tlv(0xa0, tlv(0x0c, []byte("assigner"))), tlv(0xa1, tlv(0x0c, []byte("party")))),
		tlv(0x86, []byte("https://example.com/x?y=z")),
		tlv(0x87, []byte{192, 0, 2, 7}),
		tlv(0x87, net.ParseIP("2001:db8::7").To16()),
		tlv(0x88, derOID(1, 2, 3, 4)[2:]),
		tlv(0x88, derOID(2, 999, 3)[2:]),
	)
}

func buildCertCases() {
	add := func(desc string, der []byte) {
		c, err := x509.ParseCertificate(der)
		if err != nil {
			certNotes = append(certNotes, fmt.Sprintf("%s: the parser refuses it (%v)", desc, err))
			return
		}
		certCases = append(certCases, certCase{desc, c})
	}
	mint := func(desc string, spec fx.CertSpec, parent *fx.Cert) *fx.Cert {
		c, err := fx.Mint(spec, parent)
		if err != nil {
			certNotes = append(certNotes, fmt.Sprintf("%s: CreateCertificate refuses it (%v)", desc, err))
			return nil
		}
		certCases = append(certCases, certCase{desc, c.X})
		return c
	}
	_, n10, _ := net.ParseCIDR("10.0.0.0/8")
	_, n6, _ := net.ParseCIDR("2001:db8::/32")
	root := mint("root CA (Ed25519), critical name constraints, full subject", fx.CertSpec{CN: "C33 Root", Key: "c33-root", IsCA: true, Serial: 2,
		KeyUsage: x509.KeyUsageCertSign | x509.KeyUsageCRLSign, SKID: []byte{1, 2, 3, 4},
		Tweak: func(t *x509.Certificate) {
			t.Subject = pkix.Name{CommonName: "C33 Root", Country: []string{"US"}, Organization: []string{"Org A", "Org B"}, OrganizationalUnit: []string{"Unit ü"},
				Locality: []string{"Loc"}, Province: []string{"Prov"}, StreetAddress: []string{"1 Street"}, PostalCode: []string{"12345"}, SerialNumber: "SN-7"}
			t.NameConstraintsCritical = true
			t.PermittedDNSNames = []x509.GeneralSubtreeString{{Data: ".example.com"}, {Data: "example.org"}}
			t.ExcludedDNSNames = []x509.GeneralSubtreeString{{Data: "bad.example.com"}}
			t.PermittedEmailAddresses = []x509.GeneralSubtreeString{{Data: "example.com"}}
			t.ExcludedEmailAddresses = []x509.GeneralSubtreeString{{Data: "x@bad.example"}}
			t.PermittedIPAddresses = []x509.GeneralSubtreeIP{{Data: *n10}}
			t.ExcludedIPAddresses = []x509.GeneralSubtreeIP{{Data: *n6}}
		}}, nil)
	if root == nil {
		return
	}
	mint("leaf (RSA-1024) under the root: SAN dns/email/ip/uri, key usage, EKU, key ids", fx.CertSpec{CN: "leaf.example.com", Key: "rsa1024", Serial: 3,
		DNS: []string{"leaf.example.com", "*.w.example.com"}, KeyUsage: x509.KeyUsageDigitalSignature | x509.KeyUsageKeyEncipherment,
		EKU: []x509.ExtKeyUsage{x509.ExtKeyUsageServerAuth, x509.ExtKeyUsageClientAuth}, SKID: []byte{9, 9}, AKID: []byte{1, 2, 3, 4},
		Tweak: func(t *x509.Certificate) {
			t.EmailAddresses = []string{"user@example.com"}
			t.IPAddresses = []net.IP{net.IPv4(192, 0, 2, 1).To4(), net.ParseIP("2001:db8::1")}
			t.URIs = []string{mustURL("https://example.com/a?b=c")}
			t.Subject.Organization = []string{"Leaf Org"}
			t.Subject.Country = []string{"DE"}
		}}, root)
	for _, k := range []string{"p224", "p256", "p384", "p521"} {
		mint("self-signed ECDSA "+k, fx.CertSpec{CN: "ec " + k, Key: k, KeyUsage: x509.KeyUsageDigitalSignature}, nil)
	}
	for _, sa := range []x509.SignatureAlgorithm{x509.MD5WithRSA, x509.SHA1WithRSA, x509.SHA256WithRSA, x509.SHA384WithRSA, x509.SHA512WithRSA,
		x509.SHA256WithRSAPSS, x509.SHA384WithRSAPSS, x509.SHA512WithRSAPSS} {
		sa := sa
		mint(fmt.Sprintf("self-signed RSA-2048, SignatureAlgorithm %d", int(sa)), fx.CertSpec{CN: fmt.Sprintf("rsa sig %d", int(sa)), Key: "rsa2048",
			Tweak: func(t *x509.Certificate) { t.SignatureAlgorithm = sa }}, nil)
	}
	for _, sa := range []x509.SignatureAlgorithm{x509.ECDSAWithSHA1, x509.ECDSAWithSHA256, x509.ECDSAWithSHA384, x509.ECDSAWithSHA512} {
		sa := sa
		mint(fmt.Sprintf("self-signed P-256, SignatureAlgorithm %d", int(sa)), fx.CertSpec{CN: fmt.Sprintf("ec sig %d", int(sa)), Key: "p256b",
			Tweak: func(t *x509.Certificate) { t.SignatureAlgorithm = sa }}, nil)
	}
	mint("unknown extensions (critical 1.2.3.4.5, non-critical 2.5.29.99 with empty value)", fx.CertSpec{CN: "unknown ext", Key: "c33-ue",
		Tweak: func(t *x509.Certificate) {
			t.ExtraExtensions = []pkix.Extension{{Id: asn1.ObjectIdentifier{1, 2, 3, 4, 5}, Critical: true, Value: []byte{0x04, 0x02, 0xff, 0x00}},
				{Id: asn1.ObjectIdentifier{2, 5, 29, 99}, Value: []byte{}}}
		}}, nil)
	mint("subjectAltName with every GeneralName form (hand-made extension value)", fx.CertSpec{CN: "all general names", Key: "c33-gn",
		Tweak: func(t *x509.Certificate) {
			t.ExtraExtensions = []pkix.Extension{{Id: asn1.ObjectIdentifier{2, 5, 29, 17}, Value: allGeneralNames()},
				{Id: asn1.ObjectIdentifier{2, 5, 29, 18}, Value: allGeneralNames()}}
		}}, nil)
	base, err := fx.Mint(fx.CertSpec{CN: "splice base", Key: "c33-splice", KeyUsage: x509.KeyUsageDigitalSignature}, nil)
	if err != nil {
		certNotes = append(certNotes, "splice base: "+err.Error())
		return
	}
	for _, so := range sigOIDs {
		der, err := splice(base.DER, algID(so.params, so.oid...), nil)
		if err != nil {
			certNotes = append(certNotes, "splice: "+err.Error())
			continue
		}
		add("signature AlgorithmIdentifier replaced by "+so.name, der)
	}
	bits := func(b []byte) []byte { return tlv(0x03, []byte{0}, b) }
	dsa := fx.DSA("dsa1024")
	dsaInt := func(x *big.Int) []byte {
		b := x.Bytes()
		if len(b) == 0 || b[0]&0x80 != 0 {
			b = append([]byte{0}, b...)
		}
		return tlv(0x02, b)
	}
	spkis := []struct {
		name string
		der  []byte
	}{
		{"X25519 (1.3.101.110)", tlv(0x30, algID(nil, 1, 3, 101, 110), bits(patBytes(32)))},
		{"an unknown key algorithm (1.2.3.4)", tlv(0x30, algID(derNull, 1, 2, 3, 4), bits(patBytes(40)))},
		{"Ed448 (1.3.101.113, unknown to zcrypto)", tlv(0x30, algID(nil, 1, 3, 101, 113), bits(patBytes(57)))},
		{"DSA-1024 (1.2.840.10040.4.1)", tlv(0x30, algID(tlv(0x30, dsaInt(dsa.P), dsaInt(dsa.Q), dsaInt(dsa.G)), 1, 2, 840, 10040, 4, 1), bits(dsaInt(dsa.Y)))},
	}
	for _, sp := range spkis {
		der, err := splice(base.DER, nil, sp.der)
		if err != nil {
			certNotes = append(certNotes, "splice: "+err.Error())
			continue
		}
		add("SubjectPublicKeyInfo replaced by "+sp.name, der)
	}
	// both at once: unknown signature algorithm AND unknown key algorithm
	if der, err := splice(base.DER, algID(derNull, 1, 2, 3, 4), spkis[1].der); err == nil {
		add("unknown signature algorithm and unknown key algorithm", der)
	}
}

func certs() []certCase {
	certOnce.Do(buildCertCases)
	return certCases
}

// ---- (1) parser-produced values through the JSON of their own types

const oodPinned = "unrecognised algorithm: the repository's TestSignatureAlgorithmJSON requires decoding UnknownSignatureAlgorithm to fail (\"Should fail on unrecognized algorithm\")"

func parsedSpecs() []*spec {
	cs := certs()
	var out []*spec
	if len(cs) == 0 {
		return nil
	}
	per := func(name string, fresh func() any, diff func(o, d any) string, get func(c *x509.Certificate, slot int) (any, string, string), slots int, what string) {
		out = append(out, &spec{Name: name, Scope: "statement", N: len(cs) * slots,
			Case: func(i int) kase {
				cc := cs[i/slots]
				v, sub, ood := get(cc.cert, i%slots)
				d := cc.desc
				if sub != "" {
					d += " / " + sub
				}
				return kase{Desc: d, Val: v, OOD: ood}
			},
			Fresh: fresh, Diff: diff,
			Space: fmt.Sprintf("%s of each of %d certificates parsed by x509.ParseCertificate (CreateCertificate output, and the same with spliced signature/key AlgorithmIdentifiers)", what, len(cs))})
	}
	per("x509.SignatureAlgorithm (as produced by the certificate parser)", func() any { return new(x509.SignatureAlgorithm) }, gdiff,
		func(c *x509.Certificate, _ int) (any, string, string) {
			v := c.SignatureAlgorithm
			ood := ""
			if v == x509.UnknownSignatureAlgorithm {
				ood = oodPinned
			}
			return &v, fmt.Sprintf("SignatureAlgorithm=%d", int(v)), ood
		}, 1, "Certificate.SignatureAlgorithm")
	per("x509.PublicKeyAlgorithm (as produced by the certificate parser)", func() any { return new(x509.PublicKeyAlgorithm) }, gdiff,
		func(c *x509.Certificate, _ int) (any, string, string) {
			v := c.PublicKeyAlgorithm
			return &v, fmt.Sprintf("PublicKeyAlgorithm=%d", int(v)), ""
		}, 1, "Certificate.PublicKeyAlgorithm")
	per("x509.KeyUsage (as produced by the certificate parser)", func() any { return new(x509.KeyUsage) }, gdiff,
		func(c *x509.Certificate, _ int) (any, string, string) {
			v := c.KeyUsage
			return &v, fmt.Sprintf("KeyUsage=%#x", int(v)), ""
		}, 1, "Certificate.KeyUsage")
	per("pkix.Name (subject and issuer of parsed certificates)", func() any { return new(pkix.Name) },
		func(o, d any) string { return nameDiff(*o.(*pkix.Name), *d.(*pkix.Name), "value") },
		func(c *x509.Certificate, slot int) (any, string, string) {
			if slot == 0 {
				v := c.Subject
				return &v, "subject", ""
			}
			v := c.Issuer
			return &v, "issuer", ""
		}, 2, "Certificate.Subject / Issuer")
	per("x509.validity (of parsed certificates)", func() any { return new(validityBox) }, gdiff,
		func(c *x509.Certificate, _ int) (any, string, string) {
			return &validityBox{NotBefore: c.NotBefore, NotAfter: c.NotAfter}, "", ""
		}, 1, "NotBefore/NotAfter")
	per("x509.CertificateFingerprint (of parsed certificates)", func() any { return new(x509.CertificateFingerprint) }, gdiff,
		func(c *x509.Certificate, slot int) (any, string, string) {
			fps := []x509.CertificateFingerprint{c.FingerprintMD5, c.FingerprintSHA1, c.FingerprintSHA256, c.FingerprintNoCT, c.SPKIFingerprint, c.SPKISubjectFingerprint, c.TBSCertificateFingerprint}
			v := fps[slot]
			return &v, fmt.Sprintf("fingerprint #%d (%d bytes)", slot, len(v)), ""
		}, 7, "the seven fingerprints")
	per("x509.GeneralNames (subjectAltName / issuerAltName of parsed certificates)", func() any { return new(x509.GeneralNames) }, gdiff,
		func(c *x509.Certificate, slot int) (any, string, string) {
			if slot == 0 {
				return sanOf(c), "subjectAltName", ""
			}
			return ianOf(c), "issuerAltName", ""
		}, 2, "the alternative names")
	per("x509.NameConstraints (of parsed certificates)", func() any { return new(x509.NameConstraints) }, gdiff,
		func(c *x509.Certificate, _ int) (any, string, string) { return ncOf(c), "", "" }, 1, "the name constraints")
	// every extension of every certificate, as pkix.Extension
	type extRef struct{ c, e int }
	var exts []extRef
	for ci, cc := range cs {
		for ei := range cc.cert.Extensions {
			exts = append(exts, extRef{ci, ei})
		}
	}
	out = append(out, &spec{Name: "pkix.Extension (extensions of parsed certificates)", Scope: "statement", N: len(exts),
		Case: func(i int) kase {
			r := exts[i]
			v := cs[r.c].cert.Extensions[r.e]
			return kase{Desc: fmt.Sprintf("%s / extension %s", cs[r.c].desc, v.Id.String()), Val: &v}
		},
		Fresh: func() any { return new(pkix.Extension) }, Diff: gdiff,
		Space: fmt.Sprintf("all %d extensions of the %d parsed certificates", len(exts), len(cs))})
	return out
}

func sanOf(c *x509.Certificate) *x509.GeneralNames {
	return &x509.GeneralNames{DirectoryNames: c.DirectoryNames, DNSNames: c.DNSNames, EDIPartyNames: c.EDIPartyNames, EmailAddresses: c.EmailAddresses,
		IPAddresses: c.IPAddresses, OtherNames: c.OtherNames, RegisteredIDs: c.RegisteredIDs, URIs: c.URIs}
}

func ianOf(c *x509.Certificate) *x509.GeneralNames {
	return &x509.GeneralNames{DirectoryNames: c.IANDirectoryNames, DNSNames: c.IANDNSNames, EDIPartyNames: c.IANEDIPartyNames, EmailAddresses: c.IANEmailAddresses,
		IPAddresses: c.IANIPAddresses, OtherNames: c.IANOtherNames, RegisteredIDs: c.IANRegisteredIDs, URIs: c.IANURIs}
}

func ncOf(c *x509.Certificate) *x509.NameConstraints {
	return &x509.NameConstraints{Critical: c.NameConstraintsCritical,
		PermittedDNSNames: c.PermittedDNSNames, PermittedEmailAddresses: c.PermittedEmailAddresses, PermittedURIs: c.PermittedURIs,
		PermittedIPAddresses: c.PermittedIPAddresses, PermittedDirectoryNames: c.PermittedDirectoryNames, PermittedEdiPartyNames: c.PermittedEdiPartyNames,
		PermittedRegisteredIDs: c.PermittedRegisteredIDs,
		ExcludedEmailAddresses: c.ExcludedEmailAddresses, ExcludedDNSNames: c.ExcludedDNSNames, ExcludedURIs: c.ExcludedURIs,
		ExcludedIPAddresses: c.ExcludedIPAddresses, ExcludedDirectoryNames: c.ExcludedDirectoryNames, ExcludedEdiPartyNames: c.ExcludedEdiPartyNames,
		ExcludedRegisteredIDs: c.ExcludedRegisteredIDs}
}

// ---- (2) the certificate document as a composite

// certMembers lists the members of the certificate document whose types have
// JSON methods in both directions; decoding goes through those methods.
type certMembers struct {
	SignatureAlgorithm x509.SignatureAlgorithm `json:"signature_algorithm"`
	Issuer             pkix.Name               `json:"issuer"`
	Subject            pkix.Name               `json:"subject"`
	Validity           validityBox             `json:"validity"`
	SubjectKeyInfo     struct {
		KeyAlgorithm x509.PublicKeyAlgorithm     `json:"key_algorithm"`
		RSAPublicKey *jsonKeys.RSAPublicKey      `json:"rsa_public_key"`
		Fingerprint  x509.CertificateFingerprint `json:"fingerprint_sha256"`
	} `json:"subject_key_info"`
	Extensions *struct {
		KeyUsage        x509.KeyUsage         `json:"key_usage"`
		SubjectAltName  *x509.GeneralNames    `json:"subject_alt_name"`
		IssuerAltName   *x509.GeneralNames    `json:"issuer_alt_name"`
		NameConstraints *x509.NameConstraints `json:"name_constraints"`
		AuthKeyID       x509.SubjAuthKeyId    `json:"authority_key_id"`
		SubjectKeyID    x509.SubjAuthKeyId    `json:"subject_key_id"`
	} `json:"extensions"`
	UnknownExtensions []pkix.Extension `json:"unknown_extensions"`
	Signature         struct {
		SignatureAlgorithm x509.SignatureAlgorithm `json:"signature_algorithm"`
	} `json:"signature"`
	FingerprintMD5    x509.CertificateFingerprint `json:"fingerprint_md5"`
	FingerprintSHA1   x509.CertificateFingerprint `json:"fingerprint_sha1"`
	FingerprintSHA256 x509.CertificateFingerprint `json:"fingerprint_sha256"`
	FingerprintNoCT   x509.CertificateFingerprint `json:"tbs_noct_fingerprint"`
	SPKISubject       x509.CertificateFingerprint `json:"spki_subject_fingerprint"`
	TBSFingerprint    x509.CertificateFingerprint `json:"tbs_fingerprint"`
}

// certBox: encoding = the real certificate document, decoding = its two-way members.
type certBox struct {
	cert *x509.Certificate
	m    certMembers
}

func (b *certBox) MarshalJSON() ([]byte, error) { return json.Marshal(b.cert) }
func (b *certBox) UnmarshalJSON(doc []byte) error {
	return json.Unmarshal(doc, &b.m)
}

func certDiff(o, d any) string {
	c, m := o.(*certBox).cert, &d.(*certBox).m
	cmp := func(path string, a, b any) string {
		return vdiff(reflect.ValueOf(a).Elem(), reflect.ValueOf(b).Elem(), path)
	}
	sa := c.SignatureAlgorithm
	if s := cmp("signature_algorithm", &sa, &m.SignatureAlgorithm); s != "" {
		return s
	}
	if s := cmp("signature.signature_algorithm", &sa, &m.Signature.SignatureAlgorithm); s != "" {
		return s
	}
	if s := nameDiff(c.Issuer, m.Issuer, "issuer"); s != "" {
		return s
	}
	if s := nameDiff(c.Subject, m.Subject, "subject"); s != "" {
		return s
	}
	if s := cmp("validity", &validityBox{c.NotBefore, c.NotAfter}, &m.Validity); s != "" {
		return s
	}
	ka := c.PublicKeyAlgorithm
	if s := cmp("subject_key_info.key_algorithm", &ka, &m.SubjectKeyInfo.KeyAlgorithm); s != "" {
		return s
	}
	fp := func(path string, want, got x509.CertificateFingerprint) string { return cmp(path, &want, &got) }
	for _, f := range []struct {
		p    string
		w, g x509.CertificateFingerprint
	}{
		{"subject_key_info.fingerprint_sha256", c.SPKIFingerprint, m.SubjectKeyInfo.Fingerprint},
		{"fingerprint_md5", c.FingerprintMD5, m.FingerprintMD5}, {"fingerprint_sha1", c.FingerprintSHA1, m.FingerprintSHA1},
		{"fingerprint_sha256", c.FingerprintSHA256, m.FingerprintSHA256}, {"tbs_noct_fingerprint", c.FingerprintNoCT, m.FingerprintNoCT},
		{"spki_subject_fingerprint", c.SPKISubjectFingerprint, m.SPKISubject}, {"tbs_fingerprint", c.TBSCertificateFingerprint, m.TBSFingerprint},
	} {
		if s := fp(f.p, f.w, f.g); s != "" {
			return s
		}
	}
	// the fingerprint the parser stored must itself be the SHA-256 of the raw certificate (anchors the comparison)
	if h := sha256.Sum256(c.Raw); string(h[:]) != string(m.FingerprintSHA256) {
		return "fingerprint_sha256: not the SHA-256 of the certificate"
	}
	if k, ok := c.PublicKey.(*zrsa.PublicKey); ok {
		got := m.SubjectKeyInfo.RSAPublicKey
		if got == nil || got.PublicKey == nil {
			return "subject_key_info.rsa_public_key: absent for an RSA certificate"
		}
		if s := cmp("subject_key_info.rsa_public_key", &jsonKeys.RSAPublicKey{PublicKey: k}, got); s != "" {
			return s
		}
	}
	ku := c.KeyUsage
	var gotKU x509.KeyUsage
	var san, ian *x509.GeneralNames
	var nc *x509.NameConstraints
	var akid, skid x509.SubjAuthKeyId
	if m.Extensions != nil {
		gotKU, san, ian, nc, akid, skid = m.Extensions.KeyUsage, m.Extensions.SubjectAltName, m.Extensions.IssuerAltName, m.Extensions.NameConstraints, m.Extensions.AuthKeyID, m.Extensions.SubjectKeyID
	}
	if s := cmp("extensions.key_usage", &ku, &gotKU); s != "" {
		return s
	}
	if san == nil {
		san = &x509.GeneralNames{}
	}
	if ian == nil {
		ian = &x509.GeneralNames{}
	}
	if nc == nil {
		nc = &x509.NameConstraints{}
	}
	if s := cmp("extensions.subject_alt_name", sanOf(c), san); s != "" {
		return s
	}
	if s := cmp("extensions.issuer_alt_name", ianOf(c), ian); s != "" {
		return s
	}
	if s := cmp("extensions.name_constraints", ncOf(c), nc); s != "" {
		return s
	}
	wa, ws := x509.SubjAuthKeyId(c.AuthorityKeyId), x509.SubjAuthKeyId(c.SubjectKeyId)
	if s := cmp("extensions.authority_key_id", &wa, &akid); s != "" {
		return s
	}
	if s := cmp("extensions.subject_key_id", &ws, &skid); s != "" {
		return s
	}
	// unknown extensions: each must be an extension of the certificate, unchanged
	for i := range m.UnknownExtensions {
		u := m.UnknownExtensions[i]
		found := false
		for j := range c.Extensions {
			if c.Extensions[j].Id.Equal(u.Id) {
				found = true
				e := c.Extensions[j]
				if s := cmp(fmt.Sprintf("unknown_extensions[%s]", u.Id.String()), &e, &u); s != "" {
					return s
				}
			}
		}
		if !found {
			return "unknown_extensions: an extension that the certificate does not have"
		}
	}
	return ""
}

func compositeSpecs(tier string) []*spec {
	cs := certs()
	if len(cs) == 0 {
		return nil
	}
	out := parsedSpecs()
	out = append(out, &spec{Name: "x509.Certificate document (members of two-way types, decoded by their own UnmarshalJSON)", Scope: "composite", N: len(cs),
		Case:  func(i int) kase { return kase{Desc: cs[i].desc, Val: &certBox{cert: cs[i].cert}} },
		Fresh: func() any { return new(certBox) }, Diff: certDiff,
		Space: fmt.Sprintf("json.Marshal(cert) of %d parsed certificates; members: signature_algorithm (2x), issuer, subject, validity, subject_key_info.key_algorithm/fingerprint, 6 fingerprints, extensions.key_usage/subject_alt_name/issuer_alt_name/name_constraints/authority_key_id/subject_key_id, unknown_extensions", len(cs))})
	out = append(out, handshakeSpecs()...)
	return out
}

// parsedValueCoverage: which enum values the parser actually produced (vacuity guard; goes into the evidence).
func parsedValueCoverage() map[string]any {
	sig, key := map[int]int{}, map[int]int{}
	for _, cc := range certs() {
		sig[int(cc.cert.SignatureAlgorithm)]++
		key[int(cc.cert.PublicKeyAlgorithm)]++
	}
	keys := func(m map[int]int) []int {
		var l []int
		for k := range m {
			l = append(l, k)
		}
		sort.Ints(l)
		return l
	}
	forms := map[string]int{}
	nc, unk := 0, 0
	for _, cc := range certs() {
		for _, g := range []*x509.GeneralNames{sanOf(cc.cert), ianOf(cc.cert)} {
			for k, n := range map[string]int{"directoryName": len(g.DirectoryNames), "dNSName": len(g.DNSNames), "ediPartyName": len(g.EDIPartyNames), "rfc822Name": len(g.EmailAddresses),
				"iPAddress": len(g.IPAddresses), "otherName": len(g.OtherNames), "registeredID": len(g.RegisteredIDs), "uniformResourceIdentifier": len(g.URIs)} {
				forms[k] += n
			}
		}
		if len(cc.cert.PermittedDNSNames)+len(cc.cert.PermittedIPAddresses)+len(cc.cert.ExcludedIPAddresses) > 0 {
			nc++
		}
		if _, u := cc.cert.JsonifyExtensions(); len(u) > 0 {
			unk++
		}
	}
	return map[string]any{"certificates": len(certs()), "signature_algorithm_values": keys(sig), "public_key_algorithm_values": keys(key),
		"general_name_forms": forms, "certificates_with_name_constraints": nc, "certificates_with_unknown_extensions": unk, "handshake_logs": len(hsCases), "notes": certNotes}
}

// ---- (3) the handshake log of a real connection as a composite

// hsMembers: the members of tls.ServerHandshake whose types decode (the
// certificate member embeds x509.Certificate, whose decoder always errors).
type hsMembers struct {
	ClientHello       *tls.ClientHello       `json:"client_hello"`
	ServerHello       *tls.ServerHello       `json:"server_hello"`
	ServerKeyExchange *tls.ServerKeyExchange `json:"server_key_exchange"`
	ClientKeyExchange *tls.ClientKeyExchange `json:"client_key_exchange"`
}

type hsBox struct {
	log   *tls.ServerHandshake
	byVal bool // marshal the struct VALUE: every member is reached through a pointer, so the document must be the same
	m     hsMembers
}

func (b *hsBox) MarshalJSON() ([]byte, error) {
	if b.byVal {
		return json.Marshal(*b.log)
	}
	return json.Marshal(b.log)
}
func (b *hsBox) UnmarshalJSON(doc []byte) error { return json.Unmarshal(doc, &b.m) }

func hsDiff(o, d any) string {
	l, m := o.(*hsBox).log, &d.(*hsBox).m
	want := hsMembers{l.ClientHello, l.ServerHello, l.ServerKeyExchange, l.ClientKeyExchange}
	return vdiff(reflect.ValueOf(want), reflect.ValueOf(*m), "handshake_log")
}

type hsCase struct {
	desc string
	log  *tls.ServerHandshake
}

var (
	hsOnce  sync.Once
	hsCases []hsCase
)

func buildHandshakes() {
	type cfg struct {
		desc   string
		key    string
		max    uint16
		suites []uint16
	}
	for _, cf := range []cfg{
		{"TLS 1.2 ECDHE_RSA (RSA-2048 certificate)", "rsa2048", tls.VersionTLS12, []uint16{tls.TLS_ECDHE_RSA_WITH_AES_128_GCM_SHA256}},
		{"TLS 1.2 RSA key exchange", "rsa2048", tls.VersionTLS12, []uint16{tls.TLS_RSA_WITH_AES_128_GCM_SHA256}},
		{"TLS 1.2 ECDHE_ECDSA (P-256 certificate)", "p256", tls.VersionTLS12, nil},
		{"TLS 1.3 (P-256 certificate)", "p256", tls.VersionTLS13, nil},
		{"TLS 1.0 (RSA-2048 certificate)", "rsa2048", tls.VersionTLS10, nil},
	} {
		id := tlsx.ServerIdentity(cf.key)
		cc, sc := tlsx.BaseConfigs(id, "c33-"+cf.desc)
		cc.MaxVersion, sc.MaxVersion = cf.max, cf.max
		if cf.suites != nil {
			cc.CipherSuites, sc.CipherSuites = cf.suites, cf.suites
		}
		s := tlsx.Handshake(cc, sc, nil)
		if s.Client.OKDone && s.Client.Conn.GetHandshakeLog() != nil {
			hsCases = append(hsCases, hsCase{cf.desc + " — client log", s.Client.Conn.GetHandshakeLog()})
			if l := s.Server.Conn.GetHandshakeLog(); l != nil && l.ClientHello != nil {
				hsCases = append(hsCases, hsCase{cf.desc + " — server log", l})
			}
		} else {
			certNotes = append(certNotes, fmt.Sprintf("handshake %q did not complete: client %v / server %v", cf.desc, s.Client.Err, s.Server.Err))
		}
		s.Close()
	}
}

func handshakeSpecs() []*spec {
	hsOnce.Do(buildHandshakes)
	hs := hsCases
	if len(hs) == 0 {
		return nil
	}
	return []*spec{{Name: "tls.ServerHandshake (log of a real connection; members decoded by their own types)", Scope: "composite", N: 2 * len(hs),
		Case: func(i int) kase {
			h := hs[i/2]
			d := h.desc + ", marshalled through a pointer"
			if i%2 == 1 {
				d = h.desc + ", marshalled BY VALUE"
			}
			return kase{Desc: d, Val: &hsBox{log: h.log, byVal: i%2 == 1}}
		},
		Fresh: func() any { return new(hsBox) }, Diff: hsDiff,
		Space: fmt.Sprintf("%d handshake logs (TLS 1.0/1.2/1.3; ECDHE, DHE, RSA key exchange; client and server side) × {pointer, value}; members client_hello, server_hello, server_key_exchange, client_key_exchange", len(hs))}}
}
