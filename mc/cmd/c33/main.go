// C33 — JSON encodings of zcrypto value types round-trip.
//
// Engine E2 (deviation-bounded / exhaustive input enumeration).
//
// For every type of the inventory (see inventory.go) the check enumerates a
// closed set of values — ALL values for the small enumerated types, all
// assignments with a bounded number of non-default members for the structured
// ones — and evaluates on the real zcrypto code
//
//	enc, err := json.Marshal(&v)        // may fail with an error: fine
//	err      := json.Unmarshal(enc, &w) // must succeed when the encoder succeeded
//	w == v                              // semantic equality, see diff.go
//
// with every step under recover(). The decoder of every type is additionally
// fed every document of a token pool (generic JSON tokens plus the type's own
// canonical encoding with each key missing / null / of a wrong type): it may
// return errors, it must not panic.
//
// The oracle is independent of zcrypto: equality is plain Go (big.Int by
// value, net.IP by address, distinguished names by attribute multiset), the
// domain of a type (which values the statement quantifies over) is written
// down per case in specs_*.go with the reason for every exclusion; excluded
// values are still executed and must not panic — their round-trip result is
// reported as information only.
package main

import (
	"encoding/json"
	"fmt"
	"hash/fnv"
	"reflect"
	"sort"
	"strings"
	"sync"

	"verifmc/internal/ev"
	"verifmc/internal/nohb"
)

// kase is one enumerated value of a type.
type kase struct {
	Desc string // concrete description of the value (goes into the witness)
	Val  any    // pointer to the value: always marshalled through the pointer
	OOD  string // non-empty: the value is outside the domain the statement quantifies over (reason)
}

// spec describes the enumeration and the equality of one type.
type spec struct {
	Name     string
	Scope    string // statement | design | composite | adjacent
	InfoOnly bool   // adjacent types: a failed round trip is information, never a violation
	N        int
	Case     func(i int) kase
	Fresh    func() any
	Diff     func(orig, dec any) string // "" when equal; otherwise "<path>: <kind>"
	NullCtx  bool                       // a "null" encoding is re-tried as a pointer member of a struct
	Repeat   int                        // decode repetitions per document (default 2)
	Canon    func() any                 // pointer to a fully populated value: baseline of the decoder pool
	Space    string                     // human description of the enumerated space
}

type witness struct {
	Type   string `json:"type"`
	Kind   string `json:"kind"` // roundtrip | pool
	Tier   string `json:"tier"`
	Index  int    `json:"index"`
	Case   string `json:"case,omitempty"`
	JSON   string `json:"json,omitempty"`
	Doc    string `json:"doc,omitempty"`
	Detail string `json:"detail"`
}

// result of one evaluation.
type result struct {
	class   string // outcome class for the histogram
	sig     string // non-empty: violation signature
	wit     witness
	enc     []byte
	trans   int // zcrypto operations executed
	oodFlag int // 1 when the value is outside the equality domain (only panics are reported for those)
}

func short(b []byte) string {
	s := string(b)
	if len(s) > 600 {
		s = s[:600] + "…"
	}
	return s
}

// roundTrip evaluates the oracle on one value.
func roundTrip(s *spec, tier string, idx int, k kase) (r result) {
	r.wit = witness{Type: s.Name, Kind: "roundtrip", Tier: tier, Index: idx, Case: k.Desc}
	if k.OOD != "" {
		r.oodFlag = 1
	}
	var enc []byte
	var err error
	r.trans++
	if p, msg, site := ev.Try(func() { enc, err = json.Marshal(k.Val) }); p {
		r.class = "VIOLATION encode panic"
		r.sig = fmt.Sprintf("encode: panic@%s: %s", site, ev.MsgClass(msg))
		r.wit.Detail = "json.Marshal panicked: " + msg
		return
	}
	if err != nil {
		// "decoding the encoded JSON succeeds" is vacuous when there is no encoding: an encoder
		// that refuses is accepted only for values outside the domain (each with its written reason:
		// a member the JSON schema makes mandatory is nil, a signature longer than the wire format
		// allows, an IP address that is neither 4 nor 16 bytes ...). In-domain values must encode.
		if k.OOD != "" {
			r.class = "info: out-of-domain value: the encoder refuses it [" + oodClass(k.OOD) + "]: " + ev.MsgClass(stripJSONPrefix(err.Error()))
			return
		}
		if s.InfoOnly {
			r.class = "info: adjacent type: the encoder refuses a value: " + ev.MsgClass(stripJSONPrefix(err.Error()))
			return
		}
		r.class = "VIOLATION encode error on an in-domain value"
		inner := err.Error()
		if i := strings.LastIndex(inner, "for type "); i >= 0 {
			if j := strings.Index(inner[i:], ": "); j >= 0 {
				inner = inner[i+j+2:]
			}
		}
		r.sig = fmt.Sprintf("%s: encoding an in-domain value fails: %s", s.Name, ev.MsgClass(inner))
		r.wit.Detail = "json.Marshal error: " + err.Error()
		return
	}
	r.enc = enc
	r.wit.JSON = short(enc)
	ood := k.OOD
	if s.InfoOnly && ood == "" {
		ood = "type is adjacent to the statement's list (reported as information)"
	}
	// The decoder is run Repeat times on the same document (2 by default): a
	// decoder whose result depends on map iteration order is caught as such.
	reps := s.Repeat
	if reps < 2 {
		reps = 2
	}
	diffs := map[string]int{}
	firstBad := ""
	for rep := 0; rep < reps; rep++ {
		dec := s.Fresh()
		r.trans++
		if p, msg, site := ev.Try(func() { err = json.Unmarshal(enc, dec) }); p {
			r.class = "VIOLATION decode panic"
			r.sig = fmt.Sprintf("decode: panic@%s: %s", site, ev.MsgClass(msg))
			r.wit.Detail = "json.Unmarshal of the type's own encoding panicked: " + msg
			return
		}
		if err != nil {
			if s.NullCtx && string(enc) == "null" {
				if note := nullInContext(s, k); note == "" {
					r.class = "absent value encodes as null: accepted as a pointer member, rejected as a top-level document (info)"
					return
				}
			}
			if ood != "" {
				r.class = "info: out-of-domain value encodes but does not decode [" + oodClass(ood) + "]"
				return
			}
			r.class = "VIOLATION encodes but cannot be decoded"
			r.sig = fmt.Sprintf("%s: encodes but decode fails: %s", s.Name, errClass(err.Error()))
			r.wit.Detail = "decode error: " + err.Error()
			return
		}
		d := s.Diff(k.Val, dec)
		diffs[d]++
		if d != "" && firstBad == "" {
			firstBad = d
		}
	}
	if firstBad == "" {
		if ood != "" {
			r.class = "roundtrip-ok (out-of-domain value)"
		} else {
			r.class = "roundtrip-ok"
		}
		return
	}
	if ood != "" {
		r.class = "info: out-of-domain value decodes to a different value [" + oodClass(ood) + "]"
		return
	}
	sigPart, detail := firstBad, firstBad
	if i := strings.Index(firstBad, " || "); i >= 0 {
		sigPart, detail = firstBad[:i], firstBad[:i]+" — "+firstBad[i+4:]
	}
	r.class = "VIOLATION decoded value differs"
	r.sig = fmt.Sprintf("%s: decoded value differs: %s", s.Name, sigPart)
	r.wit.Detail = "Unmarshal(Marshal(v)) != v: " + detail
	if len(diffs) > 1 {
		r.wit.Detail += fmt.Sprintf(" — NONDETERMINISTIC: %d decodings of the same document gave %d different outcomes %v", reps, len(diffs), diffs)
	}
	return
}

// errClass reduces a decode error to its class: digits collapsed, and the
// input-specific tail (after the first ": " segment that carries data) dropped.
func errClass(msg string) string {
	segs := strings.Split(ev.MsgClass(msg), ": ")
	out := segs[0]
	for _, sg := range segs[1:] {
		if strings.ContainsAny(sg, "N/") || len(out) > 80 {
			break
		}
		out += ": " + sg
	}
	return strings.TrimSpace(out)
}

func oodClass(s string) string {
	if i := strings.IndexByte(s, ':'); i > 0 {
		return s[:i]
	}
	return s
}

func stripJSONPrefix(s string) string {
	// "json: error calling MarshalJSON for type *x.T: <inner>" → keep, it names the type
	return s
}

// poolDecode feeds one document to the decoder of s.
func poolDecode(s *spec, tier string, idx int, doc string) (r result) {
	r.wit = witness{Type: s.Name, Kind: "pool", Tier: tier, Index: idx, Doc: doc}
	dec := s.Fresh()
	var err error
	r.trans++
	if p, msg, site := ev.Try(func() { err = json.Unmarshal([]byte(doc), dec) }); p {
		r.class = "VIOLATION pool decode panic"
		r.sig = fmt.Sprintf("decode: panic@%s: %s", site, ev.MsgClass(msg))
		r.wit.Detail = "json.Unmarshal panicked: " + msg
		return
	}
	if err != nil {
		r.class = "pool: decode error (allowed)"
		return
	}
	// the decoder produced a value of the type: encoding it must not panic either
	r.trans++
	if p, msg, site := ev.Try(func() { _, err = json.Marshal(dec) }); p {
		r.class = "VIOLATION pool re-encode panic"
		r.sig = fmt.Sprintf("encode: panic@%s: %s", site, ev.MsgClass(msg))
		r.wit.Detail = "json.Marshal of a value produced by the type's own decoder panicked: " + msg
		return
	}
	if err != nil {
		r.class = "pool: decoded, re-encode error (allowed)"
		return
	}
	r.class = "pool: decoded and re-encoded"
	return
}

type violAgg struct {
	sig   string
	order [4]int // spec index, kind (0 roundtrip, 1 pool), 0 in-domain / 1 out-of-domain value, case index — smallest wins (minimal witness)
	wit   witness
	count int64
}

type typeStat struct {
	Scope      string           `json:"scope"`
	Space      string           `json:"space"`
	Cases      int64            `json:"cases"`
	Distinct   int64            `json:"distinct_encodings"`
	PoolDocs   int64            `json:"pool_docs"`
	Classes    map[string]int64 `json:"classes"`
	Violations []string         `json:"violation_signatures,omitempty"`
	ByValue    string           `json:"encoding_of_a_non_addressable_value,omitempty"`
}

func less3(a, b [4]int) bool {
	for i := range a {
		if a[i] != b[i] {
			return a[i] < b[i]
		}
	}
	return false
}

func main() {
	if nohb.IsWorker() {
		nohb.WorkerMain(reentrantOps(), reentrantRepoDir())
		return
	}
	ev.Main("C33", "model_checking", func(c *ev.Ctx) {
		if c.Replay != nil {
			replay(c)
			return
		}
		specs := buildSpecs(c.Tier)
		c.Rule("per type: exhaustive values (enumerated types) or all member assignments with ≤ d non-default members (structured types, d=" +
			fmt.Sprint(devBound(c.Tier)) + " unless the full product is small) → json.Marshal → json.Unmarshal → semantic equality; " +
			"an encoder error is accepted only for a value outside the domain (reason written per case), in-domain values must encode; " +
			"values produced by the real parser: 46 certificates (CreateCertificate output with every key type / signature algorithm it offers, and the same spliced with each signature OID of RFC 3279/4055/5758/8410, unknown OIDs, X25519/DSA/unknown key algorithms), every two-way value of the parsed Certificate through its own JSON; " +
			"composites: the certificate document json.Marshal(cert) and the handshake log of real connections (pointer and by value), members decoded by their own UnmarshalJSON and compared with the source object; " +
			"decoder pool: generic JSON tokens + canonical encoding with each key (depth ≤ 3) missing/null/wrong type. " +
			"distinct = distinct JSON encodings produced per type")
		c.Assume(
			"values are marshalled through a pointer (the MarshalJSON methods have pointer receivers) and decoded into a fresh zero value",
			"equality is semantic: big.Int by value, nil slice = empty slice, net.IP by address (4- and 16-byte forms equal), IP networks by (address, mask) after IPv4 normalisation, time.Time by instant, pkix.Name by the multiset of (attribute type, string value) it denotes (fields or Names view), members tagged json:\"-\" ignored",
			"domain: values excluded from the equality verdict are listed per type with the reason (negative integers, nil members that the JSON schema marks mandatory, code points above the declared constants for which the code documents a lossy generic form, non-UTF-8 strings, subtree Min/Max ≠ 0, IP addresses that are neither 4 nor 16 bytes); they are still executed and must not panic. Every value the certificate parser produces is in the domain, except UnknownSignatureAlgorithm as a standalone value, whose non-decodability is pinned by the repository's TestSignatureAlgorithmJSON (inside the certificate document the unknown algorithm does round-trip and is demanded)",
			"by-value encoding: a survey of every json.Marshal call and MarshalJSON body of /repo (non-test) found no place where a holder of a pointer-receiver type is marshalled non-addressably (holders by value: tls.ClientHello/ServerHello/DigitalSignature/SupportedVersionsExt, json.ECDHParams, x509.JSONCertificate/JSONSubjectKeyInfo/JSONSignatureAlgorithm/JSONValidity, ocsp.Response, crl.RevocationData, verifier.VerificationResult/RevocationInfo; all reached through pointers or slices); the by-value probe of a standalone value therefore stays information, the real composites are asserted",
			"encoding/json itself is trusted",
		)

		type task struct{ spec, kind, lo, hi int }
		const chunk = 1024
		var tasks []task
		pools := make([][]string, len(specs))
		for si, s := range specs {
			for lo := 0; lo < s.N; lo += chunk {
				hi := lo + chunk
				if hi > s.N {
					hi = s.N
				}
				tasks = append(tasks, task{si, 0, lo, hi})
			}
			pools[si] = poolDocs(s)
			tasks = append(tasks, task{si, 1, 0, len(pools[si])})
		}

		W := c.Workers()
		hists := make([]ev.Hist, W)
		for i := range hists {
			hists[i] = ev.Hist{}
		}
		var mu sync.Mutex
		viol := map[string]*violAgg{}
		stats := make([]*typeStat, len(specs))
		seen := make([]map[uint64]struct{}, len(specs))
		for i, s := range specs {
			stats[i] = &typeStat{Scope: s.Scope, Space: s.Space, Classes: map[string]int64{}}
			seen[i] = map[uint64]struct{}{}
		}

		done := c.Parallel(len(tasks), func(w, ti int) {
			t := tasks[ti]
			s := specs[t.spec]
			local := map[string]int64{}
			var hashes []uint64
			var lv []*violAgg
			var trans int64
			for i := t.lo; i < t.hi; i++ {
				var r result
				if t.kind == 0 {
					r = roundTrip(s, c.Tier, i, s.Case(i))
					if r.enc != nil {
						h := fnv.New64a()
						h.Write(r.enc)
						hashes = append(hashes, h.Sum64())
					}
				} else {
					r = poolDecode(s, c.Tier, i, pools[t.spec][i])
				}
				trans += int64(r.trans)
				local[r.class]++
				if r.sig != "" {
					lv = append(lv, &violAgg{sig: r.sig, order: [4]int{t.spec, t.kind, r.oodFlag, i}, wit: r.wit, count: 1})
				}
			}
			c.Transitions.Add(trans)
			c.Evaluations.Add(int64(t.hi - t.lo))
			if t.kind == 0 {
				c.States.Add(int64(t.hi - t.lo))
			}
			for k, v := range local {
				hists[w][k] += v
			}
			mu.Lock()
			st := stats[t.spec]
			for k, v := range local {
				st.Classes[k] += v
			}
			if t.kind == 0 {
				st.Cases += int64(t.hi - t.lo)
				for _, h := range hashes {
					seen[t.spec][h] = struct{}{}
				}
			} else {
				st.PoolDocs += int64(t.hi - t.lo)
			}
			for _, v := range lv {
				if a, ok := viol[v.sig]; ok {
					a.count++
					if less3(v.order, a.order) {
						a.order, a.wit = v.order, v.wit
					}
				} else {
					viol[v.sig] = v
				}
			}
			mu.Unlock()
		})
		if !done {
			c.Incomplete("time budget hit before every (type, chunk) task was evaluated")
		}
		for _, h := range hists {
			c.Merge(h)
		}

		// report violations in deterministic order, minimal witness first
		var vs []*violAgg
		for _, v := range viol {
			vs = append(vs, v)
		}
		sort.Slice(vs, func(i, j int) bool { return less3(vs[i].order, vs[j].order) })
		for _, v := range vs {
			for n := int64(0); n < v.count; n++ {
				c.Violation(v.sig, v.wit)
			}
			st := stats[v.order[0]]
			st.Violations = append(st.Violations, v.sig)
		}

		var distinct, traces int64
		types := map[string]*typeStat{}
		for i, s := range specs {
			stats[i].Distinct = int64(len(seen[i]))
			distinct += stats[i].Distinct
			types[s.Name] = stats[i]
			for k, v := range stats[i].Classes {
				if strings.HasPrefix(k, "roundtrip-ok") || strings.Contains(k, "decodes to a different") || strings.Contains(k, "decoded value differs") {
					traces += v
				}
			}
		}
		for i, s := range specs {
			stats[i].ByValue = byValueProbe(s)
			c.Outcome("by-value probe (info): "+stats[i].ByValue, 1)
		}
		c.Distinct.Store(distinct)
		c.Traces.Store(traces)
		cov := parsedValueCoverage()
		c.Set("parser_produced_values", cov)
		formsOK := true
		for _, n := range cov["general_name_forms"].(map[string]int) {
			formsOK = formsOK && n > 0
		}
		if n := len(cov["signature_algorithm_values"].([]int)); n < 12 || len(cov["public_key_algorithm_values"].([]int)) < 6 || !formsOK ||
			len(cov["general_name_forms"].(map[string]int)) != 8 || cov["certificates_with_name_constraints"].(int) == 0 || cov["certificates_with_unknown_extensions"].(int) == 0 {
			c.Broken("the certificate generator of specs_composite.go no longer produces the intended spread of parsed values: %v", cov)
		}
		c.Set("types", types)
		c.Set("types_checked", len(specs))
		c.Set("excluded_types", excluded)
		c.Set("deviation_bound", devBound(c.Tier))

		reentrantPhase(c)
		// a few samples: one encoding per family
		for _, name := range []string{"tls.CipherSuiteID", "json.DHParams", "x509.GeneralNames", "x509.GeneralSubtreeIP", "pkix.Name (parsed from RDNSequence)", "ct.DigitallySigned"} {
			for _, s := range specs {
				if s.Name == name && s.N > 3 {
					k := s.Case(s.N / 3)
					b, err := json.Marshal(k.Val)
					c.Sample(map[string]any{"type": name, "case": k.Desc, "json": short(b), "encode_error": fmt.Sprint(err)})
				}
			}
		}
	})
}

// byValueProbe (information only): the MarshalJSON methods of most of these
// types have pointer receivers, so a value that encoding/json cannot address
// (passed by value, map element, member of a struct passed by value) is
// encoded by the default rules instead. The statement does not say how the
// value reaches the encoder; the check marshals through a pointer and only
// records what the other route does for the canonical value of each type.
func byValueProbe(s *spec) (out string) {
	if s.Canon == nil {
		return "not probed"
	}
	defer func() {
		if r := recover(); r != nil {
			out = fmt.Sprintf("by-value route panics: %v", r)
		}
	}()
	p := s.Canon()
	viaPtr, err1 := json.Marshal(p)
	viaVal, err2 := json.Marshal(reflect.ValueOf(p).Elem().Interface())
	if err1 != nil || err2 != nil {
		return "encode error"
	}
	if string(viaPtr) == string(viaVal) {
		return "same document as through a pointer"
	}
	dec := s.Fresh()
	if err := json.Unmarshal(viaVal, dec); err != nil {
		return "different document (default encoding), which the type's decoder rejects"
	}
	if s.Diff(p, dec) != "" {
		return "different document (default encoding), which decodes to a different value"
	}
	return "different document (default encoding), which decodes to an equal value"
}

func replay(c *ev.Ctx) {
	var w witness
	if err := json.Unmarshal(c.Replay, &w); err != nil {
		c.Broken("bad witness: %v", err)
	}
	tier := w.Tier
	if tier == "" {
		tier = "quick"
	}
	for _, s := range buildSpecs(tier) {
		if s.Name != w.Type {
			continue
		}
		var r result
		if w.Kind == "pool" {
			r = poolDecode(s, tier, w.Index, w.Doc)
		} else {
			if w.Index < 0 || w.Index >= s.N {
				c.Broken("witness index %d out of range for %s", w.Index, s.Name)
			}
			r = roundTrip(s, tier, w.Index, s.Case(w.Index))
		}
		c.States.Add(1)
		c.Transitions.Add(int64(r.trans))
		c.Outcome(r.class, 1)
		fmt.Printf("replay %s #%d: %s\n", s.Name, w.Index, r.class)
		if r.sig != "" {
			c.Violation(r.sig, r.wit)
		}
		return
	}
	c.Broken("unknown type %q in witness", w.Type)
}

func devBound(tier string) int {
	if tier == "thorough" {
		return 5
	}
	return 3
}
