package main

// Reader behaviour as an environment answer (third strengthening round).
//
// Every decoder that takes an io.Reader (ct and x509/ct: DeserializeSCT, UnmarshalDigitallySigned; ct:
// ReadMerkleTreeLeaf, ReadTimestampedEntryInto) is handed its input through bytes.Reader by the oracles of part A.
// How a Reader cuts the stream into Read results is decided by the environment (a net.Conn, a bufio boundary, a pipe)
// and io.Reader allows all of it: fewer bytes than asked for, (0, nil), the last bytes together with io.EOF. The
// serialisation of a value is a byte string, not a sequence of Read results: for EVERY input of part A (well-formed
// and malformed alike) the decoder's result — the value and the number of bytes consumed, or the error class — must be
// the same for every behaviour of the menu below as for the all-at-once baseline.
//
// Menu: one byte per Read; half of the request per Read ((len(p)+1)/2, as iotest.HalfReader); everything asked for
// with io.EOF delivered together with the last bytes; one byte per Read with io.EOF on the last; a split at offset k
// (no Read crosses k); a split at k plus ONE (0, nil) answer at k. k ranges over every offset 0..n for inputs of at
// most 64 bytes; for longer inputs the splits are at every offset at which the baseline run issued a Read (the field
// boundaries of that decoder on that input) and the final position, each ±1, the (0, nil) answers at those offsets
// themselves. The four k-less behaviours only: cases marked reader_menu=core (the 248 substitution values outside the
// 7-value alphabet in the full-alphabet byte sweeps; quick tier: inputs above 4 KiB at enumeration depth 3 of A1/A4)
// One-byte behaviour only: inputs on which the all-at-once run asks in one Read for more than 4 KiB and more than the
// whole input holds (the decoder has allocated a buffer for a declared length of up to 16 MiB).

import (
	"crypto/sha256"
	"encoding/binary"
	"fmt"
	"io"
	"sort"

	"github.com/zmap/zcrypto/ct"
	"verifmc/internal/ev"
)

type rdBeh struct {
	kind string // all | one-byte | half | split | split+zero-read
	k    int
	eof  bool // io.EOF together with the last bytes
}

func (b rdBeh) class() string {
	s := b.kind
	if b.kind == "split" || b.kind == "split+zero-read" {
		s += " at k"
	}
	if b.eof {
		s += ", io.EOF with the last bytes"
	}
	return s
}

type menuReader struct {
	b        []byte
	pos      int
	beh      rdBeh
	big      bool
	zeroDone bool
	rec      bool
	offs     []int
	maxReq   int
}

func (m *menuReader) Read(p []byte) (int, error) {
	if m.rec {
		m.offs = append(m.offs, m.pos)
		if len(p) > m.maxReq {
			m.maxReq = len(p)
		}
	}
	if len(p) == 0 {
		return 0, nil
	}
	if m.beh.kind == "split+zero-read" && m.pos == m.beh.k && !m.zeroDone {
		m.zeroDone = true
		return 0, nil
	}
	rem := len(m.b) - m.pos
	if rem == 0 {
		return 0, io.EOF
	}
	n := len(p)
	if n > rem {
		n = rem
	}
	switch m.beh.kind {
	case "one-byte":
		// (inputs above 4 KiB: requests of 256 bytes and more are served 1021 bytes at a time — still in pieces)
		if !(m.big && len(p) >= 256) {
			n = 1
		} else if n > 1021 {
			n = 1021
		}
	case "half":
		if h := (len(p) + 1) / 2; n > h {
			n = h
		}
	case "split", "split+zero-read":
		if m.pos < m.beh.k && m.pos+n > m.beh.k {
			n = m.beh.k - m.pos
		}
	}
	copy(p, m.b[m.pos:m.pos+n])
	m.pos += n
	if m.beh.eof && m.pos == len(m.b) {
		return n, io.EOF
	}
	return n, nil
}

func rdMenu(n int, bounds []int, full bool) []rdBeh {
	out := []rdBeh{{kind: "one-byte"}, {kind: "half"}, {kind: "all", eof: true}, {kind: "one-byte", eof: true}}
	if !full {
		return out
	}
	splits, zeros := map[int]bool{}, map[int]bool{}
	if n <= 64 {
		for k := 0; k <= n; k++ {
			splits[k], zeros[k] = true, true
		}
	} else {
		for _, b := range bounds {
			zeros[b] = true
			for d := -1; d <= 1; d++ {
				if b+d >= 0 && b+d <= n {
					splits[b+d] = true
				}
			}
		}
	}
	keys := func(m map[int]bool) []int {
		var ks []int
		for k := range m {
			ks = append(ks, k)
		}
		sort.Ints(ks)
		return ks
	}
	for _, k := range keys(splits) {
		if k > 0 && k < n {
			out = append(out, rdBeh{kind: "split", k: k})
		}
	}
	for _, k := range keys(zeros) {
		out = append(out, rdBeh{kind: "split+zero-read", k: k})
	}
	return out
}

func digest(parts ...[]byte) string {
	h := sha256.New()
	var l [8]byte
	for _, p := range parts {
		binary.BigEndian.PutUint64(l[:], uint64(len(p)))
		h.Write(l[:])
		h.Write(p)
	}
	return fmt.Sprintf("%x", h.Sum(nil)[:12])
}

func sctKey(v sctVal) string {
	return digest([]byte{v.Ver, v.Hash, v.Alg}, v.LogID[:], binary.BigEndian.AppendUint64(nil, v.TS), v.Ext, v.Sig)
}
func dsKey(v dsVal) string { return digest([]byte{v.Hash, v.Alg}, v.Sig) }
func teKey(t *ct.TimestampedEntry) string {
	return digest(binary.BigEndian.AppendUint64(nil, t.Timestamp), binary.BigEndian.AppendUint16(nil, uint16(t.EntryType)), t.X509Entry,
		t.PrecertEntry.IssuerKeyHash[:], t.PrecertEntry.TBSCertificate, t.Extensions)
}

func rdOutcome(v string, err error, pos int) (res, short string) {
	if err != nil {
		return "rejects: " + errClass(err), "rejects"
	}
	return fmt.Sprintf("accepts value %s consuming %d bytes", v, pos), "accepts"
}

// readerMenu runs dec on b through every reader behaviour and demands the all-at-once result.
func (r *R) readerMenu(cs *Case, fn string, b []byte, dec func(io.Reader) (string, error)) {
	base := &menuReader{b: b, beh: rdBeh{kind: "all"}, rec: true}
	var bv string
	var berr error
	r.calls++
	if !r.guard(cs, fn, func() { bv, berr = dec(base) }) {
		return
	}
	bres, bshort := rdOutcome(bv, berr, base.pos)
	bounds := append(base.offs, base.pos)
	// (a decoder that asks in one Read for more than 4 KiB and more than the whole input holds has allocated a buffer
	// for a declared length of up to 16 MiB that the input cannot satisfy: one-byte behaviour only)
	menu := rdMenu(len(b), bounds, cs.Menu != "core")
	if base.maxReq > 4096 && base.maxReq > len(b) {
		menu = menu[:1]
	}
	for _, beh := range menu {
		m := &menuReader{b: b, beh: beh, big: len(b) > 4096}
		var v string
		var err error
		r.calls++
		if p, msg, site := ev.Try(func() { v, err = dec(m) }); p {
			r.viol("panic@"+site+": "+ev.MsgClass(msg)+" [reader: "+beh.class()+"]", cs, fmt.Sprintf("%s panicked with reader %s k=%d: %s", fn, beh.class(), beh.k, msg))
			return
		}
		res, short := rdOutcome(v, err, m.pos)
		if res != bres {
			what := short
			switch {
			case short == "accepts" && bshort == "accepts":
				what = "accepts another value or consumes another number of bytes"
			case short == "rejects" && bshort == "rejects":
				what = "rejects with another error class"
			}
			// one signature per entry point: which behaviour differs first and how is in the detail
			r.viol(fn+": result depends on how the io.Reader delivers the bytes", cs,
				fmt.Sprintf("all-at-once %s, reader [%s] %s; reader %s k=%d: %s; all-at-once: %s", bshort, beh.class(), what, beh.class(), beh.k, res, bres))
			return
		}
	}
	r.h[fmt.Sprintf("reader-behaviour %s: every behaviour of the menu gives the all-at-once result (%s)", fn, bshort)]++
	r.h["reader-behaviour: decoder runs through a non-baseline reader that agree with the all-at-once run"] += int64(len(menu))
}
