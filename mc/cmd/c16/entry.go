package main

// Entry-point oracles (second strengthening round).
//
// The round-trip oracle of part A gives every VALUE to SerializeSCT / MarshalDigitallySigned; a
// second entry point to the same serialiser (the caller-buffer variant SerializeSCTHere) was only
// tried on values SerializeSCT had accepted. Three additions:
//
//  E0. inventory: the exported functions and methods of the five anchored source files are read
//      with go/parser and compared with the table below; every exported serialisation entry
//      point must be in the table (an unknown exported name makes the run incomplete).
//  E1. SerializeSCTHere x buffer {nil | empty non-nil | exact | one byte larger | 4 KiB larger
//      filled with garbage | one byte too small | header only | short length but large capacity}
//      x the FULL product of the length-field boundaries of every variable-length field
//      (extensions 0,1,2,255,256,65535,65536,65537; signature 0,1,255,256,65535,65536,65537)
//      x version x timestamp x ids x log id: same oracle as SerializeSCT (bytes equal the
//      independent RFC 6962 serialisation and decode to the value, or an error; a value with no
//      serialisation must be refused whatever the buffer), the documented ErrNotEnoughBuffer for
//      a buffer that is too small, the result written into the caller's buffer.
//  E2. entry-point histories: every exported serialiser (both packages, binary and text forms,
//      SerializedLength, SerializeSCTHere with ONE caller buffer re-used) x every sequence of
//      two calls in which the second value is the first with one field replaced (all other
//      fields are the SAME Go slices, as for a caller who updates a struct and serialises it
//      again) or with the bytes of one field overwritten IN PLACE: both results must equal the
//      reference of the value passed to that call. Executed on one goroutine with nothing else
//      running (storage remembered between calls by identity or content shows up only here).

import (
	"bytes"
	"errors"
	"fmt"
	"go/ast"
	"go/parser"
	"go/token"
	"os"
	"path/filepath"
	"sort"
	"strings"

	"github.com/zmap/zcrypto/ct"
	xct "github.com/zmap/zcrypto/x509/ct"
	"verifmc/internal/ev"
)

// ---------------------------------------------------------------------------
// E0: inventory

// entryPoints: every exported function / method of the anchored files and what exercises it.
// "ser:" = serialisation entry point (value -> bytes/text/length), covered by the named parts.
var entryPoints = map[string]string{
	"ct.MarshalDigitallySigned":                      "ser: A2 E2",
	"ct.SerializeSCT":                                "ser: A1 E2",
	"ct.SerializeSCTHere":                            "ser: A1 E1 E2",
	"ct.SignedCertificateTimestamp.SerializedLength": "ser: A1 E1 E2",
	"ct.SerializeSCTSignatureInput":                  "ser: B E2",
	"ct.SerializeSTHSignatureInput":                  "ser: B E2",
	"ct.DigitallySigned.Base64String":                "ser: A2 E2",
	"ct.DigitallySigned.MarshalJSON":                 "ser: A2 E2",
	"ct.SHA256Hash.Base64String":                     "ser: A1 E2",
	"ct.SHA256Hash.MarshalJSON":                      "ser: A1 E2",
	"ct.SignedCertificateTimestamp.MarshalJSON":      "ser: A1 E2",
	"x509/ct.MarshalDigitallySigned":                 "ser: A2 E2",
	"x509/ct.DigitallySigned.Base64String":           "ser: A2 E2",
	"x509/ct.DigitallySigned.MarshalJSON":            "ser: A2 E2",
	"x509/ct.SHA256Hash.Base64String":                "ser: A1 E2",
	"x509/ct.SHA256Hash.MarshalJSON":                 "ser: A1 E2",
	"x509/ct.SignedCertificateTimestamp.MarshalJSON": "ser: A1 E2",

	"ct.ReadTimestampedEntryInto":              "dec: A3 A4 (through ReadMerkleTreeLeaf)",
	"ct.ReadMerkleTreeLeaf":                    "dec: A3 A4",
	"ct.UnmarshalX509ChainArray":               "dec: A3 A5",
	"ct.UnmarshalPrecertChainArray":            "dec: A3 A5",
	"ct.UnmarshalDigitallySigned":              "dec: A2 A3",
	"ct.DeserializeSCT":                        "dec: A1 A3",
	"ct.DigitallySigned.FromBase64String":      "dec: A2",
	"ct.DigitallySigned.UnmarshalJSON":         "dec: A2",
	"ct.SHA256Hash.FromBase64String":           "dec: A1",
	"ct.SHA256Hash.UnmarshalJSON":              "dec: A1",
	"x509/ct.UnmarshalDigitallySigned":         "dec: A2 A3",
	"x509/ct.DeserializeSCT":                   "dec: A1 A3",
	"x509/ct.DigitallySigned.FromBase64String": "dec: A2",
	"x509/ct.DigitallySigned.UnmarshalJSON":    "dec: A2",
	"x509/ct.SHA256Hash.FromBase64String":      "dec: A1",
	"x509/ct.SHA256Hash.UnmarshalJSON":         "dec: A1",

	"ct.PublicKeyFromPEM":                     "verify: K",
	"ct.NewSignatureVerifier":                 "verify: K",
	"ct.SignatureVerifier.VerifySCTSignature": "verify: B C",
	"ct.SignatureVerifier.VerifySTHSignature": "verify: B C",

	// display names / accessors: not serialisations of the structures the statement names
	"ct.LogEntryType.String":                    "other",
	"ct.MerkleLeafType.String":                  "other",
	"ct.Version.String":                         "other",
	"ct.SignatureType.String":                   "other",
	"ct.HashAlgorithm.String":                   "other",
	"ct.SignatureAlgorithm.String":              "other",
	"ct.SignedCertificateTimestamp.String":      "other",
	"ct.MerkleTreeLeaf.X509Certificate":         "other",
	"ct.MerkleTreeLeaf.Precertificate":          "other",
	"ct.LogEntry.String":                        "other",
	"ct.SignedTreeHead.String":                  "other",
	"ct.TimestampedEntry.String":                "other",
	"x509/ct.HashAlgorithm.String":              "other",
	"x509/ct.SignatureAlgorithm.String":         "other",
	"x509/ct.Version.String":                    "other",
	"x509/ct.SignedCertificateTimestamp.String": "other",
	"x509/ct.SignatureType.String":              "other",
	"x509/ct.LogEntryType.String":               "other",
	"x509/ct.MerkleLeafType.String":             "other",
}

func repoDir() string {
	if v := os.Getenv("VERIF_REPO_DIR"); v != "" {
		return v
	}
	return "/repo"
}

// exportedFuncs lists "pkg.Func" / "pkg.Type.Method" of the exported functions in file.
func exportedFuncs(pkg, file string) ([]string, error) {
	f, err := parser.ParseFile(token.NewFileSet(), file, nil, parser.SkipObjectResolution)
	if err != nil {
		return nil, err
	}
	var out []string
	for _, d := range f.Decls {
		fd, ok := d.(*ast.FuncDecl)
		if !ok || !fd.Name.IsExported() {
			continue
		}
		name := pkg + "."
		if fd.Recv != nil && len(fd.Recv.List) == 1 {
			t := fd.Recv.List[0].Type
			if s, ok := t.(*ast.StarExpr); ok {
				t = s.X
			}
			id, ok := t.(*ast.Ident)
			if !ok || !id.IsExported() {
				continue
			}
			name += id.Name + "."
		}
		out = append(out, name+fd.Name.Name)
	}
	return out, nil
}

func partInventory(c *ev.Ctx) {
	files := []struct{ pkg, rel string }{{"ct", "ct/serialization.go"}, {"ct", "ct/types.go"}, {"ct", "ct/signatures.go"},
		{"x509/ct", "x509/ct/serialization.go"}, {"x509/ct", "x509/ct/types.go"}}
	var ser, unknown []string
	seen := map[string]bool{}
	for _, f := range files {
		names, err := exportedFuncs(f.pkg, filepath.Join(repoDir(), f.rel))
		if err != nil {
			c.Incomplete("entry-point inventory: cannot read " + f.rel + ": " + err.Error())
			return
		}
		for _, n := range names {
			seen[n] = true
			cl, ok := entryPoints[n]
			switch {
			case !ok:
				unknown = append(unknown, n)
			case strings.HasPrefix(cl, "ser:"):
				ser = append(ser, n)
			}
		}
	}
	sort.Strings(ser)
	sort.Strings(unknown)
	c.Set("E0_serialisation_entry_points", ser)
	c.Outcome("inventory: exported serialisation entry points, all driven", int64(len(ser)))
	var gone []string
	for n, cl := range entryPoints {
		if strings.HasPrefix(cl, "ser:") && !seen[n] {
			gone = append(gone, n)
		}
	}
	sort.Strings(gone)
	if len(unknown) > 0 {
		c.Set("E0_unknown_exported_functions", unknown)
		c.Incomplete("exported functions of ct / x509/ct that no oracle of this check drives (add them to the entry-point table): " + strings.Join(unknown, ", "))
	}
	if len(gone) > 0 {
		c.Set("E0_missing_entry_points", gone)
	}
}

// ---------------------------------------------------------------------------
// E1: SerializeSCTHere x caller buffers

var hereKinds = []string{"nil", "empty-non-nil", "exact", "exact+1", "exact+4096 garbage", "exact-1", "header-only(43)", "len exact-1, cap exact+64"}

// hereBuffer returns the buffer of that kind for a structure of need bytes; sufficient: 1 yes, 0 no, -1 either.
func hereBuffer(kind string, need int) (buf []byte, sufficient int) {
	garbage := func(n int) []byte {
		b := make([]byte, n)
		for i := range b {
			b[i] = 0xa5 ^ byte(i*7)
		}
		return b
	}
	switch kind {
	case "nil":
		return nil, 1
	case "empty-non-nil":
		return []byte{}, 0
	case "exact":
		return garbage(need), 1
	case "exact+1":
		return garbage(need + 1), 1
	case "exact+4096 garbage":
		return garbage(need + 4096), 1
	case "exact-1":
		return garbage(need - 1), 0
	case "header-only(43)":
		return garbage(43), 0
	case "len exact-1, cap exact+64":
		return garbage(need + 64)[:need-1], -1
	}
	panic("unknown buffer kind " + kind)
}

func partHere(c *ev.Ctx) {
	lens := []int{0, 1, 2, 255, 256, 65535, 65536, 65537}
	slens := []int{0, 1, 255, 256, 65535, 65536, 65537}
	bt := newBatch(c, "E1 SerializeSCTHere buffers")
	for _, ver := range []uint8{0, 1} {
		for _, el := range lens {
			ext := pat(el, 0x21)
			for _, sl := range slens {
				sig := pat(sl, 0x41)
				for _, ts := range []uint64{T0ms, 1<<64 - 1} {
					for _, ids := range [][2]byte{{4, 3}, {255, 255}} {
						for li, lid := range [][]byte{baseLogID, fill(32, 0xff)} {
							for _, hk := range hereKinds {
								bt.add(Case{Kind: "sct-here", Pkg: "ct", Key: hk, Ver: ver, LogID: lid, TS: ts, Ext: ext, Hash: ids[0], SigAlg: ids[1], Sig: sig,
									Note: fmt.Sprintf("version=%d extensions=%d signature=%d timestamp=%d ids=%d/%d logid#%d buffer=%s", ver, el, sl, ts, ids[0], ids[1], li, hk)})
							}
						}
					}
				}
			}
		}
	}
	c.Set("E1_sct_here", fmt.Sprintf("version{0,1} x extensions %v x signature %v x timestamp(2) x ids(2) x log_id(2) x buffer %q: %d cases", lens, slens, hereKinds, bt.done()))
}

func (r *R) sctHere(cs *Case) {
	v := cs.sct()
	ref, expressible := encSCT(v)
	tag := sizeTag(v.Ver, v.Ext, v.Sig)
	r.evals++
	// the size a caller would ask for: the package's own SerializedLength when it gives one
	// (it must equal the reference length whenever the value has a serialisation)
	z := ctSCT(v)
	need := 1 + 32 + 8 + 2 + len(v.Ext) + 4 + len(v.Sig)
	var n int
	var lerr error
	if !r.guard(cs, "SerializedLength", func() { n, lerr = z.SerializedLength() }) {
		return
	}
	if expressible && (lerr != nil || n != len(ref)) {
		r.viol("ct.SignedCertificateTimestamp.SerializedLength: not the length of the RFC 6962 serialisation ["+tag+"]", cs, fmt.Sprintf("SerializedLength=%d,%v reference %d", n, lerr, len(ref)))
		return
	}
	if expressible {
		need = len(ref)
	}
	buf, sufficient := hereBuffer(cs.Key, need)
	before := append([]byte(nil), buf[:cap(buf)]...)
	fn := "ct.SerializeSCTHere(buffer: " + bufClass(cs.Key) + ")"
	var out []byte
	var err error
	r.calls++
	if !r.guard(cs, fn, func() { out, err = ct.SerializeSCTHere(z, buf) }) {
		return
	}
	switch {
	case !expressible:
		// no bytes deserialise to this value: only an error is truthful, whatever the buffer
		if err != nil {
			r.h["sct-here: value without serialisation refused: "+errClass(err)]++
			return
		}
		if !r.sctBytesRoundTrip(cs, fn, out, v, tag) {
			r.viol(fn+": no error for a value that has no RFC 6962 serialisation ["+tag+"]", cs, fmt.Sprintf("%d bytes", len(out)))
		}
	case err != nil:
		r.h["sct-here: error: "+errClass(err)]++
		switch {
		case sufficient == 1:
			r.viol(fn+": refuses a serialisable SCT although the buffer is large enough ["+tag+"]", cs, fmt.Sprintf("buffer %d, needed %d: %v", len(buf), need, err))
		case !errors.Is(err, ct.ErrNotEnoughBuffer):
			r.viol(fn+": buffer too small, but the error is not the documented ErrNotEnoughBuffer", cs, err.Error())
		}
	case sufficient == 0:
		r.viol(fn+": no error although the buffer is too small ["+tag+"]", cs, fmt.Sprintf("buffer %d, needed %d, returned %d bytes", len(buf), need, len(out)))
	default:
		if r.sctBytesRoundTrip(cs, fn, out, v, tag) {
			return
		}
		if !bytes.Equal(out, ref) {
			r.viol(fn+": bytes differ from the RFC 6962 §3.2 layout ["+tag+"]", cs, firstDiff(out, ref))
			return
		}
		if len(buf) > 0 && len(out) > 0 {
			if &out[0] != &buf[0] {
				r.viol(fn+": the result is not written into the caller's buffer", cs, "")
				return
			}
			if bytes.Equal(buf[:cap(buf)][len(out):], before[len(out):]) {
				r.h["sct-here: caller's bytes beyond the structure untouched"]++
			} else {
				r.h["info: sct-here: caller's bytes beyond the structure were overwritten (statement silent)"]++
			}
		}
		r.h["sct-here: serialised, equals reference ("+bufClass(cs.Key)+")"]++
	}
}

func bufClass(k string) string {
	switch k {
	case "nil":
		return "nil"
	case "exact", "exact+1", "exact+4096 garbage":
		return "caller's, large enough"
	case "len exact-1, cap exact+64":
		return "caller's, short length / large capacity"
	}
	return "caller's, too small"
}

// ---------------------------------------------------------------------------
// E2: entry-point histories

type epFn struct {
	name string
	kind string // which base value / deviations apply
	call func(cs *Case) ([]byte, error)
	// ref: reference bytes; ok=false: the value has no such form (an error is required).
	// silent=true: the statement does not fix the verdict for this value (refusal and the reference are both fine).
	ref func(cs *Case) (b []byte, ok bool, silent bool)
}

var hereShared = make([]byte, 1<<17)

func epFns() []epFn {
	ds := func(cs *Case) dsVal { return dsVal{cs.Hash, cs.SigAlg, cs.Sig} }
	sctRef := func(cs *Case) ([]byte, bool, bool) { b, ok := encSCT(cs.sct()); return b, ok, false }
	dsRef := func(cs *Case) ([]byte, bool, bool) { b, ok := encDS(ds(cs)); return b, ok, false }
	dsB64 := func(cs *Case) ([]byte, bool, bool) {
		b, ok := refDSJSON(ds(cs))
		if !ok {
			return nil, false, false
		}
		return b[1 : len(b)-1], true, false
	}
	dsJSON := func(cs *Case) ([]byte, bool, bool) { b, ok := refDSJSON(ds(cs)); return b, ok, false }
	hJSON := func(cs *Case) ([]byte, bool, bool) { return refHashJSON(arr32(cs.LogID)), true, false }
	hB64 := func(cs *Case) ([]byte, bool, bool) {
		b := refHashJSON(arr32(cs.LogID))
		return b[1 : len(b)-1], true, false
	}
	sctJ := func(cs *Case) ([]byte, bool, bool) { b, ok := refSCTJSON(cs.sct()); return b, ok, false }
	inRef := func(cs *Case) ([]byte, bool, bool) {
		b, valid, _ := refSCTInput(cs.Ver, cs.TS, cs.EntryType, cs.Cert, arr32(cs.IKH), cs.TBS, cs.Ext)
		if b != nil && !valid {
			return b, true, true // expressible but not a legal v1 value: refusal or the layout
		}
		return b, valid, false
	}
	sthRef := func(cs *Case) ([]byte, bool, bool) {
		b, valid := refSTHInput(cs.Ver, cs.TS, cs.TreeSize, arr32(cs.Root))
		return b, valid, !valid
	}
	str := func(s string, err error) ([]byte, error) { return []byte(s), err }
	return []epFn{
		{"ct.SerializeSCT", "sct", func(cs *Case) ([]byte, error) { return ct.SerializeSCT(ctSCT(cs.sct())) }, sctRef},
		{"ct.SerializeSCTHere(nil)", "sct", func(cs *Case) ([]byte, error) { return ct.SerializeSCTHere(ctSCT(cs.sct()), nil) }, sctRef},
		{"ct.SerializeSCTHere(one caller buffer re-used)", "sct", func(cs *Case) ([]byte, error) { return ct.SerializeSCTHere(ctSCT(cs.sct()), hereShared) }, sctRef},
		{"ct.SignedCertificateTimestamp.SerializedLength", "sct", func(cs *Case) ([]byte, error) {
			n, err := ctSCT(cs.sct()).SerializedLength()
			return []byte(fmt.Sprint(n)), err
		}, func(cs *Case) ([]byte, bool, bool) {
			b, ok := encSCT(cs.sct())
			// the statement ties the reported length to produced bytes only: for a value without serialisation nothing is demanded
			return []byte(fmt.Sprint(len(b))), ok, !ok
		}},
		{"ct.SignedCertificateTimestamp.MarshalJSON", "sct", func(cs *Case) ([]byte, error) { return jforms["ct"].sctMarshal(cs.sct()) }, sctJ},
		{"x509/ct.SignedCertificateTimestamp.MarshalJSON", "sct", func(cs *Case) ([]byte, error) { return jforms["x509/ct"].sctMarshal(cs.sct()) }, sctJ},
		{"ct.MarshalDigitallySigned", "ds", func(cs *Case) ([]byte, error) { return ct.MarshalDigitallySigned(ctDS(ds(cs))) }, dsRef},
		{"x509/ct.MarshalDigitallySigned", "ds", func(cs *Case) ([]byte, error) { return xct.MarshalDigitallySigned(xctDS(ds(cs))) }, dsRef},
		{"ct.DigitallySigned.Base64String", "ds", func(cs *Case) ([]byte, error) { return str(ctDS(ds(cs)).Base64String()) }, dsB64},
		{"x509/ct.DigitallySigned.Base64String", "ds", func(cs *Case) ([]byte, error) { return str(xctDS(ds(cs)).Base64String()) }, dsB64},
		{"ct.DigitallySigned.MarshalJSON", "ds", func(cs *Case) ([]byte, error) { return ctDS(ds(cs)).MarshalJSON() }, dsJSON},
		{"x509/ct.DigitallySigned.MarshalJSON", "ds", func(cs *Case) ([]byte, error) { return xctDS(ds(cs)).MarshalJSON() }, dsJSON},
		{"ct.SHA256Hash.MarshalJSON", "hash", func(cs *Case) ([]byte, error) { return ct.SHA256Hash(arr32(cs.LogID)).MarshalJSON() }, hJSON},
		{"x509/ct.SHA256Hash.MarshalJSON", "hash", func(cs *Case) ([]byte, error) { return xct.SHA256Hash(arr32(cs.LogID)).MarshalJSON() }, hJSON},
		{"ct.SHA256Hash.Base64String", "hash", func(cs *Case) ([]byte, error) { return []byte(ct.SHA256Hash(arr32(cs.LogID)).Base64String()), nil }, hB64},
		{"x509/ct.SHA256Hash.Base64String", "hash", func(cs *Case) ([]byte, error) { return []byte(xct.SHA256Hash(arr32(cs.LogID)).Base64String()), nil }, hB64},
		{"ct.SerializeSCTSignatureInput(x509 entry)", "input-x509", func(cs *Case) ([]byte, error) { return ct.SerializeSCTSignatureInput(ctSCT(cs.sct()), cs.entry()) }, inRef},
		{"ct.SerializeSCTSignatureInput(precert entry)", "input-precert", func(cs *Case) ([]byte, error) { return ct.SerializeSCTSignatureInput(ctSCT(cs.sct()), cs.entry()) }, inRef},
		{"ct.SerializeSTHSignatureInput", "sth", func(cs *Case) ([]byte, error) { return ct.SerializeSTHSignatureInput(cs.sth()) }, sthRef},
	}
}

// epBase: the first value of a history; every byte string is a fresh slice owned by the history.
func epBase(kind string) Case {
	cs := Case{Kind: "ep-history", LogID: cp(baseLogID), TS: T0ms, Ext: []byte{0xde, 0xad, 0x01}, Hash: 4, SigAlg: 3, Sig: pat(71, 0x30),
		LeafTS: T0ms, Cert: cp(baseCert), IKH: cp(baseIKH), TBS: cp(baseTBS), TreeSize: 12345, Root: cp(baseRoot)}
	cs.LeafExt = cs.Ext
	if kind == "input-precert" {
		cs.EntryType = 1
	}
	return cs
}

type epDev struct {
	name    string
	inPlace bool
	f       func(*Case)
}

// epDevs: replacements (a NEW slice / value for one field, everything else keeps its Go object)
// and in-place overwrites (same slice, other bytes) of the fields the entry point reads.
func epDevs(kind string) []epDev {
	var out []epDev
	rep := func(name string, f func(*Case)) { out = append(out, epDev{name, false, f}) }
	inp := func(name string, get func(*Case) []byte) {
		out = append(out, epDev{name + ": first byte overwritten in place", true, func(x *Case) {
			if b := get(x); len(b) > 0 {
				b[0] ^= 0xff
			}
		}}, epDev{name + ": last byte overwritten in place", true, func(x *Case) {
			if b := get(x); len(b) > 0 {
				b[len(b)-1] ^= 0x01
			}
		}})
	}
	rep("unchanged (same objects)", func(x *Case) {})
	hasSCT := kind == "sct" || strings.HasPrefix(kind, "input")
	if hasSCT || kind == "sth" {
		rep("timestamp+1", func(x *Case) { x.TS++ })
	}
	if hasSCT {
		rep("extensions: new slice, same length", func(x *Case) { x.Ext = []byte{0x01, 0x02, 0x03}; x.LeafExt = x.Ext })
		rep("extensions: empty", func(x *Case) { x.Ext, x.LeafExt = nil, nil })
		rep("extensions: longer (300)", func(x *Case) { x.Ext = pat(300, 0x21); x.LeafExt = x.Ext })
		rep("extensions: equal content, new slice", func(x *Case) { x.Ext = cp(x.Ext); x.LeafExt = x.Ext })
		inp("extensions", func(x *Case) []byte { return x.Ext })
	}
	if kind == "sct" || kind == "ds" {
		rep("hash=5", func(x *Case) { x.Hash = 5 })
		rep("sig_alg=1", func(x *Case) { x.SigAlg = 1 })
		rep("signature: new slice, same length", func(x *Case) { x.Sig = pat(71, 0x81) })
		rep("signature: shorter (8)", func(x *Case) { x.Sig = pat(8, 0x07) })
		rep("signature: longer (256)", func(x *Case) { x.Sig = pat(256, 0x44) })
		rep("signature: 65536 (no serialisation)", func(x *Case) { x.Sig = pat(65536, 0x42) })
		inp("signature", func(x *Case) []byte { return x.Sig })
	}
	if kind == "sct" || kind == "hash" {
		rep("log_id: other value", func(x *Case) { x.LogID = pat(32, 0x90) })
		inp("log_id", func(x *Case) []byte { return x.LogID })
	}
	if kind == "sct" {
		rep("extensions: 65536 (no serialisation)", func(x *Case) { x.Ext = pat(65536, 0x22); x.LeafExt = x.Ext })
		rep("version=1 (no v1 serialisation)", func(x *Case) { x.Ver = 1 })
	}
	switch kind {
	case "input-x509":
		rep("certificate: new slice, same length", func(x *Case) { x.Cert = pat(300, 0x31) })
		rep("certificate: shorter", func(x *Case) { x.Cert = pat(20, 0x32) })
		rep("certificate: equal content, new slice", func(x *Case) { x.Cert = cp(x.Cert) })
		rep("entry becomes a precert entry", func(x *Case) { x.EntryType = 1 })
		inp("certificate", func(x *Case) []byte { return x.Cert })
	case "input-precert":
		rep("issuer_key_hash: other value", func(x *Case) { x.IKH = pat(32, 0x3c) })
		rep("issuer_key_hash: zeros", func(x *Case) { x.IKH = fill(32, 0) })
		rep("tbs: new slice, same length", func(x *Case) { x.TBS = pat(200, 0x56) })
		rep("tbs: shorter", func(x *Case) { x.TBS = pat(20, 0x57) })
		rep("tbs: equal content, new slice", func(x *Case) { x.TBS = cp(x.TBS) })
		rep("entry becomes an x509 entry", func(x *Case) { x.EntryType = 0 })
		inp("issuer_key_hash", func(x *Case) []byte { return x.IKH })
		inp("tbs", func(x *Case) []byte { return x.TBS })
	case "sth":
		rep("tree_size+1", func(x *Case) { x.TreeSize++ })
		rep("root: other value", func(x *Case) { x.Root = pat(32, 0x78) })
		rep("version=1", func(x *Case) { x.Ver = 1 })
		inp("root", func(x *Case) []byte { return x.Root })
	}
	return out
}

func partEntryHistories(c *ev.Ctx) {
	r := newR(c)
	var names []string
	total := 0
	for _, f := range epFns() {
		names = append(names, f.name)
		devs := epDevs(f.kind)
		for i, a := range devs {
			if a.inPlace {
				continue // the first value is reached by replacements only
			}
			for j := range devs {
				cs := Case{Kind: "ep-history", Key: f.name, AI: i, AJ: j}
				r.run(&cs)
				total++
			}
		}
	}
	r.flush()
	c.Set("E2_entry_point_histories", fmt.Sprintf("%d serialiser entry points x (first value: base with one field replaced) x (second value: one field replaced by a new object | one field overwritten in place | unchanged): %d histories of 2 calls, sequential", len(names), total))
	c.Set("E2_entry_points", names)
}

func (r *R) epHistory(cs *Case) {
	var f *epFn
	fns := epFns()
	for i := range fns {
		if fns[i].name == cs.Key {
			f = &fns[i]
		}
	}
	if f == nil {
		r.c.Broken("unknown entry point %q", cs.Key)
	}
	devs := epDevs(f.kind)
	if cs.AI < 0 || cs.AI >= len(devs) || cs.AJ < 0 || cs.AJ >= len(devs) || devs[cs.AI].inPlace {
		r.c.Broken("bad entry-point history %d,%d", cs.AI, cs.AJ)
	}
	r.evals++
	cur := epBase(f.kind)
	w := *cs
	w.Note = fmt.Sprintf("%s: call 1 on the base value with [%s]; call 2 after [%s]", f.name, devs[cs.AI].name, devs[cs.AJ].name)
	// judge: "" = fine, else the failure class
	judge := func(x *Case, count bool, how string) (class, detail string) {
		ref, ok, silent := f.ref(x) // computed from the content at call time, before the call
		ref = cp(ref)
		var got []byte
		var err error
		r.calls++
		if !r.guard(&w, f.name, func() { got, err = f.call(x) }) {
			return "panic", ""
		}
		switch {
		case err != nil && (!ok || silent):
			if count {
				r.h["ep-history: refused (no such form / not a legal v1 value)"]++
			}
		case err != nil:
			return "refuses a value that has this form", err.Error()
		case !ok && silent:
			if count {
				r.h["ep-history: answer for a value on which the statement is silent"]++
			}
		case !ok:
			return "no error for a value that has no such form", fmt.Sprintf("%d bytes", len(got))
		case !bytes.Equal(got, ref):
			return "result differs from the reference of the value passed to THIS call", firstDiff(got, ref)
		default:
			if count {
				r.h["ep-history: equals reference ("+how+")"]++
			}
		}
		return "", ""
	}
	deepCopy := func(x Case) Case {
		x.LogID, x.Ext, x.Sig, x.Cert, x.IKH, x.TBS, x.LeafExt, x.Root = cp(x.LogID), cp(x.Ext), cp(x.Sig), cp(x.Cert), cp(x.IKH), cp(x.TBS), cp(x.LeafExt), cp(x.Root)
		return x
	}
	step := func(n int, what string) bool {
		how := "first call"
		if n == 2 {
			how = "second call"
		}
		class, detail := judge(&cur, true, how)
		if class == "" {
			return true
		}
		if class == "panic" {
			return false
		}
		if n == 2 {
			// the same value on fresh deep copies, after the history: a failure that is reproduced there is
			// a property of the value, not of the sequence
			iso := deepCopy(cur)
			if c2, _ := judge(&iso, false, ""); c2 != class {
				r.viol(f.name+": second call, after "+what+": "+class, &w, detail)
				return false
			}
		}
		r.viol(f.name+": single call: "+class, &w, detail)
		return false
	}
	devs[cs.AI].f(&cur)
	if !step(1, "") {
		return
	}
	d := devs[cs.AJ]
	what := "one field replaced by a new object"
	if d.inPlace {
		what = "the bytes of one field overwritten in place"
	} else if cs.AJ == 0 {
		what = "nothing changed"
	}
	d.f(&cur)
	step(2, what)
	r.trace++
}
