package main

import (
	"bytes"
	"fmt"
	"strings"

	"github.com/zmap/zcrypto/ct"
)

func (cs *Case) entry() ct.LogEntry {
	return ct.LogEntry{Leaf: ct.MerkleTreeLeaf{
		Version:  ct.Version(cs.LeafVer),
		LeafType: ct.MerkleLeafType(cs.LeafType),
		TimestampedEntry: ct.TimestampedEntry{
			Timestamp:    cs.LeafTS,
			EntryType:    ct.LogEntryType(cs.EntryType),
			X509Entry:    ct.ASN1Cert(cs.Cert),
			PrecertEntry: ct.PreCert{IssuerKeyHash: arr32(cs.IKH), TBSCertificate: cs.TBS},
			Extensions:   ct.CTExtensions(cs.LeafExt),
		},
	}}
}

func (cs *Case) sth() ct.SignedTreeHead {
	return ct.SignedTreeHead{Version: ct.Version(cs.Ver), TreeSize: cs.TreeSize, Timestamp: cs.TS,
		SHA256RootHash: ct.SHA256Hash(arr32(cs.Root)), LogID: ct.SHA256Hash(arr32(cs.LogID)),
		TreeHeadSignature: ctDS(dsVal{cs.Hash, cs.SigAlg, cs.Sig})}
}

// inputTag is the coarse class of an (SCT, entry) pair for violation signatures.
func (cs *Case) inputTag() string {
	et := "entry=unknown"
	switch cs.EntryType {
	case 0:
		et = "entry=x509"
	case 1:
		et = "entry=precert"
	}
	if !bytes.Equal(cs.Ext, cs.LeafExt) {
		// one class whatever the entry type: the two copies of the extensions disagree
		return "sct.extensions≠entry.extensions"
	}
	return et + ", sct.extensions=entry.extensions"
}

// entryConsistent: the caller-supplied LogEntry is itself a legal v1 leaf; if it
// is not, the implementation may refuse it whatever the SCT says.
func (cs *Case) entryConsistent() bool { return cs.LeafVer == 0 && cs.LeafType == 0 }

// ---------------------------------------------------------------------------
// oracle 2: signature inputs, and the first half of oracle 3 (genuine
// standard-library signatures over the independent input are accepted).

func (r *R) sctInput(cs *Case) {
	r.evals++
	ref, valid, why := refSCTInput(cs.Ver, cs.TS, cs.EntryType, cs.Cert, arr32(cs.IKH), cs.TBS, cs.Ext)
	tag := cs.inputTag()
	sct, entry := ctSCT(cs.sct()), cs.entry()
	var got []byte
	var err error
	r.calls++
	if !r.guard(cs, "ct.SerializeSCTSignatureInput", func() { got, err = ct.SerializeSCTSignatureInput(sct, entry) }) {
		return
	}
	mustSucceed := valid && cs.entryConsistent()
	switch {
	case err != nil && mustSucceed:
		r.viol("ct.SerializeSCTSignatureInput: refuses a valid (SCT, entry) ["+tag+"]", cs, err.Error())
		return
	case err != nil:
		if why == "" {
			why = "entry leaf version/type not v1"
		}
		r.h["sct-input: refused ("+why+"): "+errClass(err)]++
		return
	case ref == nil && bytes.Equal(cs.Ext, cs.LeafExt):
		r.viol("ct.SerializeSCTSignatureInput: produces an input for a value the RFC layout cannot express ("+why+")", cs, fmt.Sprintf("%d bytes", len(got)))
		return
	case !bytes.Equal(got, ref):
		r.viol("ct.SerializeSCTSignatureInput: differs from the RFC 6962 §3.2 layout ["+tag+"]", cs, firstDiff(got, ref))
		return
	}
	if !valid {
		r.h["sct-input: RFC layout produced for an invalid value ("+why+")"]++
		return
	}
	r.h["sct-input: equals RFC layout ("+tag+")"]++
	if !mustSucceed {
		return
	}
	for _, key := range []string{"rsa2048", "p256"} {
		g := *cs
		g.Kind, g.Key, g.Hash, g.SigAlg = "sct-verify", key, 4, algFor(key)
		g.Sig = stdSign(key, 4, ref)
		g.Note = cs.Note + " :: genuine signature by " + key
		r.verify(&g)
	}
}

func (r *R) sthInput(cs *Case) {
	r.evals++
	ref, valid := refSTHInput(cs.Ver, cs.TS, cs.TreeSize, arr32(cs.Root))
	sth := cs.sth()
	var got []byte
	var err error
	r.calls++
	if !r.guard(cs, "ct.SerializeSTHSignatureInput", func() { got, err = ct.SerializeSTHSignatureInput(sth) }) {
		return
	}
	switch {
	case err != nil && valid:
		r.viol("ct.SerializeSTHSignatureInput: refuses a valid STH", cs, err.Error())
		return
	case err != nil:
		r.h["sth-input: refused (version is not v1): "+errClass(err)]++
		return
	case !bytes.Equal(got, ref):
		r.viol("ct.SerializeSTHSignatureInput: differs from the RFC 6962 §3.5 layout", cs, firstDiff(got, ref))
		return
	}
	if !valid {
		r.h["sth-input: RFC layout produced for an invalid value"]++
		return
	}
	r.h["sth-input: equals RFC layout"]++
	for _, key := range []string{"rsa2048", "p256"} {
		g := *cs
		g.Kind, g.Key, g.Hash, g.SigAlg = "sth-verify", key, 4, algFor(key)
		g.Sig = stdSign(key, 4, ref)
		g.Note = cs.Note + " :: genuine signature by " + key
		r.verify(&g)
	}
}

// ---------------------------------------------------------------------------
// oracle 3: the verifier accepts exactly when the standard library verifies
// the signature over the independent input under the log key.
//
// RFC 6962 permits only SHA-256 (with RSA or ECDSA P-256). What is demanded:
//   - hash id = sha256(4): accepts  <=>  stdlib verifies (for ECDSA one band is
//     left open: a strict DER signature followed by further bytes, which the
//     verifier tolerates and logs by design);
//   - any other hash id: must be refused (RFC 6962 permits only SHA-256);
//   - the structure itself must be a legal v1 value, otherwise nothing is covered.
func (r *R) verify(cs *Case) {
	r.evals++
	r.trace++
	v := verifier[cs.Key]
	if v == nil {
		r.c.Broken("no verifier for key %q", cs.Key)
	}
	var fn, tag string
	var ref []byte
	var valid bool
	var why string
	var err error
	switch cs.Kind {
	case "sth-verify":
		fn, tag = "ct.VerifySTHSignature", "sth"
		ref, valid = refSTHInput(cs.Ver, cs.TS, cs.TreeSize, arr32(cs.Root))
		if !valid {
			why = "version is not v1"
		}
		sth := cs.sth()
		r.calls++
		if !r.guard(cs, fn, func() { err = v.VerifySTHSignature(sth) }) {
			return
		}
	case "sct-verify":
		fn, tag = "ct.VerifySCTSignature", cs.inputTag()
		ref, valid, why = refSCTInput(cs.Ver, cs.TS, cs.EntryType, cs.Cert, arr32(cs.IKH), cs.TBS, cs.Ext)
		sct, entry := ctSCT(cs.sct()), cs.entry()
		r.calls++
		if !r.guard(cs, fn, func() { err = v.VerifySCTSignature(sct, entry) }) {
			return
		}
	case "sct-wire-verify":
		// a (mutated) serialised SCT goes through the real decoder first
		fn = "ct.VerifySCTSignature" // (after ct.DeserializeSCT of the mutated bytes)
		entry := cs.entry()
		r.calls += 2
		if !r.guard(cs, fn, func() {
			s, derr := ct.DeserializeSCT(bytes.NewReader(cs.Bytes))
			if derr != nil {
				err = derr
				return
			}
			err = v.VerifySCTSignature(*s, entry)
		}) {
			return
		}
		w, _, st, dwhy := decSCT(cs.Bytes)
		d := *cs
		d.Ver, d.LogID, d.TS, d.Ext, d.Hash, d.SigAlg, d.Sig = w.Ver, w.LogID[:], w.TS, w.Ext, w.Hash, w.Alg, w.Sig
		tag = d.inputTag()
		if st == stBad {
			valid, why = false, "serialised SCT is malformed ("+dwhy+")"
		} else {
			ref, valid, why = refSCTInput(d.Ver, d.TS, d.EntryType, d.Cert, arr32(d.IKH), d.TBS, d.Ext)
			cs = &d
		}
	}
	accepted := err == nil

	strict, lenient, rwhy := false, false, "the structure is not a legal v1 value: "+why
	if valid {
		strict, lenient, rwhy = refVerify(stdPub[cs.Key], cs.Hash, cs.SigAlg, ref, cs.Sig)
	}
	mustAccept := strict && cs.Hash == 4 && (cs.Kind == "sth-verify" || cs.entryConsistent())
	if accepted && cs.Hash != 4 {
		// RFC 6962 §2.1.4: "A log MUST use ... SHA-256"; the package documents "only SHA256 is supported".
		r.viol(fn+": accepts a signature labelled with a hash id other than sha256(4)", cs, fmt.Sprintf("hash=%d sigalg=%d key=%s stdlib-under-that-hash=%v", cs.Hash, cs.SigAlg, cs.Key, strict))
		return
	}
	switch {
	case accepted && !lenient:
		if cs.Hash != 4 && rwhy != "hash id names no hash function" && valid {
			rwhy = "hash id is not sha256 and the signature is not valid under the hash it names"
		}
		sfx := " [" + tag + "]"
		if valid && rwhy != "the signature does not verify" {
			sfx = "" // the algorithm ids decide, whatever the structure signed
		}
		r.viol(fn+": accepts, but the standard library does not verify this signature over the RFC input: "+rwhy+sfx, cs,
			fmt.Sprintf("hash=%d sigalg=%d key=%s", cs.Hash, cs.SigAlg, cs.Key))
	case !accepted && mustAccept:
		r.viol(fn+": rejects ("+algNeutral(errClass(err))+"), but the standard library verifies this SHA-256 signature over the RFC input ["+tag+"]", cs, err.Error())
	case accepted && strict:
		r.h[tag+": verify: accepted (stdlib verifies)"]++
	case accepted:
		r.observe(fn+" accepts a strict DER ECDSA signature followed by further bytes (tolerated and logged by design: 'Garbage following signature')", cs)
	case strict && cs.Hash != 4:
		r.h["verify: rejected a genuine signature labelled with hash id≠sha256 (RFC 6962 permits only sha256)"]++
	case strict:
		r.h["verify: rejected, entry leaf version/type not v1: "+errClass(err)]++
	default:
		r.h["verify: rejected ("+errClass(err)+")"]++
	}
}

// algNeutral removes the RSA/ECDSA distinction from an error class so that one
// defect seen under both key types gives one violation signature.
func algNeutral(s string) string {
	switch {
	case strings.HasPrefix(s, "failed to verify rsa signature"), strings.HasPrefix(s, "failed to verify ecdsa signature"):
		return "signature verification failed"
	}
	return s
}
