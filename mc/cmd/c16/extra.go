package main

// Additions of the strengthening round:
//   - JSON / base64 text forms of DigitallySigned, SHA256Hash and SCT (both packages),
//   - the history ("alias") oracle: a returned []byte belongs to the caller — later
//     calls must not change it, and what the caller writes into it must not leak
//     into later results,
//   - RSA log keys loaded the way the package itself loads them (PublicKeyFromPEM),
//     and verification under RSA-3072 / RSA-4096 log keys.

import (
	"bytes"
	stdx509 "crypto/x509"
	"encoding/base64"
	"encoding/json"
	"encoding/pem"
	"fmt"
	"strings"

	"github.com/zmap/zcrypto/ct"
	xct "github.com/zmap/zcrypto/x509/ct"
	"verifmc/internal/fx"
)

// ---------------------------------------------------------------------------
// reference text forms (encoding/json + encoding/base64 of the standard library
// over the harness' own binary encoders; nothing from zcrypto)

func refDSJSON(v dsVal) ([]byte, bool) {
	b, ok := encDS(v)
	if !ok {
		return nil, false
	}
	return []byte(`"` + base64.StdEncoding.EncodeToString(b) + `"`), true
}

func refHashJSON(h [32]byte) []byte {
	return []byte(`"` + base64.StdEncoding.EncodeToString(h[:]) + `"`)
}

const maxJSONSeconds = 253402300799 // 9999-12-31T23:59:59Z, documented in x509/ct/types.go (kMaxTimestamp)

// jsonSeconds: "NOTE: When this is serialized, the output is in seconds, not
// milliseconds" (field comment of SignedCertificateTimestamp.Timestamp); values
// beyond year 9999 are written as 0 (kMaxTimestamp) and 0 is omitted (omitempty).
func jsonSeconds(ms uint64) uint64 {
	s := ms / 1000
	if s > maxJSONSeconds {
		return 0
	}
	return s
}

// refSCTJSON mirrors the documented JSON object of an SCT (field names and
// order of the struct tags, omitempty on timestamp and extensions).
func refSCTJSON(v sctVal) ([]byte, bool) {
	ds, ok := encDS(dsVal{v.Hash, v.Alg, v.Sig})
	if !ok {
		return nil, false
	}
	var sb strings.Builder
	fmt.Fprintf(&sb, `{"version":%d,"log_id":"%s"`, v.Ver, base64.StdEncoding.EncodeToString(v.LogID[:]))
	if s := jsonSeconds(v.TS); s != 0 {
		fmt.Fprintf(&sb, `,"timestamp":%d`, s)
	}
	if len(v.Ext) != 0 {
		fmt.Fprintf(&sb, `,"extensions":"%s"`, base64.StdEncoding.EncodeToString(v.Ext))
	}
	fmt.Fprintf(&sb, `,"signature":"%s"}`, base64.StdEncoding.EncodeToString(ds))
	return []byte(sb.String()), true
}

// jsonForms adapts the two packages.
type jsonForms struct {
	dsMarshal   func(dsVal) ([]byte, error)
	dsUnmarshal func([]byte) (dsVal, error)
	hMarshal    func([32]byte) ([]byte, error)
	hUnmarshal  func([]byte) ([32]byte, error)
	sctMarshal  func(sctVal) ([]byte, error)
	sctDecode   func([]byte) (sctVal, error) // encoding/json into the package's SCT type
}

var jforms = map[string]*jsonForms{
	"ct": {
		dsMarshal: func(v dsVal) ([]byte, error) { return ctDS(v).MarshalJSON() },
		dsUnmarshal: func(b []byte) (dsVal, error) {
			var d ct.DigitallySigned
			err := d.UnmarshalJSON(b)
			return fromCtDS(d), err
		},
		hMarshal: func(h [32]byte) ([]byte, error) { return ct.SHA256Hash(h).MarshalJSON() },
		hUnmarshal: func(b []byte) ([32]byte, error) {
			var h ct.SHA256Hash
			err := h.UnmarshalJSON(b)
			return [32]byte(h), err
		},
		sctMarshal: func(v sctVal) ([]byte, error) { s := ctSCT(v); return s.MarshalJSON() },
		sctDecode: func(b []byte) (sctVal, error) {
			var s ct.SignedCertificateTimestamp
			err := json.Unmarshal(b, &s)
			return fromCtSCT(&s), err
		},
	},
	"x509/ct": {
		dsMarshal: func(v dsVal) ([]byte, error) { return xctDS(v).MarshalJSON() },
		dsUnmarshal: func(b []byte) (dsVal, error) {
			var d xct.DigitallySigned
			err := d.UnmarshalJSON(b)
			return fromXctDS(d), err
		},
		hMarshal: func(h [32]byte) ([]byte, error) { return xct.SHA256Hash(h).MarshalJSON() },
		hUnmarshal: func(b []byte) ([32]byte, error) {
			var h xct.SHA256Hash
			err := h.UnmarshalJSON(b)
			return [32]byte(h), err
		},
		sctMarshal: func(v sctVal) ([]byte, error) { s := xctSCT(v); return s.MarshalJSON() },
		sctDecode: func(b []byte) (sctVal, error) {
			var s xct.SignedCertificateTimestamp
			err := json.Unmarshal(b, &s)
			return fromXctSCT(&s), err
		},
	},
}

func xctSCT(v sctVal) xct.SignedCertificateTimestamp {
	return xct.SignedCertificateTimestamp{SCTVersion: xct.Version(v.Ver), LogID: xct.SHA256Hash(v.LogID), Timestamp: v.TS,
		Extensions: xct.CTExtensions(v.Ext), Signature: xctDS(dsVal{v.Hash, v.Alg, v.Sig})}
}

func fromXctSCT(s *xct.SignedCertificateTimestamp) sctVal {
	return sctVal{Ver: byte(s.SCTVersion), LogID: [32]byte(s.LogID), TS: s.Timestamp, Ext: []byte(s.Extensions),
		Hash: byte(s.Signature.HashAlgorithm), Alg: byte(s.Signature.SignatureAlgorithm), Sig: s.Signature.Signature}
}

// dsJSON: DigitallySigned.MarshalJSON fails exactly when the value has no
// binary form, else yields "base64(binary form)" which UnmarshalJSON reads back.
func (r *R) dsJSON(cs *Case, pkg string, v dsVal, tag string) {
	jf := jforms[pkg]
	ref, expressible := refDSJSON(v)
	fn := pkg + ".DigitallySigned.MarshalJSON"
	var b []byte
	var err error
	r.calls++
	if !r.guard(cs, fn, func() { b, err = jf.dsMarshal(v) }) {
		return
	}
	if err != nil {
		r.h["json "+pkg+": DigitallySigned.MarshalJSON error: "+errClass(err)]++
		if expressible {
			r.viol(fn+": refuses a value MarshalDigitallySigned accepts ["+tag+"]", cs, err.Error())
		}
		return
	}
	if !expressible {
		r.viol(fn+": produces JSON for a value that has no binary form ["+tag+"]", cs, fmt.Sprintf("%d bytes", len(b)))
		return
	}
	if !bytes.Equal(b, ref) {
		r.viol(fn+": is not the quoted base64 of the RFC 5246 DigitallySigned bytes ["+tag+"]", cs, firstDiff(b, ref))
		return
	}
	var v2 dsVal
	r.calls++
	if !r.guard(cs, pkg+".DigitallySigned.UnmarshalJSON", func() { v2, err = jf.dsUnmarshal(b) }) {
		return
	}
	if err != nil || dsEqual(v, v2) != "" {
		r.viol(pkg+".DigitallySigned.MarshalJSON: does not round-trip through UnmarshalJSON ["+tag+"]", cs, fmt.Sprint(err, " ", dsEqual(v, v2)))
		return
	}
	r.h["json "+pkg+": DigitallySigned round trip"]++
}

func (r *R) hashJSON(cs *Case, pkg string, h [32]byte) {
	jf := jforms[pkg]
	fn := pkg + ".SHA256Hash.MarshalJSON"
	var b []byte
	var err error
	r.calls++
	if !r.guard(cs, fn, func() { b, err = jf.hMarshal(h) }) {
		return
	}
	if err != nil || !bytes.Equal(b, refHashJSON(h)) {
		r.viol(fn+": is not the quoted base64 of the 32 bytes", cs, fmt.Sprint(err, " ", string(b)))
		return
	}
	var h2 [32]byte
	r.calls++
	if !r.guard(cs, pkg+".SHA256Hash.UnmarshalJSON", func() { h2, err = jf.hUnmarshal(b) }) {
		return
	}
	if err != nil || h2 != h {
		r.viol(fn+": does not round-trip through UnmarshalJSON", cs, fmt.Sprint(err))
		return
	}
	r.h["json "+pkg+": SHA256Hash round trip"]++
}

// sctJSON: the JSON object of an SCT. The timestamp is documented to be written
// in seconds (0 beyond year 9999), so the value read back is v with that timestamp.
func (r *R) sctJSON(cs *Case, pkg string, v sctVal, tag string) {
	jf := jforms[pkg]
	ref, expressible := refSCTJSON(v)
	fn := pkg + ".SignedCertificateTimestamp.MarshalJSON"
	var b []byte
	var err error
	r.calls++
	if !r.guard(cs, fn, func() { b, err = jf.sctMarshal(v) }) {
		return
	}
	if err != nil {
		r.h["json "+pkg+": SCT.MarshalJSON error: "+errClass(err)]++
		if expressible {
			r.viol(fn+": refuses an SCT whose signature has a binary form ["+tag+"]", cs, err.Error())
		}
		return
	}
	if !expressible {
		r.viol(fn+": produces JSON for an SCT whose signature has no binary form ["+tag+"]", cs, fmt.Sprintf("%d bytes", len(b)))
		return
	}
	if !bytes.Equal(b, ref) {
		r.viol(fn+": differs from the documented JSON object (version, log_id, timestamp in seconds, extensions, signature) ["+tag+"]", cs, firstDiff(b, ref))
		return
	}
	want := v
	want.TS = jsonSeconds(v.TS)
	var v2 sctVal
	r.calls++
	if !r.guard(cs, "encoding/json.Unmarshal into "+pkg+".SignedCertificateTimestamp", func() { v2, err = jf.sctDecode(b) }) {
		return
	}
	if err != nil || sctEqual(want, v2) != "" {
		r.viol(fn+": does not read back (encoding/json) as the same SCT with the timestamp in seconds ["+tag+"]", cs, fmt.Sprint(err, " ", sctEqual(want, v2)))
		return
	}
	r.h["json "+pkg+": SCT round trip"]++
	r.hashJSON(cs, pkg, v.LogID)
}

// ---------------------------------------------------------------------------
// history ("alias") oracle

// aliasFn is one zcrypto function that hands a []byte to its caller, over a
// small alphabet of inputs. call must build FRESH input values (so that poke
// cannot disturb later calls) and return zcrypto's slice as is (no copy).
type aliasFn struct {
	name string
	n    int
	call func(i int) (out []byte, poke func(), err error)
	ref  func(i int) []byte
}

var aliasSCTs = []sctVal{
	{LogID: arr32(pat(32, 0x10)), TS: T0ms, Ext: []byte{0xde, 0xad, 0x01}, Hash: 4, Alg: 3, Sig: pat(71, 0x30)},
	{LogID: arr32(pat(32, 0x90)), TS: T0ms + 1, Ext: []byte{0x01, 0x02, 0x03}, Hash: 4, Alg: 1, Sig: pat(71, 0x81)}, // same sizes, other content
	{LogID: arr32(pat(32, 0x55)), TS: 1, Ext: pat(300, 0x21), Hash: 5, Alg: 3, Sig: pat(256, 0x44)},                // larger
	{LogID: arr32(pat(32, 0x01)), TS: 1<<64 - 1, Hash: 2, Alg: 1, Sig: pat(8, 0x07)},                               // smaller
}

type aliasEntry struct {
	et        uint16
	cert, tbs []byte
	ikh       [32]byte
}

var aliasEntries = []aliasEntry{
	{0, pat(300, 0x30), nil, [32]byte{}},
	{0, pat(300, 0xb0), nil, [32]byte{}},
	{0, pat(700, 0x31), nil, [32]byte{}},
	{0, pat(9, 0x32), nil, [32]byte{}},
}

var aliasPre = []aliasEntry{
	{1, nil, pat(200, 0x55), arr32(pat(32, 0xc0))},
	{1, nil, pat(200, 0xd5), arr32(pat(32, 0x40))},
	{1, nil, pat(600, 0x56), arr32(pat(32, 0xc1))},
	{1, nil, pat(5, 0x57), arr32(pat(32, 0xc2))},
}

type aliasSTH struct {
	ts, size uint64
	root     [32]byte
}

var aliasSTHs = []aliasSTH{
	{T0ms, 123456789, arr32(pat(32, 0x77))},
	{T0ms + 7, 987654321, arr32(pat(32, 0xf7))},
	{0, 0, [32]byte{}},
	{1<<64 - 1, 1<<64 - 1, arr32(fill(32, 0xff))},
}

var aliasChains = [][][]byte{
	{pat(40, 1), pat(30, 2)},
	{pat(40, 0x81), pat(30, 0x82)},
	{pat(400, 3), pat(300, 4), pat(5, 5)},
	{pat(3, 6)},
}

func cp(b []byte) []byte { return append([]byte(nil), b...) }

func cpSCT(v sctVal) sctVal { v.Ext, v.Sig = cp(v.Ext), cp(v.Sig); return v }

func pokeAll(bs ...[]byte) func() {
	return func() {
		for _, b := range bs {
			for i := range b {
				b[i] ^= 0xff
			}
		}
	}
}

func must(b []byte, ok bool) []byte {
	if !ok {
		panic("alias alphabet value not expressible")
	}
	return b
}

func aliasFns() []aliasFn {
	n := len(aliasSCTs)
	sctRef := func(i int) []byte { return must(encSCT(aliasSCTs[i])) }
	dsOf := func(i int) dsVal { v := aliasSCTs[i]; return dsVal{v.Hash, v.Alg, v.Sig} }
	dsRef := func(i int) []byte { return must(encDS(dsOf(i))) }
	entry := func(e aliasEntry) ct.LogEntry {
		c := Case{LeafTS: T0ms, EntryType: e.et, Cert: cp(e.cert), TBS: cp(e.tbs), IKH: e.ikh[:]}
		return c.entry()
	}
	inputRef := func(es []aliasEntry) func(int) []byte {
		return func(i int) []byte {
			e, v := es[i], aliasSCTs[i]
			b, _, _ := refSCTInput(0, v.TS, e.et, e.cert, e.ikh, e.tbs, v.Ext)
			return b
		}
	}
	inputCall := func(es []aliasEntry) func(int) ([]byte, func(), error) {
		return func(i int) ([]byte, func(), error) {
			v := cpSCT(aliasSCTs[i])
			en := entry(es[i])
			b, err := ct.SerializeSCTSignatureInput(ctSCT(v), en)
			return b, pokeAll(v.Ext, v.Sig, en.Leaf.TimestampedEntry.X509Entry, en.Leaf.TimestampedEntry.PrecertEntry.TBSCertificate), err
		}
	}
	chainX := func(i int) []byte { return encCertList(aliasChains[i], 0) }
	chainP := func(i int) []byte { return append(putVec(nil, pat(35+i, byte(0x70+i)), 3), encCertList(aliasChains[i], 0)...) }
	leafB := func(i int) []byte {
		e := aliasEntries[i]
		return encLeaf(leafSpec{V: leafVal{TS: T0ms, EntryType: 0, Cert: e.cert, Ext: aliasSCTs[i].Ext}})
	}
	fns := []aliasFn{
		{"ct.SerializeSCT", n, func(i int) ([]byte, func(), error) {
			v := cpSCT(aliasSCTs[i])
			b, err := ct.SerializeSCT(ctSCT(v))
			return b, pokeAll(v.Ext, v.Sig), err
		}, sctRef},
		{"ct.SerializeSCTHere(nil buffer)", n, func(i int) ([]byte, func(), error) {
			v := cpSCT(aliasSCTs[i])
			b, err := ct.SerializeSCTHere(ctSCT(v), nil)
			return b, pokeAll(v.Ext, v.Sig), err
		}, sctRef},
		{"ct.MarshalDigitallySigned", n, func(i int) ([]byte, func(), error) {
			v := dsOf(i)
			v.Sig = cp(v.Sig)
			b, err := ct.MarshalDigitallySigned(ctDS(v))
			return b, pokeAll(v.Sig), err
		}, dsRef},
		{"x509/ct.MarshalDigitallySigned", n, func(i int) ([]byte, func(), error) {
			v := dsOf(i)
			v.Sig = cp(v.Sig)
			b, err := xct.MarshalDigitallySigned(xctDS(v))
			return b, pokeAll(v.Sig), err
		}, dsRef},
		{"ct.SerializeSCTSignatureInput(x509 entry)", n, inputCall(aliasEntries), inputRef(aliasEntries)},
		{"ct.SerializeSCTSignatureInput(precert entry)", n, inputCall(aliasPre), inputRef(aliasPre)},
		{"ct.SerializeSTHSignatureInput", len(aliasSTHs), func(i int) ([]byte, func(), error) {
			s := aliasSTHs[i]
			c := Case{TS: s.ts, TreeSize: s.size, Root: s.root[:], LogID: baseLogID, Hash: 4, SigAlg: 3, Sig: []byte{1}}
			b, err := ct.SerializeSTHSignatureInput(c.sth())
			return b, nil, err
		}, func(i int) []byte { s := aliasSTHs[i]; b, _ := refSTHInput(0, s.ts, s.size, s.root); return b }},
		{"ct.DigitallySigned.MarshalJSON", n, func(i int) ([]byte, func(), error) {
			b, err := jforms["ct"].dsMarshal(dsOf(i))
			return b, nil, err
		}, func(i int) []byte { return must(refDSJSON(dsOf(i))) }},
		{"x509/ct.DigitallySigned.MarshalJSON", n, func(i int) ([]byte, func(), error) {
			b, err := jforms["x509/ct"].dsMarshal(dsOf(i))
			return b, nil, err
		}, func(i int) []byte { return must(refDSJSON(dsOf(i))) }},
		{"ct.SHA256Hash.MarshalJSON", n, func(i int) ([]byte, func(), error) {
			b, err := jforms["ct"].hMarshal(aliasSCTs[i].LogID)
			return b, nil, err
		}, func(i int) []byte { return refHashJSON(aliasSCTs[i].LogID) }},
		{"x509/ct.SHA256Hash.MarshalJSON", n, func(i int) ([]byte, func(), error) {
			b, err := jforms["x509/ct"].hMarshal(aliasSCTs[i].LogID)
			return b, nil, err
		}, func(i int) []byte { return refHashJSON(aliasSCTs[i].LogID) }},
		{"ct.SignedCertificateTimestamp.MarshalJSON", n, func(i int) ([]byte, func(), error) {
			b, err := jforms["ct"].sctMarshal(cpSCT(aliasSCTs[i]))
			return b, nil, err
		}, func(i int) []byte { return must(refSCTJSON(aliasSCTs[i])) }},
		{"x509/ct.SignedCertificateTimestamp.MarshalJSON", n, func(i int) ([]byte, func(), error) {
			b, err := jforms["x509/ct"].sctMarshal(cpSCT(aliasSCTs[i]))
			return b, nil, err
		}, func(i int) []byte { return must(refSCTJSON(aliasSCTs[i])) }},
		// decoders: the byte strings inside the decoded value
		{"ct.UnmarshalDigitallySigned -> Signature", n, func(i int) ([]byte, func(), error) {
			in := dsRef(i)
			d, err := ct.UnmarshalDigitallySigned(bytes.NewReader(in))
			if err != nil {
				return nil, nil, err
			}
			return d.Signature, pokeAll(in), nil
		}, func(i int) []byte { return aliasSCTs[i].Sig }},
		{"x509/ct.UnmarshalDigitallySigned -> Signature", n, func(i int) ([]byte, func(), error) {
			in := dsRef(i)
			d, err := xct.UnmarshalDigitallySigned(bytes.NewReader(in))
			if err != nil {
				return nil, nil, err
			}
			return d.Signature, pokeAll(in), nil
		}, func(i int) []byte { return aliasSCTs[i].Sig }},
		{"ct.DeserializeSCT -> Signature", n, func(i int) ([]byte, func(), error) {
			in := sctRef(i)
			s, err := ct.DeserializeSCT(bytes.NewReader(in))
			if err != nil {
				return nil, nil, err
			}
			return s.Signature.Signature, pokeAll(in), nil
		}, func(i int) []byte { return aliasSCTs[i].Sig }},
		{"ct.DeserializeSCT -> Extensions", 3, func(i int) ([]byte, func(), error) {
			in := sctRef(i)
			s, err := ct.DeserializeSCT(bytes.NewReader(in))
			if err != nil {
				return nil, nil, err
			}
			return s.Extensions, pokeAll(in), nil
		}, func(i int) []byte { return aliasSCTs[i].Ext }},
		{"x509/ct.DeserializeSCT -> Signature", n, func(i int) ([]byte, func(), error) {
			in := sctRef(i)
			s, err := xct.DeserializeSCT(bytes.NewReader(in))
			if err != nil {
				return nil, nil, err
			}
			return s.Signature.Signature, pokeAll(in), nil
		}, func(i int) []byte { return aliasSCTs[i].Sig }},
		{"x509/ct.DeserializeSCT -> Extensions", 3, func(i int) ([]byte, func(), error) {
			in := sctRef(i)
			s, err := xct.DeserializeSCT(bytes.NewReader(in))
			if err != nil {
				return nil, nil, err
			}
			return s.Extensions, pokeAll(in), nil
		}, func(i int) []byte { return aliasSCTs[i].Ext }},
		{"ct.ReadMerkleTreeLeaf -> X509Entry", len(aliasEntries), func(i int) ([]byte, func(), error) {
			in := leafB(i)
			l, err := ct.ReadMerkleTreeLeaf(bytes.NewReader(in))
			if err != nil {
				return nil, nil, err
			}
			return l.TimestampedEntry.X509Entry, pokeAll(in), nil
		}, func(i int) []byte { return aliasEntries[i].cert }},
		{"ct.UnmarshalX509ChainArray -> first certificate", len(aliasChains), func(i int) ([]byte, func(), error) {
			in := chainX(i)
			c, err := ct.UnmarshalX509ChainArray(in)
			if err != nil || len(c) == 0 {
				return nil, nil, orNilErr(err)
			}
			return c[0], pokeAll(in), nil
		}, func(i int) []byte { return aliasChains[i][0] }},
		{"ct.UnmarshalPrecertChainArray -> last certificate", len(aliasChains), func(i int) ([]byte, func(), error) {
			in := chainP(i)
			c, err := ct.UnmarshalPrecertChainArray(in)
			if err != nil || len(c) == 0 {
				return nil, nil, orNilErr(err)
			}
			return c[len(c)-1], pokeAll(in), nil
		}, func(i int) []byte { ch := aliasChains[i]; return ch[len(ch)-1] }},
	}
	return fns
}

// aliasHistory runs, for function f and the ordered pair of inputs (i, j):
//
//	r0 := f(i)            -- kept, not copied
//	r1 := f(j)            -- r0 must still be ref(i)
//	g(j) for every sibling g   -- r0, r1 must still be ref(i), ref(j)
//	caller pokes the inputs of the first call  -- r0 must still be ref(i)
//	caller overwrites r0  -- r1 must still be ref(j); f(i) again must be ref(i)
func (r *R) aliasHistory(cs *Case) {
	r.evals++
	fns := aliasFns()
	var f *aliasFn
	for k := range fns {
		if fns[k].name == cs.Key {
			f = &fns[k]
		}
	}
	if f == nil {
		r.c.Broken("unknown alias function %q", cs.Key)
	}
	i, j := cs.AI, cs.AJ
	call := func(g *aliasFn, k int, what string) (out []byte, poke func(), ok bool) {
		var err error
		r.calls++
		if !r.guard(cs, g.name, func() { out, poke, err = g.call(k) }) {
			return nil, nil, false
		}
		if err != nil {
			r.viol(g.name+": refuses a valid value ("+what+")", cs, err.Error())
			return nil, nil, false
		}
		return out, poke, true
	}
	same := func(got []byte, k int) bool { return bytes.Equal(got, f.ref(k)) }
	r0, poke0, ok := call(f, i, "first call")
	if !ok {
		return
	}
	if !same(r0, i) {
		r.viol(f.name+": result differs from the reference bytes (history oracle, first call)", cs, firstDiff(r0, f.ref(i)))
		return
	}
	r1, _, ok := call(f, j, "second call")
	if !ok {
		return
	}
	if !same(r1, j) {
		r.viol(f.name+": result of a second call differs from the reference bytes", cs, firstDiff(r1, f.ref(j)))
		return
	}
	if !same(r0, i) {
		r.viol(f.name+": the slice returned by an earlier call changes when the function is called again (shared storage)", cs, firstDiff(r0, f.ref(i)))
		return
	}
	for k := range fns {
		g := &fns[k]
		if g.name == f.name {
			continue
		}
		if _, _, ok := call(g, j%g.n, "sibling call"); !ok {
			return
		}
		if !same(r0, i) || !same(r1, j) {
			r.viol(f.name+": the slice returned by an earlier call changes when a sibling serialisation function is called (shared storage)", cs, "after "+g.name)
			return
		}
	}
	if poke0 != nil {
		poke0()
		if !same(r0, i) {
			r.viol(f.name+": the returned slice aliases the caller's input (changes when the input is modified afterwards)", cs, firstDiff(r0, f.ref(i)))
			return
		}
	}
	for k := range r0 {
		r0[k] = 0xee
	}
	if !same(r1, j) {
		r.viol(f.name+": two returned slices overlap (writing into one changes the other)", cs, firstDiff(r1, f.ref(j)))
		return
	}
	r2, _, ok := call(f, i, "call after the caller overwrote an earlier result")
	if !ok {
		return
	}
	if !same(r2, i) {
		r.viol(f.name+": a later call returns storage an earlier caller still owns (its writes show through)", cs, firstDiff(r2, f.ref(i)))
		return
	}
	r.h["alias: results of earlier calls are stable and private"]++
}

// ---------------------------------------------------------------------------
// log keys the way the package loads them

func pemOf(key string) []byte {
	der, err := stdx509.MarshalPKIXPublicKey(stdPub[key])
	if err != nil {
		panic(err)
	}
	return pem.EncodeToMemory(&pem.Block{Type: "PUBLIC KEY", Bytes: der})
}

// pemVerify: PEM -> ct.PublicKeyFromPEM -> ct.NewSignatureVerifier -> a genuine
// STH signature by that key must be accepted, one by another key refused.
func (r *R) pemVerify(cs *Case) {
	r.evals++
	key := cs.Key
	var v *ct.SignatureVerifier
	var err error
	r.calls += 2
	if !r.guard(cs, "ct.PublicKeyFromPEM+NewSignatureVerifier", func() {
		var pk any
		pk, _, _, err = ct.PublicKeyFromPEM(pemOf(key))
		if err == nil {
			v, err = ct.NewSignatureVerifier(pk)
		}
	}) {
		return
	}
	if err != nil || v == nil {
		r.viol("ct.NewSignatureVerifier: refuses the key ct.PublicKeyFromPEM returns for an RFC 6962 log key ("+key[:3]+")", cs, fmt.Sprint(err))
		return
	}
	g := Case{Kind: "sth-verify", LogID: baseLogID, TS: T0ms, TreeSize: 4711, Root: baseRoot, Hash: 4, SigAlg: algFor(key), Key: key}
	input, _ := refSTHInput(0, g.TS, g.TreeSize, arr32(g.Root))
	other := map[bool]string{true: "rsa2048b", false: "p256b"}[strings.HasPrefix(key, "rsa")]
	if other == key {
		other = key[:len(key)-1]
	}
	for _, signer := range []string{key, other} {
		g.Sig = stdSign(signer, 4, input)
		sth := g.sth()
		r.calls++
		r.trace++
		if !r.guard(cs, "ct.VerifySTHSignature", func() { err = v.VerifySTHSignature(sth) }) {
			return
		}
		switch {
		case signer == key && err != nil:
			r.viol("ct.VerifySTHSignature (key loaded with PublicKeyFromPEM): rejects a genuine signature ("+key[:3]+")", cs, err.Error())
			return
		case signer != key && err == nil:
			r.viol("ct.VerifySTHSignature (key loaded with PublicKeyFromPEM): accepts a signature by another key", cs, signer)
			return
		}
	}
	r.h["key: PEM -> PublicKeyFromPEM -> NewSignatureVerifier -> genuine accepted, foreign rejected ("+key[:3]+")"]++
}

var _ = fx.T0
