// Independent reference model for C16: a transcription of the TLS presentation
// language structures of RFC 6962 §3.1–§3.5 and §4.6 (encoders and decoders), the
// signature inputs of §3.2 / §3.5, and verification with the Go standard library.
// Nothing in this file calls zcrypto.
package main

import (
	"bytes"
	"crypto"
	"crypto/ecdsa"
	"crypto/md5"
	stdrsa "crypto/rsa"
	"crypto/sha1"
	"crypto/sha256"
	"crypto/sha512"
)

// ---------------------------------------------------------------------------
// values

type sctVal struct {
	Ver       byte
	LogID     [32]byte
	TS        uint64
	Ext       []byte
	Hash, Alg byte
	Sig       []byte
}

type dsVal struct {
	Hash, Alg byte
	Sig       []byte
}

type leafVal struct {
	Ver, LeafType byte
	TS            uint64
	EntryType     uint16
	Cert          []byte // x509_entry
	IKH           [32]byte
	TBS           []byte // precert_entry
	Ext           []byte
}

func sctEqual(a, b sctVal) string {
	switch {
	case a.Ver != b.Ver:
		return "version"
	case a.LogID != b.LogID:
		return "log id"
	case a.TS != b.TS:
		return "timestamp"
	case !bytes.Equal(a.Ext, b.Ext):
		return "extensions"
	case a.Hash != b.Hash:
		return "hash algorithm"
	case a.Alg != b.Alg:
		return "signature algorithm"
	case !bytes.Equal(a.Sig, b.Sig):
		return "signature"
	}
	return ""
}

func dsEqual(a, b dsVal) string {
	switch {
	case a.Hash != b.Hash:
		return "hash algorithm"
	case a.Alg != b.Alg:
		return "signature algorithm"
	case !bytes.Equal(a.Sig, b.Sig):
		return "signature"
	}
	return ""
}

func leafEqual(a, b leafVal) string {
	switch {
	case a.Ver != b.Ver:
		return "version"
	case a.LeafType != b.LeafType:
		return "leaf type"
	case a.TS != b.TS:
		return "timestamp"
	case a.EntryType != b.EntryType:
		return "entry type"
	case !bytes.Equal(a.Cert, b.Cert):
		return "x509 entry"
	case a.IKH != b.IKH:
		return "issuer key hash"
	case !bytes.Equal(a.TBS, b.TBS):
		return "tbs certificate"
	case !bytes.Equal(a.Ext, b.Ext):
		return "extensions"
	}
	return ""
}

func certsEqual(a, b [][]byte) bool {
	if len(a) != len(b) {
		return false
	}
	for i := range a {
		if !bytes.Equal(a[i], b[i]) {
			return false
		}
	}
	return true
}

// ---------------------------------------------------------------------------
// encoders

// putU appends v as an n-byte big-endian integer (the caller guarantees it fits).
func putU(b []byte, v uint64, n int) []byte {
	for i := n - 1; i >= 0; i-- {
		b = append(b, byte(v>>(8*uint(i))))
	}
	return b
}

// putVec appends opaque data<..2^(8n)-1> with its n-byte length prefix.
func putVec(b []byte, data []byte, n int) []byte {
	b = putU(b, uint64(len(data)), n)
	return append(b, data...)
}

func fits(l int, nLenBytes int) bool { return uint64(l) < uint64(1)<<(8*uint(nLenBytes)) }

// encDS: struct { HashAlgorithm hash; SignatureAlgorithm signature;
// opaque signature<0..2^16-1>; }  (RFC 5246 §4.7). ok=false: not expressible.
func encDS(v dsVal) ([]byte, bool) {
	if !fits(len(v.Sig), 2) {
		return nil, false
	}
	b := make([]byte, 0, 4+len(v.Sig))
	b = append(b, v.Hash, v.Alg)
	return putVec(b, v.Sig, 2), true
}

// encSCT: RFC 6962 §3.2 struct SignedCertificateTimestamp (v1).
// ok=false: no v1 encoding exists for the value.
func encSCT(v sctVal) ([]byte, bool) {
	if v.Ver != 0 || !fits(len(v.Ext), 2) || !fits(len(v.Sig), 2) {
		return nil, false
	}
	b := make([]byte, 0, 47+len(v.Ext)+len(v.Sig))
	b = append(b, v.Ver)
	b = append(b, v.LogID[:]...)
	b = putU(b, v.TS, 8)
	b = putVec(b, v.Ext, 2)
	ds, _ := encDS(dsVal{v.Hash, v.Alg, v.Sig})
	return append(b, ds...), true
}

// leafSpec drives the harness MerkleTreeLeaf encoder: it can also emit length
// prefixes that disagree with the data that follows (declared-but-short).
// CertDecl / ExtDecl: "" exact, "+1", "-1", "max" (all ones), "0".
type leafSpec struct {
	V        leafVal
	CertDecl string
	ExtDecl  string
	Trailing []byte
}

func declared(n int, how string, max int) int {
	switch how {
	case "+1":
		return n + 1
	case "-1":
		if n == 0 {
			return max
		}
		return n - 1
	case "max":
		return max
	case "0":
		return 0
	}
	return n
}

// encLeaf: RFC 6962 §3.4 MerkleTreeLeaf{version, leaf_type, TimestampedEntry}.
func encLeaf(s leafSpec) []byte {
	v := s.V
	b := []byte{v.Ver, v.LeafType}
	b = putU(b, v.TS, 8)
	b = putU(b, uint64(v.EntryType), 2)
	signed := v.Cert
	if v.EntryType == 1 {
		b = append(b, v.IKH[:]...)
		signed = v.TBS
	}
	if v.EntryType == 0 || v.EntryType == 1 {
		b = putU(b, uint64(declared(len(signed), s.CertDecl, 0xffffff))&0xffffff, 3)
		b = append(b, signed...)
	}
	b = putU(b, uint64(declared(len(v.Ext), s.ExtDecl, 0xffff))&0xffff, 2)
	b = append(b, v.Ext...)
	return append(b, s.Trailing...)
}

// encCertList: ASN.1Cert certificate_chain<0..2^24-1> (RFC 6962 §4.6);
// totalDelta is added to the exact value of the outer length field.
func encCertList(certs [][]byte, totalDelta int) []byte {
	var body []byte
	for _, c := range certs {
		body = putVec(body, c, 3)
	}
	b := putU(nil, uint64(len(body)+totalDelta)&0xffffff, 3)
	return append(b, body...)
}

// ---------------------------------------------------------------------------
// decoders

const (
	stOK   = iota // well-formed: the bytes are the serialisation of the returned value
	stZero        // structurally well-formed but an ASN.1Cert<1..2^24-1> is empty (RFC lower bound broken)
	stBad         // malformed
)

type rd struct {
	b     []byte
	p     int
	short bool
}

func (r *rd) take(n int) []byte {
	if r.short || len(r.b)-r.p < n {
		r.short = true
		return nil
	}
	s := r.b[r.p : r.p+n]
	r.p += n
	return s
}

func (r *rd) u(n int) uint64 {
	s := r.take(n)
	var v uint64
	for _, x := range s {
		v = v<<8 | uint64(x)
	}
	return v
}

func (r *rd) vec(n int) []byte {
	l := r.u(n)
	if r.short {
		return nil
	}
	return r.take(int(l))
}

func decDS(b []byte) (v dsVal, consumed int, st int, why string) {
	r := &rd{b: b}
	v.Hash = byte(r.u(1))
	v.Alg = byte(r.u(1))
	v.Sig = r.vec(2)
	if r.short {
		return v, 0, stBad, "truncated"
	}
	return v, r.p, stOK, ""
}

func decSCT(b []byte) (v sctVal, consumed int, st int, why string) {
	r := &rd{b: b}
	v.Ver = byte(r.u(1))
	if r.short {
		return v, 0, stBad, "truncated"
	}
	if v.Ver != 0 {
		return v, 0, stBad, "unknown-version"
	}
	copy(v.LogID[:], r.take(32))
	v.TS = r.u(8)
	v.Ext = r.vec(2)
	v.Hash = byte(r.u(1))
	v.Alg = byte(r.u(1))
	v.Sig = r.vec(2)
	if r.short {
		return v, 0, stBad, "truncated"
	}
	return v, r.p, stOK, ""
}

func decLeaf(b []byte) (v leafVal, consumed int, st int, why string) {
	r := &rd{b: b}
	v.Ver = byte(r.u(1))
	if r.short {
		return v, 0, stBad, "truncated"
	}
	if v.Ver != 0 {
		return v, 0, stBad, "unknown-version"
	}
	v.LeafType = byte(r.u(1))
	if r.short {
		return v, 0, stBad, "truncated"
	}
	if v.LeafType != 0 {
		return v, 0, stBad, "unknown-leaf-type"
	}
	v.TS = r.u(8)
	v.EntryType = uint16(r.u(2))
	if r.short {
		return v, 0, stBad, "truncated"
	}
	zero := false
	switch v.EntryType {
	case 0:
		v.Cert = r.vec(3)
		zero = !r.short && len(v.Cert) == 0
	case 1:
		copy(v.IKH[:], r.take(32))
		v.TBS = r.vec(3)
		zero = !r.short && len(v.TBS) == 0
	default:
		return v, 0, stBad, "unknown-entry-type"
	}
	v.Ext = r.vec(2)
	if r.short {
		return v, 0, stBad, "truncated"
	}
	if zero {
		return v, r.p, stZero, "zero-length-cert"
	}
	return v, r.p, stOK, ""
}

// decCertListBody splits the body of a certificate_chain vector.
func decCertListBody(body []byte) (certs [][]byte, st int, why string) {
	r := &rd{b: body}
	st = stOK
	for r.p < len(body) {
		c := r.vec(3)
		if r.short {
			return nil, stBad, "dangling-or-truncated-element"
		}
		if len(c) == 0 {
			st, why = stZero, "zero-length-cert"
		}
		certs = append(certs, c)
	}
	return certs, st, why
}

// decX509Chain: the whole of b must be one certificate_chain vector.
func decX509Chain(b []byte) (certs [][]byte, st int, why string) {
	r := &rd{b: b}
	body := r.vec(3)
	if r.short {
		return nil, stBad, "truncated"
	}
	certs, st, why = decCertListBody(body)
	if st == stBad {
		return nil, st, why
	}
	if r.p != len(b) {
		return certs, stBad, "trailing-bytes"
	}
	return certs, st, why
}

// decPrecertChain: struct { ASN.1Cert pre_certificate; ASN.1Cert
// precertificate_chain<0..2^24-1>; } PrecertChainEntry, flattened.
func decPrecertChain(b []byte) (certs [][]byte, st int, why string) {
	r := &rd{b: b}
	pre := r.vec(3)
	if r.short {
		return nil, stBad, "truncated"
	}
	body := r.vec(3)
	if r.short {
		return nil, stBad, "truncated"
	}
	rest, st, why := decCertListBody(body)
	if st == stBad {
		return nil, st, why
	}
	certs = append([][]byte{pre}, rest...)
	if r.p != len(b) {
		return certs, stBad, "trailing-bytes"
	}
	if len(pre) == 0 {
		st, why = stZero, "zero-length-cert"
	}
	return certs, st, why
}

// ---------------------------------------------------------------------------
// signature inputs

const maxCert = 1<<24 - 1

// refSCTInput: RFC 6962 §3.2
//
//	digitally-signed struct {
//	    Version sct_version; SignatureType signature_type = certificate_timestamp(0);
//	    uint64 timestamp; LogEntryType entry_type;
//	    select(entry_type) { case x509_entry: ASN.1Cert; case precert_entry: PreCert; } signed_entry;
//	    CtExtensions extensions;
//	};
//
// out != nil iff the layout can express the value at all; valid iff it is also
// a legal v1 value (version v1, entry within <1..2^24-1>).
func refSCTInput(ver byte, ts uint64, et uint16, cert []byte, ikh [32]byte, tbs, ext []byte) (out []byte, valid bool, why string) {
	signed := cert
	switch et {
	case 0:
	case 1:
		signed = tbs
	default:
		return nil, false, "unknown entry type"
	}
	if len(signed) > maxCert {
		return nil, false, "entry longer than 2^24-1"
	}
	if !fits(len(ext), 2) {
		return nil, false, "extensions longer than 2^16-1"
	}
	b := make([]byte, 0, 12+35+len(signed)+2+len(ext))
	b = append(b, ver, 0)
	b = putU(b, ts, 8)
	b = putU(b, uint64(et), 2)
	if et == 1 {
		b = append(b, ikh[:]...)
	}
	b = putVec(b, signed, 3)
	b = putVec(b, ext, 2)
	switch {
	case ver != 0:
		return b, false, "version is not v1"
	case len(signed) == 0:
		return b, false, "zero-length entry"
	}
	return b, true, ""
}

// refSTHInput: RFC 6962 §3.5
//
//	digitally-signed struct { Version version; SignatureType signature_type = tree_hash(1);
//	    uint64 timestamp; uint64 tree_size; opaque sha256_root_hash[32]; } TreeHeadSignature;
func refSTHInput(ver byte, ts, size uint64, root [32]byte) (out []byte, valid bool) {
	b := []byte{ver, 1}
	b = putU(b, ts, 8)
	b = putU(b, size, 8)
	b = append(b, root[:]...)
	return b, ver == 0
}

// ---------------------------------------------------------------------------
// verification with the standard library

// digestFor hashes data with the function a TLS HashAlgorithm code point names
// (RFC 5246 §7.4.1.4.1); ok=false for none(0) and undefined code points.
func digestFor(id byte, data []byte) (crypto.Hash, []byte, bool) {
	switch id {
	case 1:
		s := md5.Sum(data)
		return crypto.MD5, s[:], true
	case 2:
		s := sha1.Sum(data)
		return crypto.SHA1, s[:], true
	case 3:
		s := sha256.Sum224(data)
		return crypto.SHA224, s[:], true
	case 4:
		s := sha256.Sum256(data)
		return crypto.SHA256, s[:], true
	case 5:
		s := sha512.Sum384(data)
		return crypto.SHA384, s[:], true
	case 6:
		s := sha512.Sum512(data)
		return crypto.SHA512, s[:], true
	}
	return 0, nil, false
}

// derPrefixLen: the length of the first element of sig when it is a SEQUENCE
// whose header is DER (definite, minimal length); 0 otherwise.
func derPrefixLen(sig []byte) int {
	if len(sig) < 2 || sig[0] != 0x30 {
		return 0
	}
	l, off := int(sig[1]), 2
	switch {
	case l < 0x80:
	case l == 0x81:
		if len(sig) < 3 || sig[2] < 0x80 {
			return 0
		}
		l, off = int(sig[2]), 3
	case l == 0x82:
		if len(sig) < 4 || sig[2] == 0 {
			return 0
		}
		l, off = int(sig[2])<<8|int(sig[3]), 4
	default:
		return 0
	}
	if off+l > len(sig) {
		return 0
	}
	return off + l
}

// refVerify answers, with the standard library only, whether sig is a
// signature by key over input under the algorithms the two TLS code points
// name. strict: the exact (DER) form verifies. lenient ⊇ strict: additionally a
// strict DER ECDSA-Sig-Value that verifies, FOLLOWED by further bytes (the only
// looseness the unchanged verifier shows, and one it logs on purpose). Nothing
// else is tolerated: no non-minimal lengths or integers, no extra elements
// inside the SEQUENCE.
func refVerify(key any, hashID, algID byte, input, sig []byte) (strict, lenient bool, why string) {
	h, digest, ok := digestFor(hashID, input)
	if !ok {
		return false, false, "hash id names no hash function"
	}
	switch algID {
	case 1:
		k, ok := key.(*stdrsa.PublicKey)
		if !ok {
			return false, false, "signature algorithm id does not match the key type"
		}
		v := stdrsa.VerifyPKCS1v15(k, h, digest, sig) == nil
		return v, v, "the signature does not verify"
	case 3:
		k, ok := key.(*ecdsa.PublicKey)
		if !ok {
			return false, false, "signature algorithm id does not match the key type"
		}
		strict = ecdsa.VerifyASN1(k, digest, sig)
		lenient = strict
		if n := derPrefixLen(sig); !strict && n > 0 && n < len(sig) {
			lenient = ecdsa.VerifyASN1(k, digest, sig[:n])
		}
		return strict, lenient, "the signature does not verify"
	}
	return false, false, "signature algorithm id is neither rsa(1) nor ecdsa(3)"
}
