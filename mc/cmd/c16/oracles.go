package main

import (
	"bytes"
	"crypto"
	"crypto/ecdsa"
	"crypto/ed25519"
	stdrsa "crypto/rsa"
	"fmt"
	"io"
	"math/big"
	"strings"

	"github.com/zmap/zcrypto/ct"
	zrsa "github.com/zmap/zcrypto/rsa"
	xct "github.com/zmap/zcrypto/x509/ct"
	"verifmc/internal/ev"
	"verifmc/internal/fx"
)

// ---------------------------------------------------------------------------
// adapters: the two packages expose the same functions on distinct types

type api struct {
	name      string
	marshalDS func(dsVal) ([]byte, error) // nil when the package has none
	unmarshal func(io.Reader) (dsVal, error)
	b64       func(dsVal) (string, error)
	fromB64   func(string) (dsVal, error)
	deserSCT  func(io.Reader) (sctVal, error)
}

func ctDS(v dsVal) ct.DigitallySigned {
	return ct.DigitallySigned{HashAlgorithm: ct.HashAlgorithm(v.Hash), SignatureAlgorithm: ct.SignatureAlgorithm(v.Alg), Signature: v.Sig}
}
func fromCtDS(d ct.DigitallySigned) dsVal {
	return dsVal{byte(d.HashAlgorithm), byte(d.SignatureAlgorithm), d.Signature}
}
func xctDS(v dsVal) xct.DigitallySigned {
	return xct.DigitallySigned{HashAlgorithm: xct.HashAlgorithm(v.Hash), SignatureAlgorithm: xct.SignatureAlgorithm(v.Alg), Signature: v.Sig}
}
func fromXctDS(d xct.DigitallySigned) dsVal {
	return dsVal{byte(d.HashAlgorithm), byte(d.SignatureAlgorithm), d.Signature}
}
func ctSCT(v sctVal) ct.SignedCertificateTimestamp {
	return ct.SignedCertificateTimestamp{SCTVersion: ct.Version(v.Ver), LogID: ct.SHA256Hash(v.LogID), Timestamp: v.TS,
		Extensions: ct.CTExtensions(v.Ext), Signature: ctDS(dsVal{v.Hash, v.Alg, v.Sig})}
}
func fromCtSCT(s *ct.SignedCertificateTimestamp) sctVal {
	return sctVal{Ver: byte(s.SCTVersion), LogID: [32]byte(s.LogID), TS: s.Timestamp, Ext: []byte(s.Extensions),
		Hash: byte(s.Signature.HashAlgorithm), Alg: byte(s.Signature.SignatureAlgorithm), Sig: s.Signature.Signature}
}

var apis = map[string]*api{
	"ct": {
		name:      "ct",
		marshalDS: func(v dsVal) ([]byte, error) { return ct.MarshalDigitallySigned(ctDS(v)) },
		unmarshal: func(r io.Reader) (dsVal, error) {
			d, err := ct.UnmarshalDigitallySigned(r)
			if err != nil || d == nil {
				return dsVal{}, orNilErr(err)
			}
			return fromCtDS(*d), nil
		},
		b64: func(v dsVal) (string, error) { return ctDS(v).Base64String() },
		fromB64: func(s string) (dsVal, error) {
			var d ct.DigitallySigned
			err := d.FromBase64String(s)
			return fromCtDS(d), err
		},
		deserSCT: func(r io.Reader) (sctVal, error) {
			s, err := ct.DeserializeSCT(r)
			if err != nil || s == nil {
				return sctVal{}, orNilErr(err)
			}
			return fromCtSCT(s), nil
		},
	},
	"x509/ct": {
		name:      "x509/ct",
		marshalDS: func(v dsVal) ([]byte, error) { return xct.MarshalDigitallySigned(xctDS(v)) },
		unmarshal: func(r io.Reader) (dsVal, error) {
			d, err := xct.UnmarshalDigitallySigned(r)
			if err != nil || d == nil {
				return dsVal{}, orNilErr(err)
			}
			return fromXctDS(*d), nil
		},
		b64: func(v dsVal) (string, error) { return xctDS(v).Base64String() },
		fromB64: func(s string) (dsVal, error) {
			var d xct.DigitallySigned
			err := d.FromBase64String(s)
			return fromXctDS(d), err
		},
		deserSCT: func(r io.Reader) (sctVal, error) {
			s, err := xct.DeserializeSCT(r)
			if err != nil || s == nil {
				return sctVal{}, orNilErr(err)
			}
			return sctVal{Ver: byte(s.SCTVersion), LogID: [32]byte(s.LogID), TS: s.Timestamp, Ext: []byte(s.Extensions),
				Hash: byte(s.Signature.HashAlgorithm), Alg: byte(s.Signature.SignatureAlgorithm), Sig: s.Signature.Signature}, nil
		},
	},
}

func orNilErr(err error) error {
	if err == nil {
		return fmt.Errorf("nil result without error")
	}
	return err
}

func errClass(err error) string {
	s := ev.MsgClass(err.Error())
	if i := strings.Index(s, "%!"); i >= 0 { // fmt's rendering of a panicking Stringer
		s = s[:i] + "<fmt-panic>"
	}
	if len(s) > 70 {
		s = s[:70]
	}
	return s
}

// guard runs f; a panic in zcrypto is always a violation.
func (r *R) guard(cs *Case, fn string, f func()) bool {
	if p, msg, site := ev.Try(f); p {
		r.viol("panic@"+site+": "+ev.MsgClass(msg), cs, fn+" panicked: "+msg)
		return false
	}
	return true
}

func (cs *Case) sct() sctVal {
	return sctVal{Ver: cs.Ver, LogID: arr32(cs.LogID), TS: cs.TS, Ext: cs.Ext, Hash: cs.Hash, Alg: cs.SigAlg, Sig: cs.Sig}
}

// sizeTag is the coarse class of a value used in violation signatures.
func sizeTag(ver byte, ext, sig []byte) string {
	var t []string
	if ver != 0 {
		t = append(t, "version≠v1")
	}
	if len(ext) > 0xffff {
		t = append(t, "extensions>65535")
	}
	if len(sig) > 0xffff {
		t = append(t, "signature>65535")
	}
	if t == nil {
		return "all fields within RFC bounds"
	}
	return strings.Join(t, ",")
}

// ---------------------------------------------------------------------------

func (r *R) run(cs *Case) {
	if cs.heavy() {
		heavyMu.Lock()
		defer heavyMu.Unlock()
	}
	r.cases++
	switch cs.Kind {
	case "sct-rt":
		r.sctRT(cs)
	case "ds-rt":
		r.dsRT(cs)
	case "sct-bytes":
		r.sctBytes(cs)
	case "ds-bytes":
		r.dsBytes(cs)
	case "leaf-bytes":
		r.leafBytes(cs)
	case "chainx-bytes", "chainp-bytes":
		r.chainBytes(cs)
	case "sct-input":
		r.sctInput(cs)
	case "sth-input":
		r.sthInput(cs)
	case "sct-verify", "sth-verify", "sct-wire-verify":
		r.verify(cs)
	case "key":
		r.keyKind(cs)
	case "key-pem":
		r.pemVerify(cs)
	case "alias":
		r.aliasHistory(cs)
	case "sct-here":
		r.sctHere(cs)
	case "ep-history":
		r.epHistory(cs)
	default:
		r.c.Broken("unknown case kind %q", cs.Kind)
	}
}

// ---------------------------------------------------------------------------
// oracle 1: serialise => error, or round trip + reported length

func (r *R) sctRT(cs *Case) {
	v := cs.sct()
	ref, expressible := encSCT(v)
	tag := sizeTag(v.Ver, v.Ext, v.Sig)
	r.evals++
	r.sctJSON(cs, cs.Pkg, v, tag)
	if cs.Pkg == "x509/ct" {
		// no serialiser in this package: the harness encoder is the serialiser
		if !expressible {
			r.h["sct-rt x509/ct: not expressible (skipped)"]++
			return
		}
		r.checkSCTDecode(cs, apis["x509/ct"], ref, "harness encoding of the value")
		return
	}
	z := ctSCT(v)
	var b []byte
	var err error
	r.calls++
	if !r.guard(cs, "ct.SerializeSCT", func() { b, err = ct.SerializeSCT(z) }) {
		return
	}
	var n int
	var lerr error
	if !r.guard(cs, "SerializedLength", func() { n, lerr = z.SerializedLength() }) {
		return
	}
	if err != nil {
		r.h["sct-rt ct: serialise error: "+errClass(err)]++
		if expressible {
			r.viol("ct.SerializeSCT: refuses an RFC-valid SCT ["+tag+"]", cs, err.Error())
		}
		return
	}
	r.h["sct-rt ct: serialised"]++
	bad := r.sctBytesRoundTrip(cs, "ct.SerializeSCT", b, v, tag)
	if lerr != nil || n != len(b) {
		r.viol("ct.SerializeSCT: SerializedLength() does not equal len(bytes) ["+tag+"]", cs, fmt.Sprintf("SerializedLength=%d,%v len(bytes)=%d", n, lerr, len(b)))
		bad = true
	}
	if !bad && expressible && !bytes.Equal(b, ref) {
		r.viol("ct.SerializeSCT: bytes differ from the RFC 6962 §3.2 layout ["+tag+"]", cs, firstDiff(b, ref))
	}
	// SerializeSCTHere with caller-supplied buffers: same contract.
	if len(b) <= 4096 {
		for _, sz := range []int{len(b), len(b) + 7, len(b) - 1} {
			if sz < 0 {
				continue
			}
			buf := bytes.Repeat([]byte{0xa5}, sz)
			var hb []byte
			var herr error
			r.calls++
			if !r.guard(cs, "ct.SerializeSCTHere", func() { hb, herr = ct.SerializeSCTHere(z, buf) }) {
				return
			}
			if herr != nil {
				r.h["sct-rt ct: SerializeSCTHere error: "+errClass(herr)]++
				if sz >= len(b) {
					r.viol("ct.SerializeSCTHere: refuses a large-enough buffer ["+tag+"]", cs, fmt.Sprintf("buffer %d, needed %d: %v", sz, len(b), herr))
				}
				continue
			}
			r.h["sct-rt ct: SerializeSCTHere serialised"]++
			if !bytes.Equal(hb, b) {
				r.viol("ct.SerializeSCTHere: bytes differ from SerializeSCT of the same value ["+tag+"]", cs, fmt.Sprintf("buffer %d: %s", sz, firstDiff(hb, b)))
			}
		}
	}
}

// sctBytesRoundTrip: bytes a serialiser returned without error must decode to v.
func (r *R) sctBytesRoundTrip(cs *Case, fn string, b []byte, v sctVal, tag string) (bad bool) {
	rd := bytes.NewReader(b)
	var v2 sctVal
	var derr error
	r.calls++
	if !r.guard(cs, "ct.DeserializeSCT", func() { v2, derr = apis["ct"].deserSCT(rd) }) {
		return true
	}
	r.readerMenu(cs, "ct.DeserializeSCT", b, func(rd io.Reader) (string, error) { v, err := apis["ct"].deserSCT(rd); return sctKey(v), err })
	switch {
	case derr != nil:
		r.viol(fn+": no error, but DeserializeSCT rejects the bytes ["+tag+"]", cs, derr.Error())
		return true
	case sctEqual(v, v2) != "":
		r.viol(fn+": no error, but the bytes deserialise to a different value ("+sctEqual(v, v2)+") ["+tag+"]", cs,
			fmt.Sprintf("len(bytes)=%d; decoded ext %d bytes, signature %d bytes", len(b), len(v2.Ext), len(v2.Sig)))
		return true
	case rd.Len() != 0:
		r.viol(fn+": bytes longer than the structure they contain ["+tag+"]", cs, fmt.Sprintf("%d bytes unread", rd.Len()))
		return true
	}
	return false
}

func firstDiff(a, b []byte) string {
	n := len(a)
	if len(b) < n {
		n = len(b)
	}
	for i := 0; i < n; i++ {
		if a[i] != b[i] {
			return fmt.Sprintf("first difference at offset %d: got %02x want %02x (lengths %d/%d)", i, a[i], b[i], len(a), len(b))
		}
	}
	return fmt.Sprintf("lengths differ: got %d want %d", len(a), len(b))
}

func (r *R) dsRT(cs *Case) {
	a := apis[cs.Pkg]
	v := dsVal{cs.Hash, cs.SigAlg, cs.Sig}
	ref, expressible := encDS(v)
	tag := sizeTag(0, nil, v.Sig)
	fn := a.name + ".MarshalDigitallySigned"
	r.evals++
	var b []byte
	var err error
	r.calls++
	if !r.guard(cs, fn, func() { b, err = a.marshalDS(v) }) {
		return
	}
	if err != nil {
		r.h["ds-rt "+a.name+": marshal error: "+errClass(err)]++
		if expressible {
			r.viol(fn+": refuses an RFC-valid value ["+tag+"]", cs, err.Error())
			return
		}
		r.dsJSON(cs, a.name, v, tag) // must fail too
		return
	}
	r.h["ds-rt "+a.name+": marshalled"]++
	rd := bytes.NewReader(b)
	var v2 dsVal
	var derr error
	r.calls++
	if !r.guard(cs, a.name+".UnmarshalDigitallySigned", func() { v2, derr = a.unmarshal(rd) }) {
		return
	}
	if jsonIDs[v.Hash] && jsonIDs[v.Alg] {
		// reader behaviours: the 12 x 12 boundary ids x every signature length (the ids are single bytes read alike)
		r.readerMenu(cs, a.name+".UnmarshalDigitallySigned", b, func(rd io.Reader) (string, error) { v, err := a.unmarshal(rd); return dsKey(v), err })
	}
	switch {
	case derr != nil:
		r.viol(fn+": no error, but UnmarshalDigitallySigned rejects the bytes ["+tag+"]", cs, derr.Error())
		return
	case dsEqual(v, v2) != "":
		r.viol(fn+": no error, but the bytes unmarshal to a different value ("+dsEqual(v, v2)+") ["+tag+"]", cs,
			fmt.Sprintf("len(bytes)=%d; decoded signature %d bytes, %d bytes unread", len(b), len(v2.Sig), rd.Len()))
		return
	case rd.Len() != 0:
		r.viol(fn+": bytes longer than the structure they contain ["+tag+"]", cs, fmt.Sprintf("%d bytes unread", rd.Len()))
		return
	}
	if expressible && !bytes.Equal(b, ref) {
		r.viol(fn+": bytes differ from the RFC 5246 DigitallySigned layout ["+tag+"]", cs, firstDiff(b, ref))
		return
	}
	// the base64 text form is a second serialisation of the same value
	var s string
	r.calls++
	if !r.guard(cs, a.name+".Base64String", func() { s, err = a.b64(v) }) {
		return
	}
	if err != nil {
		r.viol(a.name+".DigitallySigned.Base64String: refuses a value MarshalDigitallySigned accepts ["+tag+"]", cs, err.Error())
		return
	}
	var v3 dsVal
	r.calls++
	if !r.guard(cs, a.name+".FromBase64String", func() { v3, derr = a.fromB64(s) }) {
		return
	}
	if derr != nil || dsEqual(v, v3) != "" {
		r.viol(a.name+".DigitallySigned.Base64String: does not round-trip through FromBase64String ["+tag+"]", cs, fmt.Sprint(derr, " ", dsEqual(v, v3)))
		return
	}
	if jsonIDs[v.Hash] && jsonIDs[v.Alg] {
		// the JSON form is the quoted base64 of the same bytes: the 12 x 12 boundary ids x every signature length
		r.dsJSON(cs, a.name, v, tag)
	}
}

var jsonIDs = map[byte]bool{0: true, 1: true, 2: true, 3: true, 4: true, 5: true, 6: true, 7: true, 127: true, 128: true, 254: true, 255: true}

// ---------------------------------------------------------------------------
// decoders on harness-made bytes. Bytes the reference decoder calls
// well-formed ARE the serialisation of a value: the decoder must return it.
// On malformed bytes the statement is silent: acceptance is only observed.

func (r *R) checkSCTDecode(cs *Case, a *api, b []byte, what string) {
	want, consumed, st, why := decSCT(b)
	fn := a.name + ".DeserializeSCT"
	rd := bytes.NewReader(b)
	var got sctVal
	var err error
	r.calls++
	if !r.guard(cs, fn, func() { got, err = a.deserSCT(rd) }) {
		return
	}
	r.readerMenu(cs, fn, b, func(rd io.Reader) (string, error) { v, err := a.deserSCT(rd); return sctKey(v), err })
	if st == stBad {
		if err == nil {
			r.viol(fn+": accepts bytes that are not the serialisation of any value ("+why+")", cs, fmt.Sprintf("decoded version=%d ext=%d sig=%d bytes", got.Ver, len(got.Ext), len(got.Sig)))
		} else {
			r.h["sct-bytes "+a.name+": malformed rejected ("+why+")"]++
		}
		return
	}
	switch {
	case err != nil:
		r.viol(fn+": rejects a well-formed SCT ("+what+")", cs, err.Error())
	case sctEqual(want, got) != "":
		r.viol(fn+": well-formed SCT decodes to a different value ("+sctEqual(want, got)+")", cs, what)
	case len(b)-rd.Len() != consumed:
		r.viol(fn+": consumes a different number of bytes than the structure has", cs, fmt.Sprintf("consumed %d, structure %d", len(b)-rd.Len(), consumed))
	default:
		r.h["sct-bytes "+a.name+": decoded"]++
	}
}

func (r *R) sctBytes(cs *Case) {
	r.evals++
	r.checkSCTDecode(cs, apis[cs.Pkg], cs.Bytes, "mutated serialisation")
}

func (r *R) dsBytes(cs *Case) {
	a := apis[cs.Pkg]
	r.evals++
	want, consumed, st, why := decDS(cs.Bytes)
	fn := a.name + ".UnmarshalDigitallySigned"
	rd := bytes.NewReader(cs.Bytes)
	var got dsVal
	var err error
	r.calls++
	if !r.guard(cs, fn, func() { got, err = a.unmarshal(rd) }) {
		return
	}
	r.readerMenu(cs, fn, cs.Bytes, func(rd io.Reader) (string, error) { v, err := a.unmarshal(rd); return dsKey(v), err })
	if st == stBad {
		if err == nil {
			r.viol(fn+": accepts bytes that are not the serialisation of any value ("+why+")", cs, fmt.Sprintf("decoded sig=%d bytes", len(got.Sig)))
		} else {
			r.h["ds-bytes "+a.name+": malformed rejected ("+why+")"]++
		}
		return
	}
	switch {
	case err != nil:
		r.viol(fn+": rejects a well-formed DigitallySigned", cs, err.Error())
	case dsEqual(want, got) != "":
		r.viol(fn+": well-formed DigitallySigned decodes to a different value ("+dsEqual(want, got)+")", cs, "")
	case len(cs.Bytes)-rd.Len() != consumed:
		r.viol(fn+": consumes a different number of bytes than the structure has", cs, fmt.Sprintf("consumed %d, structure %d", len(cs.Bytes)-rd.Len(), consumed))
	default:
		r.h["ds-bytes "+a.name+": decoded"]++
	}
}

func (r *R) leafBytes(cs *Case) {
	r.evals++
	want, consumed, st, why := decLeaf(cs.Bytes)
	fn := "ct.ReadMerkleTreeLeaf"
	rd := bytes.NewReader(cs.Bytes)
	var leaf *ct.MerkleTreeLeaf
	var err error
	r.calls++
	if !r.guard(cs, fn, func() { leaf, err = ct.ReadMerkleTreeLeaf(rd) }) {
		return
	}
	r.readerMenu(cs, fn, cs.Bytes, func(rd io.Reader) (string, error) {
		l, err := ct.ReadMerkleTreeLeaf(rd)
		if err != nil || l == nil {
			return "", orNilErr(err)
		}
		return digest([]byte{byte(l.Version), byte(l.LeafType)}, []byte(teKey(&l.TimestampedEntry))), nil
	})
	if len(cs.Bytes) >= 2 {
		// the TimestampedEntry inside the leaf, through its own entry point
		r.readerMenu(cs, "ct.ReadTimestampedEntryInto", cs.Bytes[2:], func(rd io.Reader) (string, error) {
			var t ct.TimestampedEntry
			err := ct.ReadTimestampedEntryInto(rd, &t)
			return teKey(&t), err
		})
	}
	if err == nil && leaf == nil {
		r.viol(fn+": nil leaf without error", cs, "")
		return
	}
	if st == stBad {
		if err == nil {
			r.viol(fn+": accepts bytes that are not the serialisation of any value ("+why+")", cs, "")
		} else {
			r.h["leaf-bytes: malformed rejected ("+why+")"]++
		}
		return
	}
	if err != nil {
		if st == stZero {
			r.h["leaf-bytes: zero-length ASN.1Cert rejected"]++
			return
		}
		r.viol(fn+": rejects a well-formed MerkleTreeLeaf", cs, err.Error())
		return
	}
	te := leaf.TimestampedEntry
	got := leafVal{Ver: byte(leaf.Version), LeafType: byte(leaf.LeafType), TS: te.Timestamp, EntryType: uint16(te.EntryType),
		Cert: te.X509Entry, IKH: te.PrecertEntry.IssuerKeyHash, TBS: te.PrecertEntry.TBSCertificate, Ext: te.Extensions}
	switch {
	case leafEqual(want, got) != "":
		r.viol(fn+": well-formed MerkleTreeLeaf decodes to a different value ("+leafEqual(want, got)+")", cs, "")
	case len(cs.Bytes)-rd.Len() != consumed:
		r.viol(fn+": consumes a different number of bytes than the structure has", cs, fmt.Sprintf("consumed %d, structure %d", len(cs.Bytes)-rd.Len(), consumed))
	case st == stZero:
		if !bytes.Equal(encLeaf(leafSpec{V: got}), cs.Bytes[:consumed]) {
			r.viol(fn+": accepts a zero-length ASN.1Cert and the value it returns re-serialises to other bytes", cs, "")
			return
		}
		r.observe(fn+" accepts a zero-length ASN.1Cert (RFC 6962: <1..2^24-1>); re-serialises to the same bytes", cs)
	default:
		r.h[fmt.Sprintf("leaf-bytes: decoded (entry type %d)", want.EntryType)]++
	}
}

func (r *R) chainBytes(cs *Case) {
	r.evals++
	var want [][]byte
	var st int
	var why, fn string
	var got []ct.ASN1Cert
	var err error
	r.calls++
	if cs.Kind == "chainx-bytes" {
		fn = "ct.UnmarshalX509ChainArray"
		want, st, why = decX509Chain(cs.Bytes)
		if !r.guard(cs, fn, func() { got, err = ct.UnmarshalX509ChainArray(cs.Bytes) }) {
			return
		}
	} else {
		fn = "ct.UnmarshalPrecertChainArray"
		want, st, why = decPrecertChain(cs.Bytes)
		if !r.guard(cs, fn, func() { got, err = ct.UnmarshalPrecertChainArray(cs.Bytes) }) {
			return
		}
	}
	if st == stBad {
		if err == nil {
			// criterion: re-serialising what the decoder returned does not give these bytes back
			r.viol(fn+": accepts bytes that are not the serialisation of the value it returns ("+why+")", cs, fmt.Sprintf("%d certificates returned", len(got)))
		} else {
			r.h[cs.Kind+": malformed rejected ("+why+")"]++
		}
		return
	}
	if err != nil {
		if st == stZero {
			r.h[cs.Kind+": zero-length ASN.1Cert rejected"]++
			return
		}
		r.viol(fn+": rejects a well-formed chain", cs, err.Error())
		return
	}
	g := make([][]byte, len(got))
	for i := range got {
		g[i] = got[i]
	}
	switch {
	case !certsEqual(want, g):
		r.viol(fn+": well-formed chain decodes to a different value", cs, fmt.Sprintf("got %d certificates, want %d", len(g), len(want)))
	case st == stZero:
		re := encCertList(g, 0)
		if cs.Kind == "chainp-bytes" {
			re = append(putVec(nil, g[0], 3), encCertList(g[1:], 0)...)
		}
		if !bytes.Equal(re, cs.Bytes) {
			r.viol(fn+": accepts a zero-length ASN.1Cert and the value it returns re-serialises to other bytes", cs, "")
			return
		}
		r.observe(fn+" accepts a zero-length ASN.1Cert (RFC 6962: <1..2^24-1>); re-serialises to the same bytes", cs)
	default:
		r.h[fmt.Sprintf("%s: decoded (%d certificates)", cs.Kind, len(want))]++
	}
}

// ---------------------------------------------------------------------------
// keys

var (
	stdPub   = map[string]any{} // standard-library view of the log keys
	stdPriv  = map[string]crypto.Signer{}
	verifier = map[string]*ct.SignatureVerifier{}
	keyNames = []string{"rsa2048", "rsa2048b", "p256", "p256b"}
	// bigKeys: larger RSA log keys (RFC 6962 §2.1.4: "RSA signatures ... using a key of at least 2048 bits");
	// verifiers exist for them, they are used by the reduced sweep of part C only.
	bigKeys = []string{"rsa3072", "rsa4096"}
)

func algFor(key string) byte {
	if strings.HasPrefix(key, "rsa") {
		return 1
	}
	return 3
}

func initKeys(c *ev.Ctx) {
	for _, n := range append(append([]string{}, keyNames...), bigKeys...) {
		var zpub crypto.PublicKey
		if strings.HasPrefix(n, "rsa") {
			k := fx.StdRSA(n)
			stdPub[n], stdPriv[n] = &k.PublicKey, k
			zpub = &fx.ZRSA(n).PublicKey
		} else {
			k := fx.EC(n)
			stdPub[n], stdPriv[n] = &k.PublicKey, k
			kk := fx.EC(n)
			zpub = &kk.PublicKey
		}
		v, err := ct.NewSignatureVerifier(zpub)
		if err != nil || v == nil {
			c.Violation("ct.NewSignatureVerifier: refuses an RFC 6962 log key ("+n[:3]+")", map[string]any{"kind": "key", "key": n, "detail": fmt.Sprint(err)})
			continue
		}
		verifier[n] = v
	}
}

// stdSign signs input with the standard library under the hash a TLS code
// point names (deterministic: PKCS#1 v1.5, RFC 6979 ECDSA with a nil reader).
func stdSign(key string, hashID byte, input []byte) []byte {
	h, digest, ok := digestFor(hashID, input)
	if !ok {
		panic("stdSign: no such hash")
	}
	var sig []byte
	var err error
	if k, ok := stdPriv[key].(*stdrsa.PrivateKey); ok {
		sig, err = stdrsa.SignPKCS1v15(nil, k, h, digest)
	} else {
		sig, err = stdPriv[key].Sign(nil, digest, h) // crypto/ecdsa: nil reader = RFC 6979
	}
	if err != nil {
		panic(fmt.Sprintf("stdSign %s hash %d: %v", key, hashID, err))
	}
	return sig
}

func (r *R) keyKind(cs *Case) {
	r.evals++
	var pk crypto.PublicKey
	mustRefuse := true
	malformedValue := false
	switch cs.Key {
	case "rsa512", "rsa1024", "rsa1025":
		pk = &fx.ZRSA(cs.Key).PublicKey
	case "rsa2048", "rsa3072", "rsa4096":
		pk = &fx.ZRSA(cs.Key).PublicKey
		mustRefuse = false
	case "p224", "p384", "p521":
		pk = &fx.EC(cs.Key).PublicKey
	case "p256", "p256b":
		pk = &fx.EC(cs.Key).PublicKey
		mustRefuse = false
	case "ed25519":
		pk = fx.Ed("log").Public().(ed25519.PublicKey)
	case "dsa1024", "dsa2048":
		pk = &fx.DSA(cs.Key).PublicKey
	case "nil":
		pk = nil
	case "string":
		pk = "not a key"
	case "zrsa-by-value":
		pk = fx.ZRSA("rsa2048").PublicKey
	case "ecdsa-by-value":
		pk = fx.EC("p256").PublicKey
	case "rsa-private-key":
		pk = fx.ZRSA("rsa2048")
	case "ecdsa-private-key":
		pk = fx.EC("p256")
	case "std-rsa2048":
		// RSA-2048 is an RFC 6962 key, but held in crypto/rsa's type, which this
		// package does not use: the statement does not say which Go types count.
		pk = &fx.StdRSA("rsa2048").PublicKey
		var err error
		if !r.guard(cs, "ct.NewSignatureVerifier", func() { _, err = ct.NewSignatureVerifier(pk) }) {
			return
		}
		if err != nil {
			r.viol("ct.NewSignatureVerifier: refuses *crypto/rsa.PublicKey (2048 bit), the type ct.PublicKeyFromPEM returns for RSA logs", cs, err.Error())
		} else {
			r.h["key: std rsa accepted"]++
		}
		return
	case "std-rsa1024":
		pk = &fx.StdRSA("rsa1024").PublicKey
	case "typed-nil-std-rsa":
		pk = (*stdrsa.PublicKey)(nil)
		malformedValue = true
	case "typed-nil-ecdsa":
		pk = (*ecdsa.PublicKey)(nil)
		malformedValue = true
	case "zrsa-nil-modulus":
		pk = &zrsa.PublicKey{E: big.NewInt(65537)}
		malformedValue = true
	case "ecdsa-nil-curve":
		pk = &ecdsa.PublicKey{X: big.NewInt(1), Y: big.NewInt(2)}
		malformedValue = true
	case "typed-nil-rsa":
		pk = (*zrsa.PublicKey)(nil)
		malformedValue = true
	case "p256-copied-params":
		// the same curve described by a copy of its parameters
		k := fx.EC("p256")
		p := *k.Curve.Params()
		pk = &ecdsa.PublicKey{Curve: &p, X: k.X, Y: k.Y}
		var err error
		if !r.guard(cs, "ct.NewSignatureVerifier", func() { _, err = ct.NewSignatureVerifier(pk) }) {
			return
		}
		r.h[fmt.Sprintf("key: p256 with copied CurveParams refused=%v (either is fine)", err != nil)]++
		return
	default:
		r.c.Broken("unknown key kind %q", cs.Key)
	}
	var v *ct.SignatureVerifier
	var err error
	r.calls++
	if malformedValue {
		if !r.guard(cs, "ct.NewSignatureVerifier", func() { v, err = ct.NewSignatureVerifier(pk) }) {
			return // a panic is a violation: the constructor returns an error for keys it cannot use
		}
		if err == nil {
			r.viol("ct.NewSignatureVerifier: accepts a key value without key material", cs, cs.Key)
		} else {
			r.h["key: malformed value refused"]++
		}
		return
	}
	if !r.guard(cs, "ct.NewSignatureVerifier", func() { v, err = ct.NewSignatureVerifier(pk) }) {
		return
	}
	switch {
	case mustRefuse && err == nil:
		r.viol("ct.NewSignatureVerifier: accepts a key kind RFC 6962 does not permit", cs, cs.Key)
	case !mustRefuse && (err != nil || v == nil):
		r.viol("ct.NewSignatureVerifier: refuses an RFC 6962 log key ("+cs.Key[:3]+")", cs, fmt.Sprint(err))
	case mustRefuse:
		r.h["key: refused: "+errClass(err)]++
	default:
		r.h["key: accepted"]++
	}
}

var _ = io.EOF
