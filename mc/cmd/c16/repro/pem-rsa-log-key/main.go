// Reproducer (C16): ct.PublicKeyFromPEM parses with crypto/x509 and returns an RSA log key as
// *crypto/rsa.PublicKey; ct.NewSignatureVerifier only knows *zcrypto/rsa.PublicKey and refuses it
// ("Unsupported public key type"), so an RSA log loaded with the package's own loader can never verify.
//
//	cd /verif/mc && GOFLAGS=-mod=mod GOPROXY=off go run ./cmd/c16/repro/pem-rsa-log-key   (exit 1 = defect present)
package main

import (
	"crypto"
	"crypto/rand"
	"crypto/rsa"
	"crypto/sha256"
	"crypto/x509"
	"encoding/pem"
	"fmt"
	"os"

	"github.com/zmap/zcrypto/ct"
)

func main() {
	k, _ := rsa.GenerateKey(rand.Reader, 2048)
	der, _ := x509.MarshalPKIXPublicKey(&k.PublicKey)
	pk, _, _, err := ct.PublicKeyFromPEM(pem.EncodeToMemory(&pem.Block{Type: "PUBLIC KEY", Bytes: der}))
	fmt.Printf("PublicKeyFromPEM -> %T, %v\n", pk, err)
	v, err := ct.NewSignatureVerifier(pk)
	fmt.Printf("NewSignatureVerifier -> %v\n", err)
	if err != nil {
		fmt.Println("DEFECT: the RSA key the package's own loader returns is refused")
		os.Exit(1)
	}
	sth := ct.SignedTreeHead{TreeSize: 7, Timestamp: 1700000000123}
	in, _ := ct.SerializeSTHSignatureInput(sth)
	d := sha256.Sum256(in)
	sig, _ := rsa.SignPKCS1v15(nil, k, crypto.SHA256, d[:])
	sth.TreeHeadSignature = ct.DigitallySigned{HashAlgorithm: ct.SHA256, SignatureAlgorithm: ct.RSA, Signature: sig}
	if err := v.VerifySTHSignature(sth); err != nil {
		fmt.Println("DEFECT: genuine STH signature rejected:", err)
		os.Exit(1)
	}
	fmt.Println("ok: RSA log key from PEM verifies a genuine STH")
}
