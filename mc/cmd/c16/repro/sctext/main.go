// Standalone reproducer (no harness code): the SCT signature input takes the
// CtExtensions from the LogEntry's leaf instead of from the SCT (RFC 6962 §3.2
// signs the SCT's own extensions). Consequences: an SCT whose extensions were
// altered still verifies, and a genuine SCT with extensions is rejected unless
// the caller copied them into the entry.
//
//	cd /verif/mc && GOFLAGS=-mod=mod GOPROXY=off go run ./cmd/c16/repro/sctext
package main

import (
	"crypto"
	"crypto/ecdsa"
	"crypto/elliptic"
	"crypto/sha256"
	"encoding/binary"
	"fmt"
	"math/big"
	"os"

	"github.com/zmap/zcrypto/ct"
)

// rfcInput is RFC 6962 §3.2 for an x509_entry.
func rfcInput(ts uint64, cert, ext []byte) []byte {
	b := []byte{0 /* v1 */, 0 /* certificate_timestamp */}
	b = binary.BigEndian.AppendUint64(b, ts)
	b = append(b, 0, 0) // x509_entry
	b = append(b, byte(len(cert)>>16), byte(len(cert)>>8), byte(len(cert)))
	b = append(b, cert...)
	b = binary.BigEndian.AppendUint16(b, uint16(len(ext)))
	return append(b, ext...)
}

func main() {
	d, _ := new(big.Int).SetString("1f2e3d4c5b6a79880123456789abcdef0fedcba9876543211122334455667788", 16)
	priv := &ecdsa.PrivateKey{D: d}
	priv.Curve = elliptic.P256()
	priv.X, priv.Y = priv.Curve.ScalarBaseMult(d.Bytes())
	v, err := ct.NewSignatureVerifier(&priv.PublicKey)
	if err != nil {
		panic(err)
	}
	cert := []byte("any certificate bytes")
	const ts = 1700000000123

	// 1. the log signed an SCT with EMPTY extensions
	digest := sha256.Sum256(rfcInput(ts, cert, nil))
	sig, err := priv.Sign(nil, digest[:], crypto.SHA256) // standard library, RFC 6979
	if err != nil {
		panic(err)
	}
	entry := ct.LogEntry{Leaf: ct.MerkleTreeLeaf{TimestampedEntry: ct.TimestampedEntry{EntryType: ct.X509LogEntryType, X509Entry: cert}}}
	sct := ct.SignedCertificateTimestamp{SCTVersion: ct.V1, Timestamp: ts,
		Signature: ct.DigitallySigned{HashAlgorithm: ct.SHA256, SignatureAlgorithm: ct.ECDSA, Signature: sig}}
	fmt.Println("genuine SCT (no extensions):                 ", v.VerifySCTSignature(sct, entry))
	forged := sct
	forged.Extensions = ct.CTExtensions("attacker chosen")
	errForged := v.VerifySCTSignature(forged, entry)
	fmt.Println("same signature, sct.Extensions altered:      ", errForged, "  <- must be an error")

	// 2. the log signed an SCT WITH extensions; the entry is built from the certificate alone
	digest = sha256.Sum256(rfcInput(ts, cert, []byte{0xde, 0xad}))
	if sig, err = priv.Sign(nil, digest[:], crypto.SHA256); err != nil {
		panic(err)
	}
	sct2 := ct.SignedCertificateTimestamp{SCTVersion: ct.V1, Timestamp: ts, Extensions: ct.CTExtensions{0xde, 0xad},
		Signature: ct.DigitallySigned{HashAlgorithm: ct.SHA256, SignatureAlgorithm: ct.ECDSA, Signature: sig}}
	errGenuine := v.VerifySCTSignature(sct2, entry)
	if e := v.VerifySCTSignature(sct, entry); e != nil {
		panic("baseline does not verify: " + e.Error())
	}
	fmt.Println("genuine SCT with extensions, entry without:  ", errGenuine, "  <- must be <nil>")

	in, _ := ct.SerializeSCTSignatureInput(forged, entry)
	fmt.Printf("SerializeSCTSignatureInput(forged) ends with extensions length %x (RFC: %x + the %d extension bytes)\n",
		in[len(in)-2:], []byte{0, byte(len(forged.Extensions))}, len(forged.Extensions))
	if errForged == nil || errGenuine != nil {
		fmt.Println("REPRODUCED")
		os.Exit(1)
	}
	fmt.Println("not reproduced")
}
