// Reproducer (C16): chain arrays with a dangling partial length prefix, or with bytes after the outer
// vector, are accepted and the leftover silently dropped: the bytes are not the serialisation of the
// value that is returned (re-serialising the returned certificates gives other bytes).
//
//	cd /verif/mc && GOFLAGS=-mod=mod GOPROXY=off go run ./cmd/c16/repro/chainlenient   (exit 1 = defect present)
package main

import (
	"fmt"
	"os"

	"github.com/zmap/zcrypto/ct"
)

func main() {
	bad := 0
	try := func(what string, f func([]byte) ([]ct.ASN1Cert, error), b []byte) {
		certs, err := f(b)
		fmt.Printf("%-60s %x -> certs=%q err=%v\n", what, b, certs, err)
		if err == nil {
			bad++
		}
	}
	// outer length 6: one certificate "AA" (00 00 02 41 41) followed by ONE stray byte 00
	try("X509: stray byte inside the list", ct.UnmarshalX509ChainArray, []byte{0, 0, 6, 0, 0, 2, 'A', 'A', 0})
	// outer length 7: certificate "AA" then two bytes of a length prefix
	try("X509: 2-byte partial length prefix", ct.UnmarshalX509ChainArray, []byte{0, 0, 7, 0, 0, 2, 'A', 'A', 0, 0})
	// bytes after the outer vector
	try("X509: trailing bytes after the vector", ct.UnmarshalX509ChainArray, []byte{0, 0, 5, 0, 0, 2, 'A', 'A', 0xde, 0xad})
	try("Precert: trailing byte after the chain vector", ct.UnmarshalPrecertChainArray, []byte{0, 0, 1, 'P', 0, 0, 5, 0, 0, 2, 'A', 'A', 0xff})
	try("Precert: stray byte inside the list", ct.UnmarshalPrecertChainArray, []byte{0, 0, 1, 'P', 0, 0, 6, 0, 0, 2, 'A', 'A', 0})
	if bad > 0 {
		fmt.Printf("DEFECT: %d malformed chain arrays accepted\n", bad)
		os.Exit(1)
	}
	fmt.Println("ok: all refused")
}
