// Observation (outside the letter of C16, not reported as a violation): chain
// arrays with a dangling partial length prefix, or with bytes after the outer
// vector, are accepted and the leftover silently dropped.
//
//	cd /verif/mc && GOFLAGS=-mod=mod GOPROXY=off go run ./cmd/c16/repro/chainlenient
package main

import (
	"fmt"

	"github.com/zmap/zcrypto/ct"
)

func main() {
	// outer length 6: one certificate "AA" (00 00 02 41 41) followed by ONE stray byte 00
	b := []byte{0, 0, 6, 0, 0, 2, 'A', 'A', 0}
	certs, err := ct.UnmarshalX509ChainArray(b)
	fmt.Printf("stray byte inside the list : certs=%q err=%v\n", certs, err)
	// outer length 7: certificate "AA" then two bytes of a length prefix
	b = []byte{0, 0, 7, 0, 0, 2, 'A', 'A', 0, 0}
	certs, err = ct.UnmarshalX509ChainArray(b)
	fmt.Printf("2-byte partial length prefix: certs=%q err=%v\n", certs, err)
	// bytes after the outer vector
	b = []byte{0, 0, 5, 0, 0, 2, 'A', 'A', 0xde, 0xad}
	certs, err = ct.UnmarshalX509ChainArray(b)
	fmt.Printf("trailing bytes after vector : certs=%q err=%v\n", certs, err)
}
