// Reproducer (C16): ct.NewSignatureVerifier dereferences key material without looking: a typed nil
// *rsa.PublicKey, an RSA key without modulus and an ECDSA key without curve make it panic instead of
// returning the error it returns for every other unusable key.
//
//	cd /verif/mc && GOFLAGS=-mod=mod GOPROXY=off go run ./cmd/c16/repro/nil-key-panic   (exit 1 = defect present)
package main

import (
	"crypto/ecdsa"
	"fmt"
	"math/big"
	"os"

	"github.com/zmap/zcrypto/ct"
	zrsa "github.com/zmap/zcrypto/rsa"
)

func main() {
	bad := 0
	try := func(what string, pk any) {
		defer func() {
			if r := recover(); r != nil {
				fmt.Printf("%-40s PANIC: %v\n", what, r)
				bad++
			}
		}()
		_, err := ct.NewSignatureVerifier(pk)
		fmt.Printf("%-40s err=%v\n", what, err)
		if err == nil {
			bad++
		}
	}
	try("(*rsa.PublicKey)(nil)", (*zrsa.PublicKey)(nil))
	try("&rsa.PublicKey{E: 65537} (no modulus)", &zrsa.PublicKey{E: big.NewInt(65537)})
	try("&ecdsa.PublicKey{X,Y} (no curve)", &ecdsa.PublicKey{X: big.NewInt(1), Y: big.NewInt(2)})
	try("(*ecdsa.PublicKey)(nil)", (*ecdsa.PublicKey)(nil))
	if bad > 0 {
		fmt.Printf("DEFECT: %d key values panic or are accepted\n", bad)
		os.Exit(1)
	}
	fmt.Println("ok: all refused with an error")
}
