// Reproducer (C16): ct.SignatureVerifier decodes the ECDSA signature with encoding/asn1.Unmarshal, which
// ignores whatever follows s INSIDE the SEQUENCE, so a genuine signature with extra content inside the
// SEQUENCE (length adjusted) still verifies: unboundedly many encodings of one signature are accepted
// (crypto/ecdsa.VerifyASN1 rejects them; the same defect was repaired in x509.CheckSignatureFromKey, eec2aad).
//
//	cd /verif/mc && GOFLAGS=-mod=mod GOPROXY=off go run ./cmd/c16/repro/ecdsa-extra-element   (exit 1 = defect present)
package main

import (
	"crypto/ecdsa"
	"crypto/elliptic"
	"crypto/rand"
	"crypto/sha256"
	"fmt"
	"io"
	"log"
	"os"

	"github.com/zmap/zcrypto/ct"
)

func main() {
	log.SetOutput(io.Discard)
	k, _ := ecdsa.GenerateKey(elliptic.P256(), rand.Reader)
	v, err := ct.NewSignatureVerifier(&k.PublicKey)
	if err != nil {
		panic(err)
	}
	sth := ct.SignedTreeHead{TreeSize: 7, Timestamp: 1700000000123}
	in, _ := ct.SerializeSTHSignatureInput(sth)
	d := sha256.Sum256(in)
	sig, _ := ecdsa.SignASN1(rand.Reader, k, d[:])
	body := sig[2:]
	forged := append(append([]byte{0x30, byte(len(body) + 3)}, body...), 2, 1, 0) // INTEGER 0 appended inside
	for _, c := range []struct {
		what string
		s    []byte
	}{{"genuine", sig}, {"INTEGER 0 appended inside the SEQUENCE", forged}} {
		sth.TreeHeadSignature = ct.DigitallySigned{HashAlgorithm: ct.SHA256, SignatureAlgorithm: ct.ECDSA, Signature: c.s}
		fmt.Printf("%-45s zcrypto: %v   crypto/ecdsa.VerifyASN1: %v\n", c.what, v.VerifySTHSignature(sth), ecdsa.VerifyASN1(&k.PublicKey, d[:], c.s))
	}
	if v.VerifySTHSignature(sth) == nil {
		fmt.Println("DEFECT: the padded signature is accepted")
		os.Exit(1)
	}
	fmt.Println("ok: refused")
}
