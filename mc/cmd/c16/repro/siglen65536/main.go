// Standalone reproducer (no harness code): a DigitallySigned whose signature is
// longer than 65535 bytes is marshalled without error, with a length prefix
// truncated to 16 bits; the bytes decode to a different value.
//
//	cd /verif/mc && GOFLAGS=-mod=mod GOPROXY=off go run ./cmd/c16/repro/siglen65536
package main

import (
	"bytes"
	"fmt"
	"os"

	"github.com/zmap/zcrypto/ct"
	xct "github.com/zmap/zcrypto/x509/ct"
)

func head(b []byte) []byte {
	if len(b) > 4 {
		return b[:4]
	}
	return b
}

func main() {
	bad := false
	sig := bytes.Repeat([]byte{0xab}, 65536)

	b, err := ct.MarshalDigitallySigned(ct.DigitallySigned{HashAlgorithm: ct.SHA256, SignatureAlgorithm: ct.ECDSA, Signature: sig})
	fmt.Printf("ct.MarshalDigitallySigned(65536-byte signature): err=%v len=%d header=%x\n", err, len(b), head(b))
	if err == nil {
		rd := bytes.NewReader(b)
		d, derr := ct.UnmarshalDigitallySigned(rd)
		fmt.Printf("  ct.UnmarshalDigitallySigned: err=%v decoded signature length=%d, %d bytes left unread\n", derr, len(d.Signature), rd.Len())
		bad = bad || derr != nil || !bytes.Equal(d.Signature, sig)
	}

	xb, err := xct.MarshalDigitallySigned(xct.DigitallySigned{HashAlgorithm: xct.SHA256, SignatureAlgorithm: xct.ECDSA, Signature: sig})
	fmt.Printf("x509/ct.MarshalDigitallySigned(65536-byte signature): err=%v len=%d header=%x\n", err, len(xb), head(xb))
	if err == nil {
		d, derr := xct.UnmarshalDigitallySigned(bytes.NewReader(xb))
		fmt.Printf("  x509/ct.UnmarshalDigitallySigned: err=%v decoded signature length=%d\n", derr, len(d.Signature))
		bad = bad || derr != nil || !bytes.Equal(d.Signature, sig)
	}

	sct := ct.SignedCertificateTimestamp{SCTVersion: ct.V1, Timestamp: 1,
		Signature: ct.DigitallySigned{HashAlgorithm: ct.SHA256, SignatureAlgorithm: ct.ECDSA, Signature: sig}}
	sb, err := ct.SerializeSCT(sct)
	n, _ := sct.SerializedLength()
	fmt.Printf("ct.SerializeSCT(65536-byte signature): err=%v len=%d SerializedLength=%d\n", err, len(sb), n)
	if err == nil {
		rd := bytes.NewReader(sb)
		s2, derr := ct.DeserializeSCT(rd)
		fmt.Printf("  ct.DeserializeSCT: err=%v decoded signature length=%d, %d bytes left unread\n", derr, len(s2.Signature.Signature), rd.Len())
		bad = bad || derr != nil || !bytes.Equal(s2.Signature.Signature, sig)
	}
	if bad {
		fmt.Println("REPRODUCED: serialisation succeeded but does not deserialise to the same value")
		os.Exit(1)
	}
	fmt.Println("not reproduced")
}
