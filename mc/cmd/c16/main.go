// C16 — CT structures serialise canonically and verify soundly.
//
// Engine E2 (deviation-bounded enumeration, G-field + byte mutation). Three oracles:
//
//  1. serialise => error, or the bytes deserialise to the same value and the
//     reported length equals len(bytes) (SCT, DigitallySigned in ct and x509/ct;
//     MerkleTreeLeaf and chain arrays, which zcrypto only reads, are serialised by
//     a harness encoder written from the RFC 6962 grammar). Every single-byte
//     mutation of a serialised form is decoded too: when the mutated bytes are
//     still well-formed they are the serialisation of another value and the
//     decoder must return exactly that value.
//  2. ct.SerializeSCTSignatureInput / SerializeSTHSignatureInput equal an
//     independent transcription of RFC 6962 §3.2 / §3.5, byte for byte.
//  3. with signatures made by the Go standard library over that independent
//     input, the verifier accepts; after any single-bit flip of an input field,
//     any bit flip / byte substitution / truncation of the signature, any hash or
//     signature algorithm id, or another log key, it accepts exactly when the
//     standard library verifies the same (input, signature) under that key.
//
//  4. text forms: DigitallySigned / SHA256Hash / SCT MarshalJSON equal the
//     documented JSON over the reference bytes and read back as the same value.
//  5. history oracle: a []byte handed to the caller is the caller's — it must not
//     change when the function (or a sibling) is called again, must not alias the
//     input, and the caller's writes must not show up in later results.
//
// Decoders: accepting bytes that are not the serialisation of the value returned
// is a violation; tolerated irregularities are an exact allow-list (case.go).
//
// model.go is the reference (no zcrypto in it); oracles.go / verify.go / extra.go compare.
package main

import (
	"encoding/json"
	"fmt"
	"io"
	"log"
	"time"

	"verifmc/internal/ev"
	"verifmc/internal/nohb"
)

const T0ms = uint64(1700000000123)

var (
	baseLogID = pat(32, 0x10)
	baseCert  = pat(300, 0x30)
	baseTBS   = pat(200, 0x55)
	baseIKH   = pat(32, 0xc0)
	baseRoot  = pat(32, 0x77)
)

func fill(n int, v byte) []byte {
	b := make([]byte, n)
	for i := range b {
		b[i] = v
	}
	return b
}

type cf = field[Case]
type ca = alt[Case]

func main() {
	if nohb.IsWorker() {
		nohb.WorkerMain(reentrantOps(), reentrantRepoDir())
		return
	}
	log.SetOutput(io.Discard) // ct.verifySignature logs "Garbage following signature"
	ev.Main("C16", "model_checking", func(c *ev.Ctx) {
		c.Rule("G-field: every assignment with at most d non-default fields (d printed per space) over boundary alphabets; " +
			"full Cartesian products where stated; every offset x byte substitution and every truncation of each baseline serialised form; " +
			"every single-bit flip of every signature-input field and of every signature. A case is distinct by construction (no two enumerated cases coincide); " +
			"non-trivial = reached the oracle comparison (all do). Decoders: every enumerated malformed input must be refused (only a zero-length ASN.1Cert is tolerated, allow-listed). " +
			"Verifier: additionally 5 non-DER encodings of each genuine ECDSA signature (extra element / stray byte inside the SEQUENCE, long-form lengths, padded r) must be refused, " +
			"a reduced deviation menu under RSA-3072 and RSA-4096 log keys, every log key loaded through PEM -> PublicKeyFromPEM -> NewSignatureVerifier. " +
			"Reader behaviour (reader.go): every io.Reader decoder of both packages (DeserializeSCT, UnmarshalDigitallySigned, ct.ReadMerkleTreeLeaf, ct.ReadTimestampedEntryInto on the leaf's inner entry) is run on every well-formed AND malformed input of part A through a reader wrapper with each behaviour of the menu {one byte per Read, half of the request per Read, io.EOF together with the last bytes, one byte per Read + that EOF, a split at offset k, a split at k with one (0,nil) answer at k; k = every offset for inputs <= 64 bytes, else every offset at which the all-at-once run issued a Read and the final position, each +-1} and must give the all-at-once result (value + bytes consumed, or error class); the four k-less behaviours only for: the 248 substitution values outside the 7-value alphabet in the full-alphabet byte sweeps, (quick) inputs above 4 KiB at enumeration depth 3 of A1/A4; inputs on which the decoder asks in one Read for more than 4 KiB and more than the whole input holds (declared lengths up to 16 MiB): one byte per Read only; A2 values outside the 12x12 boundary ids: baseline reader only. " +
			"Text forms: MarshalJSON of DigitallySigned, SHA256Hash and SCT for every value of A1/A2 in both packages. " +
			"History oracle: every function returning []byte (23, both packages) x every ordered pair of its 3-4 value alphabet. " +
			"Entry points (entry.go): E0 the exported functions of ct/{serialization,types,signatures}.go and x509/ct/{serialization,types}.go are listed with go/parser, every serialisation entry point must be driven (else the run is incomplete); " +
			"E1 ct.SerializeSCTHere x buffer {nil, empty non-nil, exact, +1, +4096 garbage, -1, header only, short length/large capacity} x the full product version{0,1} x extensions{0,1,2,255,256,65535,65536,65537} x signature{0,1,255,256,65535,65536,65537} x timestamp(2) x ids(2) x log id(2): the oracle of SerializeSCT (reference bytes + round trip, or an error; a value without serialisation must be refused whatever the buffer), ErrNotEnoughBuffer for a too-small buffer, result inside the caller's buffer; " +
			"E2 every exported serialiser (19 entry-point variants incl. text forms, SerializedLength and SerializeSCTHere with one re-used caller buffer) x all sequences of two calls (first: base with one field replaced; second: one field replaced by a new object, or overwritten in place, or nothing) sharing every other Go object, run on one goroutine: each result equals the reference of the value passed to that call.")
		c.Assume("reference = harness transcription of RFC 6962 §3.1-3.5/§4.6 and RFC 5246 DigitallySigned (model.go)",
			"crypto/rsa, crypto/ecdsa, crypto/sha* of the Go standard library are correct",
			"signatures are made by the standard library (PKCS#1 v1.5; ECDSA with a nil reader = RFC 6979), over the reference input, never over zcrypto's output",
			"nil and empty byte strings are the same value",
			"decoders: accepting bytes that are not the serialisation of the value returned (re-serialising gives other bytes) is a violation; the only tolerated irregularity is a zero-length ASN.1Cert (RFC lower bound <1..>), where re-serialising gives the same bytes (3 allow-listed observation classes, case.go)",
			"hash id ≠ sha256(4): the verifier must refuse (RFC 6962 §2.1.4)",
			"ECDSA: a strict DER signature followed by further bytes may be accepted (the verifier logs 'Garbage following signature' on purpose: 2 allow-listed observation classes); every other non-DER form must be refused",
			"JSON forms: SignedCertificateTimestamp.MarshalJSON writes the timestamp in seconds (0 beyond year 9999), as its field comment documents; the value read back is compared with that timestamp",
			"history oracle: run sequentially inside one goroutine per history; it detects storage shared between calls deterministically, concurrent use of one verifier from several goroutines is NOT explored")
		initKeys(c)

		if c.Replay != nil {
			var cs Case
			if err := json.Unmarshal(c.Replay, &cs); err != nil {
				c.Broken("bad witness: %v", err)
			}
			cs.Detail = ""
			r := newR(c)
			r.run(&cs)
			r.flush()
			reportViolations(c)
			return
		}

		for _, p := range []struct {
			name string
			f    func(*ev.Ctx)
		}{{"E0", partInventory}, {"E2", partEntryHistories}, {"A", partA}, {"E1", partHere}, {"B", partB}, {"C", partC}, {"K", partKeys}, {"H", partAlias}} {
			t := time.Now()
			p.f(c)
			c.Set("wall_s:part"+p.name, time.Since(t).Seconds())
		}
		publishObservations(c)
		reportViolations(c)
		reentrantPhase(c)
	})
}

// ---------------------------------------------------------------------------
// Part A: serialisation round trips and decoders

func partA(c *ev.Ctx) {
	all := !c.Quick()

	// A1. SCT values
	base := Case{Kind: "sct-rt", LogID: baseLogID, TS: T0ms, Hash: 4, SigAlg: 3, Sig: pat(71, 0x30)}
	u64 := func(name string, v uint64) ca { return ca{name, func(x *Case) { x.TS = v }} }
	ext := func(name string, b []byte) ca { return ca{name, func(x *Case) { x.Ext = b }} }
	sig := func(name string, b []byte) ca { return ca{name, func(x *Case) { x.Sig = b }} }
	var hashAlts, algAlts []ca
	for _, h := range []byte{0, 1, 2, 3, 5, 6, 7, 128, 255} {
		h := h
		hashAlts = append(hashAlts, ca{fmt.Sprint(h), func(x *Case) { x.Hash = h }})
	}
	for _, a := range []byte{0, 1, 2, 4, 128, 255} {
		a := a
		algAlts = append(algAlts, ca{fmt.Sprint(a), func(x *Case) { x.SigAlg = a }})
	}
	e65535, e65536 := pat(65535, 0x21), pat(65536, 0x22)
	s65535, s65536 := pat(65535, 0x41), pat(65536, 0x42)
	sctFields := []cf{
		{"version", []ca{{"1", func(x *Case) { x.Ver = 1 }}, {"2", func(x *Case) { x.Ver = 2 }}, {"255", func(x *Case) { x.Ver = 255 }}}},
		{"log_id", []ca{{"zeros", func(x *Case) { x.LogID = fill(32, 0) }}, {"ff", func(x *Case) { x.LogID = fill(32, 0xff) }}}},
		{"timestamp", []ca{u64("0", 0), u64("1", 1), u64("2^63-1", 1<<63-1), u64("2^63", 1<<63), u64("2^64-1", 1<<64-1)}},
		{"extensions", []ca{ext("len1:00", []byte{0}), ext("len1:ff", []byte{0xff}), ext("len2", []byte{1, 2}), ext("len255", pat(255, 0x23)),
			ext("len256", pat(256, 0x24)), ext("len65535", e65535), ext("len65536", e65536)}},
		{"hash", hashAlts},
		{"sig_alg", algAlts},
		{"signature", []ca{sig("len0", nil), sig("len1", []byte{0x30}), sig("len2", []byte{0x30, 0}), sig("len255", pat(255, 0x43)),
			sig("len256", pat(256, 0x44)), sig("len65535", s65535), sig("len65536", s65536)}},
	}
	d := ev.Pick(c, 3, len(sctFields))
	bt := newBatch(c, "A1 SCT values")
	enumDev(base, sctFields, d, func(v Case, note string, depth int) {
		v.Note = note
		if !all && depth >= 3 && len(v.Ext)+len(v.Sig) > 4096 {
			v.Menu = "core" // reader behaviours (reader.go): quick tier, the full menu on 64 KiB inputs at depth <= 2
		}
		for _, p := range []string{"ct", "x509/ct"} {
			v.Pkg = p
			bt.add(v)
		}
	})
	c.Set("A1_sct_values", fmt.Sprintf("7 fields, alternatives 3/2/5/7/9/6/7, d<=%d, both packages: %d cases", d, bt.done()))

	// A2. DigitallySigned values: full hash x sig_alg product for short signatures,
	// boundary alphabets for the long ones; both packages.
	bt = newBatch(c, "A2 DigitallySigned values")
	shortSigs := [][]byte{nil, {0x00}, {0x30, 0x00}}
	longSigs := [][]byte{pat(71, 0x30), pat(255, 0x43), pat(256, 0x44), s65535, s65536, pat(65537, 0x45)}
	if all {
		longSigs = append(longSigs, pat(131072, 0x46), pat(1<<20, 0x47))
	}
	ids := []byte{0, 1, 2, 3, 4, 5, 6, 7, 127, 128, 254, 255}
	for _, p := range []string{"ct", "x509/ct"} {
		for h := 0; h < 256; h++ {
			for a := 0; a < 256; a++ {
				for _, s := range shortSigs {
					bt.add(Case{Kind: "ds-rt", Pkg: p, Hash: byte(h), SigAlg: byte(a), Sig: s})
				}
			}
		}
		for _, h := range ids {
			for _, a := range ids {
				for _, s := range longSigs {
					bt.add(Case{Kind: "ds-rt", Pkg: p, Hash: h, SigAlg: a, Sig: s})
				}
			}
		}
	}
	c.Set("A2_ds_values", fmt.Sprintf("256x256 ids x signature lengths {0,1,2} + 12x12 ids x %d long lengths, both packages: %d cases", len(longSigs), bt.done()))

	// A3. every offset x every other byte value, every truncation, one-byte
	// extensions of baseline serialised forms
	type seed struct {
		kind, pkg, name string
		b               []byte
		fullAlphabet    bool // quick tier: all 255 values (else the 7-value substitution alphabet of DESIGN §2.2)
	}
	var seeds []seed
	sctA, _ := encSCT(sctVal{LogID: arr32(baseLogID), TS: T0ms, Hash: 4, Alg: 3, Sig: pat(71, 0x30)})
	sctB, _ := encSCT(sctVal{LogID: arr32(baseLogID), TS: T0ms, Ext: []byte{0xde, 0xad, 0x01}, Hash: 4, Alg: 1, Sig: pat(256, 0x50)})
	dsA, _ := encDS(dsVal{4, 3, pat(71, 0x30)})
	leafX := encLeaf(leafSpec{V: leafVal{TS: T0ms, EntryType: 0, Cert: baseCert}})
	leafP := encLeaf(leafSpec{V: leafVal{TS: T0ms, EntryType: 1, IKH: arr32(baseIKH), TBS: baseTBS, Ext: []byte{7, 8}}})
	chX := encCertList([][]byte{pat(40, 1), {0x99}, pat(30, 2)}, 0)
	chP := append(putVec(nil, pat(35, 3), 3), encCertList([][]byte{pat(20, 4), pat(10, 5)}, 0)...)
	for _, p := range []string{"ct", "x509/ct"} {
		seeds = append(seeds, seed{"sct-bytes", p, "SCT(ecdsa sig, no ext)", sctA, true}, seed{"sct-bytes", p, "SCT(rsa sig, 3-byte ext)", sctB, true},
			seed{"ds-bytes", p, "DigitallySigned", dsA, true})
	}
	// (3-byte length prefixes: each mutation of a top length byte makes the decoder allocate up to 16 MiB)
	seeds = append(seeds, seed{"leaf-bytes", "", "leaf(x509)", leafX, false}, seed{"leaf-bytes", "", "leaf(precert)", leafP, false},
		seed{"chainx-bytes", "", "x509 chain [40,1,30]", chX, false}, seed{"chainp-bytes", "", "precert chain 35+[20,10]", chP, false})
	before := c.States.Load()
	for _, s := range seeds {
		s := s
		n := len(s.b)
		// index i < n: substitutions at offset i; n <= i < 2n: truncation to i-n bytes; 2n, 2n+1: extension
		runParallel(c, "A3 mutations of "+s.name, 2*n+2, func(r *R, i int) {
			menu := ""
			mk := func(b []byte, note string) {
				cs := Case{Kind: s.kind, Pkg: s.pkg, Bytes: b, Note: s.name + ": " + note, Menu: menu}
				r.run(&cs)
			}
			switch {
			case i < n:
				small := map[byte]bool{}
				for _, v := range substitutions(s.b[i], false) {
					small[v] = true
				}
				for _, v := range substitutions(s.b[i], all || s.fullAlphabet) {
					m := append([]byte(nil), s.b...)
					m[i] = v
					menu = "core" // reader behaviours (reader.go): full menu for the 7-value alphabet, the k-less ones for the rest
					if small[v] {
						menu = ""
					}
					mk(m, fmt.Sprintf("offset %d := %02x", i, v))
				}
				menu = ""
			case i < 2*n:
				mk(append([]byte(nil), s.b[:i-n]...), fmt.Sprintf("truncated to %d bytes", i-n))
			case i == 2*n:
				mk(append(append([]byte(nil), s.b...), 0x00), "one byte 00 appended")
			default:
				mk(append(append([]byte(nil), s.b...), 0xff), "one byte ff appended")
			}
		})
	}
	c.Set("A3_byte_mutations", fmt.Sprintf("%d baseline forms, every offset x 255 values (quick: 7-value substitution alphabet for the leaf/chain forms) + every truncation + 2 extensions: %d cases", len(seeds), c.States.Load()-before))

	// A4. MerkleTreeLeaf bytes from the harness encoder
	type lf = field[leafSpec]
	type la = alt[leafSpec]
	lbase := leafSpec{V: leafVal{TS: T0ms, Cert: baseCert, IKH: arr32(baseIKH), TBS: baseTBS}}
	setLen := func(name string, b []byte) la { return la{name, func(s *leafSpec) { s.V.Cert, s.V.TBS = b, b }} }
	lenAlts := []la{setLen("0", nil), setLen("1", []byte{0x30}), setLen("65536", pat(65536, 0x61))}
	if all {
		lenAlts = append(lenAlts, setLen("2^24-1", pat(1<<24-1, 0x62)))
	}
	leafFields := []lf{
		{"version", []la{{"1", func(s *leafSpec) { s.V.Ver = 1 }}, {"255", func(s *leafSpec) { s.V.Ver = 255 }}}},
		{"leaf_type", []la{{"1", func(s *leafSpec) { s.V.LeafType = 1 }}, {"255", func(s *leafSpec) { s.V.LeafType = 255 }}}},
		{"timestamp", []la{{"0", func(s *leafSpec) { s.V.TS = 0 }}, {"2^63", func(s *leafSpec) { s.V.TS = 1 << 63 }}, {"2^64-1", func(s *leafSpec) { s.V.TS = 1<<64 - 1 }}}},
		{"entry_type", []la{{"precert", func(s *leafSpec) { s.V.EntryType = 1 }}, {"2", func(s *leafSpec) { s.V.EntryType = 2 }},
			{"256", func(s *leafSpec) { s.V.EntryType = 256 }}, {"65535", func(s *leafSpec) { s.V.EntryType = 65535 }}}},
		{"cert_len", lenAlts},
		{"cert_declared", []la{{"+1", func(s *leafSpec) { s.CertDecl = "+1" }}, {"-1", func(s *leafSpec) { s.CertDecl = "-1" }},
			{"2^24-1", func(s *leafSpec) { s.CertDecl = "max" }}, {"0", func(s *leafSpec) { s.CertDecl = "0" }}}},
		{"issuer_key_hash", []la{{"zeros", func(s *leafSpec) { s.V.IKH = [32]byte{} }}}},
		{"ext_len", []la{{"1", func(s *leafSpec) { s.V.Ext = []byte{9} }}, {"2", func(s *leafSpec) { s.V.Ext = []byte{9, 8} }}, {"65535", func(s *leafSpec) { s.V.Ext = e65535 }}}},
		{"ext_declared", []la{{"+1", func(s *leafSpec) { s.ExtDecl = "+1" }}, {"-1", func(s *leafSpec) { s.ExtDecl = "-1" }}, {"65535", func(s *leafSpec) { s.ExtDecl = "max" }}}},
		{"trailing", []la{{"1 byte", func(s *leafSpec) { s.Trailing = []byte{0} }}}},
	}
	ld := ev.Pick(c, 3, 5)
	bt = newBatch(c, "A4 MerkleTreeLeaf bytes")
	enumDev(lbase, leafFields, ld, func(s leafSpec, note string, depth int) {
		if len(s.V.Cert) >= 1<<20 && depth > 2 {
			return // 16 MiB entries only alone and in pairs
		}
		lc := Case{Kind: "leaf-bytes", Bytes: encLeaf(s), Note: note}
		if !all && depth >= 3 && len(lc.Bytes) > 4096 {
			lc.Menu = "core"
		}
		bt.add(lc)
	})
	c.Set("A4_leaf_bytes", fmt.Sprintf("10 fields of the harness encoder, d<=%d (thorough: 2^24-1-byte entries at d<=2): %d cases", ld, bt.done()))

	// A5. chain arrays: <=3 certificates of lengths {0,1,300}, outer length
	// exact/+1/-1, optional trailing byte, last element declared +1
	var cases []Case
	lens := []int{0, 1, 300}
	var lists [][][]byte
	var gen func(cur [][]byte)
	gen = func(cur [][]byte) {
		lists = append(lists, append([][]byte(nil), cur...))
		if len(cur) == 3 {
			return
		}
		for _, l := range lens {
			gen(append(cur, pat(l, byte(0x80+len(cur)))))
		}
	}
	gen(nil)
	for _, l := range lists {
		for _, delta := range []int{0, 1, -1} {
			for _, trail := range [][]byte{nil, {0x00}, {0x00, 0x00}, {0xff, 0xff, 0xff}} {
				note := fmt.Sprintf("%d certs, total%+d, %d trailing", len(l), delta, len(trail))
				x := append(encCertList(l, delta), trail...)
				cases = append(cases, Case{Kind: "chainx-bytes", Bytes: x, Note: note})
				for _, pl := range lens {
					p := append(putVec(nil, pat(pl, 0x70), 3), x...)
					cases = append(cases, Case{Kind: "chainp-bytes", Bytes: p, Note: fmt.Sprintf("precert %d + %s", pl, note)})
				}
			}
		}
	}
	cases = append(cases, Case{Kind: "chainp-bytes", Bytes: append(putU(nil, 301, 3), pat(300, 0x70)...), Note: "precert declared 301, 300 present, no list"},
		Case{Kind: "chainp-bytes", Bytes: putVec(nil, pat(300, 0x70), 3), Note: "precert only, list missing"},
		Case{Kind: "chainx-bytes", Bytes: nil, Note: "empty input"}, Case{Kind: "chainp-bytes", Bytes: nil, Note: "empty input"})
	c.Set("A5_chain_bytes", fmt.Sprintf("%d lists (<=3 certs of lengths 0/1/300) x total{exact,+1,-1} x trailing{0,1,2,3 bytes} for X509 and precert (precert 0/1/300) arrays: %d cases", len(lists), len(cases)))
	bt = newBatch(c, "A5 chain arrays")
	for _, cs := range cases {
		bt.add(cs)
	}
	bt.done()
}

// ---------------------------------------------------------------------------
// Part B: signature inputs (+ genuine standard-library signatures accepted)

func sctInputBase() Case {
	return Case{Kind: "sct-input", LogID: baseLogID, TS: T0ms, Hash: 4, SigAlg: 3, Sig: []byte{1, 2, 3},
		LeafTS: T0ms, Cert: baseCert, IKH: baseIKH, TBS: baseTBS}
}

func partB(c *ev.Ctx) {
	bothExt := func(name string, b []byte) ca { return ca{name, func(x *Case) { x.Ext, x.LeafExt = b, b }} }
	differ := func(b []byte) []byte {
		if len(b) == 0 {
			return []byte{0x01}
		}
		return flipBit(b, 0)
	}
	big1, big2 := pat(1<<24-1, 0x62), pat(1<<24, 0x63)
	fields := []cf{
		{"sct.version", []ca{{"1", func(x *Case) { x.Ver = 1 }}, {"255", func(x *Case) { x.Ver = 255 }}}},
		{"sct.timestamp", []ca{{"0", func(x *Case) { x.TS = 0 }}, {"2^63", func(x *Case) { x.TS = 1 << 63 }}, {"2^64-1", func(x *Case) { x.TS = 1<<64 - 1 }}}},
		{"entry.timestamp", []ca{{"other", func(x *Case) { x.LeafTS = 42 }}}},
		{"extensions", []ca{bothExt("len1", []byte{0x5a}), bothExt("len3", []byte{0xde, 0xad, 0x01}), bothExt("len65535", pat(65535, 0x21)), bothExt("len65536", pat(65536, 0x22))}},
		{"extensions-link", []ca{{"entry-copy-differs", func(x *Case) { x.LeafExt = differ(x.Ext) }}, {"sct-copy-differs", func(x *Case) { x.Ext = differ(x.LeafExt) }},
			{"entry-copy-empty", func(x *Case) {
				if len(x.Ext) == 0 {
					x.Ext = []byte{0x01}
				}
				x.LeafExt = nil
			}}}},
		{"entry.leaf_version", []ca{{"1", func(x *Case) { x.LeafVer = 1 }}}},
		{"entry.leaf_type", []ca{{"1", func(x *Case) { x.LeafType = 1 }}, {"255", func(x *Case) { x.LeafType = 255 }}}},
		{"entry_type", []ca{{"precert", func(x *Case) { x.EntryType = 1 }}, {"2", func(x *Case) { x.EntryType = 2 }}, {"65535", func(x *Case) { x.EntryType = 65535 }}}},
		{"cert_len", []ca{{"0", func(x *Case) { x.Cert = nil }}, {"1", func(x *Case) { x.Cert = []byte{0x30} }},
			{"2^24-1", func(x *Case) { x.Cert = big1 }}, {"2^24", func(x *Case) { x.Cert = big2 }}}},
		{"issuer_key_hash", []ca{{"zeros", func(x *Case) { x.IKH = fill(32, 0) }}, {"ff", func(x *Case) { x.IKH = fill(32, 0xff) }}}},
		{"tbs_len", []ca{{"0", func(x *Case) { x.TBS = nil }}, {"1", func(x *Case) { x.TBS = []byte{0x30} }},
			{"2^24-1", func(x *Case) { x.TBS = big1 }}, {"2^24", func(x *Case) { x.TBS = big2 }}}},
		{"sct.log_id", []ca{{"zeros", func(x *Case) { x.LogID = fill(32, 0) }}}},
	}
	d := ev.Pick(c, 3, 5)
	heavyDepth := ev.Pick(c, 1, 2) // 16 MiB entries only in combinations of this many deviations
	bt := newBatch(c, "B SCT signature inputs")
	enumDev(sctInputBase(), fields, d, func(v Case, note string, depth int) {
		if v.heavy() && depth > heavyDepth {
			return
		}
		v.Note = note
		bt.add(v)
	})
	c.Set("B_sct_inputs", fmt.Sprintf("12 fields of (SCT, entry), d<=%d (16 MiB entries: d<=%d): %d cases, each valid one signed with RSA-2048 and P-256", d, heavyDepth, bt.done()))

	bt = newBatch(c, "B STH signature inputs")
	for _, ver := range []uint8{0, 1, 255} {
		for _, size := range []uint64{12345, 0, 1, 1 << 63, 1<<64 - 1} {
			for _, ts := range []uint64{T0ms, 0, 1 << 63, 1<<64 - 1} {
				for ri, root := range [][]byte{baseRoot, fill(32, 0), fill(32, 0xff)} {
					for li, lid := range [][]byte{baseLogID, fill(32, 0)} {
						bt.add(Case{Kind: "sth-input", Ver: ver, TreeSize: size, TS: ts, Root: root, LogID: lid, Hash: 4, SigAlg: 3,
							Note: fmt.Sprintf("version=%d tree_size=%d timestamp=%d root#%d logid#%d", ver, size, ts, ri, li)})
					}
				}
			}
		}
	}
	c.Set("B_sth_inputs", fmt.Sprintf("full product version{0,1,255} x tree_size(5) x timestamp(4) x root(3) x log_id(2): %d cases", bt.done()))
}

// ---------------------------------------------------------------------------
// Part C: soundness of the verifier under deviations from genuine signatures

func partC(c *ev.Ctx) {
	all := !c.Quick()
	bases := []Case{
		{Kind: "sct-verify", Note: "SCT/x509", LogID: baseLogID, TS: T0ms, LeafTS: T0ms, EntryType: 0, Cert: baseCert, IKH: baseIKH, TBS: baseTBS},
		{Kind: "sct-verify", Note: "SCT/precert", LogID: baseLogID, TS: T0ms, LeafTS: T0ms, EntryType: 1, Cert: baseCert, IKH: baseIKH, TBS: baseTBS,
			Ext: []byte{0xde, 0xad, 0x01}, LeafExt: []byte{0xde, 0xad, 0x01}},
		{Kind: "sth-verify", Note: "STH", LogID: baseLogID, TS: T0ms, TreeSize: 123456789, Root: baseRoot},
	}
	total := int64(0)
	for _, b := range bases {
		for _, ks := range []string{"rsa2048", "p256", "rsa3072", "rsa4096"} {
			big := ks == "rsa3072" || ks == "rsa4096"
			g := b
			var input []byte
			if g.Kind == "sth-verify" {
				input, _ = refSTHInput(g.Ver, g.TS, g.TreeSize, arr32(g.Root))
			} else {
				input, _, _ = refSCTInput(g.Ver, g.TS, g.EntryType, g.Cert, arr32(g.IKH), g.TBS, g.Ext)
			}
			g.Key, g.Hash, g.SigAlg = ks, 4, algFor(ks)
			g.Sig = stdSign(ks, 4, input)
			name := b.Note + " signed by " + ks

			singles, menu := deviations(&g, input, true) // every byte value at every signature offset in both tiers
			bt := newBatch(c, "C "+name)
			add := func(note string, fs ...func(*Case)) {
				v := g
				for _, f := range fs {
					f(&v)
				}
				v.Note = name + ": " + note
				bt.add(v)
			}
			add("genuine")
			if big {
				// RSA-3072/4096 log keys: genuine + the reduced menu (first/last bit of every field and of the
				// signature, trailing byte, ids, every other key incl. the other big key), singles only.
				for _, a := range menu {
					add(a.name, a.f)
				}
				for _, k := range bigKeys {
					if k != ks {
						k := k
						add("verified under log key "+k, func(x *Case) { x.Key = k })
					}
				}
				total += bt.done()
				continue
			}
			for _, a := range singles {
				add(a.name, a.f)
			}
			// d = 2 over the reduced menu (different fields only); thorough: every
			// single deviation combined with every menu entry of another field
			first := menu
			if all {
				first = singles
			}
			inMenu := map[string]bool{}
			for _, m := range menu {
				inMenu[m.name] = true
			}
			for i := range first {
				for j := range menu {
					if first[i].fld == menu[j].fld {
						continue
					}
					if inMenu[first[i].name] && first[i].name >= menu[j].name {
						continue // unordered pair of two menu entries: once
					}
					add(first[i].name+" + "+menu[j].name, first[i].f, menu[j].f)
				}
			}
			// hash id x signature algorithm id
			// (the full 256 x 256 product is cheap: most pairs are refused before any arithmetic)
			idsH, idsA := seq(256), seq(256)
			for _, h := range idsH {
				for _, a := range idsA {
					h, a := byte(h), byte(a)
					add(fmt.Sprintf("hash=%d sig_alg=%d", h, a), func(x *Case) { x.Hash, x.SigAlg = h, a })
				}
			}
			// signatures really made under another hash, labelled with every defined hash id
			for _, hs := range []byte{1, 2, 3, 5, 6} {
				s := stdSign(ks, hs, input)
				for _, hl := range []byte{1, 2, 3, 4, 5, 6} {
					hl := hl
					add(fmt.Sprintf("signature made over hash id %d, labelled %d", hs, hl), func(x *Case) { x.Sig, x.Hash = s, hl })
				}
			}
			total += bt.done()

			// C-wire: the serialised genuine SCT, mutated, through DeserializeSCT + Verify
			if g.Kind == "sct-verify" {
				wire, ok := encSCT(g.sct())
				if !ok {
					c.Broken("baseline SCT not expressible")
				}
				n := len(wire)
				before := c.States.Load()
				runParallel(c, "C-wire "+name, 2*n, func(r *R, i int) {
					mk := func(b []byte, note string) {
						v := g
						v.Kind, v.Bytes, v.Sig, v.Note = "sct-wire-verify", b, nil, name+": serialised SCT "+note
						r.run(&v)
					}
					if i < n {
						for _, val := range substitutions(wire[i], true) {
							m := append([]byte(nil), wire...)
							m[i] = val
							mk(m, fmt.Sprintf("offset %d := %02x", i, val))
						}
					} else {
						mk(append([]byte(nil), wire[:i-n]...), fmt.Sprintf("truncated to %d bytes", i-n))
					}
				})
				total += c.States.Load() - before
			}
		}
	}
	c.Set("C_verifier_cases", fmt.Sprintf("3 baselines x 2 signing keys: all single deviations + pairs over a reduced menu (thorough: every single deviation x the menu) + id products + cross-hash signatures + mutated wire form: %d cases", total))
}

func seq(n int) []int {
	s := make([]int, n)
	for i := range s {
		s[i] = i
	}
	return s
}

type dev struct {
	fld, name string
	f         func(*Case)
}

// deviations lists every single deviation from a genuine case, and the reduced
// menu from which pairs are formed.
func deviations(g *Case, input []byte, all bool) (singles, menu []dev) {
	s := func(fld, name string, f func(*Case)) { singles = append(singles, dev{fld, name, f}) }
	m := func(fld, name string, f func(*Case)) { menu = append(menu, dev{fld, name, f}) }
	bitsOf := func(fld string, get func(*Case) *HB) {
		n := len(*get(g)) * 8
		for bit := 0; bit < n; bit++ {
			bit := bit
			s(fld, fmt.Sprintf("flip %s bit %d", fld, bit), func(x *Case) { p := get(x); *p = flipBit(*p, bit) })
		}
		if n > 0 {
			m(fld, "flip "+fld+" first bit", func(x *Case) { p := get(x); *p = flipBit(*p, 0) })
			m(fld, "flip "+fld+" last bit", func(x *Case) { p := get(x); *p = flipBit(*p, len(*p)*8-1) })
		}
	}
	for bit := 0; bit < 64; bit++ {
		bit := bit
		s("timestamp", fmt.Sprintf("flip timestamp bit %d", bit), func(x *Case) { x.TS ^= 1 << uint(bit) })
	}
	m("timestamp", "flip timestamp bit 0", func(x *Case) { x.TS ^= 1 })
	m("timestamp", "flip timestamp bit 63", func(x *Case) { x.TS ^= 1 << 63 })
	for bit := 0; bit < 8; bit++ {
		bit := bit
		s("version", fmt.Sprintf("flip version bit %d", bit), func(x *Case) { x.Ver ^= 1 << uint(bit) })
	}
	m("version", "flip version bit 0", func(x *Case) { x.Ver ^= 1 })
	bitsOf("log_id", func(x *Case) *HB { return &x.LogID }) // not part of either input: must not matter

	if g.Kind == "sth-verify" {
		for bit := 0; bit < 64; bit++ {
			bit := bit
			s("tree_size", fmt.Sprintf("flip tree_size bit %d", bit), func(x *Case) { x.TreeSize ^= 1 << uint(bit) })
		}
		m("tree_size", "flip tree_size bit 0", func(x *Case) { x.TreeSize ^= 1 })
		m("tree_size", "flip tree_size bit 63", func(x *Case) { x.TreeSize ^= 1 << 63 })
		bitsOf("root_hash", func(x *Case) *HB { return &x.Root })
	} else {
		// extensions: the SCT's copy, the entry's copy, or both
		for bit := 0; bit < len(g.Ext)*8; bit++ {
			bit := bit
			s("extensions", fmt.Sprintf("flip sct.extensions bit %d only", bit), func(x *Case) { x.Ext = flipBit(x.Ext, bit) })
			s("extensions", fmt.Sprintf("flip entry.extensions bit %d only", bit), func(x *Case) { x.LeafExt = flipBit(x.LeafExt, bit) })
			s("extensions", fmt.Sprintf("flip extensions bit %d in both", bit), func(x *Case) { x.Ext, x.LeafExt = flipBit(x.Ext, bit), flipBit(x.LeafExt, bit) })
		}
		appendB := func(b []byte) []byte { return append(append([]byte(nil), b...), 0x00) }
		s("extensions", "append a byte to sct.extensions only", func(x *Case) { x.Ext = appendB(x.Ext) })
		s("extensions", "append a byte to entry.extensions only", func(x *Case) { x.LeafExt = appendB(x.LeafExt) })
		s("extensions", "append a byte to both extensions", func(x *Case) { x.Ext, x.LeafExt = appendB(x.Ext), appendB(x.LeafExt) })
		m("extensions", "append a byte to both extensions", func(x *Case) { x.Ext, x.LeafExt = appendB(x.Ext), appendB(x.LeafExt) })
		m("extensions", "append a byte to sct.extensions only", func(x *Case) { x.Ext = appendB(x.Ext) })
		if len(g.Ext) > 0 {
			s("extensions", "drop the last byte of both extensions", func(x *Case) { x.Ext, x.LeafExt = x.Ext[:len(x.Ext)-1], x.LeafExt[:len(x.LeafExt)-1] })
			s("extensions", "empty both extensions", func(x *Case) { x.Ext, x.LeafExt = nil, nil })
		}
		bitsOf("x509_entry", func(x *Case) *HB { return &x.Cert })
		bitsOf("tbs_certificate", func(x *Case) *HB { return &x.TBS })
		bitsOf("issuer_key_hash", func(x *Case) *HB { return &x.IKH })
		for bit := 0; bit < 16; bit++ {
			bit := bit
			s("entry_type", fmt.Sprintf("flip entry_type bit %d", bit), func(x *Case) { x.EntryType ^= 1 << uint(bit) })
		}
		m("entry_type", "flip entry_type bit 0", func(x *Case) { x.EntryType ^= 1 })
		s("x509_entry", "append a byte to the entry", func(x *Case) { x.Cert, x.TBS = appendB(x.Cert), appendB(x.TBS) })
		s("x509_entry", "drop the last byte of the entry", func(x *Case) { x.Cert, x.TBS = x.Cert[:len(x.Cert)-1], x.TBS[:len(x.TBS)-1] })
		for bit := 0; bit < 64; bit++ {
			bit := bit
			s("entry.timestamp", fmt.Sprintf("flip entry.timestamp bit %d", bit), func(x *Case) { x.LeafTS ^= 1 << uint(bit) })
		}
		for bit := 0; bit < 8; bit++ {
			bit := bit
			s("entry.leaf_version", fmt.Sprintf("flip entry.leaf_version bit %d", bit), func(x *Case) { x.LeafVer ^= 1 << uint(bit) })
			s("entry.leaf_type", fmt.Sprintf("flip entry.leaf_type bit %d", bit), func(x *Case) { x.LeafType ^= 1 << uint(bit) })
		}
		m("entry.leaf_type", "flip entry.leaf_type bit 0", func(x *Case) { x.LeafType ^= 1 })
	}

	// the signature itself
	bitsOf("signature", func(x *Case) *HB { return &x.Sig })
	for off := range g.Sig {
		off := off
		for _, v := range substitutions(g.Sig[off], all) {
			v := v
			if v == g.Sig[off]^0x01 || v == g.Sig[off]^0x80 {
				continue // already among the bit flips
			}
			s("signature", fmt.Sprintf("signature[%d] := %02x", off, v), func(x *Case) {
				o := append([]byte(nil), x.Sig...)
				o[off] = v
				x.Sig = o
			})
		}
	}
	n := len(g.Sig)
	for _, l := range []int{0, 1, n / 2, n - 1} {
		l := l
		s("signature", fmt.Sprintf("signature truncated to %d bytes", l), func(x *Case) { x.Sig = x.Sig[:l] })
	}
	for _, extra := range [][]byte{{0x00}, {0xff}, {0x05, 0x00}} {
		extra := extra
		s("signature", fmt.Sprintf("signature followed by %x", extra), func(x *Case) { x.Sig = append(append([]byte(nil), x.Sig...), extra...) })
	}
	m("signature", "signature followed by 00", func(x *Case) { x.Sig = append(append([]byte(nil), x.Sig...), 0) })
	if g.SigAlg == 3 && len(g.Sig) > 8 && g.Sig[0] == 0x30 && g.Sig[1] < 0x7d {
		// non-DER encodings of the genuine (r,s): none of them is tolerated
		body := g.Sig[2:]
		s("signature", "ECDSA: INTEGER 0 appended inside the SEQUENCE", func(x *Case) {
			x.Sig = append(append([]byte{0x30, byte(len(body) + 3)}, body...), 2, 1, 0)
		})
		s("signature", "ECDSA: one byte 00 appended inside the SEQUENCE", func(x *Case) {
			x.Sig = append(append([]byte{0x30, byte(len(body) + 1)}, body...), 0)
		})
		s("signature", "ECDSA: SEQUENCE length in long form 81 xx", func(x *Case) {
			x.Sig = append([]byte{0x30, 0x81, byte(len(body))}, body...)
		})
		s("signature", "ECDSA: r with a redundant leading 00", func(x *Case) {
			rl := int(body[1])
			o := []byte{0x02, byte(rl + 1), 0x00}
			o = append(o, body[2:2+rl]...)
			o = append(o, body[2+rl:]...)
			x.Sig = append([]byte{0x30, byte(len(o))}, o...)
		})
		s("signature", "ECDSA: r length in long form 81 xx", func(x *Case) {
			rl := int(body[1])
			o := []byte{0x02, 0x81, byte(rl)}
			o = append(o, body[2:]...)
			x.Sig = append([]byte{0x30, byte(len(o))}, o...)
		})
	}
	s("signature", "signature replaced by the input", func(x *Case) { x.Sig = input })
	s("signature", "signature of length 65535", func(x *Case) { x.Sig = pat(65535, 0x41) })

	// algorithm ids and keys
	for v := 0; v < 256; v++ {
		v := byte(v)
		if v != g.Hash {
			s("hash", fmt.Sprintf("hash=%d", v), func(x *Case) { x.Hash = v })
		}
		if v != g.SigAlg {
			s("sig_alg", fmt.Sprintf("sig_alg=%d", v), func(x *Case) { x.SigAlg = v })
		}
	}
	for _, v := range []byte{0, 2, 3, 5, 6, 255} {
		v := v
		m("hash", fmt.Sprintf("hash=%d", v), func(x *Case) { x.Hash = v })
	}
	for _, v := range []byte{0, 1, 2, 3, 4, 255} {
		v := v
		if v != g.SigAlg {
			m("sig_alg", fmt.Sprintf("sig_alg=%d", v), func(x *Case) { x.SigAlg = v })
		}
	}
	for _, k := range keyNames {
		k := k
		if k != g.Key {
			s("key", "verified under log key "+k, func(x *Case) { x.Key = k })
			m("key", "verified under log key "+k, func(x *Case) { x.Key = k })
		}
	}
	return
}

// ---------------------------------------------------------------------------

func partKeys(c *ev.Ctx) {
	kinds := []string{"rsa512", "rsa1024", "rsa1025", "rsa2048", "rsa3072", "rsa4096", "p224", "p256", "p256b", "p384", "p521",
		"ed25519", "dsa1024", "dsa2048", "nil", "string", "zrsa-by-value", "ecdsa-by-value", "rsa-private-key", "ecdsa-private-key",
		"std-rsa2048", "std-rsa1024", "zrsa-nil-modulus", "ecdsa-nil-curve", "typed-nil-rsa", "typed-nil-std-rsa", "typed-nil-ecdsa", "p256-copied-params"}
	bt := newBatch(c, "K key kinds")
	for _, k := range kinds {
		bt.add(Case{Kind: "key", Key: k, Note: "NewSignatureVerifier(" + k + ")"})
	}
	c.Set("K_key_kinds", kinds)
	bt.done()
	// the package's own loader: PEM -> PublicKeyFromPEM -> NewSignatureVerifier -> Verify
	pemKeys := append(append([]string{}, keyNames...), bigKeys...)
	bt = newBatch(c, "K keys loaded from PEM")
	for _, k := range pemKeys {
		bt.add(Case{Kind: "key-pem", Key: k, Note: "PublicKeyFromPEM(" + k + ") -> NewSignatureVerifier -> VerifySTHSignature"})
	}
	c.Set("K_pem_keys", pemKeys)
	bt.done()
}

// ---------------------------------------------------------------------------
// Part H: history oracle — every function that hands a []byte to its caller x
// every ordered pair of inputs of its alphabet (same size/other content, larger, smaller)

func partAlias(c *ev.Ctx) {
	fns := aliasFns()
	bt := newBatch(c, "H alias histories")
	var names []string
	for _, f := range fns {
		names = append(names, f.name)
		for i := 0; i < f.n; i++ {
			for j := 0; j < f.n; j++ {
				bt.add(Case{Kind: "alias", Key: f.name, AI: i, AJ: j, Note: fmt.Sprintf("%s: value #%d, then value #%d, then every sibling, then the caller writes into the first result", f.name, i, j)})
			}
		}
	}
	c.Set("H_alias_functions", names)
	c.Set("H_alias_histories", fmt.Sprintf("%d functions returning []byte (both packages) x all ordered pairs of a 3-4 value alphabet: %d histories of 2 + %d sibling calls + 1 call each", len(fns), bt.done(), len(fns)-1))
}
