package main

import (
	"encoding/hex"
	"encoding/json"
	"fmt"
	"sort"
	"strconv"
	"strings"
	"sync"

	"verifmc/internal/ev"
)

// HB is a byte string that travels through JSON as hex, or as "pat:<n>:<seed>"
// when it is one of the harness' generated filler strings (keeps witnesses with
// 65536-byte or 16 MiB fields small).
type HB []byte

// pat is the deterministic filler: position dependent so that shifted or
// truncated copies differ from the original.
func pat(n int, seed byte) []byte {
	b := make([]byte, n)
	for i := range b {
		b[i] = seed + byte(i) + 3*byte(i>>8) + 5*byte(i>>16)
	}
	return b
}

func isPat(b []byte) bool {
	if len(b) <= 64 {
		return false
	}
	s := b[0]
	for i := range b {
		if b[i] != s+byte(i)+3*byte(i>>8)+5*byte(i>>16) {
			return false
		}
	}
	return true
}

func (h HB) MarshalJSON() ([]byte, error) {
	if isPat(h) {
		return json.Marshal(fmt.Sprintf("pat:%d:%d", len(h), h[0]))
	}
	return json.Marshal(hex.EncodeToString(h))
}

func (h *HB) UnmarshalJSON(b []byte) error {
	var s string
	if err := json.Unmarshal(b, &s); err != nil {
		return err
	}
	if strings.HasPrefix(s, "pat:") {
		p := strings.Split(s, ":")
		if len(p) != 3 {
			return fmt.Errorf("bad pat %q", s)
		}
		n, err1 := strconv.Atoi(p[1])
		sd, err2 := strconv.Atoi(p[2])
		if err1 != nil || err2 != nil {
			return fmt.Errorf("bad pat %q", s)
		}
		*h = pat(n, byte(sd))
		return nil
	}
	x, err := hex.DecodeString(s)
	*h = x
	return err
}

// Case is one self-contained evaluation; it is also the replay witness.
type Case struct {
	Kind string `json:"kind"`
	Pkg  string `json:"pkg,omitempty"` // "ct" or "x509/ct"
	Note string `json:"note,omitempty"`

	// SCT / DigitallySigned value
	Ver    uint8  `json:"ver"`
	LogID  HB     `json:"log_id,omitempty"`
	TS     uint64 `json:"ts"`
	Ext    HB     `json:"ext,omitempty"`
	Hash   uint8  `json:"hash"`
	SigAlg uint8  `json:"sig_alg"`
	Sig    HB     `json:"sig,omitempty"`

	// a serialised form handed to a decoder
	Bytes HB `json:"bytes,omitempty"`
	// reader-behaviour menu for the io.Reader decoders (reader.go): "" = full, "core" = the four k-less behaviours
	Menu string `json:"reader_menu,omitempty"`

	// log entry (leaf) the SCT is verified against
	LeafVer   uint8  `json:"leaf_ver"`
	LeafType  uint8  `json:"leaf_type"`
	LeafTS    uint64 `json:"leaf_ts"`
	EntryType uint16 `json:"entry_type"`
	Cert      HB     `json:"cert,omitempty"`
	IKH       HB     `json:"ikh,omitempty"`
	TBS       HB     `json:"tbs,omitempty"`
	LeafExt   HB     `json:"leaf_ext,omitempty"`

	// STH
	TreeSize uint64 `json:"tree_size"`
	Root     HB     `json:"root,omitempty"`

	// verifier key (fixture name) / key kind for NewSignatureVerifier / function name (alias histories)
	Key string `json:"key,omitempty"`

	// alias histories: indices of the first and second input in the function's alphabet
	AI int `json:"ai,omitempty"`
	AJ int `json:"aj,omitempty"`

	Detail string `json:"detail,omitempty"` // filled in when a violation is reported
}

func arr32(b []byte) (a [32]byte) {
	copy(a[:], b)
	return
}

func (cs *Case) heavy() bool {
	return len(cs.Cert) >= 1<<20 || len(cs.TBS) >= 1<<20 || len(cs.Bytes) >= 1<<20
}

// R is a worker-local runner: histogram, counters and observations are merged
// into the Ctx at the end.
type R struct {
	c                          *ev.Ctx
	h                          ev.Hist
	obs                        map[string]*Case
	vio                        map[string]*vrec
	cases, evals, calls, trace int64
}

var heavyMu sync.Mutex

func newR(c *ev.Ctx) *R {
	return &R{c: c, h: ev.Hist{}, obs: map[string]*Case{}, vio: map[string]*vrec{}}
}

// viol records a violation. The witness finally reported for a signature is
// the smallest one seen (fewest deviations, then fewest bytes, then by note),
// so that reports do not depend on goroutine scheduling.
func (r *R) viol(sig string, cs *Case, detail string) {
	v := r.vio[sig]
	if v == nil {
		v = &vrec{}
		r.vio[sig] = v
	}
	v.count++
	if v.best == nil || smaller(cs, v.best) {
		w := *cs
		w.Detail = detail
		v.best = &w
	}
}

type vrec struct {
	best  *Case
	count int64
}

func (cs *Case) weight() (int, int) {
	return strings.Count(cs.Note, " + "), len(cs.Bytes) + len(cs.Sig) + len(cs.Ext) + len(cs.LeafExt) + len(cs.Cert) + len(cs.TBS)
}

func smaller(a, b *Case) bool {
	ad, an := a.weight()
	bd, bn := b.weight()
	switch {
	case ad != bd:
		return ad < bd
	case an != bn:
		return an < bn
	case a.Note != b.Note:
		return a.Note < b.Note
	case a.Pkg != b.Pkg:
		return a.Pkg < b.Pkg
	case a.Hash != b.Hash:
		return a.Hash < b.Hash
	case a.SigAlg != b.SigAlg:
		return a.SigAlg < b.SigAlg
	}
	return string(a.Bytes) < string(b.Bytes)
}

var (
	vioMu  sync.Mutex
	vioAll = map[string]*vrec{}
)

// reportViolations hands the collected violations to the framework, in
// signature order, each with its smallest witness and its number of occurrences.
func reportViolations(c *ev.Ctx) {
	vioMu.Lock()
	defer vioMu.Unlock()
	sigs := make([]string, 0, len(vioAll))
	for k := range vioAll {
		sigs = append(sigs, k)
	}
	sort.Strings(sigs)
	for _, k := range sigs {
		v := vioAll[k]
		c.Violation(k, v.best)
		for i := int64(1); i < v.count && i < 1_000_000; i++ {
			c.Violation(k, nil)
		}
	}
	vioAll = map[string]*vrec{}
}

// allowedObservations: the exact classes of behaviour on which the property
// statement is silent and which the unchanged tree shows. Anything else handed
// to observe is a violation (no open-ended tolerance).
//   - zero-length ASN.1Cert: RFC 6962 says <1..2^24-1>, the decoders return the
//     empty certificate; re-serialising the returned value gives the same bytes, so
//     "serialise canonically / deserialise to the same value" is not touched.
//   - ECDSA signature followed by bytes after the SEQUENCE: ct.verifySignature
//     tolerates and logs it ("Garbage following signature") by design.
var allowedObservations = map[string]bool{
	"ct.ReadMerkleTreeLeaf accepts a zero-length ASN.1Cert (RFC 6962: <1..2^24-1>); re-serialises to the same bytes":         true,
	"ct.UnmarshalX509ChainArray accepts a zero-length ASN.1Cert (RFC 6962: <1..2^24-1>); re-serialises to the same bytes":    true,
	"ct.UnmarshalPrecertChainArray accepts a zero-length ASN.1Cert (RFC 6962: <1..2^24-1>); re-serialises to the same bytes": true,
	"ct.VerifySCTSignature accepts a strict DER ECDSA signature followed by further bytes (tolerated and logged by design: 'Garbage following signature')": true,
	"ct.VerifySTHSignature accepts a strict DER ECDSA signature followed by further bytes (tolerated and logged by design: 'Garbage following signature')": true,
}

// observe records behaviour on which the property statement is silent (both
// verdicts accepted); the first witness of each class goes into the evidence.
func (r *R) observe(class string, cs *Case) {
	if !allowedObservations[class] {
		r.viol("behaviour outside the allow-listed observation classes: "+class, cs, "")
		return
	}
	r.h["observed: "+class]++
	if cs.heavy() || len(cs.Bytes) >= 2048 || len(cs.Sig) >= 2048 || len(cs.Ext) >= 2048 {
		return
	}
	if o, ok := r.obs[class]; !ok || smaller(cs, o) {
		w := *cs
		r.obs[class] = &w
	}
}

var (
	obsMu  sync.Mutex
	obsAll = map[string]*Case{}
)

func (r *R) flush() {
	r.c.Merge(r.h)
	r.c.States.Add(r.cases)
	r.c.Distinct.Add(r.cases)
	r.c.Evaluations.Add(r.evals)
	r.c.Transitions.Add(r.calls)
	r.c.Traces.Add(r.trace)
	obsMu.Lock()
	for k, v := range r.obs {
		if o, ok := obsAll[k]; !ok || smaller(v, o) {
			obsAll[k] = v
		}
	}
	obsMu.Unlock()
	vioMu.Lock()
	for k, v := range r.vio {
		a := vioAll[k]
		if a == nil {
			vioAll[k] = v
			continue
		}
		a.count += v.count
		if smaller(v.best, a.best) {
			a.best = v.best
		}
	}
	vioMu.Unlock()
}

func publishObservations(c *ev.Ctx) {
	obsMu.Lock()
	defer obsMu.Unlock()
	keys := make([]string, 0, len(obsAll))
	for k := range obsAll {
		keys = append(keys, k)
	}
	sort.Strings(keys)
	out := []any{}
	for _, k := range keys {
		out = append(out, map[string]any{"class": k, "first_witness": obsAll[k]})
	}
	c.Set("observations_outside_the_statement", out)
}

// runParallel evaluates cases on the worker pool with one runner per worker.
func runParallel(c *ev.Ctx, what string, n int, f func(r *R, i int)) {
	W := c.Workers()
	rs := make([]*R, W)
	for i := range rs {
		rs[i] = newR(c)
	}
	done := c.Parallel(n, func(w, i int) { f(rs[w], i) })
	for _, r := range rs {
		r.flush()
	}
	if !done {
		c.Incomplete("budget hit during " + what)
	}
}

// batch evaluates cases in chunks so that large enumerations are never held
// in memory as a whole.
type batch struct {
	c     *ev.Ctx
	what  string
	buf   []Case
	bytes int
	total int64
}

func newBatch(c *ev.Ctx, what string) *batch { return &batch{c: c, what: what} }

func (b *batch) add(cs Case) {
	if b.total == 0 && len(b.buf) == 1 && b.c.WantSample() && len(cs.Bytes)+len(cs.Sig)+len(cs.Ext) < 600 && !cs.heavy() {
		w := cs
		b.c.Sample(map[string]any{"space": b.what, "case": &w}) // the second case of each space (the first is the baseline)
	}
	b.buf = append(b.buf, cs)
	b.bytes += len(cs.Bytes) // the other large fields are shared between cases, Bytes is built per case
	if len(b.buf) >= 16384 || b.bytes >= 128<<20 {
		b.flush()
	}
}

func (b *batch) flush() {
	if len(b.buf) == 0 {
		return
	}
	buf := b.buf
	runParallel(b.c, b.what, len(buf), func(r *R, i int) { r.run(&buf[i]) })
	b.total += int64(len(buf))
	for i := range buf {
		buf[i] = Case{} // release per-case byte strings
	}
	b.buf, b.bytes = b.buf[:0], 0
}

// done flushes and returns the number of cases evaluated.
func (b *batch) done() int64 {
	b.flush()
	b.c.Set("cases:"+b.what, b.total)
	return b.total
}

// ---------------------------------------------------------------------------
// G-field enumeration: every assignment with at most d non-default fields.

type alt[T any] struct {
	name string
	f    func(*T)
}
type field[T any] struct {
	name string
	alts []alt[T]
}

// enumDev emits base and every value obtained from it by giving at most d
// fields one of their alternative values (fields are applied in list order).
func enumDev[T any](base T, fields []field[T], d int, emit func(v T, note string, depth int)) {
	var rec func(start int, cur T, depth int, note string)
	rec = func(start int, cur T, depth int, note string) {
		n := note
		if n == "" {
			n = "baseline"
		}
		emit(cur, n, depth)
		if depth == d {
			return
		}
		for fi := start; fi < len(fields); fi++ {
			for _, a := range fields[fi].alts {
				nx := cur
				a.f(&nx)
				n := fields[fi].name + "=" + a.name
				if note != "" {
					n = note + " + " + n
				}
				rec(fi+1, nx, depth+1, n)
			}
		}
	}
	rec(0, base, 0, "")
}

func flipBit(b []byte, bit int) []byte {
	o := append([]byte(nil), b...)
	if bit < 0 || bit >= 8*len(o) {
		return o // (a combined deviation emptied the field)
	}
	o[bit/8] ^= 1 << uint(bit%8)
	return o
}

// substitutions is the byte-substitution alphabet of DESIGN §2.2 at one offset.
func substitutions(old byte, all bool) []byte {
	var out []byte
	if all {
		for v := 0; v < 256; v++ {
			if byte(v) != old {
				out = append(out, byte(v))
			}
		}
		return out
	}
	seen := map[byte]bool{old: true}
	for _, v := range []byte{0x00, 0x01, 0x7f, 0x80, 0xff, old ^ 0x01, old ^ 0x80} {
		if !seen[v] {
			seen[v] = true
			out = append(out, v)
		}
	}
	return out
}
