package main

// Re-entrancy pass (internal/nohb): the history oracle of part H finds storage shared between CALLS of one
// goroutine; a log monitor serialises, deserialises and verifies on many goroutines, with ONE SignatureVerifier
// per log shared by all of them (the type is an immutable holder of the log key with value-receiver methods: it is
// made to be shared). The main phase does not explore that (see its assumptions). Here every ordered pair of the
// menu below is run as "first call to completion, then the second on another goroutine" WITHOUT a happens-before
// edge in a -race build: ThreadSanitizer reports every location both calls touch unsynchronised — scratch buffers,
// hashers, decode tables shared across goroutines — for all interleavings at once.
//
// Menu: all 23 functions of the alias table (every Serialize*/Marshal*/Deserialize*/Unmarshal*/Read* of both ct
// packages, first value of each alphabet, inputs built inside the call), the four JSON decoders of both packages,
// VerifySCTSignature (x509 entry, precert entry) and VerifySTHSignature on genuine standard-library signatures
// with the caller's OWN verifier for an RSA-2048 and a P-256 log key, one tampered signature per key, and the same
// verifications by both calls of a pair through ONE shared SignatureVerifier per key (fresh per pair).

import (
	"crypto"
	stdrsa "crypto/rsa"
	"crypto/sha256"
	"os"
	"strings"
	"time"

	"github.com/zmap/zcrypto/ct"
	"verifmc/internal/ev"
	"verifmc/internal/fx"
	"verifmc/internal/nohb"
)

func reentrantRepoDir() string {
	if v := os.Getenv("VERIF_REPO_DIR"); v != "" {
		return v
	}
	return "/repo"
}

func reSign(key string, input []byte) []byte {
	d := sha256.Sum256(input)
	var sig []byte
	var err error
	if strings.HasPrefix(key, "rsa") {
		sig, err = stdrsa.SignPKCS1v15(nil, fx.StdRSA(key), crypto.SHA256, d[:])
	} else {
		sig, err = fx.EC(key).Sign(nil, d[:], crypto.SHA256) // nil reader: RFC 6979
	}
	if err != nil {
		panic("c16 re-entrancy: sign: " + err.Error())
	}
	return sig
}

func reVerifier(key string) *ct.SignatureVerifier {
	var pk crypto.PublicKey
	if strings.HasPrefix(key, "rsa") {
		pk = &fx.ZRSA(key).PublicKey
	} else {
		pk = &fx.EC(key).PublicKey
	}
	v, err := ct.NewSignatureVerifier(pk)
	if err != nil {
		return nil // refused log key: reported by the main phase (initKeys)
	}
	return v
}

// reOwnCase gives the call its own copies of every byte string of the case.
func reOwnCase(g Case) *Case {
	for _, p := range []*HB{&g.LogID, &g.Ext, &g.Sig, &g.Bytes, &g.Cert, &g.IKH, &g.TBS, &g.LeafExt, &g.Root} {
		if *p != nil {
			*p = append(HB{}, (*p)...)
		}
	}
	return &g
}

func reVerify(v *ct.SignatureVerifier, cs *Case) {
	if v == nil {
		return
	}
	var err error
	if cs.Kind == "sth-verify" {
		err = v.VerifySTHSignature(cs.sth())
	} else {
		err = v.VerifySCTSignature(ctSCT(cs.sct()), cs.entry())
	}
	if err != nil {
		_ = err.Error()
	}
}

func reentrantOps() []nohb.Op {
	var ops []nohb.Op
	for k, f := range aliasFns() {
		k := k
		ops = append(ops, nohb.Op{Name: f.name, New: func() func() {
			fn := aliasFns()[k] // fresh closures; the call builds its own input values
			return func() { fn.call(0) }
		}})
	}
	for _, pkg := range []string{"ct", "x509/ct"} {
		jf := jforms[pkg]
		ds, err1 := jf.dsMarshal(dsVal{4, 3, pat(71, 0x30)})
		sct, err2 := jf.sctMarshal(cpSCT(aliasSCTs[0]))
		if err1 != nil || err2 != nil {
			continue // MarshalJSON fails on a baseline value: reported by part A of the main phase
		}
		ops = append(ops, nohb.Op{Name: pkg + ".DigitallySigned.UnmarshalJSON", New: func() func() {
			in := cp(ds)
			return func() { jf.dsUnmarshal(in) }
		}})
		ops = append(ops, nohb.Op{Name: "json.Unmarshal into " + pkg + ".SignedCertificateTimestamp", New: func() func() {
			in := cp(sct)
			return func() { jf.sctDecode(in) }
		}})
	}
	bases := []Case{
		{Kind: "sct-verify", Note: "SCT/x509", LogID: baseLogID, TS: T0ms, LeafTS: T0ms, EntryType: 0, Cert: baseCert, IKH: baseIKH, TBS: baseTBS},
		{Kind: "sct-verify", Note: "SCT/precert", LogID: baseLogID, TS: T0ms, LeafTS: T0ms, EntryType: 1, Cert: baseCert, IKH: baseIKH, TBS: baseTBS,
			Ext: []byte{0xde, 0xad, 0x01}, LeafExt: []byte{0xde, 0xad, 0x01}},
		{Kind: "sth-verify", Note: "STH", LogID: baseLogID, TS: T0ms, TreeSize: 123456789, Root: baseRoot},
	}
	for _, ks := range []string{"rsa2048", "p256"} {
		shared := rePairShared(func() *ct.SignatureVerifier { return reVerifier(ks) })
		for bi, b := range bases {
			g := b
			var input []byte
			if g.Kind == "sth-verify" {
				input, _ = refSTHInput(g.Ver, g.TS, g.TreeSize, arr32(g.Root))
			} else {
				input, _, _ = refSCTInput(g.Ver, g.TS, g.EntryType, g.Cert, arr32(g.IKH), g.TBS, g.Ext)
			}
			g.Key, g.Hash, g.SigAlg = ks, 4, algFor(ks)
			g.Sig = reSign(ks, input)
			fn := "VerifySCTSignature"
			if g.Kind == "sth-verify" {
				fn = "VerifySTHSignature"
			}
			ops = append(ops, nohb.Op{Name: "own verifier(" + ks + ")." + fn + "(genuine " + g.Note + ")", New: func() func() {
				v, cs := reVerifier(ks), reOwnCase(g)
				return func() { reVerify(v, cs) }
			}})
			ops = append(ops, nohb.Op{Name: "SHARED verifier(" + ks + ")." + fn + "(genuine " + g.Note + ")", New: func() func() {
				v, cs := shared(), reOwnCase(g)
				return func() { reVerify(v, cs) }
			}})
			if bi == 0 {
				bad := g
				bad.Sig = flipBit(g.Sig, 8*(len(g.Sig)/2))
				ops = append(ops, nohb.Op{Name: "own verifier(" + ks + ")." + fn + "(tampered signature, " + g.Note + ")", New: func() func() {
					v, cs := reVerifier(ks), reOwnCase(bad)
					return func() { reVerify(v, cs) }
				}})
				ops = append(ops, nohb.Op{Name: "SHARED verifier(" + ks + ")." + fn + "(tampered signature, " + g.Note + ")", New: func() func() {
					v, cs := shared(), reOwnCase(bad)
					return func() { reVerify(v, cs) }
				}})
			}
		}
	}
	return rePairing(ops)
}

// nohb.WorkerMain builds every pair with exactly two New calls (first call, then second call) and calls New for
// nothing else, so New calls number 2k and 2k+1 belong to pair k. rePairing counts them; rePairShared(mk) returns
// an accessor that hands both calls of a pair the same object and makes a fresh one for the next pair.
var reNewCalls int

func rePairing(ops []nohb.Op) []nohb.Op {
	for i := range ops {
		inner := ops[i].New
		ops[i].New = func() func() { reNewCalls++; return inner() }
	}
	return ops
}

func rePairShared[T any](mk func() T) func() T {
	pair, cur := -1, *new(T)
	return func() T {
		if p := (reNewCalls - 1) / 2; p != pair {
			pair, cur = p, mk()
		}
		return cur
	}
}

const reentrantMenuText = "all 23 functions of the alias table (every Serialize*/Marshal*/Deserialize*/Unmarshal*/Read* of ct and x509/ct), the JSON decoders of both packages, VerifySCTSignature (x509, precert) / VerifySTHSignature on genuine + tampered signatures with an own verifier and through ONE shared SignatureVerifier (fresh per pair), RSA-2048 and P-256 log keys"

func reentrantPhase(c *ev.Ctx) {
	if c.Replay != nil {
		return // --replay re-executes one recorded witness of the main phase only
	}
	t0 := time.Now()
	o := nohb.Run(os.Getenv("VERIF_RACE_BIN"), nil, 10*time.Minute)
	if o.Broken != "" {
		c.Broken("re-entrancy pass: %s", o.Broken)
	}
	for _, sig := range o.Sigs() {
		c.Violation("re-entrancy: two calls on different goroutines share unsynchronised state: "+sig, map[string]any{"pair": o.Races[sig], "kind": "nohb"})
	}
	for k, v := range o.Panics {
		c.Violation("re-entrancy: "+k, map[string]any{"pair": v, "kind": "nohb"})
	}
	c.Outcome("re-entrancy pairs without a report", int64(o.Pairs))
	c.States.Add(int64(o.Pairs))
	c.Traces.Add(int64(o.Pairs))
	c.Set("reentrancy", map[string]any{"calls": o.Ops, "ordered_pairs": o.Pairs, "race_signatures": len(o.Races), "harness_only_reports": o.Harness, "canary_ok": o.CanaryOK,
		"seconds": time.Since(t0).Seconds(), "menu": reentrantMenuText,
		"method": "every ordered pair (a, b) of the menu: a to completion on one goroutine, then b on another, without a happens-before edge, in a -race build; a ThreadSanitizer report with both accesses in the repository is a violation"})
}
