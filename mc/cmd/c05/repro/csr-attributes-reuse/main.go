// Standalone reproducer (no harness code): CreateCertificateRequest writes into
// the caller's template. template.Attributes is copied shallowly, so
// "atvSet.Value[0] = append(atvSet.Value[0], atvs...)" stores the grown slice
// into template.Attributes[i].Value[0]. A template that carries an
// extensionRequest attribute is therefore changed by the first call: the
// generated subjectAltName (and every ExtraExtension) of call 1 stays inside
// template.Attributes, "is already specified via Attributes" on call 2 and
// suppresses the SAN generated from the DNSNames the template holds then.
//
//	cd /verif/mc && GOFLAGS=-mod=mod GOPROXY=off go run ./cmd/c05/repro/csr-attributes-reuse
//
// exit 1 = defect present (second request carries the first call's SAN),
// exit 0 = every request reports the DNSNames its template held at the call.
package main

import (
	"crypto/ed25519"
	"fmt"
	"os"
	"reflect"

	zasn1 "github.com/zmap/zcrypto/encoding/asn1"
	"github.com/zmap/zcrypto/x509"
	"github.com/zmap/zcrypto/x509/pkix"
)

func main() {
	key := ed25519.NewKeyFromSeed(make([]byte, 32))
	t := &x509.CertificateRequest{
		Subject: pkix.Name{CommonName: "reuse.example"},
		// an extensionRequest attribute asking for one private extension
		Attributes: []pkix.AttributeTypeAndValueSET{{
			Type: zasn1.ObjectIdentifier{1, 2, 840, 113549, 1, 9, 14},
			Value: [][]pkix.AttributeTypeAndValue{{
				{Type: zasn1.ObjectIdentifier{1, 3, 6, 1, 4, 1, 55555, 3}, Value: []byte{0x05, 0x00}},
			}},
		}},
	}
	bad := false
	for i, host := range []string{"a.example.com", "b.example.com"} {
		t.DNSNames = []string{host}
		before := len(t.Attributes[0].Value[0])
		der, err := x509.CreateCertificateRequest(nil, t, key)
		if err != nil {
			panic(err)
		}
		p, err := x509.ParseCertificateRequest(der)
		if err != nil {
			panic(err)
		}
		fmt.Printf("call %d: template.DNSNames=%q -> parsed DNSNames=%q; len(template.Attributes[0].Value[0]) %d -> %d\n",
			i+1, t.DNSNames, p.DNSNames, before, len(t.Attributes[0].Value[0]))
		if !reflect.DeepEqual(p.DNSNames, t.DNSNames) {
			bad = true
		}
	}
	if bad {
		fmt.Println("DEFECT: a request does not report the DNSNames its template held when it was created")
		os.Exit(1)
	}
	fmt.Println("ok")
}
