// Standalone reproducer (no harness code): CreateCertificateRequest drops the
// Critical flag of template.ExtraExtensions. The extension comes back from
// ParseCertificateRequest (zcrypto and crypto/x509 alike) with Critical=false.
// GOROOT's crypto/x509.CreateCertificateRequest keeps the flag for the same template.
//
//	cd /verif/mc && GOFLAGS=-mod=mod GOPROXY=off go run ./cmd/c05/repro/csr-critical
//
// exit 1 = defect present, exit 0 = the flag round-trips.
package main

import (
	"crypto/ecdsa"
	"crypto/elliptic"
	"crypto/rand"
	stdx509 "crypto/x509"
	stdpkix "crypto/x509/pkix"
	"fmt"
	"os"

	"github.com/zmap/zcrypto/x509"
	"github.com/zmap/zcrypto/x509/pkix"
)

func main() {
	key, err := ecdsa.GenerateKey(elliptic.P256(), rand.Reader)
	if err != nil {
		panic(err)
	}
	id := []int{1, 3, 6, 1, 4, 1, 55555, 5, 1}
	val := []byte{0x04, 0x03, 0x01, 0x02, 0x03}
	der, err := x509.CreateCertificateRequest(rand.Reader, &x509.CertificateRequest{
		Subject:         pkix.Name{CommonName: "csr.example"},
		ExtraExtensions: []pkix.Extension{{Id: id, Critical: true, Value: val}},
	}, key)
	if err != nil {
		panic(err)
	}
	bad := 0
	z, err := x509.ParseCertificateRequest(der)
	if err != nil {
		panic(err)
	}
	for _, e := range z.Extensions {
		fmt.Printf("zcrypto create -> zcrypto parse:      %v critical=%v\n", e.Id, e.Critical)
		if !e.Critical {
			bad++
		}
	}
	s, err := stdx509.ParseCertificateRequest(der)
	if err != nil {
		panic(err)
	}
	for _, e := range s.Extensions {
		fmt.Printf("zcrypto create -> crypto/x509 parse:  %v critical=%v\n", e.Id, e.Critical)
		if !e.Critical {
			bad++
		}
	}
	// the standard library on the same template, for comparison
	sder, err := stdx509.CreateCertificateRequest(rand.Reader, &stdx509.CertificateRequest{
		Subject:         stdpkix.Name{CommonName: "csr.example"},
		ExtraExtensions: []stdpkix.Extension{{Id: id, Critical: true, Value: val}},
	}, key)
	if err != nil {
		panic(err)
	}
	s2, _ := stdx509.ParseCertificateRequest(sder)
	for _, e := range s2.Extensions {
		fmt.Printf("crypto/x509 create -> crypto/x509 parse: %v critical=%v\n", e.Id, e.Critical)
	}
	if bad > 0 {
		fmt.Println("DEFECT: the Critical flag of ExtraExtensions does not survive CreateCertificateRequest")
		os.Exit(1)
	}
}
