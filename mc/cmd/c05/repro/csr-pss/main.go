// Standalone reproducer (no harness code): a CSR requested with an RSA-PSS
// SignatureAlgorithm carries the RSASSA-PSS AlgorithmIdentifier but a PKCS#1
// v1.5 signature, so neither zcrypto's own CertificateRequest.CheckSignature
// nor crypto/x509 accepts it.
//
//	cd /verif/mc && GOFLAGS=-mod=mod GOPROXY=off go run ./cmd/c05/repro/csr-pss
//
// exit 1 = defect present, exit 0 = requests verify.
package main

import (
	"crypto"
	"crypto/rand"
	stdrsa "crypto/rsa"
	stdx509 "crypto/x509"
	"fmt"
	"os"

	zrsa "github.com/zmap/zcrypto/rsa"
	"github.com/zmap/zcrypto/x509"
	"github.com/zmap/zcrypto/x509/pkix"
)

func main() {
	key, err := zrsa.GenerateKey(rand.Reader, 2048)
	if err != nil {
		panic(err)
	}
	stdPub := &stdrsa.PublicKey{N: key.N, E: int(key.E.Int64())}
	bad := 0
	for _, tc := range []struct {
		alg  x509.SignatureAlgorithm
		hash crypto.Hash
	}{{x509.SHA256WithRSA, crypto.SHA256}, {x509.SHA256WithRSAPSS, crypto.SHA256}, {x509.SHA384WithRSAPSS, crypto.SHA384}, {x509.SHA512WithRSAPSS, crypto.SHA512}} {
		tmpl := &x509.CertificateRequest{Subject: pkix.Name{CommonName: "csr.example"}, SignatureAlgorithm: tc.alg}
		der, err := x509.CreateCertificateRequest(rand.Reader, tmpl, key)
		if err != nil {
			panic(err)
		}
		p, err := x509.ParseCertificateRequest(der)
		if err != nil {
			panic(err)
		}
		self := p.CheckSignature()
		sp, err := stdx509.ParseCertificateRequest(der)
		if err != nil {
			panic(err)
		}
		stdv := sp.CheckSignature()
		h := tc.hash.New()
		h.Write(p.RawTBSCertificateRequest)
		digest := h.Sum(nil)
		v15 := stdrsa.VerifyPKCS1v15(stdPub, tc.hash, digest, p.Signature) == nil
		pss := stdrsa.VerifyPSS(stdPub, tc.hash, digest, p.Signature, &stdrsa.PSSOptions{SaltLength: stdrsa.PSSSaltLengthEqualsHash}) == nil
		fmt.Printf("requested %v: declared %v; zcrypto CheckSignature=%v; crypto/x509 CheckSignature=%v; signature really is pkcs1v15=%v pss=%v\n",
			tc.alg, p.SignatureAlgorithm, self, stdv, v15, pss)
		if self != nil || stdv != nil {
			bad++
		}
	}
	if bad > 0 {
		fmt.Println("DEFECT: certificate requests created with an RSA-PSS SignatureAlgorithm do not verify")
		os.Exit(1)
	}
	fmt.Println("ok: all created requests verify")
}
